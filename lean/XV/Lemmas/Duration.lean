/-
Helper definitions and lemmas for C09, xs:duration: the compareResult chain, codes of the four-valued order,
the month/day durations of the boundary sweep, bounded string enumeration.
-/
import XV.Model.Duration
import XV.Spec.Duration
set_option linter.unusedVariables false
namespace XV.Lemmas.Duration
open XV.Model.DateTime XV.Model.Duration XV.Spec.DateTime XV.Spec.Duration

/-- the `compareResult` chain of `compare(…, strict)` on the four reference results -/
def chain (r0 r1 r2 r3 : Int) (strict : Bool) : Int :=
  if r0 == INDETERMINATE then INDETERMINATE else
  let a := compareResult r0 r1 strict
  if a == INDETERMINATE then INDETERMINATE else
  let b := compareResult a r2 strict
  if b == INDETERMINATE then INDETERMINATE else
  compareResult b r3 strict

def tri : List Int := [-1, 0, 1]

theorem chain_table : ∀ r0 ∈ tri, ∀ r1 ∈ tri, ∀ r2 ∈ tri, ∀ r3 ∈ tri,
    chain r0 r1 r2 r3 true = (if r0 = r1 ∧ r1 = r2 ∧ r2 = r3 then r0 else INDETERMINATE) := by decide

theorem compareDur_eq_chain (p1 p2 : DT) (strict : Bool) :
    compareDur p1 p2 strict =
      if compareOrder p1 p2 == 0 then 0
      else chain (compareOrder (addDuration p1 0) (addDuration p2 0)) (compareOrder (addDuration p1 1) (addDuration p2 1))
             (compareOrder (addDuration p1 2) (addDuration p2 2)) (compareOrder (addDuration p1 3) (addDuration p2 3)) strict := rfl

def ord4Code : Ord4 → Int
  | .lt => -1 | .eq => 0 | .gt => 1 | .indeterminate => 2

def monthsDT (n : Nat) : DT := ⟨0, n, 0, 0, 0, 0, [], UTC_STD, 0, 0, false⟩
def daysDT (d : Nat) : DT := ⟨0, 0, d, 0, 0, 0, [], UTC_STD, 0, 0, false⟩
def hoursDT (h : Nat) : DT := ⟨0, 0, 0, h, 0, 0, [], UTC_STD, 0, 0, false⟩
def monthsD (n : Nat) : Dur := ⟨false, 0, n, 0, 0, 0, 0, []⟩
def daysD (d : Nat) : Dur := ⟨false, 0, 0, d, 0, 0, 0, []⟩
def hoursD (h : Nat) : Dur := ⟨false, 0, 0, 0, h, 0, 0, []⟩

/-- all strings of length ≤ n over an alphabet -/
def stringsUpTo (alpha : List Nat) : Nat → List (List Nat)
  | 0 => [[]]
  | n + 1 => [] :: (alpha.flatMap (fun c => (stringsUpTo alpha n).map (c :: ·)))

/-- `x < y` of §3.2.6.2 for durations without fractional seconds -/
def ltAll (a b : Dur) : Prop := ∀ r ∈ refs, addTo r a < addTo r b

theorem fracOrd_nil (a b : Dur) (ha : a.frac = []) (hb : b.frac = []) : fracOrd a b = .eq := by
  unfold fracOrd; rw [ha, hb]; cases a.neg <;> cases b.neg <;> rfl

theorem durOrder_lt_iff (a b : Dur) (ha : a.frac = []) (hb : b.frac = []) : durOrder a b = .lt ↔ ltAll a b := by
  have hf := fracOrd_nil a b ha hb
  unfold durOrder ltAll cmpAt refs
  simp only [hf, List.map_cons, List.map_nil, List.all_cons, List.all_nil, Bool.and_true, List.mem_cons,
    List.not_mem_nil, or_false, forall_eq_or_imp, forall_eq]
  by_cases h1 : addTo (1696, 9) a < addTo (1696, 9) b <;> by_cases h2 : addTo (1697, 2) a < addTo (1697, 2) b <;>
  by_cases h3 : addTo (1903, 3) a < addTo (1903, 3) b <;> by_cases h4 : addTo (1903, 7) a < addTo (1903, 7) b <;>
    simp [h1, h2, h3, h4] <;> (repeat' split) <;> simp_all

theorem go_tri (x y : List Int) : compareOrder.go x y ∈ tri := by
  induction x generalizing y with
  | nil => simp [compareOrder.go, tri]
  | cons a x ih =>
    cases y with
    | nil => simp [compareOrder.go, tri]
    | cons b y =>
      unfold compareOrder.go
      by_cases h1 : a < b
      · simp [h1, tri]
      · by_cases h2 : a > b
        · simp [h1, h2, tri]
        · simp only [h1, h2, if_false]; exact ih y

theorem compareOrder_tri (l r : DT) : compareOrder l r ∈ tri := by
  unfold compareOrder
  dsimp only
  split
  · exact go_tri _ _
  · split
    · unfold cmpMs; cases cmpFrac (normalize l).ms (normalize r).ms <;> simp [tri]
    · simp [tri]


end XV.Lemmas.Duration
