/- Lemmas for C12 (whole trees): C02's scanning predicates on strings of scalar values vs the serializer model's
checks on UTF-16 units (`--`, `?>`), and the CDATA splitter on units vs on characters. -/
import XV.Lemmas.TreeUnits
import XV.Lemmas.Cdata
namespace XV.Lemmas.TreeScan
open XV.Model.TreeSyntax XV.Model.Formatter XV.Model.Cdata XV.Lemmas.TreeUnits XV.Lemmas.Formatter
open XV.Spec.Xml

theorem char_eq_of_toNat (c d : Char) (h : c.toNat = d.toNat) : c = d := by
  apply Char.ext
  exact UInt32.toNat_inj.mp h

/-- the first unit of `U t` is the ASCII value `k` iff `t` starts with that character -/
theorem U_head (t : Str) (k : Nat) (hk : k < 0xD800) :
    (U t).head? = some k → ∃ d t', t = d :: t' ∧ d.toNat = k := by
  cases t with
  | nil => simp [U]
  | cons d t' =>
    intro h
    rw [U_cons] at h
    rcases units_cases d with ⟨_, h2, _, _⟩ | ⟨hh, l, h2, h3, _, _, _⟩
    · rw [h2] at h; simp at h; exact ⟨d, t', rfl, h⟩
    · rw [h2] at h; simp at h; simp [isHigh] at h3; omega

theorem cs2_cons (x y u : Nat) (r : List Nat) :
    XV.Model.Serializer.containsSub [x, y] (u :: r) =
      ((x == u && (r.head? == some y)) || XV.Model.Serializer.containsSub [x, y] r) := by
  cases r with
  | nil => simp [XV.Model.Serializer.containsSub, List.isPrefixOf]
  | cons r0 rt =>
    simp only [XV.Model.Serializer.containsSub, List.isPrefixOf, Bool.and_true, List.head?_cons]
    have : (some r0 == some y) = (y == r0) := by
      rw [Bool.eq_iff_iff]; simp only [beq_iff_eq, Option.some.injEq]; exact eq_comm
    rw [this]

/-- C02's `noEarly [a, b]` on characters implies the model's `containsSub` on units finds nothing -/
theorem noEarly_units (a b : Char) (ha : a.toNat < 128) (hb : b.toNat < 128) :
    ∀ (v : Str), noEarly [a, b] v = true → XV.Model.Serializer.containsSub [a.toNat, b.toNat] (U v) = false := by
  intro v
  induction v with
  | nil => intro _; simp [U, XV.Model.Serializer.containsSub]
  | cons c t ih =>
    intro h
    simp only [noEarly, Bool.and_eq_true] at h
    have iht := ih h.2
    rw [U_cons]
    rcases units_cases c with ⟨_, h2, _, _⟩ | ⟨hh, l, h2, h3, h4, _, _⟩
    · rw [h2]; simp only [List.singleton_append]
      rw [cs2_cons, iht]
      simp only [Bool.or_false, Bool.and_eq_false_iff]
      by_cases hca : a.toNat = c.toNat
      · right
        have hc : c = a := char_eq_of_toNat _ _ hca.symm
        subst hc
        cases hhd : ((U t).head? == some b.toNat) with
        | false => rfl
        | true =>
          exfalso
          obtain ⟨d, t', rfl, hd⟩ := U_head t b.toNat (by omega) (by simpa using hhd)
          have : d = b := char_eq_of_toNat _ _ hd
          subst this
          simp [stripPrefix] at h
      · left; simpa using hca
    · rw [h2]; simp only [List.cons_append, List.nil_append]
      have h1 : ¬ a.toNat = hh := by simp [isHigh] at h3; omega
      have h1' : ¬ a.toNat = l := by simp [isLow] at h4; omega
      rw [cs2_cons, cs2_cons, iht]
      simp [h1, h1']

theorem getLast_U_cons (c : Char) (t : Str) (k : Nat) (hk : k < 0xD800) :
    (U (c :: t)).getLast? = some k → (t = [] ∧ c.toNat = k) ∨ (t ≠ [] ∧ (U t).getLast? = some k) := by
  intro h
  rw [U_cons] at h
  cases t with
  | nil =>
    left
    simp only [U_nil, List.append_nil] at h
    rcases units_cases c with ⟨_, h2, _, _⟩ | ⟨hh, l, h2, _, h4, _, _⟩
    · rw [h2] at h; simp at h; exact ⟨rfl, h⟩
    · rw [h2] at h; simp at h; simp [isLow] at h4; omega
  | cons d t' =>
    right
    refine ⟨by simp, ?_⟩
    have hne : U (d :: t') ≠ [] := by
      rw [U_cons]
      rcases units_cases d with ⟨_, h2, _, _⟩ | ⟨hh, l, h2, _, _, _, _⟩ <;> rw [h2] <;> simp
    rw [List.getLast?_append] at h
    cases hg : (U (d :: t')).getLast? with
    | none => exact absurd (List.getLast?_eq_none_iff.mp hg) hne
    | some z => rw [hg] at h; simpa using h

/-- … and that the last unit is not `a` when `a = b` (a comment must not end in `-`) -/
theorem noEarly_last (a : Char) (ha : a.toNat < 128) :
    ∀ (v : Str), noEarly [a, a] v = true → (U v).getLast? ≠ some a.toNat := by
  intro v
  induction v with
  | nil => intro _; simp [U]
  | cons c t ih =>
    intro h hl
    simp only [noEarly, Bool.and_eq_true] at h
    rcases getLast_U_cons c t a.toNat (by omega) hl with ⟨rfl, hc⟩ | ⟨_, hl'⟩
    · have : c = a := char_eq_of_toNat _ _ hc
      subst this
      simp [stripPrefix] at h
    · exact ih h.2 hl'


/-! ### the CDATA splitter on units and on characters -/

theorem ew2_snoc2 (l : List Nat) (a b : Nat) : endsWith2 (l ++ [a, b]) = (a == 93 && b == 93) := by
  induction l with
  | nil => rfl
  | cons x l' ih =>
    cases l' with
    | nil => simp [endsWith2]
    | cons y l'' =>
      have : (x :: y :: l'') ++ [a, b] = x :: y :: (l'' ++ [a, b]) := rfl
      rw [this]
      cases h : l'' ++ [a, b] with
      | nil => simp at h
      | cons z r =>
        simp only [endsWith2]
        rw [← h]; simpa using ih

theorem ew2C_snoc2 (l : Str) (a b : Char) : endsWith2C (l ++ [a, b]) = (a == ']' && b == ']') := by
  induction l with
  | nil => rfl
  | cons x l' ih =>
    cases l' with
    | nil => simp [endsWith2C]
    | cons y l'' =>
      have : (x :: y :: l'') ++ [a, b] = x :: y :: (l'' ++ [a, b]) := rfl
      rw [this]
      cases h : l'' ++ [a, b] with
      | nil => simp at h
      | cons z r =>
        simp only [endsWith2C]
        rw [← h]; simpa using ih

theorem beq_char_nat (c : Char) (k : Char) : (c == k) = (c.toNat == k.toNat) := by
  rw [Bool.eq_iff_iff]
  simp only [beq_iff_eq]
  exact ⟨fun h => by rw [h], fun h => char_eq_of_toNat _ _ h⟩

/-- the last two units of `U s` (for `s` of at least two characters), by the shape of the last two characters -/
theorem ew2_U (cur : Str) : endsWith2 (U cur) = endsWith2C cur := by
  rcases List.eq_nil_or_concat cur with rfl | ⟨c1, c, rfl⟩
  · rfl
  · rw [List.concat_eq_append]
    rcases List.eq_nil_or_concat c1 with rfl | ⟨c2, d, rfl⟩
    · -- one character
      simp only [List.nil_append, U_cons, U_nil, List.append_nil]
      rcases units_cases c with ⟨_, h2, _, _⟩ | ⟨hh, l, h2, h3, h4, _, _⟩
      · rw [h2]; rfl
      · rw [h2]
        have : ¬ hh = 93 := by simp [isHigh] at h3; omega
        simp [endsWith2, endsWith2C, this]
    · rw [List.concat_eq_append, List.append_assoc]
      have hC : endsWith2C (c2 ++ ([d] ++ [c])) = (d == ']' && c == ']') := ew2C_snoc2 c2 d c
      rw [hC, U_append, U_append]
      simp only [U_cons, U_nil, List.append_nil]
      rcases units_cases c with ⟨_, hc2, _, _⟩ | ⟨ch, cl, hc2, hc3, hc4, _, _⟩
      · rcases units_cases d with ⟨_, hd2, _, _⟩ | ⟨dh, dl, hd2, hd3, hd4, _, _⟩
        · rw [hc2, hd2]
          have := ew2_snoc2 (U c2) d.toNat c.toNat
          simp only [List.singleton_append] at this ⊢
          rw [this, beq_char_nat d ']', beq_char_nat c ']']; rfl
        · rw [hc2, hd2]
          have := ew2_snoc2 (U c2 ++ [dh]) dl c.toNat
          simp only [List.append_assoc, List.cons_append, List.nil_append] at this ⊢
          rw [this]
          have h1 : ¬ dl = 93 := by simp [isLow] at hd4; omega
          have h2 : (d == ']') = false := by
            rw [beq_char_nat]
            have : ¬ d.toNat < 0x10000 := by intro hlt; simp [scalarUnits, hlt] at hd2
            simp; intro h; rw [h] at this; exact this (by decide)
          simp [h1, h2]
      · rw [hc2]
        have := ew2_snoc2 (U c2 ++ scalarUnits d.toNat) ch cl
        simp only [List.append_assoc] at this ⊢
        rw [this]
        have h1 : ¬ ch = 93 := by simp [isHigh] at hc3; omega
        have h2 : (c == ']') = false := by
          rw [beq_char_nat]
          have : ¬ c.toNat < 0x10000 := by intro hlt; simp [scalarUnits, hlt] at hc2
          simp; intro h; rw [h] at this; exact this (by decide)
        simp [h1, h2]

theorem splitFixed_U : ∀ (v cur : Str), splitFixed (U v) (U cur) = (splitFixedC v cur).map U := by
  intro v
  induction v with
  | nil => intro cur; simp [U_nil, splitFixed, splitFixedC]
  | cons c t ih =>
    intro cur
    rw [U_cons]
    rcases units_cases c with ⟨_, h2, _, _⟩ | ⟨hh, l, h2, h3, h4, _, _⟩
    · rw [h2]; simp only [List.singleton_append]
      have hb : (c.toNat == 62) = (c == '>') := by rw [beq_char_nat c '>']; rfl
      simp only [splitFixed, splitFixedC, hb, ew2_U cur]
      by_cases hc : (c == '>' && endsWith2C cur) = true
      · have := ih ['>']
        simp only [U_cons, U_nil, List.append_nil] at this
        have hgt : scalarUnits '>'.toNat = [62] := by decide
        rw [hgt] at this
        simp [hc, this]
      · have hc' : (c == '>' && endsWith2C cur) = false := by simpa using hc
        have := ih (cur ++ [c])
        rw [U_append, U_cons, U_nil, h2] at this
        simp only [List.append_nil] at this
        simp [hc', this]
    · rw [h2]; simp only [List.cons_append, List.nil_append]
      have e1 : ¬ hh = 62 := by simp [isHigh] at h3; omega
      have e2 : ¬ l = 62 := by simp [isLow] at h4; omega
      have e3 : (c == '>') = false := by
        rw [beq_char_nat]
        have : ¬ c.toNat < 0x10000 := by intro hlt; simp [scalarUnits, hlt] at h2
        simp; intro h; rw [h] at this; exact this (by decide)
      have := ih (cur ++ [c])
      rw [U_append, U_cons, U_nil, h2] at this
      simp only [List.append_nil] at this
      simp [splitFixed, splitFixedC, e1, e2, e3, this]

end XV.Lemmas.TreeScan
