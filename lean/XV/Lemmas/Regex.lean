import XV.Spec.Regex
namespace XV.Lemmas.Regex
open XV.Spec.Regex

theorem matches_empty_false {s : List Int} : ¬ Matches .empty s := by intro h; cases h

theorem matches_eps {s : List Int} : Matches .eps s ↔ s = [] := by
  constructor
  · intro h; cases h; rfl
  · rintro rfl; exact .eps

theorem matches_cls {rs neg} {s : List Int} : Matches (.cls rs neg) s ↔ ∃ c, s = [c] ∧ inCls c rs neg = true := by
  constructor
  · intro h; cases h with | cls hc => exact ⟨_, rfl, hc⟩
  · rintro ⟨c, rfl, hc⟩; exact .cls hc

theorem matches_cat {a b} {s : List Int} : Matches (.cat a b) s ↔ ∃ s1 s2, s = s1 ++ s2 ∧ Matches a s1 ∧ Matches b s2 := by
  constructor
  · intro h; cases h with | cat h1 h2 => exact ⟨_, _, rfl, h1, h2⟩
  · rintro ⟨s1, s2, rfl, h1, h2⟩; exact .cat h1 h2

theorem matches_alt {a b} {s : List Int} : Matches (.alt a b) s ↔ Matches a s ∨ Matches b s := by
  constructor
  · intro h; cases h with
    | altL h => exact Or.inl h
    | altR h => exact Or.inr h
  · rintro (h | h); exact .altL h; exact .altR h

theorem nullable_iff (r : Re) : nullable r = true ↔ Matches r [] := by
  induction r with
  | empty => simp [nullable, matches_empty_false]
  | eps => simp [nullable, matches_eps]
  | cls rs neg => simp [nullable, matches_cls]
  | cat a b iha ihb =>
    simp only [nullable, Bool.and_eq_true, iha, ihb, matches_cat]
    constructor
    · rintro ⟨h1, h2⟩; exact ⟨[], [], rfl, h1, h2⟩
    · rintro ⟨s1, s2, h, h1, h2⟩
      have : s1 = [] ∧ s2 = [] := by simpa using h.symm
      rw [this.1] at h1; rw [this.2] at h2; exact ⟨h1, h2⟩
  | alt a b iha ihb => simp only [nullable, Bool.or_eq_true, iha, ihb, matches_alt]
  | star a _ => simp [nullable]; exact .starNil

/-- a non-empty match of `a*` starts with a non-empty match of `a` -/
theorem star_cons_split {a : Re} {w : List Int} (h : Matches (.star a) w) :
    ∀ c s, w = c :: s → ∃ s1 s2, s = s1 ++ s2 ∧ Matches a (c :: s1) ∧ Matches (.star a) s2 := by
  generalize hr : Re.star a = r at h
  induction h with
  | eps => cases hr
  | cls _ => cases hr
  | cat _ _ _ _ => cases hr
  | altL _ _ => cases hr
  | altR _ _ => cases hr
  | starNil => intro c s h; cases h
  | @starCons a' s1 t h1 h2 _ ih2 =>
    injection hr with hr; subst hr
    intro c s hw
    cases s1 with
    | nil => exact ih2 rfl c s (by simpa using hw)
    | cons d s1' =>
      have hw' : d = c ∧ s1' ++ t = s := by simpa using hw
      obtain ⟨rfl, rfl⟩ := hw'
      exact ⟨s1', t, rfl, h1, h2⟩

theorem deriv_iff (c : Int) (r : Re) : ∀ s, Matches (deriv c r) s ↔ Matches r (c :: s) := by
  induction r with
  | empty => intro s; simp [deriv, matches_empty_false]
  | eps => intro s; simp [deriv, matches_empty_false, matches_eps]
  | cls rs neg =>
    intro s
    simp only [deriv]
    split
    · rename_i h
      simp only [matches_eps, matches_cls]
      constructor
      · rintro rfl; exact ⟨c, rfl, h⟩
      · rintro ⟨d, h1, _⟩; simpa using (List.cons.inj h1).2
    · rename_i h
      simp only [matches_empty_false, matches_cls, false_iff]
      rintro ⟨d, h1, h2⟩
      have := (List.cons.inj h1).1; subst this; exact h h2
  | cat a b iha ihb =>
    intro s
    have key : Matches (.cat a b) (c :: s) ↔
        (∃ s1 s2, s = s1 ++ s2 ∧ Matches a (c :: s1) ∧ Matches b s2) ∨ (Matches a [] ∧ Matches b (c :: s)) := by
      rw [matches_cat]
      constructor
      · rintro ⟨s1, s2, h, h1, h2⟩
        cases s1 with
        | nil => right; simp at h; subst h; exact ⟨h1, h2⟩
        | cons d s1' =>
          have : d = c ∧ s1' ++ s2 = s := by simpa using h.symm
          obtain ⟨rfl, rfl⟩ := this
          left; exact ⟨s1', s2, rfl, h1, h2⟩
      · rintro (⟨s1, s2, rfl, h1, h2⟩ | ⟨h1, h2⟩)
        · exact ⟨c :: s1, s2, rfl, h1, h2⟩
        · exact ⟨[], c :: s, rfl, h1, h2⟩
    rw [key]
    simp only [deriv]
    split
    · rename_i hn
      rw [matches_alt, matches_cat, ihb]
      have hn' := (nullable_iff a).1 hn
      constructor
      · rintro (⟨s1, s2, rfl, h1, h2⟩ | h)
        · left; exact ⟨s1, s2, rfl, (iha s1).1 h1, h2⟩
        · right; exact ⟨hn', h⟩
      · rintro (⟨s1, s2, rfl, h1, h2⟩ | ⟨_, h⟩)
        · left; exact ⟨s1, s2, rfl, (iha s1).2 h1, h2⟩
        · right; exact h
    · rename_i hn
      rw [matches_cat]
      constructor
      · rintro ⟨s1, s2, rfl, h1, h2⟩; left; exact ⟨s1, s2, rfl, (iha s1).1 h1, h2⟩
      · rintro (⟨s1, s2, rfl, h1, h2⟩ | ⟨h1, _⟩)
        · exact ⟨s1, s2, rfl, (iha s1).2 h1, h2⟩
        · exact absurd ((nullable_iff a).2 h1) hn
  | alt a b iha ihb => intro s; simp only [deriv, matches_alt, iha, ihb]
  | star a iha =>
    intro s
    simp only [deriv, matches_cat]
    constructor
    · rintro ⟨s1, s2, rfl, h1, h2⟩
      exact Matches.starCons (s := c :: s1) ((iha s1).1 h1) h2
    · intro h
      obtain ⟨s1, s2, rfl, h1, h2⟩ := star_cons_split h c s rfl
      exact ⟨s1, s2, rfl, (iha s1).2 h1, h2⟩

theorem derivMatch_iff : ∀ (s : List Int) (r : Re), derivMatch r s = true ↔ Matches r s := by
  intro s
  induction s with
  | nil => intro r; simp [derivMatch, nullable_iff]
  | cons c s ih => intro r; simp only [derivMatch, ih, deriv_iff]

theorem matches_star_eps_like {a : Re} (h : ∀ s, Matches a s → s = []) : ∀ s, Matches (.star a) s → s = [] := by
  intro s hs
  generalize hr : Re.star a = r at hs
  induction hs with
  | eps => cases hr
  | cls _ => cases hr
  | cat _ _ _ _ => cases hr
  | altL _ _ => cases hr
  | altR _ _ => cases hr
  | starNil => rfl
  | @starCons a' s1 t h1 h2 _ ih2 =>
    injection hr with hr; subst hr
    rw [h _ h1, ih2 rfl]; rfl

theorem star_congr {a b : Re} (h : ∀ s, Matches a s ↔ Matches b s) : ∀ s, Matches (.star a) s → Matches (.star b) s := by
  intro s hs
  generalize hr : Re.star a = r at hs
  induction hs with
  | eps => cases hr
  | cls _ => cases hr
  | cat _ _ _ _ => cases hr
  | altL _ _ => cases hr
  | altR _ _ => cases hr
  | starNil => exact .starNil
  | @starCons a' s1 t h1 h2 _ ih2 =>
    injection hr with hr; subst hr
    exact .starCons ((h _).1 h1) (ih2 rfl)

theorem matches_mkAlt : ∀ (l : List Re) (s : List Int), Matches (mkAlt l) s ↔ ∃ q ∈ l, Matches q s := by
  intro l
  induction l with
  | nil => intro s; simp [mkAlt, matches_empty_false]
  | cons r t ih =>
    intro s
    cases t with
    | nil => simp [mkAlt]
    | cons r2 t2 =>
      have : mkAlt (r :: r2 :: t2) = .alt r (mkAlt (r2 :: t2)) := rfl
      rw [this, matches_alt, ih s]
      simp

theorem altList_iff (r : Re) (s : List Int) : (∃ q ∈ altList r, Matches q s) ↔ Matches r s := by
  induction r with
  | empty => simp [altList, matches_empty_false]
  | eps => simp [altList]
  | cls rs neg => simp [altList]
  | cat a b _ _ => simp [altList]
  | alt a b iha ihb =>
    simp only [altList, List.mem_append, matches_alt, ← iha, ← ihb]
    constructor
    · rintro ⟨q, hq | hq, hm⟩
      · exact Or.inl ⟨q, hq, hm⟩
      · exact Or.inr ⟨q, hq, hm⟩
    · rintro (⟨q, hq, hm⟩ | ⟨q, hq, hm⟩)
      · exact ⟨q, Or.inl hq, hm⟩
      · exact ⟨q, Or.inr hq, hm⟩
  | star a _ => simp [altList]

theorem mem_dedup (q : Re) : ∀ l : List Re, q ∈ dedup l ↔ q ∈ l := by
  intro l
  induction l with
  | nil => simp [dedup]
  | cons x t ih =>
    simp only [dedup]
    split
    · rename_i h
      rw [ih]; constructor
      · intro h'; exact List.mem_cons_of_mem _ h'
      · intro h'; rcases List.mem_cons.1 h' with rfl | h'
        · exact h
        · exact h'
    · simp only [List.mem_cons, ih]

theorem simp_iff (r : Re) : ∀ s, Matches (simp r) s ↔ Matches r s := by
  induction r with
  | empty => intro s; simp [simp]
  | eps => intro s; simp [simp]
  | cls rs neg => intro s; simp [simp]
  | cat a b iha ihb =>
    intro s
    simp only [simp]
    rw [matches_cat]
    split
    · rename_i h
      simp only [matches_empty_false, false_iff]
      rintro ⟨s1, s2, _, h1, _⟩
      have := (iha s1).2 h1; rw [h] at this; exact matches_empty_false this
    · rename_i h _
      simp only [matches_empty_false, false_iff]
      rintro ⟨s1, s2, _, _, h2⟩
      have := (ihb s2).2 h2; rw [h] at this; exact matches_empty_false this
    · rename_i h _
      constructor
      · intro hm; exact ⟨[], s, rfl, (iha []).1 (by rw [h]; exact .eps), (ihb s).1 hm⟩
      · rintro ⟨s1, s2, rfl, h1, h2⟩
        have := (iha s1).2 h1; rw [h, matches_eps] at this; subst this
        exact (ihb s2).2 h2
    · rename_i h _ _
      constructor
      · intro hm; exact ⟨s, [], by simp, (iha s).1 hm, (ihb []).1 (by rw [h]; exact .eps)⟩
      · rintro ⟨s1, s2, rfl, h1, h2⟩
        have := (ihb s2).2 h2; rw [h, matches_eps] at this; subst this
        simpa using (iha s1).2 h1
    · rw [matches_cat]
      constructor
      · rintro ⟨s1, s2, rfl, h1, h2⟩; exact ⟨s1, s2, rfl, (iha s1).1 h1, (ihb s2).1 h2⟩
      · rintro ⟨s1, s2, rfl, h1, h2⟩; exact ⟨s1, s2, rfl, (iha s1).2 h1, (ihb s2).2 h2⟩
  | alt a b iha ihb =>
    intro s
    simp only [simp]
    rw [matches_mkAlt, matches_alt, ← iha s, ← ihb s, ← altList_iff (simp a) s, ← altList_iff (simp b) s]
    constructor
    · rintro ⟨q, hq, hm⟩
      rcases List.mem_append.1 ((mem_dedup q _).1 hq) with h | h
      · exact Or.inl ⟨q, h, hm⟩
      · exact Or.inr ⟨q, h, hm⟩
    · rintro (⟨q, hq, hm⟩ | ⟨q, hq, hm⟩)
      · exact ⟨q, (mem_dedup q _).2 (List.mem_append.2 (Or.inl hq)), hm⟩
      · exact ⟨q, (mem_dedup q _).2 (List.mem_append.2 (Or.inr hq)), hm⟩
  | star a iha =>
    intro s
    simp only [simp]
    split
    · rename_i h
      rw [matches_eps]
      constructor
      · rintro rfl; exact .starNil
      · intro hm
        exact matches_star_eps_like (fun t ht => by
          have := (iha t).2 ht; rw [h] at this; exact absurd this matches_empty_false) s hm
    · rename_i h
      rw [matches_eps]
      constructor
      · rintro rfl; exact .starNil
      · intro hm
        exact matches_star_eps_like (fun t ht => by
          have := (iha t).2 ht; rw [h] at this; exact matches_eps.1 this) s hm
    · constructor
      · exact star_congr iha s
      · exact star_congr (fun t => (iha t).symm) s

theorem fastMatch_iff : ∀ (s : List Int) (r : Re), fastMatch r s = true ↔ Matches r s := by
  intro s
  induction s with
  | nil => intro r; simp [fastMatch, nullable_iff]
  | cons c s ih => intro r; simp only [fastMatch, ih, simp_iff, deriv_iff]

/-! quantifiers -/

/-- `s ∈ L(r)^k` -/
inductive Pow (r : Re) : Nat → List Int → Prop
  | zero : Pow r 0 []
  | succ {k s t} : Matches r s → Pow r k t → Pow r (k + 1) (s ++ t)

theorem pow_iff (r : Re) : ∀ n s, Matches (pow r n) s ↔ Pow r n s := by
  intro n
  induction n with
  | zero => intro s; simp only [pow, matches_eps]; constructor
            · rintro rfl; exact .zero
            · intro h; cases h; rfl
  | succ n ih =>
    intro s
    simp only [pow, matches_cat]
    constructor
    · rintro ⟨s1, s2, rfl, h1, h2⟩; exact .succ h1 ((ih s2).1 h2)
    · intro h; cases h with | succ h1 h2 => exact ⟨_, _, rfl, h1, (ih _).2 h2⟩

theorem upto_iff (r : Re) : ∀ k s, Matches (upto r k) s ↔ ∃ j, j ≤ k ∧ Pow r j s := by
  intro k
  induction k with
  | zero =>
    intro s; simp only [upto, matches_eps]
    constructor
    · rintro rfl; exact ⟨0, Nat.le_refl _, .zero⟩
    · rintro ⟨j, hj, hp⟩
      have : j = 0 := by omega
      subst this; cases hp; rfl
  | succ k ih =>
    intro s
    simp only [upto, opt, matches_alt, matches_cat, matches_eps]
    constructor
    · rintro (⟨s1, s2, rfl, h1, h2⟩ | rfl)
      · obtain ⟨j, hj, hp⟩ := (ih s2).1 h2
        exact ⟨j + 1, by omega, .succ h1 hp⟩
      · exact ⟨0, by omega, .zero⟩
    · rintro ⟨j, hj, hp⟩
      cases hp with
      | zero => right; rfl
      | succ h1 h2 => left; exact ⟨_, _, rfl, h1, (ih _).2 ⟨_, by omega, h2⟩⟩

theorem star_iff (r : Re) : ∀ s, Matches (.star r) s ↔ ∃ j, Pow r j s := by
  intro s
  constructor
  · intro h
    generalize hr : Re.star r = q at h
    induction h with
    | eps => cases hr
    | cls _ => cases hr
    | cat _ _ _ _ => cases hr
    | altL _ _ => cases hr
    | altR _ _ => cases hr
    | starNil => exact ⟨0, .zero⟩
    | @starCons a' s1 t h1 h2 _ ih2 =>
      injection hr with hr; subst hr
      obtain ⟨j, hp⟩ := ih2 rfl
      exact ⟨j + 1, .succ h1 hp⟩
  · rintro ⟨j, hp⟩
    induction hp with
    | zero => exact .starNil
    | succ h1 _ ih => exact .starCons h1 ih

theorem pow_add (r : Re) : ∀ {a b s t}, Pow r a s → Pow r b t → Pow r (a + b) (s ++ t) := by
  intro a b s t h1 h2
  induction h1 with
  | zero => simpa using h2
  | @succ k s' t' hm _ ih =>
    have : k + 1 + b = (k + b) + 1 := by omega
    rw [this, List.append_assoc]
    exact .succ hm ih

theorem pow_split (r : Re) : ∀ (a b : Nat) (w : List Int), Pow r (a + b) w → ∃ s t, w = s ++ t ∧ Pow r a s ∧ Pow r b t := by
  intro a
  induction a with
  | zero => intro b w h; exact ⟨[], w, rfl, .zero, by simpa using h⟩
  | succ a ih =>
    intro b w h
    have e : a + 1 + b = (a + b) + 1 := by omega
    rw [e] at h
    cases h with
    | succ hm hp =>
      obtain ⟨s, t, rfl, h1, h2⟩ := ih b _ hp
      exact ⟨_ ++ s, t, by simp, .succ hm h1, h2⟩

/-- XSD quantifier semantics: `r{n,m}` matches exactly the concatenations of k copies, n ≤ k ≤ m -/
theorem rep_semantics (r : Re) (n : Nat) (m : Option Nat) (hm : ∀ m', m = some m' → n ≤ m') (s : List Int) :
    Matches (rep r n m) s ↔ ∃ k, n ≤ k ∧ (∀ m', m = some m' → k ≤ m') ∧ Pow r k s := by
  cases m with
  | none =>
    simp only [rep, matches_cat, pow_iff, star_iff]
    constructor
    · rintro ⟨s1, s2, rfl, h1, j, h2⟩
      exact ⟨n + j, by omega, by simp, pow_add r h1 h2⟩
    · rintro ⟨k, hk, _, hp⟩
      obtain ⟨j, rfl⟩ : ∃ j, k = n + j := ⟨k - n, by omega⟩
      obtain ⟨s1, s2, rfl, h1, h2⟩ := pow_split r n j s hp
      exact ⟨s1, s2, rfl, h1, j, h2⟩
  | some m' =>
    have hnm := hm m' rfl
    simp only [rep, matches_cat, pow_iff, upto_iff]
    constructor
    · rintro ⟨s1, s2, rfl, h1, j, hj, h2⟩
      exact ⟨n + j, by omega, by intro m'' h; cases h; omega, pow_add r h1 h2⟩
    · rintro ⟨k, hk, hk2, hp⟩
      have := hk2 m' rfl
      obtain ⟨j, rfl⟩ : ∃ j, k = n + j := ⟨k - n, by omega⟩
      obtain ⟨s1, s2, rfl, h1, h2⟩ := pow_split r n j s hp
      exact ⟨s1, s2, rfl, h1, j, by omega, h2⟩


end XV.Lemmas.Regex
