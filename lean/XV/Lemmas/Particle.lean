/-
C08 — lemmas behind `pMatch_iff`: inversion of `PLang`, nullable, one derivative step (incl. occurrence
counters and all-groups), for all particles and all child sequences.  Core Lean only.
-/
import XV.Spec.Particle
namespace XV.Lemmas.Particle
open XV.Spec.Particle

variable {α β : Type} {M : β → α → Prop}

/-! ### inversion -/

theorem fail_inv {w : List β} : ¬ PLang M (.fail : Particle α) w := by
  intro h; cases h

theorem eps_inv {w : List β} : PLang M (.eps : Particle α) w ↔ w = [] := by
  constructor
  · intro h; cases h; rfl
  · rintro rfl; exact .eps

theorem leaf_inv {a : α} {w : List β} : PLang M (.leaf a) w ↔ ∃ x, w = [x] ∧ M x a := by
  constructor
  · intro h; cases h with | leaf h => exact ⟨_, rfl, h⟩
  · rintro ⟨x, rfl, h⟩; exact .leaf h

theorem seq_inv {p q : Particle α} {w : List β} :
    PLang M (.seq p q) w ↔ ∃ u v, w = u ++ v ∧ PLang M p u ∧ PLang M q v := by
  constructor
  · intro h; cases h with | seq h1 h2 => exact ⟨_, _, rfl, h1, h2⟩
  · rintro ⟨u, v, rfl, h1, h2⟩; exact .seq h1 h2

theorem choice_inv {p q : Particle α} {w : List β} :
    PLang M (.choice p q) w ↔ PLang M p w ∨ PLang M q w := by
  constructor
  · intro h
    cases h with
    | choiceL _ h => exact .inl h
    | choiceR _ h => exact .inr h
  · rintro (h | h)
    · exact .choiceL _ h
    · exact .choiceR _ h

theorem all_inv {ms : List (α × Bool)} {w : List β} :
    PLang M (.all ms) w ↔ ∃ σ, σ.Perm ms ∧ SeqOpt M σ w := by
  constructor
  · intro h; cases h with | all h1 h2 => exact ⟨_, h1, h2⟩
  · rintro ⟨σ, h1, h2⟩; exact .all h1 h2

theorem rep_inv {min : Nat} {max : Option Nat} {p : Particle α} {w : List β} :
    PLang M (.rep min max p) w ↔
      ∃ ws : List (List β), w = ws.flatten ∧ (∀ u, u ∈ ws → PLang M p u) ∧ min ≤ ws.length ∧
        (∀ m, max = some m → ws.length ≤ m) := by
  constructor
  · intro h; cases h with | rep ws h1 h2 h3 => exact ⟨ws, rfl, h1, h2, h3⟩
  · rintro ⟨ws, rfl, h1, h2, h3⟩; exact .rep ws h1 h2 h3

/-! ### smart constructors -/

theorem mkSeq_iff (p q : Particle α) (w : List β) : PLang M (mkSeq p q) w ↔ PLang M (.seq p q) w := by
  unfold mkSeq
  split
  · simp [seq_inv, fail_inv]
  · rw [seq_inv]
    constructor
    · intro h; exact ⟨[], w, rfl, .eps, h⟩
    · rintro ⟨u, v, rfl, h1, h2⟩
      rw [eps_inv.1 h1]; exact h2
  · rfl

theorem mkChoice_iff (p q : Particle α) (w : List β) : PLang M (mkChoice p q) w ↔ PLang M (.choice p q) w := by
  unfold mkChoice
  split
  · simp [choice_inv, fail_inv]
  · simp [choice_inv, fail_inv]
  · rfl

/-! ### all-groups -/

theorem seqOpt_nil_iff {σ : List (α × Bool)} : SeqOpt M σ ([] : List β) ↔ σ.all (fun m => m.2) = true := by
  induction σ with
  | nil => simp; exact .nil
  | cons m σ ih =>
    obtain ⟨a, opt⟩ := m
    simp only [List.all_cons, Bool.and_eq_true]
    constructor
    · intro h
      cases h with
      | skip h => exact ⟨rfl, ih.1 h⟩
    · rintro ⟨h1, h2⟩
      have h1' : opt = true := h1
      subst h1'
      exact .skip (ih.2 h2)

variable [DecidableEq α]

/-- a non-empty sequence matched by members in order: some member takes the first child, the others match
    the rest (up to order) -/
theorem seqOpt_cons_inv {σ : List (α × Bool)} {x : β} {w : List β} (h : SeqOpt M σ (x :: w)) :
    ∃ m, m ∈ σ ∧ M x m.1 ∧ ∃ σ', σ'.Perm (σ.erase m) ∧ SeqOpt M σ' w := by
  generalize hxw : x :: w = xw at h
  induction h with
  | nil => cases hxw
  | @take a opt ms y w' hm hs _ =>
    cases hxw
    refine ⟨(a, opt), by simp, hm, ms, ?_, hs⟩
    rw [List.erase_cons_head]
  | @skip a ms w' hs ih =>
    obtain ⟨m, hmem, hm, σ', hp, hs'⟩ := ih hxw
    refine ⟨m, by simp [hmem], hm, (a, true) :: σ', ?_, .skip hs'⟩
    by_cases he : (a, true) = m
    · subst he
      rw [List.erase_cons_head]
      exact (List.Perm.cons _ hp).trans (List.perm_cons_erase hmem).symm
    · rw [List.erase_cons_tail (by simpa using he)]
      exact List.Perm.cons _ hp

theorem allDeriv_iff (acc : α → Bool) (ms cand : List (α × Bool)) (w : List β) :
    PLang M (allDeriv acc ms cand) w ↔ ∃ m, m ∈ cand ∧ acc m.1 = true ∧ PLang M (.all (ms.erase m)) w := by
  induction cand with
  | nil => simp [allDeriv, fail_inv]
  | cons c cand ih =>
    unfold allDeriv
    by_cases hc : acc c.1 = true
    · rw [if_pos hc, mkChoice_iff, choice_inv, ih]
      constructor
      · rintro (h | ⟨m, hm, ha, h⟩)
        · exact ⟨c, by simp, hc, h⟩
        · exact ⟨m, by simp [hm], ha, h⟩
      · rintro ⟨m, hm, ha, h⟩
        simp at hm
        rcases hm with rfl | hm
        · exact .inl h
        · exact .inr ⟨m, hm, ha, h⟩
    · rw [if_neg hc, ih]
      constructor
      · rintro ⟨m, hm, ha, h⟩; exact ⟨m, by simp [hm], ha, h⟩
      · rintro ⟨m, hm, ha, h⟩
        simp at hm
        rcases hm with rfl | hm
        · exact absurd ha hc
        · exact ⟨m, hm, ha, h⟩

/-! ### occurrence ranges -/

theorem flatten_eq_nil_of {ws : List (List β)} (h : ∀ e, e ∈ ws → e = []) : ws.flatten = [] := by
  induction ws with
  | nil => rfl
  | cons e ws ih =>
    rw [List.flatten_cons, h e (by simp), ih (fun e' he' => h e' (by simp [he']))]; rfl

theorem flatten_cons_split {ws : List (List β)} {x : β} {w : List β} (h : ws.flatten = x :: w) :
    ∃ pre u post, ws = pre ++ (x :: u) :: post ∧ (∀ e, e ∈ pre → e = []) ∧ w = u ++ post.flatten := by
  induction ws with
  | nil => simp at h
  | cons e ws ih =>
    cases e with
    | nil =>
      rw [List.flatten_cons, List.nil_append] at h
      obtain ⟨pre, u, post, rfl, hpre, hw⟩ := ih h
      refine ⟨[] :: pre, u, post, rfl, ?_, hw⟩
      intro e he
      simp at he
      rcases he with rfl | he
      · rfl
      · exact hpre e he
    | cons y e' =>
      rw [List.flatten_cons, List.cons_append] at h
      injection h with h1 h2
      subst h1
      exact ⟨[], e', ws, rfl, by simp, h2.symm⟩

/-! ### nullable -/

omit [DecidableEq α] in
theorem nullable_iff (p : Particle α) : p.nullable = true ↔ PLang M p ([] : List β) := by
  induction p with
  | eps => simp [Particle.nullable, eps_inv]
  | fail => simp [Particle.nullable, fail_inv]
  | leaf a => simp [Particle.nullable, leaf_inv]
  | seq p q ihp ihq =>
    simp only [Particle.nullable, Bool.and_eq_true, ihp, ihq, seq_inv]
    constructor
    · rintro ⟨h1, h2⟩; exact ⟨[], [], rfl, h1, h2⟩
    · rintro ⟨u, v, h, h1, h2⟩
      obtain ⟨rfl, rfl⟩ := List.append_eq_nil_iff.1 h.symm
      exact ⟨h1, h2⟩
  | choice p q ihp ihq => simp [Particle.nullable, choice_inv, ihp, ihq]
  | all ms =>
    simp only [Particle.nullable, all_inv]
    constructor
    · intro h; exact ⟨ms, List.Perm.refl _, seqOpt_nil_iff.2 h⟩
    · rintro ⟨σ, hp, hs⟩
      rw [← hp.all_eq]; exact seqOpt_nil_iff.1 hs
  | rep min max p ih =>
    simp only [Particle.nullable, Bool.or_eq_true, Bool.and_eq_true, beq_iff_eq, rep_inv]
    constructor
    · rintro (h | ⟨hn, hr⟩)
      · subst h
        exact ⟨[], rfl, by simp, Nat.le_refl _, by simp⟩
      · refine ⟨List.replicate min [], ?_, ?_, by simp, ?_⟩
        · rw [flatten_eq_nil_of]; intro e he; exact (List.mem_replicate.1 he).2
        · intro u hu; rw [(List.mem_replicate.1 hu).2]; exact ih.1 hn
        · intro m hm; subst hm; simpa [rangeOk] using hr
    · rintro ⟨ws, hw, hall, hmin, hmax⟩
      by_cases h0 : min = 0
      · exact .inl h0
      · right
        cases ws with
        | nil => simp at hmin; exact absurd hmin h0
        | cons e ws' =>
          have he : e = [] := by
            rw [List.flatten_cons] at hw
            exact (List.append_eq_nil_iff.1 hw.symm).1
          refine ⟨ih.2 (he ▸ hall e (by simp)), ?_⟩
          cases max with
          | none => rfl
          | some m => simpa [rangeOk] using Nat.le_trans hmin (hmax m rfl)

/-! ### one derivative step -/

theorem deriv_iff_cons (acc : α → Bool) (x : β) (hacc : ∀ a, acc a = true ↔ M x a) (p : Particle α) (w : List β) :
    PLang M (p.deriv acc) w ↔ PLang M p (x :: w) := by
  induction p generalizing w with
  | eps => simp [Particle.deriv, fail_inv, eps_inv]
  | fail => simp [Particle.deriv, fail_inv]
  | leaf a =>
    simp only [Particle.deriv, leaf_inv]
    by_cases h : acc a = true
    · rw [if_pos h, eps_inv]
      constructor
      · rintro rfl; exact ⟨x, rfl, (hacc a).1 h⟩
      · rintro ⟨y, hy, _⟩; simp at hy; exact hy.2
    · rw [if_neg h]
      constructor
      · intro h'; exact absurd h' fail_inv
      · rintro ⟨y, hy, hm⟩
        simp at hy
        obtain ⟨rfl, _⟩ := hy
        exact absurd ((hacc a).2 hm) h
  | seq p q ihp ihq =>
    have key : PLang M (.choice (.seq (p.deriv acc) q) (if p.nullable then q.deriv acc else .fail)) w
        ↔ PLang M (.seq p q) (x :: w) := by
      rw [choice_inv, seq_inv, seq_inv]
      constructor
      · rintro (⟨u, v, rfl, h1, h2⟩ | h)
        · exact ⟨x :: u, v, rfl, (ihp u).1 h1, h2⟩
        · by_cases hn : p.nullable = true
          · rw [if_pos hn] at h
            exact ⟨[], x :: w, rfl, (nullable_iff p).1 hn, (ihq w).1 h⟩
          · rw [if_neg hn] at h; exact absurd h fail_inv
      · rintro ⟨u, v, h, h1, h2⟩
        cases u with
        | nil =>
          simp at h; subst h
          right
          rw [if_pos ((nullable_iff p).2 h1)]
          exact (ihq w).2 h2
        | cons y u' =>
          simp at h
          obtain ⟨rfl, rfl⟩ := h
          left
          exact ⟨u', v, rfl, (ihp u').2 h1, h2⟩
    simp only [Particle.deriv]
    by_cases hn : p.nullable = true
    · rw [if_pos hn, mkChoice_iff, choice_inv, mkSeq_iff]
      rw [if_pos hn, choice_inv] at key
      exact key
    · rw [if_neg hn, mkSeq_iff]
      rw [if_neg hn, choice_inv] at key
      rw [← key]
      constructor
      · exact .inl
      · rintro (h | h)
        · exact h
        · exact absurd h fail_inv
  | choice p q ihp ihq => simp [Particle.deriv, mkChoice_iff, choice_inv, ihp, ihq]
  | all ms =>
    simp only [Particle.deriv, allDeriv_iff, all_inv]
    constructor
    · rintro ⟨m, hm, ha, σ', hp, hs⟩
      obtain ⟨a, opt⟩ := m
      exact ⟨(a, opt) :: σ', (List.Perm.cons _ hp).trans (List.perm_cons_erase hm).symm,
        .take ((hacc a).1 ha) hs⟩
    · rintro ⟨σ, hp, hs⟩
      obtain ⟨m, hmem, hm, σ', hp', hs'⟩ := seqOpt_cons_inv hs
      exact ⟨m, hp.mem_iff.1 hmem, (hacc _).2 hm, σ', hp'.trans (hp.erase m), hs'⟩
  | rep min max p ih =>
    simp only [Particle.deriv]
    by_cases h0 : max = some 0
    · rw [if_pos h0]
      constructor
      · intro h; exact absurd h fail_inv
      · intro h
        obtain ⟨ws, hw, _, _, hmax⟩ := rep_inv.1 h
        have : ws = [] := List.eq_nil_of_length_eq_zero (Nat.le_zero.1 (hmax 0 h0))
        subst this
        simp at hw
    · rw [if_neg h0, mkSeq_iff, seq_inv]
      constructor
      · rintro ⟨u, v, rfl, h1, h2⟩
        obtain ⟨ws', rfl, hall, hmin, hmax⟩ := rep_inv.1 h2
        refine rep_inv.2 ⟨(x :: u) :: ws', by simp, ?_, ?_, ?_⟩
        · intro e he
          simp at he
          rcases he with rfl | he
          · exact (ih u).1 h1
          · exact hall e he
        · simp; omega
        · intro m hm
          subst hm
          have hm0 : m ≠ 0 := fun h => h0 (by rw [h])
          have := hmax (m - 1) rfl
          simp; omega
      · intro h
        obtain ⟨ws, hw, hall, hmin, hmax⟩ := rep_inv.1 h
        obtain ⟨pre, u, post, rfl, hpre, hwu⟩ := flatten_cons_split hw.symm
        refine ⟨u, post.flatten, hwu, (ih u).2 (hall _ (by simp)), ?_⟩
        refine rep_inv.2 ⟨pre ++ post, ?_, ?_, ?_, ?_⟩
        · rw [List.flatten_append, flatten_eq_nil_of hpre]; rfl
        · intro e he
          apply hall
          simp at he ⊢
          rcases he with he | he
          · exact .inl he
          · exact .inr (.inr he)
        · simp at hmin ⊢; omega
        · intro m hm
          cases max with
          | none => cases hm
          | some m' =>
            simp [predOpt] at hm
            subst hm
            have := hmax m' rfl
            simp at this ⊢; omega

theorem derivs_iff (Mb : β → α → Bool) (p : Particle α) (u w : List β) :
    PLang (fun x a => Mb x a = true) (p.derivs Mb u) w ↔ PLang (fun x a => Mb x a = true) p (u ++ w) := by
  induction u generalizing p with
  | nil => simp [Particle.derivs]
  | cons x u ih =>
    simp only [Particle.derivs, List.cons_append]
    rw [ih, deriv_iff_cons (M := fun x a => Mb x a = true) (fun a => Mb x a) x (fun _ => Iff.rfl)]

theorem pMatch_iff' (Mb : β → α → Bool) (p : Particle α) (w : List β) :
    pMatch Mb p w = true ↔ PLang (fun x a => Mb x a = true) p w := by
  unfold pMatch
  rw [nullable_iff, derivs_iff]; simp

end XV.Lemmas.Particle
