/-
Helper lemmas for C09, codec part: facts about the generated HexBin / Base64 tables (kernel evaluation),
the hexBinary loop, base64 quartets (encode, decode, soundness, completeness), the white-space loops.
-/
import XV.Model.Codec
import XV.Spec.Codec
set_option linter.unusedVariables false
namespace XV.Lemmas.Codec
open XV.Spec.Codec XV.Model.Codec XV.Gen.Codec

/-! ### table facts (kernel evaluation over the generated tables) -/

theorem hexNum_spec : ∀ c, c < 255 → hexNum c = (hexDigitVal c).getD 0xFF := by decide +kernel
theorem inv_spec : ∀ c, c < 255 → inv c = (b64Val c).getD 0xFF := by decide +kernel
theorem alpha_spec : ∀ v, v < 64 → alpha v = b64Char v := by decide +kernel
theorem consts_spec : hexBaseLength = 255 ∧ b64BaseLength = 255 ∧ fourByte = 4 ∧ base64Padding = pad ∧
    quadsPerLine = 15 ∧ chLF = 0xA ∧ chSpace = sp ∧ pad2Mask = 15 ∧ pad1Mask = 3 := by decide
theorem b64Val_lt : ∀ c, c < 256 → ∀ v, b64Val c = some v → v < 64 := by decide +kernel
theorem b64_inverse : ∀ v, v < 64 → b64Val (b64Char v) = some v := by decide +kernel
theorem b64_inverse' : ∀ c, c < 256 → ∀ v, b64Val c = some v → b64Char v = c := by decide +kernel
theorem isB04_spec : ∀ c, c < 256 → isB04 c = (match b64Val c with | some v => v % 16 == 0 | none => false) := by
  decide +kernel
theorem isB16_spec : ∀ c, c < 256 → isB16 c = (match b64Val c with | some v => v % 4 == 0 | none => false) := by
  decide +kernel

theorem split1_spec : ∀ a, a < 256 → split1stOctet a = (a / 4, a % 4 * 16) := by decide +kernel
theorem split2_spec : ∀ x, x < 4 → ∀ b, b < 256 → split2ndOctet b (x * 16) = (x * 16 + b / 16, b % 16 * 4) := by
  decide +kernel
theorem split3_spec : ∀ y, y < 16 → ∀ c, c < 256 → split3rdOctet c (y * 4) = (y * 4 + c / 64, c % 64) := by
  decide +kernel
theorem set1_spec : ∀ v1, v1 < 64 → ∀ v2, v2 < 64 → set1stOctet v1 v2 = (v1 * 4 + v2 / 16) % 256 := by decide +kernel
theorem set2_spec : ∀ v2, v2 < 64 → ∀ v3, v3 < 64 → set2ndOctet v2 v3 = (v2 * 16 + v3 / 4) % 256 := by decide +kernel
theorem set3_spec : ∀ v3, v3 < 64 → ∀ v4, v4 < 64 → set3rdOctet v3 v4 = (v3 * 64 + v4) % 256 := by decide +kernel
theorem mask2_spec : ∀ v, v < 64 → ((v &&& pad2Mask) != 0) = (v % 16 != 0) := by decide +kernel
theorem mask1_spec : ∀ v, v < 64 → ((v &&& pad1Mask) != 0) = (v % 4 != 0) := by decide +kernel

/-! ### hexBinary -/

theorem two_step {P : List Nat → Prop} (h0 : P []) (h1 : ∀ c, P [c])
    (h2 : ∀ c1 c2 r, P r → P (c1 :: c2 :: r)) : ∀ s, P s := by
  have : ∀ s, P s ∧ ∀ c, P (c :: s) := by
    intro s
    induction s with
    | nil => exact ⟨h0, h1⟩
    | cons a r ih => exact ⟨ih.2 a, fun c => h2 c a r ih.1⟩
  exact fun s => (this s).1

theorem isHex_lt : ∀ c, c < 255 → (hexNum c != 0xFF) = (hexDigitVal c).isSome := by decide +kernel
theorem hexNibble : ∀ a, a < 16 → ∀ b, b < 16 → ((a <<< 4) ||| b) % 256 = a * 16 + b := by decide +kernel
theorem hexDigitVal_lt (c v : Nat) (h : hexDigitVal c = some v) : v < 16 ∧ c < 255 := by
  unfold hexDigitVal at h
  split at h
  · injection h with h; omega
  · split at h
    · injection h with h; omega
    · split at h
      · injection h with h; omega
      · cases h

theorem isHex_spec (c : Nat) : isHex c = (hexDigitVal c).isSome := by
  unfold isHex
  by_cases h : c ≥ hexBaseLength
  · rw [if_pos h]
    have : c ≥ 255 := h
    cases hv : hexDigitVal c with
    | none => rfl
    | some v => have := hexDigitVal_lt c v hv; omega
  · rw [if_neg h]
    exact isHex_lt c (by have : ¬ c ≥ 255 := h; omega)

theorem hexNum_of (c v : Nat) (h : hexDigitVal c = some v) : hexNum c = v := by
  have := hexNum_spec c (hexDigitVal_lt c v h).2
  rw [this, h]; rfl

theorem isArrayByteHex_spec (s : List Nat) : isArrayByteHex s = isHexLex s := by
  unfold isArrayByteHex isHexLex
  have : s.all isHex = s.all (fun c => (hexDigitVal c).isSome) := by
    congr 1; funext c; exact isHex_spec c
  cases s with
  | nil => rfl
  | cons a r =>
    simp only [List.isEmpty_cons, Bool.false_eq_true, if_false]
    rw [this]
    rcases Nat.mod_two_eq_zero_or_one (a :: r).length with h | h <;> simp only [List.length_cons] at h <;> simp [h]

theorem hexLoop_spec (s : List Nat) (n : Nat) (hn : s.length = 2 * n) : hexDecodeLoop s = hexValue s := by
  induction n generalizing s with
  | zero =>
    have : s = [] := List.length_eq_zero_iff.mp (by omega)
    subst this; rfl
  | succ n ih =>
    match s, hn with
    | c1 :: c2 :: r, hn =>
      have hr : r.length = 2 * n := by simp at hn; omega
      unfold hexDecodeLoop hexValue
      rw [isHex_spec, isHex_spec, ih r hr]
      cases h1 : hexDigitVal c1 with
      | none => simp
      | some a =>
        cases h2 : hexDigitVal c2 with
        | none => simp
        | some b =>
          simp only [Option.isSome_some, Bool.not_true, Bool.false_eq_true, if_false]
          rw [hexNum_of c1 a h1, hexNum_of c2 b h2,
              hexNibble a (hexDigitVal_lt c1 a h1).1 b (hexDigitVal_lt c2 b h2).1]
          cases hexValue r <;> rfl

theorem hexValue_isSome (s : List Nat) : (hexValue s).isSome = isHexLex s := by
  unfold isHexLex
  induction s using two_step with
  | h0 => rfl
  | h1 c => simp [hexValue]
  | h2 c1 c2 r ih =>
    unfold hexValue
    simp only [List.length_cons, List.all_cons]
    have e : (r.length + 1 + 1) % 2 = r.length % 2 := by omega
    rw [e]
    cases h1 : hexDigitVal c1 <;> cases h2 : hexDigitVal c2 <;> cases h3 : hexValue r <;>
      simp_all

theorem hexChar_val : ∀ v, v < 16 → hexDigitVal (hexChar v) = some v := by decide +kernel

theorem hexValue_encode (bs : List Nat) (h : AllBytes bs) : hexValue (hexEncode bs) = some bs := by
  induction bs with
  | nil => rfl
  | cons b r ih =>
    have hb : b < 256 := h b (by simp)
    unfold hexEncode hexValue
    rw [hexChar_val (b / 16) (by omega), hexChar_val (b % 16) (by omega), ih (fun x hx => h x (by simp [hx]))]
    simp only
    congr 2
    omega

theorem hexEncode_length (bs : List Nat) : (hexEncode bs).length = 2 * bs.length := by
  induction bs with
  | nil => rfl
  | cons b r ih => simp [hexEncode, ih]; omega

theorem upper_hexChar : ∀ c, c < 256 → ∀ v, hexDigitVal c = some v → upperCaseASCII c = hexChar v := by decide +kernel

/-- upper-casing a lexical form gives the canonical form of its value -/
theorem hex_upper (s bs : List Nat) (h : hexValue s = some bs) : s.map upperCaseASCII = hexEncode bs := by
  induction s using two_step generalizing bs with
  | h0 => simp [hexValue] at h; subst h; rfl
  | h1 c => simp [hexValue] at h
  | h2 c1 c2 r ih =>
    unfold hexValue at h
    cases h1 : hexDigitVal c1 with
    | none => rw [h1] at h; simp at h
    | some a =>
      cases h2 : hexDigitVal c2 with
      | none => rw [h1, h2] at h; simp at h
      | some b =>
        cases h3 : hexValue r with
        | none => rw [h1, h2, h3] at h; simp at h
        | some v =>
          rw [h1, h2, h3] at h
          simp only [Option.some.injEq] at h
          subst h
          have ha := hexDigitVal_lt c1 a h1
          have hb := hexDigitVal_lt c2 b h2
          simp only [List.map_cons, hexEncode]
          rw [ih v h3, upper_hexChar c1 (by omega) a h1, upper_hexChar c2 (by omega) b h2]
          congr 2
          · congr 1; omega
          · congr 1; omega

theorem hexValue_bytes (s bs : List Nat) (h : hexValue s = some bs) : AllBytes bs := by
  induction s using two_step generalizing bs with
  | h0 => simp [hexValue] at h; subst h; intro b hb; cases hb
  | h1 c => simp [hexValue] at h
  | h2 c1 c2 r ih =>
    unfold hexValue at h
    cases h1 : hexDigitVal c1 with
    | none => rw [h1] at h; simp at h
    | some a =>
      cases h2 : hexDigitVal c2 with
      | none => rw [h1, h2] at h; simp at h
      | some b =>
        cases h3 : hexValue r with
        | none => rw [h1, h2, h3] at h; simp at h
        | some v =>
          rw [h1, h2, h3] at h
          simp only [Option.some.injEq] at h
          subst h
          have ha := hexDigitVal_lt c1 a h1
          have hb := hexDigitVal_lt c2 b h2
          intro x hx
          rcases List.mem_cons.mp hx with e | e
          · rw [e]; omega
          · exact ih v h3 x e

/-! ### base64: characters -/

theorem b64Val_none_ge (c : Nat) (h : c ≥ 255) : b64Val c = none := by
  unfold b64Val
  rw [if_neg (by omega), if_neg (by omega), if_neg (by omega), if_neg (by omega), if_neg (by omega)]

theorem isData_lt : ∀ c, c < 255 → (inv c != 0xFF) = (b64Val c).isSome := by decide +kernel

theorem isData_spec (c : Nat) : isData c = (b64Val c).isSome := by
  unfold isData
  by_cases h : c < b64BaseLength
  · have h' : c < 255 := h
    simp only [h, decide_true, Bool.true_and]
    exact isData_lt c h'
  · have h' : c ≥ 255 := by have : ¬ c < 255 := h; omega
    simp only [h, decide_false, Bool.false_and]
    rw [b64Val_none_ge c h']; rfl

theorem inv_of (c v : Nat) (h : b64Val c = some v) : inv c = v := by
  have hc : c < 255 := by
    by_cases hc : c < 255
    · exact hc
    · rw [b64Val_none_ge c (by omega)] at h; cases h
  rw [inv_spec c hc, h]; rfl

theorem b64Val_bound (c v : Nat) (h : b64Val c = some v) : v < 64 ∧ c < 255 ∧ b64Char v = c := by
  have hc : c < 255 := by
    by_cases hc : c < 255
    · exact hc
    · rw [b64Val_none_ge c (by omega)] at h; cases h
  exact ⟨b64Val_lt c (by omega) v h, hc, b64_inverse' c (by omega) v h⟩

theorem inv_nodata (c : Nat) (h : b64Val c = none) : inv c = 0xFF := by
  by_cases hc : c < 255
  · rw [inv_spec c hc, h]; rfl
  · unfold inv
    have hl : base64Inverse.length = 255 := by decide +kernel
    rw [List.getD_eq_getElem?_getD, List.getElem?_eq_none (by omega)]; rfl

theorem pad_not_data : b64Val pad = none := by decide
theorem char_not_pad : ∀ v, v < 64 → b64Char v ≠ pad := by decide +kernel
theorem char_not_ws : ∀ v, v < 64 → isWhitespace (b64Char v) = false := by decide +kernel
theorem char_not_sp : ∀ v, v < 64 → b64Char v ≠ sp := by decide +kernel
theorem isData_char (v : Nat) (h : v < 64) : isData (b64Char v) = true := by
  rw [isData_spec, b64_inverse v h]; rfl
theorem inv_char (v : Nat) (h : v < 64) : inv (b64Char v) = v := inv_of _ _ (b64_inverse v h)
theorem isPad_iff (c : Nat) : isPad c = (c == pad) := by unfold isPad; rfl
theorem isData_pad : isData pad = false := by rw [isData_spec, pad_not_data]; rfl

theorem three_step {P : List Nat → Prop} (h0 : P []) (h1 : ∀ a, P [a]) (h2 : ∀ a b, P [a, b])
    (h3 : ∀ a b c r, P r → P (a :: b :: c :: r)) : ∀ s, P s := by
  have : ∀ s, P s ∧ (∀ a, P (a :: s)) ∧ (∀ a b, P (a :: b :: s)) := by
    intro s
    induction s with
    | nil => exact ⟨h0, h1, h2⟩
    | cons x r ih => exact ⟨ih.2.1 x, fun a => ih.2.2 a x, fun a b => h3 a b x r ih.1⟩
  exact fun s => (this s).1

/-! ### encode -/

/-- the four characters of a full quartet -/
theorem quad_chars (a b c : Nat) (ha : a < 256) (hb : b < 256) (hc : c < 256) :
    alpha (split1stOctet a).1 = b64Char (a / 4) ∧
    alpha (split1stOctet a).2 = b64Char (a % 4 * 16) ∧
    alpha (split2ndOctet b (split1stOctet a).2).1 = b64Char (a % 4 * 16 + b / 16) ∧
    alpha (split2ndOctet b (split1stOctet a).2).2 = b64Char (b % 16 * 4) ∧
    alpha (split3rdOctet c (split2ndOctet b (split1stOctet a).2).2).1 = b64Char (b % 16 * 4 + c / 64) ∧
    alpha (split3rdOctet c (split2ndOctet b (split1stOctet a).2).2).2 = b64Char (c % 64) := by
  rw [split1_spec a ha]
  simp only
  rw [split2_spec (a % 4) (by omega) b hb]
  simp only
  rw [split3_spec (b % 16) (by omega) c hc]
  simp only
  exact ⟨alpha_spec _ (by omega), alpha_spec _ (by omega), alpha_spec _ (by omega), alpha_spec _ (by omega),
         alpha_spec _ (by omega), alpha_spec _ (by omega)⟩

def strip (l : List Nat) : List Nat := l.filter (fun c => !isWhitespace c)

theorem strip_cons_char (v : Nat) (h : v < 64) (l : List Nat) : strip (b64Char v :: l) = b64Char v :: strip l := by
  unfold strip; rw [List.filter_cons_of_pos (by rw [char_not_ws v h]; rfl)]
theorem strip_cons_pad (l : List Nat) : strip (pad :: l) = pad :: strip l := by
  unfold strip; rw [List.filter_cons_of_pos (by decide)]
theorem strip_lf (l : List Nat) : strip (chLF :: l) = strip l := by
  unfold strip; rw [List.filter_cons_of_neg (by decide)]

theorem encodeLoop_strip (bs : List Nat) (h : AllBytes bs) (q : Nat) : strip (encodeLoop bs q) = b64Encode bs := by
  induction bs using three_step generalizing q with
  | h0 => rfl
  | h1 a =>
    have ha : a < 256 := h a (by simp)
    obtain ⟨e1, e2, _⟩ := quad_chars a 0 0 ha (by omega) (by omega)
    simp only [encodeLoop, b64Encode]
    rw [e1, e2, consts_spec.2.2.2.1]
    rw [strip_cons_char _ (by omega), strip_cons_char _ (by omega), strip_cons_pad, strip_cons_pad, strip_lf]
    rfl
  | h2 a b =>
    have ha : a < 256 := h a (by simp)
    have hb : b < 256 := h b (by simp)
    obtain ⟨e1, _, e3, e4, _⟩ := quad_chars a b 0 ha hb (by omega)
    simp only [encodeLoop, b64Encode]
    rw [e1, e3, e4, consts_spec.2.2.2.1]
    rw [strip_cons_char _ (by omega), strip_cons_char _ (by omega), strip_cons_char _ (by omega), strip_cons_pad, strip_lf]
    rfl
  | h3 a b c r ih =>
    have ha : a < 256 := h a (by simp)
    have hb : b < 256 := h b (by simp)
    have hc : c < 256 := h c (by simp)
    have hr : AllBytes r := fun x hx => h x (by simp [hx])
    obtain ⟨e1, _, e3, _, e5, e6⟩ := quad_chars a b c ha hb hc
    cases r with
    | nil =>
      simp only [encodeLoop, b64Encode]
      rw [e1, e3, e5, e6]
      rw [strip_cons_char _ (by omega), strip_cons_char _ (by omega), strip_cons_char _ (by omega),
          strip_cons_char _ (by omega), strip_lf]
      rfl
    | cons d r' =>
      simp only [encodeLoop, b64Encode]
      rw [e1, e3, e5, e6]
      simp only [List.cons_append, List.nil_append]
      rw [strip_cons_char _ (by omega), strip_cons_char _ (by omega), strip_cons_char _ (by omega),
          strip_cons_char _ (by omega)]
      have ih' := ih hr (q + 1)
      by_cases hq : (q % quadsPerLine == 0) = true
      · rw [if_pos hq]
        simp only [List.cons_append, List.nil_append]
        rw [strip_lf, ih']
      · rw [if_neg hq]
        simp only [List.nil_append]
        rw [ih']

/-! ### decode: quartets -/

theorem dq_more (d1 d2 d3 d4 e : Nat) (r : List Nat) :
    decodeQuads (d1 :: d2 :: d3 :: d4 :: e :: r) =
      if !isData d1 || !isData d2 || !isData d3 || !isData d4 then none
      else match decodeQuads (e :: r) with
        | some v => some (set1stOctet (inv d1) (inv d2) :: set2ndOctet (inv d2) (inv d3) :: set3rdOctet (inv d3) (inv d4) :: v)
        | none => none := by
  rfl

/-- last quartet, no padding -/
theorem dq_last3 (v1 v2 v3 v4 : Nat) (h1 : v1 < 64) (h2 : v2 < 64) (h3 : v3 < 64) (h4 : v4 < 64) :
    decodeQuads [b64Char v1, b64Char v2, b64Char v3, b64Char v4] =
      some [(v1 * 4 + v2 / 16) % 256, (v2 * 16 + v3 / 4) % 256, (v3 * 64 + v4) % 256] := by
  simp only [decodeQuads, isData_char _ h1, isData_char _ h2, isData_char _ h3, isData_char _ h4,
    inv_char _ h1, inv_char _ h2, inv_char _ h3, inv_char _ h4, Bool.not_true, Bool.or_self, Bool.false_eq_true,
    if_false, set1_spec v1 h1 v2 h2, set2_spec v2 h2 v3 h3, set3_spec v3 h3 v4 h4]

/-- last quartet, one pad -/
theorem dq_last2 (v1 v2 v3 : Nat) (h1 : v1 < 64) (h2 : v2 < 64) (h3 : v3 < 64) :
    decodeQuads [b64Char v1, b64Char v2, b64Char v3, pad] =
      if v3 % 4 != 0 then none else some [(v1 * 4 + v2 / 16) % 256, (v2 * 16 + v3 / 4) % 256] := by
  have np : isPad (b64Char v3) = false := by
    rw [isPad_iff]; exact beq_false_of_ne (char_not_pad v3 h3)
  have pp : isPad pad = true := by rw [isPad_iff]; rfl
  simp only [decodeQuads, isData_char _ h1, isData_char _ h2, isData_char _ h3, isData_pad,
    inv_char _ h1, inv_char _ h2, inv_char _ h3, Bool.not_true, Bool.not_false, Bool.or_self, Bool.false_eq_true,
    Bool.or_true, if_false, if_true, np, pp, Bool.false_and, Bool.and_self,
    set1_spec v1 h1 v2 h2, set2_spec v2 h2 v3 h3, mask1_spec v3 h3]

/-- last quartet, two pads -/
theorem dq_last1 (v1 v2 : Nat) (h1 : v1 < 64) (h2 : v2 < 64) :
    decodeQuads [b64Char v1, b64Char v2, pad, pad] =
      if v2 % 16 != 0 then none else some [(v1 * 4 + v2 / 16) % 256] := by
  have pp : isPad pad = true := by rw [isPad_iff]; rfl
  simp only [decodeQuads, isData_char _ h1, isData_char _ h2, isData_pad,
    inv_char _ h1, inv_char _ h2, Bool.not_true, Bool.not_false, Bool.or_self, Bool.false_eq_true,
    if_false, if_true, pp, Bool.and_self, set1_spec v1 h1 v2 h2, mask2_spec v2 h2]

theorem b64Encode_ne_nil (bs : List Nat) (h : bs ≠ []) : ∃ e r, b64Encode bs = e :: r := by
  match bs, h with
  | [a], _ => exact ⟨_, _, rfl⟩
  | [a, b], _ => exact ⟨_, _, rfl⟩
  | a :: b :: c :: r, _ => exact ⟨_, _, rfl⟩

theorem decodeQuads_encode (bs : List Nat) (h : AllBytes bs) (hne : bs ≠ []) :
    decodeQuads (b64Encode bs) = some bs := by
  induction bs using three_step with
  | h0 => exact absurd rfl hne
  | h1 a =>
    have ha : a < 256 := h a (by simp)
    simp only [b64Encode]
    rw [dq_last1 _ _ (by omega) (by omega)]
    have : ((a % 4 * 16) % 16 != 0) = false := by simp
    rw [this]; simp only [Bool.false_eq_true, if_false]
    congr 2; omega
  | h2 a b =>
    have ha : a < 256 := h a (by simp)
    have hb : b < 256 := h b (by simp)
    simp only [b64Encode]
    rw [dq_last2 _ _ _ (by omega) (by omega) (by omega)]
    have : ((b % 16 * 4) % 4 != 0) = false := by simp
    rw [this]; simp only [Bool.false_eq_true, if_false]
    congr 2
    · omega
    · congr 1; omega
  | h3 a b c r ih =>
    have ha : a < 256 := h a (by simp)
    have hb : b < 256 := h b (by simp)
    have hc : c < 256 := h c (by simp)
    have hr : AllBytes r := fun x hx => h x (by simp [hx])
    have e1 : (a / 4 * 4 + (a % 4 * 16 + b / 16) / 16) % 256 = a := by omega
    have e2 : ((a % 4 * 16 + b / 16) * 16 + (b % 16 * 4 + c / 64) / 4) % 256 = b := by omega
    have e3 : ((b % 16 * 4 + c / 64) * 64 + c % 64) % 256 = c := by omega
    by_cases hrn : r = []
    · subst hrn
      simp only [b64Encode]
      rw [dq_last3 _ _ _ _ (by omega) (by omega) (by omega) (by omega), e1, e2, e3]
    · obtain ⟨e, r', her⟩ := b64Encode_ne_nil r hrn
      simp only [b64Encode]
      rw [her, dq_more, ← her, ih hr hrn]
      simp only [isData_char _ (show a / 4 < 64 by omega), isData_char _ (show a % 4 * 16 + b / 16 < 64 by omega),
        isData_char _ (show b % 16 * 4 + c / 64 < 64 by omega), isData_char _ (show c % 64 < 64 by omega),
        inv_char _ (show a / 4 < 64 by omega), inv_char _ (show a % 4 * 16 + b / 16 < 64 by omega),
        inv_char _ (show b % 16 * 4 + c / 64 < 64 by omega), inv_char _ (show c % 64 < 64 by omega),
        Bool.not_true, Bool.or_self, Bool.false_eq_true, if_false]
      rw [set1_spec _ (by omega) _ (by omega), set2_spec _ (by omega) _ (by omega), set3_spec _ (by omega) _ (by omega),
          e1, e2, e3]

theorem isData_false (c : Nat) (h : b64Val c = none) : isData c = false := by rw [isData_spec, h]; rfl
theorem isData_true (c v : Nat) (h : b64Val c = some v) : isData c = true := by rw [isData_spec, h]; rfl

theorem mask_ff : ((0xFF &&& pad1Mask) != 0) = true ∧ ((0xFF &&& pad2Mask) != 0) = true := by decide

/-- everything the last-quartet code accepts -/
theorem dq_last_cases (d1 d2 d3 d4 : Nat) (bs : List Nat) (h : decodeQuads [d1, d2, d3, d4] = some bs) :
    ∃ v1 v2, b64Val d1 = some v1 ∧ b64Val d2 = some v2 ∧
      ((∃ v3 v4, b64Val d3 = some v3 ∧ b64Val d4 = some v4 ∧
          bs = [(v1 * 4 + v2 / 16) % 256, (v2 * 16 + v3 / 4) % 256, (v3 * 64 + v4) % 256]) ∨
       (∃ v3, b64Val d3 = some v3 ∧ d4 = pad ∧ v3 % 4 = 0 ∧
          bs = [(v1 * 4 + v2 / 16) % 256, (v2 * 16 + v3 / 4) % 256]) ∨
       (d3 = pad ∧ d4 = pad ∧ v2 % 16 = 0 ∧ bs = [(v1 * 4 + v2 / 16) % 256])) := by
  cases h1 : b64Val d1 with
  | none => simp [decodeQuads, isData_false d1 h1] at h
  | some v1 =>
    cases h2 : b64Val d2 with
    | none => simp [decodeQuads, isData_false d2 h2] at h
    | some v2 =>
      obtain ⟨b1, _, c1⟩ := b64Val_bound d1 v1 h1
      obtain ⟨b2, _, c2⟩ := b64Val_bound d2 v2 h2
      refine ⟨v1, v2, rfl, rfl, ?_⟩
      cases h3 : b64Val d3 with
      | some v3 =>
        obtain ⟨b3, _, c3⟩ := b64Val_bound d3 v3 h3
        cases h4 : b64Val d4 with
        | some v4 =>
          obtain ⟨b4, _, c4⟩ := b64Val_bound d4 v4 h4
          rw [← c1, ← c2, ← c3, ← c4, dq_last3 v1 v2 v3 v4 b1 b2 b3 b4] at h
          injection h with h
          exact Or.inl ⟨v3, v4, rfl, rfl, h.symm⟩
        | none =>
          by_cases hp : d4 = pad
          · subst hp
            rw [← c1, ← c2, ← c3, dq_last2 v1 v2 v3 b1 b2 b3] at h
            split at h
            · cases h
            · rename_i hm
              injection h with h
              exact Or.inr (Or.inl ⟨v3, rfl, rfl, by simpa using hm, h.symm⟩)
          · exfalso
            have np4 : isPad d4 = false := by rw [isPad_iff]; exact beq_false_of_ne hp
            simp [decodeQuads, isData_true d1 v1 h1, isData_true d2 v2 h2, isData_true d3 v3 h3, isData_false d4 h4, np4] at h
      | none =>
        by_cases hp3 : d3 = pad
        · by_cases hp4 : d4 = pad
          · subst hp3; subst hp4
            rw [← c1, ← c2, dq_last1 v1 v2 b1 b2] at h
            split at h
            · cases h
            · rename_i hm
              injection h with h
              exact Or.inr (Or.inr ⟨rfl, rfl, by simpa using hm, h.symm⟩)
          · exfalso
            have np4 : isPad d4 = false := by rw [isPad_iff]; exact beq_false_of_ne hp4
            simp [decodeQuads, isData_true d1 v1 h1, isData_true d2 v2 h2, isData_false d3 h3, np4] at h
        · exfalso
          have np3 : isPad d3 = false := by rw [isPad_iff]; exact beq_false_of_ne hp3
          have hi := inv_nodata d3 h3
          simp [decodeQuads, isData_true d1 v1 h1, isData_true d2 v2 h2, isData_false d3 h3, np3, hi, mask_ff.1] at h

theorem isB04_val (c : Nat) (h : isB04 c = true) : ∃ v, b64Val c = some v ∧ v % 16 = 0 := by
  have hc : c < 256 := by simp [isB04] at h; omega
  have := isB04_spec c hc
  rw [h] at this
  cases hv : b64Val c with
  | none => rw [hv] at this; cases this
  | some v => rw [hv] at this; exact ⟨v, rfl, by simpa using this.symm⟩

theorem isB16_val (c : Nat) (h : isB16 c = true) : ∃ v, b64Val c = some v ∧ v % 4 = 0 := by
  have hc : c < 256 := by simp [isB16] at h; omega
  have := isB16_spec c hc
  rw [h] at this
  cases hv : b64Val c with
  | none => rw [hv] at this; cases this
  | some v => rw [hv] at this; exact ⟨v, rfl, by simpa using this.symm⟩

theorem isB04_of (c v : Nat) (h : b64Val c = some v) (hm : v % 16 = 0) : isB04 c = true := by
  have hc := (b64Val_bound c v h).2.1
  rw [isB04_spec c (by omega), h]; simp [hm]

theorem isB16_of (c v : Nat) (h : b64Val c = some v) (hm : v % 4 = 0) : isB16 c = true := by
  have hc := (b64Val_bound c v h).2.1
  rw [isB16_spec c (by omega), h]; simp [hm]

theorem four_step {P : List Nat → Prop} (h0 : P []) (h1 : ∀ a, P [a]) (h2 : ∀ a b, P [a, b]) (h3 : ∀ a b c, P [a, b, c])
    (h4 : ∀ a b c d r, P r → P (a :: b :: c :: d :: r)) : ∀ s, P s := by
  have : ∀ s, P s ∧ (∀ a, P (a :: s)) ∧ (∀ a b, P (a :: b :: s)) ∧ (∀ a b c, P (a :: b :: c :: s)) := by
    intro s
    induction s with
    | nil => exact ⟨h0, h1, h2, h3⟩
    | cons x r ih => exact ⟨ih.2.1 x, fun a => ih.2.2.1 a x, fun a b => ih.2.2.2 a b x, fun a b c => h4 a b c x r ih.1⟩
  exact fun s => (this s).1

theorem isB64_iff (c : Nat) : isB64 c = (b64Val c).isSome := rfl

/-- whatever `decodeQuads` accepts is the canonical encoding of what it returns -/
theorem decodeQuads_sound (raw bs : List Nat) (h : decodeQuads raw = some bs) :
    isB64Quartets raw = true ∧ b64Encode bs = raw ∧ AllBytes bs ∧ bs ≠ [] := by
  induction raw using four_step generalizing bs with
  | h0 => simp [decodeQuads] at h
  | h1 a => simp [decodeQuads] at h
  | h2 a b => simp [decodeQuads] at h
  | h3 a b c => simp [decodeQuads] at h
  | h4 d1 d2 d3 d4 r ih =>
    cases r with
    | nil =>
      obtain ⟨v1, v2, h1, h2, hc⟩ := dq_last_cases d1 d2 d3 d4 bs h
      obtain ⟨b1, _, c1⟩ := b64Val_bound d1 v1 h1
      obtain ⟨b2, _, c2⟩ := b64Val_bound d2 v2 h2
      rcases hc with ⟨v3, v4, h3, h4, hb⟩ | ⟨v3, h3, hp, hm, hb⟩ | ⟨hp3, hp4, hm, hb⟩
      · obtain ⟨b3, _, c3⟩ := b64Val_bound d3 v3 h3
        obtain ⟨b4, _, c4⟩ := b64Val_bound d4 v4 h4
        refine ⟨?_, ?_, ?_, ?_⟩
        · simp [isB64Quartets, isB64_iff, h1, h2, h3, h4]
        · rw [hb, ← c1, ← c2, ← c3, ← c4]
          simp only [b64Encode]
          congr 2
          · congr 1; omega
          · congr 1; omega
          · congr 2
            · congr 1; omega
            · congr 2; omega
        · rw [hb]; intro x hx; simp at hx; omega
        · rw [hb]; simp
      · obtain ⟨b3, _, c3⟩ := b64Val_bound d3 v3 h3
        refine ⟨?_, ?_, ?_, ?_⟩
        · simp [isB64Quartets, isB64_iff, h1, h2, h3, hp, isB16_of d3 v3 h3 hm]
        · rw [hb, hp, ← c1, ← c2, ← c3]
          simp only [b64Encode]
          congr 2
          · congr 1; omega
          · congr 1; omega
          · congr 2; omega
        · rw [hb]; intro x hx; simp at hx; omega
        · rw [hb]; simp
      · refine ⟨?_, ?_, ?_, ?_⟩
        · simp [isB64Quartets, isB64_iff, h1, hp3, hp4, isB04_of d2 v2 h2 hm]
        · rw [hb, hp3, hp4, ← c1, ← c2]
          simp only [b64Encode]
          congr 2
          · congr 1; omega
          · congr 1; omega
        · rw [hb]; intro x hx; simp at hx; omega
        · rw [hb]; simp
    | cons e r' =>
      rw [dq_more] at h
      split at h
      · cases h
      · rename_i hdata
        simp only [Bool.or_eq_true, Bool.not_eq_true', not_or, Bool.not_eq_false] at hdata
        obtain ⟨⟨⟨g1, g2⟩, g3⟩, g4⟩ := hdata
        cases hrec : decodeQuads (e :: r') with
        | none => rw [hrec] at h; cases h
        | some v =>
          rw [hrec] at h
          simp only [Option.some.injEq] at h
          obtain ⟨i1, i2, i3, _⟩ := ih v hrec
          rw [isData_spec] at g1 g2 g3 g4
          obtain ⟨v1, h1⟩ := Option.isSome_iff_exists.mp g1
          obtain ⟨v2, h2⟩ := Option.isSome_iff_exists.mp g2
          obtain ⟨v3, h3⟩ := Option.isSome_iff_exists.mp g3
          obtain ⟨v4, h4⟩ := Option.isSome_iff_exists.mp g4
          obtain ⟨b1, _, c1⟩ := b64Val_bound d1 v1 h1
          obtain ⟨b2, _, c2⟩ := b64Val_bound d2 v2 h2
          obtain ⟨b3, _, c3⟩ := b64Val_bound d3 v3 h3
          obtain ⟨b4, _, c4⟩ := b64Val_bound d4 v4 h4
          rw [inv_of d1 v1 h1, inv_of d2 v2 h2, inv_of d3 v3 h3, inv_of d4 v4 h4,
              set1_spec v1 b1 v2 b2, set2_spec v2 b2 v3 b3, set3_spec v3 b3 v4 b4] at h
          refine ⟨?_, ?_, ?_, ?_⟩
          · simp [isB64Quartets, isB64_iff, h1, h2, h3, h4, i1]
          · rw [← h]
            simp only [b64Encode]
            rw [i2, ← c1, ← c2, ← c3, ← c4]
            congr 2
            · congr 1; omega
            · congr 1; omega
            · congr 2
              · congr 1; omega
              · congr 2; omega
          · rw [← h]; intro x hx
            simp only [List.mem_cons] at hx
            rcases hx with e | e | e | e
            · omega
            · omega
            · omega
            · exact i3 x e
          · rw [← h]; simp

theorem isB64_some (c : Nat) (h : isB64 c = true) : ∃ v, b64Val c = some v := Option.isSome_iff_exists.mp h

/-- every well-formed quartet string is decoded -/
theorem decodeQuads_complete (raw : List Nat) (h : isB64Quartets raw = true) : ∃ bs, decodeQuads raw = some bs := by
  induction raw using four_step with
  | h0 => simp [isB64Quartets] at h
  | h1 a => simp [isB64Quartets] at h
  | h2 a b => simp [isB64Quartets] at h
  | h3 a b c => simp [isB64Quartets] at h
  | h4 d1 d2 d3 d4 r ih =>
    cases r with
    | nil =>
      simp only [isB64Quartets, Bool.and_eq_true, Bool.or_eq_true, beq_iff_eq] at h
      obtain ⟨g1, hc⟩ := h
      obtain ⟨v1, h1⟩ := isB64_some d1 g1
      obtain ⟨b1, _, c1⟩ := b64Val_bound d1 v1 h1
      rcases hc with (⟨⟨g2, g3⟩, g4⟩ | ⟨⟨g2, g3⟩, g4⟩) | ⟨⟨g2, g3⟩, g4⟩
      · obtain ⟨v2, h2⟩ := isB64_some d2 g2
        obtain ⟨v3, h3⟩ := isB64_some d3 g3
        obtain ⟨v4, h4⟩ := isB64_some d4 g4
        obtain ⟨b2, _, c2⟩ := b64Val_bound d2 v2 h2
        obtain ⟨b3, _, c3⟩ := b64Val_bound d3 v3 h3
        obtain ⟨b4, _, c4⟩ := b64Val_bound d4 v4 h4
        exact ⟨_, by rw [← c1, ← c2, ← c3, ← c4]; exact dq_last3 v1 v2 v3 v4 b1 b2 b3 b4⟩
      · obtain ⟨v2, h2⟩ := isB64_some d2 g2
        obtain ⟨v3, h3, hm⟩ := isB16_val d3 g3
        obtain ⟨b2, _, c2⟩ := b64Val_bound d2 v2 h2
        obtain ⟨b3, _, c3⟩ := b64Val_bound d3 v3 h3
        refine ⟨[(v1 * 4 + v2 / 16) % 256, (v2 * 16 + v3 / 4) % 256], ?_⟩
        rw [← c1, ← c2, ← c3, g4, dq_last2 v1 v2 v3 b1 b2 b3]
        have : (v3 % 4 != 0) = false := by simp [hm]
        rw [this]; rfl
      · obtain ⟨v2, h2, hm⟩ := isB04_val d2 g2
        obtain ⟨b2, _, c2⟩ := b64Val_bound d2 v2 h2
        refine ⟨[(v1 * 4 + v2 / 16) % 256], ?_⟩
        rw [← c1, ← c2, g3, g4, dq_last1 v1 v2 b1 b2]
        have : (v2 % 16 != 0) = false := by simp [hm]
        rw [this]; rfl
    | cons e r' =>
      simp only [isB64Quartets, Bool.and_eq_true] at h
      obtain ⟨⟨⟨⟨g1, g2⟩, g3⟩, g4⟩, hr⟩ := h
      obtain ⟨v, hv⟩ := ih hr
      rw [dq_more, hv]
      rw [isB64_iff, ← isData_spec] at g1 g2 g3 g4
      simp [g1, g2, g3, g4]

theorem quartets_chars (raw : List Nat) (h : isB64Quartets raw = true) :
    raw.length % 4 = 0 ∧ raw.length / 4 ≠ 0 ∧ ∀ c ∈ raw, isB64 c = true ∨ c = pad := by
  induction raw using four_step with
  | h0 => simp [isB64Quartets] at h
  | h1 a => simp [isB64Quartets] at h
  | h2 a b => simp [isB64Quartets] at h
  | h3 a b c => simp [isB64Quartets] at h
  | h4 d1 d2 d3 d4 r ih =>
    cases r with
    | nil =>
      simp only [isB64Quartets, Bool.and_eq_true, Bool.or_eq_true, beq_iff_eq] at h
      obtain ⟨g1, hc⟩ := h
      refine ⟨by simp, by simp, ?_⟩
      intro c hc'
      simp only [List.mem_cons, List.not_mem_nil, or_false] at hc'
      rcases hc with (⟨⟨g2, g3⟩, g4⟩ | ⟨⟨g2, g3⟩, g4⟩) | ⟨⟨g2, g3⟩, g4⟩
      · rcases hc' with e | e | e | e <;> subst e <;> simp [*]
      · obtain ⟨v3, h3, _⟩ := isB16_val d3 g3
        have : isB64 d3 = true := by rw [isB64_iff, h3]; rfl
        rcases hc' with e | e | e | e <;> subst e <;> simp [*]
      · obtain ⟨v2, h2, _⟩ := isB04_val d2 g2
        have : isB64 d2 = true := by rw [isB64_iff, h2]; rfl
        rcases hc' with e | e | e | e <;> subst e <;> simp [*]
    | cons e r' =>
      simp only [isB64Quartets, Bool.and_eq_true] at h
      obtain ⟨⟨⟨⟨g1, g2⟩, g3⟩, g4⟩, hr⟩ := h
      obtain ⟨i1, i2, i3⟩ := ih hr
      refine ⟨by simp only [List.length_cons] at i1 ⊢; omega, by simp only [List.length_cons] at i2 ⊢; omega, ?_⟩
      intro c hc'
      simp only [List.mem_cons] at hc'
      rcases hc' with e | e | e | e | e
      · subst e; exact Or.inl g1
      · subst e; exact Or.inl g2
      · subst e; exact Or.inl g3
      · subst e; exact Or.inl g4
      · exact i3 c (by simp only [List.mem_cons]; exact e)

theorem b64_or_pad_props (c : Nat) (h : isB64 c = true ∨ c = pad) :
    c < 255 ∧ c ≠ sp ∧ isWhitespace c = false ∧ c ≠ 0 := by
  rcases h with h | h
  · obtain ⟨v, hv⟩ := isB64_some c h
    obtain ⟨b, hc, e⟩ := b64Val_bound c v hv
    refine ⟨hc, ?_, ?_, ?_⟩
    · rw [← e]; exact char_not_sp v b
    · rw [← e]; exact char_not_ws v b
    · intro e0; rw [e0] at hv; simp [b64Val] at hv
  · subst h; decide

/-! ### white-space loops -/

theorem filter_id_of {α} (p : α → Bool) (l : List α) (h : ∀ c ∈ l, p c = true) : l.filter p = l :=
  List.filter_eq_self.mpr h

/-- Conf_Schema loop: result and success condition -/
theorem stripSchema_spec (l : List Nat) (w : Bool) (acc : List Nat) :
    (∀ raw w', stripSchema l w acc = some (raw, w') → raw = acc.reverse ++ unspace l) ∧
    ((∃ raw, stripSchema l w acc = some (raw, false)) ↔
      (if w then (l ≠ [] ∧ l.head? ≠ some sp ∧ spacingOk.go l = true) else spacingOk.go l = true)) := by
  induction l generalizing w acc with
  | nil =>
    constructor
    · intro raw w' h; simp [stripSchema] at h; simp [unspace, h.1]
    · cases w <;> simp [stripSchema, spacingOk.go]
  | cons c r ih =>
    have hsp : chSpace = sp := consts_spec.2.2.2.2.2.2.1
    by_cases hc : c = sp
    · subst hc
      cases w with
      | true =>
        constructor
        · intro raw w' h; simp [stripSchema, hsp] at h
        · simp [stripSchema, hsp]
      | false =>
        constructor
        · intro raw w' h
          simp only [stripSchema, hsp, bne_self_eq_false, Bool.false_eq_true, if_false] at h
          rw [(ih true acc).1 raw w' h]; simp [unspace]
        · simp only [stripSchema, hsp, bne_self_eq_false, Bool.false_eq_true, if_false]
          rw [(ih true acc).2]
          simp only [if_true]
          cases r with
          | nil => simp [spacingOk.go]
          | cons d r' =>
            simp only [spacingOk.go, beq_self_eq_true, if_true, List.head?_cons, ne_eq, Option.some.injEq,
              Bool.and_eq_true, bne_iff_ne]
            constructor
            · rintro ⟨_, h1, h2⟩; exact ⟨h1, h2⟩
            · rintro ⟨h1, h2⟩; exact ⟨by simp, h1, h2⟩
    · have hne : (c != chSpace) = true := by rw [hsp]; exact bne_iff_ne.mpr hc
      constructor
      · intro raw w' h
        simp only [stripSchema, hne, if_true] at h
        rw [(ih false (c :: acc)).1 raw w' h]
        have : unspace (c :: r) = c :: unspace r := by
          unfold unspace; rw [List.filter_cons_of_pos (by simpa using hc)]
        rw [this]; simp
      · simp only [stripSchema, hne, if_true]
        rw [(ih false (c :: acc)).2]
        have hgo : spacingOk.go (c :: r) = spacingOk.go r ∨ (r = [] ∧ spacingOk.go (c :: r) = true) := by
          cases r with
          | nil => right; exact ⟨rfl, by simp [spacingOk.go, bne_iff_ne, hc]⟩
          | cons d r' => left; simp [spacingOk.go, beq_iff_eq, hc]
        cases w with
        | true =>
          simp only [if_true, Bool.false_eq_true, if_false]
          rcases hgo with h | ⟨h1, h2⟩
          · rw [h]; simp [hc]
          · subst h1; simp [spacingOk.go, hc]
        | false =>
          simp only [Bool.false_eq_true, if_false]
          rcases hgo with h | ⟨h1, h2⟩
          · rw [h]
          · subst h1; simp [spacingOk.go, hc]

theorem decode_rfc (input : List Nat) :
    decode .rfc2045 input =
      if input.isEmpty then none
      else if (strip input).length % 4 != 0 then none
      else if (strip input).length / 4 == 0 then none
      else match decodeQuads (strip input) with
        | some v => some (v, strip input)
        | none => none := by
  unfold decode strip
  simp only [consts_spec.2.2.1]
  rfl

theorem decode_schema (input : List Nat) :
    decode .schema input =
      if input.isEmpty then none
      else if input.head? == some chSpace then none
      else match stripSchema input false [] with
        | none => none
        | some (raw, inWs) =>
          if inWs then none
          else if raw.length % 4 != 0 then none
          else if raw.length / 4 == 0 then none
          else match decodeQuads raw with
            | some v => some (v, raw)
            | none => none := by
  unfold decode
  simp only [consts_spec.2.2.1]
  by_cases h1 : input.isEmpty = true
  · simp [h1]
  · by_cases h2 : (input.head? == some chSpace) = true
    · simp [h1, h2]
    · cases h3 : stripSchema input false [] with
      | none => simp [h1, h2]
      | some p =>
        obtain ⟨raw, w⟩ := p
        cases w
        · simp [h1, h2]; rfl
        · simp [h1, h2]

/-- what `decode` accepts, RFC 2045 mode -/
theorem decode_sound_rfc (s bs can : List Nat) (h : decode .rfc2045 s = some (bs, can)) :
    can = b64Encode bs ∧ AllBytes bs ∧ bs ≠ [] ∧ isB64Quartets can = true ∧ can = strip s := by
  rw [decode_rfc] at h
  split at h
  · cases h
  · split at h
    · cases h
    · split at h
      · cases h
      · cases hq : decodeQuads (strip s) with
        | none => rw [hq] at h; cases h
        | some v =>
          rw [hq] at h
          simp only [Option.some.injEq, Prod.mk.injEq] at h
          obtain ⟨e1, e2⟩ := h
          subst e1
          obtain ⟨i1, i2, i3, i4⟩ := decodeQuads_sound _ _ hq
          rw [← e2]
          exact ⟨i2.symm, i3, i4, i1, rfl⟩

/-- what `decode` accepts, schema mode -/
theorem decode_sound_schema (s bs can : List Nat) (h : decode .schema s = some (bs, can)) :
    can = b64Encode bs ∧ AllBytes bs ∧ bs ≠ [] ∧ isB64Quartets can = true ∧ can = unspace s ∧ spacingOk s = true := by
  rw [decode_schema] at h
  have hsp : chSpace = sp := consts_spec.2.2.2.2.2.2.1
  split at h
  · cases h
  · rename_i hne
    split at h
    · cases h
    · rename_i hhead
      cases hst : stripSchema s false [] with
      | none => rw [hst] at h; cases h
      | some p =>
        obtain ⟨raw', w'⟩ := p
        rw [hst] at h
        simp only at h
        split at h
        · cases h
        · rename_i hw
          have hw' : w' = false := by simpa using hw
          subst hw'
          have hu := (stripSchema_spec s false []).1 raw' false hst
          simp only [List.reverse_nil, List.nil_append] at hu
          have hgo := (stripSchema_spec s false []).2.mp ⟨raw', hst⟩
          simp only [Bool.false_eq_true, if_false] at hgo
          split at h
          · cases h
          · split at h
            · cases h
            · cases hq : decodeQuads raw' with
              | none => rw [hq] at h; cases h
              | some v =>
                rw [hq] at h
                simp only [Option.some.injEq, Prod.mk.injEq] at h
                obtain ⟨e1, e2⟩ := h
                subst e1
                obtain ⟨i1, i2, i3, i4⟩ := decodeQuads_sound _ _ hq
                rw [← e2]
                refine ⟨i2.symm, i3, i4, i1, hu, ?_⟩
                cases s with
                | nil => simp at hne
                | cons c r =>
                  have hc : c ≠ sp := by
                    intro e; apply hhead; rw [e, hsp]; simp
                  unfold spacingOk
                  rw [Bool.and_eq_true]
                  refine ⟨bne_iff_ne.mpr hc, ?_⟩
                  cases r with
                  | nil => rfl
                  | cons d r' =>
                    simp only [spacingOk.go] at hgo
                    rw [if_neg (by simpa using hc)] at hgo
                    exact hgo

/-- what `decode` (schema mode) must accept -/
theorem decode_schema_complete (s : List Nat) (hne : s ≠ []) (hsp : spacingOk s = true)
    (hq : isB64Quartets (unspace s) = true) : ∃ bs, decode .schema s = some (bs, unspace s) := by
  obtain ⟨bs, hbs⟩ := decodeQuads_complete _ hq
  obtain ⟨l1, l2, _⟩ := quartets_chars _ hq
  have hspc : chSpace = sp := consts_spec.2.2.2.2.2.2.1
  cases s with
  | nil => exact absurd rfl hne
  | cons c r =>
    unfold spacingOk at hsp
    rw [Bool.and_eq_true] at hsp
    obtain ⟨hc, hgo⟩ := hsp
    have hc' : c ≠ sp := bne_iff_ne.mp hc
    have hgo' : spacingOk.go (c :: r) = true := by
      cases r with
      | nil => simp [spacingOk.go, hc]
      | cons d r' => simp only [spacingOk.go]; rw [if_neg (by simpa using hc')]; exact hgo
    obtain ⟨raw, hraw⟩ := (stripSchema_spec (c :: r) false []).2.mpr (by simpa using hgo')
    have hu := (stripSchema_spec (c :: r) false []).1 raw false hraw
    simp only [List.reverse_nil, List.nil_append] at hu
    subst hu
    refine ⟨bs, ?_⟩
    rw [decode_schema, hraw]
    simp only [List.isEmpty_cons, Bool.false_eq_true, if_false, List.head?_cons]
    have : (some c == some chSpace) = false := by
      rw [hspc]; simpa using hc'
    rw [this]
    simp only [Bool.false_eq_true, if_false]
    rw [if_neg (by simp [l1]), if_neg (by simpa using l2), hbs]

theorem unspace_id (l : List Nat) (h : ∀ c ∈ l, c ≠ sp) : unspace l = l :=
  filter_id_of _ l (fun c hc => bne_iff_ne.mpr (h c hc))

theorem strip_id (l : List Nat) (h : ∀ c ∈ l, isWhitespace c = false) : strip l = l :=
  filter_id_of _ l (fun c hc => by rw [h c hc]; rfl)

theorem spacingOk_nospace (l : List Nat) (h : ∀ c ∈ l, c ≠ sp) : spacingOk l = true := by
  have go : ∀ l : List Nat, (∀ c ∈ l, c ≠ sp) → spacingOk.go l = true := by
    intro l
    induction l with
    | nil => intro _; rfl
    | cons a r ih =>
      intro h
      cases r with
      | nil => simp [spacingOk.go, bne_iff_ne, h a (by simp)]
      | cons d r' =>
        simp only [spacingOk.go]
        rw [if_neg (by simpa using h a (by simp))]
        exact ih (fun c hc => h c (by simp [hc]))
  cases l with
  | nil => rfl
  | cons a r =>
    unfold spacingOk
    rw [Bool.and_eq_true]
    exact ⟨bne_iff_ne.mpr (h a (by simp)), go r (fun c hc => h c (by simp [hc]))⟩

/-- the canonical form of an octet string decodes to it, in both modes -/
theorem decode_canonical (conf : Conformance) (bs : List Nat) (h : AllBytes bs) (hne : bs ≠ []) :
    decode conf (b64Encode bs) = some (bs, b64Encode bs) := by
  have hq := decodeQuads_encode bs h hne
  obtain ⟨i1, _, _, _⟩ := decodeQuads_sound _ _ hq
  obtain ⟨l1, l2, l3⟩ := quartets_chars _ i1
  obtain ⟨e, r, her⟩ := b64Encode_ne_nil bs hne
  have hprops := fun c hc => b64_or_pad_props c (l3 c hc)
  cases conf with
  | rfc2045 =>
    rw [decode_rfc, strip_id _ (fun c hc => (hprops c hc).2.2.1)]
    rw [if_neg (by rw [her]; simp), if_neg (by simp [l1]), if_neg (by simpa using l2), hq]
  | schema =>
    have hu := unspace_id _ (fun c hc => (hprops c hc).2.1)
    obtain ⟨bs', hd⟩ := decode_schema_complete (b64Encode bs) (by rw [her]; simp)
      (spacingOk_nospace _ (fun c hc => (hprops c hc).2.1)) (by rw [hu]; exact i1)
    rw [hu] at hd
    obtain ⟨e1, _⟩ := decode_sound_schema _ _ _ hd
    rw [hd]
    -- bs' = bs since both encode to the same string: decode it
    have := decodeQuads_encode bs' (decode_sound_schema _ _ _ hd).2.1 (decode_sound_schema _ _ _ hd).2.2.1
    rw [← e1, hq] at this
    injection this with this
    rw [this]

end XV.Lemmas.Codec
