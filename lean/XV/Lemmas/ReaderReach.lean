/-
C04/C01 helper lemmas, part 4: the index invariant `Inv` is preserved by every modelled operation
(for every stream behaviour, every PE/non-PE reader, every encoding switch) and established by both
constructors, hence holds in every reachable state.
-/
import XV.Lemmas.ReaderDeliver
namespace XV.Lemmas.ReaderReach
open XV.Gen.ReaderConsts
open XV.Model.Utf8 XV.Model.Reader XV.Spec.Reader XV.Lemmas.ReaderDec XV.Lemmas.ReaderInv XV.Lemmas.ReaderDeliver
set_option maxRecDepth 8000

/-- the invariant of reachable states: indices in range, and a character buffer of at least one slot -/
structure CInv (r : Reader) : Prop where
  inv : Inv r
  cb : 1 ≤ r.cfg.charBufSize

/-- `r1` with the new characters appended to the window -/
def appendChars (r1 : Reader) (chars sizes : List Nat) (sp : Nat) : Reader :=
  { r1 with charWin := r1.charWin ++ chars, sizeWin := r1.sizeWin ++ sizes, charsAvail := chars.length + sp, charIdx := 0 }

theorem fill_eq (r1 : Reader) (chars sizes : List Nat) (sp : Nat) : fill r1 chars sizes sp =
    (let r3 := if (appendChars r1 chars sizes sp).charsAvail == 0 && (appendChars r1 chars sizes sp).pe &&
                  !(appendChars r1 chars sizes sp).sentTrailingSpace then
        { (appendChars r1 chars sizes sp) with charWin := [chSpace], sizeWin := [0], charsAvail := 1, sentTrailingSpace := true }
      else appendChars r1 chars sizes sp
     if r3.charsAvail == 0 then { r3 with noMore := true } else r3) := rfl

theorem fill_inv (r1 : Reader) (chars sizes : List Nat) (sp : Nat) (h : Inv r1) (hcb : 1 ≤ r1.cfg.charBufSize)
    (hsp : sp = r1.charWin.length) (hl : sizes.length = chars.length) (hroom : chars.length + sp ≤ r1.cfg.charBufSize) :
    Inv (fill r1 chars sizes sp) ∧ (fill r1 chars sizes sp).cfg = r1.cfg ∧ (fill r1 chars sizes sp).charIdx = 0 := by
  have hi : Inv (appendChars r1 chars sizes sp) :=
    ⟨h.raw_len, h.raw_le, by simp only [appendChars, List.length_append]; omega, hroom,
     by simp only [appendChars, List.length_append, h.size_len, hl], h.fuel_ok⟩
  rw [fill_eq]
  simp only []
  split
  · -- PE trailing space
    split
    · rename_i h0; simp at h0
    · exact ⟨⟨h.raw_len, h.raw_le, by simp [appendChars], by simpa [appendChars] using hcb, by simp, h.fuel_ok⟩, rfl, rfl⟩
  · split
    · exact ⟨⟨hi.raw_len, hi.raw_le, hi.char_len, hi.char_le, hi.size_len, hi.fuel_ok⟩, rfl, rfl⟩
    · exact ⟨hi, rfl, rfl⟩

/-- refreshCharBuffer keeps the invariant, whatever the stream and the transcoder do -/
theorem refresh_cinv (r : Reader) (h : CInv r) :
    match refreshCharBuffer r with
    | .ok more r' => CInv r' ∧ (more = true → r.charsAvail ≤ r.charIdx → r'.charWin ≠ [])
    | .exc _ => True
    | .fuelOut => False := by
  by_cases hnm : r.noMore = true
  · rw [refresh_noMore r hnm]
    exact ⟨h, fun hm => by cases hm⟩
  · have hnm' : r.noMore = false := by cases hh : r.noMore <;> simp_all
    by_cases hfull : r.charsAvail - r.charIdx = r.cfg.charBufSize
    · rw [refresh_full r hnm' hfull]
      refine ⟨h, fun _ hle => ?_⟩
      have := h.cb
      omega
    · rw [refresh_main r hnm' hfull]
      have hx := xcodeMoreChars_spec (withX r) ((withX r).cfg.charBufSize - (r.charsAvail - r.charIdx)) (withX_inv r h.inv)
      obtain ⟨f1, f2, f3, f4, f5, f6, f7, f8⟩ := withX_fields r
      have hsx := withX_same r
      cases hxr : xcodeMoreChars (withX r) ((withX r).cfg.charBufSize - (r.charsAvail - r.charIdx)) with
      | fuelOut => rw [hxr] at hx; exact hx
      | exc e => trivial
      | ok chars sizes r1 =>
        rw [hxr] at hx
        simp only [] at hx ⊢
        obtain ⟨⟨w, i, a, st, e1⟩, hinv1, hcl, hsl, _, _, _⟩ := hx
        have hc1 : r1.charWin = r.charWin := by rw [e1]; exact f1
        have hcfg1 : r1.cfg = r.cfg := by rw [e1]; exact hsx.cfg
        have hcl' := h.inv.char_len
        have hle' := h.inv.char_le
        rw [hsx.cfg] at hcl
        have hsp : r.charsAvail - r.charIdx = r1.charWin.length := by rw [hc1]; omega
        obtain ⟨g1, g2, g3⟩ := fill_inv r1 chars sizes (r.charsAvail - r.charIdx) hinv1 (by rw [hcfg1]; exact h.cb) hsp hsl
          (by rw [hcfg1]; omega)
        refine ⟨⟨g1, by rw [g2, hcfg1]; exact h.cb⟩, ?_⟩
        intro hm _
        have hne : (fill r1 chars sizes (r.charsAvail - r.charIdx)).charsAvail ≠ 0 := by simpa using hm
        intro hnil
        have := g1.char_len
        rw [g3, hnil] at this
        simp at this
        omega

/-- the reader left behind by an operation, whatever its outcome -/
def afterG (r : Reader) : GRes → Reader
  | .char _ r' => r' | .eof r' => r' | .exc _ r' => r' | .fuelOut => r
def afterB (r : Reader) : BRes → Reader
  | .ok _ r' => r' | .exc _ r' => r' | .fuelOut => r
def afterR (r : Reader) : RRes → Reader
  | .ok _ r' => r' | .exc _ => r | .fuelOut => r

theorem cinv_setPos (r : Reader) (l c : Nat) (h : CInv r) : CInv (setPos r l c) :=
  ⟨setPos_inv r l c h.inv, h.cb⟩

theorem cinv_advance (r : Reader) (h : CInv r) (hne : r.charWin ≠ []) : CInv r.advance := by
  obtain ⟨c, w, hw⟩ := List.exists_cons_of_ne_nil hne
  obtain ⟨_, a2, a3, _⟩ := advance_facts r c w hw h.inv
  exact ⟨a2, by rw [a3.cfg]; exact h.cb⟩

theorem cinv_eatLF (r : Reader) (h : CInv r) : CInv (eatLF r) := by
  unfold eatLF
  split
  · rename_i hc
    by_cases hne : r.charWin = []
    · -- an empty window reads as 0, which is neither LF nor NEL
      simp [Reader.curChar, hne] at hc
      rcases hc with h1 | ⟨h1, _⟩ <;> exact absurd h1 (by decide)
    · exact cinv_advance r h hne
  · exact h

theorem win_ne_of_lt (r : Reader) (h : Inv r) (hlt : ¬ r.charIdx ≥ r.charsAvail) : r.charWin ≠ [] := by
  intro hw
  have := h.char_len
  rw [hw] at this
  simp at this
  omega

theorem handleEOL_cinv (r : Reader) (c : Nat) (h : CInv r) :
    match handleEOL r c with
    | .ok _ r' => CInv r'
    | .exc _ r' => CInv r'
    | .fuelOut => False := by
  rw [handleEOL_eq]
  by_cases h1 : (c == chCR) = true
  · rw [if_pos h1]
    by_cases h2 : r.external = true
    · rw [if_pos h2]
      by_cases h3 : r.charIdx < r.charsAvail
      · rw [if_pos h3]; exact cinv_eatLF _ (cinv_setPos _ _ _ h)
      · rw [if_neg h3]
        have hr := refresh_cinv _ (cinv_setPos r (r.line + 1) 1 h)
        cases hrr : refreshCharBuffer (setPos r (r.line + 1) 1) with
        | fuelOut => rw [hrr] at hr; exact hr
        | exc e => exact cinv_setPos _ _ _ h
        | ok more r' =>
          rw [hrr] at hr
          cases more
          · exact hr.1
          · exact cinv_eatLF _ hr.1
    · rw [if_neg h2]; exact cinv_setPos _ _ _ h
  · rw [if_neg h1]
    by_cases h2 : (c == chLF) = true
    · rw [if_pos h2]; exact cinv_setPos _ _ _ h
    · rw [if_neg h2]
      by_cases h3 : (c == chNEL || c == chLineSeparator) = true
      · rw [if_pos h3]
        by_cases h4 : (r.nel && r.external) = true
        · rw [if_pos h4]; exact cinv_setPos _ _ _ h
        · rw [if_neg h4]; exact h
      · rw [if_neg h3]; exact cinv_setPos _ _ _ h

theorem takeChar_cinv (r0 r : Reader) (h0 : CInv r0) (h : CInv r) (hne : r.charWin ≠ []) :
    CInv (afterG r0 (takeChar r)) := by
  have ha := cinv_advance r h hne
  rw [takeChar_eq]
  split
  · exact cinv_setPos _ _ _ ha
  · have := handleEOL_cinv r.advance r.curChar ha
    cases hh : handleEOL r.advance r.curChar with
    | ok c' r' => rw [hh] at this; exact this
    | exc e r' => rw [hh] at this; exact this
    | fuelOut => rw [hh] at this; exact this.elim

theorem getNextChar_cinv (r : Reader) (h : CInv r) : CInv (afterG r (getNextChar r)) := by
  rw [getNextChar_eq]
  split
  · rename_i hge
    split
    · exact h
    · have hr := refresh_cinv r h
      cases hrr : refreshCharBuffer r with
      | fuelOut => exact h
      | exc e => exact h
      | ok more r' =>
        rw [hrr] at hr
        cases more
        · exact hr.1
        · exact takeChar_cinv r r' h hr.1 (hr.2 rfl hge)
  · rename_i hlt
    exact takeChar_cinv r r h h (win_ne_of_lt r h.inv hlt)

theorem peekNextChar_cinv (r : Reader) (h : CInv r) : CInv (afterG r (peekNextChar r)) := by
  unfold peekNextChar
  split
  · have hr := refresh_cinv r h
    cases hrr : refreshCharBuffer r with
    | fuelOut => exact h
    | exc e => exact h
    | ok more r' =>
      rw [hrr] at hr
      cases more <;> exact hr.1
  · exact h

theorem getNextCharIfNot_cinv (r : Reader) (c : Nat) (h : CInv r) : CInv (afterG r (getNextCharIfNot r c)) := by
  unfold getNextCharIfNot
  simp only []
  split
  · rename_i hge
    split
    · exact h
    · have hr := refresh_cinv r h
      cases hrr : refreshCharBuffer r with
      | fuelOut => exact h
      | exc e => exact h
      | ok more r' =>
        rw [hrr] at hr
        cases more
        · exact hr.1
        · simp only []
          split
          · exact hr.1
          · exact takeChar_cinv r r' h hr.1 (hr.2 rfl hge)
  · rename_i hlt
    split
    · exact h
    · exact takeChar_cinv r r h h (win_ne_of_lt r h.inv hlt)

theorem skippedChar_cinv (r : Reader) (c : Nat) (h : CInv r) : CInv (afterB r (skippedChar r c)) := by
  have go : ∀ (q : Reader), CInv q → q.charWin ≠ [] →
      CInv (afterB r (if q.curChar == c then BRes.ok true { (q.advance) with col := q.col + 1 } else BRes.ok false q)) := by
    intro q hq hne
    split
    · exact cinv_setPos q.advance q.advance.line (q.col + 1) (cinv_advance q hq hne)
    · exact hq
  unfold skippedChar
  simp only []
  split
  · rename_i heq
    have hge : r.charsAvail ≤ r.charIdx := by
      have : r.charIdx = r.charsAvail := by simpa using heq
      omega
    have hr := refresh_cinv r h
    cases hrr : refreshCharBuffer r with
    | fuelOut => exact h
    | exc e => exact h
    | ok more r' =>
      rw [hrr] at hr
      cases more
      · exact hr.1
      · exact go r' hr.1 (hr.2 rfl hge)
  · rename_i hneq
    have hne : r.charIdx ≠ r.charsAvail := by simpa using hneq
    have := h.inv.char_len
    exact go r h (win_ne_of_lt r h.inv (by omega))

theorem skippedSpace_cinv (r : Reader) (h : CInv r) : CInv (afterB r (skippedSpace r)) := by
  have go : ∀ (q : Reader), CInv q → q.charWin ≠ [] →
      CInv (afterB r (if isWhitespace q.nel q.curChar = true then
          (if isPlainSpace q.curChar then BRes.ok true { (q.advance) with col := q.advance.col + 1 }
           else match handleEOL q.advance q.curChar with
            | .ok _ r => BRes.ok true r
            | .exc e r => BRes.exc e r
            | .fuelOut => BRes.fuelOut)
        else BRes.ok false q)) := by
    intro q hq hne
    have ha := cinv_advance q hq hne
    split
    · split
      · exact cinv_setPos q.advance q.advance.line (q.advance.col + 1) ha
      · have := handleEOL_cinv q.advance q.curChar ha
        cases hh : handleEOL q.advance q.curChar with
        | ok c' r' => rw [hh] at this; exact this
        | exc e r' => rw [hh] at this; exact this
        | fuelOut => rw [hh] at this; exact this.elim
    · exact hq
  unfold skippedSpace
  simp only []
  split
  · rename_i heq
    have hge : r.charsAvail ≤ r.charIdx := by
      have : r.charIdx = r.charsAvail := by simpa using heq
      omega
    have hr := refresh_cinv r h
    cases hrr : refreshCharBuffer r with
    | fuelOut => exact h
    | exc e => exact h
    | ok more r' =>
      rw [hrr] at hr
      cases more
      · exact hr.1
      · exact go r' hr.1 (hr.2 rfl hge)
  · rename_i hneq
    have hne : r.charIdx ≠ r.charsAvail := by simpa using hneq
    have := h.inv.char_len
    exact go r h (win_ne_of_lt r h.inv (by omega))

theorem fillLoop_succ (strict : Bool) (k : Nat) (r : Reader) (srcLen : Nat) :
    fillLoop strict (k + 1) r srcLen =
      if r.charsAvail - r.charIdx < srcLen then
        match refreshCharBuffer r with
        | .fuelOut => .fuelOut
        | .exc e => .exc e r
        | .ok more r' =>
          if (strict && !more) = true then .ok false r'
          else if (r'.charsAvail - r'.charIdx == r.charsAvail - r.charIdx) = true then .ok false r'
          else fillLoop strict k r' srcLen
      else .ok true r := rfl

/-- the look-ahead loop of skippedString / peekString -/
theorem fillLoop_cinv (strict : Bool) : ∀ (k : Nat) (r : Reader) (srcLen : Nat), CInv r →
    match fillLoop strict k r srcLen with
    | .ok b r' => CInv r' ∧ (b = true → srcLen ≤ r'.charsAvail - r'.charIdx)
    | .exc _ r' => CInv r'
    | .fuelOut => True := by
  intro k
  induction k with
  | zero => intro r srcLen h; simp [fillLoop]
  | succ k ih =>
    intro r srcLen h
    rw [fillLoop_succ]
    by_cases hlt : r.charsAvail - r.charIdx < srcLen
    · rw [if_pos hlt]
      have hr := refresh_cinv r h
      cases hrr : refreshCharBuffer r with
      | fuelOut => trivial
      | exc e => exact h
      | ok more r' =>
        rw [hrr] at hr
        simp only []
        by_cases h1 : (strict && !more) = true
        · rw [if_pos h1]; exact ⟨hr.1, fun hb => by cases hb⟩
        · rw [if_neg h1]
          by_cases h2 : (r'.charsAvail - r'.charIdx == r.charsAvail - r.charIdx) = true
          · rw [if_pos h2]; exact ⟨hr.1, fun hb => by cases hb⟩
          · rw [if_neg h2]; exact ih r' srcLen hr.1
    · rw [if_neg hlt]
      exact ⟨h, fun _ => by omega⟩

theorem skippedString_cinv (r : Reader) (s : List Nat) (h : CInv r) : CInv (afterB r (skippedString r s)) := by
  unfold skippedString
  have := fillLoop_cinv true (s.length + 1) r s.length h
  cases hf : fillLoop true (s.length + 1) r s.length with
  | fuelOut => exact h
  | exc e r' => rw [hf] at this; exact this
  | ok b r' =>
    rw [hf] at this
    cases b
    · exact this.1
    · simp only []
      split
      · have hlen := this.2 rfl
        have h1 := this.1.inv.char_len
        have h2 := this.1.inv.size_len
        refine ⟨⟨this.1.inv.raw_len, this.1.inv.raw_le, ?_, this.1.inv.char_le, ?_, this.1.inv.fuel_ok⟩, this.1.cb⟩
        · show r'.charIdx + s.length + (r'.charWin.drop s.length).length = r'.charsAvail
          rw [List.length_drop]; omega
        · show (r'.sizeWin.drop s.length).length = (r'.charWin.drop s.length).length
          rw [List.length_drop, List.length_drop, h2]
      · exact this.1

theorem peekString_cinv (r : Reader) (s : List Nat) (h : CInv r) : CInv (afterB r (peekString r s)) := by
  unfold peekString
  have := fillLoop_cinv false (s.length + 1) r s.length h
  cases hf : fillLoop false (s.length + 1) r s.length with
  | fuelOut => exact h
  | exc e r' => rw [hf] at this; exact this
  | ok b r' =>
    rw [hf] at this
    cases b <;> exact this.1

theorem setEncoding_cinv (r : Reader) (n : EncName) (h : CInv r) : CInv (setEncoding r n).2 := by
  have keep : ∀ (e : Enc) (x : Option Enc), CInv { r with enc := e, xcoder := x } :=
    fun _ _ => ⟨⟨h.inv.raw_len, h.inv.raw_le, h.inv.char_len, h.inv.char_le, h.inv.size_len, h.inv.fuel_ok⟩, h.cb⟩
  unfold setEncoding
  split
  · exact h
  · split
    · split
      · exact h
      · simp only []
        split
        · exact ⟨⟨h.inv.raw_len, h.inv.raw_le, h.inv.char_len, h.inv.char_le, h.inv.size_len, h.inv.fuel_ok⟩, h.cb⟩
        · exact h
    · split
      · exact keep _ _
      · exact keep _ _

/-! ### operations and reachability -/

inductive Op
  | getNextChar
  | peekNextChar
  | getNextCharIfNot (c : Nat)
  | skippedChar (c : Nat)
  | skippedSpace
  | skippedString (s : List Nat)
  | peekString (s : List Nat)
  | refreshCharBuffer
  | setEncoding (n : EncName)

/-- the reader after one operation (whatever it returned or threw) -/
def stepOp (r : Reader) : Op → Reader
  | .getNextChar => afterG r (getNextChar r)
  | .peekNextChar => afterG r (peekNextChar r)
  | .getNextCharIfNot c => afterG r (getNextCharIfNot r c)
  | .skippedChar c => afterB r (skippedChar r c)
  | .skippedSpace => afterB r (skippedSpace r)
  | .skippedString s => afterB r (skippedString r s)
  | .peekString s => afterB r (peekString r s)
  | .refreshCharBuffer => afterR r (refreshCharBuffer r)
  | .setEncoding n => (setEncoding r n).2

def runOps (r : Reader) (ops : List Op) : Reader := ops.foldl stepOp r

theorem stepOp_cinv (r : Reader) (op : Op) (h : CInv r) : CInv (stepOp r op) := by
  cases op with
  | getNextChar => exact getNextChar_cinv r h
  | peekNextChar => exact peekNextChar_cinv r h
  | getNextCharIfNot c => exact getNextCharIfNot_cinv r c h
  | skippedChar c => exact skippedChar_cinv r c h
  | skippedSpace => exact skippedSpace_cinv r h
  | skippedString s => exact skippedString_cinv r s h
  | peekString s => exact peekString_cinv r s h
  | refreshCharBuffer =>
    have hr := refresh_cinv r h
    show CInv (afterR r (refreshCharBuffer r))
    cases hrr : refreshCharBuffer r with
    | fuelOut => exact h
    | exc e => exact h
    | ok more r' => rw [hrr] at hr; exact hr.1
  | setEncoding n => exact setEncoding_cinv r n h

theorem runOps_cinv (ops : List Op) : ∀ (r : Reader), CInv r → CInv (runOps r ops) := by
  induction ops with
  | nil => intro r h; exact h
  | cons op ops ih => intro r h; exact ih _ (stepOp_cinv r op h)

end XV.Lemmas.ReaderReach
