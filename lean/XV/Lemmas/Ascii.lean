import XV.Model.CodecStream
import XV.Spec.Ascii
namespace XV.Lemmas.Ascii
open XV.Model.ByteCodec XV.Model.CodecStream XV.Spec.Ascii

theorem take_min_length (src : List Nat) (m : Nat) : src.take (min src.length m) = src.take m := by
  by_cases h : m ≤ src.length
  · rw [Nat.min_eq_right h]
  · have h' : src.length ≤ m := by omega
    rw [Nat.min_eq_left h', List.take_length, List.take_of_length_le h']

theorem asciiFrom_eq (src : List Nat) (m : Nat) : asciiFrom src m = asciiFrom.go (src.take m) [] := by
  unfold asciiFrom
  simp only [take_min_length]

theorem asciiFrom_take (src : List Nat) (blk m : Nat) : asciiFrom (src.take blk) m = asciiFrom src (min m blk) := by
  rw [asciiFrom_eq, asciiFrom_eq, List.take_take]

theorem go_good : ∀ (l acc : List Nat), AllLegal l →
    asciiFrom.go l acc = .ok (acc ++ l) (List.replicate (acc ++ l).length 1) (acc ++ l).length := by
  intro l
  induction l with
  | nil => intro acc _; simp [asciiFrom.go]
  | cons b t ih =>
    intro acc h
    have hb : b < 0x80 := h b (by simp)
    simp only [asciiFrom.go, hb, if_true]
    rw [ih _ (fun x hx => h x (by simp [hx]))]; simp

theorem go_bad : ∀ (g acc : List Nat) (b : Nat) (r : List Nat), AllLegal g → ¬ legal b →
    asciiFrom.go (g ++ b :: r) acc =
      if (acc ++ g).length > 32 then .ok (acc ++ g) (List.replicate (acc ++ g).length 1) (acc ++ g).length
      else .exc "Trans_Unrepresentable" := by
  intro g
  induction g with
  | nil =>
    intro acc b r _ hb
    have hb' : ¬ b < 0x80 := hb
    simp [asciiFrom.go, hb']
  | cons a t ih =>
    intro acc b r h hb
    have ha : a < 0x80 := h a (by simp)
    simp only [List.cons_append, asciiFrom.go, ha, if_true]
    rw [ih _ b r (fun x hx => h x (by simp [hx])) hb]; simp

/-- one call on an all-legal buffer: the first `min m length` bytes, one char each -/
theorem block_good (src : List Nat) (m : Nat) (h : AllLegal src) :
    asciiFrom src m = .ok (src.take (min m src.length)) (List.replicate (min m src.length) 1) (min m src.length) := by
  rw [asciiFrom_eq, go_good _ _ (fun x hx => h x (List.mem_of_mem_take hx))]
  simp [List.length_take, List.take_eq_take_min]

/-- one call on a buffer whose first illegal byte is at index `g.length`: either the call ends before it,
or it stops exactly in front of it (more than 32 done: the error is deferred), or it throws (≤ 32 done) -/
theorem block_bad (g : List Nat) (b : Nat) (r : List Nat) (m : Nat) (hg : AllLegal g) (hb : ¬ legal b) (hm : 1 ≤ m) :
    (asciiFrom (g ++ b :: r) m = .exc "Trans_Unrepresentable" ∧ g.length ≤ 32 ∧ g.length < m) ∨
    (∃ e, 1 ≤ e ∧ e ≤ g.length ∧ e ≤ m ∧ (e < m → e = g.length ∧ 32 < e) ∧
      asciiFrom (g ++ b :: r) m = .ok (g.take e) (List.replicate e 1) e) := by
  by_cases hle : m ≤ g.length
  · right
    refine ⟨m, hm, hle, Nat.le_refl _, fun h => absurd h (Nat.lt_irrefl _), ?_⟩
    rw [asciiFrom_eq, List.take_append_of_le_length hle,
      go_good _ _ (fun x hx => hg x (List.mem_of_mem_take hx))]
    simp [List.length_take, Nat.min_eq_left hle]
  · have hlt : g.length < m := by omega
    obtain ⟨k, hk⟩ : ∃ k, m = g.length + (k + 1) := ⟨m - g.length - 1, by omega⟩
    have htake : (g ++ b :: r).take m = g ++ b :: r.take k := by
      rw [hk, List.take_length_add_append, List.take_succ_cons]
    rw [asciiFrom_eq, htake, go_bad g [] b _ hg hb]
    by_cases h32 : g.length > 32
    · right
      refine ⟨g.length, by omega, Nat.le_refl _, by omega, fun _ => ⟨rfl, h32⟩, ?_⟩
      simp [h32]
    · left
      simp [h32]; omega

theorem stream_good (blk m : Nat) (hm : 1 ≤ m) (hblk : 1 ≤ blk) : ∀ (fuel : Nat) (src out : List Nat) (pos : Nat),
    AllLegal src → src.length < fuel → stream asciiFrom blk m fuel src out pos = .done (out ++ src) := by
  intro fuel
  induction fuel with
  | zero => intro src out pos _ h; omega
  | succ fuel ih =>
    intro src out pos hs hf
    unfold stream
    by_cases hnil : src = []
    · simp [hnil]
    · have hlen : 0 < src.length := List.length_pos_iff.mpr hnil
      simp only [hnil, if_false]
      rw [asciiFrom_take, block_good src _ hs]
      obtain ⟨e, he⟩ : ∃ e, e = min (min m blk) src.length := ⟨_, rfl⟩
      rw [← he]
      have he0 : e ≠ 0 := by omega
      simp only [he0, if_false]
      rw [ih (src.drop e) (out ++ src.take e) (pos + e) (fun x hx => hs x (List.mem_of_mem_drop hx))
        (by rw [List.length_drop]; omega)]
      rw [List.append_assoc, List.take_append_drop]

theorem stream_bad (blk m : Nat) (hm : 1 ≤ m) (hblk : 1 ≤ blk) : ∀ (fuel : Nat) (g : List Nat) (b : Nat) (r out : List Nat) (pos : Nat),
    AllLegal g → ¬ legal b → g.length < fuel →
    ∃ k, k ≤ g.length ∧ g.length ≤ k + 32 ∧
      stream asciiFrom blk m fuel (g ++ b :: r) out pos = .exc (out ++ g.take k) (pos + k) "Trans_Unrepresentable" := by
  intro fuel
  induction fuel with
  | zero => intro g b r out pos _ _ h; omega
  | succ fuel ih =>
    intro g b r out pos hg hb hf
    unfold stream
    have hnil : g ++ b :: r ≠ [] := by simp
    simp only [hnil, if_false]
    rw [asciiFrom_take]
    rcases block_bad g b r (min m blk) hg hb (by omega) with ⟨hexc, h32, _⟩ | ⟨e, he1, heg, _, _, hok⟩
    · rw [hexc]
      exact ⟨0, by omega, by omega, by simp⟩
    · rw [hok]
      have he0 : e ≠ 0 := by omega
      simp only [he0, if_false]
      have hdrop : (g ++ b :: r).drop e = g.drop e ++ b :: r := List.drop_append_of_le_length heg
      rw [hdrop]
      obtain ⟨k, hk1, hk2, hk3⟩ := ih (g.drop e) b r (out ++ g.take e) (pos + e)
        (fun x hx => hg x (List.mem_of_mem_drop hx)) hb (by rw [List.length_drop]; omega)
      rw [List.length_drop] at hk1 hk2
      refine ⟨e + k, by omega, by omega, ?_⟩
      rw [hk3, List.append_assoc, Nat.add_assoc]
      congr 2
      rw [List.take_add]

/-! ### transcodeTo (shared `narrowTo` shape) -/

theorem narrow_go_good (limit : Nat) (thr : Bool) (n : Nat) : ∀ (l acc : List Nat), (∀ c ∈ l, c < limit) →
    narrowTo.go limit thr n l acc = .ok (acc ++ l) [] n := by
  intro l
  induction l with
  | nil => intro acc _; simp [narrowTo.go]
  | cons c t ih =>
    intro acc hl
    have hc : c < limit := hl c (by simp)
    simp only [narrowTo.go, hc, if_true]
    rw [ih _ (fun x hx => hl x (by simp [hx]))]; simp

theorem narrow_go_throw (limit n : Nat) : ∀ (g acc : List Nat) (c : Nat) (r : List Nat), (∀ x ∈ g, x < limit) → ¬ c < limit →
    narrowTo.go limit true n (g ++ c :: r) acc = .exc "Trans_Unrepresentable" := by
  intro g
  induction g with
  | nil => intro acc c r _ hc; simp [narrowTo.go, hc]
  | cons a t ih =>
    intro acc c r hg hc
    have ha : a < limit := hg a (by simp)
    simp only [List.cons_append, narrowTo.go, ha, if_true]
    exact ih _ c r (fun x hx => hg x (by simp [hx])) hc

theorem narrow_go_rep (limit n : Nat) : ∀ (l acc : List Nat),
    narrowTo.go limit false n l acc = .ok (acc ++ l.map (fun c => if c < limit then c else 0x1A)) [] n := by
  intro l
  induction l with
  | nil => intro acc; simp [narrowTo.go]
  | cons c t ih =>
    intro acc
    by_cases hc : c < limit
    · simp only [narrowTo.go, hc, if_true]; rw [ih]; simp [hc]
    · simp only [narrowTo.go, hc, if_false]; rw [ih]; simp [hc]

theorem asciiTo_eq (us : List Nat) (mb : Nat) (thr : Bool) :
    asciiTo us mb thr = narrowTo.go 128 thr (min us.length mb) (us.take mb) [] := by
  unfold asciiTo narrowTo
  simp only [take_min_length]

end XV.Lemmas.Ascii
