import XV.Model.Utf8
import XV.Spec.Utf8
namespace XV.Lemmas.Utf8
open XV.Model.Utf8 XV.Spec.Utf8

/-- what `gUTFBytes` must say for every byte (checked by kernel evaluation over the generated table) -/
def tbSpec (b : Nat) : Nat :=
  if b < 0xC2 then 0 else if b < 0xE0 then 1 else if b < 0xF0 then 2 else if b < 0xF8 then 3
  else if b < 0xFC then 4 else 5

theorem tb_spec : ∀ b, b < 256 → tb b = tbSpec b := by decide +kernel

/-- first-byte test passes exactly for ASCII and for leads whose bit pattern matches their length class -/
theorem first_ok : ∀ b, b < 256 → ((indTest (tb b) &&& b) != ind (tb b)) = (decide ((0x80 ≤ b ∧ b < 0xC2) ∨ 0xFE ≤ b)) := by
  decide +kernel

theorem trailBad_spec : ∀ b, b < 256 → trailBad b = !(cont b) := by decide +kernel

theorem off_vals : off 1 = 0x3080 ∧ off 2 = 0xE2080 ∧ off 3 = 0x3C82080 := by decide

theorem firstMark_vals : firstMark 1 = 0 ∧ firstMark 2 = 0xC0 ∧ firstMark 3 = 0xE0 ∧ firstMark 4 = 0xF0 := by decide

end XV.Lemmas.Utf8

namespace XV.Lemmas.Utf8
open XV.Model.Utf8 XV.Spec.Utf8

def AllBytes (l : List Nat) : Prop := ∀ b ∈ l, b < 256

theorem allBytes_cons {b : Nat} {l : List Nat} : AllBytes (b :: l) ↔ b < 256 ∧ AllBytes l := by
  simp [AllBytes]

theorem sub32_small {a b : Nat} (h1 : b ≤ a) (h2 : a < 4294967296) : sub32 a b = a - b := by
  unfold sub32; omega

theorem sub32_wrap {a b : Nat} (h1 : a < b) (h2 : b < 4294967296) : sub32 a b = a + 4294967296 - b := by
  unfold sub32; omega

theorem cont_iff (b : Nat) : cont b = true ↔ 0x80 ≤ b ∧ b ≤ 0xBF := by
  simp [cont]

end XV.Lemmas.Utf8

namespace XV.Lemmas.Utf8
open XV.Model.Utf8 XV.Spec.Utf8
set_option maxRecDepth 8000


theorem decodeStep_two (b0 b1 : Nat) (rest : List Nat) (h0 : b0 < 256) (h1 : b1 < 256)
    (hr : 0xC2 ≤ b0 ∧ b0 < 0xE0) :
    decodeStep (b0 :: b1 :: rest) =
      if cont b1 then .val ((b0 - 0xC0) * 64 + (b1 - 0x80)) 2 else .exc .formatError := by
  have ht : tb b0 = 1 := by rw [tb_spec b0 h0]; unfold tbSpec; (repeat' split) <;> omega
  have hf := first_ok b0 h0
  rw [ht] at hf
  unfold decodeStep
  simp only [ht]
  have : ¬ ((b1 :: rest).length < 1) := by simp
  simp only [this, if_false]
  rw [hf]
  have : ¬ ((0x80 ≤ b0 ∧ b0 < 0xC2) ∨ 0xFE ≤ b0) := by omega
  simp only [this, decide_false, Bool.false_eq_true, if_false]
  rw [trailBad_spec b1 h1]
  cases hc : cont b1
  · simp
  · simp
    rw [cont_iff] at hc
    rw [off_vals.1, sub32_small] <;> omega


theorem decodeStep_three (b0 b1 b2 : Nat) (rest : List Nat) (h0 : b0 < 256) (h1 : b1 < 256) (h2 : b2 < 256)
    (hr : 0xE0 ≤ b0 ∧ b0 < 0xF0) :
    decodeStep (b0 :: b1 :: b2 :: rest) =
      if b0 = 0xE0 ∧ b1 < 0xA0 then .exc .invalid3
      else if ¬ cont b1 then .exc .formatError
      else if ¬ cont b2 then .exc .formatError
      else if b0 = 0xED ∧ 0xA0 ≤ b1 then .exc .irregular3
      else .val ((b0 - 0xE0) * 4096 + (b1 - 0x80) * 64 + (b2 - 0x80)) 3 := by
  have ht : tb b0 = 2 := by rw [tb_spec b0 h0]; unfold tbSpec; (repeat' split) <;> omega
  have hf := first_ok b0 h0
  rw [ht] at hf
  unfold decodeStep
  simp only [ht]
  have : ¬ ((b1 :: b2 :: rest).length < 2) := by simp
  simp only [this, if_false]
  rw [hf]
  have : ¬ ((0x80 ≤ b0 ∧ b0 < 0xC2) ∨ 0xFE ≤ b0) := by omega
  simp only [this, decide_false, Bool.false_eq_true, if_false]
  rw [trailBad_spec b1 h1, trailBad_spec b2 h2]
  by_cases c1 : b0 = 0xE0 ∧ b1 < 0xA0
  · simp [c1]
  · simp only [c1, if_false]
    have : (b0 == 0xE0 && decide (b1 < 0xA0)) = false := by
      simp; omega
    simp only [this, Bool.false_eq_true, if_false]
    cases hc1 : cont b1 <;> simp
    cases hc2 : cont b2 <;> simp
    rw [cont_iff] at hc1 hc2
    by_cases c2 : b0 = 0xED ∧ 0xA0 ≤ b1
    · simp [c2]
    · simp only [c2, if_false]
      rw [off_vals.2.1, sub32_small]
      · have e : (b0 * 64 + b1) * 64 + b2 - 0xE2080 = (b0 - 0xE0) * 4096 + (b1 - 0x80) * 64 + (b2 - 0x80) := by omega
        rw [e]
      · omega
      · omega


theorem decodeStep_four (b0 b1 b2 b3 : Nat) (rest : List Nat) (h0 : b0 < 256) (h1 : b1 < 256)
    (h2 : b2 < 256) (h3 : b3 < 256) (hr : 0xF0 ≤ b0 ∧ b0 < 0xF8) :
    decodeStep (b0 :: b1 :: b2 :: b3 :: rest) =
      if (b0 = 0xF0 ∧ b1 < 0x90) ∨ (b0 = 0xF4 ∧ 0x8F < b1) then .exc .invalid4
      else if ¬ cont b1 then .exc .formatError
      else if ¬ cont b2 then .exc .formatError
      else if ¬ cont b3 then .exc .formatError
      else .val ((b0 - 0xF0) * 262144 + (b1 - 0x80) * 4096 + (b2 - 0x80) * 64 + (b3 - 0x80)) 4 := by
  have ht : tb b0 = 3 := by rw [tb_spec b0 h0]; unfold tbSpec; (repeat' split) <;> omega
  have hf := first_ok b0 h0
  rw [ht] at hf
  unfold decodeStep
  simp only [ht]
  have : ¬ ((b1 :: b2 :: b3 :: rest).length < 3) := by simp
  simp only [this, if_false]
  rw [hf]
  have : ¬ ((0x80 ≤ b0 ∧ b0 < 0xC2) ∨ 0xFE ≤ b0) := by omega
  simp only [this, decide_false, Bool.false_eq_true, if_false]
  rw [trailBad_spec b1 h1, trailBad_spec b2 h2, trailBad_spec b3 h3]
  by_cases c1 : (b0 = 0xF0 ∧ b1 < 0x90) ∨ (b0 = 0xF4 ∧ 0x8F < b1)
  · have : ((b0 == 0xF0 && decide (b1 < 0x90)) || (b0 == 0xF4 && decide (b1 > 0x8F))) = true := by
      simp; omega
    simp [c1, this]
  · have : ((b0 == 0xF0 && decide (b1 < 0x90)) || (b0 == 0xF4 && decide (b1 > 0x8F))) = false := by
      simp; omega
    simp only [c1, if_false, this, Bool.false_eq_true]
    cases hc1 : cont b1 <;> simp
    cases hc2 : cont b2 <;> simp
    cases hc3 : cont b3 <;> simp
    rw [cont_iff] at hc1 hc2 hc3
    rw [off_vals.2.2, sub32_small]
    · have e : ((b0 * 64 + b1) * 64 + b2) * 64 + b3 - 0x3C82080 =
          (b0 - 0xF0) * 262144 + (b1 - 0x80) * 4096 + (b2 - 0x80) * 64 + (b3 - 0x80) := by omega
      rw [e]
    · omega
    · omega

theorem decodeStep_low (b0 : Nat) (rest : List Nat) (h0 : b0 < 256) (hr : 0x80 ≤ b0 ∧ b0 < 0xC2) :
    decodeStep (b0 :: rest) = .exc .formatError := by
  have ht : tb b0 = 0 := by rw [tb_spec b0 h0]; unfold tbSpec; (repeat' split) <;> omega
  have hf := first_ok b0 h0
  rw [ht] at hf
  unfold decodeStep
  simp only [ht]
  rw [hf]
  have : ((0x80 ≤ b0 ∧ b0 < 0xC2) ∨ 0xFE ≤ b0) := by omega
  simp [this]

theorem wf_encode_value (w : List Nat) (h : wellFormed w = true) :
    encode (value w) = w ∧ isScalar (value w) := by
  rcases w with _ | ⟨b0, _ | ⟨b1, _ | ⟨b2, _ | ⟨b3, _ | ⟨b4, t⟩⟩⟩⟩⟩
  · simp [wellFormed] at h
  · simp [wellFormed] at h
    unfold value encode isScalar
    have h1 : b0 < 0x80 := by omega
    simp only [h1, if_true]
    exact ⟨trivial, by omega⟩
  · simp [wellFormed, cont] at h
    unfold value encode isScalar
    have h1 : ¬ ((b0 - 0xC0) * 64 + (b1 - 0x80) < 0x80) := by omega
    have h2 : ((b0 - 0xC0) * 64 + (b1 - 0x80) < 0x800) := by omega
    simp only [h1, h2, if_false, if_true]
    refine ⟨by simp only [List.cons.injEq, and_true]; omega, by omega⟩
  · simp [wellFormed, cont] at h
    unfold value encode isScalar
    have h1 : ¬ ((b0 - 0xE0) * 4096 + (b1 - 0x80) * 64 + (b2 - 0x80) < 0x80) := by omega
    have h2 : ¬ ((b0 - 0xE0) * 4096 + (b1 - 0x80) * 64 + (b2 - 0x80) < 0x800) := by omega
    have h3 : ((b0 - 0xE0) * 4096 + (b1 - 0x80) * 64 + (b2 - 0x80) < 0x10000) := by omega
    simp only [h1, h2, h3, if_false, if_true]
    refine ⟨by simp only [List.cons.injEq, and_true]; omega, by omega⟩
  · simp [wellFormed, cont] at h
    unfold value encode isScalar
    have h1 : ¬ ((b0 - 0xF0) * 262144 + (b1 - 0x80) * 4096 + (b2 - 0x80) * 64 + (b3 - 0x80) < 0x80) := by omega
    have h2 : ¬ ((b0 - 0xF0) * 262144 + (b1 - 0x80) * 4096 + (b2 - 0x80) * 64 + (b3 - 0x80) < 0x800) := by omega
    have h3 : ¬ ((b0 - 0xF0) * 262144 + (b1 - 0x80) * 4096 + (b2 - 0x80) * 64 + (b3 - 0x80) < 0x10000) := by omega
    simp only [h1, h2, h3, if_false]
    refine ⟨by simp only [List.cons.injEq, and_true]; omega, by omega⟩
  · simp [wellFormed] at h

theorem scalar_wf_encode (s : Nat) (h : isScalar s) :
    wellFormed (encode s) = true ∧ value (encode s) = s := by
  unfold isScalar at h
  unfold encode
  split
  · unfold wellFormed value; simp; omega
  · split
    · unfold wellFormed value; simp [cont]; omega
    · split
      · unfold wellFormed value; simp [cont]; omega
      · unfold wellFormed value; simp [cont]; omega

set_option linter.unusedSimpArgs false

theorem tb_val (b0 : Nat) (h0 : b0 < 256) :
    (b0 < 0xC2 → tb b0 = 0) ∧ (0xC2 ≤ b0 ∧ b0 < 0xE0 → tb b0 = 1) ∧ (0xE0 ≤ b0 ∧ b0 < 0xF0 → tb b0 = 2)
    ∧ (0xF0 ≤ b0 ∧ b0 < 0xF8 → tb b0 = 3) ∧ (0xF8 ≤ b0 → 4 ≤ tb b0) := by
  rw [tb_spec b0 h0]; unfold tbSpec
  refine ⟨?_, ?_, ?_, ?_, ?_⟩ <;> intro h <;> (repeat' split) <;> omega

theorem decodeStep_short (b0 : Nat) (rest : List Nat) (h : rest.length < tb b0) :
    decodeStep (b0 :: rest) = .more := by
  unfold decodeStep; simp [h]

theorem decodeStep_ascii (b0 : Nat) (rest : List Nat) (h0 : b0 < 0x80) :
    decodeStep (b0 :: rest) = .exc .exceedsLimit := by
  have ht : tb b0 = 0 := (tb_val b0 (by omega)).1 (by omega)
  have hf := first_ok b0 (by omega)
  rw [ht] at hf
  unfold decodeStep
  simp only [ht]
  rw [hf]
  have : ¬ ((0x80 ≤ b0 ∧ b0 < 0xC2) ∨ 0xFE ≤ b0) := by omega
  simp [this]

theorem decodeStep_high (b0 : Nat) (rest : List Nat) (h0 : b0 < 256) (hr : 0xF8 ≤ b0) (v n : Nat) :
    decodeStep (b0 :: rest) ≠ .val v n := by
  have ht : 4 ≤ tb b0 := (tb_val b0 h0).2.2.2.2 hr
  unfold decodeStep
  simp only
  split
  · simp
  · split
    · simp
    · split <;> first | omega | simp


theorem value_two (b0 b1 : Nat) : value [b0, b1] = (b0 - 0xC0) * 64 + (b1 - 0x80) := rfl
theorem value_three (b0 b1 b2 : Nat) : value [b0, b1, b2] = (b0 - 0xE0) * 4096 + (b1 - 0x80) * 64 + (b2 - 0x80) := rfl
theorem value_four (b0 b1 b2 b3 : Nat) : value [b0, b1, b2, b3] =
    (b0 - 0xF0) * 262144 + (b1 - 0x80) * 4096 + (b2 - 0x80) * 64 + (b3 - 0x80) := rfl

/-- Completeness of one step: every well-formed multi-byte sequence (Table 3-7) is decoded to its
code point, whatever follows it. -/
theorem decodeStep_complete (w rest : List Nat) (hw : wellFormed w = true) (h2 : 2 ≤ w.length) :
    decodeStep (w ++ rest) = .val (value w) w.length := by
  rcases w with _ | ⟨b0, _ | ⟨b1, _ | ⟨b2, _ | ⟨b3, _ | ⟨b4, t⟩⟩⟩⟩⟩
  · simp at h2
  · simp at h2
  · simp [wellFormed, cont] at hw
    show decodeStep (b0 :: b1 :: rest) = _
    rw [decodeStep_two b0 b1 rest (by omega) (by omega) (by omega)]
    have : cont b1 = true := by rw [cont_iff]; omega
    simp [this, value_two]
  · simp [wellFormed, cont] at hw
    show decodeStep (b0 :: b1 :: b2 :: rest) = _
    rw [decodeStep_three b0 b1 b2 rest (by omega) (by omega) (by omega) (by omega)]
    have c1 : cont b1 = true := by rw [cont_iff]; omega
    have c2 : cont b2 = true := by rw [cont_iff]; omega
    have n1 : ¬ (b0 = 0xE0 ∧ b1 < 0xA0) := by omega
    have n2 : ¬ (b0 = 0xED ∧ 0xA0 ≤ b1) := by omega
    simp [c1, c2, n1, n2, value_three]
  · simp [wellFormed, cont] at hw
    show decodeStep (b0 :: b1 :: b2 :: b3 :: rest) = _
    rw [decodeStep_four b0 b1 b2 b3 rest (by omega) (by omega) (by omega) (by omega) (by omega)]
    have c1 : cont b1 = true := by rw [cont_iff]; omega
    have c2 : cont b2 = true := by rw [cont_iff]; omega
    have c3 : cont b3 = true := by rw [cont_iff]; omega
    have n1 : ¬ ((b0 = 0xF0 ∧ b1 < 0x90) ∨ (b0 = 0xF4 ∧ 0x8F < b1)) := by omega
    simp [c1, c2, c3, n1, value_four]
  · simp [wellFormed] at hw

/-- Soundness of one step: a value is produced only for a Table 3-7 sequence (and then it is that
sequence's code point), or for a four-byte form above U+10FFFF, which the loop turns into an error. -/
theorem decodeStep_sound (bs : List Nat) (hb : AllBytes bs) (v n : Nat) (h : decodeStep bs = .val v n) :
    n ≤ bs.length ∧ 2 ≤ n ∧
      ((wellFormed (bs.take n) = true ∧ v = value (bs.take n) ∧ v ≤ 0x10FFFF) ∨ 0x10FFFF < v) := by
  rcases bs with _ | ⟨b0, rest⟩
  · simp [decodeStep] at h
  have h0 : b0 < 256 := hb b0 (by simp)
  by_cases r1 : b0 < 0x80
  · rw [decodeStep_ascii b0 rest r1] at h; simp at h
  by_cases r2 : b0 < 0xC2
  · rw [decodeStep_low b0 rest h0 (by omega)] at h; simp at h
  by_cases r3 : b0 < 0xE0
  · rcases rest with _ | ⟨b1, r⟩
    · rw [decodeStep_short b0 [] (by rw [(tb_val b0 h0).2.1 (by omega)]; simp)] at h; simp at h
    have h1 : b1 < 256 := hb b1 (by simp)
    rw [decodeStep_two b0 b1 r h0 h1 (by omega)] at h
    cases hc : cont b1 <;> simp [hc] at h
    obtain ⟨hv, hn⟩ := h
    subst hn
    rw [cont_iff] at hc
    refine ⟨by simp, by omega, Or.inl ?_⟩
    simp [wellFormed, value_two, value_three, value_four, cont]
    omega
  by_cases r4 : b0 < 0xF0
  · rcases rest with _ | ⟨b1, _ | ⟨b2, r⟩⟩
    · rw [decodeStep_short b0 [] (by rw [(tb_val b0 h0).2.2.1 (by omega)]; simp)] at h; simp at h
    · rw [decodeStep_short b0 [b1] (by rw [(tb_val b0 h0).2.2.1 (by omega)]; simp)] at h; simp at h
    have h1 : b1 < 256 := hb b1 (by simp)
    have h2 : b2 < 256 := hb b2 (by simp)
    rw [decodeStep_three b0 b1 b2 r h0 h1 h2 (by omega)] at h
    by_cases n1 : (b0 = 0xE0 ∧ b1 < 0xA0)
    · simp [n1] at h
    cases c1 : cont b1 <;> simp [n1, c1] at h
    cases c2 : cont b2 <;> simp [c2] at h
    by_cases n2 : (b0 = 0xED ∧ 0xA0 ≤ b1)
    · simp [n2] at h
    simp [n2] at h
    obtain ⟨hv, hn⟩ := h
    subst hn
    rw [cont_iff] at c1 c2
    refine ⟨by simp, by omega, Or.inl ?_⟩
    simp [wellFormed, value_two, value_three, value_four, cont]
    omega
  by_cases r5 : b0 < 0xF8
  · rcases rest with _ | ⟨b1, _ | ⟨b2, _ | ⟨b3, r⟩⟩⟩
    · rw [decodeStep_short b0 [] (by rw [(tb_val b0 h0).2.2.2.1 (by omega)]; simp)] at h; simp at h
    · rw [decodeStep_short b0 [b1] (by rw [(tb_val b0 h0).2.2.2.1 (by omega)]; simp)] at h; simp at h
    · rw [decodeStep_short b0 [b1, b2] (by rw [(tb_val b0 h0).2.2.2.1 (by omega)]; simp)] at h; simp at h
    have h1 : b1 < 256 := hb b1 (by simp)
    have h2 : b2 < 256 := hb b2 (by simp)
    have h3 : b3 < 256 := hb b3 (by simp)
    rw [decodeStep_four b0 b1 b2 b3 r h0 h1 h2 h3 (by omega)] at h
    by_cases n1 : ((b0 = 0xF0 ∧ b1 < 0x90) ∨ (b0 = 0xF4 ∧ 0x8F < b1))
    · simp [n1] at h
    cases c1 : cont b1 <;> simp [n1, c1] at h
    cases c2 : cont b2 <;> simp [c2] at h
    cases c3 : cont b3 <;> simp [c3] at h
    obtain ⟨hv, hn⟩ := h
    subst hn
    rw [cont_iff] at c1 c2 c3
    refine ⟨by simp, by omega, ?_⟩
    by_cases big : b0 ≤ 0xF4
    · left
      simp [wellFormed, value_two, value_three, value_four, cont]
      omega
    · right; omega
  · exact absurd h (decodeStep_high b0 rest h0 (by omega) v n)



theorem allBytes_drop {l : List Nat} (h : AllBytes l) (n : Nat) : AllBytes (l.drop n) :=
  fun b hb => h b (List.mem_of_mem_drop hb)

theorem fromLoop_sound : ∀ (fuel : Nat) (src : List Nat) (room : Nat) (chars sizes : List Nat) (eaten : Nat)
    (chars' sizes' : List Nat) (eaten' : Nat), AllBytes src →
    fromLoop fuel src room chars sizes eaten = .ok chars' sizes' eaten' →
    ∃ ss rest, Scalars ss ∧ src = encodeAll ss ++ rest ∧ eaten' = eaten + (encodeAll ss).length
      ∧ chars' = chars ++ utf16All ss := by
  intro fuel
  induction fuel with
  | zero =>
    intro src room chars sizes eaten chars' sizes' eaten' _ h
    simp [fromLoop] at h
    exact ⟨[], src, by simp [Scalars], by simp [encodeAll], by simp [encodeAll, h.2.2], by simp [utf16All, h.1]⟩
  | succ fuel ih =>
    intro src room chars sizes eaten chars' sizes' eaten' hb h
    have base : ∀ (c s : List Nat) (e : Nat), Res.ok chars sizes eaten = Res.ok c s e →
        ∃ ss rest, Scalars ss ∧ src = encodeAll ss ++ rest ∧ e = eaten + (encodeAll ss).length
          ∧ c = chars ++ utf16All ss := by
      intro c s e hh
      injection hh with h1 h2 h3
      exact ⟨[], src, by simp [Scalars], by simp [encodeAll], by simp [encodeAll, h3], by simp [utf16All, h1]⟩
    unfold fromLoop at h
    split at h
    · exact base _ _ _ h
    · split at h
      · exact base _ _ _ h
      · rename_i b0 rest
        have h0 : b0 < 256 := hb b0 (by simp)
        split at h
        · -- ASCII
          rename_i hle
          obtain ⟨ss, r, hs, he, hn, hc⟩ := ih rest _ _ _ _ _ _ _ (allBytes_cons.1 hb).2 h
          refine ⟨b0 :: ss, r, ?_, ?_, ?_, ?_⟩
          · intro s hs'
            rcases List.mem_cons.1 hs' with rfl | h'
            · unfold isScalar; omega
            · exact hs s h'
          · have : encode b0 = [b0] := by unfold encode; simp; omega
            simp [encodeAll, this] at he ⊢; exact he
          · have : encode b0 = [b0] := by unfold encode; simp; omega
            simp [encodeAll, this] at hn ⊢; omega
          · have : utf16 b0 = [b0] := by unfold utf16; simp; omega
            simp [utf16All, this] at hc ⊢; exact hc
        · split at h
          · exact base _ _ _ h
          · simp at h
          · rename_i v n hstep
            obtain ⟨hn1, hn2, hcase⟩ := decodeStep_sound (b0 :: rest) hb v n hstep
            have hsplit : (b0 :: rest) = (b0 :: rest).take n ++ (b0 :: rest).drop n := (List.take_append_drop n _).symm
            have hn1' : n ≤ rest.length + 1 := by simpa using hn1
            have hlen : ((b0 :: rest).take n).length = n := by simp; omega
            split at h
            · -- BMP
              rename_i hv
              rcases hcase with ⟨hwf, hval, _⟩ | hbig
              · obtain ⟨henc, hsc⟩ := wf_encode_value _ hwf
                obtain ⟨ss, r, hs, he, hn', hc⟩ := ih _ _ _ _ _ _ _ _ (allBytes_drop hb n) h
                refine ⟨v :: ss, r, ?_, ?_, ?_, ?_⟩
                · intro s hs'
                  rcases List.mem_cons.1 hs' with rfl | h'
                  · rw [hval]; exact hsc
                  · exact hs s h'
                · rw [hsplit, he]; simp [encodeAll, hval, henc]
                · simp [encodeAll, hval, henc, hlen] at hn' ⊢; omega
                · have : utf16 v = [v] := by unfold utf16; simp [hv]
                  simp [utf16All, this] at hc ⊢; exact hc
              · omega
            · split at h
              · split at h
                · exact base _ _ _ h
                · simp at h
              · split at h
                · exact base _ _ _ h
                · rename_i hv1 hv2 hroom
                  rcases hcase with ⟨hwf, hval, _⟩ | hbig
                  · obtain ⟨henc, hsc⟩ := wf_encode_value _ hwf
                    obtain ⟨ss, r, hs, he, hn', hc⟩ := ih _ _ _ _ _ _ _ _ (allBytes_drop hb n) h
                    refine ⟨v :: ss, r, ?_, ?_, ?_, ?_⟩
                    · intro s hs'
                      rcases List.mem_cons.1 hs' with rfl | h'
                      · rw [hval]; exact hsc
                      · exact hs s h'
                    · rw [hsplit, he]; simp [encodeAll, hval, henc]
                    · simp [encodeAll, hval, henc, hlen] at hn' ⊢; omega
                    · have : utf16 v = [(v - 0x10000) / 1024 + 0xD800, (v - 0x10000) % 1024 + 0xDC00] := by
                        unfold utf16; simp [hv1]; omega
                      simp [utf16All, this] at hc ⊢; exact hc
                  · omega



theorem encode_length_pos (s : Nat) : 1 ≤ (encode s).length := by
  unfold encode; (repeat' split) <;> simp

theorem encode_head_multi (s : Nat) (hs : isScalar s) (h : 0x80 ≤ s) :
    ∃ b0 tl, encode s = b0 :: tl ∧ 127 < b0 ∧ 2 ≤ (encode s).length := by
  unfold isScalar at hs
  unfold encode
  have : ¬ s < 0x80 := by omega
  simp only [this, if_false]
  (repeat' split) <;> exact ⟨_, _, rfl, by omega, by simp⟩

theorem fromLoop_nil (fuel room : Nat) (chars sizes : List Nat) (eaten : Nat) :
    fromLoop fuel [] room chars sizes eaten = .ok chars sizes eaten := by
  cases fuel with
  | zero => simp [fromLoop]
  | succ f => unfold fromLoop; split <;> rfl

theorem fromLoop_complete : ∀ (ss : List Nat) (fuel room : Nat) (chars sizes : List Nat) (eaten : Nat),
    Scalars ss → (encodeAll ss).length ≤ fuel → (utf16All ss).length ≤ room →
    ∃ sizes', fromLoop fuel (encodeAll ss) room chars sizes eaten
        = .ok (chars ++ utf16All ss) sizes' (eaten + (encodeAll ss).length) := by
  intro ss
  induction ss with
  | nil =>
    intro fuel room chars sizes eaten _ _ _
    exact ⟨sizes, by simp [encodeAll, utf16All, fromLoop_nil]⟩
  | cons s ss ih =>
    intro fuel room chars sizes eaten hs hf hr
    have hs0 : isScalar s := hs s (by simp)
    have hss : Scalars ss := fun x hx => hs x (by simp [hx])
    have eA : encodeAll (s :: ss) = encode s ++ encodeAll ss := by simp [encodeAll]
    have uA : utf16All (s :: ss) = utf16 s ++ utf16All ss := by simp [utf16All]
    rw [eA] at hf ⊢
    rw [uA] at hr ⊢
    have hpos := encode_length_pos s
    simp only [List.length_append] at hf hr
    obtain ⟨f, rfl⟩ : ∃ f, fuel = f + 1 := ⟨fuel - 1, by omega⟩
    by_cases hascii : s < 0x80
    · have he : encode s = [s] := by unfold encode; simp [hascii]
      have hu : utf16 s = [s] := by unfold utf16; simp; omega
      rw [he] at hf ⊢
      rw [hu] at hr ⊢
      simp at hf hr
      obtain ⟨sz, hsz⟩ := ih f (room - 1) (chars ++ [s]) (sizes ++ [1]) (eaten + 1) hss (by omega) (by omega)
      refine ⟨sz, ?_⟩
      show fromLoop (f + 1) (s :: encodeAll ss) room chars sizes eaten = _
      unfold fromLoop
      have : room ≠ 0 := by omega
      simp only [this, if_false]
      have : s ≤ 127 := by omega
      simp only [this, if_true]
      rw [hsz]; simp; omega
    · obtain ⟨b0, tl, hbt, hb0, hl2⟩ := encode_head_multi s hs0 (by omega)
      obtain ⟨hwf, hval⟩ := scalar_wf_encode s hs0
      have hstep := decodeStep_complete (encode s) (encodeAll ss) hwf hl2
      rw [hval] at hstep
      have hdrop : (encode s ++ encodeAll ss).drop (encode s).length = encodeAll ss := by simp
      unfold isScalar at hs0
      by_cases hbmp : s < 65536
      · have hu : utf16 s = [s] := by unfold utf16; simp [hbmp]
        rw [hu] at hr ⊢
        simp only [List.length_singleton] at hr
        obtain ⟨sz, hsz⟩ := ih f (room - 1) (chars ++ [s]) (sizes ++ [(encode s).length])
          (eaten + (encode s).length) hss (by omega) (by omega)
        refine ⟨sz, ?_⟩
        unfold fromLoop
        have : room ≠ 0 := by omega
        simp only [this, if_false]
        rw [hbt] at hstep hdrop hsz ⊢
        simp only [List.cons_append] at hstep hdrop ⊢
        have : ¬ b0 ≤ 127 := by omega
        simp only [this, if_false]
        rw [hstep]
        simp only [hbmp, if_true]
        rw [hdrop, hsz]; simp; omega
      · have hu : utf16 s = [(s - 0x10000) / 1024 + 0xD800, (s - 0x10000) % 1024 + 0xDC00] := by
          unfold utf16; simp [hbmp]; omega
        rw [hu] at hr ⊢
        simp only [List.length_cons, List.length_nil] at hr
        obtain ⟨sz, hsz⟩ := ih f (room - 2)
          (chars ++ [(s - 0x10000) / 1024 + 0xD800, (s - 0x10000) % 1024 + 0xDC00])
          (sizes ++ [(encode s).length, 0]) (eaten + (encode s).length) hss (by omega) (by omega)
        refine ⟨sz, ?_⟩
        unfold fromLoop
        have : room ≠ 0 := by omega
        simp only [this, if_false]
        rw [hbt] at hstep hdrop hsz ⊢
        simp only [List.cons_append] at hstep hdrop ⊢
        have : ¬ b0 ≤ 127 := by omega
        simp only [this, if_false]
        rw [hstep]
        have h1 : ¬ s > 0x10FFFF := by omega
        have h2 : ¬ room < 2 := by omega
        simp only [hbmp, h1, h2, if_false]
        rw [hdrop, hsz]; simp; omega


theorem contByte_small : ∀ y, y < 256 → ((y ||| 0x80) &&& 0xBF) = 0x80 + y % 64 := by decide +kernel

theorem contByte (x : Nat) : ((x ||| 0x80) &&& 0xBF) % 256 = 0x80 + x % 64 := by
  have h := @Nat.and_mod_two_pow (x ||| 0x80) 0xBF 8
  have h2 := @Nat.or_mod_two_pow x 0x80 8
  simp only [show (2:Nat)^8 = 256 from rfl] at h h2
  rw [h, h2]
  have := contByte_small (x % 256) (Nat.mod_lt _ (by decide))
  simp only [show (0x80:Nat) % 256 = 0x80 from rfl, show (0xBF:Nat) % 256 = 0xBF from rfl]
  rw [this]; omega

theorem lead2 : ∀ y, y < 32 → (y ||| 0xC0) % 256 = 0xC0 + y := by decide +kernel
theorem lead3 : ∀ y, y < 16 → (y ||| 0xE0) % 256 = 0xE0 + y := by decide +kernel
theorem lead4 : ∀ y, y < 8 → (y ||| 0xF0) % 256 = 0xF0 + y := by decide +kernel
theorem lead1 : ∀ y, y < 128 → (y ||| 0) % 256 = y := by decide +kernel

theorem emit_eq_encode (s : Nat) (hs : s < 0x110000) :
    emit s (if s < 0x80 then 1 else if s < 0x800 then 2 else if s < 0x10000 then 3 else 4) = encode s := by
  unfold encode
  obtain ⟨m1, m2, m3, m4⟩ := firstMark_vals
  by_cases h1 : s < 0x80
  · simp only [h1, if_true, emit, m1]
    rw [lead1 s h1]
  by_cases h2 : s < 0x800
  · simp only [h1, h2, if_true, if_false, emit, m2]
    rw [lead2 (s / 64) (by omega), contByte]
  by_cases h3 : s < 0x10000
  · simp only [h1, h2, h3, if_true, if_false, emit, m3]
    rw [lead3 (s / 4096) (by omega), contByte, contByte]
  · simp only [h1, h2, h3, if_false, emit, m4]
    rw [lead4 (s / 262144) (by omega), contByte, contByte, contByte]


theorem toLoop_nil (thr : Bool) (fuel room : Nat) (out : List Nat) (eaten : Nat) :
    toLoop thr fuel [] room out eaten = .ok out eaten := by
  cases fuel <;> simp [toLoop]

theorem encode_len (s : Nat) : (encode s).length =
    (if s < 0x80 then 1 else if s < 0x800 then 2 else if s < 0x10000 then 3 else 4) := by
  unfold encode; (repeat' split) <;> rfl

theorem hcur_lem (s : Nat) (h1 : 0x10000 ≤ s) (h2 : s < 0x110000) :
   ((0xD800 + (s - 0x10000) / 1024 - 0xD800) * 1024 +
          (sub32 (0xDC00 + (s - 0x10000) % 1024) 0xDC00 + 0x10000)) % 4294967296 = s := by
  rw [sub32_small (by omega) (by omega)]
  omega

theorem pairVal_spec (s hi lo : Nat) (hhi : hi = 0xD800 + (s - 0x10000) / 1024)
    (hlo : lo = 0xDC00 + (s - 0x10000) % 1024) (h1 : 0x10000 ≤ s) (h2 : s < 0x110000) : pairVal hi lo = s := by
  rw [hhi, hlo]; exact hcur_lem s h1 h2

theorem toLoop_complete (thr : Bool) : ∀ (ss : List Nat) (fuel room : Nat) (out : List Nat) (eaten : Nat),
    Scalars ss → (utf16All ss).length ≤ fuel → (encodeAll ss).length ≤ room →
    toLoop thr fuel (utf16All ss) room out eaten
        = .ok (out ++ encodeAll ss) (eaten + (utf16All ss).length) := by
  intro ss
  induction ss with
  | nil => intro fuel room out eaten _ _ _; simp [encodeAll, utf16All, toLoop_nil]
  | cons s ss ih =>
    intro fuel room out eaten hs hf hr
    have hs0 : isScalar s := hs s (by simp)
    have hss : Scalars ss := fun x hx => hs x (by simp [hx])
    have eA : encodeAll (s :: ss) = encode s ++ encodeAll ss := by simp [encodeAll]
    have uA : utf16All (s :: ss) = utf16 s ++ utf16All ss := by simp [utf16All]
    rw [eA] at hr ⊢
    rw [uA] at hf ⊢
    simp only [List.length_append] at hf hr
    unfold isScalar at hs0
    have hemit := emit_eq_encode s hs0.1
    have hlen := encode_len s
    by_cases hbmp : s < 0x10000
    · have hu : utf16 s = [s] := by unfold utf16; simp [hbmp]
      rw [hu] at hf ⊢
      simp at hf
      obtain ⟨f, rfl⟩ : ∃ f, fuel = f + 1 := ⟨fuel - 1, by omega⟩
      show toLoop thr (f + 1) (s :: utf16All ss) room out eaten = _
      unfold toLoop
      have nh : ¬ (0xD800 ≤ s ∧ s ≤ 0xDBFF) := by omega
      simp only [nh, false_and, if_false]
      have : ¬ s ≥ 0x110000 := by omega
      simp only [this, if_false]
      rw [← hlen]
      have : ¬ room < (encode s).length := by omega
      simp only [this, if_false]
      rw [hlen, hemit]
      simp only [List.drop_succ_cons, List.drop_zero]
      rw [ih f _ _ _ hss (by omega) (by rw [← hlen]; omega)]
      simp; omega
    · have hu : utf16 s = [0xD800 + (s - 0x10000) / 1024, 0xDC00 + (s - 0x10000) % 1024] := by
        unfold utf16; simp [hbmp]
      obtain ⟨hi, hhi⟩ : ∃ hi, hi = 0xD800 + (s - 0x10000) / 1024 := ⟨_, rfl⟩
      obtain ⟨lo, hlo⟩ : ∃ lo, lo = 0xDC00 + (s - 0x10000) % 1024 := ⟨_, rfl⟩
      rw [← hhi, ← hlo] at hu
      have hc0 := pairVal_spec s hi lo hhi hlo (by omega) hs0.1
      have yh : (0xD800 ≤ hi ∧ hi ≤ 0xDBFF) := by omega
      rw [hu] at hf ⊢
      simp only [List.length_cons, List.length_nil] at hf
      obtain ⟨f, rfl⟩ : ∃ f, fuel = f + 1 := ⟨fuel - 1, by omega⟩
      show toLoop thr (f + 1) (hi :: lo :: utf16All ss) room out eaten = _
      unfold toLoop
      simp only [yh, true_and, if_true]
      have : ¬ (lo :: utf16All ss = []) := by simp
      simp only [this, if_false]
      have hpv : pairVal hi ((lo :: utf16All ss).headD 0) = s := hc0
      rw [hpv]
      have : ¬ s ≥ 0x110000 := by omega
      simp only [this, if_false]
      rw [← hlen]
      have : ¬ room < (encode s).length := by omega
      simp only [this, if_false]
      rw [hlen, hemit]
      simp only [List.drop_succ_cons, List.drop_zero]
      rw [ih f _ _ _ hss (by omega) (by rw [← hlen]; omega)]
      simp; omega

end XV.Lemmas.Utf8
