/- Lemmas for C12 (whole trees): UTF-16 units of strings of scalar values; what the formatter writes for them. -/
import XV.Model.TreeSyntax
import XV.Lemmas.Serializer
namespace XV.Lemmas.TreeUnits
open XV.Model.TreeSyntax XV.Model.Formatter XV.Spec.Escaping XV.Gen.Escapes XV.Lemmas.Formatter XV.Lemmas.Serializer
open XV.Spec.Xml

set_option maxRecDepth 8000

theorem char_range (c : Char) : c.toNat < 0xD800 ∨ (0xDFFF < c.toNat ∧ c.toNat < 0x110000) := by
  have := c.valid
  simp only [UInt32.isValidChar, Nat.isValidChar] at this
  exact this

theorem U_nil : U [] = [] := rfl
theorem U_cons (c : Char) (s : Str) : U (c :: s) = scalarUnits c.toNat ++ U s := by simp [U]
theorem U_append (a b : Str) : U (a ++ b) = U a ++ U b := by simp [U]

/-- the units of one scalar value: one non-surrogate unit, or a high and a low surrogate -/
theorem units_cases (c : Char) :
    (c.toNat < 0x10000 ∧ scalarUnits c.toNat = [c.toNat] ∧ isHigh c.toNat = false ∧ isLow c.toNat = false) ∨
    (∃ h l, scalarUnits c.toNat = [h, l] ∧ isHigh h = true ∧ isLow l = true ∧ h < 65536 ∧ l < 65536) := by
  have hr := char_range c
  by_cases h : c.toNat < 0x10000
  · left
    refine ⟨h, by simp [scalarUnits, h], ?_, ?_⟩ <;> simp [isHigh, isLow] <;> omega
  · right
    refine ⟨0xD800 + (c.toNat - 0x10000) / 1024, 0xDC00 + (c.toNat - 0x10000) % 1024, by simp [scalarUnits, h], ?_, ?_, ?_, ?_⟩ <;>
      first | omega | (simp [isHigh, isLow]; omega)

theorem U_lt (s : Str) : ∀ u ∈ U s, u < 65536 := by
  induction s with
  | nil => intro u h; simp [U] at h
  | cons c t ih =>
    intro u hu
    rw [U_cons, List.mem_append] at hu
    rcases hu with hu | hu
    · rcases units_cases c with ⟨h1, h2, _, _⟩ | ⟨h, l, h2, _, _, h5, h6⟩
      · rw [h2] at hu; simp at hu; omega
      · rw [h2] at hu; simp at hu; rcases hu with rfl | rfl <;> assumption
    · exact ih u hu

theorem U_wf (s : Str) : wfUnits (U s) = true := by
  induction s with
  | nil => rfl
  | cons c t ih =>
    rw [U_cons]
    rcases units_cases c with ⟨_, h2, h3, h4⟩ | ⟨h, l, h2, h3, h4, _, _⟩
    · rw [h2]; simp only [List.singleton_append]; rw [wf_cons_plain h3]; simp [h4, ih]
    · rw [h2]
      cases hU : U t with
      | nil => simp [wfUnits, h3, h4]
      | cons x r => rw [hU] at ih; simp [wfUnits, h3, h4, ih]

/-- a transcoder that takes every UTF-16 unit and gives it back: UTF-8, UTF-16 -/
structure Transparent (cd : Coder) : Prop where
  good : Good cd
  all : ∀ u, u < 65536 → cd.rep u = true ∧ cd.back u = u

theorem transparent_utf8 : Transparent utf8Coder :=
  ⟨good_utf8, fun u h => ⟨by simp [utf8Coder]; omega, rfl⟩⟩
theorem transparent_utf16 : Transparent utf16Coder := ⟨good_utf16, fun _ _ => ⟨rfl, rfl⟩⟩

theorem nameOK_U (cd : Coder) (ht : Transparent cd) (s : Str) : NameOK cd (U s) :=
  ⟨fun u hu => ht.all u (U_lt s u hu), fun _ => U_wf s⟩

theorem rawF_U (e : XV.Model.Serializer.Env) (ht : Transparent e.cd) (s : Str) :
    XV.Model.Serializer.rawF e (U s) = .ok (U s) := rawF_ok e _ (nameOK_U e.cd ht s)

theorem rawCR_U (e : XV.Model.Serializer.Env) (ht : Transparent e.cd) (s : Str) :
    XV.Model.Serializer.rawCR e (U s) = .ok (U s) := rawCR_ok e ht.good _ (U_lt s) (nameOK_U e.cd ht s)

theorem charsOf_cons_plain (u : Nat) (t : List Nat) (h : isHigh u = false) : charsOf (u :: t) = Char.ofNat u :: charsOf t := by
  cases t <;> simp [charsOf, h]

/-- decoding the units of a string of scalar values gives the string back -/
theorem charsOf_U (s : Str) : charsOf (U s) = s := by
  induction s with
  | nil => rfl
  | cons c t ih =>
    rw [U_cons]
    have hr := char_range c
    by_cases h : c.toNat < 0x10000
    · have h3 : isHigh c.toNat = false := by simp [isHigh]; omega
      simp only [scalarUnits, h, if_true, List.singleton_append]
      rw [charsOf_cons_plain _ _ h3, ih, Char.ofNat_toNat]
    · simp only [scalarUnits, h, if_false, List.cons_append, List.nil_append]
      have h3 : isHigh (0xD800 + (c.toNat - 0x10000) / 1024) = true := by simp [isHigh]; omega
      have h4 : isLow (0xDC00 + (c.toNat - 0x10000) % 1024) = true := by simp [isLow]; omega
      have hv : 0x10000 + (0xD800 + (c.toNat - 0x10000) / 1024 - 0xD800) * 1024 + (0xDC00 + (c.toNat - 0x10000) % 1024 - 0xDC00) = c.toNat := by
        omega
      simp only [charsOf, h3, h4, Bool.and_self, if_true, hv, ih, Char.ofNat_toNat]

/-! ### ASCII text -/

theorem ofNat_toNat_small : ∀ x, x < 128 → (Char.ofNat x).toNat = x := by decide

theorem U_ascii (l : List Nat) (h : ∀ x ∈ l, x < 128) : U (asciiStr l) = l := by
  induction l with
  | nil => rfl
  | cons x t ih =>
    have hx := h x (by simp)
    simp only [asciiStr, List.map_cons] at ih ⊢
    rw [U_cons, ofNat_toNat_small x hx, ih (fun y hy => h y (by simp [hy]))]
    have : x < 65536 := by omega
    simp [scalarUnits, this]


/-! ### escaped text -/

theorem escd_high (cfg : Cfg) (esc : EscapeFlags) (u : Nat) (h : 0x2029 ≤ u) : escd cfg esc u = false := by
  cases hh : inEscapeList cfg esc u with
  | false => simp [escd, hh]
  | true => have := inEscapeList_lt cfg esc u hh; omega

theorem escUnits_U (cd : Coder) (ht : Transparent cd) (cfg : Cfg) (esc : EscapeFlags) (v : Str) :
    escUnits cd cfg esc (U v) = U (escStr cfg esc v) := by
  induction v with
  | nil => rfl
  | cons c t ih =>
    have hes : escStr cfg esc (c :: t) = (if escd cfg esc c.toNat then asciiStr (refText c.toNat) else [c]) ++ escStr cfg esc t := by
      simp [escStr]
    rw [hes, U_append, U_cons]
    rcases units_cases c with ⟨h1, h2, _, _⟩ | ⟨h, l, h2, h3, h4, h5, h6⟩
    · rw [h2]
      simp only [List.singleton_append]
      rw [escUnits_rep_cons cd cfg esc _ _ (ht.all _ h1).1, ih]
      by_cases he : escd cfg esc c.toNat = true
      · simp only [he, if_true]
        rw [U_ascii _ (fun x hx => by have := refText_mem c.toNat x hx; omega)]
      · simp only [he, Bool.false_eq_true, if_false, U_cons, U_nil, h2, List.append_nil]
    · have hc : ¬ c.toNat < 0x10000 := by
        intro hlt; simp [scalarUnits, hlt] at h2
      have hhr : 0x2029 ≤ h := by simp [isHigh] at h3; omega
      have hlr : 0x2029 ≤ l := by simp [isLow] at h4; omega
      rw [h2]
      simp only [List.cons_append, List.nil_append]
      rw [escUnits_rep_cons cd cfg esc h _ (ht.all _ h5).1, escUnits_rep_cons cd cfg esc l _ (ht.all _ h6).1, ih,
        escd_high cfg esc h hhr, escd_high cfg esc l hlr, escd_high cfg esc c.toNat (by omega)]
      simp [U_cons, U_nil, h2]

/-- `formatBuf(…, UnRep_CharRef)` on a string of scalar values writes the units of the escaped string -/
theorem formatBuf_U (cd : Coder) (ht : Transparent cd) (cfg : Cfg) (esc : EscapeFlags) (v : Str) :
    formatBuf cd cfg esc .UnRep_CharRef (U v) = .ok (U (escStr cfg esc v)) := by
  rw [formatBuf_charRef_eq cd ht.good cfg esc (U v) (U_lt v) (fun u hu _ => (ht.all u (U_lt v u hu)).2) (fun _ => U_wf v),
    escUnits_U cd ht]

/-! ### ensureValidString on legal strings -/

theorem isXMLChar_literal (v11 : Bool) (n : Nat) (h : n < 65536) :
    XV.Model.Serializer.isXMLChar v11 n = XV.Spec.XmlChar.isLiteralChar (ver v11) n := by
  cases v11
  · rw [Bool.eq_iff_iff]
    simp [XV.Model.Serializer.isXMLChar, XV.Model.Formatter.inRanges, xmlChar10, ver, XV.Spec.XmlChar.isLiteralChar,
      XV.Spec.XmlChar.literalSet, XV.Spec.XmlChar.CSet.mem, XV.Spec.XmlChar.inRanges, XV.Spec.XmlChar.char10, XV.Spec.XmlChar.inR]
    constructor <;> intro hh <;> omega
  · rw [Bool.eq_iff_iff]
    simp [XV.Model.Serializer.isXMLChar, XV.Model.Formatter.inRanges, xmlChar11, ver, XV.Spec.XmlChar.isLiteralChar,
      XV.Spec.XmlChar.literalSet, XV.Spec.XmlChar.CSet.mem, XV.Spec.XmlChar.inRanges, XV.Spec.XmlChar.char11,
      XV.Spec.XmlChar.restricted11, XV.Spec.XmlChar.inR]
    simp only [← Bool.not_eq_true, Nat.ble_eq]
    constructor <;> intro hh <;> omega

theorem ev_cons_ok (v11 : Bool) (c : Nat) (t : List Nat) (h : XV.Model.Serializer.isXMLChar v11 c = true) :
    XV.Model.Serializer.ensureValidString v11 (c :: t) = XV.Model.Serializer.ensureValidString v11 t := by
  cases t <;> simp [XV.Model.Serializer.ensureValidString, h]

theorem isXMLChar_surr (v11 : Bool) (u : Nat) (h : 0xD800 ≤ u ∧ u ≤ 0xDFFF) : XV.Model.Serializer.isXMLChar v11 u = false := by
  cases v11 <;> simp [XV.Model.Serializer.isXMLChar, XV.Model.Formatter.inRanges, xmlChar10, xmlChar11] <;> omega

theorem ensureValid_U (v11 : Bool) (v : Str) (h : v.all (legalC v11) = true) :
    XV.Model.Serializer.ensureValidString v11 (U v) = true := by
  induction v with
  | nil => rfl
  | cons c t ih =>
    simp only [List.all_cons, Bool.and_eq_true] at h
    rw [U_cons]
    rcases units_cases c with ⟨h1, h2, _, _⟩ | ⟨hh, l, h2, h3, h4, h5, h6⟩
    · rw [h2]; simp only [List.singleton_append]
      rw [ev_cons_ok v11 _ _ (by rw [isXMLChar_literal v11 _ h1]; exact h.1)]
      exact ih h.2
    · rw [h2]; simp only [List.cons_append, List.nil_append]
      have hx : XV.Model.Serializer.isXMLChar v11 hh = false := isXMLChar_surr v11 hh (by simp [isHigh] at h3; omega)
      simp [XV.Model.Serializer.ensureValidString, hx, h3, h4, ih h.2]

end XV.Lemmas.TreeUnits
