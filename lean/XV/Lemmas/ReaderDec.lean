/-
C04/C01 helper lemmas, part 1: the transcoders as *stream decoders*.

`DecOK D A k` is the contract the reader needs from a `transcodeFrom` function `D` relative to the
whole-input reading `A` (XV.Spec.Reader.decodeAll): a call consumes a prefix made of complete
sequences whose decoding does not depend on what follows ("stops before an incomplete trailing
sequence"), an exception is the first undecodable sequence of the whole input, and a call that
consumes nothing although there is room for a surrogate pair has fewer than `k` bytes in front of it,
all belonging to one incomplete sequence.  Proved here for the code-shaped model of
XMLUTF8Transcoder (new lemmas about `fromLoop`) and for the ISO-8859-1, US-ASCII and UTF-16 models.
-/
import XV.Spec.Reader
import XV.Lemmas.Utf8
namespace XV.Lemmas.ReaderDec
open XV.Model.Utf8 XV.Model.Reader XV.Spec.Reader XV.Lemmas.Utf8
set_option maxRecDepth 8000

structure DecOK (D : List Nat → Nat → Res) (A : List Nat → List Nat × End) (k : Nat) : Prop where
  nil : A [] = ([], .eof)
  ok : ∀ src room c s n, D src room = .ok c s n →
      n ≤ src.length ∧ c.length ≤ room ∧ s.length = c.length ∧ (0 < n → 0 < c.length) ∧
      ∀ ext, A (src ++ ext) = (c ++ (A (src.drop n ++ ext)).1, (A (src.drop n ++ ext)).2)
  exc : ∀ src room e, D src room = .exc e → ∀ ext, (A (src ++ ext)).2 = .exc e
  stall : ∀ src room c s, 2 ≤ room → D src room = .ok c s 0 → src.length < k ∧ (src ≠ [] → A src = ([], .exc .badSrcSeq))

/-! ### UTF-8 -/

theorem tb_le5 (b : Nat) : tb b ≤ 5 := by
  by_cases h : b < 256
  · rw [tb_spec b h]; unfold tbSpec; repeat' split
    all_goals omega
  · have hl : XV.Gen.Utf8.gUTFBytes.length = 256 := by decide +kernel
    unfold tb
    rw [List.getD_eq_getElem?_getD, List.getElem?_eq_none (by omega)]
    simp

theorem decodeStep_more (b0 : Nat) (rest : List Nat) (h : decodeStep (b0 :: rest) = .more) :
    rest.length < tb b0 := by
  unfold decodeStep at h
  simp only at h
  by_cases hlen : rest.length < tb b0
  · exact hlen
  · simp only [hlen, if_false] at h
    split at h
    · cases h
    · split at h
      all_goals (repeat' split at h)
      all_goals injection h

/-- a decoded value comes with at least two bytes, all of them present -/
theorem decodeStep_val (b0 : Nat) (rest : List Nat) (v n : Nat) (h : decodeStep (b0 :: rest) = .val v n) :
    2 ≤ n ∧ n ≤ rest.length + 1 := by
  have hnm : ¬ rest.length < tb b0 := fun hl => by rw [decodeStep_short b0 rest hl] at h; cases h
  unfold decodeStep at h
  simp only [hnm, if_false] at h
  split at h
  · cases h
  · split at h
    · split at h
      · cases h
      · injection h with h1 h2
        subst h2
        exact ⟨Nat.le_refl _, by simp only [List.length_cons]; omega⟩
    · repeat' split at h
      all_goals first | (injection h with h1 h2; subst h2; exact ⟨by omega, by simp only [List.length_cons]; omega⟩) | (injection h)
    · repeat' split at h
      all_goals first | (injection h with h1 h2; subst h2; exact ⟨by omega, by simp only [List.length_cons]; omega⟩) | (injection h)
    · cases h

/-- the decoding of one sequence does not depend on what follows it -/
theorem decodeStep_append (b0 : Nat) (rest ext : List Nat) (h : ¬ rest.length < tb b0) :
    decodeStep (b0 :: (rest ++ ext)) = decodeStep (b0 :: rest) := by
  have h5 := tb_le5 b0
  have hl : ¬ (rest ++ ext).length < tb b0 := by simp; omega
  unfold decodeStep
  simp only [hl, h, if_false]
  split
  · rfl
  · generalize tb b0 = t at *
    obtain rfl | rfl | rfl | rfl | ht : t = 0 ∨ t = 1 ∨ t = 2 ∨ t = 3 ∨ 4 ≤ t := by omega
    · rcases rest with _ | ⟨b1, r⟩ <;> rcases ext with _ | ⟨e1, x⟩ <;> rfl
    · rcases rest with _ | ⟨b1, r⟩
      · simp at h
      · rfl
    · rcases rest with _ | ⟨b1, _ | ⟨b2, r⟩⟩
      · simp at h
      · simp at h
      · rfl
    · rcases rest with _ | ⟨b1, _ | ⟨b2, _ | ⟨b3, r⟩⟩⟩
      · simp at h
      · simp at h
      · simp at h
      · rfl
    · -- 4 ≤ t: the catch-all branch on both sides
      split <;> first | omega | (split <;> first | omega | rfl)

theorem all8_cons (f b0 : Nat) (rest : List Nat) : all8 (f + 1) (b0 :: rest) =
    if b0 ≤ 127 then (b0 :: (all8 f rest).1, (all8 f rest).2)
    else match decodeStep (b0 :: rest) with
      | .more => ([], .exc .badSrcSeq)
      | .exc e => ([], .exc e)
      | .val v n =>
        if v < 65536 then (v :: (all8 f ((b0 :: rest).drop n)).1, (all8 f ((b0 :: rest).drop n)).2)
        else if v > 0x10FFFF then ([], .exc .badSrcSeq)
        else (((v - 0x10000) / 1024 + 0xD800) :: ((v - 0x10000) % 1024 + 0xDC00) :: (all8 f ((b0 :: rest).drop n)).1,
              (all8 f ((b0 :: rest).drop n)).2) := by
  rfl

/-- `all8` with enough fuel does not depend on the fuel -/
theorem all8_fuel : ∀ (fuel : Nat) (src : List Nat), src.length ≤ fuel → all8 fuel src = all8 src.length src := by
  intro fuel
  induction fuel using Nat.strongRecOn with
  | _ fuel ih =>
    intro src hle
    rcases src with _ | ⟨b0, rest⟩
    · cases fuel <;> rfl
    · obtain ⟨f, rfl⟩ : ∃ f, fuel = f + 1 := ⟨fuel - 1, by simp at hle; omega⟩
      simp only [List.length_cons] at hle ⊢
      rw [all8_cons, all8_cons]
      have hr : rest.length ≤ f := by omega
      by_cases hb : b0 ≤ 127
      · simp only [hb, if_true]
        rw [ih f (by omega) rest hr]
      · simp only [hb, if_false]
        cases hd : decodeStep (b0 :: rest) with
        | more => rfl
        | exc e => rfl
        | val v n =>
          obtain ⟨h2, hlen⟩ := decodeStep_val b0 rest v n hd
          have hdl : ((b0 :: rest).drop n).length ≤ rest.length := by simp; omega
          simp only []
          rw [ih f (by omega) _ (by omega), ih rest.length (by omega) _ hdl]

/-- the whole-input UTF-8 reading -/
def A8 (src : List Nat) : List Nat × End := all8 src.length src

theorem A8_nil : A8 [] = ([], .eof) := rfl

theorem A8_cons (b0 : Nat) (rest : List Nat) : A8 (b0 :: rest) = all8 (rest.length + 1) (b0 :: rest) := rfl

theorem A8_ascii (b0 : Nat) (rest : List Nat) (h : b0 ≤ 127) :
    A8 (b0 :: rest) = (b0 :: (A8 rest).1, (A8 rest).2) := by
  rw [A8_cons, all8_cons, if_pos h]; rfl

theorem A8_more (b0 : Nat) (rest : List Nat) (h : ¬ b0 ≤ 127) (hd : decodeStep (b0 :: rest) = .more) :
    A8 (b0 :: rest) = ([], .exc .badSrcSeq) := by
  rw [A8_cons, all8_cons, if_neg h, hd]

theorem A8_exc (b0 : Nat) (rest : List Nat) (e : Exc) (h : ¬ b0 ≤ 127) (hd : decodeStep (b0 :: rest) = .exc e) :
    A8 (b0 :: rest) = ([], .exc e) := by
  rw [A8_cons, all8_cons, if_neg h, hd]

theorem A8_val (b0 : Nat) (rest : List Nat) (v n : Nat) (h : ¬ b0 ≤ 127) (hd : decodeStep (b0 :: rest) = .val v n) :
    A8 (b0 :: rest) =
      if v < 65536 then (v :: (A8 ((b0 :: rest).drop n)).1, (A8 ((b0 :: rest).drop n)).2)
      else if v > 0x10FFFF then ([], .exc .badSrcSeq)
      else (((v - 0x10000) / 1024 + 0xD800) :: ((v - 0x10000) % 1024 + 0xDC00) :: (A8 ((b0 :: rest).drop n)).1,
            (A8 ((b0 :: rest).drop n)).2) := by
  obtain ⟨h2, hlen⟩ := decodeStep_val b0 rest v n hd
  have hdl : ((b0 :: rest).drop n).length ≤ rest.length := by simp; omega
  rw [A8_cons, all8_cons, if_neg h, hd]
  simp only []
  rw [all8_fuel rest.length _ hdl]
  rfl

/-- appending bytes after a complete sequence does not change its decoding -/
theorem decodeStep_append' (b0 : Nat) (rest ext : List Nat) (h : decodeStep (b0 :: rest) ≠ .more) :
    decodeStep (b0 :: rest ++ ext) = decodeStep (b0 :: rest) := by
  have : ¬ rest.length < tb b0 := fun hl => h (decodeStep_short b0 rest hl)
  exact decodeStep_append b0 rest ext this

/-- The stream lemma for `fromLoop`. -/
theorem fromLoop_stream : ∀ (fuel : Nat) (src : List Nat) (room : Nat) (chars sizes : List Nat) (eaten : Nat),
    src.length ≤ fuel →
    match fromLoop fuel src room chars sizes eaten with
    | .ok c s n => ∃ c' s' n', c = chars ++ c' ∧ s = sizes ++ s' ∧ n = eaten + n' ∧ n' ≤ src.length ∧
        c'.length ≤ room ∧ s'.length = c'.length ∧ (0 < n' → 0 < c'.length) ∧
        (∀ ext, A8 (src ++ ext) = (c' ++ (A8 (src.drop n' ++ ext)).1, (A8 (src.drop n' ++ ext)).2)) ∧
        (n' = 0 → 2 ≤ room → chars.length ≤ 32 → src.length ≤ 5 ∧ (src ≠ [] → A8 src = ([], .exc .badSrcSeq)))
    | .exc e => ∀ ext, (A8 (src ++ ext)).2 = .exc e := by
  intro fuel
  induction fuel with
  | zero =>
    intro src room chars sizes eaten hle
    have : src = [] := List.eq_nil_of_length_eq_zero (by omega)
    subst this
    simp only [fromLoop]
    exact ⟨[], [], 0, by simp, by simp, rfl, by simp, by simp, rfl, by simp, by intro ext; simp, by intros; exact ⟨by simp, fun h => absurd rfl h⟩⟩
  | succ fuel ih =>
    intro src room chars sizes eaten hle
    have triv : ∃ c' s' n', chars = chars ++ c' ∧ sizes = sizes ++ s' ∧ eaten = eaten + n' ∧ n' ≤ src.length ∧
        c'.length ≤ room ∧ s'.length = c'.length ∧ (0 < n' → 0 < c'.length) ∧
        (∀ ext, A8 (src ++ ext) = (c' ++ (A8 (src.drop n' ++ ext)).1, (A8 (src.drop n' ++ ext)).2)) ∧ n' = 0 :=
      ⟨[], [], 0, by simp, by simp, rfl, by simp, by simp, rfl, by simp, by intro ext; simp, rfl⟩
    unfold fromLoop
    by_cases hr : room = 0
    · simp only [hr, if_true]
      obtain ⟨c', s', n', h1, h2, h3, h4, h5, h6, h7, h8, h9⟩ := triv
      exact ⟨c', s', n', h1, h2, h3, h4, by subst h9; simp_all, h6, h7, h8, by intro _ h; omega⟩
    · simp only [hr, if_false]
      rcases src with _ | ⟨b0, rest⟩
      · obtain ⟨c', s', n', h1, h2, h3, h4, h5, h6, h7, h8, h9⟩ := triv
        exact ⟨c', s', n', h1, h2, h3, h4, h5, h6, h7, h8, by intros; exact ⟨by simp, fun h => absurd rfl h⟩⟩
      · simp only [List.length_cons] at hle
        simp only []
        by_cases hb : b0 ≤ 127
        · simp only [hb, if_true]
          have := ih rest (room - 1) (chars ++ [b0]) (sizes ++ [1]) (eaten + 1) (by omega)
          split at this
          · rename_i c s n heq
            obtain ⟨c', s', n', h1, h2, h3, h4, h5, h6, h7, h8, _⟩ := this
            refine ⟨b0 :: c', 1 :: s', n' + 1, by simp [h1], by simp [h2], by omega, by simp; omega, by simp; omega,
              by simp [h6], by simp, ?_, by intro h; omega⟩
            intro ext
            simp only [List.cons_append, List.drop_succ_cons]
            rw [A8_ascii b0 _ hb, h8 ext]
          · rename_i e heq
            intro ext
            simp only [List.cons_append]
            rw [A8_ascii b0 _ hb]
            exact this ext
        · simp only [hb, if_false]
          cases hd : decodeStep (b0 :: rest) with
          | more =>
            simp only []
            obtain ⟨c', s', n', h1, h2, h3, h4, h5, h6, h7, h8, h9⟩ := triv
            refine ⟨c', s', n', h1, h2, h3, h4, h5, h6, h7, h8, ?_⟩
            intro _ _ _
            have := decodeStep_more b0 rest hd
            have := tb_le5 b0
            exact ⟨by simp; omega, fun _ => A8_more b0 rest hb hd⟩
          | exc e =>
            simp only []
            intro ext
            have hd' : decodeStep (b0 :: (rest ++ ext)) = .exc e := by
              have := decodeStep_append' b0 rest ext (by rw [hd]; simp)
              simpa [hd] using this
            simp only [List.cons_append]
            rw [A8_exc b0 _ e hb hd']
          | val v n =>
            simp only []
            obtain ⟨h2n, hlen⟩ := decodeStep_val b0 rest v n hd
            have hdl : ((b0 :: rest).drop n).length ≤ fuel := by simp; omega
            have hd' : ∀ ext, decodeStep (b0 :: (rest ++ ext)) = .val v n := by
              intro ext
              have := decodeStep_append' b0 rest ext (by rw [hd]; simp)
              simpa [hd] using this
            have hdrop : ∀ ext, (b0 :: (rest ++ ext)).drop n = (b0 :: rest).drop n ++ ext := by
              intro ext
              rw [← List.cons_append, List.drop_append_of_le_length (by simp; omega)]
            by_cases h1 : v < 65536
            · simp only [h1, if_true]
              have := ih ((b0 :: rest).drop n) (room - 1) (chars ++ [v]) (sizes ++ [n]) (eaten + n) hdl
              split at this
              · rename_i c s m heq
                obtain ⟨c', s', n', e1, e2, e3, e4, e5, e6, e7, e8, _⟩ := this
                have hlen' : ((b0 :: rest).drop n).length = rest.length + 1 - n := by simp
                refine ⟨v :: c', n :: s', n' + n, by simp [e1], by simp [e2], by omega,
                  by simp only [List.length_cons]; omega, by simp; omega, by simp [e6], by simp, ?_, by intro h; omega⟩
                intro ext
                simp only [List.cons_append]
                rw [A8_val b0 _ v n hb (hd' ext), if_pos h1, hdrop ext, e8 ext]
                have : List.drop (n' + n) (b0 :: rest) = List.drop n' (List.drop n (b0 :: rest)) := by
                  rw [List.drop_drop, Nat.add_comm]
                rw [this]
              · rename_i e heq
                intro ext
                simp only [List.cons_append]
                rw [A8_val b0 _ v n hb (hd' ext), if_pos h1, hdrop ext]
                exact this ext
            · simp only [h1, if_false]
              by_cases h2 : v > 0x10FFFF
              · simp only [h2, if_true]
                by_cases h3 : chars.length > 32
                · simp only [h3, if_true]
                  obtain ⟨c', s', n', e1, e2, e3, e4, e5, e6, e7, e8, e9⟩ := triv
                  exact ⟨c', s', n', e1, e2, e3, e4, e5, e6, e7, e8, by intro _ _ h; omega⟩
                · simp only [h3, if_false]
                  intro ext
                  simp only [List.cons_append]
                  rw [A8_val b0 _ v n hb (hd' ext), if_neg h1, if_pos h2]
              · simp only [h2, if_false]
                by_cases h3 : room < 2
                · simp only [h3, if_true]
                  obtain ⟨c', s', n', e1, e2, e3, e4, e5, e6, e7, e8, e9⟩ := triv
                  exact ⟨c', s', n', e1, e2, e3, e4, e5, e6, e7, e8, by intro _ h; omega⟩
                · simp only [h3, if_false]
                  have := ih ((b0 :: rest).drop n) (room - 2)
                    (chars ++ [(v - 0x10000) / 1024 + 0xD800, (v - 0x10000) % 1024 + 0xDC00]) (sizes ++ [n, 0]) (eaten + n) hdl
                  split at this
                  · rename_i c s m heq
                    obtain ⟨c', s', n', e1, e2, e3, e4, e5, e6, e7, e8, _⟩ := this
                    refine ⟨((v - 0x10000) / 1024 + 0xD800) :: ((v - 0x10000) % 1024 + 0xDC00) :: c', n :: 0 :: s', n' + n,
                      by simp [e1], by simp [e2], by omega, by simp only [List.length_cons]; simp at e4; omega,
                      by simp; omega, by simp [e6], by simp, ?_, by intro h; omega⟩
                    intro ext
                    simp only [List.cons_append]
                    rw [A8_val b0 _ v n hb (hd' ext), if_neg h1, if_neg h2, hdrop ext, e8 ext]
                    have : List.drop (n' + n) (b0 :: rest) = List.drop n' (List.drop n (b0 :: rest)) := by
                      rw [List.drop_drop, Nat.add_comm]
                    rw [this]
                  · rename_i e heq
                    intro ext
                    simp only [List.cons_append]
                    rw [A8_val b0 _ v n hb (hd' ext), if_neg h1, if_neg h2, hdrop ext]
                    exact this ext

theorem decOK_utf8 : DecOK transcodeFrom (decodeAll .utf8) 6 := by
  refine ⟨rfl, ?_, ?_, ?_⟩
  · intro src room c s n h
    have := fromLoop_stream src.length src room [] [] 0 (Nat.le_refl _)
    unfold transcodeFrom at h
    rw [h] at this
    obtain ⟨c', s', n', e1, e2, e3, e4, e5, e6, e7, e8, _⟩ := this
    simp at e1 e2 e3
    subst e1 e2 e3
    exact ⟨e4, e5, e6, e7, e8⟩
  · intro src room e h ext
    have := fromLoop_stream src.length src room [] [] 0 (Nat.le_refl _)
    unfold transcodeFrom at h
    rw [h] at this
    exact this ext
  · intro src room c s hroom h
    have := fromLoop_stream src.length src room [] [] 0 (Nat.le_refl _)
    unfold transcodeFrom at h
    rw [h] at this
    obtain ⟨c', s', n', e1, e2, e3, e4, e5, e6, e7, e8, e9⟩ := this
    have hn : n' = 0 := by omega
    obtain ⟨h5, hA⟩ := e9 hn hroom (by simp)
    exact ⟨by omega, hA⟩

/-! ### ISO-8859-1 -/

theorem decOK_latin1 : DecOK decLatin1 (decodeAll .latin1) 1 := by
  refine ⟨rfl, ?_, ?_, ?_⟩
  · intro src room c s n h
    unfold decLatin1 at h
    simp only [Res.ok.injEq] at h
    obtain ⟨rfl, rfl, rfl⟩ := h
    refine ⟨Nat.min_le_left _ _, by simp; omega, by simp, ?_, ?_⟩
    · intro h; simp; omega
    · intro ext
      simp only [decodeAll]
      rw [← List.append_assoc, List.take_append_drop]
  · intro src room e h; simp [decLatin1] at h
  · intro src room c s hroom h
    unfold decLatin1 at h
    simp only [Res.ok.injEq] at h
    obtain ⟨_, _, h0⟩ := h
    have : src.length = 0 := by
      rcases Nat.le_total src.length room with hl | hl
      · rw [Nat.min_eq_left hl] at h0; exact h0
      · rw [Nat.min_eq_right hl] at h0; omega
    have : src = [] := List.eq_nil_of_length_eq_zero this
    subst this
    exact ⟨by simp, fun h => absurd rfl h⟩

/-! ### US-ASCII -/

theorem allAscii_fst_snd (l : List Nat) : allAscii l = ((allAscii l).1, (allAscii l).2) := rfl

theorem asciiLoop_stream : ∀ (src : List Nat) (room done : Nat),
    match asciiLoop src room done with
    | some cs => cs.length ≤ room ∧ cs.length ≤ src.length ∧
        (∀ ext, allAscii (src ++ ext) = (cs ++ (allAscii (src.drop cs.length ++ ext)).1, (allAscii (src.drop cs.length ++ ext)).2)) ∧
        (cs = [] → 1 ≤ room → done ≤ 32 → src = [])
    | none => ∀ ext, (allAscii (src ++ ext)).2 = .exc .unrepresentable := by
  intro src
  induction src with
  | nil => intro room done; simp [asciiLoop]
  | cons b rest ih =>
    intro room done
    unfold asciiLoop
    by_cases hr : room = 0
    · simp [hr]
    · simp only [hr, if_false]
      by_cases hb : b < 0x80
      · simp only [hb, if_true]
        have := ih (room - 1) (done + 1)
        cases hl : asciiLoop rest (room - 1) (done + 1) with
        | none =>
          rw [hl] at this
          simp only [Option.map_none]
          intro ext
          simp only [List.cons_append, allAscii, hb, if_true]
          exact this ext
        | some cs =>
          rw [hl] at this
          simp only [Option.map_some]
          obtain ⟨h1, h2, h3, _⟩ := this
          refine ⟨by simp; omega, by simp; omega, ?_, by simp⟩
          intro ext
          simp only [List.cons_append, List.length_cons, List.drop_succ_cons]
          rw [allAscii, if_pos hb, h3 ext]
      · simp only [hb, if_false]
        by_cases hd : done > 32
        · simp only [hd, if_true]
          refine ⟨by simp, by simp, by intro ext; simp, ?_⟩
          intro _ _ h; omega
        · simp only [hd, if_false]
          intro ext
          simp [allAscii, hb]

theorem decOK_ascii : DecOK decAscii (decodeAll .ascii) 1 := by
  refine ⟨rfl, ?_, ?_, ?_⟩
  · intro src room c s n h
    have := asciiLoop_stream src room 0
    unfold decAscii at h
    cases hl : asciiLoop src room 0 with
    | none => simp [hl] at h
    | some cs =>
      rw [hl] at this
      simp only [hl, Res.ok.injEq] at h
      obtain ⟨rfl, rfl, rfl⟩ := h
      obtain ⟨h1, h2, h3, _⟩ := this
      exact ⟨h2, h1, by simp, fun h => h, fun ext => by simpa [decodeAll] using h3 ext⟩
  · intro src room e h ext
    have := asciiLoop_stream src room 0
    unfold decAscii at h
    cases hl : asciiLoop src room 0 with
    | none =>
      rw [hl] at this
      simp only [hl, Res.exc.injEq] at h
      subst h
      simpa [decodeAll] using this ext
    | some cs => simp [hl] at h
  · intro src room c s hroom h
    have := asciiLoop_stream src room 0
    unfold decAscii at h
    cases hl : asciiLoop src room 0 with
    | none => simp [hl] at h
    | some cs =>
      rw [hl] at this
      simp only [hl, Res.ok.injEq] at h
      obtain ⟨_, _, h0⟩ := h
      obtain ⟨_, _, _, h4⟩ := this
      have hc : cs = [] := List.eq_nil_of_length_eq_zero h0
      have := h4 hc (by omega) (by omega)
      subst this
      exact ⟨by simp, fun h => absurd rfl h⟩

/-! ### UTF-16 -/

theorem units16_split (le : Bool) : ∀ (m : Nat) (l ext : List Nat), 2 * m ≤ l.length →
    units16 le (l ++ ext) = (units16 le l).take m ++ units16 le (l.drop (2 * m) ++ ext) := by
  intro m
  induction m with
  | zero => intro l ext _; simp
  | succ m ih =>
    intro l ext h
    rcases l with _ | ⟨a, _ | ⟨b, l'⟩⟩
    · simp only [List.length_nil] at h; omega
    · simp only [List.length_cons, List.length_nil] at h; omega
    · have h' : 2 * m ≤ l'.length := by simp only [List.length_cons] at h; omega
      have e : 2 * (m + 1) = 2 * m + 1 + 1 := by omega
      rw [e]
      simp only [List.cons_append, units16, List.take_succ_cons, List.drop_succ_cons]
      rw [ih l' ext h']

theorem units16_length (le : Bool) (l : List Nat) : (units16 le l).length = l.length / 2 := by
  have : ∀ (n : Nat) (l : List Nat), l.length ≤ n → (units16 le l).length = l.length / 2 := by
    intro n
    induction n using Nat.strongRecOn with
    | _ n ihn =>
      intro l hl
      rcases l with _ | ⟨x, _ | ⟨y, r⟩⟩
      · rfl
      · simp [units16]
      · simp only [units16, List.length_cons]
        rw [ihn (n - 2) (by simp only [List.length_cons] at hl; omega) r (by simp only [List.length_cons] at hl; omega)]
        omega
  exact this _ _ (Nat.le_refl _)

/-- whole-input reading of UTF-16: a trailing odd byte is an error -/
def A16 (le : Bool) (src : List Nat) : List Nat × End :=
  (units16 le src, if src.length % 2 = 1 then .exc .badSrcSeq else .eof)

theorem decOK_utf16 (le : Bool) : DecOK (decUtf16 le) (A16 le) 2 := by
  refine ⟨rfl, ?_, ?_, ?_⟩
  · intro src room c s n h
    unfold decUtf16 at h
    simp only [Res.ok.injEq] at h
    obtain ⟨rfl, rfl, rfl⟩ := h
    have hm : min (src.length / 2) room ≤ src.length / 2 := Nat.min_le_left _ _
    refine ⟨by omega, ?_, ?_, ?_, ?_⟩
    · simp only [List.length_take, units16_length]; omega
    · simp only [List.length_replicate, List.length_take, units16_length]; omega
    · intro h
      simp only [List.length_take, units16_length]; omega
    · intro ext
      unfold A16
      simp only
      rw [units16_split le (min (src.length / 2) room) src ext (by omega)]
      have hpar : (src ++ ext).length % 2 = (List.drop (2 * min (src.length / 2) room) src ++ ext).length % 2 := by
        simp only [List.length_append, List.length_drop]; omega
      rw [hpar]
  · intro src room e h; simp [decUtf16] at h
  · intro src room c s hroom h
    unfold decUtf16 at h
    simp only [Res.ok.injEq] at h
    obtain ⟨_, _, h0⟩ := h
    have hlt : src.length < 2 := by omega
    refine ⟨hlt, ?_⟩
    rcases src with _ | ⟨a, _ | ⟨b, r⟩⟩
    · intro h; exact absurd rfl h
    · intro _; rfl
    · simp only [List.length_cons] at hlt; omega

/-- longest incomplete sequence + 1, per encoding -/
def maxSeq : Enc → Nat
  | .utf8 => 6 | .latin1 => 1 | .ascii => 1 | .utf16le => 2 | .utf16be => 2

theorem decOK (enc : Enc) : DecOK (decode enc) (decodeAll enc) (maxSeq enc) := by
  cases enc
  · exact decOK_utf8
  · exact decOK_latin1
  · exact decOK_ascii
  · exact decOK_utf16 true
  · exact decOK_utf16 false

theorem maxSeq_le6 (enc : Enc) : maxSeq enc ≤ 6 := by cases enc <;> simp [maxSeq]

end XV.Lemmas.ReaderDec
