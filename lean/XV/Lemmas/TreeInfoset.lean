/- Lemmas for C12 (whole trees): C03's `infoset` of the serializer's concrete syntax tree, seen as a DOM (XV.Spec.DomView),
is the content of the original tree. -/
import XV.Lemmas.TreeWF
import XV.Spec.DomView
namespace XV.Lemmas.TreeInfoset
open XV.Model.TreeSyntax XV.Model.Formatter XV.Spec.Escaping
open XV.Lemmas.TreeUnits XV.Lemmas.TreeScan XV.Lemmas.TreeOut XV.Lemmas.TreeWF
open XV.Spec.Xml XV.Spec.Infoset XV.Spec.DomView

set_option maxRecDepth 8000

/-! ### coalescing -/

theorem prepend_nil (Y : List CEv) : prependChars [] Y = Y := by
  cases Y with
  | nil => rfl
  | cons e r => cases e <;> simp [prependChars]

theorem prepend_assoc (s s' : Str) (Y : List CEv) : prependChars s (prependChars s' Y) = prependChars (s ++ s') Y := by
  cases Y with
  | nil =>
    by_cases h' : s' = []
    · subst h'; simp [prependChars]
    · simp [prependChars, h']
  | cons e r =>
    cases e with
    | chars y => simp [prependChars]
    | start n a => by_cases h' : s' = [] <;> simp [prependChars, h']
    | end_ n => by_cases h' : s' = [] <;> simp [prependChars, h']
    | comment c => by_cases h' : s' = [] <;> simp [prependChars, h']
    | pi t d => by_cases h' : s' = [] <;> simp [prependChars, h']

theorem coalesce_chars (s : Str) (X : List CEv) : coalesce (.chars s :: X) = prependChars s (coalesce X) := rfl

theorem coalesce_charList (v : Str) (X : List CEv) :
    coalesce (v.map (fun c => CEv.chars [c]) ++ X) = prependChars v (coalesce X) := by
  induction v with
  | nil => simp [prepend_nil]
  | cons c t ih =>
    simp only [List.map_cons, List.cons_append, coalesce_chars, ih, prepend_assoc]
    rfl

theorem coalesce_pieces (ps : List Str) (X : List CEv) :
    coalesce (ps.flatMap (fun p => if p = [] then [] else [CEv.chars p]) ++ X) = prependChars ps.flatten (coalesce X) := by
  induction ps with
  | nil => simp [prepend_nil]
  | cons p r ih =>
    simp only [List.flatMap_cons, List.flatten_cons, List.append_assoc]
    by_cases hp : p = []
    · subst hp; simpa using ih
    · simp only [hp, if_false, List.cons_append, List.nil_append, coalesce_chars, ih, prepend_assoc]

/-! ### `mergeChars` does not change the DOM view -/

theorem domView_mergeChars (X : List Event) : domView (mergeChars X) = domView X := by
  induction X with
  | nil => rfl
  | cons e t ih =>
    cases e with
    | characters s =>
      have hX : domView (.characters s :: t) = prependChars s (domView t) := rfl
      rw [hX, ← ih]
      simp only [mergeChars]
      split
      · rename_i s' r heq
        rw [heq]
        show prependChars (s ++ s') (domView r) = prependChars s (prependChars s' (domView r))
        rw [prepend_assoc]
      · rename_i r hne
        by_cases hs : s = []
        · subst hs; simp [prepend_nil]
        · simp only [hs, if_false]; rfl
    | ignorableWhitespace s =>
      have hX : domView (.ignorableWhitespace s :: t) = prependChars s (domView t) := rfl
      rw [hX, ← ih]
      simp only [mergeChars]
      split
      · rename_i s' r heq
        rw [heq]
        show prependChars (s ++ s') (domView r) = prependChars s (prependChars s' (domView r))
        rw [prepend_assoc]
      · rename_i r hne
        by_cases hs : s = []
        · subst hs; simp [prepend_nil]
        · simp only [hs, if_false]; rfl
    | startDocument => (simp only [mergeChars, domView, viewL, List.filterMap_cons, viewOne] at ih ⊢; exact ih)
    | xmlDecl a b c => (simp only [mergeChars, domView, viewL, List.filterMap_cons, viewOne] at ih ⊢; exact ih)
    | doctype a b c => (simp only [mergeChars, domView, viewL, List.filterMap_cons, viewOne] at ih ⊢; exact ih)
    | endDoctype => (simp only [mergeChars, domView, viewL, List.filterMap_cons, viewOne] at ih ⊢; exact ih)
    | entityDecl a b => (simp only [mergeChars, domView, viewL, List.filterMap_cons, viewOne] at ih ⊢; exact ih)
    | notationDecl a b c => (simp only [mergeChars, domView, viewL, List.filterMap_cons, viewOne] at ih ⊢; exact ih)
    | startCDATA => (simp only [mergeChars, domView, viewL, List.filterMap_cons, viewOne] at ih ⊢; exact ih)
    | endCDATA => (simp only [mergeChars, domView, viewL, List.filterMap_cons, viewOne] at ih ⊢; exact ih)
    | startEntity a => (simp only [mergeChars, domView, viewL, List.filterMap_cons, viewOne] at ih ⊢; exact ih)
    | endEntity a => (simp only [mergeChars, domView, viewL, List.filterMap_cons, viewOne] at ih ⊢; exact ih)
    | endDocument => (simp only [mergeChars, domView, viewL, List.filterMap_cons, viewOne] at ih ⊢; exact ih)
    | startElement a b c => (simp only [mergeChars, domView, viewL, List.filterMap_cons, viewOne, coalesce] at ih ⊢; rw [ih])
    | endElement a => (simp only [mergeChars, domView, viewL, List.filterMap_cons, viewOne, coalesce] at ih ⊢; rw [ih])
    | comment a b => (simp only [mergeChars, domView, viewL, List.filterMap_cons, viewOne, coalesce] at ih ⊢; rw [ih])
    | pi a b c => (simp only [mergeChars, domView, viewL, List.filterMap_cons, viewOne, coalesce] at ih ⊢; rw [ih])


/-! ### line ends: nothing to normalise in what the serializer writes -/

/-- a character the §2.11 rule passes on unchanged (and that does not start a line end) -/
def plainEol (v11 : Bool) (c : Char) : Bool := c != XV.Spec.Infoset.chCR && !(v11 && (c == XV.Spec.Infoset.chNEL || c == XV.Spec.Infoset.chLS))

theorem eolStep_plain (v11 : Bool) (c : Char) (h : plainEol v11 c = true) : eolStep v11 false c = (some c, false) := by
  simp only [plainEol, Bool.and_eq_true, bne_iff_ne, ne_eq, Bool.not_eq_true'] at h
  have h1 : (c == XV.Spec.Infoset.chCR) = false := by simpa using h.1
  unfold eolStep
  simp [h1, h.2]

theorem eolStep_snd (v11 p : Bool) (c : Char) : (eolStep v11 p c).2 = (c == XV.Spec.Infoset.chCR) := by
  unfold eolStep
  by_cases h1 : (c == XV.Spec.Infoset.chCR) = true
  · simp [h1]
  · have h1' : (c == XV.Spec.Infoset.chCR) = false := by simpa using h1
    simp only [h1', Bool.false_eq_true, if_false]
    split
    · rfl
    · split <;> rfl

theorem eol_id (v11 : Bool) (s : Str) (h : s.all (plainEol v11) = true) : eol v11 s = s := by
  unfold eol
  induction s with
  | nil => rfl
  | cons c t ih =>
    simp only [List.all_cons, Bool.and_eq_true] at h
    simp only [eolFrom, eolStep_plain v11 c h.1, ih h.2]

theorem noLineEnd_plain (v11 : Bool) (s : Str) (h : noLineEnd v11 s = true) : s.all (plainEol v11) = true := h

theorem feed_append (v11 : Bool) (st : LineSt) (a b : Str) : st.feed v11 (a ++ b) = (st.feed v11 a).feed v11 b := by
  induction a generalizing st with
  | nil => rfl
  | cons c t ih => simp [LineSt.feed, ih]

theorem step_prevCR (v11 : Bool) (st : LineSt) (c : Char) : (st.step v11 c).prevCR = (c == XV.Spec.Infoset.chCR) := by
  unfold LineSt.step
  have := eolStep_snd v11 st.prevCR c
  cases h : eolStep v11 st.prevCR c with
  | mk a b =>
    rw [h] at this
    cases a <;> simp_all

/-- after reading text that does not end in a CR the "previous character was CR" memory is clear -/
theorem feed_snoc (v11 : Bool) (st : LineSt) (s : Str) (c : Char) (hc : c ≠ XV.Spec.Infoset.chCR) :
    (st.feed v11 (s ++ [c])).prevCR = false := by
  rw [feed_append]
  simp only [LineSt.feed, step_prevCR]
  simpa using hc

/-! ### content events over a concatenation of token lists -/

def feedToks (v11 : Bool) (st : LineSt) : List Tok → LineSt
  | [] => st
  | t :: ts => feedToks v11 (st.feed v11 (renderTok t)) ts

def stackToks (cx : Ctx) (stack : List Bool) : List Tok → List Bool
  | [] => stack
  | t :: ts => stackToks cx (ignPush cx stack t) ts

theorem contentEvents_append (cx : Ctx) (ex : Str → Nat → List Event) :
    ∀ (a b : List Tok) (stack : List Bool) (st : LineSt),
      contentEvents cx ex true stack st (a ++ b) =
        contentEvents cx ex true stack st a ++ contentEvents cx ex true (stackToks cx stack a) (feedToks cx.v11 st a) b := by
  intro a
  induction a with
  | nil => intro b stack st; rfl
  | cons t ts ih =>
    intro b stack st
    simp only [List.cons_append, contentEvents, if_true, ih, stackToks, feedToks, List.append_assoc]

theorem feedToks_append (v11 : Bool) (a b : List Tok) (st : LineSt) :
    feedToks v11 st (a ++ b) = feedToks v11 (feedToks v11 st a) b := by
  induction a generalizing st with
  | nil => rfl
  | cons t ts ih => simp [feedToks, ih]

theorem stackToks_append (cx : Ctx) (a b : List Tok) (stack : List Bool) :
    stackToks cx stack (a ++ b) = stackToks cx (stackToks cx stack a) b := by
  induction a generalizing stack with
  | nil => rfl
  | cons t ts ih => simp [stackToks, ih]

theorem viewL_append (a b : List Event) : viewL (a ++ b) = viewL a ++ viewL b := by simp [viewL]


/-! ### the context of the documents `toDoc` builds -/

structure CxOK (cx : Ctx) (cfg : Cfg) : Prop where
  v11 : cx.v11 = cfg.xml11
  env : cx.env = []
  decls : cx.decls = []
  depth : cx.depth = 1
  /-- the repaired inEscapeList (NEL and LSEP escaped under XML 1.1) — the code as it is now -/
  eol : cfg.xml11 = true → cfg.eolFix = true

theorem unesc_plain_text (cfg : Cfg) (heol : cfg.xml11 = true → cfg.eolFix = true) (c : Char)
    (h : escd cfg .CharEscapes c.toNat = false) : plainEol cfg.xml11 c = true := by
  have h1 := (notEsc_char cfg _ h).2.2.2
  have hcr : c ≠ XV.Spec.Infoset.chCR := fun e => h1 (by rw [e]; rfl)
  simp only [plainEol, Bool.and_eq_true, bne_iff_ne, ne_eq, Bool.not_eq_true']
  refine ⟨hcr, ?_⟩
  cases hx : cfg.xml11 with
  | false => rfl
  | true =>
    have hcfg : cfg = ⟨true, true⟩ := by
      cases cfg with
      | mk a b => simp at hx; simp [hx] at heol; simp [hx, heol]
    rw [hcfg] at h
    have := notEsc_eol .CharEscapes (by decide) _ h
    simp only [Bool.true_and, Bool.or_eq_false_iff, beq_eq_false_iff_ne, ne_eq]
    exact ⟨fun e => this.1 (by rw [e]; rfl), fun e => this.2 (by rw [e]; rfl)⟩

theorem unesc_plain_attr (cfg : Cfg) (heol : cfg.xml11 = true → cfg.eolFix = true) (c : Char)
    (h : escd cfg .AttrEscapes c.toNat = false) : plainEol cfg.xml11 c = true := by
  have h1 := (notEsc_attr cfg _ h).2.2.2.2.1
  have hcr : c ≠ XV.Spec.Infoset.chCR := fun e => h1 (by rw [e]; rfl)
  simp only [plainEol, Bool.and_eq_true, bne_iff_ne, ne_eq, Bool.not_eq_true']
  refine ⟨hcr, ?_⟩
  cases hx : cfg.xml11 with
  | false => rfl
  | true =>
    have hcfg : cfg = ⟨true, true⟩ := by
      cases cfg with
      | mk a b => simp at hx; simp [hx] at heol; simp [hx, heol]
    rw [hcfg] at h
    have := notEsc_eol .AttrEscapes (by decide) _ h
    simp only [Bool.true_and, Bool.or_eq_false_iff, beq_eq_false_iff_ne, ne_eq]
    exact ⟨fun e => this.1 (by rw [e]; rfl), fun e => this.2 (by rw [e]; rfl)⟩

/-! ### attribute values come back -/

def plainPiece (v11 : Bool) : AttPiece → Bool
  | .ch c => plainEol v11 c
  | _ => true

theorem eolPieces_plain (v11 : Bool) (ps : List AttPiece) (h : ps.all (plainPiece v11) = true) :
    eolPieces v11 false ps = ps := by
  induction ps with
  | nil => rfl
  | cons p t ih =>
    simp only [List.all_cons, Bool.and_eq_true] at h
    cases p with
    | ch c => simp only [eolPieces, eolStep_plain v11 c h.1, ih h.2]
    | cref r => simp only [eolPieces, ih h.2]
    | eref n => simp only [eolPieces, ih h.2]

theorem plain_attPiece (cfg : Cfg) (heol : cfg.xml11 = true → cfg.eolFix = true) (c : Char) :
    plainPiece cfg.xml11 (attPiece cfg c) = true := by
  unfold attPiece
  cases h : escd cfg .AttrEscapes c.toNat with
  | true =>
    simp only [if_true]
    unfold refPiece
    split
    · rfl
    split
    · rfl
    split
    · rfl
    split
    · rfl
    split
    · rfl
    · rfl
  | false => simp only [Bool.false_eq_true, if_false, plainPiece]; exact unesc_plain_attr cfg heol c h

theorem eolPieces_attval (cfg : Cfg) (heol : cfg.xml11 = true → cfg.eolFix = true) (v : Str) :
    eolPieces cfg.xml11 false (v.map (attPiece cfg)) = v.map (attPiece cfg) := by
  apply eolPieces_plain
  rw [List.all_eq_true]
  intro p hp
  simp only [List.mem_map] at hp
  obtain ⟨c, _, rfl⟩ := hp
  exact plain_attPiece cfg heol c

theorem step3_append (a b : List VTok) : step3 (a ++ b) = step3 a ++ step3 b := by
  induction a with
  | nil => rfl
  | cons x t ih => cases x <;> simp [step3, ih]

theorem valToks_attPiece (v11 : Bool) (cfg : Cfg) (c : Char) :
    step3 (valToks [] v11 1 [attPiece cfg c]) = [c] := by
  unfold attPiece
  cases h : escd cfg .AttrEscapes c.toNat with
  | true =>
    simp only [if_true]
    unfold refPiece
    split
    · rename_i h1; have : c = '&' := char_eq_of_toNat _ _ h1; subst this; rfl
    split
    · rename_i h1; have : c = '\'' := char_eq_of_toNat _ _ h1; subst this; rfl
    split
    · rename_i h1; have : c = '"' := char_eq_of_toNat _ _ h1; subst this; rfl
    split
    · rename_i h1; have : c = '>' := char_eq_of_toNat _ _ h1; subst this; rfl
    split
    · rename_i h1; have : c = '<' := char_eq_of_toNat _ _ h1; subst this; rfl
    · have hr := char_range c
      simp only [valToks, List.flatMap_cons, List.flatMap_nil, List.append_nil, step3, value_hexRef _ (show c.toNat < 18446744073709551616 by omega),
        Char.ofNat_toNat]
  | false =>
    have hn := notEsc_attr cfg _ h
    have hws : isWs c = true → c = ' ' := by
      intro hw
      simp only [isWs, Bool.or_eq_true, beq_iff_eq] at hw
      rcases hw with ((hw | hw) | hw) | hw
      · exact hw
      · exact absurd (by rw [hw]; rfl) hn.2.2.2.2.2
      · exact absurd (by rw [hw]; rfl) hn.2.2.2.1
      · exact absurd (by rw [hw]; rfl) hn.2.2.2.2.1
    simp only [Bool.false_eq_true, if_false, valToks, List.flatMap_cons, List.flatMap_nil, List.append_nil, step3]
    by_cases hw : isWs c = true
    · simp [hw, hws hw]
    · simp [hw]

theorem valToks_cons (v11 : Bool) (p : AttPiece) (ps : List AttPiece) :
    valToks [] v11 1 (p :: ps) = valToks [] v11 1 [p] ++ valToks [] v11 1 ps := by
  simp [valToks]

theorem attval_back (cfg : Cfg) (v11 : Bool) (v : Str) : step3 (valToks [] v11 1 (v.map (attPiece cfg))) = v := by
  induction v with
  | nil => rfl
  | cons c t ih =>
    rw [List.map_cons, valToks_cons, step3_append, valToks_attPiece, ih]; rfl

theorem tagAttrs_toAttrs (cx : Ctx) (cfg : Cfg) (hcx : CxOK cx cfg) (n : Str) (as : List (Str × Str)) :
    (tagAttrs cx true ⟨n, toAttrs cfg as, []⟩).map (fun a => (a.name, a.value)) = as := by
  have hd : attDefsFor cx.decls n = [] := by rw [hcx.decls]; rfl
  simp only [tagAttrs, hd, findAttDef, List.find?_nil, firstDefs, List.filterMap_nil, List.append_nil, if_true, List.map_map]
  induction as with
  | nil => rfl
  | cons a t ih =>
    simp only [toAttrs, List.map_cons, ih, List.cons.injEq, and_true]
    simp only [Function.comp, toAttr, normValue, hcx.v11, hcx.env, hcx.depth, eolPieces_attval cfg hcx.eol]
    have : isCDataType kwCDATA = true := by decide
    simp only [attNorm, this, if_true, attval_back]


/-! ### the events of the tokens of `toNodes` -/

def stackOK (stack : List Bool) : Prop := stack.head?.getD false = false

/-- what `contentEvents` reports for the tokens of one tree node, before coalescing -/
def rawCdata (v : Str) : List CEv := (splitFixedC v []).flatMap (fun p => if p = [] then [] else [CEv.chars p])

mutual
def rawN : CNode → List CEv
  | .elem n as kids => .start n as :: (rawL kids ++ [.end_ n])
  | .text v => v.map (fun c => CEv.chars [c])
  | .cdata v => rawCdata v
  | .comment v => [.comment v]
  | .pi t d => [.pi t d]
def rawL : List CNode → List CEv
  | [] => []
  | n :: t => rawN n ++ rawL t
end

theorem refLeaf_events (cx : Ctx) (ex : Str → Nat → List Event) (st : LineSt) (c : Char) :
    viewL (tokEvents cx ex true false st (.leaf (refLeaf c))) = [CEv.chars [c]] ∧
    (st.feed cx.v11 (renderTok (.leaf (refLeaf c)))).prevCR = false := by
  have hfeed : ∀ (n : Str), (st.feed cx.v11 (renderTok (.leaf (.eref n)))).prevCR = false := by
    intro n
    have : renderTok (.leaf (.eref n)) = ('&' :: n) ++ [';'] := by simp [renderTok, renderLeaf, renderEntRef]
    rw [this]; exact feed_snoc _ _ _ _ (by decide)
  unfold refLeaf
  split
  · rename_i h1; have : c = '&' := char_eq_of_toNat _ _ h1; subst this; exact ⟨rfl, hfeed _⟩
  split
  · rename_i h1; have : c = '\'' := char_eq_of_toNat _ _ h1; subst this; exact ⟨rfl, hfeed _⟩
  split
  · rename_i h1; have : c = '"' := char_eq_of_toNat _ _ h1; subst this; exact ⟨rfl, hfeed _⟩
  split
  · rename_i h1; have : c = '>' := char_eq_of_toNat _ _ h1; subst this; exact ⟨rfl, hfeed _⟩
  split
  · rename_i h1; have : c = '<' := char_eq_of_toNat _ _ h1; subst this; exact ⟨rfl, hfeed _⟩
  · have hr := char_range c
    constructor
    · simp only [tokEvents, viewL, List.filterMap_cons, List.filterMap_nil, viewOne,
        value_hexRef _ (show c.toNat < 18446744073709551616 by omega), Char.ofNat_toNat]
    · have : renderTok (.leaf (.cref ⟨true, hexStr c.toNat⟩)) = (['&', '#', 'x'] ++ hexStr c.toNat) ++ [';'] := by
        simp [renderTok, renderLeaf, renderCharRef]
      rw [this]; exact feed_snoc _ _ _ _ (by decide)

theorem text_events (cx : Ctx) (cfg : Cfg) (hcx : CxOK cx cfg) (ex : Str → Nat → List Event) :
    ∀ (v : Str) (stack : List Bool) (st : LineSt), stackOK stack → st.prevCR = false →
      viewL (contentEvents cx ex true stack st (v.map (fun c => Tok.leaf (textLeaf cfg c)))) = v.map (fun c => CEv.chars [c]) ∧
      (feedToks cx.v11 st (v.map (fun c => Tok.leaf (textLeaf cfg c)))).prevCR = false ∧
      stackToks cx stack (v.map (fun c => Tok.leaf (textLeaf cfg c))) = stack := by
  intro v
  induction v with
  | nil => intro stack st _ hp; exact ⟨rfl, hp, rfl⟩
  | cons c t ih =>
    intro stack st hs hp
    have hone : viewL (tokEvents cx ex true false st (.leaf (textLeaf cfg c))) = [CEv.chars [c]] ∧
        (st.feed cx.v11 (renderTok (.leaf (textLeaf cfg c)))).prevCR = false := by
      unfold textLeaf
      cases h : escd cfg .CharEscapes c.toNat with
      | true => simp only [if_true]; exact refLeaf_events cx ex st c
      | false =>
        have hpl := unesc_plain_text cfg hcx.eol c h
        simp only [Bool.false_eq_true, if_false]
        constructor
        · simp only [tokEvents, if_true, hp, hcx.v11, eolStep_plain _ c hpl, Bool.false_and, Bool.false_eq_true, if_false, viewL,
            List.filterMap_cons, List.filterMap_nil, viewOne]
        · simp only [renderTok, renderLeaf, LineSt.feed, step_prevCR]
          simp only [plainEol, Bool.and_eq_true, bne_iff_ne, ne_eq] at hpl
          simpa using hpl.1
    have hstk : ignPush cx stack (.leaf (textLeaf cfg c)) = stack := rfl
    have := ih stack (st.feed cx.v11 (renderTok (.leaf (textLeaf cfg c)))) hs hone.2
    have hs' : stack.head?.getD false = false := hs
    simp only [List.map_cons, contentEvents, if_true, hs', hstk, viewL_append, hone.1, this.1, feedToks, this.2.1, stackToks, this.2.2]
    simp

theorem pieces_events (cx : Ctx) (ex : Str → Nat → List Event) :
    ∀ (ps : List Str) (stack : List Bool) (st : LineSt), (∀ p ∈ ps, p.all (plainEol cx.v11) = true) →
      viewL (contentEvents cx ex true stack st (ps.map (fun p => Tok.leaf (.cdata p)))) =
        ps.flatMap (fun p => if p = [] then [] else [CEv.chars p]) ∧
      (ps ≠ [] → (feedToks cx.v11 st (ps.map (fun p => Tok.leaf (.cdata p)))).prevCR = false) ∧
      stackToks cx stack (ps.map (fun p => Tok.leaf (.cdata p))) = stack := by
  intro ps
  induction ps with
  | nil => intro stack st _; exact ⟨rfl, fun h => absurd rfl h, rfl⟩
  | cons p r ih =>
    intro stack st h
    have hp := eol_id cx.v11 p (h p (by simp))
    have hfeed : (st.feed cx.v11 (renderTok (.leaf (.cdata p)))).prevCR = false := by
      have : renderTok (.leaf (.cdata p)) = (['<', '!', '[', 'C', 'D', 'A', 'T', 'A', '['] ++ p ++ [']', ']']) ++ ['>'] := by
        simp [renderTok, renderLeaf]
      rw [this]; exact feed_snoc _ _ _ _ (by decide)
    have hstk : ignPush cx stack (.leaf (.cdata p)) = stack := rfl
    have := ih stack (st.feed cx.v11 (renderTok (.leaf (.cdata p)))) (fun q hq => h q (by simp [hq]))
    refine ⟨?_, ?_, ?_⟩
    · simp only [List.map_cons, contentEvents, if_true, hstk, viewL_append, this.1, List.flatMap_cons, tokEvents, hp]
      by_cases he : p = []
      · simp only [he, if_true, viewL, List.filterMap_cons, List.filterMap_nil, viewOne, List.nil_append]
      · simp only [he, if_false, viewL, List.filterMap_cons, List.filterMap_nil, viewOne, List.cons_append, List.nil_append]
    · intro _
      simp only [List.map_cons, feedToks]
      cases r with
      | nil => simpa [feedToks] using hfeed
      | cons q r' => exact this.2.1 (by simp)
    · simp only [List.map_cons, stackToks, hstk, this.2.2]


theorem toksL_leaves {α : Type} (f : α → Leaf) (l : List α) :
    Node.toksL (l.map (fun x => Node.leaf (f x))) = l.map (fun x => Tok.leaf (f x)) := by
  induction l with
  | nil => rfl
  | cons x t ih => simp [Node.toksL, Node.toks, ih]

theorem splitFixedC_ne_nil : ∀ (v cur : Str), splitFixedC v cur ≠ [] := by
  intro v
  induction v with
  | nil => intro cur; simp [splitFixedC]
  | cons c t ih =>
    intro cur
    simp only [splitFixedC]
    split
    · simp
    · exact ih _

theorem pieces_plain (v11 : Bool) (v : Str) (h : noLineEnd v11 v = true) : ∀ p ∈ splitFixedC v [], p.all (plainEol v11) = true := by
  intro p hp
  rw [List.all_eq_true]
  intro c hc
  have hv : c ∈ v := by
    have := flatten_splitFixedC v []
    simp only [List.nil_append] at this
    rw [← this]
    exact List.mem_flatten.mpr ⟨p, hp, hc⟩
  exact List.all_eq_true.mp (noLineEnd_plain v11 v h) c hv

mutual
theorem ev_node (cx : Ctx) (cfg : Cfg) (hcx : CxOK cx cfg) (ex : Str → Nat → List Event) :
    (n : CNode) → okNode cfg.xml11 n = true → ∀ (stack : List Bool) (st : LineSt), stackOK stack → st.prevCR = false →
      viewL (contentEvents cx ex true stack st (Node.toksL (toNodes cfg n))) = rawN n ∧
      (feedToks cx.v11 st (Node.toksL (toNodes cfg n))).prevCR = false ∧
      stackToks cx stack (Node.toksL (toNodes cfg n)) = stack
  | .text v, _, stack, st, hs, hp => by
    rw [toNodes, toksL_leaves (textLeaf cfg) v]
    exact text_events cx cfg hcx ex v stack st hs hp
  | .cdata v, h, stack, st, _, _ => by
    simp only [okNode, Bool.and_eq_true] at h
    rw [toNodes, toksL_leaves Leaf.cdata (splitFixedC v [])]
    have := pieces_events cx ex (splitFixedC v []) stack st (by rw [hcx.v11]; exact pieces_plain cfg.xml11 v h.2)
    exact ⟨this.1, this.2.1 (splitFixedC_ne_nil v []), this.2.2⟩
  | .comment v, h, stack, st, _, _ => by
    simp only [okNode, Bool.and_eq_true] at h
    have he := eol_id cx.v11 v (by rw [hcx.v11]; exact noLineEnd_plain _ _ h.1.2)
    refine ⟨?_, ?_, rfl⟩
    · simp only [toNodes, Node.toksL, Node.toks, List.append_nil, contentEvents, tokEvents, if_true, he, viewL, List.filterMap_cons,
        List.filterMap_nil, viewOne, rawN]
    · have : renderTok (.leaf (.comment v)) = (['<', '!', '-', '-'] ++ v ++ ['-', '-']) ++ ['>'] := by simp [renderTok, renderLeaf]
      simp only [toNodes, Node.toksL, Node.toks, List.append_nil, feedToks, this]
      exact feed_snoc _ _ _ _ (by decide)
  | .pi t d, h, stack, st, _, _ => by
    simp only [okNode, Bool.and_eq_true] at h
    have he := eol_id cx.v11 d (by rw [hcx.v11]; exact noLineEnd_plain _ _ h.1.1.2)
    refine ⟨?_, ?_, rfl⟩
    · simp only [toNodes, Node.toksL, Node.toks, List.append_nil, contentEvents, tokEvents, if_true, he, viewL, List.filterMap_cons,
        List.filterMap_nil, viewOne, rawN]
    · have : ∀ sp, renderTok (.leaf (.pi t sp d)) = ('<' :: '?' :: t ++ sp ++ d ++ ['?']) ++ ['>'] := by
        intro sp; simp [renderTok, renderLeaf]
      simp only [toNodes, Node.toksL, Node.toks, List.append_nil, feedToks, this]
      exact feed_snoc _ _ _ _ (by decide)
  | .elem n as kids, h, stack, st, hs, hp => by
    simp only [okNode, Bool.and_eq_true] at h
    have hat := tagAttrs_toAttrs cx cfg hcx n as
    have hec : hasElementContent cx.decls n = false := by rw [hcx.decls]; rfl
    cases kids with
    | nil =>
      refine ⟨?_, ?_, rfl⟩
      · simp only [toNodes, mkElem, List.isEmpty_nil, if_true, Node.toksL, Node.toks, List.append_nil, contentEvents, tokEvents, viewL,
          List.filterMap_cons, List.filterMap_nil, viewOne, rawN, rawL, List.nil_append, hat]
      · have : renderTok (.empty ⟨n, toAttrs cfg as, []⟩) = (renderTagOpen ⟨n, toAttrs cfg as, []⟩ ++ ['/']) ++ ['>'] := by
          simp [renderTok]
        simp only [toNodes, mkElem, List.isEmpty_nil, if_true, Node.toksL, Node.toks, List.append_nil, feedToks, this]
        exact feed_snoc _ _ _ _ (by decide)
    | cons k ks =>
      have htoks : Node.toksL (toNodes cfg (.elem n as (k :: ks))) =
          .stag ⟨n, toAttrs cfg as, []⟩ :: (Node.toksL (toNodesL cfg (k :: ks)) ++ [.etag n []]) := by
        simp [toNodes, mkElem, Node.toksL, Node.toks]
      have hst1 : (st.feed cx.v11 (renderTok (.stag ⟨n, toAttrs cfg as, []⟩))).prevCR = false := by
        have : renderTok (.stag ⟨n, toAttrs cfg as, []⟩) = renderTagOpen ⟨n, toAttrs cfg as, []⟩ ++ ['>'] := rfl
        rw [this]; exact feed_snoc _ _ _ _ (by decide)
      have ih := ev_nodes cx cfg hcx ex (k :: ks) h.2 (false :: stack) (st.feed cx.v11 (renderTok (.stag ⟨n, toAttrs cfg as, []⟩))) rfl hst1
      have hpush : ignPush cx stack (.stag ⟨n, toAttrs cfg as, []⟩) = false :: stack := by simp [ignPush, hec]
      rw [htoks]
      refine ⟨?_, ?_, ?_⟩
      · have hA : viewL (tokEvents cx ex true (stack.head?.getD false) st (.stag ⟨n, toAttrs cfg as, []⟩)) = [CEv.start n as] := by
          simp only [tokEvents, viewL, List.filterMap_cons, List.filterMap_nil, viewOne, hat]
        have hB : ∀ stk st', viewL (contentEvents cx ex true stk st' [.etag n []]) = [CEv.end_ n] := by
          intro stk st'
          simp only [contentEvents, tokEvents, List.append_nil, viewL, List.filterMap_cons, List.filterMap_nil, viewOne]
        have hstep : contentEvents cx ex true stack st (.stag ⟨n, toAttrs cfg as, []⟩ :: (Node.toksL (toNodesL cfg (k :: ks)) ++ [.etag n []])) =
            tokEvents cx ex true (stack.head?.getD false) st (.stag ⟨n, toAttrs cfg as, []⟩) ++
              contentEvents cx ex true (false :: stack) (st.feed cx.v11 (renderTok (.stag ⟨n, toAttrs cfg as, []⟩)))
                (Node.toksL (toNodesL cfg (k :: ks)) ++ [.etag n []]) := by
          simp only [contentEvents, if_true, hpush]
        rw [hstep, viewL_append, hA, contentEvents_append, viewL_append, ih.1, hB]
        simp [rawN]
      · simp only [feedToks, feedToks_append]
        have : renderTok (.etag n []) = ('<' :: '/' :: n ++ []) ++ ['>'] := by simp [renderTok, renderETag]
        rw [this]; exact feed_snoc _ _ _ _ (by decide)
      · have h3 : stackToks cx stack (.stag ⟨n, toAttrs cfg as, []⟩ :: (Node.toksL (toNodesL cfg (k :: ks)) ++ [.etag n []])) =
            stackToks cx (false :: stack) (Node.toksL (toNodesL cfg (k :: ks)) ++ [.etag n []]) := by
          simp only [stackToks, hpush]
        rw [h3, stackToks_append, ih.2.2]
        rfl
theorem ev_nodes (cx : Ctx) (cfg : Cfg) (hcx : CxOK cx cfg) (ex : Str → Nat → List Event) :
    (ns : List CNode) → okNodes cfg.xml11 ns = true → ∀ (stack : List Bool) (st : LineSt), stackOK stack → st.prevCR = false →
      viewL (contentEvents cx ex true stack st (Node.toksL (toNodesL cfg ns))) = rawL ns ∧
      (feedToks cx.v11 st (Node.toksL (toNodesL cfg ns))).prevCR = false ∧
      stackToks cx stack (Node.toksL (toNodesL cfg ns)) = stack
  | [], _, _, _, _, hp => ⟨rfl, hp, rfl⟩
  | n :: t, h, stack, st, hs, hp => by
    simp only [okNodes, Bool.and_eq_true] at h
    have h1 := ev_node cx cfg hcx ex n h.1 stack st hs hp
    have h2 := ev_nodes cx cfg hcx ex t h.2 stack (feedToks cx.v11 st (Node.toksL (toNodes cfg n))) hs h1.2.1
    rw [toNodesL, toksL_append]
    refine ⟨?_, ?_, ?_⟩
    · rw [contentEvents_append, viewL_append, h1.1, h1.2.2, h2.1]; rfl
    · rw [feedToks_append]; exact h2.2.1
    · rw [stackToks_append, h1.2.2, h2.2.2]
end


/-! ### coalescing the raw events gives the content of the tree -/

theorem coalesce_congr (A B B' : List CEv) (h : coalesce B = coalesce B') : coalesce (A ++ B) = coalesce (A ++ B') := by
  induction A with
  | nil => exact h
  | cons e t ih => cases e <;> simp [coalesce, ih]

mutual
theorem coal_node : (n : CNode) → ∀ (X : List CEv), coalesce (rawN n ++ X) = coalesce (treeRaw n ++ X)
  | .text v, X => by simp only [rawN, treeRaw, coalesce_charList, List.cons_append, List.nil_append, coalesce_chars]
  | .cdata v, X => by
    simp only [rawN, rawCdata, treeRaw, coalesce_pieces, List.cons_append, List.nil_append, coalesce_chars, flatten_splitFixedC,
      List.nil_append]
  | .comment v, _ => rfl
  | .pi t d, _ => rfl
  | .elem n as kids, X => by
    simp only [rawN, treeRaw, List.cons_append, coalesce, List.append_assoc]
    have := coal_nodes kids (CEv.end_ n :: ([] ++ X))
    rw [this]
theorem coal_nodes : (ns : List CNode) → ∀ (X : List CEv), coalesce (rawL ns ++ X) = coalesce (treeRawL ns ++ X)
  | [], _ => rfl
  | n :: t, X => by
    simp only [rawL, treeRawL, List.append_assoc]
    rw [coal_node n (rawL t ++ X)]
    exact coalesce_congr _ _ _ (coal_nodes t X)
end

/-! ### the document -/

theorem beq_ver (b : Bool) : (ver b == XV.Spec.XmlChar.Version.v11) = b := by cases b <;> rfl

theorem cxOK_toDoc (cfg : Cfg) (xd : Bool) (enc n : Str) (as : List (Str × Str)) (kids : List CNode)
    (hc : okDocCfg cfg xd enc = true) (heol : cfg.xml11 = true → cfg.eolFix = true) :
    CxOK (docCtx (toDoc cfg xd enc n as kids)) cfg := by
  refine ⟨?_, rfl, rfl, rfl, heol⟩
  simp only [docCtx, version_toDoc cfg xd enc n as kids hc, beq_ver]

/-- **the DOM view of what a processor reports for the serializer's output is the content of the tree** -/
theorem domView_toDoc (cfg : Cfg) (xd : Bool) (enc n : Str) (as : List (Str × Str)) (kids : List CNode)
    (hc : okDocCfg cfg xd enc = true) (heol : cfg.xml11 = true → cfg.eolFix = true)
    (hok : okNode cfg.xml11 (.elem n as kids) = true) :
    domView (infoset (toDoc cfg xd enc n as kids)) = treeView (.elem n as kids) := by
  have hcx := cxOK_toDoc cfg xd enc n as kids hc heol
  unfold infoset
  rw [domView_mergeChars]
  have hst0 : (LineSt.init.feed (docCtx (toDoc cfg xd enc n as kids)).v11 (declText (toDoc cfg xd enc n as kids))).prevCR = false := by
    cases xd with
    | false => rfl
    | true =>
      have : ∃ p, declText (toDoc cfg true enc n as kids) = p ++ ['>'] := by
        simp only [declText, toDoc, if_true, render_toDecl]
        exact ⟨['<', '?', 'x', 'm', 'l', ' ', 'v', 'e', 'r', 's', 'i', 'o', 'n', '=', '"'] ++ (if cfg.xml11 then ['1', '.', '1'] else ['1', '.', '0']) ++
          ['"', ' '] ++ ['e', 'n', 'c', 'o', 'd', 'i', 'n', 'g', '=', '"'] ++ enc ++ ['"', ' '] ++
          ['s', 't', 'a', 'n', 'd', 'a', 'l', 'o', 'n', 'e', '=', '"'] ++ ['n', 'o'] ++ ['"', ' '] ++ ['?'], by simp⟩
      obtain ⟨p, hp⟩ := this
      rw [hp]; exact feed_snoc _ _ _ _ (by decide)
  have hroot : (toDoc cfg xd enc n as kids).root.toks = Node.toksL (toNodes cfg (.elem n as kids)) := by
    simp [toDoc, toNodes, Node.toksL]
  have hev := ev_node (docCtx (toDoc cfg xd enc n as kids)) cfg hcx
    (expandEntity (docCtx (toDoc cfg xd enc n as kids)) (docCtx (toDoc cfg xd enc n as kids)).depth)
    (.elem n as kids) hok [] _ rfl hst0
  have hraw : viewL (rawEvents (toDoc cfg xd enc n as kids)) = rawN (.elem n as kids) := by
    unfold rawEvents
    have hpre : (toDoc cfg xd enc n as kids).pre = [] := rfl
    have hpost : (toDoc cfg xd enc n as kids).post = [] := rfl
    have hdt : (toDoc cfg xd enc n as kids).doctype = none := rfl
    simp only [hpre, hpost, hdt, renderLeaves, miscEvents, List.append_nil, List.nil_append, LineSt.feed, hroot]
    have hx : viewL (xmlDeclEvents (toDoc cfg xd enc n as kids)) = [] := by
      cases xd <;> simp [xmlDeclEvents, toDoc, viewL, viewOne]
    simp only [viewL, List.filterMap_cons, viewOne, List.filterMap_append, List.filterMap_nil, List.append_nil] at hx hev ⊢
    rw [hx, hev.1]
    simp
  unfold domView treeView
  rw [hraw]
  have := coal_node (.elem n as kids) []
  simpa using this

end XV.Lemmas.TreeInfoset
