/-
C08 — counting states: one step of `handleRepetitions` (`hrep`) and the whole walk (`cwalk_iff`).
Core Lean only.
-/
import XV.Lemmas.ParticleCountWalk
namespace XV.Lemmas.ParticleCount
open XV.Spec.ContentModel XV.Model.ContentModel XV.Lemmas.DfaRun XV.Lemmas.DfaTable XV.Model.ParticleDfa
open XV.Model.Particle (occOk)

/-- the check `chk` performs when child `y` arrives -/
def localOK (r : Rng) (prev : Option Nat) (loop y : Nat) : Bool :=
  if prev = some y then
    (match r y with
     | some (_, mx) => maxOk mx (loop + 1)
     | none => true)
  else endOk r prev loop

theorem chk_cons (r : Rng) (prev : Option Nat) (loop y : Nat) (rest : List Nat) :
    chk r prev loop (y :: rest) =
      (localOK r prev loop y && chk r (some y) (if prev = some y then loop + 1 else 1) rest) := by
  unfold localOK
  simp only [chk]
  split <;> rfl

/-- the counter of a leaf without occurrence range is irrelevant -/
theorem chk_loop_irrel (r : Rng) (y : Nat) (hy : r y = none) (w : List Nat) (l1 l2 : Nat) :
    chk r (some y) l1 w = chk r (some y) l2 w := by
  cases w with
  | nil => simp [chk, endOk, hy]
  | cons z rest =>
    simp only [chk]
    by_cases hz : some y = some z
    · cases hz
      rw [if_pos rfl, if_pos rfl, hy]
      simp only [Bool.true_and]
      exact chk_loop_irrel r y hy rest (l1 + 1) (l2 + 1)
    · rw [if_neg hz, if_neg hz]
      simp [endOk, hy]

theorem maxOk_one {mx : Option Nat} (h : occOk 0 mx = true) : maxOk mx 1 = true := by
  cases mx with
  | none => rfl
  | some m => simp only [occOk, Bool.and_eq_true, decide_eq_true_eq] at h; simp [maxOk, h.2]

section
variable {L : Nat} {N : List Nat} {fl states : List StateSet} {rows : List (List (Option Nat))}
variable (infos : List (Nat × Option (Nat × Option Nat))) (emptyOk : Bool) (eoc : Nat)

theorem inv_lt {prev : Option Nat} {cur loop : Nat} (hI : Inv infos emptyOk eoc N fl states rows prev cur loop) :
    cur < states.length := by
  cases prev with
  | none => obtain ⟨h1, h2⟩ := hI; omega
  | some x => obtain ⟨p, _, _, h, _⟩ := hI; exact lt_of_get h

theorem hrep (C : Ctx L N fl states rows (rngOf infos)) {prev : Option Nat} {cur loop : Nat}
    (hI : Inv infos emptyOk eoc N fl states rows prev cur loop) (y e next : Nat)
    (hf : findTrans (mkD emptyOk eoc N states rows) (fun x a => x == a) y cur 0 = some (e, next)) :
    ∃ L', handleRepetitions ⟨mkD emptyOk eoc N states rows, some (csOf infos emptyOk eoc N states rows)⟩
            (fun x a => x == a) y cur loop next e
          = (if localOK (rngOf infos) prev loop y = true then some (next, L') else none) ∧
      Inv infos emptyOk eoc N fl states rows (some y) next L' ∧
      (∀ mn mx, rngOf infos y = some (mn, mx) → L' = if prev = some y then loop + 1 else 1) := by
  have hcur := inv_lt infos emptyOk eoc hI
  obtain ⟨row, hrow⟩ := C.row_of hcur
  have hgetD : rows.getD cur [] = row := by simp [List.getD_eq_getElem?_getD, hrow]
  have hfind : ∀ from_, findTrans (mkD emptyOk eoc N states rows) (fun x a => x == a) y cur from_
      = findTransGo (fun x a => x == a) y (llOf N) row 0 from_ := by
    intro from_; unfold findTrans mkD; simp only [hgetD]
  rw [hfind] at hf
  obtain ⟨s1, _, s3, s4, s5, s6, s7⟩ := C.step hrow y 0 e next hf
  have halt : findTrans (mkD emptyOk eoc N states rows) (fun x a => x == a) y cur (e + 1) = none := by
    rw [hfind]
    cases hh : findTransGo (fun x a => x == a) y (llOf N) row 0 (e + 1) with
    | none => rfl
    | some pr =>
      obtain ⟨e2, t2⟩ := pr
      obtain ⟨b1, b2, _⟩ := C.step hrow y (e + 1) e2 t2 hh
      have : e = e2 := (List.getElem?_inj (lt_of_get s1) C.nodup).1 (s1.trans b1.symm)
      omega
  obtain ⟨ei, e1⟩ := enter_inv infos emptyOk eoc C loop s4 s5 s1
  unfold handleRepetitions
  simp only
  cases hcs : (csOf infos emptyOk eoc N states rows).getD cur none with
  | none =>
    simp only
    refine ⟨_, ?_, ei, ?_⟩
    · have hlok : localOK (rngOf infos) prev loop y = true := by
        cases prev with
        | none => simp [localOK, endOk]
        | some x =>
          obtain ⟨p, hp, hc1, hSt, _⟩ := hI
          have hrx := cs_none_case infos emptyOk eoc C hp hc1 hSt hcs
          unfold localOK
          by_cases hxy : some x = some y
          · rw [if_pos hxy]; cases hxy; rw [hrx]
          · rw [if_neg hxy]; simp [endOk, hrx]
      rw [hlok]; simp
    · intro mn mx hr
      rw [e1 mn mx hr]
      cases prev with
      | none => simp
      | some x =>
        obtain ⟨p, hp, hc1, hSt, _⟩ := hI
        have hrx := cs_none_case infos emptyOk eoc C hp hc1 hSt hcs
        have hxy : ¬ some x = some y := by
          intro h; cases h; rw [hr] at hrx; cases hrx
        rw [if_neg hxy]
  | some o =>
    simp only
    cases prev with
    | none =>
      obtain ⟨h0, hl⟩ := hI
      subst h0
      rw [cs_zero infos emptyOk eoc C hl] at hcs
      cases hcs
    | some x =>
      obtain ⟨p, hp, hc1, hSt, hz⟩ := hI
      obtain ⟨⟨a, ha, hra⟩, b1, b2, hdich⟩ := cs_some_case infos emptyOk eoc C hp hSt hz hcs
      have hS6 : (fl.getD p 0).testBit e = true := by rw [← getD_of_get hSt]; exact s6
      by_cases hcn : cur = next
      · rw [if_pos hcn]
        have hfe : fl.getD p 0 = fl.getD e 0 := by
          rw [hcn] at hSt; rw [hSt] at s5; exact Option.some.inj s5
        have hej : e = o.elemIndex := by
          have h1 := C.mono o.elemIndex e (by rw [b2]; exact hS6)
          have h2 := C.mono e o.elemIndex (by rw [← hfe]; exact b1)
          omega
        have hya : y = a := by
          rw [← hej, s1] at ha; exact Option.some.inj ha
        have hry : rngOf infos y = some (o.min, o.max) := by rw [hya]; exact hra
        -- the local check is the `maxOccurs` test in both cases
        have hlok : localOK (rngOf infos) (some x) loop y = maxOk o.max (loop + 1) ∧
            (loop + 1 = if some x = some y then loop + 1 else 1) := by
          rcases hdich with ⟨hrx, hjp⟩ | ⟨hrx, hjp, hmin, hl0, hocc⟩
          · have hxy : x = y := by
              rw [← hej] at hjp; rw [hjp, hp] at s1; exact Option.some.inj s1
            subst hxy
            simp [localOK, hry]
          · have hxy : ¬ some x = some y := by
              intro h; cases h; rw [hry] at hrx; cases hrx
            subst hl0
            simp [localOK, hxy, endOk, hrx, maxOk_one hocc]
        rw [hlok.1]
        refine ⟨loop + 1, ?_, ⟨e, s1, s4, s5, fun hr => by rw [hry] at hr; cases hr⟩, fun _ _ _ => hlok.2⟩
        cases o.max with
        | none => simp [maxOk]
        | some m =>
          simp only [maxOk]
          by_cases hgt : loop + 1 > m
          · have hle : ¬ loop + 1 ≤ m := by omega
            simp [hgt, hle, halt]
          · have hle : loop + 1 ≤ m := by omega
            have hgt' : ¬ m < loop + 1 := by omega
            simp [hgt', hle]
      · rw [if_neg hcn]
        have hxy : ¬ some x = some y := by
          intro h
          cases h
          have hpe : p = e := (List.getElem?_inj (lt_of_get hp) C.nodup).1 (hp.trans s1.symm)
          subst hpe
          exact hcn (state_index_inj C.bnd hc1 s4 hSt s5)
        have hlok : localOK (rngOf infos) (some x) loop y = decide (o.min ≤ loop) := by
          unfold localOK
          rw [if_neg hxy]
          rcases hdich with ⟨hrx, _⟩ | ⟨hrx, _, hmin, _, _⟩
          · simp [endOk, hrx]
          · simp [endOk, hrx, hmin]
        rw [hlok]
        refine ⟨_, ?_, ei, ?_⟩
        · by_cases hlt : loop < o.min
          · rw [if_pos hlt]
            have : decide (o.min ≤ loop) = false := decide_eq_false (by omega)
            rw [this]; simp
          · rw [if_neg hlt]
            have : decide (o.min ≤ loop) = true := decide_eq_true (by omega)
            rw [this]; simp
        · intro mn mx hr
          rw [e1 mn mx hr, if_neg hxy]

/-- the walk with counting states = the plain table walk + the block check -/
theorem cwalk_iff (C : Ctx L N fl states rows (rngOf infos)) (w : List Nat) :
    ∀ (prev : Option Nat) (cur loop idx : Nat), Inv infos emptyOk eoc N fl states rows prev cur loop →
      (walk ⟨mkD emptyOk eoc N states rows, some (csOf infos emptyOk eoc N states rows)⟩ (fun x a => x == a) w cur loop idx
          = .ok ↔
        dfaWalk (mkD emptyOk eoc N states rows) w cur idx = .ok ∧ chk (rngOf infos) prev loop w = true) := by
  induction w with
  | nil =>
    intro prev cur loop idx hI
    simp only [walk, dfaWalk, chk]
    cases hfin : (mkD emptyOk eoc N states rows).finalFlags.getD cur false with
    | false => simp
    | true =>
      simp only [Bool.not_true, Bool.false_eq_true, if_false, if_true, true_and]
      cases hcs : (csOf infos emptyOk eoc N states rows).getD cur none with
      | none =>
        simp only [true_iff]
        cases prev with
        | none => rfl
        | some x =>
          obtain ⟨p, hp, hc1, hSt, _⟩ := hI
          simp [endOk, cs_none_case infos emptyOk eoc C hp hc1 hSt hcs]
      | some o =>
        simp only
        cases prev with
        | none =>
          obtain ⟨h0, hl⟩ := hI
          subst h0
          rw [cs_zero infos emptyOk eoc C hl] at hcs
          cases hcs
        | some x =>
          obtain ⟨p, hp, hc1, hSt, hz⟩ := hI
          obtain ⟨_, _, _, hdich⟩ := cs_some_case infos emptyOk eoc C hp hSt hz hcs
          rcases hdich with ⟨hrx, _⟩ | ⟨hrx, _, hmin, _, _⟩
          · simp only [endOk, hrx, decide_eq_true_eq]
            by_cases hlt : loop < o.min
            · rw [if_pos hlt]
              constructor
              · intro h; cases h
              · intro h; omega
            · rw [if_neg hlt]
              constructor
              · intro _; omega
              · intro _; rfl
          · simp [endOk, hrx, hmin]
  | cons y rest ih =>
    intro prev cur loop idx hI
    rw [chk_cons]
    simp only [walk, dfaWalk]
    have hcur := inv_lt infos emptyOk eoc hI
    obtain ⟨row, hrow⟩ := C.row_of hcur
    have hgetD : rows.getD cur [] = row := by simp [List.getD_eq_getElem?_getD, hrow]
    have hlk := XV.Lemmas.ParticleDfa.findTransGo_eq y (llOf N) row 0
    have hfind : findTrans (mkD emptyOk eoc N states rows) (fun x a => x == a) y cur 0
        = findTransGo (fun x a => x == a) y (llOf N) row 0 0 := by
      unfold findTrans mkD; simp only [hgetD]
    have hlook : lookupTrans (mkD emptyOk eoc N states rows).elemMap ((mkD emptyOk eoc N states rows).transTable.getD cur []) y
        = lookupTrans (llOf N) row y := by
      unfold mkD; simp only [hgetD]
    rw [hlook, ← hlk, ← hfind]
    cases hft : findTrans (mkD emptyOk eoc N states rows) (fun x a => x == a) y cur 0 with
    | none => simp
    | some pr =>
      obtain ⟨e, next⟩ := pr
      simp only [Option.map_some]
      obtain ⟨L', h1, h2, h3⟩ := hrep infos emptyOk eoc C hI y e next hft
      rw [h1]
      cases hl : localOK (rngOf infos) prev loop y with
      | false => simp
      | true =>
        simp only [if_true, Bool.true_and]
        rw [ih (some y) next L' (idx + 1) h2]
        have hchk : chk (rngOf infos) (some y) L' rest
            = chk (rngOf infos) (some y) (if prev = some y then loop + 1 else 1) rest := by
          cases hr : rngOf infos y with
          | none => exact chk_loop_irrel _ y hr rest _ _
          | some mm => obtain ⟨mn, mx⟩ := mm; rw [h3 mn mx hr]
        rw [hchk]

end
end XV.Lemmas.ParticleCount
