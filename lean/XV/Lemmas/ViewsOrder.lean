/-
C14 — helper lemmas for the order of boundary points: the linearisation `bpKey` (weights, entry ticks), and the pointer
walks of DOMRangeImpl::compareBoundaryPoints.
-/
import XV.Lemmas.Views
namespace XV.Lemmas.ViewsOrder
open XV.Model.Dom XV.Spec.Dom XV.Model.Views XV.Spec.Views XV.Lemmas.Dom XV.Lemmas.Views

/-- character data has no children (every reachable store: insertBefore refuses such parents) -/
def TextLeaves (s : Store) : Prop := ∀ x, textLike s x = true → kids s x = []

-- ------------------------------------------------------------------ weights

theorem map_congr' {α β : Type} (l : List α) (f g : α → β) (h : ∀ a, a ∈ l → f a = g a) : l.map f = l.map g := by
  induction l with
  | nil => rfl
  | cons a t ih =>
    simp only [List.map_cons]
    rw [h a (List.mem_cons_self ..), ih (fun b hb => h b (List.mem_cons_of_mem _ hb))]

theorem weightF_stable (s : Store) (h : WF s) (rank : NodeId → Nat)
    (hrank : ∀ c rc p, s.get c = some rc → rc.parent = some p → rank c < rank p) :
    ∀ (f g : Nat) (x : NodeId), belowCount s rank x < f → belowCount s rank x < g →
      weightFuel s f x = weightFuel s g x := by
  intro f
  induction f with
  | zero => intro g x hf _; omega
  | succ f' ih =>
    intro g x hf hg
    cases g with
    | zero => omega
    | succ g' =>
      unfold weightFuel
      split
      · rfl
      · congr 2
        apply map_congr'
        intro c hc
        obtain ⟨rn, hn, hcm⟩ := mem_kids hc
        obtain ⟨rc, hrc, hp⟩ := h.childParent x rn c hn hcm
        have hlt := below_lt s rank x c (lt_size_of_get s c rc hrc) (hrank c rc x hrc hp)
        exact ih g' c (by omega) (by omega)

theorem weight_unfold {s : Store} (h : WF s) (n : NodeId) :
    weight s n = if textLike s n then 2 + (dataOf s n).length else 2 + ((kids s n).map (weight s)).sum := by
  obtain ⟨rank, hrank⟩ := h.acyclic
  unfold weight
  cases hk : s.size with
  | zero =>
    have hg : s.get n = none := get_ge_size s n (by omega)
    have hkd : kids s n = [] := by unfold kids parentKids; rw [hg]
    have ht : textLike s n = false := by unfold textLike; rw [hg]
    simp [weightFuel, hkd, ht]
  | succ k =>
    conv => lhs; unfold weightFuel
    split
    · rfl
    · congr 2
      apply map_congr'
      intro c hc
      obtain ⟨rn, hn, hcm⟩ := mem_kids hc
      obtain ⟨rc, hrc, hp⟩ := h.childParent n rn c hn hcm
      have hcs := lt_size_of_get s c rc hrc
      have hns := lt_size_of_get s n rn hn
      have hlt := below_lt s rank n c hcs (hrank c rc n hrc hp)
      have hle := below_le s rank n hns
      exact weightF_stable s h rank hrank k (k + 1) c (by omega) (by omega)

theorem weight_ge_two {s : Store} (h : WF s) (n : NodeId) : 2 ≤ weight s n := by
  rw [weight_unfold h]; split <;> omega

/-- sum of the weights of the first `o` children -/
def prefixW (s : Store) (l : List NodeId) (o : Nat) : Nat := ((l.take o).map (weight s)).sum

theorem prefixW_mono {s : Store} (l : List NodeId) : ∀ o1 o2, o1 ≤ o2 → prefixW s l o1 ≤ prefixW s l o2 := by
  induction l with
  | nil => intro o1 o2 _; simp [prefixW]
  | cons a t ih =>
    intro o1 o2 hle
    cases o1 with
    | zero => simp [prefixW]
    | succ o1' =>
      cases o2 with
      | zero => omega
      | succ o2' =>
        have := ih o1' o2' (by omega)
        simp only [prefixW, List.take_succ_cons, List.map_cons, List.sum_cons] at this ⊢
        omega

theorem take_append_succ {α : Type} (l1 l2 : List α) (c : α) : (l1 ++ c :: l2).take (l1.length + 1) = l1 ++ [c] := by
  induction l1 with
  | nil => simp
  | cons a t ih => simp only [List.cons_append, List.length_cons, List.take_succ_cons, ih]

theorem take_append_len {α : Type} (l1 l2 : List α) : (l1 ++ l2).take l1.length = l1 := by
  induction l1 with
  | nil => simp
  | cons a t ih => simp only [List.cons_append, List.length_cons, List.take_succ_cons, ih]

theorem prefixW_succ {s : Store} (l1 l2 : List NodeId) (c : NodeId) :
    prefixW s (l1 ++ c :: l2) (l1.length + 1) = prefixW s (l1 ++ c :: l2) l1.length + weight s c := by
  unfold prefixW
  rw [take_append_succ, take_append_len]
  simp

theorem prefixW_all {s : Store} (l : List NodeId) (o : Nat) (ho : l.length ≤ o) :
    prefixW s l o = (l.map (weight s)).sum := by
  unfold prefixW; rw [List.take_of_length_le ho]

theorem prefixW_strict {s : Store} (h : WF s) (l : List NodeId) : ∀ o1 o2, o1 < o2 → o2 ≤ l.length →
    prefixW s l o1 + 2 ≤ prefixW s l o2 := by
  induction l with
  | nil => intro o1 o2 h1 h2; simp at h2; omega
  | cons a t ih =>
    intro o1 o2 h1 h2
    cases o2 with
    | zero => omega
    | succ o2' =>
      cases o1 with
      | zero =>
        have := weight_ge_two h a
        simp only [prefixW, List.take_zero, List.map_nil, List.sum_nil, List.take_succ_cons, List.map_cons, List.sum_cons]
        omega
      | succ o1' =>
        have := ih o1' o2' (by omega) (by simp at h2; omega)
        simp only [prefixW, List.take_succ_cons, List.map_cons, List.sum_cons] at this ⊢
        omega

-- ------------------------------------------------------------------ positions

theorem innerPos_text {s : Store} {n : NodeId} (ht : textLike s n = true) (o : Nat) : innerPos s n o = 1 + o := by
  unfold innerPos; rw [ht]; rfl

theorem innerPos_elem {s : Store} {n : NodeId} (ht : textLike s n = false) (o : Nat) :
    innerPos s n o = 1 + prefixW s (kids s n) o := by
  unfold innerPos prefixW; rw [ht]; rfl

theorem innerPos_mono {s : Store} (n : NodeId) (o1 o2 : Nat) (hle : o1 ≤ o2) : innerPos s n o1 ≤ innerPos s n o2 := by
  cases ht : textLike s n with
  | true => rw [innerPos_text ht, innerPos_text ht]; omega
  | false => rw [innerPos_elem ht, innerPos_elem ht]; have := prefixW_mono (s := s) (kids s n) o1 o2 hle; omega

theorem innerPos_strict {s : Store} (h : WF s) (n : NodeId) (o1 o2 : Nat) (hlt : o1 < o2) (hb : o2 ≤ lenOf s n) :
    innerPos s n o1 < innerPos s n o2 := by
  cases ht : textLike s n with
  | true => rw [innerPos_text ht, innerPos_text ht]; omega
  | false =>
    rw [innerPos_elem ht, innerPos_elem ht]
    have hl : lenOf s n = (kids s n).length := by unfold lenOf; rw [ht]; rfl
    have := prefixW_strict h (kids s n) o1 o2 hlt (by omega)
    omega

/-- a point of `n` lies strictly inside the interval of `n` -/
theorem innerPos_bounds {s : Store} (h : WF s) (n : NodeId) (o : Nat) (hb : o ≤ lenOf s n) :
    1 ≤ innerPos s n o ∧ innerPos s n o + 1 ≤ weight s n := by
  rw [weight_unfold h]
  cases ht : textLike s n with
  | true =>
    have hl : lenOf s n = (dataOf s n).length := by unfold lenOf; rw [ht]; rfl
    rw [innerPos_text ht]; simp only [if_true]; omega
  | false =>
    rw [innerPos_elem ht]
    simp only [Bool.false_eq_true, if_false]
    have := prefixW_mono (s := s) (kids s n) o (kids s n).length (by unfold lenOf at hb; rw [ht] at hb; exact hb)
    rw [prefixW_all _ _ (Nat.le_refl _)] at this
    omega

/-- the tick at which `x` is entered -/
def enter (s : Store) (x : NodeId) : Nat := enterPos s x (ancestors s x)

theorem bpKey_eq (s : Store) (x : NodeId) (o : Nat) : bpKey s (x, o) = enter s x + innerPos s x o := rfl

theorem enter_unfold {s : Store} (h : WF s) {x q : NodeId} (hq : parentOf s x = some q) :
    enter s x = enter s q + innerPos s q (indexIn s q x) := by
  unfold enter
  rw [ancestors_cons h hq]
  rfl

/-- the interval of a child inside its parent: it starts at the point before the child and ends at the point after it -/
theorem child_interval {s : Store} (h : WF s) (htl : TextLeaves s) {x q : NodeId} (hq : parentOf s x = some q) :
    enter s x = bpKey s (q, indexIn s q x) ∧ bpKey s (q, indexIn s q x + 1) = enter s x + weight s x := by
  have hxk := kid_of_parent h hq
  have htq : textLike s q = false := by
    cases ht : textLike s q with
    | false => rfl
    | true => rw [htl q ht] at hxk; cases hxk
  obtain ⟨l1, l2, hl, h1, _⟩ := kids_split h hq
  have hidx : indexIn s q x = l1.length := by
    unfold indexIn
    rw [hl, List.idxOf_append, if_neg h1]
    simp
  refine ⟨by rw [bpKey_eq, enter_unfold h hq], ?_⟩
  rw [bpKey_eq, enter_unfold h hq, innerPos_elem htq, innerPos_elem htq, hidx, hl, prefixW_succ]
  omega

/-- every point inside the subtree of `c` lies strictly inside the interval of `c` -/
theorem subtree_interval {s : Store} (h : WF s) (htl : TextLeaves s) {c x : NodeId} (ha : AncOrSelf s c x) :
    ∀ o, o ≤ lenOf s x → enter s c + 1 ≤ bpKey s (x, o) ∧ bpKey s (x, o) + 1 ≤ enter s c + weight s c := by
  induction ha with
  | refl =>
    intro o ho
    have := innerPos_bounds h c o ho
    rw [bpKey_eq]; omega
  | @step x q hq _ ih =>
    intro o ho
    have hxk := kid_of_parent h hq
    have htq : textLike s q = false := by
      cases ht : textLike s q with
      | false => rfl
      | true => rw [htl q ht] at hxk; cases hxk
    have hidx : indexIn s q x < lenOf s q := indexIn_lt h hq htq
    obtain ⟨e1, e2⟩ := child_interval h htl hq
    have hb := innerPos_bounds h x o ho
    have i1 := ih (indexIn s q x) (by omega)
    have i2 := ih (indexIn s q x + 1) (by omega)
    rw [bpKey_eq] at *
    omega

/-- children of one node: the earlier one's interval ends before the later one's begins -/
theorem sibling_intervals {s : Store} (h : WF s) (htl : TextLeaves s) {p x y : NodeId}
    (hx : parentOf s x = some p) (hy : parentOf s y = some p) (hlt : indexIn s p x < indexIn s p y) :
    enter s x + weight s x ≤ enter s y := by
  obtain ⟨_, e2⟩ := child_interval h htl hx
  obtain ⟨f1, _⟩ := child_interval h htl hy
  rw [← e2, f1, bpKey_eq, bpKey_eq]
  have := innerPos_mono (s := s) p (indexIn s p x + 1) (indexIn s p y) (by omega)
  omega

-- ------------------------------------------------------------------ the walks of compareBoundaryPoints

theorem proper_anc_has_child {s : Store} (h : WF s) {a b : NodeId} (ha : AncOrSelf s a b) (hne : a ≠ b) :
    ∃ c, c ∈ kids s a ∧ AncOrSelf s c b := by
  induction ha with
  | refl => exact absurd rfl hne
  | @step x q hq haq ih =>
    by_cases e : a = q
    · subst e
      exact ⟨x, kid_of_parent h hq, .refl⟩
    · obtain ⟨c, hc, hcq⟩ := ih e
      exact ⟨c, hc, .step hq hcq⟩

theorem find_toward_some {s : Store} (h : WF s) {a b c : NodeId}
    (hf : (kids s a).find? (fun c => isAncOf s c b) = some c) : c ∈ kids s a ∧ AncOrSelf s c b :=
  ⟨List.mem_of_find?_eq_some hf, (isAncOf_iff h c b).mp (by have := List.find?_some hf; simpa using this)⟩

theorem find_toward_none {s : Store} (h : WF s) {a b : NodeId}
    (hf : (kids s a).find? (fun c => isAncOf s c b) = none) : a = b ∨ ¬ AncOrSelf s a b := by
  by_cases e : a = b
  · exact Or.inl e
  · refine Or.inr (fun ha => ?_)
    obtain ⟨c, hc, hcb⟩ := proper_anc_has_child h ha e
    have := List.find?_eq_none.mp hf c hc
    exact this ((isAncOf_iff h c b).mpr hcb)

/-- a list in which every element is followed by its parent and the last one has none -/
def IsChain (s : Store) : List NodeId → Prop
  | [] => False
  | [x] => parentOf s x = none
  | x :: y :: rest => parentOf s x = some y ∧ IsChain s (y :: rest)

theorem isChain_ancestors {s : Store} (h : WF s) : ∀ x, IsChain s (x :: ancestors s x) := by
  refine up_induction h (fun x => IsChain s (x :: ancestors s x)) ?_
  intro x ih
  cases hq : parentOf s x with
  | none => rw [ancestors_nil hq]; exact hq
  | some q =>
    rw [ancestors_cons h hq]
    exact ⟨hq, ih q hq⟩

theorem isChain_drop {s : Store} : ∀ (l : List NodeId) (k : Nat), IsChain s l → k < l.length → IsChain s (l.drop k)
  | [], _, h, _ => by cases h
  | [x], k, h, hk => by
    have : k = 0 := by simp at hk; omega
    subst this; exact h
  | x :: y :: rest, 0, h, _ => h
  | x :: y :: rest, k + 1, h, hk => by
    simp only [List.drop_succ_cons]
    exact isChain_drop (y :: rest) k h.2 (by simp at hk ⊢; omega)

theorem isChain_getLast {s : Store} : ∀ (l : List NodeId) (k : Nat), IsChain s l → k < l.length →
    (l.drop k).getLast? = l.getLast?
  | l, k, _, hk => by
    rw [List.getLast?_drop]
    simp [show ¬ l.length ≤ k by omega]

/-- lifting two nodes of equal depth to the children of their nearest common ancestor -/
theorem liftPair_spec {s : Store} : ∀ (la lb : List NodeId), IsChain s la → IsChain s lb → la.length = lb.length →
    la.head? ≠ lb.head? → la.getLast? = lb.getLast? →
    ∃ x y p, liftPair la lb = some (x, y) ∧ x ∈ la ∧ y ∈ lb ∧ x ≠ y ∧ parentOf s x = some p ∧ parentOf s y = some p
  | [], _, h, _, _, _, _ => by cases h
  | _ :: _, [], _, h, _, _, _ => by cases h
  | [a], [b], _, _, _, hh, hl => by
    simp at hh hl
    exact absurd hl hh
  | [a], b :: b2 :: bs, _, _, hlen, _, _ => by simp at hlen
  | a :: a2 :: as, [b], _, _, hlen, _, _ => by simp at hlen
  | a :: a2 :: as, b :: b2 :: bs, ha, hb, hlen, hh, hl => by
    unfold liftPair
    by_cases e : a2 = b2
    · rw [if_pos e]
      refine ⟨a, b, a2, rfl, List.mem_cons_self .., List.mem_cons_self .., ?_, ha.1, e ▸ hb.1⟩
      intro hab; apply hh; simp [hab]
    · rw [if_neg e]
      have hh' : (a2 :: as).head? ≠ (b2 :: bs).head? := by
        intro hc; simp at hc; exact e hc
      have hl' : (a2 :: as).getLast? = (b2 :: bs).getLast? := by
        rw [List.getLast?_cons_cons, List.getLast?_cons_cons] at hl; exact hl
      have hlen' : (a2 :: as).length = (b2 :: bs).length := by simp at hlen ⊢; omega
      obtain ⟨x, y, p, h1, h2, h3, h4⟩ := liftPair_spec (a2 :: as) (b2 :: bs) ha.2 hb.2 hlen' hh' hl'
      exact ⟨x, y, p, h1, List.mem_cons_of_mem _ h2, List.mem_cons_of_mem _ h3, h4⟩

theorem mem_chain_anc {s : Store} (h : WF s) {x a : NodeId} (hm : x ∈ a :: ancestors s a) : AncOrSelf s x a := by
  rcases List.mem_cons.mp hm with e | hm
  · exact e ▸ .refl
  · exact ((mem_ancestors_iff h x a).mp hm).2

theorem rootOf_eq_last (s : Store) (x : NodeId) : (x :: ancestors s x).getLast? = some (rootOf s x) := by
  unfold rootOf
  cases hl : (ancestors s x).getLast? with
  | none =>
    have : ancestors s x = [] := List.getLast?_eq_none_iff.mp hl
    rw [this]; rfl
  | some r =>
    obtain ⟨init, hinit⟩ := List.getLast?_eq_some_iff.mp hl
    rw [hinit, ← List.cons_append, List.getLast?_append]
    rfl

/-- the siblings after `y` contain `x` iff `x` comes later in the child list -/
theorem sibsAfter_contains {s : Store} (h : WF s) {p x y : NodeId} (hx : parentOf s x = some p)
    (hy : parentOf s y = some p) (hne : x ≠ y) :
    (sibsAfter s y).contains x = decide (indexIn s p y < indexIn s p x) := by
  obtain ⟨l1, l2, hl, h1, h2⟩ := kids_split h hy
  have hxk : x ∈ kids s p := kid_of_parent h hx
  have hnd := kids_nodup h p
  rw [hl] at hxk hnd
  have hiy : indexIn s p y = l1.length := by
    unfold indexIn; rw [hl, List.idxOf_append, if_neg h1]; simp
  have hsa : sibsAfter s y = l2 := by
    unfold sibsAfter
    rw [hy]
    simp only
    rw [hl, dropWhile_ne_split l1 l2 y h1]
    rfl
  rw [hsa, hiy]
  rcases List.mem_append.mp hxk with hm | hm
  · have hx2 : x ∉ l2 := fun hm2 => (List.nodup_append.mp hnd).2.2 x hm x (List.mem_cons_of_mem _ hm2) rfl
    have hix : indexIn s p x < l1.length := by
      unfold indexIn; rw [hl, List.idxOf_append, if_pos hm]; exact List.idxOf_lt_length_of_mem hm
    have e1 : l2.contains x = false := by
      cases hc : l2.contains x with
      | false => rfl
      | true => exact absurd ((contains_iff _ _).mp hc) hx2
    rw [e1]
    simp; omega
  · rcases List.mem_cons.mp hm with e | hm2
    · exact absurd e hne
    · have hx1 : x ∉ l1 := fun hm1 => (List.nodup_append.mp hnd).2.2 x hm1 x hm rfl
      have hix : l1.length < indexIn s p x := by
        unfold indexIn
        rw [hl, List.idxOf_append, if_neg hx1, List.idxOf_cons]
        have : (y == x) = false := by simp [Ne.symm hne]
        rw [this]; simp
      have e1 : l2.contains x = true := (contains_iff _ _).mpr hm2
      rw [e1]
      simp; omega

theorem idxOf_inj : ∀ (l : List NodeId) (x y : NodeId), x ∈ l → l.idxOf x = l.idxOf y → x = y
  | [], _, _, hx, _ => by cases hx
  | a :: t, x, y, hx, he => by
    rw [List.idxOf_cons, List.idxOf_cons] at he
    by_cases hax : a = x
    · by_cases hay : a = y
      · exact hax.symm.trans hay
      · have h1 : (a == x) = true := by simp [hax]
        have h2 : (a == y) = false := by simp [hay]
        rw [h1, h2] at he
        simp at he
    · by_cases hay : a = y
      · have h1 : (a == x) = false := by simp [hax]
        have h2 : (a == y) = true := by simp [hay]
        rw [h1, h2] at he
        simp at he
      · have h1 : (a == x) = false := by simp [hax]
        have h2 : (a == y) = false := by simp [hay]
        rw [h1, h2] at he
        simp at he
        rcases List.mem_cons.mp hx with e | hm
        · exact absurd e.symm hax
        · exact idxOf_inj t x y hm he

/-- comparison of two numbers as compareBoundaryPoints reports it -/
def keyCmp (ka kb : Nat) : Int := if ka < kb then -1 else if ka = kb then 0 else 1

theorem equalise_lengths (la lb : List NodeId) :
    (equalise la lb).1.length = (equalise la lb).2.length := by
  unfold equalise; simp; omega

/-- **compareBoundaryPoints = the order of the linearised tree.**  For two boundary points of one tree with offsets inside
their containers the four cases of DOMRangeImpl::compareBoundaryPoints (same container / a child of A's container above B /
a child of B's container above A / the children of the common ancestor compared as siblings) compare the positions `bpKey`. -/
theorem cmpPoints_key {s : Store} (h : WF s) (htl : TextLeaves s) (a oa b ob : Nat)
    (hroot : rootOf s a = rootOf s b) (hoa : oa ≤ lenOf s a) (hob : ob ≤ lenOf s b) :
    cmpPoints s a oa b ob = keyCmp (bpKey s (a, oa)) (bpKey s (b, ob)) := by
  unfold cmpPoints keyCmp
  rw [bpKey_eq, bpKey_eq]
  by_cases hab : a = b
  · subst hab
    rw [if_pos rfl]
    by_cases h1 : oa < ob
    · have := innerPos_strict h a oa ob h1 hob
      rw [if_pos h1, if_pos (by omega)]
    · rw [if_neg h1]
      by_cases h2 : oa = ob
      · subst h2; rw [if_pos rfl, if_neg (by omega), if_pos rfl]
      · have := innerPos_strict h a ob oa (by omega) hoa
        rw [if_neg h2, if_neg (by omega), if_neg (by omega)]
  · rw [if_neg hab]
    cases hf : (kids s a).find? (fun c => isAncOf s c b) with
    | some c =>
      simp only
      obtain ⟨hc, hcb⟩ := find_toward_some h hf
      have hpc := parent_of_kid h hc
      obtain ⟨e1, e2⟩ := child_interval h htl hpc
      have hint := subtree_interval h htl hcb ob hob
      rw [bpKey_eq] at e1 e2 hint
      by_cases hle : oa ≤ indexIn s a c
      · have := innerPos_mono (s := s) a oa (indexIn s a c) hle
        rw [if_pos hle, if_pos (by omega)]
      · have := innerPos_mono (s := s) a (indexIn s a c + 1) oa (by omega)
        rw [if_neg hle, if_neg (by omega), if_neg (by omega)]
    | none =>
      simp only
      have hnab : ¬ AncOrSelf s a b := by
        rcases find_toward_none h hf with e | e
        · exact absurd e hab
        · exact e
      cases hg : (kids s b).find? (fun c => isAncOf s c a) with
      | some c =>
        simp only
        obtain ⟨hc, hca⟩ := find_toward_some h hg
        have hpc := parent_of_kid h hc
        obtain ⟨e1, e2⟩ := child_interval h htl hpc
        have hint := subtree_interval h htl hca oa hoa
        rw [bpKey_eq] at e1 e2 hint
        by_cases hlt : indexIn s b c < ob
        · have := innerPos_mono (s := s) b (indexIn s b c + 1) ob (by omega)
          rw [if_pos hlt, if_pos (by omega)]
        · have := innerPos_mono (s := s) b ob (indexIn s b c) (by omega)
          rw [if_neg hlt, if_neg (by omega), if_neg (by omega)]
      | none =>
        simp only
        have hnba : ¬ AncOrSelf s b a := by
          rcases find_toward_none h hg with e | e
          · exact absurd e.symm hab
          · exact e
        -- case 4: lift both containers to the children of their nearest common ancestor
        have hca := isChain_ancestors h a
        have hcb := isChain_ancestors h b
        generalize hla : a :: ancestors s a = la at hca
        generalize hlb : b :: ancestors s b = lb at hcb
        have hla_pos : 0 < la.length := by rw [← hla]; simp
        have hlb_pos : 0 < lb.length := by rw [← hlb]; simp
        have hlast : la.getLast? = lb.getLast? := by
          rw [← hla, ← hlb, rootOf_eq_last, rootOf_eq_last, hroot]
        have hmema : ∀ x, x ∈ la → AncOrSelf s x a := fun x hx => mem_chain_anc h (hla ▸ hx)
        have hmemb : ∀ x, x ∈ lb → AncOrSelf s x b := fun x hx => mem_chain_anc h (hlb ▸ hx)
        have hlen := equalise_lengths la lb
        have hc1 : IsChain s (equalise la lb).1 := isChain_drop la _ hca (by omega)
        have hc2 : IsChain s (equalise la lb).2 := isChain_drop lb _ hcb (by omega)
        have hl1 : (equalise la lb).1.getLast? = la.getLast? := isChain_getLast la _ hca (by omega)
        have hl2 : (equalise la lb).2.getLast? = lb.getLast? := isChain_getLast lb _ hcb (by omega)
        have hsub1 : ∀ x, x ∈ (equalise la lb).1 → x ∈ la := fun x hx => (List.drop_sublist _ _).subset hx
        have hsub2 : ∀ x, x ∈ (equalise la lb).2 → x ∈ lb := fun x hx => (List.drop_sublist _ _).subset hx
        have hheads : (equalise la lb).1.head? ≠ (equalise la lb).2.head? := by
          intro hh
          by_cases hcmp : la.length ≤ lb.length
          · -- la is kept whole: its head is a
            have e1 : (equalise la lb).1 = la := by
              unfold equalise; simp only; rw [show la.length - lb.length = 0 by omega]; rfl
            have hha : la.head? = some a := by rw [← hla]; rfl
            rw [e1, hha] at hh
            have : a ∈ (equalise la lb).2 := List.mem_of_head? hh.symm
            exact hnab (hmemb a (hsub2 a this))
          · have e2 : (equalise la lb).2 = lb := by
              unfold equalise; simp only; rw [show lb.length - la.length = 0 by omega]; rfl
            have hhb : lb.head? = some b := by rw [← hlb]; rfl
            rw [e2, hhb] at hh
            have : b ∈ (equalise la lb).1 := List.mem_of_head? hh
            exact hnba (hmema b (hsub1 b this))
        obtain ⟨x, y, p, hlift, hx, hy, hne, hpx, hpy⟩ :=
          liftPair_spec (equalise la lb).1 (equalise la lb).2 hc1 hc2 hlen hheads (by rw [hl1, hl2, hlast])
        rw [hlift]
        simp only
        rw [sibsAfter_contains h hpx hpy hne]
        have hxa := subtree_interval h htl (hmema x (hsub1 x hx)) oa hoa
        have hyb := subtree_interval h htl (hmemb y (hsub2 y hy)) ob hob
        rw [bpKey_eq] at hxa hyb
        by_cases hlt : indexIn s p y < indexIn s p x
        · have := sibling_intervals h htl hpy hpx hlt
          simp only [hlt, decide_true, if_true]
          rw [if_neg (by omega), if_neg (by omega)]
        · have hne' : indexIn s p x ≠ indexIn s p y := by
            intro e
            exact hne (idxOf_inj (kids s p) x y (kid_of_parent h hpx) e)
          have := sibling_intervals h htl hpx hpy (by omega)
          simp only [hlt, decide_false, Bool.false_eq_true, if_false]
          rw [if_pos (by omega)]

-- ------------------------------------------------------------------ the linearisation extends the document order

theorem pairwise_idxOf_aux : ∀ (l pre : List NodeId), (pre ++ l).Nodup →
    l.Pairwise (fun a b => (pre ++ l).idxOf a < (pre ++ l).idxOf b)
  | [], _, _ => List.Pairwise.nil
  | a :: t, pre, hnd => by
    have h1 := List.nodup_append.mp hnd
    have ha : a ∉ pre := fun hm => h1.2.2 a hm a (List.mem_cons_self ..) rfl
    have h2 := List.nodup_cons.mp h1.2.1
    refine List.Pairwise.cons ?_ ?_
    · intro b hb
      have hbp : b ∉ pre := fun hm => h1.2.2 b hm b (List.mem_cons_of_mem _ hb) rfl
      have hne : a ≠ b := fun e => h2.1 (e ▸ hb)
      rw [List.idxOf_append, if_neg ha, List.idxOf_append, if_neg hbp, List.idxOf_cons, List.idxOf_cons]
      have e1 : (a == a) = true := by simp
      have e2 : (a == b) = false := by simp [hne]
      rw [e1, e2]
      simp
    · have := pairwise_idxOf_aux t (pre ++ [a]) (by simpa using hnd)
      simpa using this

theorem pairwise_idxOf (l : List NodeId) (hnd : l.Nodup) : l.Pairwise (fun a b => l.idxOf a < l.idxOf b) := by
  have := pairwise_idxOf_aux l [] (by simpa using hnd)
  simpa using this

theorem pairwise_flatMap' {α β : Type} (R : β → β → Prop) (f : α → List β) : ∀ (l : List α),
    (∀ a, a ∈ l → (f a).Pairwise R) → l.Pairwise (fun a b => ∀ x, x ∈ f a → ∀ y, y ∈ f b → R x y) →
    (l.flatMap f).Pairwise R
  | [], _, _ => by simp
  | a :: t, h1, h2 => by
    simp only [List.flatMap_cons]
    rw [List.pairwise_append]
    have hp := List.pairwise_cons.mp h2
    refine ⟨h1 a (List.mem_cons_self ..), pairwise_flatMap' R f t (fun b hb => h1 b (List.mem_cons_of_mem _ hb)) hp.2, ?_⟩
    intro x hx y hy
    obtain ⟨b, hb, hyb⟩ := List.mem_flatMap.mp hy
    exact hp.1 b hb x hx y hyb

theorem enter_in_subtree {s : Store} (h : WF s) (htl : TextLeaves s) {c x : NodeId} (ha : AncOrSelf s c x) :
    enter s c ≤ enter s x ∧ enter s x + 2 ≤ enter s c + weight s c := by
  have h0 := subtree_interval h htl ha 0 (Nat.zero_le _)
  have hb := innerPos_bounds h x 0 (Nat.zero_le _)
  have hw : lenOf s x ≤ lenOf s x := Nat.le_refl _
  have h1 := subtree_interval h htl ha (lenOf s x) hw
  have hb1 := innerPos_bounds h x (lenOf s x) hw
  have hm := innerPos_mono (s := s) x 0 (lenOf s x) (Nat.zero_le _)
  rw [bpKey_eq] at h0 h1
  -- innerPos x 0 = 1
  have hi0 : innerPos s x 0 = 1 := by
    cases ht : textLike s x with
    | true => rw [innerPos_text ht]
    | false => rw [innerPos_elem ht]; simp [prefixW]
  omega

/-- document order is the order in which the nodes are entered in the linearisation -/
theorem docOrder_sorted_by_enter {s : Store} (h : WF s) (htl : TextLeaves s) :
    ∀ r, (docOrder s r).Pairwise (fun x y => enter s x < enter s y) := by
  refine down_induction h (fun r => (docOrder s r).Pairwise (fun x y => enter s x < enter s y)) ?_
  intro n ih
  rw [docOrder_unfold h]
  rw [List.pairwise_cons]
  constructor
  · intro y hy
    obtain ⟨c, hc, hyc⟩ := List.mem_flatMap.mp hy
    have hpc := parent_of_kid h hc
    obtain ⟨e1, _⟩ := child_interval h htl hpc
    have := (enter_in_subtree h htl (mem_docOrder_anc h c y hyc)).1
    have hb := innerPos_bounds h n (indexIn s n c) (by
      have htn : textLike s n = false := by
        cases ht : textLike s n with
        | false => rfl
        | true => rw [htl n ht] at hc; cases hc
      have := indexIn_lt h hpc htn
      omega)
    rw [bpKey_eq] at e1
    omega
  · apply pairwise_flatMap' _ _ _ ih
    have aux : ∀ l : List NodeId, l.Nodup → (∀ c, c ∈ l → c ∈ kids s n) →
        (List.Pairwise (fun a b => indexIn s n a < indexIn s n b) l) →
        l.Pairwise (fun a b => ∀ x, x ∈ docOrder s a → ∀ y, y ∈ docOrder s b → enter s x < enter s y) := by
      intro l
      induction l with
      | nil => intro _ _ _; exact List.Pairwise.nil
      | cons a t iht =>
        intro hnd hall hidx
        rw [List.nodup_cons] at hnd
        have hpi := List.pairwise_cons.mp hidx
        refine List.Pairwise.cons ?_ (iht hnd.2 (fun c hc => hall c (List.mem_cons_of_mem _ hc)) hpi.2)
        intro b hb x hx y hy
        have hpa := parent_of_kid h (hall a (List.mem_cons_self ..))
        have hpb := parent_of_kid h (hall b (List.mem_cons_of_mem _ hb))
        have hs := sibling_intervals h htl hpa hpb (hpi.1 b hb)
        have hx' := (enter_in_subtree h htl (mem_docOrder_anc h a x hx)).2
        have hy' := (enter_in_subtree h htl (mem_docOrder_anc h b y hy)).1
        omega
    apply aux _ (kids_nodup h n) (fun _ hc => hc)
    -- the children are listed by increasing index
    exact pairwise_idxOf (kids s n) (kids_nodup h n)

end XV.Lemmas.ViewsOrder
