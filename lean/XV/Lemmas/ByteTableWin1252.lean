/- kernel-checked facts about the generated Win1252 tables (one module per table so that lake checks them in parallel) -/
import XV.Model.ByteCodec
namespace XV.Lemmas.ByteTableWin1252
open XV.Model.ByteCodec XV.Gen.ByteTables

def WellFormed (t : Table) : Prop :=
    t.declaredToSize = t.toTable.length ∧ t.fromTable.length = 256 ∧ 0 < t.toTable.length ∧
    strictSorted (t.toTable.map (·.1)) = true ∧ t.toTable.getD 0 (1, 1) = (0, 0) ∧
    (∀ b, b < 256 → t.fromTable.getD b 0xFFFF ≠ 0xFFFF)

theorem wellformed : tblWin1252.declaredToSize = tblWin1252.toTable.length ∧ tblWin1252.fromTable.length = 256 ∧ 0 < tblWin1252.toTable.length ∧
    strictSorted (tblWin1252.toTable.map (·.1)) = true ∧ tblWin1252.toTable.getD 0 (1, 1) = (0, 0) ∧
    (∀ b, b < 256 → tblWin1252.fromTable.getD b 0xFFFF ≠ 0xFFFF) := by decide +kernel

theorem roundtrip : ∀ b, b < 256 →
    tblWin1252.fromTable.getD (lookup tblWin1252.toTable (tblWin1252.fromTable.getD b 0xFFFF)) 0xFFFF = tblWin1252.fromTable.getD b 0xFFFF := by
  decide +kernel

theorem to_consistent : ∀ p ∈ tblWin1252.toTable,
    p.2 < 256 ∧ p.1 < 65536 ∧ (p.1 ∈ tblWin1252.fromTable → tblWin1252.fromTable.getD p.2 0xFFFF = p.1) := by decide +kernel

end XV.Lemmas.ByteTableWin1252
