import XV.Gen.SafetyMsgs
import XV.Model.MsgFormat
/-!
Kernel-checked facts about the shipped message tables (regenerated from XercesMessages_en_US.hpp).
Kept in a module of its own: it is re-checked only when the messages change (≈1–2 min of kernel evaluation).
-/
namespace XV.Lemmas.MsgTables
open XV.Gen.SafetyMsgs XV.Model.MsgFormat

/-- every shipped message: shorter than its row — hence loaded untruncated by every call site — and without a
bare brace after a `{k}` token -/
theorem shipped_messages_safe : ∀ t ∈ messageTables, tableSafe t = true := by decide +kernel

theorem tables_dim : ∀ t ∈ messageTables, t.2.1 ≤ 128 := by decide +kernel

/-- there *are* shipped messages with a bare brace (so the shape condition is not vacuous) … -/
theorem shipped_bare_exists : ∃ t ∈ messageTables, ∃ m ∈ t.2.2.2, hasBare m = true := by decide +kernel

end XV.Lemmas.MsgTables
