/-
C08 — what an empty violation list of the executable Spec `assess` (XV.Spec.XsdValid) means for the element it
was applied to, in terms of the declarative Spec pieces (`PLang`, `AttrsValid`).  Core Lean only.
-/
import XV.Spec.XsdValid
import XV.Lemmas.Particle
import XV.Lemmas.ParticleRules
namespace XV.Lemmas.XsdValid
open XV.Spec.Particle XV.Spec.XsdValid

/-- the local facts the Spec establishes for one assessed element -/
def LocallyValid (S : Schema) (d : Decl) (e : Elem) : Prop :=
  S.declAbstract d = false ∧
  (governingType S d.type (S.declBlock d) e.xsiType).2 = [] ∧
  match S.findCT (governingType S d.type (S.declBlock d) e.xsiType).1 with
  | none => e.children = [] ∧ e.attrs = []
  | some ct =>
    AttrsValid ct.uses ct.wildcard S.gattrs e.attrs ∧
    ((S.declNillable d && e.xsiNil == some true) = false →
      match ct.content with
      | .empty => e.text = none ∧ e.children = []
      | .simple => e.children = []
      | .elementOnly p => e.text = none ∧
          PLang (fun x l => S.leafAccepts x l = true) p (e.children.map Elem.name)
      | .mixed p => PLang (fun x l => S.leafAccepts x l = true) p (e.children.map Elem.name))

theorem isEmpty_false_of {α : Type} {l : List α} (h : (if (!l.isEmpty) = true then ["x"] else []) = ([] : List String)) : l = [] := by
  cases l with
  | nil => rfl
  | cons a l => simp at h

theorem assess_sound (S : Schema) (fuel : Nat) (d : Decl) (e : Elem) (infos : List Info)
    (h : assess S (fuel + 1) d e = ([], infos)) : LocallyValid S d e := by
  unfold assess at h
  unfold LocallyValid
  dsimp only at h
  generalize hgt : governingType S d.type (S.declBlock d) e.xsiType = gtv at h ⊢
  cases hct : S.findCT gtv.1 with
  | none =>
    simp only [hct] at h ⊢
    have h1 := congrArg Prod.fst h
    simp only [List.append_eq_nil_iff] at h1
    obtain ⟨⟨⟨⟨⟨a1, _⟩, a3⟩, a4⟩, a5⟩, _⟩ := h1
    refine ⟨?_, a3, ?_, ?_⟩
    · cases hab : S.declAbstract d with
      | false => rfl
      | true => simp [hab] at a1
    · cases hc : e.children with
      | nil => rfl
      | cons c cs => simp [hc] at a4
    · cases ha : e.attrs with
      | nil => rfl
      | cons c cs => simp [ha] at a5
  | some ct =>
    simp only [hct] at h ⊢
    have h1 := congrArg Prod.fst h
    simp only [List.append_eq_nil_iff] at h1
    obtain ⟨⟨⟨⟨⟨a1, _⟩, a3⟩, a4⟩, a5⟩, _⟩ := h1
    refine ⟨?_, a3, (XV.Lemmas.ParticleRules.attrViolations_nil_iff _ _ _ _).1 a4, ?_⟩
    · cases hab : S.declAbstract d with
      | false => rfl
      | true => simp [hab] at a1
    · intro hn
      rw [hn] at a5
      simp only [Bool.false_eq_true, if_false] at a5
      cases hcont : ct.content with
      | empty =>
        simp only [hcont] at a5 ⊢
        by_cases hc : (e.text.isSome || !e.children.isEmpty) = true
        · simp [hc] at a5
        · simp only [Bool.or_eq_true, not_or, Bool.not_eq_true, Bool.not_eq_false'] at hc
          refine ⟨?_, ?_⟩
          · cases ht : e.text with
            | none => rfl
            | some t => simp [ht] at hc
          · cases hk : e.children with
            | nil => rfl
            | cons c cs => simp [hk] at hc
      | simple =>
        simp only [hcont, List.append_eq_nil_iff] at a5 ⊢
        cases hk : e.children with
        | nil => rfl
        | cons c cs => simp [hk] at a5
      | elementOnly p =>
        simp only [hcont, List.append_eq_nil_iff] at a5 ⊢
        obtain ⟨b1, b2⟩ := a5
        refine ⟨?_, ?_⟩
        · cases ht : e.text with
          | none => rfl
          | some t => simp [ht] at b1
        · by_cases hm : pMatch (fun x l => S.leafAccepts x l) p (e.children.map Elem.name) = true
          · exact (XV.Lemmas.Particle.pMatch_iff' _ _ _).1 hm
          · simp [hm] at b2
      | mixed p =>
        simp only [hcont, List.append_eq_nil_iff] at a5 ⊢
        obtain ⟨b2, _⟩ := a5
        by_cases hm : pMatch (fun x l => S.leafAccepts x l) p (e.children.map Elem.name) = true
        · exact (XV.Lemmas.Particle.pMatch_iff' _ _ _).1 hm
        · simp [hm] at b2

end XV.Lemmas.XsdValid
