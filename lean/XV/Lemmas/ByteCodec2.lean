import XV.Lemmas.ByteCodec
import XV.Spec.Utf8
namespace XV.Lemmas.ByteCodec
open XV.Model.ByteCodec XV.Spec.Utf8

theorem unit16_bytes16 (be : Bool) (u : Nat) (h : u < 65536) :
    units16 be (bytes16 be u ++ rest) = u :: units16 be rest := by
  cases be <;> simp [bytes16, units16, unit16] <;> omega

theorem units16_flatMap (be : Bool) : ∀ us : List Nat, (∀ u ∈ us, u < 65536) →
    units16 be (us.flatMap (bytes16 be)) = us := by
  intro us
  induction us with
  | nil => intro _; simp [units16]
  | cons u t ih =>
    intro h
    simp only [List.flatMap_cons]
    rw [unit16_bytes16 be u (h u (by simp)), ih (fun x hx => h x (by simp [hx]))]

theorem bytes16_length (be : Bool) (u : Nat) : (bytes16 be u).length = 2 := by cases be <;> simp [bytes16]

theorem flatMap_bytes16_length (be : Bool) : ∀ us : List Nat, (us.flatMap (bytes16 be)).length = 2 * us.length := by
  intro us; induction us with
  | nil => rfl
  | cons u t ih => simp [List.flatMap_cons, bytes16_length, ih]; omega

/-- UTF-16 LE/BE: decoding the encoding of any unit string gives it back, completely -/
theorem utf16_roundtrip (be : Bool) (us : List Nat) (h : ∀ u ∈ us, u < 65536) (m mb : Nat)
    (hm : us.length ≤ m) (hmb : 2 * us.length ≤ mb) :
    utf16To be us mb = .ok (us.flatMap (bytes16 be)) [] us.length ∧
    utf16From be (us.flatMap (bytes16 be)) m = .ok us (List.replicate us.length 2) (2 * us.length) := by
  constructor
  · unfold utf16To
    have : min us.length (mb / 2) = us.length := by omega
    simp [this]
  · unfold utf16From
    rw [flatMap_bytes16_length, units16_flatMap be us h]
    have e1 : 2 * us.length / 2 = us.length := by omega
    have e2 : min us.length m = us.length := by omega
    simp [e1, e2]

theorem val32_bytes32 (be : Bool) (v : Nat) (h : v < 4294967296) :
    vals32 be (bytes32 be v ++ rest) = v :: vals32 be rest := by
  cases be <;> simp [bytes32, vals32, val32] <;> omega

theorem vals32_flatMap (be : Bool) : ∀ vs : List Nat, (∀ v ∈ vs, v < 4294967296) →
    vals32 be (vs.flatMap (bytes32 be)) = vs := by
  intro vs
  induction vs with
  | nil => intro _; simp [vals32]
  | cons v t ih =>
    intro h
    simp only [List.flatMap_cons]
    rw [val32_bytes32 be v (h v (by simp)), ih (fun x hx => h x (by simp [hx]))]

theorem ucs4FromLoop_scalars : ∀ (ss : List Nat) (room : Nat) (out sizes : List Nat) (eaten : Nat),
    Scalars ss → (utf16All ss).length ≤ room →
    ∃ sz, ucs4FromLoop ss room out sizes eaten = .ok (out ++ utf16All ss) sz (eaten + 4 * ss.length) := by
  intro ss
  induction ss with
  | nil => intro room out sizes eaten _ _; exact ⟨sizes, by simp [ucs4FromLoop, utf16All]⟩
  | cons s t ih =>
    intro room out sizes eaten hs hr
    have hs0 : isScalar s := hs s (by simp)
    have hst : Scalars t := fun x hx => hs x (by simp [hx])
    have uA : utf16All (s :: t) = utf16 s ++ utf16All t := by simp [utf16All]
    rw [uA] at hr ⊢
    unfold isScalar at hs0
    simp only [List.length_append] at hr
    unfold ucs4FromLoop
    by_cases hb : s < 65536
    · have hu : utf16 s = [s] := by unfold utf16; simp [hb]
      rw [hu] at hr ⊢
      simp only [List.length_singleton] at hr
      have h1 : ¬ room = 0 := by omega
      have h2 : ¬ s ≥ 65536 := by omega
      simp only [h1, h2, if_false]
      obtain ⟨sz, hsz⟩ := ih (room - 1) (out ++ [s]) (sizes ++ [4]) (eaten + 4) hst (by omega)
      exact ⟨sz, by rw [hsz]; simp; omega⟩
    · have hu : utf16 s = [0xD800 + (s - 0x10000) / 1024, 0xDC00 + (s - 0x10000) % 1024] := by
        unfold utf16; simp [hb]
      rw [hu] at hr ⊢
      simp only [List.length_cons, List.length_nil] at hr
      have h1 : ¬ room = 0 := by omega
      have h2 : s ≥ 65536 := by omega
      have h3 : ¬ s > 0x10FFFF := by omega
      have h4 : ¬ room = 1 := by omega
      simp only [h1, h2, h3, h4, if_false, if_true]
      have e1 : (0xD800 - 64 + s / 1024) % 65536 = 0xD800 + (s - 0x10000) / 1024 := by omega
      have e2 : (0xDC00 + s % 1024) % 65536 = 0xDC00 + (s - 0x10000) % 1024 := by omega
      rw [e1, e2]
      obtain ⟨sz, hsz⟩ := ih (room - 2) (out ++ [0xD800 + (s - 0x10000) / 1024, 0xDC00 + (s - 0x10000) % 1024])
        (sizes ++ [4, 0]) (eaten + 4) hst (by omega)
      exact ⟨sz, by rw [hsz]; simp; omega⟩

/-- UCS-4 LE/BE decodes the 4-byte form of every scalar string exactly -/
theorem ucs4_decode_exact (be : Bool) (ss : List Nat) (hs : Scalars ss) (m : Nat) (hm : (utf16All ss).length ≤ m) :
    ∃ sz, ucs4From be (ss.flatMap (bytes32 be)) m = .ok (utf16All ss) sz (4 * ss.length) := by
  unfold ucs4From
  rw [vals32_flatMap be ss (fun v hv => by have := hs v hv; unfold isScalar at this; omega)]
  obtain ⟨sz, h⟩ := ucs4FromLoop_scalars ss m [] [] 0 hs hm
  exact ⟨sz, by simpa using h⟩

/-- a UCS-4 value above U+10FFFF is rejected, never decoded -/
theorem ucs4_rejects_out_of_range (v : Nat) (hv : 0x10FFFF < v) (rest : List Nat) (room : Nat) (hr : room ≠ 0)
    (out sizes : List Nat) (eaten : Nat) :
    ucs4FromLoop (v :: rest) room out sizes eaten = .exc "Trans_BadSrcSeq" := by
  unfold ucs4FromLoop
  have h2 : v ≥ 65536 := by omega
  simp [hr, h2, hv]

theorem ucs4ToLoop_scalars (be : Bool) : ∀ (ss : List Nat) (fuel slots : Nat) (out : List Nat) (eaten : Nat),
    Scalars ss → (utf16All ss).length ≤ fuel → ss.length ≤ slots →
    ucs4ToLoop be fuel (utf16All ss) slots out eaten
      = .ok (out ++ ss.flatMap (bytes32 be)) [] (eaten + (utf16All ss).length) := by
  intro ss
  induction ss with
  | nil =>
    intro fuel slots out eaten _ _ _
    cases fuel <;> simp [ucs4ToLoop, utf16All]
  | cons s t ih =>
    intro fuel slots out eaten hs hf hsl
    have hs0 : isScalar s := hs s (by simp)
    have hst : Scalars t := fun x hx => hs x (by simp [hx])
    have uA : utf16All (s :: t) = utf16 s ++ utf16All t := by simp [utf16All]
    rw [uA] at hf ⊢
    unfold isScalar at hs0
    simp only [List.length_append, List.length_cons] at hf hsl
    by_cases hb : s < 65536
    · have hu : utf16 s = [s] := by unfold utf16; simp [hb]
      rw [hu] at hf ⊢
      simp only [List.length_singleton] at hf
      obtain ⟨f, rfl⟩ : ∃ f, fuel = f + 1 := ⟨fuel - 1, by omega⟩
      show ucs4ToLoop be (f + 1) (s :: utf16All t) slots out eaten = _
      unfold ucs4ToLoop
      have h1 : ¬ slots = 0 := by omega
      have h2 : ¬ (0xD800 ≤ s ∧ s ≤ 0xDBFF) := by omega
      simp only [h1, h2, if_false]
      rw [ih f (slots - 1) _ _ hst (by omega) (by omega)]
      simp; omega
    · obtain ⟨hi, hhi⟩ : ∃ hi, hi = 0xD800 + (s - 0x10000) / 1024 := ⟨_, rfl⟩
      obtain ⟨lo, hlo⟩ : ∃ lo, lo = 0xDC00 + (s - 0x10000) % 1024 := ⟨_, rfl⟩
      have hu : utf16 s = [hi, lo] := by unfold utf16; simp [hb, hhi, hlo]
      rw [hu] at hf ⊢
      simp only [List.length_cons, List.length_nil] at hf
      obtain ⟨f, rfl⟩ : ∃ f, fuel = f + 1 := ⟨fuel - 1, by omega⟩
      show ucs4ToLoop be (f + 1) (hi :: lo :: utf16All t) slots out eaten = _
      unfold ucs4ToLoop
      have h1 : ¬ slots = 0 := by omega
      have h2 : (0xD800 ≤ hi ∧ hi ≤ 0xDBFF) := by omega
      have h3 : (0xDC00 ≤ lo ∧ lo ≤ 0xDFFF) := by omega
      have h4 : (hi - 0xD800) * 1024 + (lo - 0xDC00) + 0x10000 = s := by omega
      simp only [h1, h2, h3, if_false, if_true, not_true_eq_false, h4, and_self]
      rw [ih f (slots - 1) _ _ hst (by omega) (by omega)]
      simp; omega

/-- UCS-4 LE/BE encodes every scalar string as its 4-byte values in the stated byte order (supplementary
characters included — false of the unrepaired code for the non-host order) -/
theorem ucs4_encode_exact (be : Bool) (ss : List Nat) (hs : Scalars ss) (mb : Nat) (hmb : 4 * ss.length ≤ mb) :
    ucs4To be (utf16All ss) mb = .ok (ss.flatMap (bytes32 be)) [] (utf16All ss).length := by
  unfold ucs4To
  have := ucs4ToLoop_scalars be ss (utf16All ss).length (mb / 4) [] 0 hs (Nat.le_refl _) (by omega)
  simpa using this

theorem latin1_roundtrip (cs : List Nat) (h : ∀ c ∈ cs, c < 256) (m : Nat) (hm : cs.length ≤ m) (thr : Bool) :
    latin1To cs m thr = .ok cs [] cs.length ∧ latin1From cs m = .ok cs (List.replicate cs.length 1) cs.length := by
  have hmin : min cs.length m = cs.length := by omega
  constructor
  · unfold latin1To narrowTo
    simp only [hmin, List.take_length]
    have : ∀ (l acc : List Nat), (∀ c ∈ l, c < 256) → narrowTo.go 256 thr cs.length l acc = .ok (acc ++ l) [] cs.length := by
      intro l
      induction l with
      | nil => intro acc _; simp [narrowTo.go]
      | cons c t ih =>
        intro acc hl
        have hc : c < 256 := hl c (by simp)
        simp only [narrowTo.go, hc, if_true]
        rw [ih _ (fun x hx => hl x (by simp [hx]))]; simp
    simpa using this cs [] h
  · unfold latin1From; simp [hmin]

end XV.Lemmas.ByteCodec
