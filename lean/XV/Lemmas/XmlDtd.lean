/- Round trip of `<!DOCTYPE …>` for the fragment of internal subsets that declare internal general entities only
   (plus comments, PIs and white space): the part of the DTD that well-formedness constraints talk about. -/
import XV.Lemmas.XmlDecl
namespace XV.Lemmas.Xml
open XV.Spec.Xml XV.Spec.XmlChar

/-- declarations of the proved fragment -/
def entOnlyDecl : Decl → Bool
  | .ws _ => true
  | .comment _ => true
  | .pi _ _ _ => true
  | .entity _ _ _ (.internal _ _) _ => true
  | _ => false

def entOnly (d : Doctype) : Bool :=
  match d.subset with
  | none => true
  | some (ds, _) => ds.all entOnlyDecl

def nonemptyS (s : Str) : Bool := allS s && !s.isEmpty

/-- structural lexical validity of a declaration of the fragment -/
def lexDeclE : Decl → Bool
  | .ws c => isSC c
  | .comment s => noEarly ['-', '-'] s
  | .pi t sp d => lexPI t sp d
  | .entity s1 n s2 (.internal q val) s3 =>
    nonemptyS s1 && isName n && nonemptyS s2 && val.all (lexPiece q) && !val.contains (.ch '%') && allS s3
  | _ => false

def lexDoctypeE (d : Doctype) : Bool :=
  nonemptyS d.s1 && isName d.name && allS d.s2 &&
  (match d.subset with
   | none => true
   | some (ds, s3) => ds.all lexDeclE && allS s3)

/-- the text after `<!DOCTYPE` -/
def doctypeBody (d : Doctype) : Str :=
  d.s1 ++ d.name ++ d.s2 ++
    (match d.subset with
     | none => []
     | some (ds, s3) => '[' :: renderDecls ds ++ ']' :: s3) ++ ['>']

theorem renderDoctype_eq (d : Doctype) : renderDoctype d = ['<', '!', 'D', 'O', 'C', 'T', 'Y', 'P', 'E'] ++ doctypeBody d := by
  obtain ⟨s1, n, s2, sub⟩ := d
  cases sub with
  | none => simp [renderDoctype, doctypeBody, List.append_assoc]
  | some p => obtain ⟨ds, s3⟩ := p; simp [renderDoctype, doctypeBody, List.append_assoc]

theorem nonemptyS_iff (s : Str) : nonemptyS s = true ↔ (∀ c ∈ s, isSC c = true) ∧ s ≠ [] := by
  simp [nonemptyS, allS, List.all_eq_true]

theorem reqS_render (s rest : Str) (h : nonemptyS s = true) (hr : HeadNot isSC rest) : reqS (s ++ rest) = some (s, rest) := by
  rw [nonemptyS_iff] at h
  have := spanP_append isSC s rest h.1 hr
  simp [reqS, this, h.2]

theorem reqS_sound (s w r : Str) (h : reqS s = some (w, r)) : s = w ++ r ∧ nonemptyS w = true ∧ HeadNot isSC r := by
  simp only [reqS] at h
  by_cases he : (spanP isSC s).1 = []
  · rw [if_pos he] at h; cases h
  · rw [if_neg he] at h
    simp only [Option.some.injEq, Prod.mk.injEq] at h
    obtain ⟨rfl, rfl⟩ := h
    have := spanP_sound isSC s
    exact ⟨this.1, (nonemptyS_iff _).mpr ⟨this.2.1, he⟩, this.2.2⟩

theorem declEndGt_render (w rest : Str) (h : allS w = true) : declEndGt (w ++ '>' :: rest) = some (w, rest) := by
  rw [allS_iff] at h
  have := spanP_append isSC w ('>' :: rest) h (by show isSC '>' = false; decide)
  simp [declEndGt, this]

theorem declEndGt_sound (s w r : Str) (h : declEndGt s = some (w, r)) : s = w ++ '>' :: r ∧ allS w = true := by
  simp only [declEndGt] at h
  have sp := spanP_sound isSC s
  cases h2 : (spanP isSC s).2 with
  | nil => simp [h2] at h
  | cons c t =>
    simp only [h2] at h
    split at h
    · rename_i r' heq
      simp only [List.cons.injEq] at heq
      simp only [Option.some.injEq, Prod.mk.injEq] at h
      obtain ⟨rfl, rfl⟩ := h
      refine ⟨?_, by rw [allS_iff]; exact sp.2.1⟩
      have := sp.1; rw [h2, heq.1, heq.2] at this; exact this
    · cases h

end XV.Lemmas.Xml

namespace XV.Lemmas.Xml
open XV.Spec.Xml XV.Spec.XmlChar

theorem quote_headNotS (q : Quote) (t : Str) : HeadNot isSC (q.char :: t) := quote_notS q
theorem quote_notNameChar (q : Quote) : isNameCharC q.char = false := by cases q <;> decide

theorem parseEntityDecl_render (s1 n s2 : Str) (q : Quote) (val : List AttPiece) (s3 rest : Str)
    (h : lexDeclE (.entity s1 n s2 (.internal q val) s3) = true) :
    parseEntityDecl (s1 ++ n ++ s2 ++ renderQuoted q (renderPieces val) ++ s3 ++ ['>'] ++ rest) =
      .ok (.entity s1 n s2 (.internal q val) s3, rest) := by
  simp only [lexDeclE, Bool.and_eq_true, Bool.not_eq_true', List.all_eq_true] at h
  obtain ⟨⟨⟨⟨⟨h1, hn⟩, h2⟩, hv⟩, hp⟩, h3⟩ := h
  obtain ⟨c, t, hc, _⟩ := name_head_notDelim hn
  have hcS : isSC c = false := by
    have := isName_head (by rw [← hc]; exact hn : isName (c :: t) = true)
    exact nameChar_notS c (nameStart_nameChar c this)
  have e0 : s1 ++ n ++ s2 ++ renderQuoted q (renderPieces val) ++ s3 ++ ['>'] ++ rest =
      s1 ++ (n ++ (s2 ++ (q.char :: (renderPieces val ++ q.char :: (s3 ++ '>' :: rest))))) := by
    simp [renderQuoted, List.append_assoc]
  have r1 := reqS_render s1 (n ++ (s2 ++ (q.char :: (renderPieces val ++ q.char :: (s3 ++ '>' :: rest))))) h1
    (by rw [hc]; exact hcS)
  have hs2 := (nonemptyS_iff s2).mp h2
  have r2 := parseName_render n (s2 ++ (q.char :: (renderPieces val ++ q.char :: (s3 ++ '>' :: rest)))) hn
    (headNot_append (fun x hx => S_notNameChar x (hs2.1 x hx)) (quote_notNameChar q))
  have r3 := reqS_render s2 (q.char :: (renderPieces val ++ q.char :: (s3 ++ '>' :: rest))) h2 (quote_notS q)
  have r4 := parseQuote_render q (renderPieces val ++ q.char :: (s3 ++ '>' :: rest))
  have r5 := parsePieces_render q val (renderPieces val ++ q.char :: (s3 ++ '>' :: rest)).length (s3 ++ '>' :: rest) hv
    (by have := renderPieces_length val; simp only [List.length_append, List.length_cons]; omega)
  have r6 := declEndGt_render s3 rest h3
  rw [e0]
  simp only [parseEntityDecl, r1, r2, r3, r4, r5, hp, Bool.false_eq_true, if_false, r6]

theorem parseEntityDecl_internal_sound (s : Str) (s1 n s2 : Str) (q : Quote) (val : List AttPiece) (s3 r : Str)
    (h : parseEntityDecl s = .ok (.entity s1 n s2 (.internal q val) s3, r)) :
    s = s1 ++ n ++ s2 ++ renderQuoted q (renderPieces val) ++ s3 ++ ['>'] ++ r ∧
      lexDeclE (.entity s1 n s2 (.internal q val) s3) = true := by
  simp only [parseEntityDecl] at h
  cases a1 : reqS s with
  | none => simp [a1, fatal] at h
  | some p1 =>
    obtain ⟨w1, r1⟩ := p1
    simp only [a1] at h
    cases a2 : parseName r1 with
    | none => simp only [a2] at h; split at h <;> cases h
    | some p2 =>
      obtain ⟨n', r2⟩ := p2
      simp only [a2] at h
      cases a3 : reqS r2 with
      | none => simp [a3, fatal] at h
      | some p3 =>
        obtain ⟨w2, r3⟩ := p3
        simp only [a3] at h
        cases a4 : parseQuote r3 with
        | some p4 =>
          obtain ⟨q', r4⟩ := p4
          simp only [a4] at h
          cases a5 : parsePieces q' r4.length r4 with
          | error e => simp [a5] at h
          | ok p5 =>
            obtain ⟨ps, r5⟩ := p5
            simp only [a5] at h
            split at h
            · simp [unsupported] at h
            · rename_i hp
              cases a6 : declEndGt r5 with
              | none => simp [a6, fatal] at h
              | some p6 =>
                obtain ⟨w3, r6⟩ := p6
                simp only [a6, Except.ok.injEq, Prod.mk.injEq, Decl.entity.injEq, EntityDef.internal.injEq] at h
                obtain ⟨⟨rfl, rfl, rfl, ⟨rfl, rfl⟩, rfl⟩, rfl⟩ := h
                have b1 := reqS_sound _ _ _ a1
                have b2 := parseName_sound _ _ _ a2
                have b3 := reqS_sound _ _ _ a3
                have b4 := parseQuote_sound _ _ _ a4
                have b5 := parsePieces_sound _ _ _ _ _ a5
                have b6 := declEndGt_sound _ _ _ a6
                refine ⟨?_, ?_⟩
                · rw [b1.1, b2.1, b3.1, b4, b5.1, b6.1]; simp [renderQuoted, List.append_assoc]
                · simp only [lexDeclE, Bool.and_eq_true, Bool.not_eq_true', List.all_eq_true]
                  refine ⟨⟨⟨⟨⟨b1.2.1, b2.2.1⟩, b3.2.1⟩, b5.2⟩, ?_⟩, b6.2⟩
                  cases hh : ps.contains (.ch '%') with
                  | false => rfl
                  | true => exact absurd hh hp
        | none =>
          simp only [a4] at h
          -- the external branches never produce an internal definition
          exfalso
          revert h
          cases parseExternalID false r3 with
          | error e => intro h; cases h
          | ok res =>
            obtain ⟨oid, raw, r4⟩ := res
            cases oid with
            | none => intro h; simp [fatal] at h
            | some id =>
              simp only
              intro h
              repeat' (first | (split at h) | (cases h; done))

theorem parseEntityDecl_shape (s : Str) (d : Decl) (r : Str) (h : parseEntityDecl s = .ok (d, r)) :
    ∃ a b c e f, d = .entity a b c e f := by
  unfold parseEntityDecl at h
  repeat' (first
    | (split at h)
    | (cases h; done)
    | (simp only [Except.ok.injEq, Prod.mk.injEq] at h; exact ⟨_, _, _, _, _, h.1.symm⟩))

end XV.Lemmas.Xml

namespace XV.Lemmas.Xml
open XV.Spec.Xml XV.Spec.XmlChar

theorem parseElementDecl_shape (s : Str) (d : Decl) (r : Str) (h : parseElementDecl s = .ok (d, r)) :
    entOnlyDecl d = false := by
  unfold parseElementDecl at h
  repeat' (first
    | (split at h)
    | (cases h; done)
    | (simp only [Except.ok.injEq, Prod.mk.injEq] at h; rw [← h.1]; rfl))

theorem parseAttlistDecl_shape (s : Str) (d : Decl) (r : Str) (h : parseAttlistDecl s = .ok (d, r)) :
    entOnlyDecl d = false := by
  unfold parseAttlistDecl at h
  repeat' (first
    | (split at h)
    | (cases h; done)
    | (simp only [Except.ok.injEq, Prod.mk.injEq] at h; rw [← h.1]; rfl))

theorem parseNotationDecl_shape (s : Str) (d : Decl) (r : Str) (h : parseNotationDecl s = .ok (d, r)) :
    entOnlyDecl d = false := by
  unfold parseNotationDecl at h
  repeat' (first
    | (split at h)
    | (cases h; done)
    | (simp only [Except.ok.injEq, Prod.mk.injEq] at h; rw [← h.1]; rfl))

/-- the text of one declaration never starts with ']' and is not empty -/
theorem renderDecl_head (d : Decl) (h : lexDeclE d = true) : ∃ c t, renderDecl d = c :: t ∧ c ≠ ']' := by
  cases d with
  | ws c => exact ⟨c, [], rfl, by intro e; subst e; simp [lexDeclE] at h; revert h; decide⟩
  | comment s => exact ⟨'<', _, rfl, by decide⟩
  | pi t sp dd => exact ⟨'<', _, rfl, by decide⟩
  | element a b c e f => simp [lexDeclE] at h
  | attlist a b c e => simp [lexDeclE] at h
  | entity a b c e f => exact ⟨'<', _, rfl, by decide⟩
  | notation_ a b c e f => simp [lexDeclE] at h

theorem parseDecl_render (d : Decl) (rest : Str) (h : lexDeclE d = true) :
    parseDecl (renderDecl d ++ rest) = .ok (d, rest) := by
  cases d with
  | ws c =>
    simp only [lexDeclE] at h
    simp only [renderDecl, List.cons_append, List.nil_append, parseDecl, h, if_true]
  | comment s =>
    simp only [lexDeclE] at h
    have p := parseComment_render s rest h
    have e : renderDecl (.comment s) ++ rest = '<' :: '!' :: '-' :: '-' :: (s ++ ['-', '-', '>'] ++ rest) := by
      simp [renderDecl, List.append_assoc]
    rw [e]
    have n1 : isSC '<' = false := by decide
    have n2 : ('<' : Char) ≠ '%' := by decide
    simp only [parseDecl, n1, Bool.false_eq_true, if_false, if_neg n2, if_true, stripPrefix, p]
  | pi t sp dd =>
    simp only [lexDeclE] at h
    have p := parsePI_render t sp dd rest h
    have e : renderDecl (.pi t sp dd) ++ rest = '<' :: '?' :: (t ++ sp ++ dd ++ ['?', '>'] ++ rest) := by
      simp [renderDecl, List.append_assoc]
    rw [e]
    have n1 : isSC '<' = false := by decide
    have n2 : ('<' : Char) ≠ '%' := by decide
    simp only [parseDecl, n1, Bool.false_eq_true, if_false, if_neg n2, if_true, p]
  | element a b c e f => simp [lexDeclE] at h
  | attlist a b c e => simp [lexDeclE] at h
  | notation_ a b c e f => simp [lexDeclE] at h
  | entity s1 n s2 df s3 =>
    cases df with
    | external_ id nd => simp [lexDeclE] at h
    | internal q val =>
      have p := parseEntityDecl_render s1 n s2 q val s3 rest h
      have e : renderDecl (.entity s1 n s2 (.internal q val) s3) ++ rest =
          '<' :: '!' :: (['E', 'N', 'T', 'I', 'T', 'Y'] ++ (s1 ++ n ++ s2 ++ renderQuoted q (renderPieces val) ++ s3 ++ ['>'] ++ rest)) := by
        simp [renderDecl, renderEntityDef, List.append_assoc]
      rw [e]
      have n1 : isSC '<' = false := by decide
      have n2 : ('<' : Char) ≠ '%' := by decide
      simp only [parseDecl, n1, Bool.false_eq_true, if_false, if_neg n2, if_true]
      have q1 : stripPrefix ['-', '-'] (['E', 'N', 'T', 'I', 'T', 'Y'] ++ (s1 ++ n ++ s2 ++ renderQuoted q (renderPieces val) ++ s3 ++ ['>'] ++ rest)) = none := by
        simp [stripPrefix]
      have q2 : stripPrefix ['E','L','E','M','E','N','T'] (['E', 'N', 'T', 'I', 'T', 'Y'] ++ (s1 ++ n ++ s2 ++ renderQuoted q (renderPieces val) ++ s3 ++ ['>'] ++ rest)) = none := by
        simp [stripPrefix]
      have q3 : stripPrefix ['A','T','T','L','I','S','T'] (['E', 'N', 'T', 'I', 'T', 'Y'] ++ (s1 ++ n ++ s2 ++ renderQuoted q (renderPieces val) ++ s3 ++ ['>'] ++ rest)) = none := by
        simp [stripPrefix]
      simp only [q1, q2, q3, stripPrefix_append, p]

theorem parseDecl_sound (s : Str) (d : Decl) (r : Str) (h : parseDecl s = .ok (d, r)) (he : entOnlyDecl d = true) :
    s = renderDecl d ++ r ∧ lexDeclE d = true := by
  cases s with
  | nil => simp [parseDecl] at h
  | cons c t =>
    simp only [parseDecl] at h
    by_cases c1 : isSC c = true
    · simp only [c1, if_true, Except.ok.injEq, Prod.mk.injEq] at h
      obtain ⟨rfl, rfl⟩ := h
      exact ⟨rfl, c1⟩
    · simp only [c1, Bool.false_eq_true, if_false] at h
      by_cases c2 : c = '%'
      · rw [if_pos c2] at h; cases h
      · rw [if_neg c2] at h
        by_cases c3 : c = '<'
        · rw [if_pos c3] at h
          subst c3
          split at h
          · -- PI
            rename_i t' 
            cases b1 : parsePI t' with
            | error e => simp [b1] at h
            | ok pr =>
              obtain ⟨⟨n, sp, dt⟩, r1⟩ := pr
              simp only [b1, Except.ok.injEq, Prod.mk.injEq] at h
              obtain ⟨rfl, rfl⟩ := h
              have s1 := parsePI_sound _ _ _ _ _ b1
              refine ⟨?_, s1.2⟩
              rw [s1.1]; simp [renderDecl, List.append_assoc]
          · rename_i t'
            cases b1 : stripPrefix ['-', '-'] t' with
            | some r1 =>
              simp only [b1] at h
              cases b2 : parseComment r1 with
              | error e => simp [b2] at h
              | ok br =>
                obtain ⟨b, r2⟩ := br
                simp only [b2, Except.ok.injEq, Prod.mk.injEq] at h
                obtain ⟨rfl, rfl⟩ := h
                have s1 := stripPrefix_sound _ _ _ b1
                have s2 := parseComment_sound _ _ _ b2
                refine ⟨?_, s2.2⟩
                rw [s1, s2.1]; simp [renderDecl, List.append_assoc]
            | none =>
              simp only [b1] at h
              cases b2 : stripPrefix ['E','L','E','M','E','N','T'] t' with
              | some r1 =>
                simp only [b2] at h
                have := parseElementDecl_shape _ _ _ h
                rw [this] at he; cases he
              | none =>
                simp only [b2] at h
                cases b3 : stripPrefix ['A','T','T','L','I','S','T'] t' with
                | some r1 =>
                  simp only [b3] at h
                  have := parseAttlistDecl_shape _ _ _ h
                  rw [this] at he; cases he
                | none =>
                  simp only [b3] at h
                  cases b4 : stripPrefix ['E','N','T','I','T','Y'] t' with
                  | some r1 =>
                    simp only [b4] at h
                    obtain ⟨a, b, c, e, f, rfl⟩ := parseEntityDecl_shape _ _ _ h
                    cases e with
                    | external_ id nd => simp [entOnlyDecl] at he
                    | internal q val =>
                      have s1 := stripPrefix_sound _ _ _ b4
                      have s2 := parseEntityDecl_internal_sound _ _ _ _ _ _ _ _ h
                      refine ⟨?_, s2.2⟩
                      rw [s1, s2.1]; simp [renderDecl, renderEntityDef, List.append_assoc]
                  | none =>
                    simp only [b4] at h
                    cases b5 : stripPrefix ['N','O','T','A','T','I','O','N'] t' with
                    | some r1 =>
                      simp only [b5] at h
                      have := parseNotationDecl_shape _ _ _ h
                      rw [this] at he; cases he
                    | none => simp [b5] at h
          · cases h
        · rw [if_neg c3] at h; cases h

end XV.Lemmas.Xml

namespace XV.Lemmas.Xml
open XV.Spec.Xml XV.Spec.XmlChar

theorem renderDecls_length (ds : List Decl) (h : ∀ d ∈ ds, lexDeclE d = true) : ds.length ≤ (renderDecls ds).length := by
  induction ds with
  | nil => simp [renderDecls]
  | cons d ds ih =>
    obtain ⟨c, t, hc, _⟩ := renderDecl_head d (h d (List.mem_cons_self ..))
    have := ih (fun x hx => h x (List.mem_cons_of_mem _ hx))
    simp only [renderDecls, List.length_cons, List.length_append, hc]; omega

theorem parseDecls_render : ∀ (ds : List Decl) (fuel : Nat) (rest : Str), (∀ d ∈ ds, lexDeclE d = true) → ds.length < fuel →
    parseDecls fuel (renderDecls ds ++ ']' :: rest) = .ok (ds, rest)
  | [], fuel, rest, _, hf => by
    cases fuel with
    | zero => simp at hf
    | succ f => simp [renderDecls, parseDecls]
  | d :: ds, fuel, rest, hl, hf => by
    cases fuel with
    | zero => simp at hf
    | succ f =>
      have ih := parseDecls_render ds f rest (fun x hx => hl x (List.mem_cons_of_mem _ hx)) (by simpa using hf)
      have hd := hl d (List.mem_cons_self ..)
      obtain ⟨c, t, hc, hne⟩ := renderDecl_head d hd
      have p := parseDecl_render d (renderDecls ds ++ ']' :: rest) hd
      simp only [renderDecls, List.append_assoc]
      rw [hc] at p ⊢
      simp only [List.cons_append] at p ⊢
      simp only [parseDecls, if_neg hne, p, ih]

theorem parseDecls_sound : ∀ (fuel : Nat) (s : Str) (ds : List Decl) (r : Str), parseDecls fuel s = .ok (ds, r) →
    (ds.all entOnlyDecl) = true → s = renderDecls ds ++ ']' :: r ∧ (∀ d ∈ ds, lexDeclE d = true)
  | 0, s, ds, r, h, _ => by simp [parseDecls] at h
  | f + 1, [], ds, r, h, _ => by simp [parseDecls] at h
  | f + 1, c :: t, ds, r, h, he => by
    simp only [parseDecls] at h
    by_cases hc : c = ']'
    · rw [if_pos hc] at h
      simp only [Except.ok.injEq, Prod.mk.injEq] at h
      obtain ⟨rfl, rfl⟩ := h
      simp [renderDecls, hc]
    · rw [if_neg hc] at h
      cases h1 : parseDecl (c :: t) with
      | error e => simp [h1] at h
      | ok dr =>
        obtain ⟨d, r1⟩ := dr
        simp only [h1] at h
        cases h2 : parseDecls f r1 with
        | error e => simp [h2] at h
        | ok res =>
          obtain ⟨ds', r2⟩ := res
          simp only [h2, Except.ok.injEq, Prod.mk.injEq] at h
          obtain ⟨rfl, rfl⟩ := h
          simp only [List.all_cons, Bool.and_eq_true] at he
          have s1 := parseDecl_sound _ _ _ h1 he.1
          have ih := parseDecls_sound f r1 ds' r2 h2 he.2
          refine ⟨by rw [s1.1, ih.1]; simp [renderDecls, List.append_assoc], ?_⟩
          intro x hx
          rcases List.mem_cons.mp hx with rfl | hx
          · exact s1.2
          · exact ih.2 x hx

theorem parseDoctype_render (d : Doctype) (rest : Str) (h : lexDoctypeE d = true) :
    parseDoctype (doctypeBody d ++ rest) = .ok (d, rest) := by
  obtain ⟨s1, n, s2, sub⟩ := d
  simp only [lexDoctypeE, Bool.and_eq_true] at h
  obtain ⟨⟨⟨h1, hn⟩, h2⟩, h3⟩ := h
  obtain ⟨c, t, hc, _⟩ := name_head_notDelim hn
  have hcS : isSC c = false :=
    nameChar_notS c (nameStart_nameChar c (isName_head (by rw [← hc]; exact hn : isName (c :: t) = true)))
  have h2' := (allS_iff s2).mp h2
  -- the text after the name and S?
  have key : ∀ (X : Str) (x : Char) (xs : Str), X = x :: xs → isDelim x = true →
      reqS (s1 ++ (n ++ (s2 ++ X))) = some (s1, n ++ (s2 ++ X)) ∧ parseName (n ++ (s2 ++ X)) = some (n, s2 ++ X) ∧
      spanP isSC (s2 ++ X) = (s2, X) := by
    intro X x xs hX hx
    refine ⟨reqS_render s1 _ h1 (by rw [hc]; exact hcS), ?_, ?_⟩
    · exact parseName_render n _ hn (headNot_append (fun y hy => S_notNameChar y (h2' y hy)) (by rw [hX]; exact delim_notNameChar x hx))
    · exact spanP_append isSC _ _ h2' (by rw [hX]; exact delim_notS x hx)
  cases sub with
  | none =>
    obtain ⟨k1, k2, k3⟩ := key ('>' :: rest) '>' rest rfl (by decide)
    have e : doctypeBody ⟨s1, n, s2, none⟩ ++ rest = s1 ++ (n ++ (s2 ++ '>' :: rest)) := by
      simp [doctypeBody, List.append_assoc]
    rw [e]
    simp only [parseDoctype, k1, k2, k3, if_true]
  | some p =>
    obtain ⟨ds, s3⟩ := p
    simp only [Bool.and_eq_true, List.all_eq_true] at h3
    obtain ⟨k1, k2, k3⟩ := key ('[' :: (renderDecls ds ++ ']' :: (s3 ++ '>' :: rest))) '[' _ rfl (by decide)
    have e : doctypeBody ⟨s1, n, s2, some (ds, s3)⟩ ++ rest =
        s1 ++ (n ++ (s2 ++ '[' :: (renderDecls ds ++ ']' :: (s3 ++ '>' :: rest)))) := by
      simp [doctypeBody, List.append_assoc]
    have pd := parseDecls_render ds ((renderDecls ds ++ ']' :: (s3 ++ '>' :: rest)).length + 1) (s3 ++ '>' :: rest) h3.1
      (by have := renderDecls_length ds h3.1; simp only [List.length_append, List.length_cons]; omega)
    have pe := declEndGt_render s3 rest h3.2
    have n1 : ('[' : Char) ≠ '>' := by decide
    rw [e]
    simp only [parseDoctype, k1, k2, k3, if_neg n1, if_true, pd, pe]

theorem parseDoctype_sound (s : Str) (d : Doctype) (r : Str) (h : parseDoctype s = .ok (d, r)) (he : entOnly d = true) :
    s = doctypeBody d ++ r ∧ lexDoctypeE d = true := by
  simp only [parseDoctype] at h
  cases a1 : reqS s with
  | none => simp [a1] at h
  | some p1 =>
    obtain ⟨w1, r1⟩ := p1
    simp only [a1] at h
    cases a2 : parseName r1 with
    | none => simp [a2] at h
    | some p2 =>
      obtain ⟨n, r2⟩ := p2
      simp only [a2] at h
      have b1 := reqS_sound _ _ _ a1
      have b2 := parseName_sound _ _ _ a2
      have sp := spanP_sound isSC r2
      cases a3 : (spanP isSC r2).2 with
      | nil => simp [a3] at h
      | cons c t =>
        simp only [a3] at h
        have hw : allS (spanP isSC r2).1 = true := by rw [allS_iff]; exact sp.2.1
        have e2 : r2 = (spanP isSC r2).1 ++ c :: t := by have := sp.1; rw [a3] at this; exact this
        by_cases c1 : c = '>'
        · rw [if_pos c1] at h
          simp only [Except.ok.injEq, Prod.mk.injEq] at h
          obtain ⟨rfl, rfl⟩ := h
          refine ⟨?_, ?_⟩
          · generalize (spanP isSC r2).1 = w2 at e2 ⊢
            rw [b1.1, b2.1, e2, c1]; simp [doctypeBody, List.append_assoc]
          · simp [lexDoctypeE, b1.2.1, b2.2.1, hw]
        · rw [if_neg c1] at h
          by_cases c2 : c = '['
          · rw [if_pos c2] at h
            cases a4 : parseDecls (t.length + 1) t with
            | error e => simp [a4] at h
            | ok res =>
              obtain ⟨ds, r3⟩ := res
              simp only [a4] at h
              cases a5 : declEndGt r3 with
              | none => simp [a5] at h
              | some p5 =>
                obtain ⟨w3, r4⟩ := p5
                simp only [a5, Except.ok.injEq, Prod.mk.injEq] at h
                obtain ⟨rfl, rfl⟩ := h
                have heo : (ds.all entOnlyDecl) = true := by simpa [entOnly] using he
                have b4 := parseDecls_sound _ _ _ _ a4 heo
                have b5 := declEndGt_sound _ _ _ a5
                refine ⟨?_, ?_⟩
                · generalize (spanP isSC r2).1 = w2 at e2 ⊢
                  rw [b1.1, b2.1, e2, c2, b4.1, b5.1]; simp [doctypeBody, List.append_assoc]
                · simp only [lexDoctypeE, Bool.and_eq_true, List.all_eq_true]
                  exact ⟨⟨⟨b1.2.1, b2.2.1⟩, hw⟩, b4.2, b5.2⟩
          · rw [if_neg c2] at h
            split at h <;> cases h

end XV.Lemmas.Xml
