/- C20 — helper lemmas: RFC 2396 resolution on segment lists; structure of the XInclude model. -/
import XV.Spec.XInclude
import XV.Model.XInclude

namespace XV.Lemmas.XInclude
open XV.Spec.XInclude XV.Model.XInclude

/-! ### dot-segment removal -/

def Plain (s : Seg) : Prop := s ≠ ".." ∧ s ≠ "."

theorem normStep_plain {s : Seg} (stk : List Seg) (hs : Plain s) : normStep stk s = s :: stk := by
  unfold normStep; simp [hs.1, hs.2]

theorem normRev_append (stk p q : List Seg) : normRev stk (p ++ q) = normRev (normRev stk p) q := by
  unfold normRev; rw [List.foldl_append]

theorem normStep_allPlain {stk : List Seg} (s : Seg) (h : ∀ x ∈ stk, Plain x) : ∀ x ∈ normStep stk s, Plain x := by
  unfold normStep
  by_cases h1 : s = ".."
  · simp only [h1, if_true]; intro x hx; exact h x (List.mem_of_mem_tail hx)
  · by_cases h2 : s = "."
    · simp only [h2, if_true]; exact h
    · simp only [h1, h2, if_false]
      intro x hx
      rcases List.mem_cons.mp hx with rfl | hx
      · exact ⟨h1, h2⟩
      · exact h x hx

theorem normRev_allPlain : ∀ (p stk : List Seg), (∀ x ∈ stk, Plain x) → ∀ x ∈ normRev stk p, Plain x
  | [], stk, h => by simpa [normRev] using h
  | s :: p, stk, h => by
    have : normRev stk (s :: p) = normRev (normStep stk s) p := by simp [normRev]
    rw [this]
    exact normRev_allPlain p _ (normStep_allPlain s h)

theorem normRev_plainList : ∀ (l stk : List Seg), (∀ x ∈ l, Plain x) → normRev stk l = l.reverse ++ stk
  | [], stk, _ => by simp [normRev]
  | s :: l, stk, h => by
    have e : normRev stk (s :: l) = normRev (normStep stk s) l := by simp [normRev]
    rw [e, normStep_plain stk (h s (by simp)), normRev_plainList l _ (fun x hx => h x (by simp [hx]))]
    simp

theorem normalize_allPlain (p : List Seg) : ∀ x ∈ normalize p, Plain x := by
  intro x hx
  unfold normalize at hx
  exact normRev_allPlain p [] (by simp) x (List.mem_reverse.mp hx)

/-- normalising an already normalised prefix again changes nothing -/
theorem normalize_normalize_append (x y : List Seg) : normalize (normalize x ++ y) = normalize (x ++ y) := by
  unfold normalize
  rw [normRev_append, normRev_append]
  congr 2
  have h := normRev_plainList (normRev [] x).reverse [] (by
    intro s hs; exact normRev_allPlain x [] (by simp) s (List.mem_reverse.mp hs))
  simpa using h

theorem normalize_snoc_plain (x : List Seg) {s : Seg} (hs : Plain s) : normalize (x ++ [s]) = normalize x ++ [s] := by
  unfold normalize
  rw [normRev_append]
  have : normRev (normRev [] x) [s] = s :: normRev [] x := by
    simp [normRev, normStep_plain _ hs]
  rw [this]; simp

theorem dir_snoc (x : List Seg) (s : Seg) : dir (x ++ [s]) = x := by
  unfold dir; simp

/-! ### fixRef -/

theorem fixRef_nil : fixRef [] = [] := by simp [fixRef]

/-- a non-empty reference, made explicit, ends in a plain segment -/
theorem fixRef_snoc {r : Ref} (h : r ≠ []) : ∃ q s, fixRef r = q ++ [s] ∧ Plain s ∧ (Plain (r.getLast h) → q = dir r) := by
  obtain ⟨q, s, rfl⟩ : ∃ q s, r = q ++ [s] := ⟨r.dropLast, r.getLast h, (List.dropLast_concat_getLast h).symm⟩
  have hl : (q ++ [s]).getLast? = some s := by simp
  unfold fixRef
  rw [hl]
  by_cases hs : s = ".." ∨ s = "."
  · simp only [hs, if_true]
    refine ⟨q ++ [s], "", by simp, ⟨by decide, by decide⟩, ?_⟩
    intro hp
    simp at hp
    exact absurd hs (by intro h'; rcases h' with h' | h' ; exact hp.1 h'; exact hp.2 h')
  · simp only [hs, if_false]
    refine ⟨q, s, rfl, ⟨fun e => hs (Or.inl e), fun e => hs (Or.inr e)⟩, ?_⟩
    intro _; exact (dir_snoc q s).symm

theorem fixRef_ne_nil {r : Ref} (h : r ≠ []) : fixRef r ≠ [] := by
  obtain ⟨q, s, e, _⟩ := fixRef_snoc h
  rw [e]; simp

theorem fixRef_append (a : List Seg) {r : Ref} (h : r ≠ []) : fixRef (a ++ r) = a ++ fixRef r := by
  obtain ⟨q, s, rfl⟩ : ∃ q s, r = q ++ [s] := ⟨r.dropLast, r.getLast h, (List.dropLast_concat_getLast h).symm⟩
  have h1 : (a ++ (q ++ [s])).getLast? = some s := by simp [← List.append_assoc]
  have h2 : (q ++ [s]).getLast? = some s := by simp
  unfold fixRef
  rw [h1, h2]
  by_cases hs : s = ".." ∨ s = "." <;> simp [hs]

/-! ### composition of resolutions -/

/-- RFC 2396: resolving `r` against the resolution of `p` is resolving "`p` up to its last slash, then `r`".
    This is what makes a fix-up by `XIncludeLocation::prependPath` preserve targets. -/
theorem resolve_prependPath (pb : URI) (p r : Ref) : resolve pb (prependPath p r) = resolve (resolve pb p) r := by
  by_cases hr : r = []
  · subst hr; simp [prependPath, resolve]
  by_cases hp : p = []
  · subst hp
    simp [prependPath, hr, resolve, fixRef_nil, dir]
  obtain ⟨q, s, eq, hs, _⟩ := fixRef_snoc hp
  have e1 : prependPath p r = dir (fixRef p) ++ r := by simp [prependPath, hr]
  have e2 : dir (fixRef p) = q := by rw [eq]; exact dir_snoc q s
  have hne : dir (fixRef p) ++ r ≠ [] := by simp [hr]
  have lhs : resolve pb (prependPath p r) = normalize (dir pb ++ (q ++ fixRef r)) := by
    rw [e1]; unfold resolve; rw [if_neg hne, fixRef_append _ hr, e2]
  have rp : resolve pb p = normalize (dir pb ++ q) ++ [s] := by
    unfold resolve; rw [if_neg hp, eq, ← List.append_assoc, normalize_snoc_plain _ hs]
  have rhs : resolve (resolve pb p) r = normalize (dir pb ++ q ++ fixRef r) := by
    rw [rp]; unfold resolve; rw [if_neg hr, dir_snoc, normalize_normalize_append]
  rw [lhs, rhs, List.append_assoc]

theorem resolveBase_inherit (pb : URI) : resolveBase pb .inherit = pb := rfl

theorem resolveBase_applyPre (pb : URI) (pre b : Base) :
    resolveBase pb (applyPre pre b) = resolveBase (resolveBase pb pre) b := by
  cases pre <;> cases b <;> simp [applyPre, resolveBase, resolve_prependPath]

theorem resolveBase_inclPre (pb : URI) (ib : Base) (href : Ref) :
    resolveBase pb (inclPre ib href) = resolve (resolveBase pb ib) href := by
  cases ib <;> simp [inclPre, resolveBase, resolve_prependPath]


/-! ### induction over documents (nodes and lists of nodes together) -/

theorem node_induct {P : Node → Prop} {Q : List Node → Prop}
    (elem : ∀ n a b kids, Q kids → P (.elem n a b kids))
    (leaf : ∀ k t cs, P (.leaf k t cs))
    (incl : ∀ h p e b hf fb, Q fb → P (.incl h p e b hf fb))
    (bad : ∀ k a b kids, Q kids → P (.bad k a b kids))
    (fallback : ∀ b kids, Q kids → P (.fallback b kids))
    (nil : Q []) (cons : ∀ n ns, P n → Q ns → Q (n :: ns)) : (∀ n, P n) ∧ (∀ l, Q l) :=
  ⟨fun n => Node.rec (motive_1 := P) (motive_2 := Q) elem leaf incl bad fallback nil cons n,
   fun l => Node.rec_1 (motive_1 := P) (motive_2 := Q) elem leaf incl bad fallback nil cons l⟩

open XV.Gen.XIncludeErrs

/-! ### what `fetchM` can return -/

theorem fetchM_doc {fs : FS} {root : URI} {h : List URI} {t : URI} {parse : Parse} {enc : Option String}
    {d : List Node} {e : List Nat} (hf : fetchM fs root h t parse enc = (.doc d, e)) :
    t ∉ h ∧ t ≠ root ∧ fs.doc t = some d ∧ parse ≠ .text ∧ e = [] ∧ fetch fs t parse enc = .doc d := by
  unfold fetchM at hf
  cases parse
  case text =>
    simp only [doXIncludeTEXTFileDOM] at hf
    split at hf <;> simp at hf
  all_goals
    simp only [doXIncludeXMLFileDOM] at hf
    by_cases h1 : t ∈ h
    · rw [if_pos h1] at hf; simp at hf
    · by_cases h2 : t = root
      · rw [if_neg h1, if_pos h2] at hf; simp at hf
      · rw [if_neg h1, if_neg h2] at hf
        cases hd : fs.doc t with
        | none => simp [hd] at hf
        | some d' =>
          simp [hd] at hf
          obtain ⟨rfl, rfl⟩ := hf
          refine ⟨h1, h2, rfl, by simp, rfl, ?_⟩
          simp [fetch, hd]


theorem fetchM_text {fs : FS} {root : URI} {h : List URI} {t : URI} {parse : Parse} {enc : Option String}
    {cs : List Nat} {e : List Nat} (hf : fetchM fs root h t parse enc = (.text cs, e)) :
    parse = .text ∧ e = [] ∧ fetch fs t parse enc = .text cs := by
  unfold fetchM at hf
  cases parse
  case text =>
    simp only [doXIncludeTEXTFileDOM] at hf
    cases hc : (if encSupported enc then fs.chars t else none) with
    | none => rw [hc] at hf; simp at hf
    | some cs' =>
      rw [hc] at hf; simp at hf
      obtain ⟨rfl, rfl⟩ := hf
      refine ⟨rfl, rfl, ?_⟩
      simp only [fetch]; rw [hc]
  all_goals
    simp only [doXIncludeXMLFileDOM] at hf
    by_cases h1 : t ∈ h
    · rw [if_pos h1] at hf; simp at hf
    · by_cases h2 : t = root
      · rw [if_neg h1, if_pos h2] at hf; simp at hf
      · rw [if_neg h1, if_neg h2] at hf
        cases hd : fs.doc t <;> simp [hd] at hf

theorem fetchM_none {fs : FS} {root : URI} {h : List URI} {t : URI} {parse : Parse} {enc : Option String}
    {e : List Nat} (hf : fetchM fs root h t parse enc = (.none, e)) :
    (fetch fs t parse enc = .none ∧ (e = [] ∨ e = [XIncludeCannotOpenFile])) ∨
    (parse ≠ .text ∧ t ∈ h ∧ e = [XIncludeCircularInclusionLoop]) ∨
    (parse ≠ .text ∧ t ∉ h ∧ t = root ∧ e = [XIncludeCircularInclusionDocIncludesSelf]) := by
  unfold fetchM at hf
  cases parse
  case text =>
    simp only [doXIncludeTEXTFileDOM] at hf
    cases hc : (if encSupported enc then fs.chars t else none) with
    | none =>
      rw [hc] at hf; simp at hf
      left; refine ⟨?_, Or.inr hf.symm⟩
      simp only [fetch]; rw [hc]
    | some cs' => rw [hc] at hf; simp at hf
  all_goals
    simp only [doXIncludeXMLFileDOM] at hf
    by_cases h1 : t ∈ h
    · rw [if_pos h1] at hf; simp at hf
      right; left; exact ⟨by simp, h1, hf.symm⟩
    · by_cases h2 : t = root
      · rw [if_neg h1, if_pos h2] at hf; simp at hf
        right; right; exact ⟨by simp, h1, h2, hf.symm⟩
      · rw [if_neg h1, if_neg h2] at hf
        cases hd : fs.doc t with
        | some d => simp [hd] at hf
        | none =>
          simp [hd] at hf
          left; refine ⟨?_, Or.inl hf⟩
          simp [fetch, hd]

/-! ### `process_total`: the budget is never exhausted -/

/-- the history stack holds distinct existing documents, and the remaining budget exceeds what is left to push -/
def Inv (fs : FS) (h : List URI) (n : Nat) : Prop :=
  h.Nodup ∧ (∀ x ∈ h, ∃ d, fs.doc x = some d) ∧ fs.length + 1 ≤ h.length + n

theorem noFuel_inner (fs : FS) (root : URI) (rec : Rec) (h : List URI)
    (hrec : ∀ t d pb pre, t ∉ h → fs.doc t = some d → outOfFuel ∉ (rec (t :: h) pb pre d).errs) :
    (∀ n pb pre, outOfFuel ∉ (procNode fs root rec h pb pre n).errs) ∧
    (∀ l pb pre, outOfFuel ∉ (procList fs root rec h pb pre l).errs) := by
  apply node_induct
  · intro n a b kids ih pb pre
    rw [procNode]; exact ih _ _
  · intro k t cs pb pre; rw [procNode]; simp
  · intro href parse enc ib hasFb fb ih pb pre
    rw [procNode]
    simp only []
    split
    · next d e hf =>
      obtain ⟨h1, _, hd, _⟩ := fetchM_doc hf
      exact hrec _ _ _ _ h1 hd
    · simp
    · next e hf =>
      have he : outOfFuel ∉ e := by
        rcases fetchM_none hf with ⟨_, rfl | rfl⟩ | ⟨_, _, rfl⟩ | ⟨_, _, _, rfl⟩ <;> decide
      split
      · have := ih pb (applyPre pre ib)
        simp only [List.mem_append, not_or]
        exact ⟨⟨he, by decide⟩, this⟩
      · simp only [List.mem_append, not_or]
        exact ⟨he, by decide⟩
  · intro k a b kids _ pb pre
    rw [procNode]; cases k <;> simp [badCode] <;> decide
  · intro b kids _ pb pre
    rw [procNode]; simp; decide
  · intro pb pre; rw [procList]; simp
  · intro n ns ihn ihs pb pre
    rw [procList]; simp only [List.mem_append, not_or]
    exact ⟨ihn pb pre, ihs pb pre⟩


theorem nodup_subset_length {α : Type} [DecidableEq α] : ∀ (h l : List α), h.Nodup → (∀ x ∈ h, x ∈ l) → h.length ≤ l.length
  | [], _, _, _ => Nat.zero_le _
  | a :: t, l, hn, hs => by
    have ha : a ∈ l := hs a (by simp)
    have hn' := List.nodup_cons.mp hn
    have ht : ∀ x ∈ t, x ∈ l.erase a := by
      intro x hx
      have hne : x ≠ a := fun e => hn'.1 (e ▸ hx)
      exact (List.mem_erase_of_ne hne).mpr (hs x (by simp [hx]))
    have ih := nodup_subset_length t (l.erase a) hn'.2 ht
    have hl : (l.erase a).length = l.length - 1 := List.length_erase_of_mem ha
    have hpos : 0 < l.length := List.length_pos_of_mem ha
    simp only [List.length_cons]
    omega

theorem lookup_some_mem_keys {β : Type} : ∀ (fs : List (URI × β)) (u : URI) (f : β), List.lookup u fs = some f → u ∈ fs.map (·.1)
  | [], _, _, h => by simp at h
  | (k, v) :: fs, u, f, h => by
    rw [List.lookup_cons] at h
    by_cases e : u == k
    · simp only [List.map_cons, List.mem_cons]; left; exact eq_of_beq e
    · simp only [e] at h
      simp only [List.map_cons, List.mem_cons]; right
      exact lookup_some_mem_keys fs u f h

theorem doc_some_mem_keys {fs : FS} {u : URI} {d : List Node} (h : fs.doc u = some d) : u ∈ fs.map (·.1) := by
  unfold FS.doc FS.get at h
  cases hl : List.lookup u fs with
  | none => rw [hl] at h; simp at h
  | some f => exact lookup_some_mem_keys fs u f hl

theorem inv_length {fs : FS} {h : List URI} {n : Nat} (hi : Inv fs h n) : h.length ≤ fs.length := by
  have := nodup_subset_length h (fs.map (·.1)) hi.1 (fun x hx => by
    obtain ⟨d, hd⟩ := hi.2.1 x hx
    exact doc_some_mem_keys hd)
  simpa using this

theorem inv_push {fs : FS} {h : List URI} {n : Nat} {t : URI} {d : List Node}
    (hi : Inv fs h (n + 1)) (ht : t ∉ h) (hd : fs.doc t = some d) : Inv fs (t :: h) n := by
  refine ⟨List.nodup_cons.mpr ⟨ht, hi.1⟩, ?_, ?_⟩
  · intro x hx
    rcases List.mem_cons.mp hx with rfl | hx
    · exact ⟨d, hd⟩
    · exact hi.2.1 x hx
  · have := hi.2.2; simp only [List.length_cons]; omega

theorem noFuel_procFuel (fs : FS) (root : URI) : ∀ (n : Nat) (h : List URI), Inv fs h n →
    ∀ pb pre ns, outOfFuel ∉ (procFuel fs root n h pb pre ns).errs
  | 0, h, hi => by
    have := inv_length hi
    have := hi.2.2
    omega
  | n + 1, h, hi => by
    intro pb pre ns
    rw [procFuel]
    exact (noFuel_inner fs root (procFuel fs root n) h (fun t d pb pre ht hd =>
      noFuel_procFuel fs root n (t :: h) (inv_push hi ht hd) pb pre d)).2 ns pb pre

theorem inv_init (fs : FS) (k : Nat) : Inv fs [] (budget fs + k) := by
  refine ⟨List.nodup_nil, by simp, ?_⟩
  simp [budget]

/-! ### the budget does not matter once it is large enough -/

theorem fuelIndep_inner (fs : FS) (root : URI) (rec1 rec2 : Rec) (h : List URI)
    (hrec : ∀ t d pb pre, t ∉ h → fs.doc t = some d → rec1 (t :: h) pb pre d = rec2 (t :: h) pb pre d) :
    (∀ n pb pre, procNode fs root rec1 h pb pre n = procNode fs root rec2 h pb pre n) ∧
    (∀ l pb pre, procList fs root rec1 h pb pre l = procList fs root rec2 h pb pre l) := by
  apply node_induct
  · intro n a b kids ih pb pre
    rw [procNode, procNode, ih]
  · intro k t cs pb pre; rw [procNode, procNode]
  · intro href parse enc ib hasFb fb ih pb pre
    rw [procNode, procNode]
    simp only []
    split
    · next d e hf =>
      obtain ⟨h1, _, hd, _⟩ := fetchM_doc hf
      exact hrec _ _ _ _ h1 hd
    · rfl
    · rw [ih]
  · intro k a b kids _ pb pre; rw [procNode, procNode]
  · intro b kids _ pb pre; rw [procNode, procNode]
  · intro pb pre; rw [procList, procList]
  · intro n ns ihn ihs pb pre
    rw [procList, procList, ihn, ihs]

theorem fuelIndep (fs : FS) (root : URI) : ∀ (n m : Nat) (h : List URI), Inv fs h n → Inv fs h m →
    ∀ pb pre ns, procFuel fs root n h pb pre ns = procFuel fs root m h pb pre ns
  | 0, _, h, hi, _ => by
    have := inv_length hi
    have := hi.2.2
    omega
  | _ + 1, 0, h, _, hj => by
    have := inv_length hj
    have := hj.2.2
    omega
  | n + 1, m + 1, h, hi, hj => by
    intro pb pre ns
    rw [procFuel, procFuel]
    exact (fuelIndep_inner fs root _ _ h (fun t d pb pre ht hd =>
      fuelIndep fs root n m (t :: h) (inv_push hi ht hd) (inv_push hj ht hd) pb pre d)).2 ns pb pre


/-! ### model = Spec as long as no loop is reported -/

/-- no circular-inclusion error and no budget exhaustion among the reported codes -/
def NoCF (e : List Nat) : Prop :=
  XIncludeCircularInclusionLoop ∉ e ∧ XIncludeCircularInclusionDocIncludesSelf ∉ e ∧ outOfFuel ∉ e

theorem NoCF_append {a b : List Nat} : NoCF (a ++ b) ↔ NoCF a ∧ NoCF b := by
  unfold NoCF; simp only [List.mem_append, not_or]; constructor
  · rintro ⟨⟨a1, b1⟩, ⟨a2, b2⟩, a3, b3⟩; exact ⟨⟨a1, a2, a3⟩, b1, b2, b3⟩
  · rintro ⟨⟨a1, a2, a3⟩, b1, b2, b3⟩; exact ⟨⟨a1, b1⟩, ⟨a2, b2⟩, a3, b3⟩

/-- same nodes, and the reported codes fall into exactly the Spec's error classes, in order -/
def Sim (r : Res) (s : SRes) : Prop := r.nodes = s.nodes ∧ r.errs.filterMap classOf = s.errs

theorem annotate_incl_pre (pb : URI) (pre : Base) (href : Ref) (parse : Parse) (enc : Option String) (ib : Base)
    (hasFb : Bool) (fb : List Node) :
    annotate pb (.incl href parse enc (applyPre pre ib) hasFb fb) = annotate (resolveBase pb pre) (.incl href parse enc ib hasFb fb) := by
  rw [annotate, annotate, resolveBase_applyPre]

theorem annotate_bad_pre (pb : URI) (pre : Base) (k : BadKind) (a : List (String × String)) (b : Base) (kids : List Node) :
    annotate pb (.bad k a (applyPre pre b) kids) = annotate (resolveBase pb pre) (.bad k a b kids) := by
  rw [annotate, annotate, resolveBase_applyPre]

theorem annotate_fallback_pre (pb : URI) (pre : Base) (b : Base) (kids : List Node) :
    annotate pb (.fallback (applyPre pre b) kids) = annotate (resolveBase pb pre) (.fallback b kids) := by
  rw [annotate, annotate, resolveBase_applyPre]

theorem classOf_badCode (k : BadKind) : classOf (badCode k) = some .invalid := by
  cases k <;> decide

theorem sim_inner (fs : FS) (root : URI) (rec : Rec) (inc : URI → List Node → SRes) (h : List URI)
    (hrec : ∀ t d pb pre, NoCF (rec (t :: h) pb pre d).errs → Sim (rec (t :: h) pb pre d) (inc (resolveBase pb pre) d)) :
    (∀ n pb pre, NoCF (procNode fs root rec h pb pre n).errs →
        Sim (procNode fs root rec h pb pre n) (substNode fs inc (resolveBase pb pre) n)) ∧
    (∀ l pb pre, NoCF (procList fs root rec h pb pre l).errs →
        Sim (procList fs root rec h pb pre l) (substList fs inc (resolveBase pb pre) l)) := by
  apply node_induct
  · intro n a b kids ih pb pre
    rw [procNode, substNode]
    intro hn
    have := ih (resolveBase pb (applyPre pre b)) .inherit hn
    rw [resolveBase_inherit, resolveBase_applyPre] at this
    rw [resolveBase_applyPre]
    exact ⟨by simp [this.1], this.2⟩
  · intro k t cs pb pre _; rw [procNode, substNode]; exact ⟨rfl, rfl⟩
  · intro href parse enc ib hasFb fb ih pb pre
    rw [procNode, substNode]
    simp only [targetOf]
    rw [resolveBase_applyPre]
    split
    · next d e hf =>
      obtain ⟨_, _, _, _, _, hfe⟩ := fetchM_doc hf
      rw [hfe]
      intro hn
      have := hrec _ d pb _ hn
      rw [resolveBase_inclPre, resolveBase_applyPre] at this
      exact this
    · next cs e hf =>
      obtain ⟨_, _, hfe⟩ := fetchM_text hf
      rw [hfe]; intro _; exact ⟨rfl, rfl⟩
    · next e hf =>
      intro hn
      have he : fetch fs (resolve (resolveBase (resolveBase pb pre) ib) href) parse enc = .none ∧ e.filterMap classOf = [] := by
        rcases fetchM_none hf with ⟨h1, rfl | rfl⟩ | ⟨_, _, rfl⟩ | ⟨_, _, _, rfl⟩
        · exact ⟨h1, rfl⟩
        · exact ⟨h1, by decide⟩
        · exfalso
          cases hasFb <;> simp [NoCF] at hn
        · exfalso
          cases hasFb <;> simp [NoCF] at hn
      rw [he.1]
      cases hasFb
      · simp only [Bool.false_eq_true, if_false]
        refine ⟨by rw [annotate_incl_pre], ?_⟩
        simp only [List.filterMap_append, he.2]
        decide
      · simp only [if_true] at hn ⊢
        have hn' : NoCF (procList fs root rec h pb (applyPre pre ib) fb).errs := (NoCF_append.mp hn).2
        have := ih pb (applyPre pre ib) hn'
        rw [resolveBase_applyPre] at this
        refine ⟨this.1, ?_⟩
        simp only [List.filterMap_append, he.2, this.2]
        have : List.filterMap classOf [XIncludeIncludeFailedResourceError] = [] := by decide
        rw [this]; simp
  · intro k a b kids _ pb pre _
    rw [procNode, substNode]
    exact ⟨by rw [annotate_bad_pre], by simp [classOf_badCode]⟩
  · intro b kids _ pb pre _
    rw [procNode, substNode]
    refine ⟨by rw [annotate_fallback_pre], ?_⟩
    show List.filterMap classOf [XIncludeOrphanFallback] = [ErrClass.invalid]
    decide
  · intro pb pre _; rw [procList, substList]; exact ⟨rfl, rfl⟩
  · intro n ns ihn ihs pb pre hn
    rw [procList] at hn ⊢
    rw [substList]
    have hn2 := NoCF_append.mp hn
    have a := ihn pb pre hn2.1
    have b := ihs pb pre hn2.2
    exact ⟨by simp [SRes.append, a.1, b.1], by simp [SRes.append, List.filterMap_append, a.2, b.2]⟩

theorem sim_procFuel (fs : FS) (root : URI) : ∀ (n : Nat) (h : List URI) (pb : URI) (pre : Base) (ns : List Node),
    NoCF (procFuel fs root n h pb pre ns).errs →
    Sim (procFuel fs root n h pb pre ns) (substFuel fs n (resolveBase pb pre) ns)
  | 0, h, pb, pre, ns => by
    intro hn; exfalso; simp [procFuel, NoCF] at hn
  | n + 1, h, pb, pre, ns => by
    rw [procFuel, substFuel]
    exact (sim_inner fs root (procFuel fs root n) (substFuel fs n) h
      (fun t d pb pre hn => sim_procFuel fs root n (t :: h) pb pre d hn)).2 ns pb pre


/-! ### the inclusion graph -/

theorem _root_.XV.Spec.XInclude.Reach.tail {fs : FS} {u v w : URI} (h : Reach fs u v) (e : w ∈ edges fs v) : Reach fs u w := by
  induction h with
  | refl u => exact .step e (.refl w)
  | step e' _ ih => exact .step e' (ih e)

theorem _root_.XV.Spec.XInclude.Reach.trans {fs : FS} {u v w : URI} (h : Reach fs u v) (h2 : Reach fs v w) : Reach fs u w := by
  induction h with
  | refl u => exact h2
  | step e' _ ih => exact .step e' (ih h2)

theorem _root_.XV.Spec.XInclude.Acyclic.of_reach {fs : FS} {u v : URI} (ha : Acyclic fs u) (h : Reach fs u v) : Acyclic fs v := by
  induction h with
  | refl u => exact ha
  | step e _ ih =>
    cases ha with
    | mk _ hall => exact ih (hall _ e)

theorem _root_.XV.Spec.XInclude.Acyclic.no_cycle {fs : FS} {v : URI} (ha : Acyclic fs v) : ∀ w, w ∈ edges fs v → Reach fs w v → False := by
  induction ha with
  | mk v _ ih =>
    intro w hw hr
    cases hr with
    | refl => exact ih _ hw _ hw (.refl _)
    | step e hr' => exact ih w hw _ e (hr'.tail hw)

theorem edges_of_doc {fs : FS} {t : URI} {d : List Node} (hd : fs.doc t = some d) : edges fs t = edgesL fs t d := by
  unfold edges; rw [hd]

/-! ### an acyclic map never produces a circular-inclusion error -/

def NoCirc (e : List Nat) : Prop :=
  XIncludeCircularInclusionLoop ∉ e ∧ XIncludeCircularInclusionDocIncludesSelf ∉ e

theorem NoCirc_append {a b : List Nat} : NoCirc (a ++ b) ↔ NoCirc a ∧ NoCirc b := by
  unfold NoCirc; simp only [List.mem_append, not_or]; constructor
  · rintro ⟨⟨a1, b1⟩, a2, b2⟩; exact ⟨⟨a1, a2⟩, b1, b2⟩
  · rintro ⟨⟨a1, a2⟩, b1, b2⟩; exact ⟨⟨a1, b1⟩, a2, b2⟩

theorem fetch_doc_of_ne_text {fs : FS} {t : URI} {parse : Parse} {enc : Option String} {d : List Node}
    (hp : parse ≠ .text) (hd : fs.doc t = some d) : fetch fs t parse enc = .doc d := by
  cases parse <;> simp [fetch, hd] at hp ⊢

theorem noCirc_inner (fs : FS) (root : URI) (rec : Rec) (h : List URI) (cur : URI)
    (hdoc : ∀ x, x ∈ h ∨ x = root → ∃ d, fs.doc x = some d)
    (hvis : ∀ t, t ∈ edges fs cur → t ∉ h ∧ t ≠ root)
    (hrec : ∀ t d pb pre, t ∈ edges fs cur → fs.doc t = some d → resolveBase pb pre = t →
              NoCirc (rec (t :: h) pb pre d).errs) :
    (∀ n pb pre, (∀ v, v ∈ edgesN fs (resolveBase pb pre) n → v ∈ edges fs cur) →
        NoCirc (procNode fs root rec h pb pre n).errs) ∧
    (∀ l pb pre, (∀ v, v ∈ edgesL fs (resolveBase pb pre) l → v ∈ edges fs cur) →
        NoCirc (procList fs root rec h pb pre l).errs) := by
  apply node_induct
  · intro n a b kids ih pb pre he
    rw [procNode]
    apply ih
    rw [resolveBase_inherit, resolveBase_applyPre]
    intro v hv; apply he; rw [edgesN]; exact hv
  · intro k t cs pb pre _; rw [procNode]; simp [NoCirc]
  · intro href parse enc ib hasFb fb ih pb pre he
    rw [edgesN] at he
    simp only [targetOf] at he
    rw [procNode]
    simp only []
    rw [resolveBase_applyPre]
    split
    · next d e hf =>
      obtain ⟨_, _, hd, _, _, hfe⟩ := fetchM_doc hf
      rw [hfe] at he
      apply hrec _ d pb _ (he _ (by simp)) hd
      rw [resolveBase_inclPre, resolveBase_applyPre]
    · simp [NoCirc]
    · next e hf =>
      rcases fetchM_none hf with ⟨h1, he2⟩ | ⟨hp, hin, _⟩ | ⟨hp, _, hroot, _⟩
      · have hee : NoCirc e := by rcases he2 with rfl | rfl <;> simp [NoCirc] <;> decide
        rw [h1] at he
        cases hasFb
        · simp only [Bool.false_eq_true, if_false]
          rw [NoCirc_append]; refine ⟨hee, ?_⟩; simp [NoCirc]; decide
        · simp only [if_true] at he ⊢
          rw [NoCirc_append, NoCirc_append]
          refine ⟨⟨hee, by simp [NoCirc]; decide⟩, ?_⟩
          apply ih
          rw [resolveBase_applyPre]; exact he
      · exfalso
        obtain ⟨d, hd⟩ := hdoc _ (Or.inl hin)
        rw [fetch_doc_of_ne_text hp hd] at he
        exact (hvis _ (he _ (by simp))).1 hin
      · exfalso
        obtain ⟨d, hd⟩ := hdoc _ (Or.inr hroot)
        rw [fetch_doc_of_ne_text hp hd] at he
        exact (hvis _ (he _ (by simp))).2 hroot
  · intro k a b kids _ pb pre _
    rw [procNode]; cases k <;> simp [NoCirc, badCode] <;> decide
  · intro b kids _ pb pre _
    rw [procNode]; simp [NoCirc]; decide
  · intro pb pre _; rw [procList]; simp [NoCirc]
  · intro n ns ihn ihs pb pre he
    rw [procList]
    simp only []
    rw [NoCirc_append]
    refine ⟨ihn pb pre ?_, ihs pb pre ?_⟩
    · intro v hv; apply he; rw [edgesL]; exact List.mem_append_left _ hv
    · intro v hv; apply he; rw [edgesL]; exact List.mem_append_right _ hv

theorem noCirc_procFuel (fs : FS) (root : URI) (hacyc : Acyclic fs root) (hroot : ∃ d, fs.doc root = some d) :
    ∀ (n : Nat) (h : List URI) (cur : URI),
      (∀ x, x ∈ h → ∃ d, fs.doc x = some d) →
      (∀ x, x ∈ h ∨ x = root → Reach fs x cur) →
      ∀ pb pre ns, (∀ v, v ∈ edgesL fs (resolveBase pb pre) ns → v ∈ edges fs cur) →
        NoCirc (procFuel fs root n h pb pre ns).errs
  | 0, _, _, _, _ => by
    intro pb pre ns _; simp [procFuel, NoCirc]; decide
  | n + 1, h, cur, hdoc, hreach => by
    intro pb pre ns he
    rw [procFuel]
    have hcur : Acyclic fs cur := hacyc.of_reach (hreach root (Or.inr rfl))
    refine (noCirc_inner fs root (procFuel fs root n) h cur ?_ ?_ ?_).2 ns pb pre he
    · intro x hx
      rcases hx with hx | rfl
      · exact hdoc x hx
      · exact hroot
    · intro t ht
      have key : ∀ x, x ∈ h ∨ x = root → x ≠ t := by
        intro x hx e
        exact hcur.no_cycle t ht (e ▸ hreach x hx)
      exact ⟨fun hin => key t (Or.inl hin) rfl, fun e => key t (Or.inr e) rfl⟩
    · intro t d pb' pre' ht hd hb
      apply noCirc_procFuel fs root hacyc hroot n (t :: h) t
      · intro x hx
        rcases List.mem_cons.mp hx with rfl | hx
        · exact ⟨d, hd⟩
        · exact hdoc x hx
      · intro x hx
        rcases hx with hx | rfl
        · rcases List.mem_cons.mp hx with rfl | hx
          · exact .refl _
          · exact (hreach x (Or.inl hx)).tail ht
        · exact (hreach _ (Or.inr rfl)).tail ht
      · rw [hb, edges_of_doc hd]; intro v hv; exact hv


/-! ### every live include is followed (or a loop has been reported already) -/

theorem visits_inner (fs : FS) (root : URI) (rec : Rec) (h : List URI) :
    (∀ n pb pre, NoCirc (procNode fs root rec h pb pre n).errs →
        ∀ w, w ∈ edgesN fs (resolveBase pb pre) n →
          w ∉ h ∧ w ≠ root ∧ ∃ d pb' pre', fs.doc w = some d ∧ resolveBase pb' pre' = w ∧ NoCirc (rec (w :: h) pb' pre' d).errs) ∧
    (∀ l pb pre, NoCirc (procList fs root rec h pb pre l).errs →
        ∀ w, w ∈ edgesL fs (resolveBase pb pre) l →
          w ∉ h ∧ w ≠ root ∧ ∃ d pb' pre', fs.doc w = some d ∧ resolveBase pb' pre' = w ∧ NoCirc (rec (w :: h) pb' pre' d).errs) := by
  apply node_induct
  · intro n a b kids ih pb pre hn w hw
    rw [procNode] at hn
    rw [edgesN] at hw
    apply ih _ .inherit hn w
    rw [resolveBase_inherit, resolveBase_applyPre]; exact hw
  · intro k t cs pb pre _ w hw; rw [edgesN] at hw; simp at hw
  · intro href parse enc ib hasFb fb ih pb pre hn w hw
    rw [edgesN] at hw
    simp only [targetOf] at hw
    rw [procNode] at hn
    simp only [] at hn
    rw [resolveBase_applyPre] at hn
    split at hn
    · next d e hf =>
      obtain ⟨h1, h2, hd, _, _, hfe⟩ := fetchM_doc hf
      rw [hfe] at hw
      simp only [List.mem_singleton] at hw
      subst hw
      refine ⟨h1, h2, d, pb, _, hd, ?_, hn⟩
      rw [resolveBase_inclPre, resolveBase_applyPre]
    · next cs e hf =>
      obtain ⟨_, _, hfe⟩ := fetchM_text hf
      rw [hfe] at hw; simp at hw
    · next e hf =>
      rcases fetchM_none hf with ⟨h1, _⟩ | ⟨_, _, rfl⟩ | ⟨_, _, _, rfl⟩
      · rw [h1] at hw
        cases hasFb
        · simp at hw
        · simp only [if_true] at hw hn
          have hn' := (NoCirc_append.mp hn).2
          apply ih pb _ hn' w
          rw [resolveBase_applyPre]; exact hw
      · exfalso; cases hasFb <;> simp [NoCirc] at hn
      · exfalso; cases hasFb <;> simp [NoCirc] at hn
  · intro k a b kids _ pb pre _ w hw; rw [edgesN] at hw; simp at hw
  · intro b kids _ pb pre _ w hw; rw [edgesN] at hw; simp at hw
  · intro pb pre _ w hw; rw [edgesL] at hw; simp at hw
  · intro n ns ihn ihs pb pre hn w hw
    rw [procList] at hn
    simp only [] at hn
    have hn2 := NoCirc_append.mp hn
    rw [edgesL] at hw
    rcases List.mem_append.mp hw with hw | hw
    · exact ihn pb pre hn2.1 w hw
    · exact ihs pb pre hn2.2 w hw

/-- a state of the run in which the document `cur` is being processed without any loop having been reported,
    all of `S` (which contains `cur`) being on the history stack or the root -/
def Good (fs : FS) (root : URI) (cur : URI) (S : List URI) : Prop :=
  ∃ n h pb pre ns, Inv fs h (n + 1) ∧ cur ∈ S ∧ (∀ x, x ∈ S → x ∈ h ∨ x = root) ∧
    (∀ v, v ∈ edges fs cur → v ∈ edgesL fs (resolveBase pb pre) ns) ∧
    NoCirc (procFuel fs root (n + 1) h pb pre ns).errs

theorem good_step {fs : FS} {root cur w : URI} {S : List URI} (hg : Good fs root cur S) (hw : w ∈ edges fs cur) :
    w ∉ S ∧ Good fs root w (w :: S) := by
  obtain ⟨n, h, pb, pre, ns, hi, _, hS, he, hn⟩ := hg
  rw [procFuel] at hn
  obtain ⟨h1, h2, d, pb', pre', hd, hb, hn'⟩ := (visits_inner fs root (procFuel fs root n) h).2 ns pb pre hn w (he w hw)
  have hi' := inv_push hi h1 hd
  have hlen := inv_length hi'
  have hpos : 1 ≤ n := by
    have := hi'.2.2
    simp only [List.length_cons] at this hlen
    omega
  obtain ⟨m, rfl⟩ : ∃ m, n = m + 1 := ⟨n - 1, by omega⟩
  refine ⟨?_, m, w :: h, pb', pre', d, hi', by simp, ?_, ?_, hn'⟩
  · intro hin
    rcases hS w hin with hh | hr
    · exact h1 hh
    · exact h2 hr
  · intro x hx
    rcases List.mem_cons.mp hx with rfl | hx
    · left; simp
    · rcases hS x hx with hh | hr
      · left; simp [hh]
      · right; exact hr
  · rw [hb, edges_of_doc hd]; intro v hv; exact hv

theorem good_reach_notin {fs : FS} {root : URI} {w y : URI} (hr : Reach fs w y) :
    ∀ {cur : URI} {S : List URI}, Good fs root cur S → w ∈ edges fs cur → y ∉ S := by
  induction hr with
  | refl u => intro cur S hg hw; exact (good_step hg hw).1
  | step e _ ih =>
    intro cur S hg hw
    have hs := good_step hg hw
    have := ih hs.2 e
    intro hin; exact this (by simp [hin])

theorem good_reach {fs : FS} {root : URI} {u y : URI} (hr : Reach fs u y) :
    ∀ {S : List URI}, Good fs root u S → ∃ S', Good fs root y S' := by
  induction hr with
  | refl u => intro S hg; exact ⟨S, hg⟩
  | step e _ ih => intro S hg; exact ih (good_step hg e).2

/-- a document that includes itself directly gets the dedicated error -/
theorem self_inner (fs : FS) (root : URI) (rec : Rec) (h : List URI) (hroot : root ∉ h) :
    (∀ n pb pre, root ∈ edgesN fs (resolveBase pb pre) n →
        XIncludeCircularInclusionDocIncludesSelf ∈ (procNode fs root rec h pb pre n).errs) ∧
    (∀ l pb pre, root ∈ edgesL fs (resolveBase pb pre) l →
        XIncludeCircularInclusionDocIncludesSelf ∈ (procList fs root rec h pb pre l).errs) := by
  apply node_induct
  · intro n a b kids ih pb pre hw
    rw [procNode]; rw [edgesN] at hw
    apply ih _ .inherit
    rw [resolveBase_inherit, resolveBase_applyPre]; exact hw
  · intro k t cs pb pre hw; rw [edgesN] at hw; simp at hw
  · intro href parse enc ib hasFb fb ih pb pre hw
    rw [edgesN] at hw
    simp only [targetOf] at hw
    rw [procNode]
    simp only []
    rw [resolveBase_applyPre]
    split
    · next d e hf =>
      obtain ⟨_, h2, _, _, _, hfe⟩ := fetchM_doc hf
      rw [hfe] at hw
      simp only [List.mem_singleton] at hw
      exact absurd hw.symm h2
    · next cs e hf =>
      obtain ⟨_, _, hfe⟩ := fetchM_text hf
      rw [hfe] at hw; simp at hw
    · next e hf =>
      rcases fetchM_none hf with ⟨h1, _⟩ | ⟨hp, hin, rfl⟩ | ⟨_, _, _, rfl⟩
      · rw [h1] at hw
        cases hasFb
        · simp at hw
        · simp only [if_true] at hw ⊢
          have := ih pb (applyPre pre ib) (by rw [resolveBase_applyPre]; exact hw)
          simp [this]
      · -- the target is on the history stack (and `root` is not)
        cases hd : fs.doc (resolve (resolveBase (resolveBase pb pre) ib) href) with
        | some d =>
          exfalso
          rw [fetch_doc_of_ne_text hp hd] at hw
          simp only [List.mem_singleton] at hw
          exact hroot (hw ▸ hin)
        | none =>
          have : fetch fs (resolve (resolveBase (resolveBase pb pre) ib) href) parse enc = .none := by
            cases parse <;> simp [fetch, hd] at hp ⊢
          rw [this] at hw
          cases hasFb
          · simp at hw
          · simp only [if_true] at hw ⊢
            have := ih pb (applyPre pre ib) (by rw [resolveBase_applyPre]; exact hw)
            simp [this]
      · cases hasFb <;> simp
  · intro k a b kids _ pb pre hw; rw [edgesN] at hw; simp at hw
  · intro b kids _ pb pre hw; rw [edgesN] at hw; simp at hw
  · intro pb pre hw; rw [edgesL] at hw; simp at hw
  · intro n ns ihn ihs pb pre hw
    rw [procList]
    simp only []
    rw [edgesL] at hw
    rcases List.mem_append.mp hw with hw | hw
    · exact List.mem_append_left _ (ihn pb pre hw)
    · exact List.mem_append_right _ (ihs pb pre hw)

end XV.Lemmas.XInclude
