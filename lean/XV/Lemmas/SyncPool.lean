/-
Lemmas about the synchronized string pool model: id stability and linearizability.
-/
import XV.Model.SyncPool
namespace XV.Lemmas.SyncPool
open XV.Model.SyncPool

/-! ### `idOf` -/

theorem idOf_eq_zero_iff (l : List String) (s : String) : idOf l s = 0 ↔ s ∉ l := by
  induction l with
  | nil => simp [idOf]
  | cons x xs ih =>
    simp only [idOf, List.mem_cons, not_or]
    by_cases hx : x = s
    · simp [hx]
    · simp only [hx, if_false]
      cases h : idOf xs s with
      | zero => simp only [true_iff]; exact ⟨fun e => hx e.symm, ih.1 h⟩
      | succ k =>
        simp only [Nat.add_eq_zero_iff, false_iff, not_and, reduceCtorEq, and_false]
        intro _ hn; rw [← ih, h] at hn; cases hn

theorem idOf_get (l : List String) (s : String) (k : Nat) (h : idOf l s = k + 1) : l[k]? = some s := by
  induction l generalizing k with
  | nil => simp [idOf] at h
  | cons x xs ih =>
    simp only [idOf] at h
    by_cases hx : x = s
    · simp only [hx, if_true] at h
      have : k = 0 := by omega
      subst this; simp [hx]
    · simp only [hx, if_false] at h
      cases h' : idOf xs s with
      | zero => rw [h'] at h; simp at h
      | succ j =>
        rw [h'] at h
        have : k = j + 1 := by simp at h; omega
        subst this
        simpa using ih j h'

theorem idOf_le (l : List String) (s : String) : idOf l s ≤ l.length := by
  induction l with
  | nil => simp [idOf]
  | cons x xs ih =>
    simp only [idOf, List.length_cons]
    by_cases hx : x = s
    · simp [hx]
    · simp only [hx, if_false]
      cases h' : idOf xs s with
      | zero => simp
      | succ j => rw [h'] at ih; simp; omega

theorem idOf_append_left (l m : List String) (s : String) (h : idOf l s ≠ 0) : idOf (l ++ m) s = idOf l s := by
  induction l with
  | nil => simp [idOf] at h
  | cons x xs ih =>
    simp only [List.cons_append, idOf] at h ⊢
    by_cases hx : x = s
    · simp [hx]
    · simp only [hx, if_false] at h ⊢
      cases h' : idOf xs s with
      | zero => rw [h'] at h; simp at h
      | succ j => rw [ih (by rw [h']; simp), h']

theorem idOf_append_new (l : List String) (s : String) (h : s ∉ l) : idOf (l ++ [s]) s = l.length + 1 := by
  induction l with
  | nil => simp [idOf]
  | cons x xs ih =>
    simp only [List.mem_cons, not_or] at h
    have hx : ¬ x = s := fun e => h.1 e.symm
    simp only [List.cons_append, idOf, hx, if_false, ih h.2, List.length_cons]

theorem idOf_of_get (l : List String) (hn : l.Nodup) (s : String) (k : Nat) (h : l[k]? = some s) :
    idOf l s = k + 1 := by
  induction l generalizing k with
  | nil => simp at h
  | cons x xs ih =>
    rw [List.nodup_cons] at hn
    cases k with
    | zero => simp at h; simp [idOf, h]
    | succ j =>
      simp only [List.getElem?_cons_succ] at h
      have hmem : s ∈ xs := List.mem_of_getElem? h
      have hx : ¬ x = s := fun e => hn.1 (e ▸ hmem)
      simp only [idOf, hx, if_false, ih hn.2 j h]

/-! ### well-formedness, extension -/

def WF (p : SSP) : Prop :=
  p.const.strs.Nodup ∧ p.over.strs.Nodup ∧ ∀ s, s ∈ p.const.strs → s ∉ p.over.strs

/-- `p'` is a later state of `p`: same const pool, overflow pool only appended to -/
def Ext (p p' : SSP) : Prop := p'.const = p.const ∧ ∃ m, p'.over.strs = p.over.strs ++ m

theorem ext_refl (p : SSP) : Ext p p := ⟨rfl, [], by simp⟩
theorem ext_trans {p q r : SSP} (h1 : Ext p q) (h2 : Ext q r) : Ext p r := by
  obtain ⟨c1, m1, e1⟩ := h1
  obtain ⟨c2, m2, e2⟩ := h2
  exact ⟨c2.trans c1, m1 ++ m2, by rw [e2, e1, List.append_assoc]⟩

theorem phase2_over (cc : Nat) (o : Pool) (op : Op) :
    (phase2 cc o op).1 = o ∨ ∃ s, op = .addOrFind s ∧ idOf o.strs s = 0 ∧ (phase2 cc o op).1 = ⟨o.strs ++ [s]⟩ := by
  cases op with
  | addOrFind s =>
    simp only [phase2, Pool.addOrFind]
    by_cases h : idOf o.strs s = 0
    · right; exact ⟨s, rfl, h, by simp [h]⟩
    · left; simp [h]
  | _ => left; rfl

theorem atomic_const (p : SSP) (op : Op) : (atomic p op).1.const = p.const := by
  unfold atomic; cases phase1 p.const op <;> rfl

theorem atomic_ext (p : SSP) (op : Op) : Ext p (atomic p op).1 := by
  refine ⟨atomic_const p op, ?_⟩
  unfold atomic
  cases phase1 p.const op with
  | some r => exact ⟨[], by simp⟩
  | none =>
    rcases phase2_over p.const.count p.over op with h | ⟨s, _, _, h⟩
    · exact ⟨[], by simp [h]⟩
    · exact ⟨[s], by simp [h]⟩

theorem atomic_wf (p : SSP) (hw : WF p) (op : Op) : WF (atomic p op).1 := by
  unfold atomic
  cases h1 : phase1 p.const op with
  | some r => exact hw
  | none =>
    rcases phase2_over p.const.count p.over op with h | ⟨s, rfl, hs, h⟩
    · simp only [h]; exact hw
    · simp only [h]
      have hnot : s ∉ p.over.strs := (idOf_eq_zero_iff _ _).1 hs
      have hc : s ∉ p.const.strs := by
        simp only [phase1, Pool.getId] at h1
        by_cases hz : idOf p.const.strs s = 0
        · exact (idOf_eq_zero_iff _ _).1 hz
        · simp [hz] at h1
      refine ⟨hw.1, ?_, ?_⟩
      · exact List.nodup_append.2 ⟨hw.2.1, by simp, by
          intro a ha b hb; simp at hb; subst hb; intro e; subst e; exact hnot ha⟩
      · intro x hx; simp only [List.mem_append, List.mem_singleton, not_or]
        exact ⟨hw.2.2 x hx, fun e => hc (e ▸ hx)⟩

theorem valueOf_ext {p p' : SSP} (h : Ext p p') (id : Nat) (s : String) (hv : valueOf p id = some s) :
    valueOf p' id = some s := by
  obtain ⟨hc, m, hm⟩ := h
  unfold valueOf at hv ⊢
  rw [hc]
  by_cases h0 : id = 0
  · simp [h0] at hv
  · simp only [h0, if_false] at hv ⊢
    by_cases h1 : id ≤ p.const.count
    · simpa [h1] using hv
    · simp only [h1, if_false] at hv ⊢
      rw [hm]
      have hlt : id - p.const.count - 1 < p.over.strs.length := by
        rcases Nat.lt_or_ge (id - p.const.count - 1) p.over.strs.length with h | h
        · exact h
        · rw [List.getElem?_eq_none h] at hv; cases hv
      rw [List.getElem?_append_left hlt]; exact hv

theorem valueOf_const (p : SSP) (id : Nat) (h0 : id ≠ 0) (h1 : id ≤ p.const.strs.length) :
    valueOf p id = p.const.strs[id - 1]? := by
  unfold valueOf Pool.count; rw [if_neg h0, if_pos h1]

theorem valueOf_over (p : SSP) (id : Nat) (h1 : ¬ id ≤ p.const.strs.length) :
    valueOf p id = p.over.strs[id - p.const.strs.length - 1]? := by
  unfold valueOf Pool.count; rw [if_neg (by omega), if_neg h1]

theorem atomic_valueForId (p : SSP) (id : Nat) : atomic p (.valueForId id) = (p, resOfValue (valueOf p id)) := by
  unfold atomic valueOf
  simp only [phase1, phase2, Pool.valueForId]
  by_cases h1 : id ≤ p.const.count
  · by_cases h0 : id = 0 <;> simp [h1, h0]
  · have h0 : ¬ id = 0 := by omega
    have h2 : ¬ id - p.const.count = 0 := by omega
    simp [h1, h0, h2]

theorem atomic_addOrFind (p : SSP) (s : String) :
    ∃ k, (atomic p (.addOrFind s)).2 = .id k ∧ k ≠ 0 ∧ valueOf (atomic p (.addOrFind s)).1 k = some s := by
  unfold atomic
  simp only [phase1, Pool.getId]
  by_cases hc : idOf p.const.strs s = 0
  · simp only [hc, ne_eq, not_true_eq_false, if_false, phase2, Pool.addOrFind, Pool.count]
    by_cases ho : idOf p.over.strs s = 0
    · refine ⟨p.over.strs.length + 1 + p.const.strs.length, by simp [ho], by omega, ?_⟩
      simp only [ho, if_true]
      have e : p.over.strs.length + 1 + p.const.strs.length - p.const.strs.length - 1 = p.over.strs.length := by omega
      rw [valueOf_over _ _ (by dsimp only; omega)]; dsimp only; rw [e]; simp
    · obtain ⟨j, hj⟩ : ∃ j, idOf p.over.strs s = j + 1 := ⟨idOf p.over.strs s - 1, by omega⟩
      refine ⟨j + 1 + p.const.strs.length, by simp [hj], by omega, ?_⟩
      simp only [ho, if_false]
      have e : j + 1 + p.const.strs.length - p.const.strs.length - 1 = j := by omega
      rw [valueOf_over _ _ (by dsimp only; omega)]; dsimp only; rw [e]; exact idOf_get _ _ _ hj
  · obtain ⟨j, hj⟩ : ∃ j, idOf p.const.strs s = j + 1 := ⟨idOf p.const.strs s - 1, by omega⟩
    refine ⟨j + 1, by simp [hj], by omega, ?_⟩
    simp only [hc, ne_eq, not_false_eq_true, if_true]
    have hle := idOf_le p.const.strs s
    rw [valueOf_const _ _ (by omega) (by omega)]
    simpa using idOf_get _ _ _ hj

theorem atomic_getId (p : SSP) (s : String) :
    (atomic p (.getId s)).1 = p ∧
    ∃ k, (atomic p (.getId s)).2 = .id k ∧ (k = 0 → s ∉ p.const.strs ∧ s ∉ p.over.strs) ∧
      (k ≠ 0 → valueOf p k = some s) := by
  unfold atomic
  simp only [phase1, Pool.getId]
  by_cases hc : idOf p.const.strs s = 0
  · simp only [hc, ne_eq, not_true_eq_false, if_false, phase2, Pool.getId, true_and]
    by_cases ho : idOf p.over.strs s = 0
    · exact ⟨0, by simp [ho], fun _ => ⟨(idOf_eq_zero_iff _ _).1 hc, (idOf_eq_zero_iff _ _).1 ho⟩, fun h => absurd rfl h⟩
    · obtain ⟨j, hj⟩ : ∃ j, idOf p.over.strs s = j + 1 := ⟨idOf p.over.strs s - 1, by omega⟩
      refine ⟨j + 1 + p.const.count, by simp [hj], fun h => by omega, fun _ => ?_⟩
      have e : j + 1 + p.const.strs.length - p.const.strs.length - 1 = j := by omega
      show valueOf p (j + 1 + p.const.strs.length) = some s
      rw [valueOf_over _ _ (by omega), e]; exact idOf_get _ _ _ hj
  · obtain ⟨j, hj⟩ : ∃ j, idOf p.const.strs s = j + 1 := ⟨idOf p.const.strs s - 1, by omega⟩
    simp only [hc, ne_eq, not_false_eq_true, if_true, true_and]
    refine ⟨j + 1, by simp [hj], fun h => by omega, fun _ => ?_⟩
    have hle := idOf_le p.const.strs s
    rw [valueOf_const _ _ (by omega) (by omega)]
    simpa using idOf_get _ _ _ hj

/-- an id denotes at most one string and a string has at most one id -/
theorem atomic_of_valueOf (p : SSP) (hw : WF p) (k : Nat) (s : String) (hv : valueOf p k = some s) :
    atomic p (.addOrFind s) = (p, .id k) ∧ atomic p (.getId s) = (p, .id k) := by
  unfold valueOf at hv
  by_cases h0 : k = 0
  · simp [h0] at hv
  · simp only [h0, if_false] at hv
    by_cases h1 : k ≤ p.const.count
    · simp only [h1, if_true] at hv
      have hid := idOf_of_get _ hw.1 s (k - 1) hv
      have hk : k - 1 + 1 = k := by omega
      rw [hk] at hid
      unfold atomic
      simp [phase1, Pool.getId, hid, h0]
    · simp only [h1, if_false] at hv
      have hid := idOf_of_get _ hw.2.1 s (k - p.const.count - 1) hv
      have hk : k - p.const.count - 1 + 1 + p.const.count = k := by omega
      have hmem : s ∈ p.over.strs := List.mem_of_getElem? hv
      have hc : idOf p.const.strs s = 0 := (idOf_eq_zero_iff _ _).2 (fun h => hw.2.2 s h hmem)
      unfold atomic
      simp [phase1, phase2, Pool.getId, Pool.addOrFind, hc, hid, hk]

/-! ### sequences of operations -/

theorem runAtomic_ext (p : SSP) (ops : List Op) : Ext p (runAtomic p ops).1 := by
  induction ops generalizing p with
  | nil => exact ext_refl p
  | cons op ops ih => exact ext_trans (atomic_ext p op) (ih _)

theorem runAtomic_wf (p : SSP) (hw : WF p) (ops : List Op) : WF (runAtomic p ops).1 := by
  induction ops generalizing p with
  | nil => exact hw
  | cons op ops ih => exact ih _ (atomic_wf p hw op)

theorem runAtomic_append (p : SSP) (a : List Op) (op : Op) :
    runAtomic p (a ++ [op]) =
      ((atomic (runAtomic p a).1 op).1, (runAtomic p a).2 ++ [(atomic (runAtomic p a).1 op).2]) := by
  induction a generalizing p with
  | nil => simp [runAtomic]
  | cons x xs ih => simp [runAtomic, ih]

/-! ### linearizability of the fine-grained system -/

structure LInv (p0 : SSP) (prog0 : Thread → List Op) (s : Sys) : Prop where
  lin : runAtomic p0 (s.log.map (·.2.1)) = (s.pool, s.log.map (·.2.2))
  const : s.pool.const = p0.const
  pend : ∀ t op, s.pending t = some op → phase1 p0.const op = none
  order : ∀ t, ((s.log.filter (·.1 == t)).map (·.2.1)) ++ (s.pending t).toList ++ s.prog t = prog0 t

theorem linv_init (p0 : SSP) (prog0 : Thread → List Op) : LInv p0 prog0 (Sys.init p0 prog0) := by
  constructor <;> simp [Sys.init, runAtomic]

theorem updF_same {α : Type} (f : Thread → α) (t : Thread) (a : α) : updF f t a t = a := by simp [updF]
theorem updF_other {α : Type} (f : Thread → α) {t t' : Thread} (a : α) (h : t' ≠ t) : updF f t a t' = f t' := by
  simp [updF, h]

theorem linv_step (p0 : SSP) (prog0 : Thread → List Op) (s : Sys) (t : Thread) (hi : LInv p0 prog0 s) :
    LInv p0 prog0 (s.step t) := by
  unfold Sys.step
  cases hp : s.pending t with
  | some op =>
    have hph := hi.pend t op hp
    have hat : atomic s.pool op =
        ({ s.pool with over := (phase2 s.pool.const.count s.pool.over op).1 },
          (phase2 s.pool.const.count s.pool.over op).2) := by
      have h1 : phase1 s.pool.const op = none := by rw [hi.const]; exact hph
      unfold atomic; rw [h1]
    refine ⟨?_, hi.const, ?_, ?_⟩
    · simp only [List.map_append, List.map_cons, List.map_nil]
      rw [runAtomic_append, hi.lin]; simp only; rw [hat]
    · intro t' op'
      by_cases h : t' = t
      · subst h; simp [updF_same]
      · simp only [updF_other _ _ h]; exact hi.pend t' op'
    · intro t'
      have := hi.order t'
      by_cases h : t' = t
      · subst h
        simp only [updF_same, List.filter_append, List.map_append]
        rw [hp] at this
        simpa using this
      · have hne : (t == t') = false := by simp; exact fun e => h e.symm
        simp only [updF_other _ _ h, List.filter_append, List.map_append]
        simpa [List.filter, hne] using this
  | none =>
    cases hpr : s.prog t with
    | nil => exact hi
    | cons op rest =>
      simp only
      cases hph : phase1 s.pool.const op with
      | some r =>
        have hat : atomic s.pool op = (s.pool, r) := by unfold atomic; rw [hph]
        refine ⟨?_, hi.const, hi.pend, ?_⟩
        · simp only [List.map_append, List.map_cons, List.map_nil]
          rw [runAtomic_append, hi.lin]; simp only; rw [hat]
        · intro t'
          have := hi.order t'
          by_cases h : t' = t
          · subst h
            simp only [updF_same, List.filter_append, List.map_append]
            rw [hp, hpr] at this
            simpa [hp] using this
          · have hne : (t == t') = false := by simp; exact fun e => h e.symm
            simp only [updF_other _ _ h, List.filter_append, List.map_append]
            simpa [List.filter, hne] using this
      | none =>
        refine ⟨hi.lin, hi.const, ?_, ?_⟩
        · intro t' op'
          by_cases h : t' = t
          · subst h; simp only [updF_same, Option.some.injEq]; intro e; subst e; rw [← hi.const]; exact hph
          · simp only [updF_other _ _ h]; exact hi.pend t' op'
        · intro t'
          have := hi.order t'
          by_cases h : t' = t
          · subst h
            simp only [updF_same]
            rw [hp, hpr] at this
            simpa using this
          · simp only [updF_other _ _ h]; exact this

theorem linv_run (p0 : SSP) (prog0 : Thread → List Op) (sched : List Thread) (s : Sys) (hi : LInv p0 prog0 s) :
    LInv p0 prog0 (s.run sched) := by
  unfold Sys.run
  induction sched generalizing s with
  | nil => exact hi
  | cons t ts ih => exact ih _ (linv_step p0 prog0 s t hi)

end XV.Lemmas.SyncPool
