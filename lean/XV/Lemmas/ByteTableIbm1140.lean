/- kernel-checked facts about the generated Ibm1140 tables (one module per table so that lake checks them in parallel) -/
import XV.Model.ByteCodec
namespace XV.Lemmas.ByteTableIbm1140
open XV.Model.ByteCodec XV.Gen.ByteTables

def WellFormed (t : Table) : Prop :=
    t.declaredToSize = t.toTable.length ∧ t.fromTable.length = 256 ∧ 0 < t.toTable.length ∧
    strictSorted (t.toTable.map (·.1)) = true ∧ t.toTable.getD 0 (1, 1) = (0, 0) ∧
    (∀ b, b < 256 → t.fromTable.getD b 0xFFFF ≠ 0xFFFF)

theorem wellformed : tblIbm1140.declaredToSize = tblIbm1140.toTable.length ∧ tblIbm1140.fromTable.length = 256 ∧ 0 < tblIbm1140.toTable.length ∧
    strictSorted (tblIbm1140.toTable.map (·.1)) = true ∧ tblIbm1140.toTable.getD 0 (1, 1) = (0, 0) ∧
    (∀ b, b < 256 → tblIbm1140.fromTable.getD b 0xFFFF ≠ 0xFFFF) := by decide +kernel

theorem roundtrip : ∀ b, b < 256 →
    tblIbm1140.fromTable.getD (lookup tblIbm1140.toTable (tblIbm1140.fromTable.getD b 0xFFFF)) 0xFFFF = tblIbm1140.fromTable.getD b 0xFFFF := by
  decide +kernel

theorem to_consistent : ∀ p ∈ tblIbm1140.toTable,
    p.2 < 256 ∧ p.1 < 65536 ∧ (p.1 ∈ tblIbm1140.fromTable → tblIbm1140.fromTable.getD p.2 0xFFFF = p.1) := by decide +kernel

end XV.Lemmas.ByteTableIbm1140
