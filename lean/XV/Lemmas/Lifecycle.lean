/- Helper lemmas for C18: the Initialize/Terminate counter machine. -/
import XV.Model.Lifecycle
namespace XV.Lemmas.Lifecycle
open XV.Model.Lifecycle

/-- `dflt (n-1), …, dflt 0`: every default manager created so far, most recent first. -/
def allDefaults (n : Nat) : List Mgr := ((List.range n).map Mgr.dflt).reverse

theorem allDefaults_succ (n : Nat) : allDefaults (n + 1) = Mgr.dflt n :: allDefaults n := by
  simp [allDefaults, List.range_succ]

/-! ### the three functions, case by case -/

theorem initLib_sat (c : Cfg) (s : St) (a : Option Nat) (h : s.flag = c.longMax) : initLib c s a = s := by
  simp [initLib, h]

theorem initLib_nested (c : Cfg) (s : St) (a : Option Nat) (h0 : 0 < s.flag) (h : s.flag ≠ c.longMax) :
    initLib c s a = { s with flag := s.flag + 1 } := by
  simp [initLib, h]
  omega

theorem initLib_first_user (c : Cfg) (s : St) (u : Nat) (h0 : s.flag = 0) (h : c.longMax ≠ 0) (hm : s.mgr = none) :
    initLib c s (some u) = { s with flag := 1, mgr := some (.user u), adopted := false, up := true } := by
  have : ¬ (0 = c.longMax) := fun e => h e.symm
  simp [initLib, h0, hm, this]

theorem initLib_first_dflt (c : Cfg) (s : St) (h0 : s.flag = 0) (h : c.longMax ≠ 0) (hm : s.mgr = none) :
    initLib c s none = { s with flag := 1, mgr := some (.dflt s.made), made := s.made + 1, up := true } := by
  have : ¬ (0 = c.longMax) := fun e => h e.symm
  simp [initLib, h0, hm, this]

theorem termLib_zero (c : Cfg) (s : St) (h : s.flag = 0) : termLib c s = s := by
  simp [termLib, h]

theorem termLib_nested (c : Cfg) (s : St) (h : 1 < s.flag) : termLib c s = { s with flag := s.flag - 1 } := by
  have h1 : s.flag ≠ 0 := by omega
  have h2 : s.flag - 1 > 0 := by omega
  simp [termLib, h1, h2]

theorem termLib_last (c : Cfg) (s : St) (h : s.flag = 1) :
    termLib c s =
      { s with flag := 0, up := false, mgr := none, adopted := true,
               heap := match c.reset with | some d => d | none => s.heap,
               deleted := if s.adopted then (match s.mgr with | some m => m :: s.deleted | none => s.deleted)
                          else s.deleted } := by
  cases hr : c.reset <;> cases ha : s.adopted <;> cases hm : s.mgr <;> simp [termLib, h, ha, hm, hr]

/-! ### reachable states -/

structure WF (s : St) : Prop where
  down : s.flag = 0 → s.mgr = none ∧ s.adopted = true ∧ s.up = false ∧ s.deleted = allDefaults s.made
  upA : 0 < s.flag → s.adopted = true →
    s.up = true ∧ 0 < s.made ∧ s.mgr = some (.dflt (s.made - 1)) ∧ s.deleted = allDefaults (s.made - 1)
  upU : 0 < s.flag → s.adopted = false →
    s.up = true ∧ (∃ u, s.mgr = some (.user u)) ∧ s.deleted = allDefaults s.made

theorem wf_init (h : Heap) : WF { heap := h } := by
  refine ⟨fun _ => ⟨rfl, rfl, rfl, rfl⟩, ?_, ?_⟩ <;> intro h0 <;> simp at h0

theorem wf_initLib (c : Cfg) (s : St) (a : Option Nat) (w : WF s) : WF (initLib c s a) := by
  by_cases hs : s.flag = c.longMax
  · rw [initLib_sat c s a hs]; exact w
  by_cases h0 : 0 < s.flag
  · rw [initLib_nested c s a h0 hs]
    refine ⟨?_, ?_, ?_⟩
    · intro h; simp at h
    · intro _ ha; exact w.upA h0 ha
    · intro _ ha; exact w.upU h0 ha
  · have hz : s.flag = 0 := by omega
    have hl : c.longMax ≠ 0 := by rw [hz] at hs; exact fun e => hs e.symm
    obtain ⟨hm, had, _, hdel⟩ := w.down hz
    cases a with
    | some u =>
      rw [initLib_first_user c s u hz hl hm]
      refine ⟨?_, ?_, ?_⟩
      · intro h; simp at h
      · intro _ ha; simp at ha
      · intro _ _; exact ⟨rfl, ⟨u, rfl⟩, hdel⟩
    | none =>
      rw [initLib_first_dflt c s hz hl hm]
      refine ⟨?_, ?_, ?_⟩
      · intro h; simp at h
      · intro _ _; exact ⟨rfl, by simp, by simp, by simpa using hdel⟩
      · intro _ ha; simp [had] at ha

theorem wf_termLib (c : Cfg) (s : St) (w : WF s) : WF (termLib c s) := by
  by_cases hz : s.flag = 0
  · rw [termLib_zero c s hz]; exact w
  by_cases h1 : 1 < s.flag
  · rw [termLib_nested c s h1]
    have h0 : 0 < s.flag := by omega
    refine ⟨?_, ?_, ?_⟩
    · intro h; simp at h; omega
    · intro _ ha; exact w.upA h0 ha
    · intro _ ha; exact w.upU h0 ha
  · have he : s.flag = 1 := by omega
    have h0 : 0 < s.flag := by omega
    rw [termLib_last c s he]
    refine ⟨?_, ?_, ?_⟩
    · intro _
      refine ⟨rfl, rfl, rfl, ?_⟩
      cases ha : s.adopted with
      | true =>
        obtain ⟨_, hm, hmgr, hdel⟩ := w.upA h0 ha
        simp [hmgr, hdel]
        have : s.made = (s.made - 1) + 1 := by omega
        rw [this, allDefaults_succ]; simp
      | false =>
        obtain ⟨_, _, hdel⟩ := w.upU h0 ha
        simp [hdel]
    · intro h; simp at h
    · intro h; simp at h

theorem wf_step (c : Cfg) (s : St) (op : Op) (w : WF s) : WF (step c s op) := by
  cases op with
  | init a => exact wf_initLib c s a w
  | initHeap h a =>
    simp only [step, initLibHeap]
    have w' := wf_initLib c s a w
    split
    · exact ⟨w'.down, w'.upA, w'.upU⟩
    · exact w'
  | term => exact wf_termLib c s w

theorem wf_run (c : Cfg) (ops : List Op) : ∀ s, WF s → WF (run c s ops) := by
  induction ops with
  | nil => intro s w; exact w
  | cons op ops ih => intro s w; exact ih _ (wf_step c s op w)

theorem initLib_flag_le (c : Cfg) (s : St) (a : Option Nat) : (initLib c s a).flag ≤ s.flag + 1 := by
  by_cases hs : s.flag = c.longMax
  · rw [initLib_sat c s a hs]; omega
  by_cases h0 : 0 < s.flag
  · rw [initLib_nested c s a h0 hs]; simp
  · have hz : s.flag = 0 := by omega
    simp only [initLib, hs]
    simp [hz]
    split <;> (try split) <;> simp

theorem termLib_flag_le (c : Cfg) (s : St) : (termLib c s).flag ≤ s.flag - 1 := by
  by_cases hz : s.flag = 0
  · rw [termLib_zero c s hz]; omega
  by_cases h1 : 1 < s.flag
  · rw [termLib_nested c s h1]; simp
  · have he : s.flag = 1 := by omega
    rw [termLib_last c s he]; simp

theorem step_flag_le (c : Cfg) (s : St) (op : Op) :
    (step c s op).flag ≤ (match op with | .term => s.flag - 1 | _ => s.flag + 1) := by
  cases op with
  | init a => exact initLib_flag_le c s a
  | initHeap h a =>
    simp only [step, initLibHeap]
    split <;> exact initLib_flag_le c s a
  | term => exact termLib_flag_le c s

theorem balanced_flag_zero (c : Cfg) (ops : List Op) : ∀ (d : Nat) (s : St), s.flag ≤ d →
    balancedFrom d ops = true → (run c s ops).flag = 0 := by
  induction ops with
  | nil =>
    intro d s hle hb
    simp [balancedFrom] at hb
    simp [run]; omega
  | cons op ops ih =>
    intro d s hle hb
    have hf := step_flag_le c s op
    cases op with
    | term =>
      simp [balancedFrom] at hb
      exact ih (d - 1) _ (by simp at hf; omega) hb.2
    | init a =>
      simp [balancedFrom] at hb
      exact ih (d + 1) _ (by simp at hf; omega) hb
    | initHeap h a =>
      simp [balancedFrom] at hb
      exact ih (d + 1) _ (by simp at hf; omega) hb

/-- With a resetting `Terminate`, the DOM heap sizes are the defaults whenever the library is down. -/
def HeapDown (c : Cfg) (s : St) : Prop := ∀ d, c.reset = some d → s.flag = 0 → s.heap = d

theorem heapDown_step (c : Cfg) (s : St) (op : Op) (w : HeapDown c s) (hl : 1 < c.longMax) :
    HeapDown c (step c s op) := by
  intro d hd hz
  cases op with
  | init a =>
    simp only [step] at hz ⊢
    by_cases hs : s.flag = c.longMax
    · rw [initLib_sat c s a hs] at hz ⊢; exact w d hd hz
    by_cases h0 : 0 < s.flag
    · rw [initLib_nested c s a h0 hs] at hz; simp at hz
    · have hz' : s.flag = 0 := by omega
      exfalso
      simp only [initLib, hs] at hz
      simp [hz'] at hz
      revert hz
      split <;> (try split) <;> simp
  | initHeap h a =>
    simp only [step, initLibHeap] at hz ⊢
    by_cases hs : s.flag = c.longMax
    · rw [initLib_sat c s a hs] at hz ⊢
      split at hz
      · simp at hz; omega
      · rename_i h1
        simp [h1]
        exact w d hd hz
    by_cases h0 : 0 < s.flag
    · rw [initLib_nested c s a h0 hs] at hz
      split at hz <;> simp at hz
    · have hz' : s.flag = 0 := by omega
      exfalso
      simp only [initLib, hs] at hz
      simp [hz'] at hz
      revert hz
      split <;> (try split) <;> simp
  | term =>
    simp only [step] at hz ⊢
    by_cases hz0 : s.flag = 0
    · rw [termLib_zero c s hz0]; exact w d hd hz0
    by_cases h1 : 1 < s.flag
    · rw [termLib_nested c s h1] at hz; simp at hz; omega
    · have he : s.flag = 1 := by omega
      rw [termLib_last c s he]; simp [hd]

theorem heapDown_run (c : Cfg) (hl : 1 < c.longMax) (ops : List Op) : ∀ s, HeapDown c s → HeapDown c (run c s ops) := by
  induction ops with
  | nil => intro s w; exact w
  | cons op ops ih => intro s w; exact ih _ (heapDown_step c s op w hl)

end XV.Lemmas.Lifecycle
