/-
C04/C01 helper lemmas, part 5: the constructors.  Both establish the index invariant; the
auto-sensing constructor (basicEncodingProbe + doInitDecode) depends on the partition of the
stream only through its FIRST read.
-/
import XV.Lemmas.ReaderReach
namespace XV.Lemmas.ReaderCtor
open XV.Gen.ReaderConsts
open XV.Model.Utf8 XV.Model.Reader XV.Spec.Reader
open XV.Lemmas.ReaderDec XV.Lemmas.ReaderInv XV.Lemmas.ReaderDeliver XV.Lemmas.ReaderReach
set_option maxRecDepth 8000

/-! ### the pre-decoding loops -/

theorem initLoop8_len (cap : Nat) : ∀ (l : List Nat) (a : Nat) (cs : List Nat), initLoop8 cap l a = some cs →
    cs.length ≤ l.length ∧ (a ≤ cap - 1 → a + cs.length ≤ cap - 1) := by
  intro l
  induction l with
  | nil => intro a cs h; simp [initLoop8] at h; subst h; simp
  | cons b rest ih =>
    intro a cs h
    unfold initLoop8 at h
    split at h
    · cases h
    · rename_i hne
      have hne' : a ≠ cap - 1 := by simpa using hne
      split at h
      · cases h; exact ⟨by simp, fun ha => by simp; omega⟩
      · split at h
        · cases h
        · cases hr : initLoop8 cap rest (a + 1) with
          | none => simp [hr] at h
          | some cs' =>
            simp [hr] at h
            subst h
            obtain ⟨h1, h2⟩ := ih (a + 1) cs' hr
            exact ⟨by simp; omega, fun ha => by have := h2 (by omega); simp; omega⟩

def unit16 (le : Bool) (x y : Nat) : Nat := if le then x + 256 * y else 256 * x + y

theorem initLoop16_cons (le : Bool) (cap x y : Nat) (rest : List Nat) (a : Nat) :
    initLoop16 le cap (x :: y :: rest) a =
      if (a == cap - 1) = true then none
      else if (unit16 le x y == chCloseAngle) = true then some [unit16 le x y]
      else (initLoop16 le cap rest (a + 1)).map (unit16 le x y :: ·) := rfl

theorem initLoop16_len (le : Bool) (cap : Nat) : ∀ (n : Nat) (l : List Nat), l.length ≤ n → ∀ (a : Nat) (cs : List Nat),
    initLoop16 le cap l a = some cs → 2 * cs.length ≤ l.length ∧ (a ≤ cap - 1 → a + cs.length ≤ cap - 1) := by
  intro n
  induction n using Nat.strongRecOn with
  | _ n ih =>
    intro l hl a cs h
    rcases l with _ | ⟨x, _ | ⟨y, rest⟩⟩
    · simp [initLoop16] at h; subst h; simp
    · simp [initLoop16] at h
    · rw [initLoop16_cons] at h
      by_cases h1 : (a == cap - 1) = true
      · rw [if_pos h1] at h; cases h
      · rw [if_neg h1] at h
        have hne' : a ≠ cap - 1 := by simpa using h1
        by_cases h2 : (unit16 le x y == chCloseAngle) = true
        · rw [if_pos h2] at h
          cases h
          exact ⟨by simp, fun ha => by simp; omega⟩
        · rw [if_neg h2] at h
          cases hr : initLoop16 le cap rest (a + 1) with
          | none => rw [hr] at h; cases h
          | some cs' =>
            rw [hr] at h
            simp only [Option.map_some, Option.some.injEq] at h
            subst h
            obtain ⟨h1', h2'⟩ := ih (n - 2) (by simp at hl; omega) rest (by simp at hl; omega) (a + 1) cs' hr
            exact ⟨by simp; omega, fun ha => by have := h2' (by omega); simp; omega⟩

/-! ### invariants of the construction steps -/

/-- a reader whose character side is still empty (as the constructors find it) with room for the PE space -/
structure Fresh (r : Reader) : Prop where
  inv : Inv r
  idx : r.charIdx = 0
  avail : r.charsAvail = 0
  cb : 1 ≤ r.cfg.charBufSize

theorem setEnc_fresh (r : Reader) (e : Enc) (h : Fresh r) : Fresh (setEnc r e) :=
  ⟨⟨h.inv.raw_len, h.inv.raw_le, h.inv.char_len, h.inv.char_le, h.inv.size_len, h.inv.fuel_ok⟩, h.idx, h.avail, h.cb⟩

theorem skipRaw_fresh (r : Reader) (n : Nat) (h : Fresh r) (hn : n ≤ r.rawWin.length) : Fresh (skipRaw r n) :=
  ⟨skipRaw_inv r n h.inv hn, h.idx, h.avail, h.cb⟩

theorem take_eq_len {l : List Nat} {n : Nat} {p : List Nat} (h : (l.take n == p) = true) (hp : p.length = n) : n ≤ l.length := by
  have : l.take n = p := by simpa using h
  have := congrArg List.length this
  simp only [List.length_take] at this
  omega

theorem skipBom8_fresh (r : Reader) (h : Fresh r) : Fresh (skipBom8 r) := by
  unfold skipBom8
  split
  · rename_i hc
    simp only [Bool.and_eq_true] at hc
    exact skipRaw_fresh r _ h (take_eq_len hc.2 (by decide))
  · exact h

theorem skipBom16_fresh (r : Reader) (h : Fresh r) : Fresh (skipBom16 r) := by
  unfold skipBom16
  split
  · rename_i hc
    simp only [Bool.or_eq_true] at hc
    rcases hc with hc | hc
    · exact skipRaw_fresh r _ h (take_eq_len hc (by decide))
    · exact skipRaw_fresh r _ h (take_eq_len hc (by decide))
  · exact h

/-- the reader produced by initFinish -/
theorem initFinish_cinv (r : Reader) (h : Inv r) (hroom : r.charsAvail + 1 ≤ r.cfg.charBufSize) :
    match initFinish r with
    | .ok r' => CInv r'
    | _ => True := by
  unfold initFinish
  simp only []
  split
  · have h1 := h.char_len
    exact ⟨⟨h.raw_len, h.raw_le, by simp only [List.length_append, List.length_cons, List.length_nil]; omega, hroom,
      by simp only [List.length_append, h.size_len, List.length_cons, List.length_nil], h.fuel_ok⟩,
      by show 1 ≤ r.cfg.charBufSize; omega⟩
  · exact ⟨h, by omega⟩

theorem initFinish_fresh (r : Reader) (h : Fresh r) :
    match initFinish r with
    | .ok r' => CInv r'
    | _ => True :=
  initFinish_cinv r h.inv (by rw [h.avail]; exact h.cb)

theorem initChars_cinv (r : Reader) (cs : List Nat) (unit : Nat) (h : Fresh r)
    (hraw : unit * cs.length ≤ r.rawWin.length) (hlen : cs.length ≤ r.cfg.charBufSize - 1) :
    match initFinish (initChars r cs unit) with
    | .ok r' => CInv r'
    | _ => True := by
  have hi : Inv (initChars r cs unit) := by
    have h1 := h.inv.raw_len
    refine ⟨?_, h.inv.raw_le, ?_, ?_, ?_, h.inv.fuel_ok⟩
    · simp only [initChars, List.length_drop]; omega
    · simp only [initChars, h.idx]; omega
    · simp only [initChars]; have := h.cb; omega
    · simp only [initChars, List.length_replicate]
  exact initFinish_cinv _ hi (by simp only [initChars]; have := h.cb; omega)

theorem doInit8_eq (r0 : Reader) : doInit8 r0 =
    if (skipBom8 (setEnc r0 .utf8)).rawAvail < fgASCIIPre.length then initFinish (skipBom8 (setEnc r0 .utf8))
    else if (!(fgASCIIPre.isPrefixOf (skipBom8 (setEnc r0 .utf8)).rawWin)) = true then initFinish (skipBom8 (setEnc r0 .utf8))
    else match initLoop8 (skipBom8 (setEnc r0 .utf8)).cfg.charBufSize (skipBom8 (setEnc r0 .utf8)).rawWin
          (skipBom8 (setEnc r0 .utf8)).charsAvail with
      | none => .couldNotDecodeFirstLine
      | some cs => initFinish (initChars (skipBom8 (setEnc r0 .utf8)) cs 1) := rfl

theorem doInit8_cinv (r : Reader) (h : Fresh r) :
    match doInit8 r with
    | .ok r' => CInv r'
    | _ => True := by
  have hf := skipBom8_fresh _ (setEnc_fresh r .utf8 h)
  rw [doInit8_eq]
  by_cases h1 : (skipBom8 (setEnc r .utf8)).rawAvail < fgASCIIPre.length
  · rw [if_pos h1]; exact initFinish_fresh _ hf
  · rw [if_neg h1]
    by_cases h2 : (!(fgASCIIPre.isPrefixOf (skipBom8 (setEnc r .utf8)).rawWin)) = true
    · rw [if_pos h2]; exact initFinish_fresh _ hf
    · rw [if_neg h2]
      cases hl : initLoop8 (skipBom8 (setEnc r .utf8)).cfg.charBufSize (skipBom8 (setEnc r .utf8)).rawWin
          (skipBom8 (setEnc r .utf8)).charsAvail with
      | none => trivial
      | some cs =>
        simp only []
        obtain ⟨h1', h2'⟩ := initLoop8_len _ _ _ _ hl
        exact initChars_cinv _ cs 1 hf (by omega) (by rw [hf.avail] at h2'; have := h2' (Nat.zero_le _); omega)

def e16 (le : Bool) : Enc := if le then .utf16le else .utf16be

theorem doInit16_eq (le : Bool) (r0 : Reader) : doInit16 le r0 =
    if (setEnc r0 (e16 le)).rawAvail < 2 then initFinish (setEnc r0 (e16 le))
    else if (skipBom16 (setEnc r0 (e16 le))).rawAvail - (skipBom16 (setEnc r0 (e16 le))).rawIdx < fgUTF16BPre.length then
      initFinish (skipBom16 (setEnc r0 (e16 le)))
    else if (!((if le then fgUTF16LPre else fgUTF16BPre).isPrefixOf (skipBom16 (setEnc r0 (e16 le))).rawWin)) = true then
      initFinish (skipBom16 (setEnc r0 (e16 le)))
    else match initLoop16 le (skipBom16 (setEnc r0 (e16 le))).cfg.charBufSize (skipBom16 (setEnc r0 (e16 le))).rawWin
          (skipBom16 (setEnc r0 (e16 le))).charsAvail with
      | none => .couldNotDecodeFirstLine
      | some cs => initFinish (initChars (skipBom16 (setEnc r0 (e16 le))) cs 2) := rfl

theorem doInit16_cinv (le : Bool) (r : Reader) (h : Fresh r) :
    match doInit16 le r with
    | .ok r' => CInv r'
    | _ => True := by
  have hf0 := setEnc_fresh r (e16 le) h
  have hf := skipBom16_fresh _ hf0
  rw [doInit16_eq]
  by_cases h1 : (setEnc r (e16 le)).rawAvail < 2
  · rw [if_pos h1]; exact initFinish_fresh _ hf0
  · rw [if_neg h1]
    by_cases h2 : (skipBom16 (setEnc r (e16 le))).rawAvail - (skipBom16 (setEnc r (e16 le))).rawIdx < fgUTF16BPre.length
    · rw [if_pos h2]; exact initFinish_fresh _ hf
    · rw [if_neg h2]
      by_cases h3 : (!((if le then fgUTF16LPre else fgUTF16BPre).isPrefixOf (skipBom16 (setEnc r (e16 le))).rawWin)) = true
      · rw [if_pos h3]; exact initFinish_fresh _ hf
      · rw [if_neg h3]
        cases hl : initLoop16 le (skipBom16 (setEnc r (e16 le))).cfg.charBufSize (skipBom16 (setEnc r (e16 le))).rawWin
            (skipBom16 (setEnc r (e16 le))).charsAvail with
        | none => trivial
        | some cs =>
          simp only []
          obtain ⟨h1', h2'⟩ := initLoop16_len le _ _ _ (Nat.le_refl _) _ _ hl
          exact initChars_cinv _ cs 2 hf (by omega) (by rw [hf.avail] at h2'; have := h2' (Nat.zero_le _); omega)

theorem mkBase_fresh (cfg : Cfg) (nel ext pe : Bool) (s : List (List Nat)) (hcb : 1 ≤ cfg.charBufSize) :
    Fresh (refreshRawBuffer (mkBase cfg nel ext pe s)) :=
  ⟨refreshRaw_inv _ (mkBase_inv cfg nel ext pe s), rfl, rfl, hcb⟩

theorem mkAuto_eq (cfg : Cfg) (nel ext pe : Bool) (s : List (List Nat)) : mkAuto cfg nel ext pe s =
    doInitDecode (refreshRawBuffer (mkBase cfg nel ext pe s))
      (basicEncodingProbe (refreshRawBuffer (mkBase cfg nel ext pe s)).rawWin) := rfl

/-- the auto-sensing constructor establishes the invariant -/
theorem mkAuto_cinv (cfg : Cfg) (nel ext pe : Bool) (s : List (List Nat)) (hcb : 1 ≤ cfg.charBufSize) :
    match mkAuto cfg nel ext pe s with
    | .ok r => CInv r
    | _ => True := by
  have hf := mkBase_fresh cfg nel ext pe s hcb
  rw [mkAuto_eq]
  cases basicEncodingProbe (refreshRawBuffer (mkBase cfg nel ext pe s)).rawWin
  · exact doInit8_cinv _ hf
  · exact doInit16_cinv false _ hf
  · exact doInit16_cinv true _ hf
  · trivial
  · trivial
  · trivial

/-- the forced-encoding constructor establishes the invariant (PE readers included) -/
theorem mkForced_cinv (cfg : Cfg) (enc : Enc) (nel ext pe : Bool) (s : List (List Nat)) (hcb : 1 ≤ cfg.charBufSize) :
    CInv (mkForced cfg enc nel ext pe s) := by
  have hf := mkBase_fresh cfg nel ext pe s hcb
  have h1 := skipRaw_fresh _ (bomLen enc (refreshRawBuffer (mkBase cfg nel ext pe s)).rawWin) hf (bomLen_le _ _)
  unfold mkForced
  simp only []
  split
  · exact ⟨⟨h1.inv.raw_len, h1.inv.raw_le, by simp [skipRaw, h1.idx] <;> exact hf.idx, hcb, rfl, h1.inv.fuel_ok⟩, hcb⟩
  · exact ⟨⟨h1.inv.raw_len, h1.inv.raw_le, h1.inv.char_len, h1.inv.char_le, h1.inv.size_len, h1.inv.fuel_ok⟩, hcb⟩

/-! ### what doInitDecode leaves alone, and its independence of the rest of the stream -/

structure Keeps (r r' : Reader) : Prop where
  noMore : r'.noMore = r.noMore
  pe : r'.pe = r.pe
  cfg : r'.cfg = r.cfg
  nel : r'.nel = r.nel
  external : r'.external = r.external
  stream : r'.stream = r.stream
  xcoder : r'.xcoder = r.xcoder

theorem Keeps.refl (r : Reader) : Keeps r r := ⟨rfl, rfl, rfl, rfl, rfl, rfl, rfl⟩
theorem Keeps.trans {a b c : Reader} (h1 : Keeps a b) (h2 : Keeps b c) : Keeps a c :=
  ⟨h2.noMore.trans h1.noMore, h2.pe.trans h1.pe, h2.cfg.trans h1.cfg, h2.nel.trans h1.nel,
   h2.external.trans h1.external, h2.stream.trans h1.stream, h2.xcoder.trans h1.xcoder⟩

theorem keeps_setEnc (r : Reader) (e : Enc) : Keeps r (setEnc r e) := ⟨rfl, rfl, rfl, rfl, rfl, rfl, rfl⟩
theorem keeps_skipRaw (r : Reader) (n : Nat) : Keeps r (skipRaw r n) := ⟨rfl, rfl, rfl, rfl, rfl, rfl, rfl⟩
theorem keeps_initChars (r : Reader) (cs : List Nat) (u : Nat) : Keeps r (initChars r cs u) := ⟨rfl, rfl, rfl, rfl, rfl, rfl, rfl⟩
theorem keeps_skipBom8 (r : Reader) : Keeps r (skipBom8 r) := by
  unfold skipBom8; split
  · exact keeps_skipRaw _ _
  · exact Keeps.refl r
theorem keeps_skipBom16 (r : Reader) : Keeps r (skipBom16 r) := by
  unfold skipBom16; split
  · exact keeps_skipRaw _ _
  · exact Keeps.refl r

theorem keeps_initFinish (r r' : Reader) (h : initFinish r = .ok r') : Keeps r r' := by
  unfold initFinish at h
  simp only [MkRes.ok.injEq] at h
  subst h
  split
  · exact ⟨rfl, rfl, rfl, rfl, rfl, rfl, rfl⟩
  · exact Keeps.refl r

theorem keeps_doInitDecode (r r' : Reader) (fam : Family) (h : doInitDecode r fam = .ok r') : Keeps r r' := by
  unfold doInitDecode at h
  cases fam
  case utf8 =>
    simp only [] at h
    rw [doInit8_eq] at h
    have k0 := (keeps_setEnc r .utf8).trans (keeps_skipBom8 _)
    by_cases h1 : (skipBom8 (setEnc r .utf8)).rawAvail < fgASCIIPre.length
    · rw [if_pos h1] at h; exact k0.trans (keeps_initFinish _ _ h)
    · rw [if_neg h1] at h
      by_cases h2 : (!(fgASCIIPre.isPrefixOf (skipBom8 (setEnc r .utf8)).rawWin)) = true
      · rw [if_pos h2] at h; exact k0.trans (keeps_initFinish _ _ h)
      · rw [if_neg h2] at h
        cases hl : initLoop8 (skipBom8 (setEnc r .utf8)).cfg.charBufSize (skipBom8 (setEnc r .utf8)).rawWin
            (skipBom8 (setEnc r .utf8)).charsAvail with
        | none => rw [hl] at h; cases h
        | some cs => rw [hl] at h; exact (k0.trans (keeps_initChars _ cs 1)).trans (keeps_initFinish _ _ h)
  case utf16b =>
    simp only [] at h
    rw [doInit16_eq] at h
    have k00 := keeps_setEnc r (e16 false)
    have k0 := k00.trans (keeps_skipBom16 _)
    by_cases h1 : (setEnc r (e16 false)).rawAvail < 2
    · rw [if_pos h1] at h; exact k00.trans (keeps_initFinish _ _ h)
    · rw [if_neg h1] at h
      by_cases h2 : (skipBom16 (setEnc r (e16 false))).rawAvail - (skipBom16 (setEnc r (e16 false))).rawIdx < fgUTF16BPre.length
      · rw [if_pos h2] at h; exact k0.trans (keeps_initFinish _ _ h)
      · rw [if_neg h2] at h
        by_cases h3 : (!((if false = true then fgUTF16LPre else fgUTF16BPre).isPrefixOf (skipBom16 (setEnc r (e16 false))).rawWin)) = true
        · rw [if_pos h3] at h; exact k0.trans (keeps_initFinish _ _ h)
        · rw [if_neg h3] at h
          cases hl : initLoop16 false (skipBom16 (setEnc r (e16 false))).cfg.charBufSize (skipBom16 (setEnc r (e16 false))).rawWin
              (skipBom16 (setEnc r (e16 false))).charsAvail with
          | none => rw [hl] at h; cases h
          | some cs => rw [hl] at h; exact (k0.trans (keeps_initChars _ cs 2)).trans (keeps_initFinish _ _ h)
  case utf16l =>
    simp only [] at h
    rw [doInit16_eq] at h
    have k00 := keeps_setEnc r (e16 true)
    have k0 := k00.trans (keeps_skipBom16 _)
    by_cases h1 : (setEnc r (e16 true)).rawAvail < 2
    · rw [if_pos h1] at h; exact k00.trans (keeps_initFinish _ _ h)
    · rw [if_neg h1] at h
      by_cases h2 : (skipBom16 (setEnc r (e16 true))).rawAvail - (skipBom16 (setEnc r (e16 true))).rawIdx < fgUTF16BPre.length
      · rw [if_pos h2] at h; exact k0.trans (keeps_initFinish _ _ h)
      · rw [if_neg h2] at h
        by_cases h3 : (!((if true = true then fgUTF16LPre else fgUTF16BPre).isPrefixOf (skipBom16 (setEnc r (e16 true))).rawWin)) = true
        · rw [if_pos h3] at h; exact k0.trans (keeps_initFinish _ _ h)
        · rw [if_neg h3] at h
          cases hl : initLoop16 true (skipBom16 (setEnc r (e16 true))).cfg.charBufSize (skipBom16 (setEnc r (e16 true))).rawWin
              (skipBom16 (setEnc r (e16 true))).charsAvail with
          | none => rw [hl] at h; cases h
          | some cs => rw [hl] at h; exact (k0.trans (keeps_initChars _ cs 2)).trans (keeps_initFinish _ _ h)
  case ucs4b => cases h
  case ucs4l => cases h
  case ebcdic => cases h

/-- `r` with another stream behind it -/
def withStream (r : Reader) (st : List (List Nat)) (f : Nat) : Reader := { r with stream := st, fuel := f }

def mapMk (g : Reader → Reader) : MkRes → MkRes
  | .ok r => .ok (g r)
  | .couldNotDecodeFirstLine => .couldNotDecodeFirstLine
  | .unmodelled f => .unmodelled f

theorem initFinish_ws (r : Reader) (st : List (List Nat)) (f : Nat) :
    initFinish (withStream r st f) = mapMk (fun x => withStream x st f) (initFinish r) := by
  unfold initFinish mapMk withStream
  cases hpe : r.pe <;> simp [hpe]

theorem setEnc_ws (r : Reader) (e : Enc) (st : List (List Nat)) (f : Nat) :
    setEnc (withStream r st f) e = withStream (setEnc r e) st f := rfl
theorem skipRaw_ws (r : Reader) (n : Nat) (st : List (List Nat)) (f : Nat) :
    skipRaw (withStream r st f) n = withStream (skipRaw r n) st f := rfl
theorem initChars_ws (r : Reader) (cs : List Nat) (u : Nat) (st : List (List Nat)) (f : Nat) :
    initChars (withStream r st f) cs u = withStream (initChars r cs u) st f := rfl
theorem skipBom8_ws (r : Reader) (st : List (List Nat)) (f : Nat) :
    skipBom8 (withStream r st f) = withStream (skipBom8 r) st f := by
  show (if (decide (r.rawAvail > fgUTF8BOM.length) && r.rawWin.take fgUTF8BOM.length == fgUTF8BOM) = true
        then skipRaw (withStream r st f) fgUTF8BOM.length else withStream r st f) = withStream (skipBom8 r) st f
  unfold skipBom8
  split <;> rfl
theorem skipBom16_ws (r : Reader) (st : List (List Nat)) (f : Nat) :
    skipBom16 (withStream r st f) = withStream (skipBom16 r) st f := by
  show (if (r.rawWin.take 2 == [0xFF, 0xFE] || r.rawWin.take 2 == [0xFE, 0xFF]) = true
        then skipRaw (withStream r st f) 2 else withStream r st f) = withStream (skipBom16 r) st f
  unfold skipBom16
  split <;> rfl

theorem ws_rawAvail (r : Reader) (st : List (List Nat)) (f : Nat) : (withStream r st f).rawAvail = r.rawAvail := rfl
theorem ws_rawIdx (r : Reader) (st : List (List Nat)) (f : Nat) : (withStream r st f).rawIdx = r.rawIdx := rfl
theorem ws_rawWin (r : Reader) (st : List (List Nat)) (f : Nat) : (withStream r st f).rawWin = r.rawWin := rfl
theorem ws_cfg (r : Reader) (st : List (List Nat)) (f : Nat) : (withStream r st f).cfg = r.cfg := rfl
theorem ws_charsAvail (r : Reader) (st : List (List Nat)) (f : Nat) : (withStream r st f).charsAvail = r.charsAvail := rfl

theorem doInit8_ws (r : Reader) (st : List (List Nat)) (f : Nat) :
    doInit8 (withStream r st f) = mapMk (fun x => withStream x st f) (doInit8 r) := by
  rw [doInit8_eq, doInit8_eq, setEnc_ws, skipBom8_ws]
  by_cases h1 : (skipBom8 (setEnc r .utf8)).rawAvail < fgASCIIPre.length
  · have h1' : (withStream (skipBom8 (setEnc r .utf8)) st f).rawAvail < fgASCIIPre.length := h1
    rw [if_pos h1', if_pos h1, initFinish_ws]
  · have h1' : ¬ (withStream (skipBom8 (setEnc r .utf8)) st f).rawAvail < fgASCIIPre.length := h1
    rw [if_neg h1', if_neg h1]
    by_cases h2 : (!(fgASCIIPre.isPrefixOf (skipBom8 (setEnc r .utf8)).rawWin)) = true
    · have h2' : (!(fgASCIIPre.isPrefixOf (withStream (skipBom8 (setEnc r .utf8)) st f).rawWin)) = true := h2
      rw [if_pos h2', if_pos h2, initFinish_ws]
    · have h2' : ¬ (!(fgASCIIPre.isPrefixOf (withStream (skipBom8 (setEnc r .utf8)) st f).rawWin)) = true := h2
      rw [if_neg h2', if_neg h2]
      show (match initLoop8 (skipBom8 (setEnc r .utf8)).cfg.charBufSize (skipBom8 (setEnc r .utf8)).rawWin
              (skipBom8 (setEnc r .utf8)).charsAvail with
            | none => MkRes.couldNotDecodeFirstLine
            | some cs => initFinish (initChars (withStream (skipBom8 (setEnc r .utf8)) st f) cs 1)) = _
      cases initLoop8 (skipBom8 (setEnc r .utf8)).cfg.charBufSize (skipBom8 (setEnc r .utf8)).rawWin
          (skipBom8 (setEnc r .utf8)).charsAvail with
      | none => rfl
      | some cs => simp only []; rw [initChars_ws, initFinish_ws]

theorem doInit16_ws (le : Bool) (r : Reader) (st : List (List Nat)) (f : Nat) :
    doInit16 le (withStream r st f) = mapMk (fun x => withStream x st f) (doInit16 le r) := by
  rw [doInit16_eq, doInit16_eq, setEnc_ws, skipBom16_ws]
  by_cases h1 : (setEnc r (e16 le)).rawAvail < 2
  · have h1' : (withStream (setEnc r (e16 le)) st f).rawAvail < 2 := h1
    rw [if_pos h1', if_pos h1, initFinish_ws]
  · have h1' : ¬ (withStream (setEnc r (e16 le)) st f).rawAvail < 2 := h1
    rw [if_neg h1', if_neg h1]
    by_cases h2 : (skipBom16 (setEnc r (e16 le))).rawAvail - (skipBom16 (setEnc r (e16 le))).rawIdx < fgUTF16BPre.length
    · have h2' : (withStream (skipBom16 (setEnc r (e16 le))) st f).rawAvail -
          (withStream (skipBom16 (setEnc r (e16 le))) st f).rawIdx < fgUTF16BPre.length := h2
      rw [if_pos h2', if_pos h2, initFinish_ws]
    · have h2' : ¬ (withStream (skipBom16 (setEnc r (e16 le))) st f).rawAvail -
          (withStream (skipBom16 (setEnc r (e16 le))) st f).rawIdx < fgUTF16BPre.length := h2
      rw [if_neg h2', if_neg h2]
      by_cases h3 : (!((if le then fgUTF16LPre else fgUTF16BPre).isPrefixOf (skipBom16 (setEnc r (e16 le))).rawWin)) = true
      · have h3' : (!((if le then fgUTF16LPre else fgUTF16BPre).isPrefixOf
            (withStream (skipBom16 (setEnc r (e16 le))) st f).rawWin)) = true := h3
        rw [if_pos h3', if_pos h3, initFinish_ws]
      · have h3' : ¬ (!((if le then fgUTF16LPre else fgUTF16BPre).isPrefixOf
            (withStream (skipBom16 (setEnc r (e16 le))) st f).rawWin)) = true := h3
        rw [if_neg h3', if_neg h3]
        show (match initLoop16 le (skipBom16 (setEnc r (e16 le))).cfg.charBufSize (skipBom16 (setEnc r (e16 le))).rawWin
                (skipBom16 (setEnc r (e16 le))).charsAvail with
              | none => MkRes.couldNotDecodeFirstLine
              | some cs => initFinish (initChars (withStream (skipBom16 (setEnc r (e16 le))) st f) cs 2)) = _
        cases initLoop16 le (skipBom16 (setEnc r (e16 le))).cfg.charBufSize (skipBom16 (setEnc r (e16 le))).rawWin
            (skipBom16 (setEnc r (e16 le))).charsAvail with
        | none => rfl
        | some cs => simp only []; rw [initChars_ws, initFinish_ws]

theorem doInitDecode_ws (r : Reader) (fam : Family) (st : List (List Nat)) (f : Nat) :
    doInitDecode (withStream r st f) fam = mapMk (fun x => withStream x st f) (doInitDecode r fam) := by
  cases fam
  · exact doInit8_ws r st f
  · exact doInit16_ws false r st f
  · exact doInit16_ws true r st f
  · rfl
  · rfl
  · rfl

/-- two streams with the same first read give the same reader, up to the rest of the stream -/
theorem mkAuto_first_read (cfg : Cfg) (nel ext pe : Bool) (s s' : List (List Nat))
    (hfr : firstRead cfg s = firstRead cfg s') :
    mkAuto cfg nel ext pe s' =
      mapMk (fun x => withStream x (readBytes s' cfg.rawBufSize).2 (mkBase cfg nel ext pe s').fuel) (mkAuto cfg nel ext pe s) := by
  have hr : refreshRawBuffer (mkBase cfg nel ext pe s') =
      withStream (refreshRawBuffer (mkBase cfg nel ext pe s)) (readBytes s' cfg.rawBufSize).2 (mkBase cfg nel ext pe s').fuel := by
    rw [refreshRaw_eq, refreshRaw_eq]
    unfold firstRead at hfr
    show setRaw (mkBase cfg nel ext pe s') ([] ++ (readBytes s' (cfg.rawBufSize - (0 - 0))).1) 0
        ((readBytes s' (cfg.rawBufSize - (0 - 0))).1.length + (0 - 0)) (readBytes s' (cfg.rawBufSize - (0 - 0))).2 = _
    simp only [Nat.sub_zero]
    rw [← hfr]
    rfl
  rw [mkAuto_eq, mkAuto_eq, hr]
  exact doInitDecode_ws _ _ _ _

end XV.Lemmas.ReaderCtor
