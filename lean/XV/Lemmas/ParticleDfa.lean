/-
C08 — the schema-mode DFA model with counting states (`XV.Model.ParticleDfa`) coincides with the C07 DFA model
whenever the converted tree has no `Loop` node (then `fCountingStates` is never allocated and
`handleRepetitions` is the identity).  Core Lean only.
-/
import XV.Model.ParticleDfa
import XV.Lemmas.ParticleExpand
namespace XV.Lemmas.ParticleDfa
open XV.Model.Particle XV.Model.ParticleDfa XV.Lemmas.ParticleExpand
open XV.Model.ContentModel (lookupTrans dfaWalk dfaValidate nodeOfCM Res)
open XV.Spec.ContentModel (CM)

theorem findTransGo_eq (child : Nat) (es ts : List (Option Nat)) (idx : Nat) :
    (findTransGo (fun x a => x == a) child es ts idx 0).map (·.2) = lookupTrans es ts child := by
  induction es generalizing ts idx with
  | nil => simp [findTransGo, lookupTrans]
  | cons e es ih =>
    cases ts with
    | nil => simp [findTransGo, lookupTrans]
    | cons t ts =>
      unfold findTransGo lookupTrans
      simp only [Nat.not_lt_zero, if_false]
      cases e with
      | none => simpa using ih ts (idx + 1)
      | some a =>
        by_cases h : child = a
        · subst h
          cases t with
          | none => simpa using ih ts (idx + 1)
          | some next => simp
        · have h' : ¬ a = child := fun e => h e.symm
          simpa [h, h'] using ih ts (idx + 1)

theorem walk_eq (c : CDFA) (hc : c.counting = none) (w : List Nat) (st loop idx : Nat) :
    walk c (fun x a => x == a) w st loop idx = dfaWalk c.dfa w st idx := by
  induction w generalizing st loop idx with
  | nil =>
    unfold walk dfaWalk
    rw [hc]
    cases c.dfa.finalFlags.getD st false <;> simp
  | cons x w ih =>
    unfold walk dfaWalk
    have h := findTransGo_eq x c.dfa.elemMap (c.dfa.transTable.getD st []) 0
    unfold findTrans
    cases hf : findTransGo (fun x a => x == a) x c.dfa.elemMap (c.dfa.transTable.getD st []) 0 0 with
    | none =>
      rw [hf] at h
      simp only [Option.map_none] at h
      rw [← h]
    | some r =>
      obtain ⟨e, next⟩ := r
      rw [hf] at h
      simp only [Option.map_some] at h
      rw [← h]
      simp only [handleRepetitions, hc]
      exact ih next 0 (idx + 1)

theorem validate_eq (c : CDFA) (hc : c.counting = none) (w : List Nat) :
    validate c (fun x a => x == a) w = dfaValidate c.dfa w := by
  unfold validate dfaValidate
  cases w with
  | nil => rfl
  | cons x w => exact walk_eq c hc (x :: w) 0 0 0

theorem toCM_toNode (x : XNode Nat) (c : CM) (h : toCM x = some c) : toNode x = nodeOfCM c := by
  induction x generalizing c with
  | leaf a => simp only [toCM, Option.some.injEq] at h; subst h; rfl
  | unary t x ih =>
    simp only [toCM] at h
    cases hx : toCM x with
    | none => rw [hx] at h; cases h
    | some cx =>
      rw [hx] at h
      simp only [Option.some.injEq] at h
      subst h
      cases t <;> simp [toNode, nodeOfCM, ih cx hx]
  | bin t x y ihx ihy =>
    cases t with
    | All => simp [toCM] at h
    | Sequence =>
      simp only [toCM] at h
      cases hx : toCM x with
      | none => rw [hx] at h; simp at h
      | some a =>
        cases hy : toCM y with
        | none => rw [hx, hy] at h; simp at h
        | some b =>
          rw [hx, hy] at h
          simp only [Option.some.injEq] at h
          subst h
          simp [toNode, nodeOfCM, ihx a hx, ihy b hy]
    | Choice =>
      simp only [toCM] at h
      cases hx : toCM x with
      | none => rw [hx] at h; simp at h
      | some a =>
        cases hy : toCM y with
        | none => rw [hx, hy] at h; simp at h
        | some b =>
          rw [hx, hy] at h
          simp only [Option.some.injEq] at h
          subst h
          simp [toNode, nodeOfCM, ihx a hx, ihy b hy]
  | loopRep o mn mx x _ => simp [toCM] at h

theorem toCM_noLoop (x : XNode Nat) (c : CM) (h : toCM x = some c) :
    ∀ i, i ∈ leafInfos x → i.2 = none := by
  induction x generalizing c with
  | leaf a => intro i hi; simp [leafInfos] at hi; subst hi; rfl
  | unary t x ih =>
    simp only [toCM] at h
    cases hx : toCM x with
    | none => rw [hx] at h; cases h
    | some cx => intro i hi; exact ih cx hx i (by simpa [leafInfos] using hi)
  | bin t x y ihx ihy =>
    cases hx : toCM x with
    | none => cases t <;> simp [toCM, hx] at h
    | some a =>
      cases hy : toCM y with
      | none => cases t <;> simp [toCM, hx, hy] at h
      | some b =>
        intro i hi
        simp only [leafInfos, List.mem_append] at hi
        rcases hi with hi | hi
        · exact ihx a hx i hi
        · exact ihy b hy i hi
  | loopRep o mn mx x _ => simp [toCM] at h

theorem elemOccurrence_none (infos : List (Nat × Option (Nat × Option Nat))) (em : List (Option Nat))
    (h : ∀ i, i ∈ infos → i.2 = none) : (elemOccurrence infos em).any Option.isSome = false := by
  rw [List.any_eq_false]
  intro o ho
  unfold elemOccurrence at ho
  rw [List.mem_mapIdx] at ho
  obtain ⟨j, hj, rfl⟩ := ho
  cases em[j] with
  | none => simp
  | some a =>
    simp only
    cases hf : infos.find? (fun i => i.1 == a) with
    | none => simp
    | some i =>
      obtain ⟨n, o⟩ := i
      have := h _ (List.mem_of_find?_eq_some hf)
      simp only at this
      subst this
      simp

/-- without `Loop` nodes the counting model IS the C07 DFA model -/
theorem counting_reduces (x : XNode Nat) (c : CM) (h : toCM x = some c) (w : List Nat) :
    (match buildCDFA x with
     | some cd => validate cd (fun x a => x == a) w
     | none => Res.exc "dfa-fuel") = (XV.Model.ContentModel.Model.dfa (nodeOfCM c)).validate w := by
  unfold buildCDFA
  rw [toCM_toNode x c h]
  show _ = (match XV.Model.ContentModel.buildDFA (nodeOfCM c) with
            | some d => dfaValidate d w
            | none => Res.exc "dfa-fuel")
  cases hb : XV.Model.ContentModel.buildDFA (nodeOfCM c) with
  | none => rfl
  | some d =>
    simp only [elemOccurrence_none (leafInfos x) d.elemMap (toCM_noLoop x c h), Bool.false_eq_true, if_false]
    exact validate_eq ⟨d, none⟩ rfl w

end XV.Lemmas.ParticleDfa
