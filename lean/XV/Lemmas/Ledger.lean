/- Helper lemmas for C18: the streaming monitor against the declarative ledger discipline. -/
import XV.Model.Ledger
namespace XV.Lemmas.Ledger
open XV.Spec.Ledger XV.Spec.Ledger.Event XV.Model.Ledger

/-! ### the declarative notions along a growing prefix -/

theorem liveAfter_snoc_alloc (pre : List Event) (m' p' n' p m : Nat) :
    LiveAfter (pre ++ [alloc m' p' n']) p m ↔ (p = p' ∧ m = m') ∨ LiveAfter pre p m := by
  constructor
  · rintro ⟨a, b, n, h, hb⟩
    rcases List.eq_nil_or_concat b with rfl | ⟨b0, x, rfl⟩
    · have h' : pre ++ [alloc m' p' n'] = a ++ [alloc m p n] := by simpa using h
      have := List.append_inj' h' rfl
      obtain ⟨_, h2⟩ := this
      simp at h2
      exact Or.inl ⟨h2.2.1.symm, h2.1.symm⟩
    · have h' : pre ++ [alloc m' p' n'] = (a ++ alloc m p n :: b0) ++ [x] := by simpa using h
      obtain ⟨h1, h2⟩ := List.append_inj' h' rfl
      refine Or.inr ⟨a, b0, n, h1, ?_⟩
      intro m'' hm
      exact hb m'' (by simp [hm])
  · rintro (⟨rfl, rfl⟩ | ⟨a, b, n, rfl, hb⟩)
    · exact ⟨pre, [], n', rfl, by simp⟩
    · refine ⟨a, b ++ [alloc m' p' n'], n, by simp, ?_⟩
      intro m'' hm
      simp at hm
      exact hb m'' hm

theorem liveAfter_snoc_free (pre : List Event) (m' p' p m : Nat) :
    LiveAfter (pre ++ [free m' p']) p m ↔ p ≠ p' ∧ LiveAfter pre p m := by
  constructor
  · rintro ⟨a, b, n, h, hb⟩
    rcases List.eq_nil_or_concat b with rfl | ⟨b0, x, rfl⟩
    · simp at h
    · have h' : pre ++ [free m' p'] = (a ++ alloc m p n :: b0) ++ [x] := by simpa using h
      obtain ⟨h1, h2⟩ := List.append_inj' h' rfl
      have hx : x = free m' p' := by simpa using h2.symm
      subst hx
      refine ⟨?_, a, b0, n, h1, ?_⟩
      · rintro rfl
        exact hb m' (by simp)
      · intro m'' hm
        exact hb m'' (by simp [hm])
  · rintro ⟨hne, a, b, n, rfl, hb⟩
    refine ⟨a, b ++ [free m' p'], n, by simp, ?_⟩
    intro m'' hm
    simp at hm
    rcases hm with hm | ⟨_, rfl⟩
    · exact hb m'' hm
    · exact hne rfl

theorem liveAfter_nil (p m : Nat) : ¬ LiveAfter [] p m := by
  rintro ⟨a, b, n, h, _⟩
  simp at h

theorem ever_snoc (pre : List Event) (e : Event) (p : Nat) :
    EverAllocated (pre ++ [e]) p ↔ EverAllocated pre p ∨ ∃ m n, e = alloc m p n := by
  constructor
  · rintro ⟨m, n, h⟩
    simp at h
    rcases h with h | h
    · exact Or.inl ⟨m, n, h⟩
    · exact Or.inr ⟨m, n, h.symm⟩
  · rintro (⟨m, n, h⟩ | ⟨m, n, rfl⟩)
    · exact ⟨m, n, by simp [h]⟩
    · exact ⟨m, n, by simp⟩

theorem live_ever {pre : List Event} {p m : Nat} (h : LiveAfter pre p m) : EverAllocated pre p := by
  obtain ⟨a, b, n, rfl, _⟩ := h
  exact ⟨m, n, by simp⟩

theorem disciplined_nil : Disciplined [] := by
  intro pre e post h
  simp at h

theorem disciplined_snoc (pre : List Event) (e : Event) :
    Disciplined (pre ++ [e]) ↔ Disciplined pre ∧ OkEvent pre e := by
  constructor
  · intro h
    refine ⟨?_, h pre e [] rfl⟩
    intro x e' y hxy
    exact h x e' (y ++ [e]) (by simp [hxy])
  · rintro ⟨hd, hok⟩ x e' y hxy
    rcases List.eq_nil_or_concat y with rfl | ⟨y0, z, rfl⟩
    · have h' : pre ++ [e] = x ++ [e'] := by simpa using hxy
      obtain ⟨h1, h2⟩ := List.append_inj' h' rfl
      have : e = e' := by simpa using h2
      subst this; subst h1
      exact hok
    · have h' : pre ++ [e] = (x ++ e' :: y0) ++ [z] := by simpa using hxy
      obtain ⟨h1, _⟩ := List.append_inj' h' rfl
      exact hd x e' y0 h1

theorem disciplined_prefix {pre post : List Event} (h : Disciplined (pre ++ post)) : Disciplined pre := by
  intro x e y hxy
  exact h x e (y ++ post) (by simp [hxy])

/-- In a disciplined history a live block has exactly one owner. -/
theorem owner_unique {pre : List Event} (hd : Disciplined pre) {p m m' : Nat}
    (h1 : LiveAfter pre p m) (h2 : LiveAfter pre p m') : m = m' := by
  obtain ⟨a, b, n, hab, hb⟩ := h1
  obtain ⟨a', b', n', hab', hb'⟩ := h2
  have key : ∀ (a b a' b' : List Event) (m m' n n' : Nat), pre = a ++ alloc m p n :: b →
      pre = a' ++ alloc m' p n' :: b' → (∀ m'', free m'' p ∉ b) →
      (∃ c, a' = a ++ c ∧ alloc m p n :: b = c ++ alloc m' p n' :: b') → m = m' := by
    intro a b a' b' m m' n n' hab hab' hb ⟨c, hc, hcb⟩
    cases c with
    | nil =>
      simp at hcb
      exact hcb.1.1
    | cons h c' =>
      simp at hcb
      obtain ⟨rfl, rfl⟩ := hcb
      exfalso
      have hok := hd (a ++ alloc m p n :: c') (alloc m' p n') b' (by rw [hab]; simp)
      refine hok m ⟨a, c', n, rfl, ?_⟩
      intro m'' hm
      exact hb m'' (by simp [hm])
  have e : a ++ alloc m p n :: b = a' ++ alloc m' p n' :: b' := by rw [← hab, ← hab']
  rcases List.append_eq_append_iff.mp e with h | h
  · exact key a b a' b' m m' n n' hab hab' hb h
  · obtain ⟨c, hc, hcb⟩ := h
    exact (key a' b' a b m' m n' n hab' hab hb' ⟨c, hc, hcb⟩).symm

/-- Each reported kind really is a breach of the discipline. -/
theorem breaks_not_ok {pre : List Event} (hd : Disciplined pre) {e : Event} {k : Kind}
    (h : Breaks pre e k) : ¬ OkEvent pre e := by
  cases k with
  | foreignFree =>
    obtain ⟨m, p, rfl, hne⟩ := h
    exact fun hl => hne (live_ever hl)
  | doubleFree =>
    obtain ⟨m, p, rfl, _, hnl⟩ := h
    exact fun hl => hnl m hl
  | wrongManager o =>
    obtain ⟨m, p, rfl, hl, hne⟩ := h
    exact fun hl' => hne (owner_unique hd hl hl')
  | dupAlloc o =>
    obtain ⟨m, p, n, rfl, hl⟩ := h
    exact fun hok => hok o hl
  | leak _ => exact h.elim

/-! ### the monitor state against the declarative notions -/

structure Inv (st : State) (pre : List Event) : Prop where
  live : ∀ p m, (∃ n, (⟨p, m, n⟩ : Entry) ∈ st.live) ↔ LiveAfter pre p m
  ever : ∀ p, p ∈ st.ever ↔ EverAllocated pre p

theorem inv_init : Inv {} [] := by
  refine ⟨?_, ?_⟩
  · intro p m
    constructor
    · rintro ⟨n, h⟩; simp at h
    · intro h; exact (liveAfter_nil p m h).elim
  · intro p
    constructor
    · intro h; simp at h
    · rintro ⟨m, n, h⟩; simp at h

theorem lookup_none {l : List Entry} {p : Nat} (h : lookup l p = none) : ∀ e ∈ l, e.ptr ≠ p := by
  intro e he
  have := List.find?_eq_none.mp h e he
  simpa using this

theorem lookup_some {l : List Entry} {p : Nat} {e : Entry} (h : lookup l p = some e) : e ∈ l ∧ e.ptr = p := by
  refine ⟨List.mem_of_find?_eq_some h, ?_⟩
  have := List.find?_some h
  simpa using this

theorem step_ok {st st' : State} {pre : List Event} {e : Event} (hI : Inv st pre)
    (h : step st e = .ok st') : OkEvent pre e ∧ Inv st' (pre ++ [e]) := by
  cases e with
  | alloc m p n =>
    unfold step at h
    cases hl : lookup st.live p with
    | some x => simp [hl] at h
    | none =>
      simp [hl] at h
      subst h
      have hnone := lookup_none hl
      refine ⟨?_, ?_, ?_⟩
      · intro m' hlive
        obtain ⟨n', hm⟩ := (hI.live p m').mpr hlive
        exact hnone _ hm rfl
      · intro q mq
        rw [liveAfter_snoc_alloc, ← hI.live q mq]
        constructor
        · rintro ⟨n', hm⟩
          simp at hm
          rcases hm with ⟨rfl, rfl, rfl⟩ | hm
          · exact Or.inl ⟨rfl, rfl⟩
          · exact Or.inr ⟨n', hm⟩
        · rintro (⟨rfl, rfl⟩ | ⟨n', hm⟩)
          · exact ⟨n, by simp⟩
          · exact ⟨n', by simp [hm]⟩
      · intro q
        rw [ever_snoc, ← hI.ever q]
        constructor
        · intro hq
          simp at hq
          rcases hq with rfl | hq
          · exact Or.inr ⟨m, n, rfl⟩
          · exact Or.inl hq
        · rintro (hq | ⟨m', n', hq⟩)
          · simp [hq]
          · cases hq; simp
  | free m p =>
    unfold step at h
    cases hl : lookup st.live p with
    | none =>
      simp [hl] at h
      split at h <;> cases h
    | some x =>
      simp [hl] at h
      obtain ⟨hx, hp⟩ := lookup_some hl
      by_cases hm : x.mgr = m
      · simp [hm] at h
        subst h
        have hlive : LiveAfter pre p m := (hI.live p m).mp ⟨x.size, by
          have : (⟨p, m, x.size⟩ : Entry) = x := by cases x; simp_all
          rw [this]; exact hx⟩
        refine ⟨hlive, ?_, ?_⟩
        · intro q mq
          rw [liveAfter_snoc_free, ← hI.live q mq]
          constructor
          · rintro ⟨n', hm'⟩
            simp [List.mem_filter] at hm'
            exact ⟨hm'.2, n', hm'.1⟩
          · rintro ⟨hne, n', hm'⟩
            exact ⟨n', by simp [List.mem_filter, hm', hne]⟩
        · intro q
          rw [ever_snoc, ← hI.ever q]
          constructor
          · intro hq; exact Or.inl hq
          · rintro (hq | ⟨m', n', hq⟩)
            · exact hq
            · cases hq
      · simp [hm] at h

theorem step_error {st : State} {pre : List Event} {e : Event} {k : Kind} (hI : Inv st pre)
    (h : step st e = .error k) : Breaks pre e k := by
  cases e with
  | alloc m p n =>
    unfold step at h
    cases hl : lookup st.live p with
    | none => simp [hl] at h
    | some x =>
      simp [hl] at h
      subst h
      obtain ⟨hx, hp⟩ := lookup_some hl
      refine ⟨m, p, n, rfl, (hI.live p x.mgr).mp ⟨x.size, ?_⟩⟩
      have : (⟨p, x.mgr, x.size⟩ : Entry) = x := by cases x; simp_all
      rw [this]; exact hx
  | free m p =>
    unfold step at h
    cases hl : lookup st.live p with
    | none =>
      simp [hl] at h
      have hnone := lookup_none hl
      have hnl : ∀ m', ¬ LiveAfter pre p m' := by
        intro m' hlive
        obtain ⟨n', hm⟩ := (hI.live p m').mpr hlive
        exact hnone _ hm rfl
      by_cases hc : p ∈ st.ever
      · simp [hc] at h
        subst h
        exact ⟨m, p, rfl, (hI.ever p).mp hc, hnl⟩
      · simp [hc] at h
        subst h
        refine ⟨m, p, rfl, ?_⟩
        intro he
        exact hc ((hI.ever p).mpr he)
    | some x =>
      simp [hl] at h
      obtain ⟨hx, hp⟩ := lookup_some hl
      by_cases hm : x.mgr = m
      · simp [hm] at h
      · simp [hm] at h
        subst h
        refine ⟨m, p, rfl, (hI.live p x.mgr).mp ⟨x.size, ?_⟩, hm⟩
        have : (⟨p, x.mgr, x.size⟩ : Entry) = x := by cases x; simp_all
        rw [this]; exact hx

/-- What a reported violation means, declaratively. -/
def FirstViolation (tr : List Event) (v : Violation) : Prop :=
  match v.kind with
  | .leak ids => v.index = tr.length ∧ Disciplined tr ∧ ids ≠ [] ∧ ∀ p, p ∈ ids ↔ ∃ m, LiveAfter tr p m
  | k => ∃ pre e post, tr = pre ++ e :: post ∧ v.index = pre.length ∧ Disciplined pre ∧ Breaks pre e k

theorem balanced_iff_live_nil {st : State} {tr : List Event} (hI : Inv st tr) :
    st.live.isEmpty = true ↔ Balanced tr := by
  constructor
  · intro h p m hl
    obtain ⟨n, hm⟩ := (hI.live p m).mpr hl
    have : st.live = [] := by simpa using h
    rw [this] at hm; simp at hm
  · intro h
    cases hl : st.live with
    | nil => rfl
    | cons x xs =>
      exfalso
      refine h x.ptr x.mgr ((hI.live x.ptr x.mgr).mp ⟨x.size, ?_⟩)
      rw [hl]; cases x; simp

theorem monitorFrom_ok (rest : List Event) : ∀ (st : State) (pre : List Event), Inv st pre → Disciplined pre →
    (monitorFrom st pre.length rest = .ok () ↔ Disciplined (pre ++ rest) ∧ Balanced (pre ++ rest)) := by
  induction rest with
  | nil =>
    intro st pre hI hd
    simp only [monitorFrom, List.append_nil]
    rw [← balanced_iff_live_nil hI]
    by_cases h : st.live.isEmpty = true
    · simp [h, hd]
    · simp [h]
  | cons e es ih =>
    intro st pre hI hd
    simp only [monitorFrom]
    cases hs : step st e with
    | error k =>
      simp only
      constructor
      · intro h; cases h
      · rintro ⟨hD, _⟩
        have := hD pre e es rfl
        exact (breaks_not_ok hd (step_error hI hs) this).elim
    | ok st' =>
      simp only
      obtain ⟨hok, hI'⟩ := step_ok hI hs
      have hd' : Disciplined (pre ++ [e]) := (disciplined_snoc pre e).mpr ⟨hd, hok⟩
      have := ih st' (pre ++ [e]) hI' hd'
      simpa using this

theorem monitorFrom_error (rest : List Event) : ∀ (st : State) (pre : List Event) (v : Violation),
    Inv st pre → Disciplined pre → monitorFrom st pre.length rest = .error v → FirstViolation (pre ++ rest) v := by
  induction rest with
  | nil =>
    intro st pre v hI hd h
    simp only [monitorFrom] at h
    by_cases he : st.live.isEmpty = true
    · simp [he] at h
    · simp [he] at h
      subst h
      simp only [FirstViolation, List.append_nil]
      refine ⟨trivial, hd, ?_, ?_⟩
      · intro hnil
        apply he
        simpa using hnil
      · intro p
        simp only [List.mem_reverse, List.mem_map]
        constructor
        · rintro ⟨x, hx, rfl⟩
          exact ⟨x.mgr, (hI.live x.ptr x.mgr).mp ⟨x.size, by cases x; simpa using hx⟩⟩
        · rintro ⟨m, hl⟩
          obtain ⟨n, hm⟩ := (hI.live p m).mpr hl
          exact ⟨_, hm, rfl⟩
  | cons e es ih =>
    intro st pre v hI hd h
    simp only [monitorFrom] at h
    cases hs : step st e with
    | error k =>
      rw [hs] at h
      simp only at h
      cases h
      have hb := step_error hI hs
      have : FirstViolation (pre ++ e :: es) ⟨pre.length, k⟩ := by
        cases k with
        | leak ids => exact hb.elim
        | foreignFree => exact ⟨pre, e, es, rfl, rfl, hd, hb⟩
        | doubleFree => exact ⟨pre, e, es, rfl, rfl, hd, hb⟩
        | wrongManager o => exact ⟨pre, e, es, rfl, rfl, hd, hb⟩
        | dupAlloc o => exact ⟨pre, e, es, rfl, rfl, hd, hb⟩
      exact this
    | ok st' =>
      rw [hs] at h
      simp only at h
      obtain ⟨hok, hI'⟩ := step_ok hI hs
      have hd' : Disciplined (pre ++ [e]) := (disciplined_snoc pre e).mpr ⟨hd, hok⟩
      have := ih st' (pre ++ [e]) v hI' hd' (by simpa using h)
      simpa using this

end XV.Lemmas.Ledger
