/- Helper lemmas for C06: the literal answer of mapPrefixToURI, resolvePrefix on bound prefixes, and the full
   equality between the events of the modelled parse and the Spec's events for namespace-well-formed documents. -/
import XV.Lemmas.NsViews
namespace XV.Lemmas.ElemStack
open XV.Model.ElemStack XV.Spec.Namespace XV.Gen.ElemStackConsts

/-- what `mapPrefixToURI` returns, literally (ids and flag), in terms of the abstract state -/
def rawAnswer (S : Scan) (a : Abs) (p : String) : Nat × Bool :=
  if p = "xml" then (S.es.fXMLNamespaceId, false)
  else if p = "xmlns" then (S.es.fXMLNSNamespaceId, false)
  else match nearest (a.stack ++ [a.g]) p with
    | some u => (getId S.uriPool u, false)
    | none => if p = "" then (S.es.fEmptyNamespaceId, false) else (S.es.fUnknownNamespaceId, true)

theorem mapPrefix_raw {S : Scan} {a : Abs} (h : Rep S a) (p : String) :
    mapPrefixToURI S.es p = rawAnswer S a p := by
  have hx : xmlString = "xml" := by decide
  have hn : xmlnsString = "xmlns" := by decide
  have hpid : (if p = "" then S.es.fGlobalPoolId else getId S.es.fPrefixPool p) = getId S.es.fPrefixPool p := by
    by_cases e : p = ""
    · simp [e, h.gpool.2]
    · simp [e]
  unfold mapPrefixToURI rawAnswer
  simp only [hpid]
  by_cases hp : p ∈ S.es.fPrefixPool
  · have h0 : getId S.es.fPrefixPool p ≠ 0 := getId_ne_zero_iff.mpr hp
    by_cases e1 : p = xmlString
    · subst e1
      simp only [h0, ↓reduceIte, h.xpool.2]
      simp [hx]
    · have n1 : getId S.es.fPrefixPool p ≠ S.es.fXMLPoolId := by
        rw [h.xpool.2]; exact fun hh => e1 (getId_inj hp h.xpool.1 hh)
      by_cases e2 : p = xmlnsString
      · subst e2
        have : xmlnsString ≠ "xml" := by decide
        simp only [h0, ↓reduceIte, n1, h.npool.2, this]
        simp [hn]
      · have n2 : getId S.es.fPrefixPool p ≠ S.es.fXMLNSPoolId := by
          rw [h.npool.2]; exact fun hh => e2 (getId_inj hp h.npool.1 hh)
        have hl := lookup_eq h p hp
        have px : p ≠ "xml" := hx ▸ e1
        have pn : p ≠ "xmlns" := hn ▸ e2
        simp only [h0, ↓reduceIte, n1, n2, px, pn]
        cases hs : searchStack S.es.fStack (getId S.es.fPrefixPool p) S.es.fStackTop with
        | some u' =>
          rw [hs] at hl; simp only at hl
          cases hnr : nearest (a.stack ++ [a.g]) p with
          | none => rw [hnr] at hl; simp at hl
          | some u => rw [hnr] at hl; simp only [Option.map_some, Option.some.injEq] at hl; simp [hl]
        | none =>
          rw [hs] at hl; simp only at hl
          cases hg : S.es.fGlobalNamespaces.bind (searchRow · (getId S.es.fPrefixPool p)) with
          | some u' =>
            rw [hg] at hl
            cases hnr : nearest (a.stack ++ [a.g]) p with
            | none => rw [hnr] at hl; simp at hl
            | some u => rw [hnr] at hl; simp only [Option.map_some, Option.some.injEq] at hl; simp [hl]
          | none =>
            rw [hg] at hl
            cases hnr : nearest (a.stack ++ [a.g]) p with
            | some u => rw [hnr] at hl; simp at hl
            | none => rfl
  · have h0 : getId S.es.fPrefixPool p = 0 := getId_eq_zero_iff.mpr hp
    have px : p ≠ "xml" := fun e => hp (e ▸ hx ▸ h.xpool.1)
    have pn : p ≠ "xmlns" := fun e => hp (e ▸ hn ▸ h.npool.1)
    have p0 : p ≠ "" := fun e => hp (e ▸ h.gpool.1)
    have hnone : nearest (a.stack ++ [a.g]) p = none := by
      apply nearest_none_of_not_mem
      intro l hl d hd e
      rcases List.mem_append.mp hl with h1 | h1
      · exact hp (e ▸ (h.memS l h1 d hd).1)
      · simp at h1; subst h1; exact hp (e ▸ (h.memG d hd).1)
    simp [h0, px, pn, p0, hnone]

end XV.Lemmas.ElemStack

namespace XV.Lemmas.ElemStack
open XV.Model.ElemStack XV.Model.NsScan XV.Spec.Namespace XV.Gen.ElemStackConsts

theorem uriText_getId {S : Scan} {u : String} (hu : u ∈ S.uriPool) : uriText S (getId S.uriPool u) = u := by
  simp [uriText, valueForId_getId hu]

theorem inScopeG_some_mem {S : Scan} {a : Abs} (h : Rep S a) {p u : String} (hp1 : p ≠ "xml") (hp2 : p ≠ "xmlns")
    (hu : inScopeG a.g a.path p = some u) : nearest (a.stack ++ [a.g]) p = some u ∧ u ≠ "" ∧ u ∈ S.uriPool := by
  unfold inScopeG at hu
  simp only [hp1, hp2, ↓reduceIte, Abs.path, List.reverse_reverse] at hu
  cases hn : nearest (a.stack ++ [a.g]) p with
  | none => rw [hn] at hu; simp at hu
  | some w =>
    rw [hn] at hu
    by_cases e : w = ""
    · simp [e] at hu
    · simp only [e, ↓reduceIte, Option.some.injEq] at hu
      subst hu
      obtain ⟨l, hlm, d, hd, _, hdu⟩ := nearest_some_mem hn
      refine ⟨rfl, e, ?_⟩
      rcases List.mem_append.mp hlm with h1 | h1
      · exact hdu ▸ (h.memS l h1 d hd).2
      · simp at h1; subst h1; exact hdu ▸ (h.memG d hd).2

/-- `resolvePrefix` on a bound prefix: the URI text is the in-scope namespace name, no error, and the id is not the
    empty-namespace id -/
theorem resolve_bound {S : Scan} {a : Abs} (h : Rep S a) (p : String) (mode : MapModes) (u : String)
    (hu : inScopeG a.g a.path p = some u) (hm : mode = .attribute → p ≠ "") :
    uriText S (S.resolvePrefix p mode).1 = u ∧ (S.resolvePrefix p mode).2 = false ∧
    (S.resolvePrefix p mode).1 ≠ S.fEmptyNamespaceId := by
  have hx : xmlString = "xml" := by decide
  have hn : xmlnsString = "xmlns" := by decide
  have hxu : xmlURIName = xmlURI := by decide
  have hnu : xmlnsURIName = xmlnsURI := by decide
  have hxne : xmlURIName ≠ "" := by decide
  have hnne : xmlnsURIName ≠ "" := by decide
  have c1 : ¬ (p = "" ∧ mode = .attribute) := fun hc => hm hc.2 hc.1
  by_cases e2 : p = xmlnsString
  · have p0 : p ≠ "" := by rw [e2]; decide
    have hres : S.resolvePrefix p mode = (S.fXMLNSNamespaceId, false) := by
      have q0 : xmlnsString ≠ "" := by decide
      unfold Scan.resolvePrefix; simp [e2, q0]
    have : u = xmlnsURIName := by
      rw [e2, hn] at hu; simp [inScopeG] at hu; rw [← hu, hnu]
    subst this
    rw [hres, h.sN, h.nid.2, h.sE, h.eid.2]
    exact ⟨uriText_getId h.nid.1, rfl, fun hh => hnne (getId_inj h.nid.1 h.eid.1 hh)⟩
  · by_cases e1 : p = xmlString
    · have p0 : p ≠ "" := by rw [e1]; decide
      have hres : S.resolvePrefix p mode = (S.fXMLNamespaceId, false) := by
        have q1 : xmlString ≠ "" := by decide
        have q2 : xmlString ≠ xmlnsString := by decide
        unfold Scan.resolvePrefix; simp [e1, q1, q2]
      have : u = xmlURIName := by
        rw [e1, hx] at hu; simp [inScopeG] at hu; rw [← hu, hxu]
      subst this
      rw [hres, h.sX, h.xid.2, h.sE, h.eid.2]
      exact ⟨uriText_getId h.xid.1, rfl, fun hh => hxne (getId_inj h.xid.1 h.eid.1 hh)⟩
    · have px : p ≠ "xml" := hx ▸ e1
      have pn : p ≠ "xmlns" := hn ▸ e2
      obtain ⟨hnr, hune, humem⟩ := inScopeG_some_mem h px pn hu
      have hne : getId S.uriPool u ≠ getId S.uriPool "" := fun hh => hune (getId_inj humem h.eid.1 hh)
      have hraw : mapPrefixToURI S.es p = (getId S.uriPool u, false) := by
        rw [mapPrefix_raw h p]; simp [rawAnswer, px, pn, hnr]
      have hres : S.resolvePrefix p mode = (getId S.uriPool u, false) := by
        unfold Scan.resolvePrefix
        simp only [c1, ↓reduceIte, e2, and_false, e1, hraw, Bool.false_or]
        have : ¬ (p ≠ "" ∧ S.xml11 = true ∧ getId S.uriPool u = S.es.fEmptyNamespaceId) := by
          rw [h.eid.2]; exact fun hc => hne hc.2.2
        simp [this]
      rw [hres, h.sE, h.eid.2]
      exact ⟨uriText_getId humem, rfl, hne⟩

/-- `resolvePrefix` on an unprefixed element name without default namespace: the empty-namespace id, no error -/
theorem resolve_default_none {S : Scan} {a : Abs} (h : Rep S a) (hu : inScopeG a.g a.path "" = none) :
    S.resolvePrefix "" .element = (S.fEmptyNamespaceId, false) := by
  have c1 : ("" : String) ≠ "xml" := by decide
  have c2 : ("" : String) ≠ "xmlns" := by decide
  unfold Scan.resolvePrefix
  have : ¬ (("" : String) = "" ∧ MapModes.element = MapModes.attribute) := by simp
  simp only [this, ↓reduceIte, ne_eq, not_true_eq_false, false_and, mapPrefix_raw h "", rawAnswer, c1, c2]
  unfold inScopeG at hu
  simp only [c1, c2, ↓reduceIte, Abs.path, List.reverse_reverse] at hu
  cases hn : nearest (a.stack ++ [a.g]) "" with
  | none => simp [h.sE]
  | some w =>
    rw [hn] at hu
    by_cases e : w = ""
    · subst e; simp [h.sE, h.eid.2]
    · simp [e] at hu

theorem uriText_empty {S : Scan} {a : Abs} (h : Rep S a) : uriText S S.fEmptyNamespaceId = "" := by
  rw [h.sE, h.eid.2]; exact uriText_getId h.eid.1

end XV.Lemmas.ElemStack

namespace XV.Lemmas.NsViews
open XV.Model.ElemStack XV.Model.NsScan XV.Model.Sax2Prefix XV.Spec.Namespace XV.Lemmas.ElemStack

theorem declsOfRaw_rawOfItems (items : List Item) (h : ItemsOK items) : declsOfRaw (rawOfItems items) = declsOf items := by
  have hx : xmlnsString = "xmlns" := by decide
  have hx0 : xmlnsString ≠ "" := by decide
  induction items with
  | nil => rfl
  | cons it r ih =>
    cases it with
    | decl d =>
      cases d with | mk dp du =>
      by_cases e : dp = ""
      · subst e; simp [rawOfItems, declsOfRaw, RawAttr.isNSDecl, declsOf, ih h]
      · simp [rawOfItems, e, declsOfRaw, RawAttr.isNSDecl, declsOf, ih h, hx0]
    | attr p l =>
      obtain ⟨h1, h2, h3⟩ := h
      have hn : (RawAttr.isNSDecl ⟨p, l, "v"⟩) = false := by
        simp only [RawAttr.isNSDecl, hx]
        by_cases e : p = ""
        · subst e; simp; intro hl; exact h2 ⟨rfl, hl⟩
        · simp [e, h1]
      simp only [rawOfItems, declsOfRaw, hn, declsOf]
      exact ih h3

/-- the URI pool only grows -/
theorem step_pool_mono (S : Scan) (o : Op) : ∃ l, (S.step o).uriPool = S.uriPool ++ l := by
  cases o with
  | addLevel => exact ⟨[], by simp [Scan.step]⟩
  | popTop => refine ⟨[], ?_⟩; simp only [Scan.step]; split <;> simp
  | addPrefix p u =>
    refine ⟨if u ∈ S.uriPool then [] else [u], ?_⟩
    simp only [Scan.step]; split <;> simp [addOrFind_fst]
  | addGlobalPrefix p u => exact ⟨if u ∈ S.uriPool then [] else [u], by simp [Scan.step, addOrFind_fst]⟩

theorem scanRaw_pool_mono (attrs : List RawAttr) : ∀ S : Scan, ∃ l, (S.scanRawAttrListforNameSpaces attrs).uriPool = S.uriPool ++ l := by
  induction attrs with
  | nil => intro S; exact ⟨[], by simp [Scan.scanRawAttrListforNameSpaces]⟩
  | cons a r ih =>
    intro S
    unfold Scan.scanRawAttrListforNameSpaces
    split
    · obtain ⟨l1, h1⟩ := step_pool_mono S (.addPrefix (if a.pre = "" then "" else a.loc) a.value)
      obtain ⟨l2, h2⟩ := ih (S.step (.addPrefix (if a.pre = "" then "" else a.loc) a.value))
      exact ⟨l1 ++ l2, by rw [h2, h1, List.append_assoc]⟩
    · exact ih S

theorem startTag_pool_mono (S : Scan) (attrs : List RawAttr) : ∃ l, (S.startTag attrs).uriPool = S.uriPool ++ l := by
  unfold Scan.startTag
  obtain ⟨l1, h1⟩ := step_pool_mono S .addLevel
  obtain ⟨l2, h2⟩ := scanRaw_pool_mono attrs (S.step .addLevel)
  exact ⟨l1 ++ l2, by rw [h2, h1, List.append_assoc]⟩

theorem uriText_mono {S S' : Scan} {l : Pool} (hp : S'.uriPool = S.uriPool ++ l) {u : String} (hu : u ∈ S.uriPool) :
    uriText S' (getId S.uriPool u) = u := by
  have : getId S.uriPool u = getId S'.uriPool u := by rw [hp, getId_append hu]
  rw [this]
  exact uriText_getId (by rw [hp]; exact List.mem_append_left _ hu)

end XV.Lemmas.NsViews

namespace XV.Lemmas.NsViews
open XV.Model.ElemStack XV.Model.NsScan XV.Model.Sax2Prefix XV.Spec.Namespace XV.Lemmas.ElemStack

/-- reported names in a common normal form: (namespace name as text, local name, qualified name) -/
abbrev N3 := String × String × String

inductive NEv where
  | spm (p u : String) | epm (p : String) | se (n : N3) (attrs : List N3) | ee (n : N3)
deriving DecidableEq, Repr

def normM : Event → NEv
  | .startPrefixMapping p u => .spm p u
  | .endPrefixMapping p => .epm p
  | .startElement u l q as => .se (u, l, q) (as.map (fun a => (a.uri, a.local_, a.qname)))
  | .endElement u l q => .ee (u, l, q)

def normS : Ev → NEv
  | .startPrefixMapping p u => .spm p u
  | .endPrefixMapping p => .epm p
  | .startElement ns p l as => .se (optS ns, l, qname p l) (as.map (fun a => (optS a.ns, a.loc, qname a.pre a.loc)))
  | .endElement ns p l => .ee (optS ns, l, qname p l)

/-- every prefix used by the tag is bound (`path'` includes the tag's own declarations) -/
def TagBound (path' : Path) (t : Tag) : Prop :=
  (t.pre ≠ "" → elemNS path' t.pre ≠ none) ∧
  ∀ p l, Item.attr p l ∈ t.items → p ≠ "" → attrNS path' p ≠ none

mutual
  def BoundN (path : Path) : Node → Prop
    | .elem t kids => TagBound (path ++ [declsOf t.items]) t ∧ BoundL (path ++ [declsOf t.items]) kids
    | _ => True
  def BoundL (path : Path) : List Node → Prop
    | [] => True
    | n :: ns => BoundN path n ∧ BoundL path ns
end

theorem inScope_xmlns (path : Path) : inScope path "xmlns" = some xmlnsURI := by
  simp [inScope, inScopeG]

/-- the attribute list handed to the ContentHandler is the Spec's, names and namespace names alike -/
theorem attrs_eq_spec {S : Scan} {a : Abs} (h : Rep S a) (hg : a.g = []) (b : Bool) (items : List Item)
    (hok : ItemsOK items) (hb : ∀ p l, Item.attr p l ∈ items → p ≠ "" → attrNS a.path p ≠ none) :
    ((if b then (buildAttList S (rawOfItems items)).1
      else (buildAttList S (rawOfItems items)).1.filter (fun x => (nsDeclOf x).isNone)).map (toSax (uriText S))).map
        (fun x => (x.uri, x.local_, x.qname))
    = (sax2Attrs b a.path items).map (fun x => (optS x.ns, x.loc, qname x.pre x.loc)) := by
  have hx : xmlnsString = "xmlns" := by decide
  have hx0 : xmlnsString ≠ "" := by decide
  have hnu : xmlnsURIName = xmlnsURI := by decide
  have hin : ∀ p, inScopeG a.g a.path p = inScope a.path p := by intro p; rw [hg]; rfl
  induction items with
  | nil => cases b <;> simp [rawOfItems, buildAttList, sax2Attrs]
  | cons it r ih =>
    cases it with
    | decl d =>
      have ih' := ih hok (fun p l hm => hb p l (by simp [hm]))
      by_cases e : d.pre = ""
      · -- xmlns="…": no prefix, no namespace
        have hd : nsDeclOf ⟨S.fEmptyNamespaceId, "", xmlnsString, d.uri⟩ = some ("", d.uri) := by simp [nsDeclOf]
        cases b with
        | true =>
          simp only [↓reduceIte] at ih' ⊢
          simp only [rawOfItems, e, ↓reduceIte, buildAttList, ne_eq, not_true_eq_false, List.map_cons, sax2Attrs,
            List.singleton_append, ih']
          simp [toSax, uriText_empty h, XV.Model.Sax2Prefix.qn, qname, attrNS, optS, hx]
        | false =>
          simp only [Bool.false_eq_true, ↓reduceIte] at ih' ⊢
          simp only [rawOfItems, e, ↓reduceIte, buildAttList, ne_eq, not_true_eq_false, List.filter_cons, hd,
            Option.isNone_some, sax2Attrs]
          simpa using ih'
      · -- xmlns:p="…": prefix xmlns, the xmlns namespace
        have hres := resolve_bound h xmlnsString .attribute xmlnsURIName
          (by rw [hin, hx, inScope_xmlns, hnu]) (fun _ => hx0)
        have hd : nsDeclOf ⟨(S.resolvePrefix xmlnsString .attribute).1, xmlnsString, d.pre, d.uri⟩ = some (d.pre, d.uri) := by
          simp [nsDeclOf, hx0]
        cases b with
        | true =>
          simp only [↓reduceIte] at ih' ⊢
          simp only [rawOfItems, e, ↓reduceIte, buildAttList, ne_eq, hx0, not_false_eq_true, List.map_cons, sax2Attrs,
            List.singleton_append, ih']
          have hr1 : uriText S (S.resolvePrefix "xmlns" .attribute).1 = xmlnsURI := by
            rw [← hx, ← hnu]; exact hres.1
          simp [toSax, hr1, XV.Model.Sax2Prefix.qn, qname, attrNS, inScope_xmlns, optS, hx]
        | false =>
          simp only [Bool.false_eq_true, ↓reduceIte] at ih' ⊢
          simp only [rawOfItems, e, ↓reduceIte, buildAttList, ne_eq, hx0, not_false_eq_true, List.filter_cons, hd,
            Option.isNone_some, sax2Attrs]
          simpa using ih'
    | attr p l =>
      obtain ⟨h1, h2, h3⟩ := hok
      have ih' := ih h3 (fun p' l' hm => hb p' l' (by simp [hm]))
      -- an ordinary attribute is never taken for a declaration
      have hnd : ∀ id, nsDeclOf ⟨id, p, l, "v"⟩ = none := by
        intro id
        unfold nsDeclOf
        by_cases e : p = ""
        · subst e; simp [hx]; intro hl; exact h2 ⟨rfl, hl⟩
        · simp [e, hx, h1]
      by_cases e : p = ""
      · subst e
        have hone : (toSax (uriText S) ⟨S.fEmptyNamespaceId, "", l, "v"⟩) = ⟨"", l, l⟩ := by
          simp [toSax, uriText_empty h, XV.Model.Sax2Prefix.qn]
        cases b with
        | true =>
          simp only [↓reduceIte] at ih' ⊢
          simp only [rawOfItems, buildAttList, ne_eq, not_true_eq_false, ↓reduceIte, List.map_cons, sax2Attrs, ih', hone]
          simp [attrNS, optS, qname]
        | false =>
          simp only [Bool.false_eq_true, ↓reduceIte] at ih' ⊢
          simp only [rawOfItems, buildAttList, ne_eq, not_true_eq_false, ↓reduceIte, List.filter_cons, hnd,
            Option.isNone_none, List.map_cons, sax2Attrs, ih', hone]
          simp [attrNS, optS, qname]
      · obtain ⟨u, hu⟩ := Option.ne_none_iff_exists'.mp (hb p l (by simp) e)
        have hu' : inScopeG a.g a.path p = some u := by rw [hin]; simpa [attrNS, e] using hu
        have hres := resolve_bound h p .attribute u hu' (fun _ => e)
        have hone : (toSax (uriText S) ⟨(S.resolvePrefix p .attribute).1, p, l, "v"⟩) = ⟨u, l, p ++ ":" ++ l⟩ := by
          simp [toSax, hres.1, XV.Model.Sax2Prefix.qn, e]
        cases b with
        | true =>
          simp only [↓reduceIte] at ih' ⊢
          simp only [rawOfItems, buildAttList, ne_eq, e, not_false_eq_true, ↓reduceIte, List.map_cons, sax2Attrs, ih', hone]
          simp [hu, optS, qname, e]
        | false =>
          simp only [Bool.false_eq_true, ↓reduceIte] at ih' ⊢
          simp only [rawOfItems, buildAttList, ne_eq, e, not_false_eq_true, ↓reduceIte, List.filter_cons, hnd,
            Option.isNone_none, List.map_cons, sax2Attrs, ih', hone]
          simp [hu, optS, qname, e]

end XV.Lemmas.NsViews

namespace XV.Lemmas.NsViews
open XV.Model.ElemStack XV.Model.NsScan XV.Model.Sax2Prefix XV.Spec.Namespace XV.Lemmas.ElemStack

theorem startElement_nonEmpty' (r : Reader) (uriOf : Nat → String) (uriId : Nat) (pre loc : String) (attrs : List XMLAttr) :
    startElement r uriOf uriId pre loc attrs false =
      { r with fPrefixes := ((attrs.filterMap nsDeclOf).map (·.1)).reverse ++ r.fPrefixes
               fPrefixCounts := (attrs.filterMap nsDeclOf).length :: r.fPrefixCounts
               out := r.out ++ (attrs.filterMap nsDeclOf).map (fun d => Event.startPrefixMapping d.1 d.2) ++
                 [Event.startElement (uriOf uriId) loc (qn pre loc)
                   ((if r.fNamespacePrefix then attrs else attrs.filter (fun a => (nsDeclOf a).isNone)).map (toSax uriOf))] } := by
  unfold startElement
  rw [attrLoop_spec]
  simp only [Nat.zero_add, Bool.false_eq_true, ↓reduceIte, Reader.emit, List.nil_append]

theorem startElement_empty' (r : Reader) (uriOf : Nat → String) (uriId : Nat) (pre loc : String) (attrs : List XMLAttr) :
    startElement r uriOf uriId pre loc attrs true =
      { r with out := r.out ++ (attrs.filterMap nsDeclOf).map (fun d => Event.startPrefixMapping d.1 d.2) ++
                 [Event.startElement (uriOf uriId) loc (qn pre loc)
                   ((if r.fNamespacePrefix then attrs else attrs.filter (fun a => (nsDeclOf a).isNone)).map (toSax uriOf)),
                  Event.endElement (uriOf uriId) loc (qn pre loc)] ++
                 (((attrs.filterMap nsDeclOf).map (·.1)).reverse).map Event.endPrefixMapping } := by
  unfold startElement
  rw [attrLoop_spec]
  simp only [Nat.zero_add, ↓reduceIte, Reader.emit, List.nil_append]
  rw [closeScope_spec _ (((attrs.filterMap nsDeclOf).map (·.1)).reverse) r.fPrefixes r.fPrefixCounts (by simp) (by simp)]
  simp

theorem endElement_spec' (r : Reader) (uriOf : Nat → String) (uriId : Nat) (pre loc : String)
    (ps rest : List String) (cs : List Nat) (hc : r.fPrefixCounts = ps.length :: cs) (hp : r.fPrefixes = ps ++ rest) :
    endElement r uriOf uriId pre loc =
      { r with fPrefixCounts := cs, fPrefixes := rest
               out := r.out ++ [Event.endElement (uriOf uriId) loc (qn pre loc)] ++ ps.map Event.endPrefixMapping } := by
  unfold endElement
  rw [closeScope_spec _ ps rest cs (by simpa [Reader.emit] using hc) (by simpa [Reader.emit] using hp)]
  simp [Reader.emit]

/-- what the start tag leaves behind: the representation of the extended chain, and the element's namespace -/
theorem startTagNS_spec {S : Scan} {a : Abs} (h : Rep S a) (hg : a.g = []) (t : Tag) (hok : ItemsOK t.items)
    (hb : TagBound (a.path ++ [declsOf t.items]) t) :
    let s1 := S.startTag (rawOfItems t.items)
    let a1 : Abs := ⟨[], declsOf t.items :: a.stack⟩
    Rep s1 a1 ∧ a1.path = a.path ++ [declsOf t.items] ∧
    uriText s1 (s1.resolvePrefix t.pre .element).1 = optS (elemNS (a.path ++ [declsOf t.items]) t.pre) ∧
    ((∃ u, u ∈ s1.uriPool ∧ (s1.resolvePrefix t.pre .element).1 = getId s1.uriPool u ∧
        elemNS (a.path ++ [declsOf t.items]) t.pre = some u) ∨
     ((s1.resolvePrefix t.pre .element).1 = s1.fEmptyNamespaceId ∧ elemNS (a.path ++ [declsOf t.items]) t.pre = none)) := by
  intro s1 a1
  have hrep : Rep s1 a1 := by
    have := rep_startTag h (rawOfItems t.items)
    rw [declsOfRaw_rawOfItems t.items hok, hg] at this
    exact this
  have hpath : a1.path = a.path ++ [declsOf t.items] := by simp [a1, Abs.path]
  have hin : ∀ p, inScopeG a1.g a1.path p = inScope (a.path ++ [declsOf t.items]) p := by
    intro p; rw [hpath]; rfl
  refine ⟨hrep, hpath, ?_⟩
  cases hns : elemNS (a.path ++ [declsOf t.items]) t.pre with
  | some u =>
    have hu' : inScopeG a1.g a1.path t.pre = some u := by rw [hin]; exact hns
    have hres := resolve_bound hrep t.pre .element u hu' (by intro hc; cases hc)
    refine ⟨by simpa [optS] using hres.1, Or.inl ⟨u, ?_⟩⟩
    -- the id is the pool id of u
    have hx : xmlString = "xml" := by decide
    have hn : xmlnsString = "xmlns" := by decide
    by_cases e2 : t.pre = "xmlns"
    · have : u = xmlnsURIName := by
        have hnu : xmlnsURIName = xmlnsURI := by decide
        rw [e2] at hns; simp [elemNS, inScope, inScopeG] at hns; rw [← hns, hnu]
      subst this
      have hr : s1.resolvePrefix t.pre .element = (s1.fXMLNSNamespaceId, false) := by
        have q0 : ("xmlns" : String) ≠ "" := by decide
        unfold Scan.resolvePrefix; simp [e2, hn, q0]
      exact ⟨hrep.nid.1, by rw [hr, hrep.sN, hrep.nid.2], rfl⟩
    · by_cases e1 : t.pre = "xml"
      · have : u = xmlURIName := by
          have hxu : xmlURIName = xmlURI := by decide
          rw [e1] at hns; simp [elemNS, inScope, inScopeG] at hns; rw [← hns, hxu]
        subst this
        have hr : s1.resolvePrefix t.pre .element = (s1.fXMLNamespaceId, false) := by
          have q1 : ("xml" : String) ≠ "" := by decide
          have q2 : ("xml" : String) ≠ "xmlns" := by decide
          unfold Scan.resolvePrefix; simp [e1, hx, hn, q1, q2]
        exact ⟨hrep.xid.1, by rw [hr, hrep.sX, hrep.xid.2], rfl⟩
      · obtain ⟨hnr, hune, humem⟩ := inScopeG_some_mem hrep e1 e2 hu'
        have hraw : mapPrefixToURI s1.es t.pre = (getId s1.uriPool u, false) := by
          rw [mapPrefix_raw hrep t.pre]; simp [rawAnswer, e1, e2, hnr]
        have hr : (s1.resolvePrefix t.pre .element).1 = getId s1.uriPool u := by
          unfold Scan.resolvePrefix
          have c1 : ¬ (t.pre = "" ∧ MapModes.element = MapModes.attribute) := by simp
          simp only [c1, ↓reduceIte, hn, hx, e2, and_false, e1, hraw]
        exact ⟨humem, hr, rfl⟩
  | none =>
    have hp0 : t.pre = "" := Classical.byContradiction (fun hne => hb.1 hne hns)
    have hu' : inScopeG a1.g a1.path "" = none := by rw [hin, ← hp0]; exact hns
    have hr := resolve_default_none hrep hu'
    rw [hp0, hr]
    exact ⟨by simpa [optS] using uriText_empty hrep, Or.inr ⟨rfl, rfl⟩⟩

end XV.Lemmas.NsViews

namespace XV.Lemmas.NsViews
open XV.Model.ElemStack XV.Model.NsScan XV.Model.Sax2Prefix XV.Spec.Namespace XV.Lemmas.ElemStack

theorem abs_pop_cons (l : Level) (st : List Level) : (Abs.mk [] (l :: st)).step .popTop = ⟨[], st⟩ := rfl

/-- **the SAX2 events of a namespace-well-formed document are the Spec's**, names, namespace names and attribute lists
    included; along the way the scanner state keeps representing the chain of open elements -/
theorem walk_full (ue : Tag → Bool) : ∀ (n : Node), TreeOK n → ∀ (S : Scan) (a : Abs) (r : Reader),
    Rep S a → a.g = [] → BoundN a.path n →
    ∃ es l, (walk ue S r n).2 = { r with out := r.out ++ es } ∧
      es.map normM = (sax2Events r.fNamespacePrefix a.path n).map normS ∧
      Rep (walk ue S r n).1 a ∧ (walk ue S r n).1.uriPool = S.uriPool ++ l := by
  intro n
  induction n using Node.rec (motive_2 := fun ns => TreesOK ns → ∀ (S : Scan) (a : Abs) (r : Reader),
      Rep S a → a.g = [] → BoundL a.path ns →
      ∃ es l, (walkList ue S r ns).2 = { r with out := r.out ++ es } ∧
        es.map normM = (sax2EventsL r.fNamespacePrefix a.path ns).map normS ∧
        Rep (walkList ue S r ns).1 a ∧ (walkList ue S r ns).1.uriPool = S.uriPool ++ l) with
  | elem t kids ih =>
    intro hok S a r hrep hg hbound
    obtain ⟨hitems, hkids⟩ := hok
    obtain ⟨htb, hbk⟩ := hbound
    obtain ⟨hrep1, hpath, htext, hcase⟩ := startTagNS_spec hrep hg t hitems htb
    obtain ⟨s1, hs1⟩ : ∃ s1, s1 = S.startTag (rawOfItems t.items) := ⟨_, rfl⟩
    obtain ⟨attrs, hattrs⟩ : ∃ attrs, attrs = (buildAttList s1 (rawOfItems t.items)).1 := ⟨_, rfl⟩
    obtain ⟨uriId, huri⟩ : ∃ uriId, uriId = (s1.resolvePrefix t.pre .element).1 := ⟨_, rfl⟩
    simp only [← hs1, ← huri] at hrep1 htext hcase
    obtain ⟨l1, hl1⟩ := startTag_pool_mono S (rawOfItems t.items)
    rw [← hs1] at hl1
    have hD : attrs.filterMap nsDeclOf = (declsOf t.items).map (fun d => (d.pre, d.uri)) := by
      rw [hattrs]; exact nsDecls_buildAttList s1 t.items hitems
    -- the element's id, as a pool id of a string that is its namespace text
    obtain ⟨u, humem, huid, hutext⟩ : ∃ u, u ∈ s1.uriPool ∧ uriId = getId s1.uriPool u ∧
        optS (elemNS (a.path ++ [declsOf t.items]) t.pre) = u := by
      rcases hcase with ⟨u, h1, h2, h3⟩ | ⟨h2, h3⟩
      · exact ⟨u, h1, h2, by rw [h3]; rfl⟩
      · exact ⟨"", hrep1.eid.1, by rw [h2, hrep1.sE, hrep1.eid.2], by rw [h3]; rfl⟩
    have hattrEq := attrs_eq_spec hrep1 rfl r.fNamespacePrefix t.items hitems
      (by intro p l hm hp; rw [hpath]; exact htb.2 p l hm hp)
    rw [hpath, ← hattrs] at hattrEq
    have hpop : Rep (endTagNS s1) a := by
      have := rep_step hrep1 .popTop
      rw [abs_pop_cons] at this
      cases a with | mk g st => simp only at hg; subst hg; exact this
    unfold walk
    simp only [startTagNS, ← hs1, ← hattrs, ← huri, sax2Events]
    by_cases hemp : (kids.isEmpty && ue t) = true
    · have hk : kids = [] := by
        simp only [Bool.and_eq_true, List.isEmpty_iff] at hemp; exact hemp.1
      obtain ⟨l3, hl3⟩ := step_pool_mono s1 .popTop
      simp only [hemp, ↓reduceIte, startElement_empty', hD]
      refine ⟨List.map (fun d => Event.startPrefixMapping d.fst d.snd) (List.map (fun d => (d.pre, d.uri)) (declsOf t.items)) ++
            [Event.startElement (uriText s1 uriId) t.loc (qn t.pre t.loc)
                (List.map (toSax (uriText s1))
                  (if r.fNamespacePrefix = true then attrs else List.filter (fun a => (nsDeclOf a).isNone) attrs)),
              Event.endElement (uriText s1 uriId) t.loc (qn t.pre t.loc)] ++
          List.map Event.endPrefixMapping
            (List.map (fun x => x.fst) (List.map (fun d => (d.pre, d.uri)) (declsOf t.items))).reverse,
        l1 ++ l3, by simp [List.append_assoc], ?_, hpop, ?_⟩
      · simp only [hk, sax2EventsL, List.map_append, List.map_map, List.map_cons, List.map_nil, normM, normS,
          List.append_nil, htext, hattrEq, qn_eq_qname, List.map_reverse]
        simp [Function.comp_def, normM, normS]
      · show (s1.step .popTop).uriPool = _
        rw [hl3, hl1, List.append_assoc]
    · simp only [hemp, Bool.false_eq_true, ↓reduceIte, startElement_nonEmpty']
      obtain ⟨r1, hr1⟩ : ∃ r1 : Reader, r1 = { r with
          fPrefixes := ((attrs.filterMap nsDeclOf).map (·.1)).reverse ++ r.fPrefixes
          fPrefixCounts := (attrs.filterMap nsDeclOf).length :: r.fPrefixCounts
          out := r.out ++ (attrs.filterMap nsDeclOf).map (fun d => Event.startPrefixMapping d.1 d.2) ++
            [Event.startElement (uriText s1 uriId) t.loc (qn t.pre t.loc)
              ((if r.fNamespacePrefix then attrs else attrs.filter (fun a => (nsDeclOf a).isNone)).map (toSax (uriText s1)))] } := ⟨_, rfl⟩
      rw [← hr1]
      obtain ⟨es, l2, hw, hes, hrep2, hl2⟩ := ih hkids s1 ⟨[], declsOf t.items :: a.stack⟩ r1 hrep1 rfl
        (by rw [hpath]; exact hbk)
      rw [hpath] at hes
      have hb1 : r1.fNamespacePrefix = r.fNamespacePrefix := by rw [hr1]
      rw [hb1] at hes
      obtain ⟨l3, hl3⟩ := step_pool_mono (walkList ue s1 r1 kids).1 .popTop
      have hend := endElement_spec' (walkList ue s1 r1 kids).2 (uriText (walkList ue s1 r1 kids).1) uriId t.pre t.loc
        (((attrs.filterMap nsDeclOf).map (·.1)).reverse) r.fPrefixes r.fPrefixCounts
        (by rw [hw, hr1]; simp) (by rw [hw, hr1])
      have hutext2 : uriText (walkList ue s1 r1 kids).1 uriId = u := by
        rw [huid]; exact uriText_mono hl2 humem
      have hpop2 : Rep (endTagNS (walkList ue s1 r1 kids).1) a := by
        have := rep_step hrep2 .popTop
        rw [abs_pop_cons] at this
        cases a with | mk g st => simp only at hg; subst hg; exact this
      refine ⟨(attrs.filterMap nsDeclOf).map (fun d => Event.startPrefixMapping d.1 d.2) ++
            [Event.startElement (uriText s1 uriId) t.loc (qn t.pre t.loc)
              ((if r.fNamespacePrefix then attrs else attrs.filter (fun a => (nsDeclOf a).isNone)).map (toSax (uriText s1)))] ++
            es ++ [Event.endElement u t.loc (qn t.pre t.loc)] ++
            (((attrs.filterMap nsDeclOf).map (·.1)).reverse).map Event.endPrefixMapping,
          l1 ++ l2 ++ l3, ?_, ?_, hpop2, ?_⟩
      · rw [hend, hutext2, hw, hr1]
        simp [List.append_assoc]
      · simp only [List.map_append, List.map_map, List.map_cons, List.map_nil, normM, normS, hes, hD, htext, hattrEq,
          hutext, qn_eq_qname, List.map_reverse]
        simp [Function.comp_def, normM, normS, hutext]
      · show ((walkList ue s1 r1 kids).1.step .popTop).uriPool = _
        rw [hl3, hl2, hl1]; simp [List.append_assoc]
  | text => intro _ S a r hrep _ _; exact ⟨[], [], by simp [walk], rfl, by simpa [walk] using hrep, by simp [walk]⟩
  | comment => intro _ S a r hrep _ _; exact ⟨[], [], by simp [walk], rfl, by simpa [walk] using hrep, by simp [walk]⟩
  | pi => intro _ S a r hrep _ _; exact ⟨[], [], by simp [walk], rfl, by simpa [walk] using hrep, by simp [walk]⟩
  | cdata => intro _ S a r hrep _ _; exact ⟨[], [], by simp [walk], rfl, by simpa [walk] using hrep, by simp [walk]⟩
  | nil => exact ⟨[], [], by simp [walkList], rfl, by simpa [walkList], by simp [walkList]⟩
  | cons n ns ih1 ih2 =>
    rename_i hok S a r hrep hg hbound
    obtain ⟨es1, l1, hw1, he1, hr1, hp1⟩ := ih1 hok.1 S a r hrep hg hbound.1
    obtain ⟨es2, l2, hw2, he2, hr2, hp2⟩ := ih2 hok.2 (walk ue S r n).1 a (walk ue S r n).2 hr1 hg hbound.2
    refine ⟨es1 ++ es2, l1 ++ l2, ?_, ?_, ?_, ?_⟩
    · simp only [walkList]; rw [hw2, hw1]; simp
    · have : (walk ue S r n).2.fNamespacePrefix = r.fNamespacePrefix := by rw [hw1]
      rw [this] at he2
      simp [sax2EventsL, he1, he2]
    · simpa [walkList] using hr2
    · simp only [walkList]; rw [hp2, hp1, List.append_assoc]

end XV.Lemmas.NsViews

namespace XV.Lemmas.NsViews
open XV.Model.ElemStack XV.Model.NsScan XV.Model.Sax2Prefix XV.Spec.Namespace XV.Lemmas.ElemStack

theorem mem_attrsOf {items : List Item} {p l : String} (hm : Item.attr p l ∈ items) : (p, l) ∈ attrsOf items := by
  induction items with
  | nil => simp at hm
  | cons it r ih =>
    cases it with
    | decl d =>
      rcases List.mem_cons.mp hm with h1 | h1
      · simp at h1
      · simp [attrsOf, ih h1]
    | attr p' l' =>
      rcases List.mem_cons.mp hm with h1 | h1
      · simp only [Item.attr.injEq] at h1; simp [attrsOf, h1.1, h1.2]
      · simp [attrsOf, ih h1]

theorem tagBound_of_noErrors (v11 : Bool) (path' : Path) (t : Tag) (h : tagErrors v11 path' t = []) : TagBound path' t := by
  unfold tagErrors at h
  simp only [List.append_eq_nil_iff] at h
  obtain ⟨⟨⟨⟨_, _⟩, h3⟩, h4⟩, _⟩ := h
  constructor
  · intro hp hn
    simp [hp, hn] at h3
  · intro p l hm hp hn
    simp at h4
    exact h4 p l (mem_attrsOf hm) hp hn

theorem bound_of_wellFormed (v11 : Bool) : ∀ (n : Node) (path : Path), nodeErrors v11 path n = [] → BoundN path n := by
  intro n
  induction n using Node.rec (motive_2 := fun ns => ∀ path : Path, nodesErrors v11 path ns = [] → BoundL path ns) with
  | elem t kids ih =>
    intro path h
    simp only [nodeErrors, List.append_eq_nil_iff] at h
    exact ⟨tagBound_of_noErrors v11 _ t h.1, ih _ h.2⟩
  | text => intro _ _; trivial
  | comment => intro _ _; trivial
  | pi => intro _ _; trivial
  | cdata => intro _ _; trivial
  | nil => trivial
  | cons n ns ih1 ih2 =>
    rename_i path h
    simp only [nodesErrors, List.append_eq_nil_iff] at h
    exact ⟨ih1 path h.1, ih2 path h.2⟩

end XV.Lemmas.NsViews
