/- Helper lemmas for C06 (second round): completeness of lookupPrefix, the DOM nodes built from the scanner's output,
   both duplicate-detection loops, resolvePrefix with ids, and error detection = the Spec's namespace well-formedness. -/
import XV.Lemmas.NsParse

namespace XV.Lemmas.NsViews
open XV.Model.ElemStack XV.Model.NsScan XV.Spec.Namespace XV.Lemmas.ElemStack
open XV.Model.DomLookup (DAttr DElem xeq nonEmpty lnsAttrs lookupNamespaceURIElem lookupNamespaceURI lpAttrs
  lookupPrefixFrom lookupPrefix isDefaultNamespace nullIfEmpty leName)

-- ------------------------------------------------------------------------------------------ completeness of lookupPrefix
/-- the test `lookupPrefix`'s attribute loop applies before re-checking a candidate: a DOM Level 2 `xmlns:…` attribute whose
    value is the namespace name asked for -/
def isPrefixDeclFor (u : String) (a : DAttr) : Bool :=
  a.ns.isSome && xeq a.ns (some xmlnsURIName) && a.pre.isSome && xeq a.pre (some xmlnsString) && a.value == u

theorem lpAttrs_complete (u : String) (original : List DElem) (L : List DAttr)
    (h : ∃ a ∈ L, isPrefixDeclFor u a = true ∧ lookupNamespaceURI original (some a.loc) = some u) :
    (lpAttrs u original L).isSome = true := by
  induction L with
  | nil => obtain ⟨a, ha, _⟩ := h; simp at ha
  | cons b L ih =>
    obtain ⟨a, ha, hdecl, hlk⟩ := h
    unfold lpAttrs
    by_cases hb : isPrefixDeclFor u b = true
    · unfold isPrefixDeclFor at hb
      simp only [hb, ↓reduceIte]
      cases hl : lookupNamespaceURI original (some b.loc) with
      | none =>
        simp only
        rcases List.mem_cons.mp ha with h1 | h1
        · subst h1; rw [hl] at hlk; simp at hlk
        · exact ih ⟨a, h1, hdecl, hlk⟩
      | some found =>
        simp only
        by_cases hf : (found == u) = true
        · simp [hf]
        · simp only [hf, Bool.false_eq_true, ↓reduceIte]
          rcases List.mem_cons.mp ha with h1 | h1
          · subst h1; rw [hl] at hlk; simp only [Option.some.injEq] at hlk; simp [hlk] at hf
          · exact ih ⟨a, h1, hdecl, hlk⟩
    · have hb' : (b.ns.isSome && xeq b.ns (some xmlnsURIName) && b.pre.isSome && xeq b.pre (some xmlnsString) && b.value == u) = false := by
        simpa [isPrefixDeclFor] using hb
      simp only [hb', Bool.false_eq_true, ↓reduceIte]
      rcases List.mem_cons.mp ha with h1 | h1
      · subst h1; exact absurd hdecl hb
      · exact ih ⟨a, h1, hdecl, hlk⟩

/-- **completeness of `lookupPrefix` on ANY DOM tree** (parsed or built by hand): if the element or one of its ancestors
    either is itself named with a prefix `p` in namespace `u`, or carries an attribute `xmlns:p="u"`, and `p` is not
    shadowed at the element where the question is asked (`lookupNamespaceURI(p)` there is `u`), the walk returns some
    prefix: a candidate that fails the re-check does not stop the attribute loop, and the walk goes on to the ancestors -/
theorem lookupPrefixFrom_complete (u : String) (original : List DElem) (chain : List DElem)
    (h : ∃ e ∈ chain,
      (∃ p, e.ns = some u ∧ e.pre = some p ∧ lookupNamespaceURI original (some p) = some u) ∨
      (∃ a ∈ e.attrs, isPrefixDeclFor u a = true ∧ lookupNamespaceURI original (some a.loc) = some u)) :
    (lookupPrefixFrom u original chain).isSome = true := by
  induction chain with
  | nil => obtain ⟨e, he, _⟩ := h; simp at he
  | cons e rest ih =>
    unfold lookupPrefixFrom
    simp only
    split
    · rfl
    · rename_i hown
      split
      · rfl
      · rename_i hnone
        obtain ⟨e', he', hcase⟩ := h
        rcases List.mem_cons.mp he' with h1 | h1
        · subst h1
          rcases hcase with ⟨p, hns, hpre, hlk⟩ | ⟨a, ha, hd, hl⟩
          · simp [hns, hpre, hlk] at hown
          · have := lpAttrs_complete u original e'.attrs ⟨a, ha, hd, hl⟩
            rw [hnone] at this; simp at this
        · exact ih ⟨e', h1, hcase⟩

theorem chainOf_has_decl_attr (rtags : List Tag) (t : Tag) (ht : t ∈ rtags) (d : Decl) (hd : Item.decl d ∈ t.items) :
    ∃ e ∈ chainOf rtags, specAttr [] (.decl d) ∈ e.attrs := by
  induction rtags with
  | nil => simp at ht
  | cons t' outer ih =>
    rcases List.mem_cons.mp ht with h1 | h1
    · subst h1
      refine ⟨specElem (pathOf (t :: outer)) t, by simp [chainOf], ?_⟩
      rw [specElem_attrs]
      apply (List.mergeSort_perm _ leName).mem_iff.mpr
      exact List.mem_map.mpr ⟨.decl d, hd, rfl⟩
    · obtain ⟨e, he, ha⟩ := ih h1
      exact ⟨e, by simp [chainOf, he], ha⟩

/-- **completeness of lookupPrefix on parsed trees**: if some declared prefix is in scope at the element and bound to `u`
    (so not shadowed there), `lookupPrefix(u)` returns a prefix, and that prefix is bound to `u` in scope -/
theorem lookupPrefix_chainOf_complete (rtags : List Tag) (hok : ∀ t ∈ rtags, TagOK t) (u p : String)
    (hp0 : p ≠ "") (hp1 : p ≠ "xml") (hp2 : p ≠ "xmlns") (hin : inScope (pathOf rtags) p = some u) :
    ∃ p', lookupPrefix (chainOf rtags) (some u) = some p' ∧ inScope (pathOf rtags) p' = some u := by
  have hx0 : xmlnsString ≠ "" := by decide
  -- the nearest declaration of p
  have hR := hin
  rw [inScope_eq_R rtags p hp1 hp2] at hR
  unfold R at hR
  cases hn : nearest (levelsOf rtags ++ [[]]) p with
  | none => rw [hn] at hR; simp at hR
  | some w =>
    rw [hn] at hR
    have hw : w = u := by
      simp only [nonEmpty] at hR
      split at hR
      · simp at hR
      · simpa using hR
    subst hw
    obtain ⟨l, hl, d, hd, hdp, hdu⟩ := nearest_some_mem hn
    have hl' : l ∈ levelsOf rtags := by
      rcases List.mem_append.mp hl with h1 | h1
      · exact h1
      · simp at h1; subst h1; simp at hd
    obtain ⟨t, ht, rfl⟩ := List.mem_map.mp hl'
    obtain ⟨e, he, ha⟩ := chainOf_has_decl_attr rtags t ht d (decl_mem_of_declsOf hd)
    have hdne : d.pre ≠ "" := by rw [hdp]; exact hp0
    have hattr : specAttr [] (.decl d) = ⟨some xmlnsURIName, some xmlnsString, d.pre, XV.Model.DomLookup.qn xmlnsString d.pre, d.uri⟩ := by
      simp [specAttr, hdne]
    have hlk : lookupNamespaceURI (chainOf rtags) (some p) = some w := by
      rw [lookupNS_chainOf rtags hok (some p) (by simpa using hp0)]; exact hin
    have hsome := lookupPrefixFrom_complete w (chainOf rtags) (chainOf rtags)
      ⟨e, he, Or.inr ⟨specAttr [] (.decl d), ha, by rw [hattr]; simp [isPrefixDeclFor, xeq, hdu], by rw [hattr]; simpa [hdp] using hlk⟩⟩
    obtain ⟨p', hp'⟩ := Option.isSome_iff_exists.mp hsome
    exact ⟨p', hp', lookupPrefix_chainOf_sound rtags hok w p' hp'⟩

end XV.Lemmas.NsViews

namespace XV.Lemmas.NsViews
open XV.Model.ElemStack XV.Model.NsScan XV.Spec.Namespace XV.Lemmas.ElemStack
open XV.Model.DomLookup (DAttr DElem xeq nonEmpty nullIfEmpty leName mkAttr mkElem)

-- ------------------------------------------------------------------------------------------ the attribute list, item by item
/-- the `XMLAttr` that `buildAttList` makes for one attribute specification -/
def builtAttr (s : Scan) : Item → XMLAttr
  | .decl d => if d.pre = "" then ⟨s.fEmptyNamespaceId, "", xmlnsString, d.uri⟩
               else ⟨(s.resolvePrefix xmlnsString .attribute).1, xmlnsString, d.pre, d.uri⟩
  | .attr p l => if p = "" then ⟨s.fEmptyNamespaceId, "", l, "v"⟩ else ⟨(s.resolvePrefix p .attribute).1, p, l, "v"⟩

/-- … and whether `resolvePrefix` emitted an error for it -/
def itemErr (s : Scan) : Item → Bool
  | .decl d => if d.pre = "" then false else (s.resolvePrefix xmlnsString .attribute).2
  | .attr p _ => if p = "" then false else (s.resolvePrefix p .attribute).2

theorem buildAttList_items (s : Scan) (items : List Item) :
    buildAttList s (rawOfItems items) = (items.map (builtAttr s), items.any (itemErr s)) := by
  have hx0 : xmlnsString ≠ "" := by decide
  induction items with
  | nil => rfl
  | cons it r ih =>
    cases it with
    | decl d =>
      by_cases e : d.pre = ""
      · simp [rawOfItems, buildAttList, ih, builtAttr, itemErr, e]
      · simp [rawOfItems, buildAttList, ih, builtAttr, itemErr, e, hx0]
    | attr p l =>
      by_cases e : p = ""
      · simp [rawOfItems, buildAttList, ih, builtAttr, itemErr, e]
      · simp [rawOfItems, buildAttList, ih, builtAttr, itemErr, e]

theorem xmlns_id_ne_empty {S : Scan} {a : Abs} (h : Rep S a) : S.fXMLNSNamespaceId ≠ S.fEmptyNamespaceId := by
  have hnne : xmlnsURIName ≠ "" := by decide
  rw [h.sN, h.nid.2, h.sE, h.eid.2]
  exact fun hh => hnne (getId_inj h.nid.1 h.eid.1 hh)

theorem uriText_xmlns {S : Scan} {a : Abs} (h : Rep S a) : uriText S S.fXMLNSNamespaceId = xmlnsURIName := by
  rw [h.sN, h.nid.2]; exact uriText_getId h.nid.1

/-- **one attribute node**: what `AbstractDOMParser::startElement` creates from the scanner's `XMLAttr` carries the Spec's
    expansion of the written name -/
theorem mkAttr_builtAttr {S : Scan} {a : Abs} (h : Rep S a) (hg : a.g = []) (it : Item) (hok : ItemOK it)
    (hb : ∀ p l, it = .attr p l → p ≠ "" → attrNS a.path p ≠ none) :
    mkAttr S (builtAttr S it) = specAttr a.path it := by
  have hx : xmlnsString = "xmlns" := by decide
  have hx0 : xmlnsString ≠ "" := by decide
  have hnu : xmlnsURIName = xmlnsURI := by decide
  have hin : ∀ p, inScopeG a.g a.path p = inScope a.path p := by intro p; rw [hg]; rfl
  cases it with
  | decl d =>
    by_cases e : d.pre = ""
    · simp [builtAttr, specAttr, e, mkAttr, xmlns_id_ne_empty h, uriText_xmlns h, nullIfEmpty, XV.Model.DomLookup.qn]
    · have hres := resolve_bound h xmlnsString .attribute xmlnsURIName
        (by rw [hin, hx, inScope_xmlns, hnu]) (fun _ => hx0)
      simp [builtAttr, specAttr, e, mkAttr, hx0, hres.1, hres.2.2, nullIfEmpty]
  | attr p l =>
    obtain ⟨h1, h2⟩ := hok
    by_cases e : p = ""
    · subst e
      have hl : l ≠ xmlnsString := by rw [hx]; exact fun hl => h2 ⟨rfl, hl⟩
      simp [builtAttr, specAttr, mkAttr, hl, nullIfEmpty, attrNS]
    · obtain ⟨u, hu⟩ := Option.ne_none_iff_exists'.mp (hb p l rfl e)
      have hu' : inScopeG a.g a.path p = some u := by rw [hin]; simpa [attrNS, e] using hu
      have hres := resolve_bound h p .attribute u hu' (fun _ => e)
      simp [builtAttr, specAttr, mkAttr, e, hres.1, hres.2.2, nullIfEmpty, hu]


/-- **the element node of a namespace-well-formed start tag**: the node `AbstractDOMParser::startElement` builds from what
    the scanner hands over (element URI id, prefix, attribute list) is the Spec's node: namespaceURI / prefix / localName
    of the element and of every attribute are the Spec's expansion of the written names -/
theorem mkElem_eq_specElem {S : Scan} {a : Abs} (h : Rep S a) (hg : a.g = []) (t : Tag) (hok : ItemsOK t.items)
    (hb : TagBound (a.path ++ [declsOf t.items]) t) :
    mkElem (startTagNS S t).1 t (startTagNS S t).2.1 (startTagNS S t).2.2.1
      = specElem (a.path ++ [declsOf t.items]) t ∧
    Rep (startTagNS S t).1 ⟨[], declsOf t.items :: a.stack⟩ := by
  obtain ⟨hrep1, hpath, _, hcase⟩ := startTagNS_spec h hg t hok hb
  obtain ⟨s1, hs1⟩ : ∃ s1, s1 = S.startTag (rawOfItems t.items) := ⟨_, rfl⟩
  simp only [← hs1] at hrep1 hcase
  have h1 : (startTagNS S t).1 = s1 := by simp [startTagNS, hs1]
  have h2 : (startTagNS S t).2.1 = t.items.map (builtAttr s1) := by
    simp only [startTagNS, ← hs1, buildAttList_items]
  have h3 : (startTagNS S t).2.2.1 = (s1.resolvePrefix t.pre .element).1 := by simp [startTagNS, hs1]
  rw [h1, h2, h3]
  refine ⟨?_, hrep1⟩
  have hattrs : (t.items.map (builtAttr s1)).map (mkAttr s1) = t.items.map (specAttr (a.path ++ [declsOf t.items])) := by
    rw [List.map_map]
    apply List.map_congr_left
    intro it hit
    have := mkAttr_builtAttr hrep1 rfl it (hok.mem it hit)
      (by intro p l he hp; rw [hpath]; exact hb.2 p l (he ▸ hit) hp)
    rw [hpath] at this
    exact this
  unfold mkElem specElem
  rw [hattrs]
  rcases hcase with ⟨u, _, _, hns⟩ | ⟨hid, hns⟩
  · have hin : inScopeG (Abs.mk [] (declsOf t.items :: a.stack)).g (Abs.mk [] (declsOf t.items :: a.stack)).path t.pre = some u := by
      rw [hpath]; exact hns
    have hres := resolve_bound hrep1 t.pre .element u hin (by intro hc; cases hc)
    simp [hns, hres.1, hres.2.2]
  · simp [hns, hid]

/-- the chain of element nodes the model of the DOM parser builds on the way down a path of start tags (root first),
    each created by `mkElem` from the scanner's output for that tag -/
def builtChain (S : Scan) (acc : List DElem) : List Tag → List DElem
  | [] => acc
  | t :: ts => builtChain (startTagNS S t).1 (mkElem (startTagNS S t).1 t (startTagNS S t).2.1 (startTagNS S t).2.2.1 :: acc) ts

/-- every tag on the way down is a faithful, namespace-well-formed start tag; `rts` = the tags already open, innermost first -/
def PathBound : List Tag → List Tag → Prop
  | _, [] => True
  | rts, t :: ts => ItemsOK t.items ∧ TagBound (pathOf (t :: rts)) t ∧ PathBound (t :: rts) ts

theorem pathOf_cons (t : Tag) (rts : List Tag) : pathOf (t :: rts) = pathOf rts ++ [declsOf t.items] := by
  simp [pathOf, levelsOf]

theorem builtChain_eq (ts : List Tag) : ∀ (S : Scan) (rts : List Tag),
    Rep S ⟨[], levelsOf rts⟩ → PathBound rts ts → builtChain S (chainOf rts) ts = chainOf (ts.reverse ++ rts) := by
  induction ts with
  | nil => intro S rts _ _; rfl
  | cons t ts ih =>
    intro S rts hrep hb
    obtain ⟨hok, htb, hrest⟩ := hb
    have hp : (Abs.mk [] (levelsOf rts)).path = pathOf rts := rfl
    have hm := mkElem_eq_specElem hrep rfl t hok (by rw [hp, ← pathOf_cons]; exact htb)
    rw [hp, ← pathOf_cons] at hm
    simp only [builtChain]
    rw [hm.1]
    have := ih (startTagNS S t).1 (t :: rts) (by simpa [levelsOf] using hm.2) hrest
    simpa [chainOf] using this

end XV.Lemmas.NsViews

namespace XV.Lemmas.NsViews
open XV.Model.ElemStack XV.Model.NsScan XV.Spec.Namespace XV.Lemmas.ElemStack XV.Gen.ElemStackConsts

-- ------------------------------------------------------------------------------------------ duplicate detection: both loops
theorem dupRegistry_eq (l : List XMLAttr) : ∀ seen : List (String × Nat),
    dupRegistry seen l = (l.any (fun b => seen.contains (b.name, b.uriId)) || dupExpanded l) := by
  induction l with
  | nil => intro seen; rfl
  | cons a r ih =>
    intro seen
    simp only [dupRegistry, ih, dupExpanded, List.any_cons]
    rw [Bool.eq_iff_iff]
    simp only [Bool.or_eq_true, List.any_eq_true, List.contains_eq_mem, List.mem_cons, decide_eq_true_eq, Bool.and_eq_true,
      beq_iff_eq, Prod.mk.injEq]
    constructor
    · rintro (h | ⟨b, hb, h | h⟩ | h)
      · exact Or.inl (Or.inl h)
      · exact Or.inr (Or.inl ⟨b, hb, h.2, h.1⟩)
      · exact Or.inl (Or.inr ⟨b, hb, h⟩)
      · exact Or.inr (Or.inr h)
    · rintro ((h | ⟨b, hb, h⟩) | ⟨b, hb, h⟩ | h)
      · exact Or.inl h
      · exact Or.inr (Or.inl ⟨b, hb, Or.inr h⟩)
      · exact Or.inr (Or.inl ⟨b, hb, Or.inl ⟨h.2, h.1⟩⟩)
      · exact Or.inr (Or.inr h)

/-- **below and above the hash threshold the same attributes are found to collide**: the registry loop (abstract set of
    (name, uriId) keys) and the quadratic loop agree on every attribute list -/
theorem dupCheck_eq (attrs : List XMLAttr) : dupCheck attrs = dupExpanded attrs := by
  unfold dupCheck
  split
  · rw [dupRegistry_eq]; simp
  · rfl

theorem hasDup_false_iff {α : Type} [DecidableEq α] (l : List α) : hasDup l = false ↔ l.Nodup := by
  induction l with
  | nil => simp [hasDup]
  | cons a r ih => simp [hasDup, ih, List.nodup_cons]

theorem any_key_iff (a : XMLAttr) (r : List XMLAttr) :
    r.any (fun b => b.uriId == a.uriId && b.name == a.name) = true ↔ (a.uriId, a.name) ∈ r.map (fun a => (a.uriId, a.name)) := by
  simp only [List.any_eq_true, Bool.and_eq_true, beq_iff_eq, List.mem_map, Prod.mk.injEq]

theorem dupExpanded_eq_hasDup (l : List XMLAttr) : dupExpanded l = hasDup (l.map (fun a => (a.uriId, a.name))) := by
  induction l with
  | nil => rfl
  | cons a r ih =>
    simp only [dupExpanded, List.map_cons, hasDup, ih]
    congr 1
    rw [Bool.eq_iff_iff, any_key_iff]
    simp

theorem pairwise_iff_of {α : Type} {R S T : α → α → Prop} {l : List α} (hT : l.Pairwise T)
    (h : ∀ x ∈ l, ∀ y ∈ l, T x y → (R x y ↔ S x y)) : l.Pairwise R ↔ l.Pairwise S := by
  induction l with
  | nil => simp
  | cons a r ih =>
    rw [List.pairwise_cons] at hT
    rw [List.pairwise_cons, List.pairwise_cons,
      ih hT.2 (fun x hx y hy => h x (by simp [hx]) y (by simp [hy]))]
    constructor
    · rintro ⟨h1, h2⟩
      exact ⟨fun b hb => (h a (by simp) b (by simp [hb]) (hT.1 b hb)).mp (h1 b hb), h2⟩
    · rintro ⟨h1, h2⟩
      exact ⟨fun b hb => (h a (by simp) b (by simp [hb]) (hT.1 b hb)).mpr (h1 b hb), h2⟩


-- ------------------------------------------------------------------------------------------ resolvePrefix, ids and errors
/-- `resolvePrefix` on a bound prefix, literally: the pool id of the in-scope namespace name and no error -/
theorem resolve_bound_id {S : Scan} {a : Abs} (h : Rep S a) (p : String) (mode : MapModes) (u : String)
    (hu : inScopeG a.g a.path p = some u) (hm : mode = .attribute → p ≠ "") :
    S.resolvePrefix p mode = (getId S.uriPool u, false) ∧ u ∈ S.uriPool ∧ u ≠ "" := by
  have hx : xmlString = "xml" := by decide
  have hn : xmlnsString = "xmlns" := by decide
  have hxu : xmlURIName = xmlURI := by decide
  have hnu : xmlnsURIName = xmlnsURI := by decide
  have hxne : xmlURIName ≠ "" := by decide
  have hnne : xmlnsURIName ≠ "" := by decide
  have c1 : ¬ (p = "" ∧ mode = .attribute) := fun hc => hm hc.2 hc.1
  by_cases e2 : p = xmlnsString
  · have hres : S.resolvePrefix p mode = (S.fXMLNSNamespaceId, false) := by
      have q0 : xmlnsString ≠ "" := by decide
      unfold Scan.resolvePrefix; simp [e2, q0]
    have : u = xmlnsURIName := by
      rw [e2, hn] at hu; simp [inScopeG] at hu; rw [← hu, hnu]
    subst this
    rw [hres, h.sN, h.nid.2]
    exact ⟨rfl, h.nid.1, hnne⟩
  · by_cases e1 : p = xmlString
    · have hres : S.resolvePrefix p mode = (S.fXMLNamespaceId, false) := by
        have q1 : xmlString ≠ "" := by decide
        have q2 : xmlString ≠ xmlnsString := by decide
        unfold Scan.resolvePrefix; simp [e1, q1, q2]
      have : u = xmlURIName := by
        rw [e1, hx] at hu; simp [inScopeG] at hu; rw [← hu, hxu]
      subst this
      rw [hres, h.sX, h.xid.2]
      exact ⟨rfl, h.xid.1, hxne⟩
    · have px : p ≠ "xml" := hx ▸ e1
      have pn : p ≠ "xmlns" := hn ▸ e2
      obtain ⟨hnr, hune, humem⟩ := inScopeG_some_mem h px pn hu
      have hne : getId S.uriPool u ≠ getId S.uriPool "" := fun hh => hune (getId_inj humem h.eid.1 hh)
      have hraw : mapPrefixToURI S.es p = (getId S.uriPool u, false) := by
        rw [mapPrefix_raw h p]; simp [rawAnswer, px, pn, hnr]
      have hres : S.resolvePrefix p mode = (getId S.uriPool u, false) := by
        unfold Scan.resolvePrefix
        simp only [c1, ↓reduceIte, e2, and_false, e1, hraw, Bool.false_or]
        have : ¬ (p ≠ "" ∧ S.xml11 = true ∧ getId S.uriPool u = S.es.fEmptyNamespaceId) := by
          rw [h.eid.2]; exact fun hc => hne hc.2.2
        simp [this]
      exact ⟨hres, humem, hune⟩

/-- `resolvePrefix` on an unbound prefix emits UnknownPrefix — provided, in XML 1.0, that no declaration in scope has the
    (there illegal) form `xmlns:p=""`, which the scanner reports where it stands -/
theorem resolve_unbound {S : Scan} {a : Abs} (h : Rep S a) (p : String) (mode : MapModes) (hp : p ≠ "")
    (hu : inScopeG a.g a.path p = none)
    (hk : S.xml11 = false → ∀ l ∈ a.stack ++ [a.g], ∀ d ∈ l, d.pre ≠ "" → d.uri ≠ "") :
    (S.resolvePrefix p mode).2 = true := by
  have hx : xmlString = "xml" := by decide
  have hn : xmlnsString = "xmlns" := by decide
  have px : p ≠ "xml" := by intro e; rw [e] at hu; simp [inScopeG] at hu
  have pn : p ≠ "xmlns" := by intro e; rw [e] at hu; simp [inScopeG] at hu
  have c1 : ¬ (p = "" ∧ mode = .attribute) := fun hc => hp hc.1
  have e1 : p ≠ xmlString := hx ▸ px
  have e2 : p ≠ xmlnsString := hn ▸ pn
  unfold Scan.resolvePrefix
  simp only [c1, ↓reduceIte, e2, and_false, e1, mapPrefix_raw h p, rawAnswer, px, pn]
  unfold inScopeG at hu
  simp only [px, pn, ↓reduceIte, Abs.path, List.reverse_reverse] at hu
  cases hnr : nearest (a.stack ++ [a.g]) p with
  | none => simp [hp]
  | some w =>
    rw [hnr] at hu
    have hw : w = "" := by
      by_cases e : w = ""
      · exact e
      · simp [e] at hu
    subst hw
    obtain ⟨l, hl, d, hd, hdp, hdu⟩ := nearest_some_mem hnr
    cases hv : S.xml11 with
    | false => exact absurd hdu (hk hv l hl d hd (by rw [hdp]; exact hp))
    | true => simp [hp, h.eid.2]

end XV.Lemmas.NsViews

namespace XV.Lemmas.NsViews
open XV.Model.ElemStack XV.Model.NsScan XV.Spec.Namespace XV.Lemmas.ElemStack XV.Gen.ElemStackConsts

-- ------------------------------------------------------------------------------------------ error detection, piece by piece
theorem updateNSMap_eq_declErrors (s : Scan) (d : Decl) :
    updateNSMapErrors s (if d.pre = "" then ⟨"", xmlnsString, d.uri⟩ else ⟨xmlnsString, d.pre, d.uri⟩)
      = !(declErrors s.xml11 d).isEmpty := by
  have hx : xmlString = "xml" := by decide
  have hn : xmlnsString = "xmlns" := by decide
  have hxu : xmlURIName = xmlURI := by decide
  have hnu : xmlnsURIName = xmlnsURI := by decide
  have c1 : xmlURI ≠ xmlnsURI := by decide
  have c2 : xmlURI ≠ "" := by decide
  have c3 : xmlnsURI ≠ "" := by decide
  unfold updateNSMapErrors declErrors
  rw [hx, hn, hxu, hnu]
  by_cases p0 : d.pre = ""
  · simp only [p0, ↓reduceIte]
    by_cases u1 : d.uri = xmlURI <;> by_cases u2 : d.uri = xmlnsURI <;> simp_all
  · by_cases p1 : d.pre = "xmlns" <;> by_cases p2 : d.pre = "xml" <;>
    by_cases u1 : d.uri = xmlURI <;> by_cases u2 : d.uri = xmlnsURI <;> by_cases u3 : d.uri = "" <;>
    cases hv : s.xml11 <;> simp_all

/-- the first pass reports an error iff some declaration of the tag violates a reserved-name constraint -/
theorem declErr_eq (s : Scan) (items : List Item) (hok : ItemsOK items) :
    (rawOfItems items).any (fun a => a.isNSDecl && updateNSMapErrors s a)
      = (declsOf items).any (fun d => !(declErrors s.xml11 d).isEmpty) := by
  have hx : xmlnsString = "xmlns" := by decide
  have hx0 : xmlnsString ≠ "" := by decide
  induction items with
  | nil => rfl
  | cons it r ih =>
    cases it with
    | decl d =>
      have hdecl : (if d.pre = "" then (⟨"", xmlnsString, d.uri⟩ : RawAttr) else ⟨xmlnsString, d.pre, d.uri⟩).isNSDecl = true := by
        by_cases e : d.pre = "" <;> simp [e, RawAttr.isNSDecl]
      simp only [rawOfItems, List.any_cons, declsOf, ih hok, hdecl, Bool.true_and, updateNSMap_eq_declErrors]
    | attr p l =>
      obtain ⟨h1, h2, h3⟩ := hok
      have hn : (RawAttr.isNSDecl ⟨p, l, "v"⟩) = false := by
        simp only [RawAttr.isNSDecl, hx]
        by_cases e : p = ""
        · subst e; simp; intro hl; exact h2 ⟨rfl, hl⟩
        · simp [e, h1]
      simp only [rawOfItems, List.any_cons, hn, Bool.false_and, Bool.false_or, declsOf, ih h3]

/-- the Spec's reading of "this attribute specification uses an unbound prefix" -/
def specItemErr (path' : Path) : Item → Bool
  | .decl _ => false
  | .attr p _ => decide (p ≠ "") && (attrNS path' p).isNone

theorem any_specItemErr (path' : Path) (items : List Item) :
    items.any (specItemErr path') = (attrsOf items).any (fun x => decide (x.1 ≠ "" ∧ attrNS path' x.1 = none)) := by
  induction items with
  | nil => rfl
  | cons it r ih =>
    cases it with
    | decl d => simp [specItemErr, attrsOf, ih]
    | attr p l =>
      simp only [List.any_cons, specItemErr, attrsOf, ih]
      congr 1
      cases attrNS path' p <;> simp

/-- no in-scope declaration un-declares a prefix in XML 1.0 (such a declaration is itself reported as an error) -/
def NoEmptyPrefixed (v11 : Bool) (stack : List Level) : Prop :=
  v11 = false → ∀ l ∈ stack, ∀ d ∈ l, d.pre ≠ "" → d.uri ≠ ""

theorem itemErr_eq {S : Scan} {a : Abs} (h : Rep S a) (hg : a.g = []) (hk : NoEmptyPrefixed S.xml11 a.stack)
    (it : Item) : itemErr S it = specItemErr a.path it := by
  have hx : xmlnsString = "xmlns" := by decide
  have hx0 : xmlnsString ≠ "" := by decide
  have hnu : xmlnsURIName = xmlnsURI := by decide
  have hin : ∀ p, inScopeG a.g a.path p = inScope a.path p := by intro p; rw [hg]; rfl
  have hk' : S.xml11 = false → ∀ l ∈ a.stack ++ [a.g], ∀ d ∈ l, d.pre ≠ "" → d.uri ≠ "" := by
    intro hv l hl d hd
    rcases List.mem_append.mp hl with h1 | h1
    · exact hk hv l h1 d hd
    · simp at h1; subst h1; rw [hg] at hd; simp at hd
  cases it with
  | decl d =>
    by_cases e : d.pre = ""
    · simp [itemErr, specItemErr, e]
    · have hres := resolve_bound h xmlnsString .attribute xmlnsURIName
        (by rw [hin, hx, inScope_xmlns, hnu]) (fun _ => hx0)
      simp [itemErr, specItemErr, e, hres.2.1]
  | attr p l =>
    by_cases e : p = ""
    · simp [itemErr, specItemErr, e]
    · cases hns : attrNS a.path p with
      | some u =>
        have hu' : inScopeG a.g a.path p = some u := by rw [hin]; simpa [attrNS, e] using hns
        have hres := resolve_bound h p .attribute u hu' (fun _ => e)
        simp [itemErr, specItemErr, e, hres.2.1, hns]
      | none =>
        have hu' : inScopeG a.g a.path p = none := by rw [hin]; simpa [attrNS, e] using hns
        have hres := resolve_unbound h p .attribute e hu' hk'
        simp [itemErr, specItemErr, e, hres, hns]

theorem elemErr_eq {S : Scan} {a : Abs} (h : Rep S a) (hg : a.g = []) (hk : NoEmptyPrefixed S.xml11 a.stack)
    (p : String) : (S.resolvePrefix p .element).2 = (decide (p ≠ "") && (elemNS a.path p).isNone) := by
  have hin : ∀ q, inScopeG a.g a.path q = inScope a.path q := by intro q; rw [hg]; rfl
  have hk' : S.xml11 = false → ∀ l ∈ a.stack ++ [a.g], ∀ d ∈ l, d.pre ≠ "" → d.uri ≠ "" := by
    intro hv l hl d hd
    rcases List.mem_append.mp hl with h1 | h1
    · exact hk hv l h1 d hd
    · simp at h1; subst h1; rw [hg] at hd; simp at hd
  cases hns : elemNS a.path p with
  | some u =>
    have hres := resolve_bound h p .element u (by rw [hin]; exact hns) (by intro hc; cases hc)
    simp [hres.2.1]
  | none =>
    by_cases e : p = ""
    · subst e
      have := resolve_default_none h (by rw [hin]; exact hns)
      simp [this]
    · have hres := resolve_unbound h p .element e (by rw [hin]; exact hns) hk'
      simp [hres, e]


-- ------------------------------------------------------------------------------------------ collisions: ids vs expanded names
def attrOf? : Item → Option (String × String)
  | .attr p l => some (p, l)
  | .decl _ => none

def declOf? : Item → Option Decl
  | .decl d => some d
  | .attr _ _ => none

theorem attrsOf_eq_filterMap (items : List Item) : attrsOf items = items.filterMap attrOf? := by
  induction items with
  | nil => rfl
  | cons it r ih => cases it <;> simp [attrsOf, attrOf?, ih, List.filterMap_cons]

theorem declsOf_eq_filterMap (items : List Item) : declsOf items = items.filterMap declOf? := by
  induction items with
  | nil => rfl
  | cons it r ih => cases it <;> simp [declsOf, declOf?, ih, List.filterMap_cons]

theorem inScope_ne_some_empty (path : Path) (p : String) : inScope path p ≠ some "" := by
  unfold inScope inScopeG
  have c1 : xmlURI ≠ "" := by decide
  have c2 : xmlnsURI ≠ "" := by decide
  split
  · simpa using c1
  · split
    · simpa using c2
    · split
      · split <;> simp_all
      · simp

/-- a prefix other than `xmlns` is bound to the xmlns namespace name only by a declaration saying so -/
theorem inScope_xmlnsURI_decl (path : Path) (p : String) (hp : p ≠ "xmlns") (h : inScope path p = some xmlnsURI) :
    ∃ l ∈ path, ∃ d ∈ l, d.uri = xmlnsURI := by
  have c1 : xmlURI ≠ xmlnsURI := by decide
  unfold inScope inScopeG at h
  by_cases e : p = "xml"
  · simp [e, c1] at h
  · simp only [e, hp, ↓reduceIte] at h
    cases hn : nearest (path.reverse ++ [[]]) p with
    | none => rw [hn] at h; simp at h
    | some w =>
      rw [hn] at h
      have hw : w = xmlnsURI := by
        by_cases e0 : w = ""
        · simp [e0] at h
        · simpa [e0] using h
      obtain ⟨l, hl, d, hd, _, hdu⟩ := nearest_some_mem hn
      rcases List.mem_append.mp hl with h1 | h1
      · exact ⟨l, List.mem_reverse.mp h1, d, hd, hdu.trans hw⟩
      · simp at h1; subst h1; simp at hd

/-- the key under which the scanners register an attribute for duplicate detection -/
def kM (S : Scan) (it : Item) : Nat × String := ((builtAttr S it).uriId, (builtAttr S it).name)

theorem kM_attr {S : Scan} {a : Abs} (h : Rep S a) (hg : a.g = []) (p l : String)
    (hb : p ≠ "" → attrNS a.path p ≠ none) :
    kM S (.attr p l) = (getId S.uriPool ((attrNS a.path p).getD ""), l) ∧ (attrNS a.path p).getD "" ∈ S.uriPool := by
  have hin : ∀ q, inScopeG a.g a.path q = inScope a.path q := by intro q; rw [hg]; rfl
  by_cases e : p = ""
  · subst e
    simp [kM, builtAttr, attrNS, h.sE, h.eid.2, h.eid.1]
  · obtain ⟨u, hu⟩ := Option.ne_none_iff_exists'.mp (hb e)
    have hu' : inScopeG a.g a.path p = some u := by rw [hin]; simpa [attrNS, e] using hu
    obtain ⟨hres, hmem, _⟩ := resolve_bound_id h p .attribute u hu' (fun _ => e)
    simp [kM, builtAttr, e, hres, hu, hmem]

theorem kM_decl {S : Scan} {a : Abs} (h : Rep S a) (hg : a.g = []) (d : Decl) :
    kM S (.decl d) = if d.pre = "" then (getId S.uriPool "", xmlnsString) else (getId S.uriPool xmlnsURIName, d.pre) := by
  have hx : xmlnsString = "xmlns" := by decide
  have hx0 : xmlnsString ≠ "" := by decide
  have hnu : xmlnsURIName = xmlnsURI := by decide
  have hin : ∀ q, inScopeG a.g a.path q = inScope a.path q := by intro q; rw [hg]; rfl
  by_cases e : d.pre = ""
  · simp [kM, builtAttr, e, h.sE, h.eid.2]
  · obtain ⟨hres, _, _⟩ := resolve_bound_id h xmlnsString .attribute xmlnsURIName
      (by rw [hin, hx, inScope_xmlns, hnu]) (fun _ => hx0)
    simp [kM, builtAttr, e, hres]


theorem getD_eq_iff {o1 o2 : Option String} (h1 : o1 ≠ some "") (h2 : o2 ≠ some "") :
    o1.getD "" = o2.getD "" ↔ o1 = o2 := by
  cases o1 <;> cases o2 <;> simp_all

/-- under the side conditions of a namespace-well-formed context, two attribute specifications get the same registry key
    iff both are ordinary attributes with the same expanded name -/
theorem kM_ne_iff {S : Scan} {a : Abs} (h : Rep S a) (hg : a.g = []) (items : List Item)
    (hok : ∀ it ∈ items, ItemOK it)
    (hb : ∀ p l, Item.attr p l ∈ items → p ≠ "" → attrNS a.path p ≠ none)
    (hk1 : ∀ l ∈ a.path, ∀ d ∈ l, d.uri ≠ xmlnsURI)
    (x : Item) (hx : x ∈ items) (y : Item) (hy : y ∈ items)
    (hT : ∀ dx, declOf? x = some dx → ∀ dy, declOf? y = some dy → dx.pre ≠ dy.pre) :
    (kM S x ≠ kM S y) ↔
      (∀ ax, attrOf? x = some ax → ∀ ay, attrOf? y = some ay → (attrNS a.path ax.1, ax.2) ≠ (attrNS a.path ay.1, ay.2)) := by
  have hxs : xmlnsString = "xmlns" := by decide
  have hnu : xmlnsURIName = xmlnsURI := by decide
  have hnne : xmlnsURIName ≠ "" := by decide
  have hidne : getId S.uriPool "" ≠ getId S.uriPool xmlnsURIName :=
    fun hh => hnne (getId_inj h.eid.1 h.nid.1 hh).symm
  -- facts about an ordinary attribute of the tag
  have hattr : ∀ p l, Item.attr p l ∈ items →
      kM S (.attr p l) = (getId S.uriPool ((attrNS a.path p).getD ""), l) ∧ (attrNS a.path p).getD "" ∈ S.uriPool ∧
      attrNS a.path p ≠ some "" ∧ attrNS a.path p ≠ some xmlnsURIName ∧ ¬ (attrNS a.path p = none ∧ l = xmlnsString) := by
    intro p l hm
    obtain ⟨k1, k2⟩ := kM_attr h hg p l (hb p l hm)
    have hio := hok _ hm
    refine ⟨k1, k2, ?_, ?_, ?_⟩
    · unfold attrNS; split
      · simp
      · exact inScope_ne_some_empty _ _
    · intro hc
      rw [hnu] at hc
      unfold attrNS at hc
      split at hc
      · simp at hc
      · obtain ⟨l', hl', d, hd, hdu⟩ := inScope_xmlnsURI_decl a.path p hio.1 hc
        exact hk1 l' hl' d hd hdu
    · rintro ⟨hn, hl⟩
      by_cases e : p = ""
      · exact hio.2 ⟨e, by rw [hl, hxs]⟩
      · exact hb p l hm e hn
  cases x with
  | decl dx =>
    cases y with
    | decl dy =>
      have hne : dx.pre ≠ dy.pre := hT dx rfl dy rfl
      simp only [attrOf?, reduceCtorEq, false_implies, implies_true, iff_true]
      rw [kM_decl h hg, kM_decl h hg]
      by_cases e1 : dx.pre = "" <;> by_cases e2 : dy.pre = ""
      · exact absurd (e1.trans e2.symm) hne
      · simp [e1, e2, hidne]
      · simp [e1, e2, Ne.symm hidne]
      · simp [e1, e2, hne]
    | attr p l =>
      obtain ⟨k1, k2, k3, k4, k5⟩ := hattr p l hy
      simp only [attrOf?, reduceCtorEq, false_implies, implies_true, iff_true]
      rw [kM_decl h hg, k1]
      by_cases e1 : dx.pre = ""
      · simp only [e1, ↓reduceIte, ne_eq, Prod.mk.injEq, not_and]
        intro hid hl
        have : (attrNS a.path p).getD "" = "" := (getId_inj h.eid.1 k2 hid).symm
        have hn : attrNS a.path p = none := by
          cases hq : attrNS a.path p with
          | none => rfl
          | some w => rw [hq] at this k3; simp at this; exact absurd (by rw [this]) k3
        exact k5 ⟨hn, hl.symm⟩
      · simp only [e1, ↓reduceIte, ne_eq, Prod.mk.injEq, not_and]
        intro hid
        have : (attrNS a.path p).getD "" = xmlnsURIName := (getId_inj h.nid.1 k2 hid).symm
        exfalso
        cases hq : attrNS a.path p with
        | none => rw [hq] at this; simp at this; exact hnne this
        | some w => rw [hq] at this k4; simp at this; exact k4 (by rw [this])
  | attr p l =>
    obtain ⟨k1, k2, k3, k4, k5⟩ := hattr p l hx
    cases y with
    | decl dy =>
      simp only [attrOf?, reduceCtorEq, false_implies, implies_true, iff_true]
      rw [kM_decl h hg, k1]
      by_cases e1 : dy.pre = ""
      · simp only [e1, ↓reduceIte, ne_eq, Prod.mk.injEq, not_and]
        intro hid hl
        have : (attrNS a.path p).getD "" = "" := getId_inj k2 h.eid.1 hid
        have hn : attrNS a.path p = none := by
          cases hq : attrNS a.path p with
          | none => rfl
          | some w => rw [hq] at this k3; simp at this; exact absurd (by rw [this]) k3
        exact k5 ⟨hn, hl⟩
      · simp only [e1, ↓reduceIte, ne_eq, Prod.mk.injEq, not_and]
        intro hid
        have : (attrNS a.path p).getD "" = xmlnsURIName := getId_inj k2 h.nid.1 hid
        exfalso
        cases hq : attrNS a.path p with
        | none => rw [hq] at this; simp at this; exact hnne this
        | some w => rw [hq] at this k4; simp at this; exact k4 (by rw [this])
    | attr q m =>
      obtain ⟨j1, j2, j3, j4, j5⟩ := hattr q m hy
      simp only [attrOf?, Option.some.injEq, forall_eq']
      rw [k1, j1]
      simp only [ne_eq, Prod.mk.injEq]
      constructor
      · intro hne hc
        exact hne ⟨by rw [hc.1], hc.2⟩
      · intro hne hc
        exact hne ⟨(getD_eq_iff k3 j3).mp (getId_inj k2 j2 hc.1), hc.2⟩


theorem bool_eq_of_false_iff {a b : Bool} (h : a = false ↔ b = false) : a = b := by
  cases a <;> cases b <;> simp_all

/-- **the collision check on registry keys = the Spec's check on expanded names** for a tag whose prefixes are all bound,
    in a context where nothing is bound to the xmlns namespace name -/
theorem dup_eq {S : Scan} {a : Abs} (h : Rep S a) (hg : a.g = []) (items : List Item)
    (hok : ∀ it ∈ items, ItemOK it)
    (hb : ∀ p l, Item.attr p l ∈ items → p ≠ "" → attrNS a.path p ≠ none)
    (hk1 : ∀ l ∈ a.path, ∀ d ∈ l, d.uri ≠ xmlnsURI)
    (hnd : ((declsOf items).map (·.pre)).Nodup) :
    dupExpanded (items.map (builtAttr S)) = hasDup (expandedAttrs a.path (attrsOf items)) := by
  apply bool_eq_of_false_iff
  rw [dupExpanded_eq_hasDup, hasDup_false_iff, hasDup_false_iff, List.map_map]
  have hT : items.Pairwise (fun x y => ∀ dx, declOf? x = some dx → ∀ dy, declOf? y = some dy → dx.pre ≠ dy.pre) := by
    rw [declsOf_eq_filterMap, List.nodup_iff_pairwise_ne, List.pairwise_map, List.pairwise_filterMap] at hnd
    exact hnd
  have e1 : (items.map ((fun a => (a.uriId, a.name)) ∘ builtAttr S)).Nodup ↔ items.Pairwise (fun x y => kM S x ≠ kM S y) := by
    rw [List.nodup_iff_pairwise_ne, List.pairwise_map]; rfl
  have e2 : (expandedAttrs a.path (attrsOf items)).Nodup ↔ items.Pairwise (fun x y =>
      ∀ ax, attrOf? x = some ax → ∀ ay, attrOf? y = some ay → (attrNS a.path ax.1, ax.2) ≠ (attrNS a.path ay.1, ay.2)) := by
    unfold expandedAttrs
    rw [attrsOf_eq_filterMap, List.nodup_iff_pairwise_ne, List.pairwise_map, List.pairwise_filterMap]
  rw [e1, e2]
  exact pairwise_iff_of hT (fun x hx y hy ht => kM_ne_iff h hg items hok hb hk1 x hx y hy ht)


-- ------------------------------------------------------------------------------------------ the start tag as a whole
theorem step_xml11 (S : Scan) (o : Op) : (S.step o).xml11 = S.xml11 := by
  cases o with
  | addLevel => rfl
  | popTop => simp only [Scan.step]; split <;> rfl
  | addPrefix p u => simp only [Scan.step]; split <;> rfl
  | addGlobalPrefix p u => rfl

theorem scanRaw_xml11 (attrs : List RawAttr) : ∀ S : Scan, (S.scanRawAttrListforNameSpaces attrs).xml11 = S.xml11 := by
  induction attrs with
  | nil => intro S; rfl
  | cons a r ih =>
    intro S
    unfold Scan.scanRawAttrListforNameSpaces
    split
    · rw [ih, step_xml11]
    · exact ih S

theorem startTag_xml11 (S : Scan) (attrs : List RawAttr) : (S.startTag attrs).xml11 = S.xml11 := by
  unfold Scan.startTag; rw [scanRaw_xml11, step_xml11]

theorem declErrors_nil {v11 : Bool} {d : Decl} (h : declErrors v11 d = []) :
    d.uri ≠ xmlnsURI ∧ (v11 = false → d.pre ≠ "" → d.uri ≠ "") := by
  unfold declErrors at h
  simp only [List.append_eq_nil_iff] at h
  obtain ⟨⟨⟨⟨_, _⟩, _⟩, h4⟩, h5⟩ := h
  constructor
  · intro hc; simp [hc] at h4
  · intro hv hp hu; simp [hp, hu, hv] at h5

theorem nonempty_append {α : Type} (a b : List α) : (!(a ++ b).isEmpty) = (!a.isEmpty || !b.isEmpty) := by
  cases a <;> simp

theorem nonempty_ite {α : Type} (c : Prop) [Decidable c] (x : α) : (!(if c then [x] else []).isEmpty) = decide c := by
  by_cases h : c <;> simp [h]

/-- the Spec's verdict on one start tag, as a Boolean -/
theorem tagErrors_nonempty (v11 : Bool) (path' : Path) (t : Tag) :
    (!(tagErrors v11 path' t).isEmpty) =
      ((declsOf t.items).any (fun d => !(declErrors v11 d).isEmpty) ||
       hasDup ((declsOf t.items).map (·.pre)) ||
       (decide (t.pre ≠ "") && (elemNS path' t.pre).isNone) ||
       (attrsOf t.items).any (fun x => decide (x.1 ≠ "" ∧ attrNS path' x.1 = none)) ||
       hasDup (expandedAttrs path' (attrsOf t.items))) := by
  have hfl : ∀ ds : List Decl, (!((ds.map (declErrors v11)).flatten).isEmpty) = ds.any (fun d => !(declErrors v11 d).isEmpty) := by
    intro ds
    induction ds with
    | nil => rfl
    | cons d r ih =>
      simp only [List.map_cons, List.flatten_cons, List.any_cons, nonempty_append, ih]
  have hdn : decide (t.pre ≠ "" ∧ elemNS path' t.pre = none) = (decide (t.pre ≠ "") && (elemNS path' t.pre).isNone) := by
    cases h : elemNS path' t.pre <;> by_cases e : t.pre = "" <;> simp [e]
  unfold tagErrors
  simp only [nonempty_append, nonempty_ite, hfl, Bool.decide_eq_true, hdn]

/-- **error detection at one start tag = the Spec's namespace constraints for that tag.**  The two-pass start tag
    (declarations first with their checks, then `resolvePrefix` for every name, then the duplicate check — quadratic loop
    or registry, whichever the attribute count selects) emits an error iff the Spec lists a violated constraint, given
    that the tag does not repeat a declaration (a plain well-formedness error outside this model) and that the
    declarations of the enclosing elements passed their own checks (else the parse has already stopped). -/
theorem startTag_error_iff {S : Scan} {a : Abs} (h : Rep S a) (hg : a.g = []) (t : Tag) (hok : ItemsOK t.items)
    (hnd : ((declsOf t.items).map (·.pre)).Nodup)
    (hanc : ∀ l ∈ a.stack, ∀ d ∈ l, declErrors S.xml11 d = []) :
    (startTagNS S t).2.2.2 = !(tagErrors S.xml11 (a.path ++ [declsOf t.items]) t).isEmpty := by
  obtain ⟨s1, hs1⟩ : ∃ s1, s1 = S.startTag (rawOfItems t.items) := ⟨_, rfl⟩
  have hrep1 : Rep s1 ⟨[], declsOf t.items :: a.stack⟩ := by
    have := rep_startTag h (rawOfItems t.items)
    rw [declsOfRaw_rawOfItems t.items hok, hg, ← hs1] at this
    exact this
  have hpath : (Abs.mk [] (declsOf t.items :: a.stack)).path = a.path ++ [declsOf t.items] := by simp [Abs.path]
  have hv : s1.xml11 = S.xml11 := by rw [hs1]; exact startTag_xml11 _ _
  have herr : (startTagNS S t).2.2.2 =
      ((rawOfItems t.items).any (fun a => a.isNSDecl && updateNSMapErrors S a) || t.items.any (itemErr s1) ||
       (s1.resolvePrefix t.pre .element).2 || dupCheck (t.items.map (builtAttr s1))) := by
    simp only [startTagNS, ← hs1, buildAttList_items]
  rw [herr, declErr_eq S t.items hok, dupCheck_eq, tagErrors_nonempty]
  by_cases hD : (declsOf t.items).any (fun d => !(declErrors S.xml11 d).isEmpty) = true
  · simp [hD]
  · have hDf : (declsOf t.items).any (fun d => !(declErrors S.xml11 d).isEmpty) = false := by simpa using hD
    have hown : ∀ d ∈ declsOf t.items, declErrors S.xml11 d = [] := by
      intro d hd
      have := List.any_eq_false.mp hDf d hd
      simpa using this
    have hall : ∀ l ∈ declsOf t.items :: a.stack, ∀ d ∈ l, declErrors S.xml11 d = [] := by
      intro l hl d hd
      rcases List.mem_cons.mp hl with h1 | h1
      · subst h1; exact hown d hd
      · exact hanc l h1 d hd
    have hk : NoEmptyPrefixed s1.xml11 (declsOf t.items :: a.stack) := by
      intro hvf l hl d hd
      rw [hv] at hvf
      exact (declErrors_nil (hall l hl d hd)).2 hvf
    have hk1 : ∀ l ∈ a.path ++ [declsOf t.items], ∀ d ∈ l, d.uri ≠ xmlnsURI := by
      intro l hl d hd
      have : l ∈ declsOf t.items :: a.stack := by
        rcases List.mem_append.mp hl with h1 | h1
        · exact List.mem_cons_of_mem _ (List.mem_reverse.mp h1)
        · simp at h1; subst h1; simp
      exact (declErrors_nil (hall l this d hd)).1
    have hAttr : t.items.any (itemErr s1) = (attrsOf t.items).any (fun x => decide (x.1 ≠ "" ∧ attrNS (a.path ++ [declsOf t.items]) x.1 = none)) := by
      rw [← any_specItemErr]
      have : ∀ it, itemErr s1 it = specItemErr (a.path ++ [declsOf t.items]) it := by
        intro it
        have := itemErr_eq hrep1 rfl hk it
        rw [hpath] at this
        exact this
      congr 1
      funext it
      exact this it
    have hElem : (s1.resolvePrefix t.pre .element).2 = (decide (t.pre ≠ "") && (elemNS (a.path ++ [declsOf t.items]) t.pre).isNone) := by
      have := elemErr_eq hrep1 rfl hk t.pre
      rw [hpath] at this
      exact this
    have hndf : hasDup ((declsOf t.items).map (·.pre)) = false := (hasDup_false_iff _).mpr hnd
    rw [hDf, hAttr, hElem, hndf]
    obtain ⟨U, hUdef⟩ : ∃ U, U = (attrsOf t.items).any (fun x => decide (x.1 ≠ "" ∧ attrNS (a.path ++ [declsOf t.items]) x.1 = none)) := ⟨_, rfl⟩
    obtain ⟨E, hEdef⟩ : ∃ E, E = (decide (t.pre ≠ "") && (elemNS (a.path ++ [declsOf t.items]) t.pre).isNone) := ⟨_, rfl⟩
    rw [← hUdef, ← hEdef]
    cases hU : U with
    | true => cases E <;> simp
    | false =>
      have hUf : (attrsOf t.items).any (fun x => decide (x.1 ≠ "" ∧ attrNS (a.path ++ [declsOf t.items]) x.1 = none)) = false := by
        rw [← hUdef, hU]
      have hb : ∀ p l, Item.attr p l ∈ t.items → p ≠ "" → attrNS (a.path ++ [declsOf t.items]) p ≠ none := by
        intro p l hm hp hn
        have := List.any_eq_false.mp hUf (p, l) (mem_attrsOf hm)
        simp [hp, hn] at this
      have hdup := dup_eq hrep1 rfl t.items hok.mem (by rw [hpath]; exact hb) (by rw [hpath]; exact hk1) hnd
      rw [hpath] at hdup
      rw [hdup]
      cases E <;> simp


-- ------------------------------------------------------------------------------------------ whole documents
mutual
  /-- no start tag repeats a namespace declaration (that would be a duplicate attribute: plain XML well-formedness) -/
  def NoDupDecl : Node → Prop
    | .elem t kids => ((declsOf t.items).map (·.pre)).Nodup ∧ NoDupDeclL kids
    | _ => True
  def NoDupDeclL : List Node → Prop
    | [] => True
    | n :: ns => NoDupDecl n ∧ NoDupDeclL ns
end

theorem tagErrors_nil_decls {v11 : Bool} {path' : Path} {t : Tag} (h : tagErrors v11 path' t = []) :
    ∀ d ∈ declsOf t.items, declErrors v11 d = [] := by
  intro d hd
  unfold tagErrors at h
  simp only [List.append_eq_nil_iff] at h
  obtain ⟨⟨⟨⟨h1, _⟩, _⟩, _⟩, _⟩ := h
  have := List.flatten_eq_nil_iff.mp h1 (declErrors v11 d) (List.mem_map.mpr ⟨d, hd, rfl⟩)
  exact this

theorem scanErrors_eq (v11 : Bool) : ∀ (n : Node), TreeOK n → NoDupDecl n → ∀ (S : Scan) (a : Abs),
    Rep S a → a.g = [] → S.xml11 = v11 → (∀ l ∈ a.stack, ∀ d ∈ l, declErrors v11 d = []) →
    scanErrorsNode S n = !(nodeErrors v11 a.path n).isEmpty := by
  intro n
  induction n using Node.rec (motive_2 := fun ns => TreesOK ns → NoDupDeclL ns → ∀ (S : Scan) (a : Abs),
      Rep S a → a.g = [] → S.xml11 = v11 → (∀ l ∈ a.stack, ∀ d ∈ l, declErrors v11 d = []) →
      scanErrorsList S ns = !(nodesErrors v11 a.path ns).isEmpty) with
  | elem t kids ih =>
    intro hok hnd S a hrep hg hv hanc
    obtain ⟨hitems, hkids⟩ := hok
    obtain ⟨hndt, hndk⟩ := hnd
    have htag := startTag_error_iff hrep hg t hitems hndt (by rw [hv]; exact hanc)
    rw [hv] at htag
    have hrep1 : Rep (startTagNS S t).1 ⟨[], declsOf t.items :: a.stack⟩ := by
      have := rep_startTag hrep (rawOfItems t.items)
      rw [declsOfRaw_rawOfItems t.items hitems, hg] at this
      simpa [startTagNS] using this
    have hv1 : (startTagNS S t).1.xml11 = v11 := by
      have : (startTagNS S t).1 = S.startTag (rawOfItems t.items) := by simp [startTagNS]
      rw [this, startTag_xml11, hv]
    have hunf : scanErrorsNode S (.elem t kids) = ((startTagNS S t).2.2.2 || scanErrorsList (startTagNS S t).1 kids) := by
      simp [scanErrorsNode]
    rw [hunf, htag]
    simp only [nodeErrors, nonempty_append]
    cases hte : (tagErrors v11 (a.path ++ [declsOf t.items]) t).isEmpty with
    | false => simp
    | true =>
      have hnil : tagErrors v11 (a.path ++ [declsOf t.items]) t = [] := List.isEmpty_iff.mp hte
      have hanc1 : ∀ l ∈ declsOf t.items :: a.stack, ∀ d ∈ l, declErrors v11 d = [] := by
        intro l hl d hd
        rcases List.mem_cons.mp hl with h1 | h1
        · subst h1; exact tagErrors_nil_decls hnil d hd
        · exact hanc l h1 d hd
      have := ih hkids hndk (startTagNS S t).1 ⟨[], declsOf t.items :: a.stack⟩ hrep1 rfl hv1 hanc1
      simp only [Abs.path, List.reverse_cons] at this
      simp only [Bool.not_true, Bool.false_or]
      rw [this]
      simp [Abs.path]
  | text => intro _ _ S a _ _ _ _; simp [scanErrorsNode, nodeErrors]
  | comment => intro _ _ S a _ _ _ _; simp [scanErrorsNode, nodeErrors]
  | pi => intro _ _ S a _ _ _ _; simp [scanErrorsNode, nodeErrors]
  | cdata => intro _ _ S a _ _ _ _; simp [scanErrorsNode, nodeErrors]
  | nil => simp [scanErrorsList, nodesErrors]
  | cons n ns ih1 ih2 =>
    rename_i hok hnd S a hrep hg hv hanc
    simp only [scanErrorsList, nodesErrors, nonempty_append]
    rw [ih1 hok.1 hnd.1 S a hrep hg hv hanc, ih2 hok.2 hnd.2 S a hrep hg hv hanc]

end XV.Lemmas.NsViews

namespace XV.Lemmas.NsViews
open XV.Model.ElemStack XV.Model.NsScan XV.Spec.Namespace XV.Lemmas.ElemStack
open XV.Model.DomLookup (DAttr DElem nullIfEmpty leName mkAttr mkElem)

/-- the Spec's expansion of one written attribute name as a DOM node reports it: (namespaceURI, prefix, localName);
    namespace declaration attributes live in the xmlns namespace (DOM Level 2), the default namespace does not apply -/
def attrExpansion (path' : Path) : Item → Option String × Option String × String
  | .decl d => (some xmlnsURI, if d.pre = "" then none else some "xmlns", if d.pre = "" then "xmlns" else d.pre)
  | .attr p l => (attrNS path' p, if p = "" then none else some p, l)

theorem specAttr_names (path' : Path) (it : Item) :
    ((specAttr path' it).ns, (specAttr path' it).pre, (specAttr path' it).loc) = attrExpansion path' it := by
  have hx : xmlnsString = "xmlns" := by decide
  have hnu : xmlnsURIName = xmlnsURI := by decide
  cases it with
  | decl d => by_cases e : d.pre = "" <;> simp [specAttr, attrExpansion, e, hx, hnu]
  | attr p l => by_cases e : p = "" <;> simp [specAttr, attrExpansion, e, nullIfEmpty]

theorem specElem_names (path' : Path) (t : Tag) (hb : t.pre ≠ "" → elemNS path' t.pre ≠ none) :
    (specElem path' t).ns = elemNS path' t.pre ∧ (specElem path' t).pre = nullIfEmpty t.pre ∧
    (specElem path' t).loc = t.loc ∧
    ((specElem path' t).attrs.map (fun a => (a.ns, a.pre, a.loc))).Perm (t.items.map (attrExpansion path')) := by
  have hperm : ((specElem path' t).attrs.map (fun a => (a.ns, a.pre, a.loc))).Perm (t.items.map (attrExpansion path')) := by
    rw [specElem_attrs]
    have := (List.mergeSort_perm (t.items.map (specAttr path')) leName).map (fun a => (a.ns, a.pre, a.loc))
    rw [List.map_map] at this
    have he : (fun a : DAttr => (a.ns, a.pre, a.loc)) ∘ specAttr path' = attrExpansion path' := by
      funext it; exact specAttr_names path' it
    rw [he] at this
    exact this
  unfold specElem
  cases hns : elemNS path' t.pre with
  | some u => exact ⟨rfl, rfl, rfl, by simpa [specElem, hns] using hperm⟩
  | none =>
    have hp : t.pre = "" := Classical.byContradiction (fun hne => hb hne hns)
    exact ⟨rfl, by simp [hp, nullIfEmpty], rfl, by simpa [specElem, hns] using hperm⟩

end XV.Lemmas.NsViews
