/-
C08 — lemmas behind `wildcard_spec`, `attr_uses_iff`, `substitution_closure_spec`.  Core Lean only.
-/
import XV.Spec.Particle
import XV.Model.Particle
namespace XV.Lemmas.ParticleRules
open XV.Spec.Particle XV.Model.Particle

/-! ### wildcards -/

theorem allows_iff (c : NsConstraint) (n : Nat) : c.allows n = true ↔ c.Allows n := by
  cases c with
  | any => simp [NsConstraint.allows, NsConstraint.Allows]
  | other t => simp [NsConstraint.allows, NsConstraint.Allows]
  | list l => simp [NsConstraint.allows, NsConstraint.Allows]

theorem wildAccepts_eq (c : NsConstraint) (x : QName) : wildAccepts c x = c.allows x.ns := by
  cases c with
  | any => simp [wildAccepts, wildLeaves, leafAccepts, NsConstraint.allows]
  | other t =>
    simp only [wildAccepts, wildLeaves, leafAccepts, NsConstraint.allows, List.any_cons, List.any_nil,
      Bool.or_false, uriId, emptyNsId, absentNs]
    rw [Bool.eq_iff_iff]; simp
  | list l =>
    simp only [wildAccepts, wildLeaves, NsConstraint.allows, List.any_map]
    induction l with
    | nil => simp
    | cons n l ih =>
      simp only [List.any_cons, List.contains_cons, ih]
      congr 1
      simp only [Function.comp, leafAccepts, uriId]
      rw [Bool.eq_iff_iff]; simp; omega

theorem attWildAccepts_eq (c : NsConstraint) (x : QName) : attWildAccepts c x = c.allows x.ns := by
  cases c with
  | any => simp [attWildAccepts, attWildOf, anyAttributeValidation, NsConstraint.allows]
  | other t =>
    simp only [attWildAccepts, attWildOf, anyAttributeValidation, NsConstraint.allows, uriId, emptyNsId, absentNs]
    rw [Bool.eq_iff_iff]; simp; omega
  | list l =>
    simp only [attWildAccepts, attWildOf, anyAttributeValidation, NsConstraint.allows, List.any_map]
    induction l with
    | nil => simp
    | cons n l ih =>
      simp only [List.any_cons, List.contains_cons, ih]
      congr 1
      simp only [Function.comp, uriId]
      rw [Bool.eq_iff_iff]; simp; omega

/-! ### attribute uses -/

theorem attrViolations_nil_iff (uses : List AttrUse) (wc : Option AttrWildcard) (globals : List AttrDecl) (attrs : List Attr) :
    attrViolations uses wc globals attrs = [] ↔ AttrsValid uses wc globals attrs := by
  unfold attrViolations AttrsValid
  rw [List.append_eq_nil_iff, List.map_eq_nil_iff, List.map_eq_nil_iff, List.filter_eq_nil_iff, List.filter_eq_nil_iff]
  constructor
  · rintro ⟨h1, h2⟩
    refine ⟨fun a ha => by simpa using h1 a ha, ?_⟩
    intro u hu hr
    have := h2 u hu
    simp only [hr, beq_self_eq_true, Bool.true_and, Bool.not_eq_true', Bool.not_eq_false] at this
    obtain ⟨a, ha, he⟩ := List.any_eq_true.1 this
    exact ⟨a, ha, by simpa using he⟩
  · rintro ⟨h1, h2⟩
    refine ⟨fun a ha => by simpa using h1 a ha, ?_⟩
    intro u hu
    by_cases hr : u.use = .required
    · obtain ⟨a, ha, he⟩ := h2 u hu hr
      have : attrs.any (fun a => a.1 == u.name) = true := List.any_eq_true.2 ⟨a, ha, by simpa using he⟩
      simp [this]
    · have : (u.use == Use.required) = false := by simpa using hr
      simp [this]

theorem attDefOf_name (u : AttrUse) : (attDefOf u).name = u.name := by
  unfold attDefOf
  split <;> rfl

theorem getAttDef_map (uses : List AttrUse) (q : QName) :
    getAttDef (uses.map attDefOf) q = (uses.find? (fun u => u.name == q)).map attDefOf := by
  unfold getAttDef
  induction uses with
  | nil => rfl
  | cons u us ih =>
    simp only [List.map_cons, List.find?_cons, attDefOf_name]
    cases (u.name == q) <;> simp [ih]

/-- with distinct names, the use found among the effective uses is the one found among all uses unless that one
    is prohibited -/
theorem findUse_of_find (uses : List AttrUse) (hnd : (uses.map (·.name)).Nodup) (q : QName) :
    findUse uses q =
      match uses.find? (fun u => u.name == q) with
      | some u => if u.use = .prohibited then none else some u
      | none => none := by
  unfold findUse effectiveUses
  induction uses with
  | nil => rfl
  | cons u us ih =>
    simp only [List.map_cons, List.nodup_cons] at hnd
    have ih' := ih hnd.2
    by_cases hq : u.name = q
    · subst hq
      have hnone : us.find? (fun v => v.name == u.name) = none := by
        rw [List.find?_eq_none]
        intro v hv hvn
        exact hnd.1 (List.mem_map.2 ⟨v, hv, by simpa using hvn⟩)
      rw [hnone] at ih'
      by_cases hp : u.use = .prohibited
      · simp [hp, ih']
      · have : (u.use != Use.prohibited) = true := by simpa using hp
        simp [this, hp]
    · have hq' : (u.name == q) = false := by simpa using hq
      by_cases hp : u.use = .prohibited
      · simp [hp, hq', ih']
      · have : (u.use != Use.prohibited) = true := by simpa using hp
        simp [this, hq', ih']

theorem isFixed_attDefOf (u : AttrUse) (v : Nat) (hp : u.use ≠ .prohibited) :
    (isFixed (attDefOf u) && (attDefOf u).value != some v) = !vcOk u.vc v := by
  cases hu : u.use <;> cases hv : u.vc <;> simp_all [attDefOf, isFixed, vcOk] <;>
    (rw [Bool.eq_iff_iff]; simp; omega)

theorem attDefOf_prohibited (u : AttrUse) : (attDefOf u).defType = .Prohibited ↔ u.use = .prohibited := by
  cases hu : u.use <;> cases hv : u.vc <;> simp [attDefOf, hu, hv]

theorem lookupAttDef_map (uses : List AttrUse) (wc : Option AttrWildcard) (q : QName) :
    lookupAttDef (uses.map attDefOf) wc q =
      match uses.find? (fun u => u.name == q) with
      | some u => if u.use = .prohibited ∧ wildcardAdmits wc q = true then none else some (attDefOf u)
      | none => none := by
  unfold lookupAttDef
  rw [getAttDef_map]
  cases uses.find? (fun u => u.name == q) with
  | none => rfl
  | some u =>
    simp only [Option.map_some, Bool.and_eq_true, decide_eq_true_eq, attDefOf_prohibited]

/-- the wildcard branch of `provided` agrees with the wildcard clause (3.2) of `attrOk` -/
theorem wildBranch_nil_iff (wc : Option AttrWildcard) (globals : List AttrDecl) (a : Attr) :
    (match wc with
      | none => ["AttNotDefinedForElement"]
      | some w =>
        if (!w.c.allows a.1.ns) = true then ["AttNotDefinedForElement"]
        else if w.pc = .skip then []
        else
          match findAttrDecl globals a.1 with
          | some g => (match g.vc with | .fixed f => if (f != a.2) = true then ["NotSameAsFixedValue"] else [] | _ => [])
          | none => if w.pc = .lax then [] else ["AttNotDefinedForElement"]) = ([] : List String)
    ↔ (match wc with
      | none => false
      | some w =>
        w.c.allows a.1.ns &&
        (match w.pc with
         | .skip => true
         | .strict => (match findAttrDecl globals a.1 with | some d => vcOk d.vc a.2 | none => false)
         | .lax => (match findAttrDecl globals a.1 with | some d => vcOk d.vc a.2 | none => true))) = true := by
  cases wc with
  | none => simp
  | some w =>
    simp only []
    cases hal : w.c.allows a.1.ns
    · simp
    · cases hpc : w.pc
      · cases hg : findAttrDecl globals a.1 with
        | none => simp
        | some g =>
          cases hvc : g.vc <;> simp [vcOk, hvc]
          constructor <;> intro h <;> exact h.symm
      · cases hg : findAttrDecl globals a.1 with
        | none => simp
        | some g =>
          cases hvc : g.vc <;> simp [vcOk, hvc]
          constructor <;> intro h <;> exact h.symm
      · simp

/-- one provided attribute: the first loop reports nothing iff the attribute is valid, or it hits a prohibited
    definition that the wildcard does not admit (reported by the second loop) -/
theorem provided_nil_iff (uses : List AttrUse) (hnd : (uses.map (·.name)).Nodup) (wc : Option AttrWildcard)
    (globals : List AttrDecl) (a : Attr) :
    provided (uses.map attDefOf) wc globals a = [] ↔
      (attrOk uses wc globals a = true ∨
       ∃ u, uses.find? (fun u => u.name == a.1) = some u ∧ u.use = .prohibited ∧ wildcardAdmits wc a.1 = false) := by
  unfold provided attrOk
  rw [lookupAttDef_map, findUse_of_find uses hnd]
  cases hf : uses.find? (fun u => u.name == a.1) with
  | none =>
    simp only [reduceCtorEq, false_and, exists_false, or_false]
    exact wildBranch_nil_iff wc globals a
  | some u =>
    by_cases hp : u.use = .prohibited
    · cases had : wildcardAdmits wc a.1
      · -- prohibited and not admitted: the definition stays, nothing is reported here
        simp only [hp, had, Bool.false_eq_true, and_false, if_false, if_true, true_and, Option.some.injEq,
          exists_eq_left']
        have hfx : isFixed (attDefOf u) = false := by
          cases hv : u.vc <;> simp [attDefOf, isFixed, hp, hv]
        simp only [hfx, Bool.false_and, Bool.false_eq_true, if_false, true_iff]
        exact .inr trivial
      · -- prohibited but admitted by the wildcard: validated through the wildcard
        simp only [hp, had, and_self, if_true, Bool.true_eq_false, and_false, exists_false, or_false]
        exact wildBranch_nil_iff wc globals a
    · simp only [hp, false_and, if_false, Option.some.injEq, exists_eq_left', or_false]
      have := isFixed_attDefOf u a.2 hp
      cases hv : vcOk u.vc a.2 <;> simp_all

theorem declared_nil_iff (uses : List AttrUse) (wc : Option AttrWildcard) (attrs : List Attr) :
    declared (uses.map attDefOf) wc attrs = [] ↔
      ∀ u, u ∈ uses →
        (u.use = .required → attrs.any (fun a => a.1 == u.name) = true) ∧
        (u.use = .prohibited → attrs.any (fun a => a.1 == u.name) = true → wildcardAdmits wc u.name = true) := by
  unfold declared
  rw [List.filterMap_eq_nil_iff]
  simp only [List.mem_map, forall_exists_index, and_imp, forall_apply_eq_imp_iff₂, attDefOf_name]
  constructor
  · intro h u hu
    have := h u hu
    cases hu' : u.use <;> cases hv : u.vc <;> cases hany : attrs.any (fun a => a.1 == u.name) <;>
      cases had : wildcardAdmits wc u.name <;> simp_all [attDefOf]
  · intro h u hu
    have := h u hu
    cases hu' : u.use <;> cases hv : u.vc <;> cases hany : attrs.any (fun a => a.1 == u.name) <;>
      cases had : wildcardAdmits wc u.name <;> simp_all [attDefOf]

/-- the first use named like `u` is `u` itself when names are distinct -/
theorem find_of_mem_nodup (uses : List AttrUse) (hnd : (uses.map (·.name)).Nodup) (u : AttrUse) (hu : u ∈ uses) :
    uses.find? (fun v => v.name == u.name) = some u := by
  induction uses with
  | nil => cases hu
  | cons v vs ih =>
    simp only [List.map_cons, List.nodup_cons] at hnd
    simp only [List.mem_cons] at hu
    rcases hu with rfl | hu
    · simp
    · have hne : v.name ≠ u.name := fun e => hnd.1 (List.mem_map.2 ⟨u, hu, e.symm⟩)
      have : (v.name == u.name) = false := by simpa using hne
      simp only [List.find?_cons, this]
      exact ih hnd.2 hu

/-- `buildAttList` (schema part, repaired code: a prohibited definition admitted by the wildcard is treated as
    absent) reports nothing exactly when the attributes are valid -/
theorem buildAttList_nil_iff (uses : List AttrUse) (hnd : (uses.map (·.name)).Nodup) (wc : Option AttrWildcard)
    (globals : List AttrDecl) (attrs : List Attr) :
    buildAttList (uses.map attDefOf) wc globals attrs = [] ↔ AttrsValid uses wc globals attrs := by
  unfold buildAttList AttrsValid
  rw [List.append_eq_nil_iff, List.flatMap_eq_nil_iff, declared_nil_iff]
  -- an attribute hitting a prohibited use that the wildcard does not admit is invalid for the Spec as well
  have hproh : ∀ a : Attr, ∀ u, uses.find? (fun u => u.name == a.1) = some u → u.use = .prohibited →
      wildcardAdmits wc a.1 = false → attrOk uses wc globals a = false := by
    intro a u hf hp had
    unfold attrOk
    rw [findUse_of_find uses hnd, hf]
    simp only [hp, if_true]
    cases wc with
    | none => rfl
    | some w =>
      have : w.c.allows a.1.ns = false := by simpa [wildcardAdmits] using had
      simp [this]
  constructor
  · rintro ⟨h1, h2⟩
    constructor
    · intro a ha
      rcases (provided_nil_iff uses hnd wc globals a).1 (h1 a ha) with h | ⟨u, hf, hp, had⟩
      · exact h
      · have hmem : u ∈ uses := List.mem_of_find?_eq_some hf
        have hname : u.name = a.1 := by simpa using List.find?_some hf
        have hany : attrs.any (fun b => b.1 == u.name) = true := List.any_eq_true.2 ⟨a, ha, by simp [hname]⟩
        have := (h2 u hmem).2 hp hany
        rw [hname, had] at this
        cases this
    · intro u hu hr
      obtain ⟨a, ha, he⟩ := List.any_eq_true.1 ((h2 u hu).1 hr)
      exact ⟨a, ha, by simpa using he⟩
  · rintro ⟨h1, h2⟩
    constructor
    · intro a ha
      exact (provided_nil_iff uses hnd wc globals a).2 (.inl (h1 a ha))
    · intro u hu
      constructor
      · intro hr
        obtain ⟨a, ha, he⟩ := h2 u hu hr
        exact List.any_eq_true.2 ⟨a, ha, by simpa using he⟩
      · intro hp hany
        obtain ⟨a, ha, he⟩ := List.any_eq_true.1 hany
        have hname : a.1 = u.name := by simpa using he
        have hf : uses.find? (fun v => v.name == a.1) = some u := by
          rw [hname]; exact find_of_mem_nodup uses hnd u hu
        cases had : wildcardAdmits wc u.name with
        | true => rfl
        | false =>
          have := hproh a u hf hp (by rw [hname]; exact had)
          rw [h1 a ha] at this
          cases this

/-! ### substitution groups -/

theorem findElem_name {E : SubstEnv} {q : QName} {d : ElemDecl} (h : E.findElem q = some d) : d.name = q := by
  unfold SubstEnv.findElem at h
  simpa using List.find?_some h

theorem findElem_mem {E : SubstEnv} {q : QName} {d : ElemDecl} (h : E.findElem q = some d) : d ∈ E.elems :=
  List.mem_of_find?_eq_some h

/-- executable chain walk ⇒ declarative chain -/
theorem affilChain_sound (E : SubstEnv) (fuel : Nat) (d : ElemDecl) (c : QName) (h : affilChain E fuel d c = true) :
    AffilChain E d c := by
  induction fuel generalizing d with
  | zero => simp [affilChain] at h
  | succ fuel ih =>
    unfold affilChain at h
    cases hs : d.subst with
    | none => simp [hs] at h
    | some hq =>
      simp only [hs, Bool.or_eq_true, beq_iff_eq] at h
      rcases h with rfl | h
      · exact .step hs
      · cases hf : E.findElem hq with
        | none => simp [hf] at h
        | some hd =>
          simp only [hf] at h
          exact .trans hs hf (ih hd h)

/-- declarative chain ⇒ executable walk, given a rank that decreases along affiliations -/
theorem affilChain_complete (E : SubstEnv) (rank : QName → Nat)
    (hrank : ∀ d, d ∈ E.elems → ∀ hq h, d.subst = some hq → E.findElem hq = some h → rank h.name < rank d.name)
    (d : ElemDecl) (c : QName) (h : AffilChain E d c) :
    d ∈ E.elems → ∀ fuel, rank d.name < fuel → affilChain E fuel d c = true := by
  induction h with
  | @step d c hs =>
    intro _ fuel hf
    cases fuel with
    | zero => omega
    | succ fuel => simp [affilChain, hs]
  | @trans d hd hq c hs hfind _ ih =>
    intro hmem fuel hf
    cases fuel with
    | zero => omega
    | succ fuel =>
      have hr := hrank d hmem hq hd hs hfind
      have := ih (findElem_mem hfind) fuel (by omega)
      simp [affilChain, hs, hfind, this]

theorem derivedVia_sound (E : SubstEnv) (fuel t b : Nat) (ms : List Deriv) (bs : BlockSet)
    (h : derivedVia E fuel t b = some (ms, bs)) : DerivedVia E t b ms bs := by
  induction fuel generalizing t ms bs with
  | zero =>
    unfold derivedVia at h
    by_cases e : t = b
    · subst e; simp at h; obtain ⟨rfl, rfl⟩ := h; exact .refl t
    · simp [e] at h
  | succ fuel ih =>
    unfold derivedVia at h
    by_cases e : t = b
    · subst e; simp at h; obtain ⟨rfl, rfl⟩ := h; exact .refl t
    · simp only [e, if_false] at h
      cases hft : E.findType t with
      | none => simp [hft] at h
      | some td =>
        simp only [hft] at h
        cases hb : td.base with
        | none => simp [hb] at h
        | some m =>
          simp only [hb] at h
          cases hfm : E.findType m with
          | none => simp [hfm] at h
          | some md =>
            simp only [hfm] at h
            cases hr : derivedVia E fuel m b with
            | none => simp [hr] at h
            | some r =>
              obtain ⟨ms', bs'⟩ := r
              simp only [hr, Option.some.injEq, Prod.mk.injEq] at h
              obtain ⟨rfl, rfl⟩ := h
              exact .step hft hb hfm (ih m ms' bs' hr)

/-- a derivation of `t` from `b` found declaratively is found by the walk, given a rank decreasing along
    base links (no circular type definitions); the walk is deterministic, so it returns the same methods
    and blocks -/
theorem derivedVia_complete (E : SubstEnv) (rank : Nat → Nat)
    (hrank : ∀ t td m, E.findType t = some td → td.base = some m → rank m < rank t)
    (t b : Nat) (ms : List Deriv) (bs : BlockSet) (h : DerivedVia E t b ms bs) :
    ∀ fuel, (∀ td, E.findType t = some td → rank t < fuel) → derivedVia E fuel t b = some (ms, bs) := by
  induction h with
  | refl t =>
    intro fuel _
    cases fuel <;> simp [derivedVia]
  | @step t m b td ms bs md hft hb hfm _ ih =>
    intro fuel hf
    have hf := hf td hft
    have hr := hrank t td m hft hb
    cases fuel with
    | zero => omega
    | succ fuel =>
      have hne : t ≠ b := by
        intro e
        subst e
        -- `t` derived from itself through `m` would need rank m < rank t and the chain from m back to t
        -- to decrease further: impossible
        have : ∀ {x y ms bs}, DerivedVia E x y ms bs → rank y ≤ rank x := by
          intro x y ms bs hd
          induction hd with
          | refl => exact Nat.le_refl _
          | step h1 h2 _ _ ih' => exact Nat.le_trans ih' (Nat.le_of_lt (hrank _ _ _ h1 h2))
        have := this ‹DerivedVia E m t ms bs›
        omega
      have := ih fuel (fun _ _ => by omega)
      simp [derivedVia, hne, hft, hb, hfm, this]

/-- the Spec's executable `substitutable` decides `Substitutable`, for schemas without circular substitution
    groups / type definitions (ranks bounded by the number of declarations) -/
theorem substitutable_iff (E : SubstEnv) (erank : QName → Nat) (trank : Nat → Nat)
    (he : ∀ d, d ∈ E.elems → ∀ hq h, d.subst = some hq → E.findElem hq = some h → erank h.name < erank d.name)
    (heb : ∀ d, d ∈ E.elems → erank d.name < E.elems.length)
    (ht : ∀ t td m, E.findType t = some td → td.base = some m → trank m < trank t)
    (htb : ∀ t td, E.findType t = some td → trank t < E.types.length)
    (dq cq : QName) : substitutable E dq cq = true ↔ Substitutable E dq cq := by
  unfold substitutable Substitutable
  cases hd : E.findElem dq with
  | none => simp
  | some d =>
    cases hc : E.findElem cq with
    | none => simp
    | some c =>
      simp only [Option.some.injEq, Bool.and_eq_true, Bool.not_eq_true', exists_and_left, exists_eq_left']
      constructor
      · rintro ⟨⟨hb, hch⟩, hdv⟩
        refine ⟨hb, affilChain_sound E _ d cq hch, ?_⟩
        cases hr : derivedVia E E.types.length d.type c.type with
        | none => simp [hr] at hdv
        | some r =>
          obtain ⟨ms, bs⟩ := r
          simp only [hr] at hdv
          refine ⟨ms, bs, derivedVia_sound E _ _ _ ms bs hr, ?_⟩
          intro m hm
          have := List.all_eq_true.1 hdv m hm
          simpa using this
      · rintro ⟨hb, hch, ms, bs, hdv, hall⟩
        refine ⟨⟨hb, affilChain_complete E erank he d cq hch (findElem_mem hd) _ ?_⟩, ?_⟩
        · have := heb d (findElem_mem hd); exact this
        · rw [derivedVia_complete E trank ht _ _ ms bs hdv _ (htb _)]
          simp only [List.all_eq_true]
          intro m hm
          simpa using hall m hm

/-! the code-shaped comparator against the Spec's executable -/

theorem findHead_some (E : SubstEnv) (fuel : Nat) (s : Option QName) (c : QName) (h : ElemDecl)
    (hh : findHead E fuel s c = some h) : E.findElem c = some h := by
  induction fuel generalizing s with
  | zero => simp [findHead] at hh
  | succ fuel ih =>
    cases s with
    | none => simp [findHead] at hh
    | some hq =>
      simp only [findHead] at hh
      cases hf : E.findElem hq with
      | none => simp [hf] at hh
      | some hd =>
        simp only [hf] at hh
        by_cases e : hd.name = c
        · simp only [e, if_true, Option.some.injEq] at hh
          subst hh
          rw [← e, findElem_name hf] at *
          exact hf
        · simp only [e, if_false] at hh
          exact ih _ hh

theorem findHead_eq (E : SubstEnv) (c : QName) (cd : ElemDecl) (hc : E.findElem c = some cd) (fuel : Nat) (d : ElemDecl) :
    findHead E fuel d.subst c = if affilChain E fuel d c = true then some cd else none := by
  induction fuel generalizing d with
  | zero => simp [findHead, affilChain]
  | succ fuel ih =>
    cases hs : d.subst with
    | none => simp [findHead, affilChain, hs]
    | some hq =>
      cases hf : E.findElem hq with
      | none =>
        have hne : hq ≠ c := by intro e; subst e; rw [hc] at hf; cases hf
        simp [findHead, affilChain, hs, hf, hne]
      | some hd =>
        have hn := findElem_name hf
        by_cases e : hq = c
        · subst e
          rw [hc] at hf
          cases hf
          simp [findHead, affilChain, hs, hc, hn]
        · have e' : hd.name ≠ c := by rw [hn]; exact e
          simp [findHead, affilChain, hs, hf, e, e', ih hd]

theorem union_has (a b : BlockSet) (m : Deriv) : (a.union b).has m = (a.has m || b.has m) := by
  cases m <;> simp [BlockSet.union, BlockSet.has]

theorem typeWalk_eq (E : SubstEnv) (ex : Nat) (fuel : Nat) (t : Nat) (dev : List Deriv) (blk : BlockSet) :
    match derivedVia E fuel t ex with
    | none => typeWalk E fuel t ex dev blk = none
    | some (ms, bs) => ∃ dev' blk', typeWalk E fuel t ex dev blk = some (dev', blk') ∧
        (∀ m, m ∈ dev' ↔ m ∈ ms ∨ m ∈ dev) ∧ (∀ m, blk'.has m = (blk.has m || bs.has m)) := by
  induction fuel generalizing t dev blk with
  | zero =>
    unfold derivedVia typeWalk
    by_cases e : t = ex
    · subst e
      simp only [↓reduceIte]
      exact ⟨dev, blk, rfl, by simp, by intro m; cases m <;> simp [BlockSet.has]⟩
    · simp [e]
  | succ fuel ih =>
    unfold derivedVia typeWalk
    by_cases e : t = ex
    · subst e
      simp only [↓reduceIte]
      exact ⟨dev, blk, rfl, by simp, by intro m; cases m <;> simp [BlockSet.has]⟩
    · simp only [e, if_false]
      cases hft : E.findType t with
      | none => simp
      | some td =>
        simp only []
        cases hb : td.base with
        | none => simp
        | some b =>
          simp only []
          cases hfb : E.findType b with
          | none => simp
          | some bd =>
            simp only []
            have := ih b (td.derivedBy :: dev) (blk.union bd.block)
            cases hr : derivedVia E fuel b ex with
            | none => rw [hr] at this; simpa using this
            | some r =>
              obtain ⟨ms, bs⟩ := r
              rw [hr] at this
              obtain ⟨dev', blk', h1, h2, h3⟩ := this
              refine ⟨dev', blk', h1, ?_, ?_⟩
              · intro m
                rw [h2 m]
                simp only [List.mem_cons]
                constructor
                · rintro (h | h | h)
                  · exact .inl (.inr h)
                  · exact .inl (.inl h)
                  · exact .inr h
                · rintro ((h | h) | h)
                  · exact .inr (.inl h)
                  · exact .inl h
                  · exact .inr (.inr h)
              · intro m
                rw [h3 m, union_has, union_has]
                cases blk.has m <;> cases bd.block.has m <;> cases bs.has m <;> rfl

/-- the code-shaped comparator computes "same element, or substitutable" -/
theorem isEquivalentTo_eq (E : SubstEnv) (dq cq : QName) :
    isEquivalentTo E dq cq = (decide (dq = cq) || substitutable E dq cq) := by
  unfold isEquivalentTo substitutable
  by_cases e : dq = cq
  · simp [e]
  · simp only [e, if_false, decide_false, Bool.false_or]
    cases hd : E.findElem dq with
    | none => rfl
    | some d =>
      simp only []
      cases hc : E.findElem cq with
      | none =>
        cases hh : findHead E E.elems.length d.subst cq with
        | none => rfl
        | some h => rw [findHead_some E _ _ _ h hh] at hc; cases hc
      | some c =>
        simp only []
        rw [findHead_eq E cq c hc]
        cases hch : affilChain E E.elems.length d cq with
        | false => simp
        | true =>
          simp only [if_true]
          cases hb : c.block.substitution with
          | true => simp
          | false =>
            simp only [Bool.false_eq_true, if_false, Bool.not_false, Bool.true_and]
            have := typeWalk_eq E c.type E.types.length d.type [] c.block
            cases hr : derivedVia E E.types.length d.type c.type with
            | none => rw [hr] at this; simp [this]
            | some r =>
              obtain ⟨ms, bs⟩ := r
              rw [hr] at this
              obtain ⟨dev', blk', h1, h2, h3⟩ := this
              simp only [h1]
              rw [Bool.eq_iff_iff]
              simp only [List.all_eq_true, Bool.not_eq_true', List.not_mem_nil, or_false] at *
              constructor
              · intro h m hm
                have := h m ((h2 m).2 hm)
                rw [h3] at this
                rw [union_has]; exact this
              · intro h m hm
                have := h m ((h2 m).1 hm)
                rw [union_has] at this
                rw [h3]; exact this

end XV.Lemmas.ParticleRules
