/-
C14 — helper lemmas for XV.Props.C14: the shape of well-formed stores (ancestor chains, document order as nested
blocks), pointer walks = list successors, list positions.
-/
import XV.Lemmas.Dom
import XV.Spec.Views
namespace XV.Lemmas.Views
open XV.Model.Dom XV.Spec.Dom XV.Model.Views XV.Spec.Views XV.Lemmas.Dom

set_option maxRecDepth 4000

-- ------------------------------------------------------------------ counting

/-- a duplicate-free list of numbers below `n` has at most `n` elements -/
theorem nodup_bounded_length : ∀ (n : Nat) (l : List Nat), l.Nodup → (∀ a, a ∈ l → a < n) → l.length ≤ n := by
  intro n
  induction n with
  | zero =>
    intro l _ hb
    cases l with
    | nil => simp
    | cons a t => exact absurd (hb a (List.mem_cons_self ..)) (Nat.not_lt_zero _)
  | succ k ih =>
    intro l hnd hb
    have h1 := ih (l.erase k) (hnd.erase k) (by
      intro a ha
      have hne : a ≠ k := by
        intro hak; subst hak
        exact (List.Nodup.not_mem_erase hnd) ha
      have := hb a ((List.mem_erase_of_ne hne).mp ha)
      omega)
    by_cases hk : k ∈ l
    · have := List.length_erase_of_mem hk
      have hpos : 0 < l.length := List.length_pos_of_mem hk
      omega
    · rw [List.erase_of_not_mem hk] at h1
      omega

theorem flatMap_congr' {α β : Type} (l : List α) (f g : α → List β) (h : ∀ a, a ∈ l → f a = g a) :
    l.flatMap f = l.flatMap g := by
  induction l with
  | nil => rfl
  | cons a t ih =>
    simp only [List.flatMap_cons]
    rw [h a (List.mem_cons_self ..), ih (fun b hb => h b (List.mem_cons_of_mem _ hb))]

theorem nodup_flatMap' {α β : Type} (l : List α) (f : α → List β) (h1 : ∀ a, a ∈ l → (f a).Nodup)
    (h2 : l.Pairwise (fun a b => ∀ x, x ∈ f a → x ∈ f b → False)) : (l.flatMap f).Nodup := by
  induction l with
  | nil => simp
  | cons a t ih =>
    simp only [List.flatMap_cons]
    rw [List.nodup_append]
    have hp := List.pairwise_cons.mp h2
    refine ⟨h1 a (List.mem_cons_self ..), ih (fun b hb => h1 b (List.mem_cons_of_mem _ hb)) hp.2, ?_⟩
    intro x hx y hy hxy
    subst hxy
    obtain ⟨b, hb, hxb⟩ := List.mem_flatMap.mp hy
    exact hp.1 b hb x hx hxb

-- ------------------------------------------------------------------ rank measures of a well-formed store

def aboveCount (s : Store) (rank : NodeId → Nat) (y : NodeId) : Nat :=
  ((List.range s.size).filter (fun z => decide (rank y < rank z))).length

def belowCount (s : Store) (rank : NodeId → Nat) (y : NodeId) : Nat :=
  ((List.range s.size).filter (fun z => decide (rank z < rank y))).length

theorem above_lt (s : Store) (rank : NodeId → Nat) (y q : NodeId) (hq : q < s.size) (hlt : rank y < rank q) :
    aboveCount s rank q < aboveCount s rank y := by
  unfold aboveCount
  apply length_filter_lt
  · intro z hz; simp at hz ⊢; omega
  · exact ⟨q, by simp [List.mem_range]; exact hq, by simp; exact hlt, by simp⟩

theorem filter_range_lt (n : Nat) (Q : Nat → Bool) (y : Nat) (hy : y < n) (hq : Q y = false) :
    ((List.range n).filter Q).length + 1 ≤ n := by
  have h := length_filter_lt (List.range n) (fun _ => true) Q (by intros; rfl)
    ⟨y, by simp [List.mem_range]; exact hy, rfl, hq⟩
  have hall : ∀ l : List Nat, (List.filter (fun _ => true) l) = l := by
    intro l; exact List.filter_eq_self.mpr (by intros; rfl)
  rw [hall, List.length_range] at h
  omega

theorem above_le (s : Store) (rank : NodeId → Nat) (y : NodeId) (hy : y < s.size) : aboveCount s rank y + 1 ≤ s.size := by
  unfold aboveCount
  exact filter_range_lt _ _ y hy (by simp)

theorem below_lt (s : Store) (rank : NodeId → Nat) (y c : NodeId) (hc : c < s.size) (hlt : rank c < rank y) :
    belowCount s rank c < belowCount s rank y := by
  unfold belowCount
  apply length_filter_lt
  · intro z hz; simp at hz ⊢; omega
  · exact ⟨c, by simp [List.mem_range]; exact hc, by simp; exact hlt, by simp⟩

theorem below_le (s : Store) (rank : NodeId → Nat) (y : NodeId) (hy : y < s.size) : belowCount s rank y + 1 ≤ s.size := by
  unfold belowCount
  exact filter_range_lt _ _ y hy (by simp)

theorem parentOf_some {s : Store} {x q : NodeId} (h : parentOf s x = some q) :
    ∃ rx, s.get x = some rx ∧ rx.parent = some q := by
  unfold parentOf at h
  cases hx : s.get x with
  | none => rw [hx] at h; cases h
  | some rx => rw [hx] at h; exact ⟨rx, rfl, h⟩

theorem mem_kids {s : Store} {n c : NodeId} (h : c ∈ kids s n) : ∃ rn, s.get n = some rn ∧ c ∈ rn.children := by
  unfold kids parentKids at h
  cases hn : s.get n with
  | none => rw [hn] at h; cases h
  | some rn => rw [hn] at h; exact ⟨rn, rfl, h⟩

theorem kids_eq {s : Store} {n : NodeId} {rn : NodeRec} (h : s.get n = some rn) : kids s n = rn.children := by
  unfold kids parentKids; rw [h]

/-- a child points back to its parent -/
theorem parent_of_kid {s : Store} (h : WF s) {n c : NodeId} (hc : c ∈ kids s n) : parentOf s c = some n := by
  obtain ⟨rn, hn, hcm⟩ := mem_kids hc
  obtain ⟨rc, hrc, hp⟩ := h.childParent n rn c hn hcm
  unfold parentOf; rw [hrc]; exact hp

/-- … and a node with a parent is among its children -/
theorem kid_of_parent {s : Store} (h : WF s) {x q : NodeId} (hq : parentOf s x = some q) : x ∈ kids s q := by
  obtain ⟨rx, hx, hp⟩ := parentOf_some hq
  obtain ⟨rq, hrq, hm⟩ := h.parentChild x rx q hx hp
  rw [kids_eq hrq]; exact hm

theorem kids_nodup {s : Store} (h : WF s) (n : NodeId) : (kids s n).Nodup := by
  unfold kids parentKids
  cases hn : s.get n with
  | none => simp
  | some rn => exact h.nodupChildren n rn hn

-- ------------------------------------------------------------------ ancestor chains

theorem ancF_stable (s : Store) (h : WF s) (rank : NodeId → Nat)
    (hrank : ∀ c rc p, s.get c = some rc → rc.parent = some p → rank c < rank p) :
    ∀ (f g : Nat) (x : NodeId), aboveCount s rank x < f → aboveCount s rank x < g →
      ancestorsFuel s f x = ancestorsFuel s g x := by
  intro f
  induction f with
  | zero => intro g x hf _; omega
  | succ f' ih =>
    intro g x hf hg
    cases g with
    | zero => omega
    | succ g' =>
      unfold ancestorsFuel
      cases hq : parentOf s x with
      | none => rfl
      | some q =>
        simp only
        obtain ⟨rx, hx, hp⟩ := parentOf_some hq
        obtain ⟨rq, hrq, _⟩ := h.parentChild x rx q hx hp
        have hlt := above_lt s rank x q (lt_size_of_get s q rq hrq) (hrank x rx q hx hp)
        rw [ih g' q (by omega) (by omega)]

theorem ancestors_cons {s : Store} (h : WF s) {x q : NodeId} (hq : parentOf s x = some q) :
    ancestors s x = q :: ancestors s q := by
  obtain ⟨rank, hrank⟩ := h.acyclic
  obtain ⟨rx, hx, hp⟩ := parentOf_some hq
  obtain ⟨rq, hrq, _⟩ := h.parentChild x rx q hx hp
  have hxs := lt_size_of_get s x rx hx
  have hqs := lt_size_of_get s q rq hrq
  have hlt := above_lt s rank x q hqs (hrank x rx q hx hp)
  have hle := above_le s rank x hxs
  unfold ancestors
  obtain ⟨k, hk⟩ : ∃ k, s.size = k + 1 := ⟨s.size - 1, by omega⟩
  rw [hk]
  conv => lhs; unfold ancestorsFuel
  rw [hq]
  simp only
  rw [ancF_stable s h rank hrank k (k + 1) q (by omega) (by omega)]

theorem ancestors_nil {s : Store} {x : NodeId} (hq : parentOf s x = none) : ancestors s x = [] := by
  unfold ancestors
  cases s.size with
  | zero => rfl
  | succ k => unfold ancestorsFuel; rw [hq]

-- ------------------------------------------------------------------ document order

theorem docF_stable (s : Store) (h : WF s) (rank : NodeId → Nat)
    (hrank : ∀ c rc p, s.get c = some rc → rc.parent = some p → rank c < rank p) :
    ∀ (f g : Nat) (x : NodeId), belowCount s rank x < f → belowCount s rank x < g →
      docOrderFuel s f x = docOrderFuel s g x := by
  intro f
  induction f with
  | zero => intro g x hf _; omega
  | succ f' ih =>
    intro g x hf hg
    cases g with
    | zero => omega
    | succ g' =>
      unfold docOrderFuel
      congr 1
      apply flatMap_congr'
      intro c hc
      obtain ⟨rn, hn, hcm⟩ := mem_kids hc
      obtain ⟨rc, hrc, hp⟩ := h.childParent x rn c hn hcm
      have hlt := below_lt s rank x c (lt_size_of_get s c rc hrc) (hrank c rc x hrc hp)
      exact ih g' c (by omega) (by omega)

/-- document order of a subtree = the node, then the blocks of its children -/
theorem docOrder_unfold {s : Store} (h : WF s) (n : NodeId) :
    docOrder s n = n :: (kids s n).flatMap (docOrder s) := by
  obtain ⟨rank, hrank⟩ := h.acyclic
  unfold docOrder
  cases hk : s.size with
  | zero =>
    have : kids s n = [] := by
      unfold kids parentKids
      rw [get_ge_size s n (by omega)]
    simp [docOrderFuel, this]
  | succ k =>
    conv => lhs; unfold docOrderFuel
    congr 1
    apply flatMap_congr'
    intro c hc
    obtain ⟨rn, hn, hcm⟩ := mem_kids hc
    obtain ⟨rc, hrc, hp⟩ := h.childParent n rn c hn hcm
    have hcs := lt_size_of_get s c rc hrc
    have hns := lt_size_of_get s n rn hn
    have hlt := below_lt s rank n c hcs (hrank c rc n hrc hp)
    have hle := below_le s rank n hns
    exact docF_stable s h rank hrank k (k + 1) c (by omega) (by omega)

-- ------------------------------------------------------------------ induction principles of a well-formed store

theorem down_induction {s : Store} (h : WF s) (P : NodeId → Prop)
    (step : ∀ n, (∀ c, c ∈ kids s n → P c) → P n) : ∀ n, P n := by
  obtain ⟨rank, hrank⟩ := h.acyclic
  have key : ∀ k n, rank n < k → P n := by
    intro k
    induction k with
    | zero => intro n hn; omega
    | succ k ih =>
      intro n hn
      apply step
      intro c hc
      obtain ⟨rn, hrn, hcm⟩ := mem_kids hc
      obtain ⟨rc, hrc, hp⟩ := h.childParent n rn c hrn hcm
      have := hrank c rc n hrc hp
      exact ih c (by omega)
  intro n
  exact key (rank n + 1) n (by omega)

theorem up_induction {s : Store} (h : WF s) (P : NodeId → Prop)
    (step : ∀ x, (∀ q, parentOf s x = some q → P q) → P x) : ∀ x, P x := by
  obtain ⟨rank, hrank⟩ := h.acyclic
  have key : ∀ k x, aboveCount s rank x < k → P x := by
    intro k
    induction k with
    | zero => intro x hx; omega
    | succ k ih =>
      intro x hx
      apply step
      intro q hq
      obtain ⟨rx, hrx, hp⟩ := parentOf_some hq
      obtain ⟨rq, hrq, _⟩ := h.parentChild x rx q hrx hp
      have := above_lt s rank x q (lt_size_of_get s q rq hrq) (hrank x rx q hrx hp)
      exact ih q (by omega)
  intro x
  exact key (aboveCount s rank x + 1) x (by omega)

-- ------------------------------------------------------------------ the ancestor relation

theorem anc_trans {s : Store} {a b c : NodeId} (h1 : AncOrSelf s a b) (h2 : AncOrSelf s b c) : AncOrSelf s a c := by
  induction h2 with
  | refl => exact h1
  | step hq _ ih => exact .step hq ih

theorem anc_of_kid {s : Store} (h : WF s) {n c : NodeId} (hc : c ∈ kids s n) : AncOrSelf s n c :=
  .step (parent_of_kid h hc) .refl

theorem anc_linear {s : Store} {a b x : NodeId} (h1 : AncOrSelf s a x) (h2 : AncOrSelf s b x) :
    AncOrSelf s a b ∨ AncOrSelf s b a := by
  induction h1 with
  | refl => exact Or.inr h2
  | step hq ha ih =>
    cases h2 with
    | refl => exact Or.inl (.step hq ha)
    | step hq' hb =>
      rw [hq] at hq'
      cases hq'
      exact ih hb

/-- a proper ancestor has strictly larger rank -/
theorem anc_rank {s : Store} (rank : NodeId → Nat)
    (hrank : ∀ c rc p, s.get c = some rc → rc.parent = some p → rank c < rank p) {a x : NodeId}
    (h : AncOrSelf s a x) : x = a ∨ rank x < rank a := by
  induction h with
  | refl => exact Or.inl rfl
  | step hq _ ih =>
    obtain ⟨rx, hrx, hp⟩ := parentOf_some hq
    have := hrank _ rx _ hrx hp
    rcases ih with rfl | h2
    · exact Or.inr this
    · exact Or.inr (by omega)

/-- no node is a proper ancestor of itself: the parent of `x` is not below `x` -/
theorem not_anc_parent {s : Store} (h : WF s) {x q : NodeId} (hq : parentOf s x = some q) : ¬ AncOrSelf s x q := by
  obtain ⟨rank, hrank⟩ := h.acyclic
  intro ha
  obtain ⟨rx, hrx, hp⟩ := parentOf_some hq
  have h1 := hrank x rx q hrx hp
  rcases anc_rank rank hrank ha with h2 | h2
  · rw [h2] at h1; omega
  · omega

theorem anc_antisymm {s : Store} (h : WF s) {a b : NodeId} (h1 : AncOrSelf s a b) (h2 : AncOrSelf s b a) : a = b := by
  obtain ⟨rank, hrank⟩ := h.acyclic
  rcases anc_rank rank hrank h1 with e | e
  · exact e.symm
  · rcases anc_rank rank hrank h2 with e2 | e2
    · exact e2
    · omega

/-- two different children of one node: neither is above the other -/
theorem sibling_not_anc {s : Store} (h : WF s) {p c1 c2 : NodeId} (h1 : c1 ∈ kids s p) (h2 : c2 ∈ kids s p)
    (hne : c1 ≠ c2) : ¬ AncOrSelf s c1 c2 := by
  intro ha
  cases ha with
  | refl => exact hne rfl
  | step hq ha' =>
    rw [parent_of_kid h h2] at hq
    cases hq
    exact not_anc_parent h (parent_of_kid h h1) ha'

-- ------------------------------------------------------------------ membership in the document order

theorem mem_docOrder_self {s : Store} (h : WF s) (n : NodeId) : n ∈ docOrder s n := by
  rw [docOrder_unfold h]; exact List.mem_cons_self ..

theorem mem_docOrder_anc {s : Store} (h : WF s) : ∀ (r x : NodeId), x ∈ docOrder s r → AncOrSelf s r x := by
  intro r
  refine down_induction h (fun r => ∀ x, x ∈ docOrder s r → AncOrSelf s r x) ?_ r
  intro n ih x hx
  rw [docOrder_unfold h] at hx
  rcases List.mem_cons.mp hx with rfl | hx
  · exact .refl
  · obtain ⟨c, hc, hxc⟩ := List.mem_flatMap.mp hx
    exact anc_trans (anc_of_kid h hc) (ih c hc x hxc)

theorem mem_docOrder_trans {s : Store} (h : WF s) : ∀ (r y z : NodeId), y ∈ docOrder s r → z ∈ docOrder s y →
    z ∈ docOrder s r := by
  intro r
  refine down_induction h (fun r => ∀ y z, y ∈ docOrder s r → z ∈ docOrder s y → z ∈ docOrder s r) ?_ r
  intro n ih y z hy hz
  rw [docOrder_unfold h] at hy
  rcases List.mem_cons.mp hy with rfl | hy
  · exact hz
  · obtain ⟨c, hc, hyc⟩ := List.mem_flatMap.mp hy
    rw [docOrder_unfold h]
    exact List.mem_cons_of_mem _ (List.mem_flatMap.mpr ⟨c, hc, ih c hc y z hyc hz⟩)

theorem anc_mem_docOrder {s : Store} (h : WF s) {r x : NodeId} (ha : AncOrSelf s r x) : x ∈ docOrder s r := by
  induction ha with
  | refl => exact mem_docOrder_self h r
  | step hq _ ih =>
    apply mem_docOrder_trans h r _ _ ih
    rw [docOrder_unfold h]
    exact List.mem_cons_of_mem _ (List.mem_flatMap.mpr ⟨_, kid_of_parent h hq, mem_docOrder_self h _⟩)

theorem mem_docOrder_iff {s : Store} (h : WF s) (r x : NodeId) : x ∈ docOrder s r ↔ AncOrSelf s r x :=
  ⟨mem_docOrder_anc h r x, anc_mem_docOrder h⟩

/-- the document order lists every node once -/
theorem docOrder_nodup {s : Store} (h : WF s) : ∀ r, (docOrder s r).Nodup := by
  refine down_induction h (fun r => (docOrder s r).Nodup) ?_
  intro n ih
  rw [docOrder_unfold h]
  rw [List.nodup_cons]
  constructor
  · intro hn
    obtain ⟨c, hc, hnc⟩ := List.mem_flatMap.mp hn
    have ha := mem_docOrder_anc h c n hnc
    exact not_anc_parent h (parent_of_kid h hc) ha
  · apply nodup_flatMap' _ _ ih
    have aux : ∀ l : List NodeId, l.Nodup → (∀ c, c ∈ l → c ∈ kids s n) →
        l.Pairwise (fun a b => ∀ x, x ∈ docOrder s a → x ∈ docOrder s b → False) := by
      intro l
      induction l with
      | nil => intro _ _; exact List.Pairwise.nil
      | cons a t iht =>
        intro hnd hall
        rw [List.nodup_cons] at hnd
        refine List.Pairwise.cons ?_ (iht hnd.2 (fun c hc => hall c (List.mem_cons_of_mem _ hc)))
        intro b hb x hxa hxb
        have ha1 := mem_docOrder_anc h a x hxa
        have hb1 := mem_docOrder_anc h b x hxb
        have hne : a ≠ b := fun e => hnd.1 (e ▸ hb)
        rcases anc_linear ha1 hb1 with hab | hba
        · exact sibling_not_anc h (hall a (List.mem_cons_self ..)) (hall b (List.mem_cons_of_mem _ hb)) hne hab
        · exact sibling_not_anc h (hall b (List.mem_cons_of_mem _ hb)) (hall a (List.mem_cons_self ..)) (Ne.symm hne) hba
    exact aux _ (kids_nodup h n) (fun _ hc => hc)

theorem docOrder_live {s : Store} (h : WF s) {r x : NodeId} (hr : (s.get r).isSome) (hx : x ∈ docOrder s r) :
    (s.get x).isSome := by
  have ha := mem_docOrder_anc h r x hx
  cases ha with
  | refl => exact hr
  | step hq _ =>
    obtain ⟨rx, hrx, _⟩ := parentOf_some hq
    rw [hrx]; rfl

theorem docOrder_length_le {s : Store} (h : WF s) {r : NodeId} (hr : (s.get r).isSome) :
    (docOrder s r).length ≤ s.size := by
  apply nodup_bounded_length _ _ (docOrder_nodup h r)
  intro a ha
  have := docOrder_live h hr ha
  cases hg : s.get a with
  | none => rw [hg] at this; cases this
  | some ra => exact lt_size_of_get s a ra hg

-- ------------------------------------------------------------------ last descendant

theorem lastKid_mem {s : Store} {x l : NodeId} (h : lastKid s x = some l) : l ∈ kids s x := by
  unfold lastKid at h
  exact List.mem_of_getLast? h

theorem deepLastF_stable (s : Store) (h : WF s) (rank : NodeId → Nat)
    (hrank : ∀ c rc p, s.get c = some rc → rc.parent = some p → rank c < rank p) :
    ∀ (f g : Nat) (x : NodeId), belowCount s rank x < f → belowCount s rank x < g →
      deepLastFuel s f x = deepLastFuel s g x := by
  intro f
  induction f with
  | zero => intro g x hf _; omega
  | succ f' ih =>
    intro g x hf hg
    cases g with
    | zero => omega
    | succ g' =>
      unfold deepLastFuel
      cases hl : lastKid s x with
      | none => rfl
      | some l =>
        simp only
        obtain ⟨rn, hn, hcm⟩ := mem_kids (lastKid_mem hl)
        obtain ⟨rc, hrc, hp⟩ := h.childParent x rn l hn hcm
        have hlt := below_lt s rank x l (lt_size_of_get s l rc hrc) (hrank l rc x hrc hp)
        exact ih g' l (by omega) (by omega)

theorem deepLast_unfold {s : Store} (h : WF s) (x : NodeId) :
    deepLast s x = match lastKid s x with
      | none => x
      | some l => deepLast s l := by
  obtain ⟨rank, hrank⟩ := h.acyclic
  unfold deepLast
  cases hk : s.size with
  | zero =>
    have : kids s x = [] := by
      unfold kids parentKids
      rw [get_ge_size s x (by omega)]
    simp [deepLastFuel, lastKid, this]
  | succ k =>
    conv => lhs; unfold deepLastFuel
    cases hl : lastKid s x with
    | none => rfl
    | some l =>
      simp only
      obtain ⟨rn, hn, hcm⟩ := mem_kids (lastKid_mem hl)
      obtain ⟨rc, hrc, hp⟩ := h.childParent x rn l hn hcm
      have hls := lt_size_of_get s l rc hrc
      have hxs := lt_size_of_get s x rn hn
      have hlt := below_lt s rank x l hls (hrank l rc x hrc hp)
      have hle := below_le s rank x hxs
      exact deepLastF_stable s h rank hrank k (k + 1) l (by omega) (by omega)

theorem docOrder_ne_nil {s : Store} (h : WF s) (n : NodeId) : docOrder s n ≠ [] := by
  rw [docOrder_unfold h]; simp

theorem getLast?_flatMap_append {α β : Type} (l : List α) (a : α) (f : α → List β) (hne : f a ≠ []) :
    ((l ++ [a]).flatMap f).getLast? = (f a).getLast? := by
  rw [List.flatMap_append, List.getLast?_append]
  simp only [List.flatMap_cons, List.flatMap_nil, List.append_nil]
  cases hf : (f a).getLast? with
  | none => exact absurd (List.getLast?_eq_none_iff.mp hf) hne
  | some v => rfl

/-- the last node of a subtree in document order is its rightmost deepest descendant -/
theorem docOrder_getLast {s : Store} (h : WF s) : ∀ y, (docOrder s y).getLast? = some (deepLast s y) := by
  refine down_induction h (fun y => (docOrder s y).getLast? = some (deepLast s y)) ?_
  intro n ih
  rw [docOrder_unfold h, deepLast_unfold h]
  cases hl : lastKid s n with
  | none =>
    have : kids s n = [] := by
      unfold lastKid at hl
      exact List.getLast?_eq_none_iff.mp hl
    simp [this]
  | some l =>
    simp only
    unfold lastKid at hl
    obtain ⟨init, hinit⟩ : ∃ init, kids s n = init ++ [l] := by
      have := List.getLast?_eq_some_iff.mp hl
      exact this
    have hlm : l ∈ kids s n := by rw [hinit]; simp
    rw [show n :: (kids s n).flatMap (docOrder s) = [n] ++ (kids s n).flatMap (docOrder s) from rfl,
      List.getLast?_append, hinit, getLast?_flatMap_append _ _ _ (docOrder_ne_nil h l), ih l hlm]
    rfl

-- ------------------------------------------------------------------ positions in lists

theorem nextSibIn_split (l1 l2 : List NodeId) (x : NodeId) (hx : x ∉ l1) :
    nextSibIn (l1 ++ x :: l2) x = l2.head? := by
  induction l1 with
  | nil => simp [nextSibIn]
  | cons a t ih =>
    have hne : a ≠ x := fun e => hx (e ▸ List.mem_cons_self ..)
    simp only [List.cons_append, nextSibIn, if_neg hne]
    exact ih (fun hm => hx (List.mem_cons_of_mem _ hm))

theorem prevSibIn_not_mem : ∀ (l : List NodeId) (x : NodeId), x ∉ l → prevSibIn l x = none
  | [], _, _ => rfl
  | [_], _, _ => rfl
  | a :: b :: t, x, hx => by
    have hb : b ≠ x := fun e => hx (e ▸ List.mem_cons_of_mem _ (List.mem_cons_self ..))
    simp only [prevSibIn, if_neg hb]
    exact prevSibIn_not_mem (b :: t) x (fun hm => hx (List.mem_cons_of_mem _ hm))

theorem prevSibIn_split : ∀ (l1 l2 : List NodeId) (x : NodeId), x ∉ l1 → x ∉ l2 →
    prevSibIn (l1 ++ x :: l2) x = l1.getLast?
  | [], [], x, _, _ => rfl
  | [], b :: t, x, _, h2 => by
    have hb : b ≠ x := fun e => h2 (e ▸ List.mem_cons_self ..)
    simp only [List.nil_append, prevSibIn, if_neg hb, List.getLast?_nil]
    exact prevSibIn_not_mem (b :: t) x h2
  | [a], l2, x, _, _ => by simp [prevSibIn]
  | a :: b :: t, l2, x, h1, h2 => by
    have hb : b ≠ x := fun e => h1 (e ▸ List.mem_cons_of_mem _ (List.mem_cons_self ..))
    simp only [List.cons_append, prevSibIn, if_neg hb]
    have := prevSibIn_split (b :: t) l2 x (fun hm => h1 (List.mem_cons_of_mem _ hm)) h2
    simp only [List.cons_append] at this
    rw [this]
    simp [List.getLast?_cons_cons]

theorem succIn_split (pre rest : List NodeId) (x : NodeId) (hx : x ∉ pre) :
    succIn (pre ++ x :: rest) x = rest.head? := by
  induction pre with
  | nil => simp [succIn]
  | cons a t ih =>
    have hne : a ≠ x := fun e => hx (e ▸ List.mem_cons_self ..)
    simp only [List.cons_append, succIn, if_neg hne]
    exact ih (fun hm => hx (List.mem_cons_of_mem _ hm))

theorem predIn_not_mem : ∀ (l : List NodeId) (x : NodeId), x ∉ l → predIn l x = none
  | [], _, _ => rfl
  | [_], _, _ => rfl
  | a :: b :: t, x, hx => by
    have hb : b ≠ x := fun e => hx (e ▸ List.mem_cons_of_mem _ (List.mem_cons_self ..))
    simp only [predIn, if_neg hb]
    exact predIn_not_mem (b :: t) x (fun hm => hx (List.mem_cons_of_mem _ hm))

theorem predIn_split : ∀ (l1 l2 : List NodeId) (x : NodeId), x ∉ l1 → x ∉ l2 →
    predIn (l1 ++ x :: l2) x = l1.getLast?
  | [], [], x, _, _ => rfl
  | [], b :: t, x, _, h2 => by
    have hb : b ≠ x := fun e => h2 (e ▸ List.mem_cons_self ..)
    simp only [List.nil_append, predIn, if_neg hb, List.getLast?_nil]
    exact predIn_not_mem (b :: t) x h2
  | [a], l2, x, _, _ => by simp [predIn]
  | a :: b :: t, l2, x, h1, h2 => by
    have hb : b ≠ x := fun e => h1 (e ▸ List.mem_cons_of_mem _ (List.mem_cons_self ..))
    simp only [List.cons_append, predIn, if_neg hb]
    have := predIn_split (b :: t) l2 x (fun hm => h1 (List.mem_cons_of_mem _ hm)) h2
    simp only [List.cons_append] at this
    rw [this]
    simp [List.getLast?_cons_cons]

-- ------------------------------------------------------------------ the subtree of a node is a block of the document order

/-- the part of DOMNodeIteratorImpl::nextNode(node, false) for a node that is not the root -/
def nextUp (s : Store) (r x : NodeId) : Option NodeId :=
  match nextSib s x with
  | some y => some y
  | none => climbNext s r (ancestors s x)

theorem append_self_append {α : Type} (pre l post : List α) (h : l = pre ++ l ++ post) : pre = [] ∧ post = [] := by
  have := congrArg List.length h
  simp at this
  constructor
  · apply List.eq_nil_of_length_eq_zero; omega
  · apply List.eq_nil_of_length_eq_zero; omega

theorem kids_split {s : Store} (h : WF s) {x q : NodeId} (hq : parentOf s x = some q) :
    ∃ l1 l2, kids s q = l1 ++ x :: l2 ∧ x ∉ l1 ∧ x ∉ l2 := by
  obtain ⟨l1, l2, hl⟩ := List.append_of_mem (kid_of_parent h hq)
  have hnd := kids_nodup h q
  rw [hl] at hnd
  have h1 := List.nodup_append.mp hnd
  have h2 := List.nodup_cons.mp h1.2.1
  exact ⟨l1, l2, hl, fun hm => h1.2.2 x hm x (List.mem_cons_self ..) rfl, h2.1⟩

theorem docOrder_head {s : Store} (h : WF s) (y : NodeId) : (docOrder s y).head? = some y := by
  rw [docOrder_unfold h]; rfl

/-- Every node `x` of the subtree of `r` splits the document order of `r` into what precedes its block, its block and
what follows; the pointer walks "next sibling, else an ancestor's next sibling (below the root)" and "previous sibling's
last descendant, else the parent" find the neighbours of the block. -/
theorem block_decomp {s : Store} (h : WF s) {r x : NodeId} (hx : AncOrSelf s r x) :
    ∃ pre post, docOrder s r = pre ++ docOrder s x ++ post ∧
      (x ≠ r → nextUp s r x = post.head? ∧ prevRaw s r x = pre.getLast?) := by
  induction hx with
  | refl => exact ⟨[], [], by simp, fun hne => absurd rfl hne⟩
  | @step x q hq ha ih =>
    obtain ⟨preq, postq, heq, hq2⟩ := ih
    obtain ⟨l1, l2, hl, hx1, hx2⟩ := kids_split h hq
    refine ⟨preq ++ q :: l1.flatMap (docOrder s), l2.flatMap (docOrder s) ++ postq, ?_, ?_⟩
    · rw [heq, docOrder_unfold h q, hl]
      simp [List.flatMap_append, List.append_assoc]
    · intro hxr
      have hroot : q = r → preq = [] ∧ postq = [] := by
        intro e; subst e
        exact append_self_append _ _ _ heq
      constructor
      · -- next
        have hns : nextSib s x = l2.head? := by
          unfold nextSib; rw [hq]; simp only; rw [hl]; exact nextSibIn_split l1 l2 x hx1
        unfold nextUp
        cases l2 with
        | nil =>
          rw [hns]
          simp only [List.head?_nil, List.flatMap_nil, List.nil_append]
          rw [ancestors_cons h hq]
          unfold climbNext
          by_cases hqr : q = r
          · rw [if_pos hqr, (hroot hqr).2]; rfl
          · rw [if_neg hqr]
            have := (hq2 hqr).1
            unfold nextUp at this
            exact this
        | cons y l2' =>
          rw [hns]
          simp only [List.head?_cons, List.flatMap_cons]
          rw [List.head?_append, List.head?_append, docOrder_head h y]
          rfl
      · -- previous
        have hps : prevSib s x = l1.getLast? := by
          unfold prevSib; rw [hq]; simp only; rw [hl]; exact prevSibIn_split l1 l2 x hx1 hx2
        unfold prevRaw
        rw [if_neg hxr, hps]
        rw [List.getLast?_append]
        cases hlast : l1.getLast? with
        | none =>
          have : l1 = [] := List.getLast?_eq_none_iff.mp hlast
          subst this
          simp [hq]
        | some y =>
          obtain ⟨init, hinit⟩ := List.getLast?_eq_some_iff.mp hlast
          simp only
          rw [show q :: l1.flatMap (docOrder s) = [q] ++ l1.flatMap (docOrder s) from rfl, List.getLast?_append,
            hinit, getLast?_flatMap_append _ _ _ (docOrder_ne_nil h y), docOrder_getLast h y]
          rfl

theorem dropWhile_ne_split (pre rest : List NodeId) (x : NodeId) (hx : x ∉ pre) :
    (pre ++ x :: rest).dropWhile (· != x) = x :: rest := by
  induction pre with
  | nil => simp [List.dropWhile]
  | cons a t ih =>
    have hne : a ≠ x := fun e => hx (e ▸ List.mem_cons_self ..)
    simp only [List.cons_append, List.dropWhile_cons]
    have : (a != x) = true := by simp [hne]
    rw [if_pos this]
    exact ih (fun hm => hx (List.mem_cons_of_mem _ hm))

theorem takeWhile_ne_split (pre rest : List NodeId) (x : NodeId) (hx : x ∉ pre) :
    (pre ++ x :: rest).takeWhile (· != x) = pre := by
  induction pre with
  | nil => simp [List.takeWhile]
  | cons a t ih =>
    have hne : a ≠ x := fun e => hx (e ▸ List.mem_cons_self ..)
    simp only [List.cons_append, List.takeWhile_cons]
    have : (a != x) = true := by simp [hne]
    rw [if_pos this]
    rw [ih (fun hm => hx (List.mem_cons_of_mem _ hm))]

/-- the decomposition with the duplicate-freeness facts one needs to locate `x` -/
theorem block_decomp' {s : Store} (h : WF s) {r x : NodeId} (hx : x ∈ docOrder s r) :
    ∃ pre post, docOrder s r = pre ++ x :: ((kids s x).flatMap (docOrder s) ++ post) ∧
      x ∉ pre ∧ x ∉ (kids s x).flatMap (docOrder s) ++ post ∧
      (x = r → pre = [] ∧ post = []) ∧
      (x ≠ r → nextUp s r x = post.head? ∧ prevRaw s r x = pre.getLast?) := by
  obtain ⟨pre, post, heq, h2⟩ := block_decomp h (mem_docOrder_anc h r x hx)
  have heq' : docOrder s r = pre ++ x :: ((kids s x).flatMap (docOrder s) ++ post) := by
    rw [heq, docOrder_unfold h x]; simp
  have hnd := docOrder_nodup h r
  rw [heq'] at hnd
  have h1 := List.nodup_append.mp hnd
  have h3 := List.nodup_cons.mp h1.2.1
  refine ⟨pre, post, heq', fun hm => h1.2.2 x hm x (List.mem_cons_self ..) rfl, h3.1, ?_, h2⟩
  intro e; subst e
  exact append_self_append _ _ _ heq

theorem firstKid_head {s : Store} (h : WF s) (x : NodeId) :
    ((kids s x).flatMap (docOrder s)).head? = firstKid s x := by
  unfold firstKid
  cases hk : kids s x with
  | nil => rfl
  | cons c t =>
    simp only [List.flatMap_cons, List.head?_cons]
    rw [List.head?_append, docOrder_head h c]; rfl

/-- nextNode(node, true) is the successor in document order below the root -/
theorem nextRaw_true_spec {s : Store} (h : WF s) {r x : NodeId} (hx : x ∈ docOrder s r) :
    nextRaw s r (some x) true = succIn (docOrder s r) x := by
  obtain ⟨pre, post, heq, hx1, _, hroot, h2⟩ := block_decomp' h hx
  rw [heq, succIn_split pre _ x hx1, List.head?_append, firstKid_head h x]
  unfold nextRaw
  simp only [Bool.true_and]
  cases hk : kids s x with
  | nil =>
    have hf : firstKid s x = none := by unfold firstKid; rw [hk]; rfl
    simp only [List.isEmpty_nil, Bool.not_true, Bool.false_eq_true, if_false, hf, Option.none_or]
    by_cases hxr : x = r
    · rw [if_pos hxr, (hroot hxr).2]; rfl
    · rw [if_neg hxr]
      have := (h2 hxr).1
      unfold nextUp at this
      exact this
  | cons c t =>
    have hf : firstKid s x = some c := by unfold firstKid; rw [hk]; rfl
    simp [hf]

/-- nextNode(node, false) is the first node after the subtree of `node` -/
theorem nextRaw_false_spec {s : Store} (h : WF s) {r x : NodeId} (hx : x ∈ docOrder s r) :
    nextRaw s r (some x) false = (afterBlock (docOrder s r) (docOrder s x)).head? := by
  obtain ⟨pre, post, heq, hx1, _, hroot, h2⟩ := block_decomp' h hx
  have hab : afterBlock (docOrder s r) (docOrder s x) = post := by
    rw [docOrder_unfold h x]
    unfold afterBlock
    simp only
    rw [heq, dropWhile_ne_split pre _ x hx1]
    simp
  rw [hab]
  unfold nextRaw
  simp only [Bool.false_and, Bool.false_eq_true, if_false]
  by_cases hxr : x = r
  · rw [if_pos hxr, (hroot hxr).2]; rfl
  · rw [if_neg hxr]
    have := (h2 hxr).1
    unfold nextUp at this
    exact this

/-- previousNode(node) is the predecessor in document order -/
theorem prevRaw_spec {s : Store} (h : WF s) {r x : NodeId} (hx : x ∈ docOrder s r) :
    prevRaw s r x = predIn (docOrder s r) x := by
  obtain ⟨pre, post, heq, hx1, hx2, hroot, h2⟩ := block_decomp' h hx
  rw [heq, predIn_split pre _ x hx1 hx2]
  by_cases hxr : x = r
  · rw [(hroot hxr).1]; unfold prevRaw; rw [if_pos hxr]; rfl
  · exact (h2 hxr).2

-- ------------------------------------------------------------------ NodeIterator loops

theorem docOrder_length_le' {s : Store} (h : WF s) (r : NodeId) : (docOrder s r).length ≤ s.size + 1 := by
  cases hr : s.get r with
  | none =>
    have : kids s r = [] := by unfold kids parentKids; rw [hr]
    rw [docOrder_unfold h, this]; simp
  | some rr =>
    have := docOrder_length_le h (r := r) (by rw [hr]; rfl)
    omega

/-- what `nextLoop` returns when the remaining candidates are `cands` -/
def nextResult (it : Iter) (acc : NodeId → Bool) (cands : List NodeId) : Iter × Option NodeId :=
  match cands.find? acc with
  | some z => ({ it with cur := some z, fwd := true }, some z)
  | none => ({ it with fwd := true }, none)

def prevResult (it : Iter) (acc : NodeId → Bool) (cands : List NodeId) : Iter × Option NodeId :=
  match cands.find? acc with
  | some z => ({ it with cur := some z, fwd := false }, some z)
  | none => ({ it with fwd := false }, none)

theorem nextLoop_spec {s : Store} (h : WF s) (it : Iter) :
    ∀ (rest pre : List NodeId) (y : NodeId), docOrder s it.root = pre ++ y :: rest →
      ∀ f, rest.length < f →
        nextLoop s it f (some y) true = nextResult it (iterAccepts s it.w it.filt) rest := by
  intro rest
  induction rest with
  | nil =>
    intro pre y hL f hf
    cases f with
    | zero => omega
    | succ f' =>
      have hy : y ∈ docOrder s it.root := by rw [hL]; simp
      have hnd := docOrder_nodup h it.root
      rw [hL] at hnd
      have hyp : y ∉ pre := fun hm => (List.nodup_append.mp hnd).2.2 y hm y (List.mem_cons_self ..) rfl
      unfold nextLoop
      simp only [Bool.not_true, Bool.false_and, Bool.false_eq_true, if_false]
      rw [nextRaw_true_spec h hy, hL, succIn_split pre [] y hyp]
      rfl
  | cons z rest' ih =>
    intro pre y hL f hf
    cases f with
    | zero => omega
    | succ f' =>
      have hy : y ∈ docOrder s it.root := by rw [hL]; simp
      have hnd := docOrder_nodup h it.root
      rw [hL] at hnd
      have hyp : y ∉ pre := fun hm => (List.nodup_append.mp hnd).2.2 y hm y (List.mem_cons_self ..) rfl
      unfold nextLoop
      simp only [Bool.not_true, Bool.false_and, Bool.false_eq_true, if_false]
      rw [nextRaw_true_spec h hy, hL, succIn_split pre (z :: rest') y hyp]
      simp only [List.head?_cons]
      by_cases hz : iterAccepts s it.w it.filt z = true
      · rw [if_pos hz]; unfold nextResult; simp [List.find?_cons, hz]
      · rw [if_neg hz]
        have hL' : docOrder s it.root = (pre ++ [y]) ++ z :: rest' := by rw [hL]; simp
        rw [ih (pre ++ [y]) z hL' f' (by simp at hf; omega)]
        unfold nextResult
        simp [List.find?_cons, hz]

theorem prevLoop_spec {s : Store} (h : WF s) (it : Iter) :
    ∀ (rpre rest : List NodeId) (y : NodeId), docOrder s it.root = rpre.reverse ++ y :: rest →
      ∀ f, rpre.length < f →
        prevLoop s it f y false = prevResult it (iterAccepts s it.w it.filt) rpre := by
  intro rpre
  induction rpre with
  | nil =>
    intro rest y hL f hf
    cases f with
    | zero => omega
    | succ f' =>
      have hy : y ∈ docOrder s it.root := by rw [hL]; simp
      have hnd := docOrder_nodup h it.root
      rw [hL] at hnd
      simp only [List.reverse_nil, List.nil_append] at hnd hL
      have hyr : y ∉ rest := (List.nodup_cons.mp hnd).1
      unfold prevLoop
      simp only [Bool.false_eq_true, if_false]
      rw [prevRaw_spec h hy, hL]
      have := predIn_split [] rest y (by simp) hyr
      simp only [List.nil_append] at this
      rw [this]
      rfl
  | cons z rp' ih =>
    intro rest y hL f hf
    cases f with
    | zero => omega
    | succ f' =>
      have hy : y ∈ docOrder s it.root := by rw [hL]; simp
      have hnd := docOrder_nodup h it.root
      rw [hL] at hnd
      have hnd2 := List.nodup_append.mp hnd
      have hyp : y ∉ (z :: rp').reverse := fun hm => hnd2.2.2 y hm y (List.mem_cons_self ..) rfl
      have hyr : y ∉ rest := (List.nodup_cons.mp hnd2.2.1).1
      unfold prevLoop
      simp only [Bool.false_eq_true, if_false]
      rw [prevRaw_spec h hy, hL, predIn_split _ rest y hyp hyr]
      have hlast : ((z :: rp').reverse).getLast? = some z := by simp
      rw [hlast]
      simp only
      by_cases hz : iterAccepts s it.w it.filt z = true
      · rw [if_pos hz]; unfold prevResult; simp [List.find?_cons, hz]
      · rw [if_neg hz]
        have hL' : docOrder s it.root = rp'.reverse ++ z :: (y :: rest) := by rw [hL]; simp
        rw [ih (y :: rest) z hL' f' (by simp at hf; omega)]
        unfold prevResult
        simp [List.find?_cons, hz]

-- ------------------------------------------------------------------ matchNodeOrParent

/-- the walk from the reference node up to (excluding) the root finds `node` iff `node` is a proper descendant of the root
and an inclusive ancestor of the reference node -/
theorem matchChain_spec {s : Store} (h : WF s) {root node c : NodeId} (hc : AncOrSelf s root c) :
    ((node ≠ root ∧ AncOrSelf s root node ∧ AncOrSelf s node c) → matchChain root node (c :: ancestors s c) = some node) ∧
    (¬ (node ≠ root ∧ AncOrSelf s root node ∧ AncOrSelf s node c) → matchChain root node (c :: ancestors s c) = none) := by
  induction hc with
  | refl =>
    unfold matchChain
    rw [if_pos rfl]
    refine ⟨?_, fun _ => rfl⟩
    intro ⟨hne, h1, h2⟩
    exact absurd (anc_antisymm h h2 h1) hne
  | @step c q hq ha ih =>
    have hcr : c ≠ root := by
      intro e; subst e
      exact not_anc_parent h hq ha
    unfold matchChain
    rw [if_neg hcr]
    by_cases hn : node = c
    · subst hn
      rw [if_pos rfl]
      exact ⟨fun _ => rfl, fun hh => absurd ⟨hcr, .step hq ha, .refl⟩ hh⟩
    · rw [if_neg hn, ancestors_cons h hq]
      have hiff : AncOrSelf s node c ↔ AncOrSelf s node q := by
        constructor
        · intro hh
          cases hh with
          | refl => exact absurd rfl hn
          | step hq' hh' => rw [hq] at hq'; cases hq'; exact hh'
        · intro hh; exact .step hq hh
      constructor
      · intro hcond
        exact ih.1 ⟨hcond.1, hcond.2.1, hiff.mp hcond.2.2⟩
      · intro hcond
        exact ih.2 (fun hh => hcond ⟨hh.1, hh.2.1, hiff.mpr hh.2.2⟩)

theorem mem_tail_docOrder {s : Store} (h : WF s) (root node : NodeId) :
    node ∈ (docOrder s root).tail ↔ node ≠ root ∧ AncOrSelf s root node := by
  have hnd := docOrder_nodup h root
  rw [docOrder_unfold h] at hnd ⊢
  simp only [List.tail_cons]
  have h1 := List.nodup_cons.mp hnd
  constructor
  · intro hm
    refine ⟨fun e => h1.1 (e ▸ hm), ?_⟩
    apply mem_docOrder_anc h
    rw [docOrder_unfold h]; exact List.mem_cons_of_mem _ hm
  · intro ⟨hne, ha⟩
    have := anc_mem_docOrder h ha
    rw [docOrder_unfold h] at this
    rcases List.mem_cons.mp this with e | hm
    · exact absurd e hne
    · exact hm

/-- the nodes an iterator can be moved to when the subtree of `node` is removed lie in the root's subtree and outside
the removed subtree -/
theorem remove_targets {s : Store} (h : WF s) {r node : NodeId} (hn : node ∈ docOrder s r) :
    (∀ y, predIn (docOrder s r) node = some y → y ∈ docOrder s r ∧ y ∉ docOrder s node) ∧
    (∀ y, (afterBlock (docOrder s r) (docOrder s node)).head? = some y → y ∈ docOrder s r ∧ y ∉ docOrder s node) := by
  obtain ⟨pre, post, heq, hx1, hx2, _, _⟩ := block_decomp' h hn
  have hnd := docOrder_nodup h r
  rw [heq] at hnd
  have h1 := List.nodup_append.mp hnd
  have h2 := List.nodup_cons.mp h1.2.1
  have h3 := List.nodup_append.mp h2.2
  have hblk : docOrder s node = node :: (kids s node).flatMap (docOrder s) := docOrder_unfold h node
  constructor
  · intro y hy
    rw [heq, predIn_split pre _ node hx1 hx2] at hy
    have hyp : y ∈ pre := List.mem_of_getLast? hy
    refine ⟨by rw [heq]; exact List.mem_append_left _ hyp, ?_⟩
    intro hyb
    rw [hblk] at hyb
    have : y ∈ node :: ((kids s node).flatMap (docOrder s) ++ post) := by
      rcases List.mem_cons.mp hyb with e | hm
      · exact e ▸ List.mem_cons_self ..
      · exact List.mem_cons_of_mem _ (List.mem_append_left _ hm)
    exact h1.2.2 y hyp y this rfl
  · intro y hy
    have hab : afterBlock (docOrder s r) (docOrder s node) = post := by
      rw [hblk]
      unfold afterBlock
      simp only
      rw [heq, dropWhile_ne_split pre _ node hx1]
      simp
    rw [hab] at hy
    have hyp : y ∈ post := List.mem_of_head? hy
    refine ⟨by rw [heq]; exact List.mem_append_right _ (List.mem_cons_of_mem _ (List.mem_append_right _ hyp)), ?_⟩
    intro hyb
    rw [hblk] at hyb
    rcases List.mem_cons.mp hyb with e | hm
    · exact h2.1 (e ▸ List.mem_append_right _ hyp)
    · exact h3.2.2 y hm y hyp rfl

-- ------------------------------------------------------------------ DOMDeepNodeListImpl

theorem upRight_eq_climbNext (s : Store) (root : NodeId) : ∀ l, upRight s root l = climbNext s root l
  | [] => rfl
  | c :: cs => by
    unfold upRight climbNext
    by_cases hc : c = root
    · rw [if_pos hc, if_pos hc]
    · rw [if_neg hc, if_neg hc]
      cases nextSib s c with
      | none => exact upRight_eq_climbNext s root cs
      | some n => rfl

/-- one turn of the tree walk of nextMatchingElementAfter = nextNode(node, true) of the iterator -/
theorem deepStep_eq (s : Store) (root cur : NodeId) : deepStep s root cur = nextRaw s root (some cur) true := by
  unfold deepStep nextRaw
  simp only [Bool.true_and]
  by_cases hk : (kids s cur).isEmpty = true
  · simp only [hk, Bool.not_true, Bool.false_eq_true, if_false]
    by_cases hr : cur = root
    · subst hr
      simp only [ne_eq, not_true_eq_false, false_and, if_false, if_true]
      unfold upRight
      rw [if_pos rfl]
    · simp only [ne_eq, hr, not_false_eq_true, true_and, if_false]
      cases hn : nextSib s cur with
      | none =>
        simp only [Option.isSome_none, Bool.false_eq_true, if_false]
        unfold upRight
        rw [if_neg hr, hn]
        exact upRight_eq_climbNext s root _
      | some n => simp
  · simp [hk]

/-- the nodes after `c` in `l` -/
def afterIn (l : List NodeId) (c : NodeId) : List NodeId := (l.dropWhile (· != c)).drop 1

theorem afterIn_split (pre rest : List NodeId) (c : NodeId) (hc : c ∉ pre) : afterIn (pre ++ c :: rest) c = rest := by
  unfold afterIn
  rw [dropWhile_ne_split pre rest c hc]; rfl

/-- the candidate test of nextMatchingElementAfter -/
def deepP (s : Store) (dl : DeepList) (n : NodeId) : Bool := decide (n ≠ dl.root) && tagMatches s dl.tag n

theorem nextMatching_spec {s : Store} (h : WF s) (dl : DeepList) :
    ∀ (rest pre : List NodeId) (y : NodeId), docOrder s dl.root = pre ++ y :: rest →
      ∀ f, rest.length < f → nextMatching s dl f y = rest.find? (deepP s dl) := by
  intro rest
  induction rest with
  | nil =>
    intro pre y hL f hf
    cases f with
    | zero => omega
    | succ f' =>
      have hy : y ∈ docOrder s dl.root := by rw [hL]; simp
      have hnd := docOrder_nodup h dl.root
      rw [hL] at hnd
      have hyp : y ∉ pre := fun hm => (List.nodup_append.mp hnd).2.2 y hm y (List.mem_cons_self ..) rfl
      unfold nextMatching
      rw [deepStep_eq, nextRaw_true_spec h hy, hL, succIn_split pre [] y hyp]
      rfl
  | cons z rest' ih =>
    intro pre y hL f hf
    cases f with
    | zero => omega
    | succ f' =>
      have hy : y ∈ docOrder s dl.root := by rw [hL]; simp
      have hnd := docOrder_nodup h dl.root
      rw [hL] at hnd
      have hyp : y ∉ pre := fun hm => (List.nodup_append.mp hnd).2.2 y hm y (List.mem_cons_self ..) rfl
      unfold nextMatching
      rw [deepStep_eq, nextRaw_true_spec h hy, hL, succIn_split pre (z :: rest') y hyp]
      simp only [List.head?_cons]
      have hL' : docOrder s dl.root = (pre ++ [y]) ++ z :: rest' := by rw [hL]; simp
      by_cases hz : deepP s dl z = true
      · have hz' : z ≠ dl.root ∧ tagMatches s dl.tag z = true := by
          unfold deepP at hz; simpa using hz
        rw [if_pos hz', List.find?_cons, hz]
      · have hz' : ¬ (z ≠ dl.root ∧ tagMatches s dl.tag z = true) := by
          unfold deepP at hz; simpa using hz
        rw [if_neg hz', ih (pre ++ [y]) z hL' f' (by simp at hf; omega), List.find?_cons]
        simp [hz]

/-- what the counting loop of cacheItem computes, on the list `R` of the matches that follow the current node -/
def countSpec (index : Nat) : NodeId → Nat → Option NodeId → List NodeId → Option NodeId × Nat × Option NodeId
  | c, i, nx, [] => (some c, i, if i < index + 1 then none else nx)
  | c, i, nx, m :: R => if i < index + 1 then countSpec index m (i + 1) (some m) R else (some c, i, nx)

theorem filter_after {p : NodeId → Bool} {L : List NodeId} (hnd : L.Nodup) {c m : NodeId} {R : List NodeId}
    (hc : c ∈ L) (hR : (afterIn L c).filter p = m :: R) : m ∈ L ∧ (afterIn L m).filter p = R := by
  obtain ⟨pre, rest, hL⟩ := List.append_of_mem hc
  rw [hL] at hnd
  have hcp : c ∉ pre := fun hm => (List.nodup_append.mp hnd).2.2 c hm c (List.mem_cons_self ..) rfl
  rw [hL, afterIn_split pre rest c hcp] at hR
  obtain ⟨l1, l2, hrest, _, _, hl2⟩ := List.filter_eq_cons_iff.mp hR
  have hL2 : L = (pre ++ c :: l1) ++ m :: l2 := by rw [hL, hrest]; simp
  rw [← hL, hL2] at hnd
  have hmp : m ∉ pre ++ c :: l1 := fun hm => (List.nodup_append.mp hnd).2.2 m hm m (List.mem_cons_self ..) rfl
  refine ⟨by rw [hL2]; simp, ?_⟩
  rw [hL2, afterIn_split _ l2 m hmp]
  exact hl2

theorem countLoop_spec {s : Store} (h : WF s) (dl : DeepList) (index : Nat) :
    ∀ (R : List NodeId) (c : NodeId) (i : Nat) (nx : Option NodeId) (f : Nat),
      c ∈ docOrder s dl.root → (afterIn (docOrder s dl.root) c).filter (deepP s dl) = R → R.length < f →
      countLoop s dl index f (some c) i nx = countSpec index c i nx R := by
  intro R
  induction R with
  | nil =>
    intro c i nx f hc hR hf
    cases f with
    | zero => omega
    | succ f' =>
      have hnd := docOrder_nodup h dl.root
      obtain ⟨pre, rest, hL⟩ := List.append_of_mem hc
      have hcp : c ∉ pre := by
        rw [hL] at hnd
        exact fun hm => (List.nodup_append.mp hnd).2.2 c hm c (List.mem_cons_self ..) rfl
      have hlen := docOrder_length_le' h dl.root
      have hnm : nextMatching s dl (s.size + 1) c = none := by
        rw [nextMatching_spec h dl rest pre c hL (s.size + 1) (by rw [hL] at hlen; simp at hlen; omega),
          ← List.head?_filter]
        rw [hL, afterIn_split pre rest c hcp] at hR
        rw [hR]; rfl
      unfold countLoop countSpec
      simp only
      by_cases hi : i < index + 1
      · rw [if_pos hi, if_pos hi, hnm]
      · rw [if_neg hi, if_neg hi]
  | cons m R' ih =>
    intro c i nx f hc hR hf
    cases f with
    | zero => omega
    | succ f' =>
      have hnd := docOrder_nodup h dl.root
      obtain ⟨pre, rest, hL⟩ := List.append_of_mem hc
      have hcp : c ∉ pre := by
        rw [hL] at hnd
        exact fun hm => (List.nodup_append.mp hnd).2.2 c hm c (List.mem_cons_self ..) rfl
      have hlen := docOrder_length_le' h dl.root
      have hnm : nextMatching s dl (s.size + 1) c = some m := by
        rw [nextMatching_spec h dl rest pre c hL (s.size + 1) (by rw [hL] at hlen; simp at hlen; omega),
          ← List.head?_filter]
        have hR' := hR
        rw [hL, afterIn_split pre rest c hcp] at hR'
        rw [hR']; rfl
      obtain ⟨hm, hRm⟩ := filter_after hnd hc hR
      unfold countLoop countSpec
      simp only
      by_cases hi : i < index + 1
      · rw [if_pos hi, if_pos hi, hnm]
        simp only
        exact ih m (i + 1) (some m) f' hm hRm (by simp at hf; omega)
      · rw [if_neg hi, if_neg hi]

theorem countSpec_found (index : Nat) : ∀ (R : List NodeId) (c : NodeId) (i : Nat) (nx : Option NodeId) (m : NodeId),
    i < index + 1 → R[index - i]? = some m → countSpec index c i nx R = (some m, index + 1, some m) := by
  intro R
  induction R with
  | nil => intro c i nx m _ hm; simp at hm
  | cons a R' ih =>
    intro c i nx m hi hm
    unfold countSpec
    rw [if_pos hi]
    by_cases hi2 : i + 1 < index + 1
    · apply ih a (i + 1) (some a) m hi2
      have : index - i = (index - (i + 1)) + 1 := by omega
      rw [this, List.getElem?_cons_succ] at hm
      exact hm
    · have hii : i = index := by omega
      subst hii
      simp at hm
      subst hm
      cases R' with
      | nil => unfold countSpec; simp
      | cons b R'' => unfold countSpec; simp

theorem countSpec_exhausted (index : Nat) : ∀ (R : List NodeId) (c : NodeId) (i : Nat) (nx : Option NodeId),
    i < index + 1 → R.length ≤ index - i →
      countSpec index c i nx R = ((R.getLast?).or (some c), i + R.length, none) := by
  intro R
  induction R with
  | nil => intro c i nx hi _; unfold countSpec; simp [hi]
  | cons a R' ih =>
    intro c i nx hi hl
    unfold countSpec
    rw [if_pos hi]
    simp only [List.length_cons] at hl
    rw [ih a (i + 1) (some a) (by omega) (by omega)]
    have : ((a :: R').getLast?).or (some c) = (R'.getLast?).or (some a) := by
      cases R' with
      | nil => rfl
      | cons b t =>
        rw [List.getLast?_cons_cons]
        cases hgl : (b :: t).getLast? with
        | none => simp at hgl
        | some v => rfl
    rw [this]
    simp only [List.length_cons]
    congr 2
    omega

theorem filter_after_drop {p : NodeId → Bool} {L : List NodeId} (hnd : L.Nodup) :
    ∀ (k : Nat) (c : NodeId) (R : List NodeId) (m : NodeId), c ∈ L → (afterIn L c).filter p = R → R[k]? = some m →
      m ∈ L ∧ (afterIn L m).filter p = R.drop (k + 1) := by
  intro k
  induction k with
  | zero =>
    intro c R m hc hR hm
    cases R with
    | nil => simp at hm
    | cons a R' =>
      simp at hm
      subst hm
      have := filter_after hnd hc hR
      simpa using this
  | succ k ih =>
    intro c R m hc hR hm
    cases R with
    | nil => simp at hm
    | cons a R' =>
      obtain ⟨ha, hRa⟩ := filter_after hnd hc hR
      simp only [List.getElem?_cons_succ] at hm
      have := ih a R' m ha hRa hm
      simpa using this

-- ------------------------------------------------------------------ operations that leave the shape of every tree alone

theorem docOrderFuel_congr (s s' : Store) (hk : ∀ x, kids s' x = kids s x) :
    ∀ f r, docOrderFuel s' f r = docOrderFuel s f r := by
  intro f
  induction f with
  | zero => intro r; rfl
  | succ f ih =>
    intro r
    unfold docOrderFuel
    rw [hk r]
    congr 1
    apply flatMap_congr'
    intro c _
    exact ih c

theorem kids_alloc (s : Store) (mk : NodeRec) (hmk : mk.children = []) (x : NodeId) :
    kids (s.alloc mk).1 x = kids s x := by
  unfold kids parentKids
  rw [get_alloc]
  by_cases hx : x = s.size
  · rw [if_pos hx, get_ge_size s x (by rw [hx]; exact Nat.le_refl _)]; exact hmk
  · rw [if_neg hx]

/-- a fresh unlinked node changes no document order -/
theorem docOrder_alloc (s : Store) (h : WF s) (mk : NodeRec) (hmk : mk.children = []) (r : NodeId) :
    docOrder (s.alloc mk).1 r = docOrder s r := by
  unfold docOrder
  rw [size_alloc, docOrderFuel_congr s _ (kids_alloc s mk hmk)]
  have := docOrder_unfold h r
  unfold docOrder at this
  rw [this]
  rfl

theorem kids_setDataOf (s : Store) (t : NodeId) (d : List Nat) (x : NodeId) : kids (setDataOf s t d) x = kids s x := by
  unfold kids parentKids
  rw [get_setDataOf]
  cases s.get x with
  | none => rfl
  | some r => simp only [Option.map_some]; split <;> rfl

theorem size_setDataOf (s : Store) (t : NodeId) (d : List Nat) : (setDataOf s t d).size = s.size := by
  unfold setDataOf; exact size_mapNodes s _

/-- character data edits change no document order -/
theorem docOrder_setDataOf (s : Store) (t : NodeId) (d : List Nat) (r : NodeId) :
    docOrder (setDataOf s t d) r = docOrder s r := by
  unfold docOrder
  rw [size_setDataOf, docOrderFuel_congr s _ (kids_setDataOf s t d)]

theorem tagMatches_alloc (s : Store) (mk : NodeRec) (tag : List Nat) (x : NodeId) (hx : x < s.size) :
    tagMatches (s.alloc mk).1 tag x = tagMatches s tag x := by
  unfold tagMatches
  rw [get_alloc, if_neg (Nat.ne_of_lt hx)]

theorem tagMatches_setDataOf (s : Store) (t : NodeId) (d : List Nat) (tag : List Nat) (x : NodeId) :
    tagMatches (setDataOf s t d) tag x = tagMatches s tag x := by
  unfold tagMatches
  rw [get_setDataOf]
  cases s.get x with
  | none => rfl
  | some r => simp only [Option.map_some]; split <;> rfl

/-- the nodes after the first one of a document order are children of live nodes, hence live -/
theorem tail_docOrder_lt_size {s : Store} (h : WF s) {r x : NodeId} (hx : x ∈ (docOrder s r).tail) : x < s.size := by
  obtain ⟨hne, ha⟩ := (mem_tail_docOrder h r x).mp hx
  cases ha with
  | refl => exact absurd rfl hne
  | step hq _ =>
    obtain ⟨rx, hrx, _⟩ := parentOf_some hq
    exact lt_size_of_get s x rx hrx

theorem afterIn_subset_tail (L : List NodeId) (c : NodeId) (hc : c ∈ L) (hnd : L.Nodup) :
    ∀ x, x ∈ afterIn L c → x ∈ L.tail := by
  obtain ⟨pre, rest, hL⟩ := List.append_of_mem hc
  rw [hL] at hnd
  have hcp : c ∉ pre := fun hm => (List.nodup_append.mp hnd).2.2 c hm c (List.mem_cons_self ..) rfl
  intro x hx
  rw [hL, afterIn_split pre rest c hcp] at hx
  rw [hL]
  cases pre with
  | nil => exact hx
  | cons a t => simp only [List.cons_append, List.tail_cons]; exact List.mem_append_right _ (List.mem_cons_of_mem _ hx)

-- ------------------------------------------------------------------ isAncestorOf

theorem mem_ancestors_iff {s : Store} (h : WF s) (a : NodeId) : ∀ b, a ∈ ancestors s b ↔ (a ≠ b ∧ AncOrSelf s a b) := by
  refine up_induction h (fun b => a ∈ ancestors s b ↔ (a ≠ b ∧ AncOrSelf s a b)) ?_
  intro b ih
  cases hq : parentOf s b with
  | none =>
    rw [ancestors_nil hq]
    constructor
    · intro hm; cases hm
    · intro ⟨hne, ha⟩
      cases ha with
      | refl => exact absurd rfl hne
      | step hq' _ => rw [hq] at hq'; cases hq'
  | some q =>
    rw [ancestors_cons h hq, List.mem_cons]
    constructor
    · intro hm
      have haq : AncOrSelf s a q := by
        rcases hm with e | hm
        · exact e ▸ .refl
        · exact ((ih q hq).mp hm).2
      refine ⟨?_, .step hq haq⟩
      intro e; subst e
      exact not_anc_parent h hq haq
    · intro ⟨hne, ha⟩
      cases ha with
      | refl => exact absurd rfl hne
      | step hq' ha' =>
        rw [hq] at hq'; cases hq'
        by_cases e : a = q
        · exact Or.inl e
        · exact Or.inr ((ih q hq).mpr ⟨e, ha'⟩)

/-- DOMRangeImpl::isAncestorOf decides the inclusive ancestor relation -/
theorem isAncOf_iff {s : Store} (h : WF s) (a b : NodeId) : isAncOf s a b = true ↔ AncOrSelf s a b := by
  unfold isAncOf
  rw [Bool.or_eq_true, contains_iff, mem_ancestors_iff h a b]
  constructor
  · intro hh
    rcases hh with e | hh
    · have : b = a := by simpa using e
      exact this ▸ .refl
    · exact hh.2
  · intro ha
    by_cases e : a = b
    · exact Or.inl (by simp [e])
    · exact Or.inr ⟨e, ha⟩

theorem not_isAncOf_parent {s : Store} (h : WF s) {x q : NodeId} (hq : parentOf s x = some q) : isAncOf s x q = false := by
  cases hb : isAncOf s x q with
  | false => rfl
  | true => exact absurd ((isAncOf_iff h x q).mp hb) (not_anc_parent h hq)

-- ------------------------------------------------------------------ lengths of containers after the primitive mutations

theorem textLike_setDataOf (s : Store) (t : NodeId) (d : List Nat) (x : NodeId) :
    textLike (setDataOf s t d) x = textLike s x := by
  unfold textLike
  rw [get_setDataOf]
  cases s.get x with
  | none => rfl
  | some r => simp only [Option.map_some]; split <;> rfl

theorem dataOf_setDataOf (s : Store) (t : NodeId) (d : List Nat) (x : NodeId) :
    dataOf (setDataOf s t d) x = if x = t ∧ (s.get t).isSome then d else dataOf s x := by
  unfold dataOf
  rw [get_setDataOf]
  cases hx : s.get x with
  | none =>
    simp only [Option.map_none]
    by_cases e : x = t
    · subst e; simp [hx]
    · simp [e]
  | some r =>
    simp only [Option.map_some]
    by_cases e : x = t
    · subst e; simp [hx]
    · simp [e]

theorem lenOf_setDataOf (s : Store) (t : NodeId) (d : List Nat) (x : NodeId) :
    lenOf (setDataOf s t d) x =
      if x = t ∧ (s.get t).isSome ∧ textLike s t = true then d.length else lenOf s x := by
  unfold lenOf
  rw [textLike_setDataOf, dataOf_setDataOf, kids_setDataOf]
  by_cases e : x = t
  · subst e
    by_cases hl : (s.get x).isSome <;> by_cases ht : textLike s x = true <;> simp [hl, ht]
  · simp [e]

theorem live_setDataOf (s : Store) (t : NodeId) (d : List Nat) (x : NodeId) :
    ((setDataOf s t d).get x).isSome = (s.get x).isSome := by
  rw [get_setDataOf]; cases s.get x <;> rfl

theorem kids_detach (s : Store) (c x : NodeId) : kids (detach s c) x = (kids s x).filter (fun y => y != c) := by
  unfold kids parentKids
  rw [get_detach]
  cases s.get x <;> rfl

theorem live_detach (s : Store) (c x : NodeId) : ((detach s c).get x).isSome = (s.get x).isSome := by
  rw [get_detach]; cases s.get x <;> rfl

theorem textLike_detach (s : Store) (c x : NodeId) : textLike (detach s c) x = textLike s x := by
  unfold textLike; rw [get_detach]; cases s.get x <;> rfl

theorem dataOf_detach (s : Store) (c x : NodeId) : dataOf (detach s c) x = dataOf s x := by
  unfold dataOf; rw [get_detach]; cases s.get x <;> rfl

theorem filter_ne_not_mem (l : List NodeId) (c : NodeId) (h : c ∉ l) : l.filter (fun y => y != c) = l := by
  apply List.filter_eq_self.mpr
  intro a ha
  have : a ≠ c := fun e => h (e ▸ ha)
  simp [this]

/-- after removeChild(c) the parent (not character data: such nodes have no removeChild) has one child less, every other
container keeps its length -/
theorem lenOf_detach {s : Store} (h : WF s) {c p : NodeId} (hp : parentOf s c = some p) (htp : textLike s p = false)
    (x : NodeId) : lenOf (detach s c) x = if x = p then lenOf s p - 1 else lenOf s x := by
  obtain ⟨l1, l2, hl, h1, h2⟩ := kids_split h hp
  unfold lenOf
  rw [textLike_detach, dataOf_detach, kids_detach]
  by_cases e : x = p
  · subst e
    rw [if_pos rfl, hl, htp]
    have : (l1 ++ c :: l2).filter (fun y => y != c) = l1 ++ l2 := by
      rw [List.filter_append, List.filter_cons, filter_ne_not_mem l1 c h1, filter_ne_not_mem l2 c h2]
      simp
    rw [this]
    simp
  · rw [if_neg e]
    have hc : c ∉ kids s x := by
      intro hm
      have := parent_of_kid h hm
      rw [hp] at this
      exact e (Option.some.inj this).symm
    rw [filter_ne_not_mem _ c hc]

theorem indexIn_lt {s : Store} (h : WF s) {c p : NodeId} (hp : parentOf s c = some p) (htp : textLike s p = false) :
    indexIn s p c < lenOf s p := by
  unfold indexIn lenOf
  rw [htp]
  simp only [Bool.false_eq_true, if_false]
  exact List.idxOf_lt_length_of_mem (kid_of_parent h hp)

theorem length_spliceBefore (r : NodeId) (ms : List NodeId) : ∀ l : List NodeId,
    (spliceBefore r ms l).length = l.length + ms.length
  | [] => by simp [spliceBefore]
  | x :: xs => by
    unfold spliceBefore
    split
    · simp; omega
    · simp [length_spliceBefore r ms xs]; omega

theorem length_insertAt (ref : Option NodeId) (ms l : List NodeId) : (insertAt ref ms l).length = l.length + ms.length := by
  unfold insertAt
  cases ref with
  | none => simp
  | some r => exact length_spliceBefore r ms l

theorem kids_moveNodes (s : Store) (ms : List NodeId) (p : NodeId) (ref : Option NodeId) (x : NodeId) :
    kids (moveNodes s ms p ref) x =
      if x = p ∧ (s.get p).isSome then insertAt ref ms ((kids s x).filter (fun c => !ms.contains c))
      else (kids s x).filter (fun c => !ms.contains c) := by
  unfold kids parentKids
  rw [get_moveNodes]
  cases hx : s.get x with
  | none =>
    by_cases e : x = p
    · subst e; simp [hx]
    · simp [e]
  | some r =>
    by_cases e : x = p
    · subst e; simp [hx]
    · simp [e]

theorem live_moveNodes (s : Store) (ms : List NodeId) (p : NodeId) (ref : Option NodeId) (x : NodeId) :
    ((moveNodes s ms p ref).get x).isSome = (s.get x).isSome := by
  rw [get_moveNodes]; cases s.get x <;> rfl

theorem textLike_moveNodes (s : Store) (ms : List NodeId) (p : NodeId) (ref : Option NodeId) (x : NodeId) :
    textLike (moveNodes s ms p ref) x = textLike s x := by
  unfold textLike; rw [get_moveNodes]; cases s.get x <;> rfl

theorem dataOf_moveNodes (s : Store) (ms : List NodeId) (p : NodeId) (ref : Option NodeId) (x : NodeId) :
    dataOf (moveNodes s ms p ref) x = dataOf s x := by
  unfold dataOf; rw [get_moveNodes]; cases s.get x <;> rfl

/-- after insertBefore of the parentless node `n` the new parent (not character data) has one child more, every other
container keeps its length -/
theorem lenOf_moveOne {s : Store} (h : WF s) {n p : NodeId} (ref : Option NodeId) (hn : parentOf s n = none)
    (hpl : (s.get p).isSome) (htp : textLike s p = false) (x : NodeId) :
    lenOf (moveNodes s [n] p ref) x = if x = p then lenOf s p + 1 else lenOf s x := by
  have hnk : ∀ y, n ∉ kids s y := by
    intro y hm
    rw [parent_of_kid h hm] at hn
    cases hn
  have hf : ∀ y, (kids s y).filter (fun c => !([n] : List NodeId).contains c) = kids s y := by
    intro y
    apply List.filter_eq_self.mpr
    intro a ha
    have : a ≠ n := fun e => hnk y (e ▸ ha)
    simp [this]
  unfold lenOf
  rw [textLike_moveNodes, dataOf_moveNodes, kids_moveNodes, hf]
  by_cases e : x = p
  · subst e
    simp only [hpl, and_self, if_true, htp, Bool.false_eq_true, if_false, length_insertAt]
    rfl
  · simp [e]

end XV.Lemmas.Views
