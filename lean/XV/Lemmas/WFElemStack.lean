/- Helper lemmas for C06: representation invariant of WFElemStack (one shared prefix map, per-level top index) and the
   lookup lemma.  -/
import XV.Lemmas.NsViews
namespace XV.Lemmas.WFElemStack
open XV.Model.ElemStack XV.Spec.Namespace XV.Gen.ElemStackConsts XV.Lemmas.ElemStack XV.Lemmas.NsViews

def tot (st : List Level) : Nat := (st.map List.length).sum

def sums : List Level → List Nat
  | [] => []
  | l :: r => tot (l :: r) :: sums r

theorem tot_cons (l : Level) (r : List Level) : tot (l :: r) = l.length + tot r := by simp [tot]

theorem tot_eq_flatten (st : List Level) : tot st = st.reverse.flatten.length := by
  induction st with
  | nil => rfl
  | cons l r ih => simp [tot_cons, ih, Nat.add_comm]

structure RepWF (S : WFScan) (st : List Level) : Prop where
  top : S.es.fStackTop = st.length
  top_le : S.es.fStackTop ≤ S.es.fStack.length
  len_le : S.es.fStack.length ≤ S.es.fStackCapacity
  cap_ge : wfStackInitCap ≤ S.es.fStackCapacity
  mapLen : S.es.fMap.length = S.es.fMapCapacity
  mapCap : S.es.fMapCapacity = 0 ∨ wfMapInitCap ≤ S.es.fMapCapacity
  tps : ((S.es.fStack.take S.es.fStackTop).map (·.fTopPrefix1)).reverse = sums st
  tot_le : tot st ≤ S.es.fMapCapacity
  content : S.es.fMap.take (tot st) = (st.reverse.flatten).map (enc S.es.fPrefixPool S.uriPool)
  memS : ∀ l ∈ st, ∀ d ∈ l, d.pre ∈ S.es.fPrefixPool ∧ d.uri ∈ S.uriPool
  gpool : "" ∈ S.es.fPrefixPool ∧ S.es.fGlobalPoolId = getId S.es.fPrefixPool ""
  xpool : xmlString ∈ S.es.fPrefixPool ∧ S.es.fXMLPoolId = getId S.es.fPrefixPool xmlString
  npool : xmlnsString ∈ S.es.fPrefixPool ∧ S.es.fXMLNSPoolId = getId S.es.fPrefixPool xmlnsString
  eid : "" ∈ S.uriPool ∧ S.es.fEmptyNamespaceId = getId S.uriPool ""
  xid : xmlURIName ∈ S.uriPool ∧ S.es.fXMLNamespaceId = getId S.uriPool xmlURIName
  nid : xmlnsURIName ∈ S.uriPool ∧ S.es.fXMLNSNamespaceId = getId S.uriPool xmlnsURIName
  sE : S.fEmptyNamespaceId = S.es.fEmptyNamespaceId

theorem wf_init_facts :
    let S := WFScan.init
    S.uriPool = ["", unknownURIName, xmlURIName, xmlnsURIName] ∧
    S.es.fPrefixPool = ["", xmlString, xmlnsString] ∧
    S.es.fStackTop = 0 ∧ S.es.fStack = [] ∧ S.es.fStackCapacity = wfStackInitCap ∧
    S.es.fMap = [] ∧ S.es.fMapCapacity = 0 ∧
    S.es.fGlobalPoolId = 1 ∧ S.es.fXMLPoolId = 2 ∧ S.es.fXMLNSPoolId = 3 ∧
    S.es.fEmptyNamespaceId = 1 ∧ S.es.fXMLNamespaceId = 3 ∧ S.es.fXMLNSNamespaceId = 4 ∧ S.fEmptyNamespaceId = 1 := by
  decide

theorem wf_init_rep : RepWF WFScan.init [] := by
  obtain ⟨h1, h2, h3, h4, h5, h6, h7, h8, h9, h10, h11, h12, h13, h14⟩ := wf_init_facts
  have g1 : getId ["", xmlString, xmlnsString] "" = 1 := by decide
  have g2 : getId ["", xmlString, xmlnsString] xmlString = 2 := by decide
  have g3 : getId ["", xmlString, xmlnsString] xmlnsString = 3 := by decide
  have u1 : getId ["", unknownURIName, xmlURIName, xmlnsURIName] "" = 1 := by decide
  have u3 : getId ["", unknownURIName, xmlURIName, xmlnsURIName] xmlURIName = 3 := by decide
  have u4 : getId ["", unknownURIName, xmlURIName, xmlnsURIName] xmlnsURIName = 4 := by decide
  constructor
  · simp [h3]
  · simp [h3]
  · simp [h4]
  · simp [h5]
  · simp [h6, h7]
  · left; exact h7
  · simp [h3, h4, sums]
  · simp [tot]
  · simp [tot, h6]
  · intro l hl; simp at hl
  · rw [h2, h8, g1]; simp
  · rw [h2, h9, g2]; simp
  · rw [h2, h10, g3]; simp
  · rw [h1, h11, u1]; simp
  · rw [h1, h12, u3]; simp
  · rw [h1, h13, u4]; simp
  · rw [h14, h11]

theorem wfMapGrow_strict (cap : Nat) (h : wfMapInitCap ≤ cap) : cap < cap * wfMapGrowNum / wfMapGrowDen := by
  simp only [wfMapInitCap, wfMapGrowNum, wfMapGrowDen] at *
  omega

theorem wfStackGrow_strict (cap : Nat) (h : wfStackInitCap ≤ cap) : cap < cap * wfStackGrowNum / wfStackGrowDen := by
  simp only [wfStackInitCap, wfStackGrowNum, wfStackGrowDen] at *
  omega

theorem take_succ_tp_reverse (rows : List WFStackElem) (n : Nat) (h : n < rows.length) :
    ((rows.take (n + 1)).map (·.fTopPrefix1)).reverse = rows[n].fTopPrefix1 :: ((rows.take n).map (·.fTopPrefix1)).reverse := by
  rw [List.take_add_one, List.getElem?_eq_getElem h]
  simp only [Option.toList_some, List.map_append, List.map_cons, List.map_nil, List.reverse_append,
    List.reverse_cons, List.reverse_nil, List.nil_append, List.cons_append]


theorem top_tp {S : WFScan} {l : Level} {r : List Level} (h : RepWF S (l :: r)) :
    ∃ n, S.es.fStackTop = n + 1 ∧ ∃ hlt : n < S.es.fStack.length, S.es.fStack[n].fTopPrefix1 = tot (l :: r) ∧
      ((S.es.fStack.take n).map (·.fTopPrefix1)).reverse = sums r := by
  have ht := h.top
  simp only [List.length_cons] at ht
  have hlt : r.length < S.es.fStack.length := by have := h.top_le; omega
  have := h.tps
  rw [ht, take_succ_tp_reverse _ _ hlt] at this
  simp only [sums, List.cons.injEq] at this
  exact ⟨r.length, ht, hlt, this.1, this.2⟩

theorem wf_rep_addLevel {S : WFScan} {st : List Level} (h : RepWF S st) : RepWF (S.step .addLevel) ([] :: st) := by
  have htl := h.top_le
  obtain ⟨rows, hrows⟩ : ∃ rows, rows = (if S.es.fStackTop < S.es.fStack.length then S.es.fStack
      else S.es.fStack ++ [({} : WFStackElem)]) := ⟨_, rfl⟩
  have hlt : S.es.fStackTop < rows.length := by
    rw [hrows]; split
    · assumption
    · simp; omega
  have htake : rows.take S.es.fStackTop = S.es.fStack.take S.es.fStackTop := by
    rw [hrows]; split
    · rfl
    · rw [List.take_append_of_le_length htl]
  have hlen : rows.length ≤ (if S.es.fStackTop = S.es.fStackCapacity then (WF.expandStack S.es).fStackCapacity else S.es.fStackCapacity) := by
    have := h.len_le; have hc := h.cap_ge
    have hg := wfStackGrow_strict S.es.fStackCapacity hc
    rw [hrows]; simp only [WF.expandStack]
    split <;> split <;> simp <;> omega
  have hcap : wfStackInitCap ≤ (if S.es.fStackTop = S.es.fStackCapacity then (WF.expandStack S.es).fStackCapacity else S.es.fStackCapacity) := by
    have hc := h.cap_ge
    have hg := wfStackGrow_strict S.es.fStackCapacity hc
    simp only [WF.expandStack]; split <;> omega
  -- the inherited top prefix index is the number of pairs stored for the open elements
  have htp : (if S.es.fStackTop ≠ 0 then (rows[S.es.fStackTop - 1]?.getD ({} : WFStackElem)).fTopPrefix1 else 0) = tot st := by
    cases st with
    | nil => have := h.top; simp at this; simp [this, tot]
    | cons l r =>
      obtain ⟨n, hn, hl, htp, _⟩ := top_tp h
      have h0 : S.es.fStackTop ≠ 0 := by omega
      have hrn : rows[n]? = some S.es.fStack[n] := by
        have : rows.take S.es.fStackTop = S.es.fStack.take S.es.fStackTop := htake
        have h1 : (rows.take S.es.fStackTop)[n]? = (S.es.fStack.take S.es.fStackTop)[n]? := by rw [this]
        rw [List.getElem?_take_of_lt (by omega), List.getElem?_take_of_lt (by omega), List.getElem?_eq_getElem hl] at h1
        exact h1
      simp only [ne_eq, hn, Nat.add_sub_cancel, hrn, Option.getD_some, htp]
      simp
  simp only [WFScan.step, WF.addLevel, ← hrows, htp]
  refine { top := ?_, top_le := ?_, len_le := ?_, cap_ge := hcap, mapLen := h.mapLen, mapCap := h.mapCap, tps := ?_,
           tot_le := ?_, content := ?_, memS := ?_, gpool := h.gpool, xpool := h.xpool, npool := h.npool, eid := h.eid,
           xid := h.xid, nid := h.nid, sE := h.sE }
  · simp [h.top]
  · simp only [List.length_set]; omega
  · simpa only [List.length_set] using hlen
  · have hlt' : S.es.fStackTop < (rows.set S.es.fStackTop ({ fTopPrefix1 := tot st } : WFStackElem)).length := by
      simpa only [List.length_set] using hlt
    show ((List.take (S.es.fStackTop + 1) (rows.set S.es.fStackTop _)).map (·.fTopPrefix1)).reverse = _
    rw [take_succ_tp_reverse _ _ hlt', List.take_set_of_le (Nat.le_refl _), htake, h.tps]
    simp [sums, tot_cons]
  · have := h.tot_le; simpa [tot_cons] using this
  · have := h.content; simpa [tot_cons] using this
  · intro l hl d hd
    simp only [List.mem_cons] at hl
    rcases hl with h1 | h1
    · subst h1; simp at hd
    · exact h.memS l h1 d hd

theorem wf_rep_popTop {S : WFScan} {st : List Level} (h : RepWF S st) : RepWF (S.step .popTop) st.tail := by
  cases st with
  | nil =>
    have h0 : S.es.fStackTop = 0 := by have := h.top; simpa using this
    have hs : S.step .popTop = S := by simp [WFScan.step, WF.popTop, h0]
    rw [hs]; exact h
  | cons l r =>
    obtain ⟨n, hn, hl, htp, hsums⟩ := top_tp h
    have h0 : S.es.fStackTop ≠ 0 := by omega
    simp only [WFScan.step, WF.popTop, if_neg h0, List.tail_cons]
    refine { top := ?_, top_le := ?_, len_le := h.len_le, cap_ge := h.cap_ge, mapLen := h.mapLen, mapCap := h.mapCap,
             tps := ?_, tot_le := ?_, content := ?_, memS := ?_, gpool := h.gpool, xpool := h.xpool, npool := h.npool,
             eid := h.eid, xid := h.xid, nid := h.nid, sE := h.sE }
    · have := h.top; simp only [List.length_cons] at this; show S.es.fStackTop - 1 = r.length; omega
    · have := h.top_le; show S.es.fStackTop - 1 ≤ S.es.fStack.length; omega
    · show ((List.take (S.es.fStackTop - 1) S.es.fStack).map (·.fTopPrefix1)).reverse = _
      simp only [hn, Nat.add_sub_cancel]; exact hsums
    · have := h.tot_le; rw [tot_cons] at this; show tot r ≤ S.es.fMapCapacity; omega
    · show S.es.fMap.take (tot r) = (r.reverse.flatten).map (enc S.es.fPrefixPool S.uriPool)
      have hc := h.content
      have hle : tot r ≤ tot (l :: r) := by rw [tot_cons]; omega
      have : S.es.fMap.take (tot r) = (S.es.fMap.take (tot (l :: r))).take (tot r) := by
        rw [List.take_take]; congr 1; omega
      rw [this, hc]
      simp only [List.reverse_cons, List.flatten_append, List.flatten_cons, List.flatten_nil, List.append_nil,
        List.map_append]
      have hlen : (List.map (enc S.es.fPrefixPool S.uriPool) r.reverse.flatten).length = tot r := by
        rw [List.length_map, ← tot_eq_flatten]
      rw [List.take_append_of_le_length (by omega), ← hlen, List.take_length]
    · intro l' hl' d hd
      exact h.memS l' (by simp [hl']) d hd


theorem wf_rep_ext {S : WFScan} {st : List Level} (h : RepWF S st) (l1 l2 : Pool) :
    RepWF { S with es := { S.es with fPrefixPool := S.es.fPrefixPool ++ l1 }, uriPool := S.uriPool ++ l2 } st := by
  refine { top := h.top, top_le := h.top_le, len_le := h.len_le, cap_ge := h.cap_ge, mapLen := h.mapLen, mapCap := h.mapCap,
           tps := h.tps, tot_le := h.tot_le, content := ?_, memS := ?_, gpool := ?_, xpool := ?_, npool := ?_, eid := ?_,
           xid := ?_, nid := ?_, sE := h.sE }
  · show S.es.fMap.take (tot st) = (st.reverse.flatten).map (enc (S.es.fPrefixPool ++ l1) (S.uriPool ++ l2))
    rw [map_enc_append l1 l2 _ (fun d hd => by
      obtain ⟨l, hl, hdl⟩ := List.mem_flatten.mp hd
      exact h.memS l (List.mem_reverse.mp hl) d hdl)]
    exact h.content
  · intro l hl d hd
    exact ⟨List.mem_append_left _ (h.memS l hl d hd).1, List.mem_append_left _ (h.memS l hl d hd).2⟩
  · exact ⟨List.mem_append_left _ h.gpool.1, by show S.es.fGlobalPoolId = _; rw [getId_append h.gpool.1]; exact h.gpool.2⟩
  · exact ⟨List.mem_append_left _ h.xpool.1, by show S.es.fXMLPoolId = _; rw [getId_append h.xpool.1]; exact h.xpool.2⟩
  · exact ⟨List.mem_append_left _ h.npool.1, by show S.es.fXMLNSPoolId = _; rw [getId_append h.npool.1]; exact h.npool.2⟩
  · exact ⟨List.mem_append_left _ h.eid.1, by show S.es.fEmptyNamespaceId = _; rw [getId_append h.eid.1]; exact h.eid.2⟩
  · exact ⟨List.mem_append_left _ h.xid.1, by show S.es.fXMLNamespaceId = _; rw [getId_append h.xid.1]; exact h.xid.2⟩
  · exact ⟨List.mem_append_left _ h.nid.1, by show S.es.fXMLNSNamespaceId = _; rw [getId_append h.nid.1]; exact h.nid.2⟩

def wfExtPools (S : WFScan) (p u : String) : WFScan :=
  { S with es := { S.es with fPrefixPool := (addOrFind S.es.fPrefixPool p).1 }, uriPool := (addOrFind S.uriPool u).1 }

theorem wf_rep_extPools {S : WFScan} {st : List Level} (h : RepWF S st) (p u : String) : RepWF (wfExtPools S p u) st := by
  unfold wfExtPools
  rw [addOrFind_fst, addOrFind_fst]
  exact wf_rep_ext h _ _

/-- the map after "expand if full": room at index `tot`, the stored part untouched -/
theorem wf_expand_spec (s : WFElemStack) (n : Nat) (hlen : s.fMap.length = s.fMapCapacity)
    (hcap : s.fMapCapacity = 0 ∨ wfMapInitCap ≤ s.fMapCapacity) (hn : n ≤ s.fMapCapacity) :
    let full := n = s.fMapCapacity
    let map1 := if full then (WF.expandMap s).fMap else s.fMap
    let cap1 := if full then (WF.expandMap s).fMapCapacity else s.fMapCapacity
    map1.length = cap1 ∧ n < cap1 ∧ (cap1 = 0 ∨ wfMapInitCap ≤ cap1) ∧ map1.take n = s.fMap.take n := by
  intro full map1 cap1
  by_cases hf : n = s.fMapCapacity
  · have hgrow : s.fMapCapacity < (if s.fMapCapacity ≠ 0 then s.fMapCapacity * wfMapGrowNum / wfMapGrowDen else wfMapInitCap) := by
      by_cases h0 : s.fMapCapacity = 0
      · simp [h0]; decide
      · have : wfMapInitCap ≤ s.fMapCapacity := by cases hcap with | inl h => exact absurd h h0 | inr h => exact h
        simp only [ne_eq, h0, not_false_eq_true, ↓reduceIte]
        exact wfMapGrow_strict _ this
    have hinit : wfMapInitCap ≤ (if s.fMapCapacity ≠ 0 then s.fMapCapacity * wfMapGrowNum / wfMapGrowDen else wfMapInitCap) := by
      by_cases h0 : s.fMapCapacity = 0
      · simp [h0]
      · have : wfMapInitCap ≤ s.fMapCapacity := by cases hcap with | inl h => exact absurd h h0 | inr h => exact h
        omega
    simp only [map1, cap1, full, hf, ↓reduceIte, WF.expandMap]
    refine ⟨?_, hgrow, Or.inr hinit, ?_⟩
    · simp only [List.length_append, List.length_take, List.length_replicate]; omega
    · rw [List.take_append_of_le_length (by simp; omega), List.take_take]
      congr 1; omega
  · simp only [map1, cap1, full, hf, ↓reduceIte]
    exact ⟨hlen, by omega, hcap, trivial⟩

/-- the abstract effect of addPrefix on the (innermost-first) stack of declaration lists -/
def addDecl : List Level → Decl → List Level
  | [], _ => []
  | l :: r, d => (l ++ [d]) :: r

theorem wf_rep_addPrefix {S : WFScan} {st : List Level} (h : RepWF S st) (p u : String) :
    RepWF (S.step (.addPrefix p u)) (addDecl st ⟨p, u⟩) := by
  cases st with
  | nil =>
    have h0 : S.es.fStackTop = 0 := by have := h.top; simpa using this
    have hs : S.step (.addPrefix p u) =
        { S with es := { S.es with fPrefixPool := S.es.fPrefixPool ++ [] }, uriPool := S.uriPool ++ (if u ∈ S.uriPool then [] else [u]) } := by
      simp only [WFScan.step, WF.addPrefix, if_pos h0, addOrFind_fst, List.append_nil]
    rw [hs]
    exact wf_rep_ext h _ _
  | cons l r =>
    simp only [addDecl]
    obtain ⟨n, hn, hl, htp, hsums⟩ := top_tp h
    have h0 : S.es.fStackTop ≠ 0 := by omega
    have hidx : S.es.fStackTop - 1 = n := by omega
    have hcur : S.es.fStack[n]? = some S.es.fStack[n] := List.getElem?_eq_getElem hl
    have h1 := wf_rep_extPools h p u
    obtain ⟨e1, e2, e3, e4⟩ := wf_expand_spec S.es (tot (l :: r)) h.mapLen h.mapCap h.tot_le
    -- name the grown map and capacity
    obtain ⟨map1, hmap1⟩ : ∃ m, m = (if tot (l :: r) = S.es.fMapCapacity then (WF.expandMap S.es).fMap else S.es.fMap) := ⟨_, rfl⟩
    obtain ⟨cap1, hcap1⟩ : ∃ c, c = (if tot (l :: r) = S.es.fMapCapacity then (WF.expandMap S.es).fMapCapacity else S.es.fMapCapacity) := ⟨_, rfl⟩
    simp only [← hmap1, ← hcap1] at e1 e2 e3 e4
    have huri : ∀ (a b : Nat), (if a = S.es.fGlobalPoolId ∧ b = S.es.fEmptyNamespaceId then S.es.fEmptyNamespaceId else b) = b := by
      intro a b; by_cases hc : a = S.es.fGlobalPoolId ∧ b = S.es.fEmptyNamespaceId
      · simp [hc]
      · simp [hc]
    have hs : S.step (.addPrefix p u) = { wfExtPools S p u with es := { (wfExtPools S p u).es with
        fMapCapacity := cap1
        fMap := (map1.set (tot (l :: r)) ⟨getId (wfExtPools S p u).es.fPrefixPool p, getId (wfExtPools S p u).uriPool u⟩)
        fStack := (S.es.fStack.set n { fTopPrefix1 := tot (l :: r) + 1 }) } } := by
      simp only [WFScan.step, WF.addPrefix, if_neg h0, hidx, hcur, htp, huri, wfExtPools, hmap1, hcap1, WF.expandMap]
      rw [addOrFind_snd S.es.fPrefixPool p, addOrFind_snd S.uriPool u]
    rw [hs]
    have hp : p ∈ (wfExtPools S p u).es.fPrefixPool := addOrFind_mem _ _
    have hu : u ∈ (wfExtPools S p u).uriPool := addOrFind_mem _ _
    refine { top := ?_, top_le := ?_, len_le := ?_, cap_ge := h1.cap_ge, mapLen := ?_, mapCap := e3, tps := ?_,
             tot_le := ?_, content := ?_, memS := ?_, gpool := h1.gpool, xpool := h1.xpool, npool := h1.npool,
             eid := h1.eid, xid := h1.xid, nid := h1.nid, sE := h1.sE }
    · show S.es.fStackTop = ((l ++ [⟨p, u⟩]) :: r).length
      have := h.top; simpa using this
    · show S.es.fStackTop ≤ (S.es.fStack.set n _).length
      have := h.top_le; simpa using this
    · show (S.es.fStack.set n _).length ≤ S.es.fStackCapacity
      have := h.len_le; simpa using this
    · show (map1.set (tot (l :: r)) _).length = cap1
      simpa using e1
    · show ((List.take S.es.fStackTop (S.es.fStack.set n _)).map (·.fTopPrefix1)).reverse = _
      have hl' : n < (S.es.fStack.set n ({ fTopPrefix1 := tot (l :: r) + 1 } : WFStackElem)).length := by simpa using hl
      rw [hn, take_succ_tp_reverse _ _ hl', List.take_set_of_le (Nat.le_refl _), hsums]
      simp [sums, tot_cons]; omega
    · show tot ((l ++ [⟨p, u⟩]) :: r) ≤ cap1
      simp only [tot_cons, List.length_append, List.length_cons, List.length_nil] at e2 ⊢; omega
    · show (map1.set (tot (l :: r)) ⟨getId (wfExtPools S p u).es.fPrefixPool p, getId (wfExtPools S p u).uriPool u⟩).take
          (tot ((l ++ [⟨p, u⟩]) :: r))
          = (((l ++ [⟨p, u⟩]) :: r).reverse.flatten).map (enc (wfExtPools S p u).es.fPrefixPool (wfExtPools S p u).uriPool)
      have hc1 : S.es.fMap.take (tot (l :: r))
          = ((l :: r).reverse.flatten).map (enc (wfExtPools S p u).es.fPrefixPool (wfExtPools S p u).uriPool) := h1.content
      have ht : tot ((l ++ [⟨p, u⟩]) :: r) = tot (l :: r) + 1 := by simp [tot_cons]; omega
      rw [ht, List.take_add_one, List.take_set_of_le (Nat.le_refl _), e4, hc1]
      have : tot (l :: r) < map1.length := by omega
      simp [this, enc]
    · intro l' hl' d hd
      simp only [List.mem_cons] at hl'
      rcases hl' with h2 | h2
      · subst h2
        rcases List.mem_append.mp hd with h3 | h3
        · exact h1.memS l (by simp) d h3
        · simp at h3; subst h3; exact ⟨hp, hu⟩
      · exact h1.memS l' (by simp [h2]) d hd


theorem wf_rep_step {S : WFScan} {st : List Level} (h : RepWF S st) (o : Op) (hng : ∀ p u, o ≠ .addGlobalPrefix p u) :
    RepWF (S.step o) ((Abs.step ⟨[], st⟩ o).stack) := by
  cases o with
  | addLevel => exact wf_rep_addLevel h
  | popTop => exact wf_rep_popTop h
  | addPrefix p u =>
    have := wf_rep_addPrefix h p u
    cases st <;> simpa [Abs.step, addDecl] using this
  | addGlobalPrefix p u => exact absurd rfl (hng p u)

def NoGlobal (ops : List Op) : Prop := ∀ o ∈ ops, ∀ p u, o ≠ .addGlobalPrefix p u

theorem abs_step_g (a : Abs) (o : Op) (hng : ∀ p u, o ≠ .addGlobalPrefix p u) : (a.step o).g = a.g := by
  cases o with
  | addLevel => rfl
  | popTop => rfl
  | addPrefix p u => simp only [Abs.step]; split <;> rfl
  | addGlobalPrefix p u => exact absurd rfl (hng p u)

theorem wf_rep_run {S : WFScan} {a : Abs} (ha : a.g = []) (h : RepWF S a.stack) (ops : List Op) (hng : NoGlobal ops) :
    RepWF (S.run ops) (a.run ops).stack ∧ (a.run ops).g = [] := by
  induction ops generalizing S a with
  | nil => exact ⟨h, ha⟩
  | cons o os ih =>
    have ho := hng o (by simp)
    have h1 : RepWF (S.step o) (a.step o).stack := by
      have := wf_rep_step h o ho
      cases a with | mk g st => simp only at ha; subst ha; exact this
    exact ih (by rw [abs_step_g a o ho]; exact ha) h1 (fun o' ho' => hng o' (by simp [ho']))

theorem searchDown_eq (fMap : List PrefMapElem) (pid : Nat) : ∀ n, n ≤ fMap.length →
    WF.searchDown fMap pid n = findE (fMap.take n).reverse pid := by
  intro n
  induction n with
  | zero => intro _; simp [WF.searchDown, findE]
  | succ n ih =>
    intro hn
    have hlt : n < fMap.length := by omega
    rw [WF.searchDown, List.getElem?_eq_getElem hlt, List.take_add_one, List.getElem?_eq_getElem hlt]
    simp only [Option.toList_some, List.reverse_append, List.reverse_cons, List.reverse_nil, List.nil_append,
      List.cons_append, findE, List.find?_cons]
    by_cases e : fMap[n].fPrefId = pid
    · simp [e]
    · have e' : (fMap[n].fPrefId == pid) = false := by simpa using e
      simp only [e, ↓reduceIte, e']
      exact ih (by omega)

theorem findE_append (a b : List PrefMapElem) (pid : Nat) :
    findE (a ++ b) pid = match findE a pid with | some u => some u | none => findE b pid := by
  unfold findE
  rw [List.find?_append]
  cases List.find? (fun e => e.fPrefId == pid) a <;> simp

theorem findE_flatten (L : List (List PrefMapElem)) (pid : Nat) : findE L.flatten pid = nearestE L pid := by
  induction L with
  | nil => rfl
  | cons l r ih =>
    simp only [List.flatten_cons, findE_append, nearestE, ih]
    cases findE l pid <;> rfl

theorem findE_reverse_enc (pp up : Pool) (l : Level) (pid : Nat) (hm : ∀ d ∈ l, d.pre ∈ pp)
    (hnd : (l.map (·.pre)).Nodup) : findE ((l.map (enc pp up)).reverse) pid = findE (l.map (enc pp up)) pid := by
  unfold findE
  rw [find?_perm_unique (fun e => e.fPrefId == pid) (List.reverse_perm (l.map (enc pp up)))]
  · intro a ha b hb pa pb
    have ha' := List.mem_reverse.mp ha
    have hb' := List.mem_reverse.mp hb
    obtain ⟨da, hda, rfl⟩ := List.mem_map.mp ha'
    obtain ⟨db, hdb, rfl⟩ := List.mem_map.mp hb'
    simp only [enc, beq_iff_eq] at pa pb
    have hpre : da.pre = db.pre := getId_inj (hm da hda) (hm db hdb) (pa.trans pb.symm)
    rw [nodup_map_inj (·.pre) hnd hda hdb hpre]

theorem nearest_append_nil (ls : List Level) (p : String) : nearest (ls ++ [[]]) p = nearest ls p := by
  induction ls with
  | nil => rfl
  | cons l r ih => simp only [List.cons_append, nearest, ih]

theorem nearestE_rev (pp up : Pool) (st : List Level) (pid : Nat) (hm : ∀ l ∈ st, ∀ d ∈ l, d.pre ∈ pp)
    (hnd : ∀ l ∈ st, (l.map (·.pre)).Nodup) :
    nearestE (st.map (fun l => l.reverse.map (enc pp up))) pid = nearestE (st.map (fun l => l.map (enc pp up))) pid := by
  induction st with
  | nil => rfl
  | cons l r ih =>
    simp only [List.map_cons, nearestE, List.map_reverse]
    rw [findE_reverse_enc pp up l pid (hm l (by simp)) (hnd l (by simp)),
      ← ih (fun x hx => hm x (by simp [hx])) (fun x hx => hnd x (by simp [hx]))]
    simp only [List.map_reverse]

/-- the downward search over the shared map computes the nearest enclosing declaration -/
theorem wf_lookup_eq {S : WFScan} {st : List Level} (h : RepWF S st) (hnd : ∀ l ∈ st, (l.map (·.pre)).Nodup)
    (p : String) (hp : p ∈ S.es.fPrefixPool) :
    WF.searchDown S.es.fMap (getId S.es.fPrefixPool p) (tot st) = (nearest st p).map (getId S.uriPool) := by
  have hle : tot st ≤ S.es.fMap.length := by rw [h.mapLen]; exact h.tot_le
  have hlev : ∀ l ∈ st, ∀ d ∈ l, d.pre ∈ S.es.fPrefixPool := fun l hl d hd => (h.memS l hl d hd).1
  rw [searchDown_eq _ _ _ hle, h.content, ← List.map_reverse, List.reverse_flatten, List.map_reverse,
    List.reverse_reverse, List.map_flatten, findE_flatten, List.map_map,
    ← nearestE_enc S.es.fPrefixPool S.uriPool st p hlev hp, ← nearestE_rev _ _ st _ hlev hnd]
  rfl


theorem wf_mapPrefix_of_rep {S : WFScan} {l : Level} {rest : List Level} (h : RepWF S (l :: rest))
    (hnd : ∀ x ∈ l :: rest, (x.map (·.pre)).Nodup) (p : String) :
    (WF.mapPrefixToURI S.es p).map S.decode = some (inScope (l :: rest).reverse p) := by
  have hx : xmlString = "xml" := by decide
  have hn : xmlnsString = "xmlns" := by decide
  have hxu : xmlURIName = xmlURI := by decide
  have hnu : xmlnsURIName = xmlnsURI := by decide
  have hxne : xmlURIName ≠ "" := by decide
  have hnne : xmlnsURIName ≠ "" := by decide
  obtain ⟨n, htop, hl, htp, _⟩ := top_tp h
  have h0 : S.es.fStackTop ≠ 0 := by omega
  have hidx : S.es.fStackTop - 1 = n := by omega
  have hcur : S.es.fStack[n]? = some S.es.fStack[n] := List.getElem?_eq_getElem hl
  have hnear : nearest ((l :: rest).reverse.reverse ++ [[]]) p = nearest (l :: rest) p := by
    rw [List.reverse_reverse, nearest_append_nil]
  unfold WF.mapPrefixToURI
  simp only [if_neg h0, hidx, hcur, htp, Option.map_some, Option.some.injEq]
  by_cases hp : p ∈ S.es.fPrefixPool
  · have hp0 : getId S.es.fPrefixPool p ≠ 0 := getId_ne_zero_iff.mpr hp
    by_cases e1 : p = xmlString
    · subst e1
      simp only [hp0, ↓reduceIte, h.xpool.2]
      unfold WFScan.decode inScope inScopeG
      have hne : getId S.uriPool xmlURIName ≠ getId S.uriPool "" := fun hh => hxne (getId_inj h.xid.1 h.eid.1 hh)
      simp [h.sE, h.xid.2, h.eid.2, hne, valueForId_getId h.xid.1, hx]
      exact hxu
    · have n1 : getId S.es.fPrefixPool p ≠ S.es.fXMLPoolId := by
        rw [h.xpool.2]; exact fun hh => e1 (getId_inj hp h.xpool.1 hh)
      by_cases e2 : p = xmlnsString
      · subst e2
        simp only [hp0, ↓reduceIte, n1, h.npool.2]
        unfold WFScan.decode inScope inScopeG
        have hne : getId S.uriPool xmlnsURIName ≠ getId S.uriPool "" := fun hh => hnne (getId_inj h.nid.1 h.eid.1 hh)
        have : xmlnsString ≠ "xml" := by decide
        simp [h.sE, h.nid.2, h.eid.2, hne, valueForId_getId h.nid.1, hn]
        exact hnu
      · have n2 : getId S.es.fPrefixPool p ≠ S.es.fXMLNSPoolId := by
          rw [h.npool.2]; exact fun hh => e2 (getId_inj hp h.npool.1 hh)
        have hlk := wf_lookup_eq h hnd p hp
        have px : p ≠ "xml" := hx ▸ e1
        have pn : p ≠ "xmlns" := hn ▸ e2
        simp only [hp0, ↓reduceIte, n1, n2, hlk]
        unfold inScope inScopeG
        simp only [px, pn, ↓reduceIte, hnear]
        cases hnr : nearest (l :: rest) p with
        | some u =>
          obtain ⟨lv, hlm, d, hd, _, hdu⟩ := nearest_some_mem hnr
          have hu : u ∈ S.uriPool := hdu ▸ (h.memS lv hlm d hd).2
          unfold WFScan.decode
          by_cases eu : u = ""
          · subst eu; simp [h.sE, h.eid.2]
          · have : getId S.uriPool u ≠ getId S.uriPool "" := fun hh => eu (getId_inj hu h.eid.1 hh)
            simp [h.sE, h.eid.2, this, valueForId_getId hu, eu]
        | none =>
          unfold WFScan.decode
          by_cases e : p = ""
          · simp [e, h.sE]
          · simp [e]
  · have hp0 : getId S.es.fPrefixPool p = 0 := getId_eq_zero_iff.mpr hp
    have px : p ≠ "xml" := fun e => hp (e ▸ hx ▸ h.xpool.1)
    have pn : p ≠ "xmlns" := fun e => hp (e ▸ hn ▸ h.npool.1)
    have hnone : nearest (l :: rest) p = none := by
      apply nearest_none_of_not_mem
      intro lv hlv d hd e
      exact hp (e ▸ (h.memS lv hlv d hd).1)
    have hnear2 : nearest (l :: (rest ++ [[]])) p = none := by
      have := hnear; simp only [List.reverse_reverse, List.cons_append] at this; rw [this, hnone]
    simp only [hp0, ↓reduceIte]
    unfold WFScan.decode inScope inScopeG
    simp [px, pn, hnear2]

end XV.Lemmas.WFElemStack
