/- Lemmas for C12: the repaired CDATA splitter keeps the text and leaves no terminator inside a piece. -/
import XV.Model.Cdata
import XV.Spec.Unescape
namespace XV.Lemmas.Cdata
open XV.Model.Cdata XV.Gen.Escapes
open XV.Spec.Unescape (containsSub startsWith)

def hasEnd (l : List Nat) : Bool := containsSub [93, 93, 62] l

theorem hasEnd_cons (x : Nat) (l : List Nat) : hasEnd (x :: l) = (startsWith [93, 93, 62] (x :: l) || hasEnd l) := by
  simp [hasEnd, containsSub]

theorem beqFlip (a k : Nat) : (k == a) = (a == k) := by
  rw [Bool.eq_iff_iff]; simp only [beq_iff_eq]; exact eq_comm

theorem sw3 (a b c : Nat) (t : List Nat) : startsWith [93, 93, 62] (a :: b :: c :: t) = (a == 93 && b == 93 && c == 62) := by
  simp only [startsWith, List.isPrefixOf, beqFlip a 93, beqFlip b 93, beqFlip c 62, Bool.and_true, Bool.and_assoc]

theorem hasEnd_snoc : ∀ (n : Nat) (l : List Nat), l.length ≤ n → ∀ c,
    hasEnd (l ++ [c]) = (hasEnd l || (c == 62 && endsWith2 l)) := by
  intro n
  induction n with
  | zero => intro l h c; have : l = [] := by cases l <;> simp_all
            subst this; simp [hasEnd, containsSub, startsWith, List.isPrefixOf, endsWith2]
  | succ n ih =>
    intro l h c
    match l, h with
    | [], _ => simp [hasEnd, containsSub, startsWith, List.isPrefixOf, endsWith2]
    | [a], _ => simp [hasEnd, containsSub, startsWith, List.isPrefixOf, endsWith2]
    | [a, b], _ =>
      simp only [hasEnd, containsSub, startsWith, List.isPrefixOf, endsWith2, List.cons_append, List.nil_append,
        beqFlip a 93, beqFlip b 93, beqFlip c 62]
      cases (a == 93) <;> cases (b == 93) <;> cases (c == 62) <;> simp
    | a :: b :: d :: t, h =>
      have := ih (b :: d :: t) (by simp at h ⊢; omega) c
      simp only [List.cons_append] at this ⊢
      rw [hasEnd_cons, this, hasEnd_cons a (b :: d :: t), sw3, sw3]
      simp [endsWith2, Bool.or_assoc]

theorem splitFixed_flatten : ∀ (v cur : List Nat), (splitFixed v cur).flatten = cur ++ v := by
  intro v
  induction v with
  | nil => intro cur; simp [splitFixed]
  | cons c t ih =>
    intro cur
    by_cases h : (c == 62 && endsWith2 cur) = true
    · simp only [splitFixed, h, if_true, List.flatten_cons, ih]
      simp at h; simp [h.1]
    · have h' : (c == 62 && endsWith2 cur) = false := by simpa using h
      simp only [splitFixed, h', Bool.false_eq_true, if_false, ih]; simp

theorem splitFixed_noEnd : ∀ (v cur : List Nat), hasEnd cur = false → ∀ p ∈ splitFixed v cur, hasEnd p = false := by
  intro v
  induction v with
  | nil => intro cur h p hp; simp [splitFixed] at hp; subst hp; exact h
  | cons c t ih =>
    intro cur h p hp
    by_cases hc : (c == 62 && endsWith2 cur) = true
    · simp only [splitFixed, hc, if_true, List.mem_cons] at hp
      rcases hp with rfl | hp
      · exact h
      · exact ih [62] (by decide) p hp
    · have hc' : (c == 62 && endsWith2 cur) = false := by simpa using hc
      simp only [splitFixed, hc', Bool.false_eq_true, if_false] at hp
      refine ih (cur ++ [c]) ?_ p hp
      rw [hasEnd_snoc _ cur (Nat.le_refl _) c, h]
      simpa using hc'

end XV.Lemmas.Cdata
