/- Lemmas for C12: namespace fix-up — the innermost binding wins, and after the fix-up of an element every prefix
it uses resolves to the namespace it was built with. -/
import XV.Model.NsFixup
namespace XV.Lemmas.NsFixup
open XV.Spec.Namespaces XV.Model.NsFixup

theorem active_iff (stack : List Scope) (p u : Name) :
    isNamespaceBindingActive stack p u = (resolve stack p == some u) := by
  induction stack with
  | nil => simp [isNamespaceBindingActive, resolve]
  | cons s rest ih =>
    simp only [isNamespaceBindingActive, resolve]
    cases h : scopeGet s p with
    | none => simpa using ih
    | some t => simp

theorem get_put_same (s : Scope) (p u : Name) : scopeGet (scopePut s p u) p = some u := by
  induction s with
  | nil => simp [scopePut, scopeGet]
  | cons h t ih =>
    obtain ⟨q, v⟩ := h
    by_cases hq : q = p
    · simp [scopePut, scopeGet, hq]
    · simp [scopePut, scopeGet, hq, ih]

theorem get_put_other (s : Scope) (p u p' : Name) (h : p' ≠ p) : scopeGet (scopePut s p u) p' = scopeGet s p' := by
  induction s with
  | nil => simp [scopePut, scopeGet, Ne.symm h]
  | cons hd t ih =>
    obtain ⟨q, v⟩ := hd
    by_cases hq : q = p
    · subst hq
      simp [scopePut, scopeGet, Ne.symm h]
    · by_cases hq' : q = p'
      · subst hq'
        simp [scopePut, scopeGet, h]
      · simp [scopePut, scopeGet, hq, hq', ih]

theorem resolve_cons (s : Scope) (rest : List Scope) (p : Name) :
    resolve (s :: rest) p = (match scopeGet s p with | some u => some u | none => resolve rest p) := rfl

/-- the prefix → namespace uses of one element do not contradict each other -/
def Consistent (uses : List Use) : Prop := ∀ x ∈ uses, ∀ y ∈ uses, x.1 = y.1 → x.2 = y.2

theorem foldl_inv (stack : List Scope) : ∀ (todo done : List Use) (st : St),
    Consistent (done ++ todo) →
    (∀ x ∈ done, resolve (st.scope :: stack) x.1 = some x.2) →
    ∀ x ∈ done ++ todo, resolve ((todo.foldl (step stack) st).scope :: stack) x.1 = some x.2 := by
  intro todo
  induction todo with
  | nil => intro done st _ h x hx; simpa using h x (by simpa using hx)
  | cons y t ih =>
    intro done st hc h x hx
    have hc' : Consistent ((done ++ [y]) ++ t) := by simpa using hc
    have hx' : x ∈ (done ++ [y]) ++ t := by simpa using hx
    simp only [List.foldl_cons]
    refine ih (done ++ [y]) (step stack st y) hc' ?_ x hx'
    intro z hz
    rcases List.mem_append.1 hz with hz | hz
    · -- an earlier use keeps its binding
      unfold step
      by_cases ha : isNamespaceBindingActive (st.scope :: stack) y.1 y.2 = true
      · simp [ha, h z hz]
      · simp only [ha, Bool.false_eq_true, if_false]
        by_cases hp : z.1 = y.1
        · have : z.2 = y.2 := hc z (by simp [hz]) y (by simp) hp
          rw [resolve_cons, hp, get_put_same, this]
        · have := h z hz
          rw [resolve_cons] at this ⊢
          rw [get_put_other _ _ _ _ hp]; exact this
    · simp at hz; subst hz
      unfold step
      by_cases ha : isNamespaceBindingActive (st.scope :: stack) z.1 z.2 = true
      · simp only [ha, if_true]
        rw [active_iff] at ha; simpa using ha
      · simp only [ha, Bool.false_eq_true, if_false]
        rw [resolve_cons, get_put_same]

end XV.Lemmas.NsFixup
