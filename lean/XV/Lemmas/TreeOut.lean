/- Lemmas for C12 (whole trees): the serializer model writes `U (render …)` of the concrete syntax tree `toNodes`. -/
import XV.Lemmas.TreeScan
namespace XV.Lemmas.TreeOut
open XV.Model.TreeSyntax XV.Model.Formatter XV.Model.Cdata XV.Spec.Escaping XV.Gen.Escapes
open XV.Model.Serializer (node nodes attrOut rawF rawCR seqL document Env invalid ensureValidString)
open XV.Lemmas.TreeUnits XV.Lemmas.TreeScan XV.Lemmas.Formatter XV.Lemmas.Serializer
open XV.Spec.Xml

set_option maxRecDepth 8000

/-- the characters `render` prints for a list of nodes -/
def renderNodes (ns : List Node) : Str := renderToks (Node.toksL ns)

theorem renderToks_append (a b : List Tok) : renderToks (a ++ b) = renderToks a ++ renderToks b := by
  induction a with
  | nil => rfl
  | cons t r ih => simp [renderToks, ih]

theorem toksL_append (a b : List Node) : Node.toksL (a ++ b) = Node.toksL a ++ Node.toksL b := by
  induction a with
  | nil => rfl
  | cons n r ih => simp only [List.cons_append, Node.toksL, ih, List.append_assoc]

theorem renderNodes_append (a b : List Node) : renderNodes (a ++ b) = renderNodes a ++ renderNodes b := by
  simp [renderNodes, toksL_append, renderToks_append]

theorem renderNodes_leaves (ls : List Leaf) : renderNodes (ls.map Node.leaf) = renderLeaves ls := by
  induction ls with
  | nil => rfl
  | cons l r ih =>
    simp only [renderNodes, List.map_cons, Node.toksL, Node.toks, List.cons_append, List.nil_append, renderToks, renderTok,
      renderLeaves] at ih ⊢
    rw [ih]

/-! ### the literals of the serializer, as characters -/

theorem lits :
    gStartPI = U ['<', '?'] ∧ gEndPI = U ['?', '>'] ∧ gStartComment = U ['<', '!', '-', '-'] ∧
    gEndComment = U ['-', '-', '>'] ∧ gStartCDATA = U ['<', '!', '[', 'C', 'D', 'A', 'T', 'A', '['] ∧
    gEndCDATA = U [']', ']', '>'] ∧ gEndElement = U ['<', '/'] := by decide

theorem U_isEmpty (s : Str) : (U s).isEmpty = s.isEmpty := by
  cases s with
  | nil => rfl
  | cons c t =>
    rw [U_cons]
    rcases units_cases c with ⟨_, h2, _, _⟩ | ⟨hh, l, h2, _, _, _, _⟩ <;> rw [h2] <;> rfl

/-! ### escaped text: what `render` prints -/

theorem render_refLeaf (c : Char) : renderLeaf (refLeaf c) = asciiStr (refText c.toNat) := by
  unfold refLeaf refText
  by_cases h1 : c.toNat = 38
  · simp [h1]; decide
  by_cases h2 : c.toNat = 39
  · simp [h2]; decide
  by_cases h3 : c.toNat = 34
  · simp [h3]; decide
  by_cases h4 : c.toNat = 62
  · simp [h4]; decide
  by_cases h5 : c.toNat = 60
  · simp [h5]; decide
  simp [h1, h2, h3, h4, h5, renderLeaf, renderCharRef, charRefText, asciiStr, hexStr]

theorem render_refPiece (c : Char) : renderPiece (refPiece c) = asciiStr (refText c.toNat) := by
  unfold refPiece refText
  by_cases h1 : c.toNat = 38
  · simp [h1]; decide
  by_cases h2 : c.toNat = 39
  · simp [h2]; decide
  by_cases h3 : c.toNat = 34
  · simp [h3]; decide
  by_cases h4 : c.toNat = 62
  · simp [h4]; decide
  by_cases h5 : c.toNat = 60
  · simp [h5]; decide
  simp [h1, h2, h3, h4, h5, renderPiece, renderCharRef, charRefText, asciiStr, hexStr]

theorem render_text (cfg : Cfg) (v : Str) : renderLeaves (v.map (textLeaf cfg)) = escStr cfg .CharEscapes v := by
  induction v with
  | nil => rfl
  | cons c t ih =>
    simp only [List.map_cons, renderLeaves, ih, escStr, List.flatMap_cons]
    congr 1
    unfold textLeaf
    split
    · exact render_refLeaf c
    · rfl

theorem render_attval (cfg : Cfg) (v : Str) : renderPieces (v.map (attPiece cfg)) = escStr cfg .AttrEscapes v := by
  induction v with
  | nil => rfl
  | cons c t ih =>
    simp only [List.map_cons, renderPieces, ih, escStr, List.flatMap_cons]
    congr 1
    unfold attPiece
    split
    · exact render_refPiece c
    · rfl


/-! ### CDATA sections -/

theorem raw_U (cd : Coder) (ht : Transparent cd) (s : Str) : raw cd (U s) = .ok (U s) := by
  unfold raw
  exact handle_ok cd _ _ (nameOK_U cd ht s).1 (nameOK_U cd ht s).2

theorem unrepLoop_rep (cd : Coder) (ht : Transparent cd) : ∀ (piece run : List Nat), (∀ u ∈ piece, u < 65536) →
    unrepLoop cd piece run = flushCdata cd (run ++ piece) := by
  intro piece
  induction piece with
  | nil => intro run _; simp [unrepLoop]
  | cons c t ih =>
    intro run h
    simp only [unrepLoop, (ht.all c (h c (by simp))).1, if_true]
    rw [ih (run ++ [c]) (fun u hu => h u (by simp [hu]))]
    simp

theorem writePiece_U (cd : Coder) (ht : Transparent cd) (p : Str) :
    writePiece cd (U p) = .ok (U (renderLeaf (.cdata p))) := by
  unfold writePiece
  rw [U_isEmpty]
  cases p with
  | nil =>
    simp only [List.isEmpty_nil, if_true, lits.2.2.2.2.1, lits.2.2.2.2.2.1, ← U_append]
    rw [raw_U cd ht]; rfl
  | cons c t =>
    simp only [List.isEmpty_cons, Bool.false_eq_true, if_false, procUnrep]
    rw [unrepLoop_rep cd ht _ _ (U_lt _)]
    simp only [List.nil_append, flushCdata, U_isEmpty, List.isEmpty_cons, Bool.false_eq_true, if_false]
    rw [lits.2.2.2.2.1, lits.2.2.2.2.2.1, raw_U cd ht, raw_U cd ht]
    have : handleUnEscapedChars cd .UnRep_Fail (U (c :: t)) = .ok (U (c :: t)) :=
      handle_ok cd _ _ (nameOK_U cd ht _).1 (nameOK_U cd ht _).2
    rw [this]
    have hr : renderLeaf (.cdata (c :: t)) = ['<', '!', '[', 'C', 'D', 'A', 'T', 'A', '['] ++ (c :: t) ++ [']', ']', '>'] := rfl
    rw [hr, U_append, U_append]
    simp [seq3]

theorem seqAll_pieces (cd : Coder) (ht : Transparent cd) (ps : List Str) :
    seqAll ((ps.map U).map (writePiece cd)) = .ok (U (renderLeaves (ps.map Leaf.cdata))) := by
  induction ps with
  | nil => rfl
  | cons p r ih =>
    simp only [List.map_cons, seqAll, seq2, writePiece_U cd ht p, ih, seq3, renderLeaves, U_append]
    simp

theorem cdata_U (cd : Coder) (ht : Transparent cd) (v : Str) :
    procCdataFixed cd (U v) = .ok (U (renderLeaves ((splitFixedC v []).map Leaf.cdata))) := by
  unfold procCdataFixed
  have := splitFixed_U v []
  rw [U_nil] at this
  rw [this, seqAll_pieces cd ht]

/-! ### names are made of legal characters -/

theorem nameChar_legal (v11 : Bool) (c : Char) (h : isNameCharC c = true) : legalC v11 c = true := by
  unfold isNameCharC XV.Spec.XmlChar.isNameChar at h
  unfold legalC
  cases v11 <;>
  simp [ver, XV.Spec.XmlChar.isLiteralChar, XV.Spec.XmlChar.literalSet, XV.Spec.XmlChar.CSet.mem, XV.Spec.XmlChar.inRanges,
    XV.Spec.XmlChar.char10, XV.Spec.XmlChar.char11, XV.Spec.XmlChar.restricted11, XV.Spec.XmlChar.inR,
    XV.Spec.XmlChar.nameStart, XV.Spec.XmlChar.nameCharExtra, ← Bool.not_eq_true, Nat.ble_eq] at h ⊢ <;> omega

theorem name_legal (v11 : Bool) (n : Str) (h : isName n = true) : n.all (legalC v11) = true := by
  cases n with
  | nil => simp [isName] at h
  | cons c t =>
    simp only [isName, Bool.and_eq_true] at h
    have h1 : isNameCharC c = true := by
      have := h.1
      unfold isNameStartC at this
      unfold isNameCharC XV.Spec.XmlChar.isNameChar
      unfold XV.Spec.XmlChar.isNameStart at this
      simp [this]
    simp only [List.all_cons, Bool.and_eq_true, nameChar_legal v11 c h1, true_and]
    rw [List.all_eq_true] at h ⊢
    intro x hx
    exact nameChar_legal v11 x (h.2 x hx)


/-! ### the serializer writes the rendering of `toNodes` -/

/-- the serializer as it is in the repository now: split-cdata-sections on, the repaired CDATA branch, the
well-formedness checks of comments and PIs -/
structure Fixed (e : Env) : Prop where
  split : e.feat.splitCdata = true
  cdata : e.feat.cdataFix = true
  wf : e.feat.wfFix = true

theorem attr_out (e : Env) (ht : Transparent e.cd) (a : Str × Str) (h : okAttr e.cfg.xml11 a = true) :
    attrOut e (U a.1, U a.2) = .ok (U (renderAttr (toAttr e.cfg a))) := by
  simp only [okAttr, Bool.and_eq_true] at h
  have hv := ensureValid_U e.cfg.xml11 a.2 h.2
  have e1 : [32] ++ U a.1 ++ [61, 34] = U ([' '] ++ a.1 ++ ['=', '"']) := by rw [U_append, U_append]; rfl
  have e2 : ([34] : List Nat) = U ['"'] := rfl
  unfold attrOut
  simp only [hv, Bool.not_true, Bool.false_eq_true, if_false, seqL, seq2]
  rw [e1, e2, rawCR_U e ht, rawCR_U e ht, formatBuf_U e.cd ht]
  have hr : renderAttr (toAttr e.cfg a) = [' '] ++ a.1 ++ ['=', '"'] ++ escStr e.cfg .AttrEscapes a.2 ++ ['"'] := by
    simp [renderAttr, toAttr, sp1, eq0, renderEq, renderQuoted, Quote.char, render_attval]
  rw [hr]
  simp [seq3, U_append, U_cons, U_nil, scalarUnits]

theorem attrs_out (e : Env) (ht : Transparent e.cd) : ∀ (as : List (Str × Str)), as.all (okAttr e.cfg.xml11) = true →
    seqL ((unitsAttrs as).map (attrOut e)) = .ok (U (renderAttrs (toAttrs e.cfg as))) := by
  intro as
  induction as with
  | nil => intro _; rfl
  | cons a t ih =>
    intro h
    simp only [List.all_cons, Bool.and_eq_true] at h
    simp only [unitsAttrs, List.map_cons, seqL, seq2, attr_out e ht a h.1, ih h.2, toAttrs, renderAttrs, U_append]
    simp [seq3]

theorem unitsNodes_isEmpty (ks : List CNode) : (unitsNodes ks).isEmpty = ks.isEmpty := by
  cases ks <;> simp [unitsNodes]

mutual
theorem node_out (e : Env) (ht : Transparent e.cd) (hf : Fixed e) :
    (n : CNode) → okNode e.cfg.xml11 n = true → node e (unitsNode n) = .ok (U (renderNodes (toNodes e.cfg n)))
  | .text v, h => by
    simp only [okNode] at h
    simp only [unitsNode, node, ensureValid_U e.cfg.xml11 v h, Bool.not_true, Bool.false_eq_true, if_false, toNodes]
    rw [formatBuf_U e.cd ht]
    have : v.map (fun c => Node.leaf (textLeaf e.cfg c)) = (v.map (textLeaf e.cfg)).map Node.leaf := by simp
    rw [this, renderNodes_leaves, render_text]
  | .cdata v, h => by
    simp only [okNode, Bool.and_eq_true] at h
    simp only [unitsNode, node, hf.split, hf.cdata, if_true, ensureValid_U e.cfg.xml11 v h.1, Bool.not_true,
      Bool.false_eq_true, if_false, toNodes]
    rw [cdata_U e.cd ht]
    have : (splitFixedC v []).map (fun p => Node.leaf (.cdata p)) = ((splitFixedC v []).map Leaf.cdata).map Node.leaf := by simp
    rw [this, renderNodes_leaves]
  | .comment v, h => by
    simp only [okNode, Bool.and_eq_true] at h
    have h1 := noEarly_units '-' '-' (by decide) (by decide) v h.2
    have h2 := noEarly_last '-' (by decide) v h.2
    have h1' : XV.Model.Serializer.containsSub [45, 45] (U v) = false := h1
    have h2' : ((U v).getLast? == some 45) = false := by
      cases hg : ((U v).getLast? == some 45) with
      | false => rfl
      | true => exact absurd (by simpa using hg) h2
    simp only [unitsNode, node, ensureValid_U e.cfg.xml11 v h.1.1, Bool.not_true, Bool.false_eq_true, if_false, hf.wf, h1', h2',
      Bool.or_self, Bool.and_false, toNodes]
    rw [lits.2.2.1, lits.2.2.2.1, ← U_append, ← U_append, rawF_U e ht]
    simp [renderNodes, Node.toksL, Node.toks, renderToks, renderTok, renderLeaf]
  | .pi t d, h => by
    simp only [okNode, Bool.and_eq_true] at h
    obtain ⟨⟨⟨⟨⟨hn, _⟩, hl⟩, _⟩, he⟩, _⟩ := h
    have hv1 := ensureValid_U e.cfg.xml11 t (name_legal e.cfg.xml11 t hn)
    have hv2 := ensureValid_U e.cfg.xml11 d hl
    have h1 : XV.Model.Serializer.containsSub gEndPI (U d) = false := by
      have := noEarly_units '?' '>' (by decide) (by decide) d he
      exact this
    simp only [unitsNode, node, hv1, hv2, Bool.not_true, Bool.or_self, Bool.false_eq_true, if_false, hf.wf, h1, Bool.and_false,
      toNodes, U_isEmpty]
    have e1 : gStartPI ++ U t ++ (if d.isEmpty then [] else [32] ++ U d) ++ gEndPI =
        U (['<', '?'] ++ t ++ (if d.isEmpty then [] else sp1) ++ d ++ ['?', '>']) := by
      rw [lits.1, lits.2.1]
      cases d with
      | nil => simp [U_append, U_cons, U_nil, scalarUnits]
      | cons c r =>
        simp only [List.isEmpty_cons, Bool.false_eq_true, if_false, U_append]
        simp [sp1, U_cons, U_nil, scalarUnits]
    rw [e1, rawF_U e ht]
    simp [renderNodes, Node.toksL, Node.toks, renderToks, renderTok, renderLeaf]
  | .elem n as kids, h => by
    simp only [okNode, Bool.and_eq_true] at h
    obtain ⟨⟨⟨hn, has⟩, _⟩, hk⟩ := h
    have e1 : [60] ++ U n = U (['<'] ++ n) := by rw [U_append]; rfl
    have e2 : ([47, 62] : List Nat) = U ['/', '>'] := rfl
    have e3 : ([62] : List Nat) = U ['>'] := rfl
    have e4 : gEndElement ++ U n ++ [62] = U (['<', '/'] ++ n ++ ['>']) := by rw [lits.2.2.2.2.2.2, U_append, U_append]; rfl
    simp only [unitsNode, node, seqL, seq2, unitsNodes_isEmpty]
    rw [e1, rawF_U e ht, attrs_out e ht as has]
    cases kids with
    | nil =>
      simp only [List.isEmpty_nil, if_true, e2, rawF_U e ht, toNodes, mkElem]
      simp [seq3, renderNodes, Node.toksL, Node.toks, renderToks, renderTok, renderTagOpen, U_append, U_cons, U_nil, scalarUnits]
    | cons k ks =>
      have ih := nodes_out e ht hf (k :: ks) hk
      simp only [List.isEmpty_cons, Bool.false_eq_true, if_false]
      rw [e4, e3, rawCR_U e ht, rawF_U e ht, ih]
      simp [seq3, toNodes, mkElem, renderNodes, Node.toksL, Node.toks, renderToks, renderTok, renderTagOpen, renderETag, U_append, U_cons,
        U_nil, scalarUnits, renderToks_append]
theorem nodes_out (e : Env) (ht : Transparent e.cd) (hf : Fixed e) :
    (ns : List CNode) → okNodes e.cfg.xml11 ns = true → nodes e (unitsNodes ns) = .ok (U (renderNodes (toNodesL e.cfg ns)))
  | [], _ => rfl
  | n :: t, h => by
    simp only [okNodes, Bool.and_eq_true] at h
    simp only [unitsNodes, nodes, seq2, node_out e ht hf n h.1, nodes_out e ht hf t h.2, toNodesL, renderNodes_append, U_append]
    simp [seq3]
end


/-! ### the document -/

theorem declLits :
    gXMLDecl_VersionInfo = U ['<', '?', 'x', 'm', 'l', ' ', 'v', 'e', 'r', 's', 'i', 'o', 'n', '=', '"'] ∧
    gXMLDecl_separator = U ['"', ' '] ∧
    gXMLDecl_EncodingDecl = U ['e', 'n', 'c', 'o', 'd', 'i', 'n', 'g', '=', '"'] ∧
    gXMLDecl_SDDecl = U ['s', 't', 'a', 'n', 'd', 'a', 'l', 'o', 'n', 'e', '=', '"'] ∧
    gXMLDecl_endtag = U ['?', '>'] ∧ ([49, 46, 49] : List Nat) = U ['1', '.', '1'] ∧ ([49, 46, 48] : List Nat) = U ['1', '.', '0'] ∧
    ([110, 111] : List Nat) = U ['n', 'o'] := by decide

theorem render_toDoc (cfg : Cfg) (xd : Bool) (enc n : Str) (as : List (Str × Str)) (kids : List CNode) :
    render (toDoc cfg xd enc n as kids) =
      (if xd then renderXmlDecl (toDecl cfg enc) else []) ++ renderNodes (toNodes cfg (.elem n as kids)) := by
  cases xd <;> simp [render, toDoc, Doc.toks, renderNodes, toNodes, Node.toksL]

theorem render_toDecl (cfg : Cfg) (enc : Str) :
    renderXmlDecl (toDecl cfg enc) =
      ['<', '?', 'x', 'm', 'l', ' ', 'v', 'e', 'r', 's', 'i', 'o', 'n', '=', '"'] ++ (if cfg.xml11 then ['1', '.', '1'] else ['1', '.', '0']) ++
      ['"', ' '] ++ ['e', 'n', 'c', 'o', 'd', 'i', 'n', 'g', '=', '"'] ++ enc ++ ['"', ' '] ++
      ['s', 't', 'a', 'n', 'd', 'a', 'l', 'o', 'n', 'e', '=', '"'] ++ ['n', 'o'] ++ ['"', ' '] ++ ['?', '>'] := by
  cases h : cfg.xml11 <;>
    simp [renderXmlDecl, toDecl, pseudo, sp1, eq0, renderPseudo, renderEq, renderQuoted, Quote.char, h]

/-- **what the serializer writes for a document**: the UTF-16 units of the rendering of `toDoc` -/
theorem document_out (e : Env) (ht : Transparent e.cd) (hf : Fixed e) (enc n : Str) (as : List (Str × Str))
    (kids : List CNode) (henc : e.encName = U enc) (hok : okNode e.cfg.xml11 (.elem n as kids) = true) :
    document e false [unitsNode (.elem n as kids)] = .ok (U (render (toDoc e.cfg e.feat.xmlDecl enc n as kids))) := by
  have hn := node_out e ht hf (.elem n as kids) hok
  rw [render_toDoc]
  unfold document
  simp only [nodes, seq2, hn]
  cases hx : e.feat.xmlDecl with
  | false => simp [seq3]
  | true =>
    simp only [if_true, seqL, seq2, Bool.false_eq_true, if_false]
    rw [declLits.1, declLits.2.1, declLits.2.2.1, declLits.2.2.2.1, declLits.2.2.2.2.1, declLits.2.2.2.2.2.2.2, henc,
      render_toDecl]
    cases hv : e.cfg.xml11 with
    | false =>
      simp only [Bool.false_eq_true, if_false]
      rw [declLits.2.2.2.2.2.2.1]
      simp only [rawCR_U e ht, seq3, U_append]
      simp
    | true =>
      simp only [if_true]
      rw [declLits.2.2.2.2.2.1]
      simp only [rawCR_U e ht, seq3, U_append]
      simp

end XV.Lemmas.TreeOut
