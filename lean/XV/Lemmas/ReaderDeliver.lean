/-
C04 helper lemmas, part 3: getNextChar (with handleEOL) hands out exactly the end-of-line
normalised head of `pend`, repeated getNextChar hands out all of it (or a prefix of it followed by
the exception that the whole-input reading ends with), positions are a function of what was handed
out, and what the constructors leave to be delivered.
-/
import XV.Lemmas.ReaderInv
namespace XV.Lemmas.ReaderDeliver
open XV.Gen.ReaderConsts
open XV.Model.Utf8 XV.Model.Reader XV.Spec.Reader XV.Lemmas.ReaderDec XV.Lemmas.ReaderInv
set_option maxRecDepth 8000

/-- the semantic invariant carried through repeated getNextChar -/
structure SInv (r : Reader) : Prop where
  inv : Inv r
  clean : Clean r.stream
  pe : r.pe = false
  nomore : NoMoreOK r
  cb : 2 ≤ r.cfg.charBufSize
  rb : 6 ≤ r.cfg.rawBufSize

/-! ### end-of-line normalisation -/

theorem eolMask_spec (c : Nat) (h : (c &&& eolMask) ≠ 0) :
    c ≠ chCR ∧ c ≠ chLF ∧ c ≠ chNEL ∧ c ≠ chLineSeparator := by
  refine ⟨?_, ?_, ?_, ?_⟩ <;> (intro hc; subst hc; exact h (by decide))

theorem normOne_plain (nel : Bool) (c : Nat) (h1 : c ≠ chCR) (h2 : c ≠ chNEL) (h3 : c ≠ chLineSeparator) :
    normOne nel c = c := by
  unfold normOne; simp [h1, h2, h3]

theorem normEOL_cons_ne (nel : Bool) (c : Nat) (t : List Nat) (h : c ≠ chCR) :
    normEOL nel (c :: t) = normOne nel c :: normEOL nel t := by
  rcases t with _ | ⟨d, t'⟩
  · rfl
  · simp [normEOL, h]

theorem normEOL_cr_nil (nel : Bool) : normEOL nel [chCR] = [chLF] := by
  simp [normEOL, normOne]

theorem normEOL_cr_cons (nel : Bool) (d : Nat) (t : List Nat) :
    normEOL nel (chCR :: d :: t) =
      if d = chLF ∨ (d = chNEL ∧ nel = true) then chLF :: normEOL nel t else chLF :: normEOL nel (d :: t) := by
  by_cases h : d = chLF ∨ (d = chNEL ∧ nel = true)
  · simp [normEOL, h]
  · simp [normEOL, h, normOne]

/-! ### small state updates -/

theorem advance_facts (r : Reader) (c : Nat) (w : List Nat) (hw : r.charWin = c :: w) (hinv : Inv r) :
    r.curChar = c ∧ Inv r.advance ∧ Same r r.advance ∧ r.advance.charWin = w ∧
    bytes r.advance = bytes r ∧ r.advance.stream = r.stream ∧ r.advance.noMore = r.noMore ∧
    r.advance.charIdx = r.charIdx + 1 ∧ r.advance.charsAvail = r.charsAvail := by
  have h1 := hinv.char_len
  have h2 := hinv.size_len
  rw [hw] at h1 h2
  refine ⟨by simp [Reader.curChar, hw], ?_, ⟨rfl, rfl, rfl, rfl, rfl, rfl, rfl, rfl⟩, by simp [Reader.advance, hw],
    rfl, rfl, rfl, rfl, rfl⟩
  refine ⟨hinv.raw_len, hinv.raw_le, ?_, hinv.char_le, ?_, hinv.fuel_ok⟩
  · simp only [Reader.advance, hw, List.tail_cons]; simp only [List.length_cons] at h1; omega
  · simp only [Reader.advance, hw, List.tail_cons, List.length_tail]; simp only [List.length_cons] at h2; omega

/-- `r` with another line/column -/
def setPos (r : Reader) (l c : Nat) : Reader := { r with line := l, col := c }

theorem setPos_inv (r : Reader) (l c : Nat) (h : Inv r) : Inv (setPos r l c) :=
  ⟨h.raw_len, h.raw_le, h.char_len, h.char_le, h.size_len, h.fuel_ok⟩

theorem setPos_pend (r : Reader) (l c : Nat) : pend (setPos r l c) = pend r := rfl

theorem setPos_sinv (r : Reader) (l c : Nat) (h : SInv r) : SInv (setPos r l c) :=
  ⟨setPos_inv r l c h.inv, h.clean, h.pe, h.nomore, h.cb, h.rb⟩

/-- what one successful getNextChar does to `pend` and to the position -/
structure Step (r r' : Reader) (c : Nat) : Prop where
  sinv : SInv r'
  nel : r'.nel = r.nel
  external : r'.external = r.external
  chars : deliver r.nel r.external (pend r).1 = c :: deliver r.nel r.external (pend r').1
  ending : (pend r').2 = (pend r).2
  shorter : (pend r').1.length < (pend r).1.length
  pos : (r'.line, r'.col) = posStep (r.line, r.col) c

theorem pend_of_win (r : Reader) (c : Nat) (w : List Nat) (hw : r.charWin = c :: w) :
    (pend r).1 = c :: (w ++ (decodeAll (encOf r) (bytes r)).1) := by
  unfold pend; rw [hw]; rfl

/-- eatLF on a reader whose window is known -/
theorem eatLF_cases (r : Reader) (d : Nat) (w : List Nat) (hw : r.charWin = d :: w) (hinv : Inv r) :
    (d = chLF ∨ (d = chNEL ∧ r.nel = true) → eatLF r = r.advance) ∧
    (¬ (d = chLF ∨ (d = chNEL ∧ r.nel = true)) → eatLF r = r) := by
  have hc : r.curChar = d := by simp [Reader.curChar, hw]
  unfold eatLF
  rw [hc]
  constructor
  · intro h
    have : (d == chLF || (d == chNEL && r.nel)) = true := by
      rcases h with h | ⟨h1, h2⟩
      · simp [h]
      · simp [h1, h2]
    rw [if_pos this]
  · intro h
    have : ¬ ((d == chLF || (d == chNEL && r.nel)) = true) := by
      intro hh
      apply h
      simp only [Bool.or_eq_true, beq_iff_eq, Bool.and_eq_true] at hh
      exact hh
    rw [if_neg this]

/-- after a CR has been taken: look at the next character (already in the window) -/
theorem afterCR_window (r : Reader) (h : SInv r) (hext : r.external = true) (d : Nat) (w : List Nat)
    (hw : r.charWin = d :: w) :
    SInv (eatLF r) ∧ (eatLF r).nel = r.nel ∧ (eatLF r).external = r.external ∧
    normEOL r.nel (chCR :: (pend r).1) = chLF :: normEOL r.nel (pend (eatLF r)).1 ∧
    (pend (eatLF r)).2 = (pend r).2 ∧ (pend (eatLF r)).1.length ≤ (pend r).1.length ∧
    (eatLF r).line = r.line ∧ (eatLF r).col = r.col := by
  obtain ⟨e1, e2⟩ := eatLF_cases r d w hw h.inv
  obtain ⟨a1, a2, a3, a4, a5, a6, a7, a8, a9⟩ := advance_facts r d w hw h.inv
  have hp := pend_of_win r d w hw
  by_cases hd : d = chLF ∨ (d = chNEL ∧ r.nel = true)
  · rw [e1 hd]
    have hpa : pend r.advance = (w ++ (decodeAll (encOf r) (bytes r)).1, (decodeAll (encOf r) (bytes r)).2) := by
      unfold pend; rw [a4, a3.enc, a5]
    have hnm : NoMoreOK r.advance := by
      intro hn
      rw [a7] at hn
      have := h.nomore hn
      rw [this] at hp
      simp at hp
    refine ⟨⟨a2, by rw [a6]; exact h.clean, by rw [a3.pe]; exact h.pe, hnm, by rw [a3.cfg]; exact h.cb,
      by rw [a3.cfg]; exact h.rb⟩, a3.nel, a3.external, ?_, ?_, ?_, a3.line, a3.col⟩
    · rw [hp, normEOL_cr_cons, if_pos hd, hpa]
    · rw [hpa]; rfl
    · rw [hpa, hp]; simp
  · rw [e2 hd]
    refine ⟨h, rfl, rfl, ?_, rfl, Nat.le_refl _, rfl, rfl⟩
    rw [hp, normEOL_cr_cons, if_neg hd]

theorem handleEOL_eq (r : Reader) (c : Nat) : handleEOL r c =
    if (c == chCR) = true then
      (if r.external = true then
        (if r.charIdx < r.charsAvail then .ok chLF (eatLF (setPos r (r.line + 1) 1))
         else match refreshCharBuffer (setPos r (r.line + 1) 1) with
          | .fuelOut => .fuelOut
          | .exc e => .exc e (setPos r (r.line + 1) 1)
          | .ok true r' => .ok chLF (eatLF r')
          | .ok false r' => .ok chLF r')
       else .ok c (setPos r (r.line + 1) 1))
    else if (c == chLF) = true then .ok c (setPos r (r.line + 1) 1)
    else if (c == chNEL || c == chLineSeparator) = true then
      (if (r.nel && r.external) = true then .ok chLF (setPos r (r.line + 1) 1) else .ok c r)
    else .ok c (setPos r r.line (r.col + 1)) := rfl

theorem takeChar_eq (r : Reader) : takeChar r =
    if ((r.curChar &&& eolMask) != 0) = true then .char r.curChar (setPos r.advance r.advance.line (r.advance.col + 1))
    else match handleEOL r.advance r.curChar with
      | .ok c r => .char c r
      | .exc e r => .exc e r
      | .fuelOut => .fuelOut := rfl

theorem takeChar_spec (r : Reader) (h : SInv r) (c : Nat) (w : List Nat) (hw : r.charWin = c :: w) :
    match takeChar r with
    | .char c' r' => Step r r' c'
    | .eof _ => False
    | .exc e _ => (pend r).2 = .exc e
    | .fuelOut => False := by
  obtain ⟨a1, a2, a3, a4, a5, a6, a7, a8, a9⟩ := advance_facts r c w hw h.inv
  have hp := pend_of_win r c w hw
  have hpa : pend r.advance = (w ++ (decodeAll (encOf r) (bytes r)).1, (decodeAll (encOf r) (bytes r)).2) := by
    unfold pend; rw [a4, a3.enc, a5]
  have hpa1 : (pend r).1 = c :: (pend r.advance).1 := by rw [hp, hpa]
  have hpa2 : (pend r.advance).2 = (pend r).2 := by rw [hpa]; rfl
  have hnm : NoMoreOK r.advance := by
    intro hn
    rw [a7] at hn
    have := h.nomore hn
    rw [this] at hp
    simp at hp
  have hs1 : SInv r.advance := ⟨a2, by rw [a6]; exact h.clean, by rw [a3.pe]; exact h.pe, hnm,
    by rw [a3.cfg]; exact h.cb, by rw [a3.cfg]; exact h.rb⟩
  have hlen : (pend r.advance).1.length < (pend r).1.length := by rw [hpa1]; simp
  -- delivering a character that needs no look-ahead
  have plain : ∀ (c' : Nat) (l k : Nat), c ≠ chCR →
      (r.external = true → normOne r.nel c = c') → (r.external = false → c = c') →
      (l, k) = posStep (r.line, r.col) c' → Step r (setPos r.advance l k) c' := by
    intro c' l k hcr hn hi hpos
    refine ⟨setPos_sinv _ _ _ hs1, a3.nel, a3.external, ?_, ?_, ?_, hpos⟩
    · rw [setPos_pend, hpa1]
      unfold deliver
      cases hx : r.external
      · simp only [Bool.false_eq_true, if_false]; rw [hi hx]
      · simp only [if_true]; rw [normEOL_cons_ne _ _ _ hcr, hn hx]
    · rw [setPos_pend]; exact hpa2
    · rw [setPos_pend]; exact hlen
  rw [takeChar_eq, a1]
  by_cases hm : ((c &&& eolMask) != 0) = true
  · -- not an end-of-line candidate
    rw [if_pos hm]
    have hne : (c &&& eolMask) ≠ 0 := by simpa using hm
    obtain ⟨n1, n2, n3, n4⟩ := eolMask_spec c hne
    have hpos : (r.advance.line, r.advance.col + 1) = posStep (r.line, r.col) c := by
      unfold posStep; rw [a3.line, a3.col]; simp [n1, n2, n3, n4]
    exact plain c _ _ n1 (fun _ => normOne_plain _ _ n1 n3 n4) (fun _ => rfl) hpos
  · rw [if_neg hm, handleEOL_eq]
    by_cases hcr : (c == chCR) = true
    · -- carriage return
      have hcr' : c = chCR := by simpa using hcr
      rw [if_pos hcr]
      have hposCR : ((r.advance.line + 1, 1) : Nat × Nat) = posStep (r.line, r.col) chCR := by
        unfold posStep; rw [a3.line]; simp
      have hposLF : ((r.advance.line + 1, 1) : Nat × Nat) = posStep (r.line, r.col) chLF := by
        unfold posStep; rw [a3.line]; simp
      cases hx : r.advance.external
      · -- internal entity: the CR is handed out as it is
        simp only [Bool.false_eq_true, if_false]
        have hx' : r.external = false := by rw [← a3.external]; exact hx
        refine ⟨setPos_sinv _ _ _ hs1, a3.nel, a3.external, ?_, ?_, ?_, by rw [hcr']; exact hposCR⟩
        · rw [setPos_pend, hpa1]; unfold deliver; simp [hx']
        · rw [setPos_pend]; exact hpa2
        · rw [setPos_pend]; exact hlen
      · simp only [if_true]
        have hx' : r.external = true := by rw [← a3.external]; exact hx
        have hs2 : SInv (setPos r.advance (r.advance.line + 1) 1) := setPos_sinv _ _ _ hs1
        -- the delivered list starts with LF and continues with the normalisation of what follows the CR (+LF)
        have hdel : deliver r.nel r.external (pend r).1 = normEOL r.nel (chCR :: (pend r.advance).1) := by
          unfold deliver; rw [hx', hpa1, hcr']; rfl
        by_cases hlt : r.advance.charIdx < r.advance.charsAvail
        · rw [if_pos hlt]
          simp only []
          -- the window is not empty
          have hwne : w ≠ [] := by
            intro hw0
            have := a2.char_len
            rw [a4, hw0] at this
            simp at this
            omega
          obtain ⟨d, w', hdw⟩ := List.exists_cons_of_ne_nil hwne
          have hw2 : (setPos r.advance (r.advance.line + 1) 1).charWin = d :: w' := by
            show r.advance.charWin = _; rw [a4, hdw]
          obtain ⟨b1, b2, b3, b4, b5, b6, b7, b8⟩ := afterCR_window _ hs2 hx d w' hw2
          refine ⟨b1, by rw [b2]; exact a3.nel, by rw [b3]; exact a3.external, ?_, ?_, ?_, ?_⟩
          · rw [hdel]
            have : (setPos r.advance (r.advance.line + 1) 1).nel = r.nel := a3.nel
            rw [this, setPos_pend] at b4
            rw [b4]
            unfold deliver; rw [hx']; rfl
          · rw [b5, setPos_pend]; exact hpa2
          · rw [setPos_pend] at b6; omega
          · rw [b7, b8]; exact hposLF
        · rw [if_neg hlt]
          have hrf := refresh_spec _ hs2.inv hs2.pe
          cases hr : refreshCharBuffer (setPos r.advance (r.advance.line + 1) 1) with
          | fuelOut => rw [hr] at hrf; exact hrf
          | exc e =>
            rw [hr] at hrf
            simp only [] at hrf ⊢
            rw [setPos_pend] at hrf
            rw [← hpa2]
            refine hrf ?_ hs2.rb hs2.clean
            have hz : (setPos r.advance (r.advance.line + 1) 1).charsAvail - (setPos r.advance (r.advance.line + 1) 1).charIdx = 0 := by
              show r.advance.charsAvail - r.advance.charIdx = 0
              omega
            rw [hz]; exact hs2.cb
          | ok more r' =>
            rw [hr] at hrf
            simp only [] at hrf
            obtain ⟨i1, i2, i3, i4, i5, i6, i7⟩ := hrf
            have hs3 : SInv r' := ⟨i1, i3 hs2.clean, by rw [i2.pe]; exact hs2.pe,
              i7 hs2.cb hs2.rb hs2.clean hs2.nomore, by rw [i2.cfg]; exact hs2.cb, by rw [i2.cfg]; exact hs2.rb⟩
            rw [setPos_pend] at i4
            cases more
            · -- nothing follows the CR
              simp only []
              have hnil := hs3.nomore (i5 rfl)
              rw [i4] at hnil
              refine ⟨hs3, by rw [i2.nel]; exact a3.nel, by rw [i2.external]; exact a3.external, ?_, ?_, ?_, ?_⟩
              · rw [hdel, hnil]
                have : pend r' = ([], .eof) := by rw [i4]; exact hnil
                rw [this]
                show normEOL r.nel [chCR] = chLF :: deliver r.nel r.external []
                rw [normEOL_cr_nil]
                unfold deliver; rw [hx']; rfl
              · rw [i4]; exact hpa2
              · rw [i4]; exact hlen
              · rw [i2.line, i2.col]; exact hposLF
            · simp only []
              have hne := i6 rfl (by show r.advance.charsAvail ≤ r.advance.charIdx; omega)
                (by show 0 < r.advance.cfg.charBufSize; have := hs1.cb; omega)
              obtain ⟨d, w', hdw⟩ := List.exists_cons_of_ne_nil hne
              have hx3 : r'.external = true := by rw [i2.external]; exact hx
              obtain ⟨b1, b2, b3, b4, b5, b6, b7, b8⟩ := afterCR_window r' hs3 hx3 d w' hdw
              have hn3 : r'.nel = r.nel := by rw [i2.nel]; exact a3.nel
              refine ⟨b1, by rw [b2]; exact hn3, by rw [b3, i2.external]; exact a3.external, ?_, ?_, ?_, ?_⟩
              · rw [hdel]
                rw [hn3, i4] at b4
                rw [b4]
                unfold deliver; rw [hx']; rfl
              · rw [b5, i4]; exact hpa2
              · rw [i4] at b6; omega
              · rw [b7, b8, i2.line, i2.col]; exact hposLF
    · rw [if_neg hcr]
      have hcr' : c ≠ chCR := by simpa using hcr
      by_cases hlf : (c == chLF) = true
      · rw [if_pos hlf]
        have hlf' : c = chLF := by simpa using hlf
        have hpos : (r.advance.line + 1, 1) = posStep (r.line, r.col) c := by
          unfold posStep; rw [a3.line, hlf']; simp
        refine plain c _ _ hcr' (fun _ => ?_) (fun _ => rfl) hpos
        rw [hlf']; unfold normOne; simp (config := {decide := true})
      · rw [if_neg hlf]
        have hlf' : c ≠ chLF := by simpa using hlf
        by_cases hnl : (c == chNEL || c == chLineSeparator) = true
        · rw [if_pos hnl]
          have hnl' : c = chNEL ∨ c = chLineSeparator := by simpa using hnl
          by_cases hne : (r.advance.nel && r.advance.external) = true
          · rw [if_pos hne]
            have hne' : r.nel = true ∧ r.external = true := by
              rw [a3.nel, a3.external] at hne; simpa using hne
            have hpos : (r.advance.line + 1, 1) = posStep (r.line, r.col) chLF := by
              unfold posStep; rw [a3.line]; simp
            refine plain chLF _ _ hcr' (fun _ => ?_) (fun hf => ?_) hpos
            · unfold normOne; simp [hcr', hnl', hne'.1]
            · rw [hne'.2] at hf; cases hf
          · rw [if_neg hne]
            have hne' : ¬ (r.nel = true ∧ r.external = true) := by
              rw [a3.nel, a3.external] at hne; simpa using hne
            have hpos : (r.advance.line, r.advance.col) = posStep (r.line, r.col) c := by
              unfold posStep; rw [a3.line, a3.col]
              have : ¬ (c = chLF ∨ c = chCR) := by
                rcases hnl' with h1 | h1 <;> (rw [h1]; decide)
              simp [this, hnl']
            have := plain c r.advance.line r.advance.col hcr' (fun hx => ?_) (fun _ => rfl) hpos
            · exact this
            · unfold normOne
              have : ¬ r.nel = true := fun hn => hne' ⟨hn, hx⟩
              simp [hcr', this]
        · rw [if_neg hnl]
          have hnl' : c ≠ chNEL ∧ c ≠ chLineSeparator := by simpa using hnl
          have hpos : (r.advance.line, r.advance.col + 1) = posStep (r.line, r.col) c := by
            unfold posStep; rw [a3.line, a3.col]; simp [hcr', hlf', hnl'.1, hnl'.2]
          exact plain c _ _ hcr' (fun _ => normOne_plain _ _ hcr' hnl'.1 hnl'.2) (fun _ => rfl) hpos

theorem getNextChar_eq (r : Reader) : getNextChar r =
    if r.charIdx ≥ r.charsAvail then
      (if r.noMore = true then .eof r
       else match refreshCharBuffer r with
        | .fuelOut => .fuelOut
        | .exc e => .exc e r
        | .ok false r' => .eof r'
        | .ok true r' => takeChar r')
    else takeChar r := rfl

theorem step_transfer (r r' r'' : Reader) (c : Nat) (hp : pend r' = pend r) (hs : Same r r')
    (h : Step r' r'' c) : Step r r'' c :=
  ⟨h.sinv, by rw [h.nel, hs.nel], by rw [h.external, hs.external],
   by have := h.chars; rw [hs.nel, hs.external, hp] at this; exact this,
   by rw [h.ending, hp], by have := h.shorter; rw [hp] at this; exact this,
   by have := h.pos; rw [hs.line, hs.col] at this; exact this⟩

theorem getNextChar_spec (r : Reader) (h : SInv r) :
    match getNextChar r with
    | .char c r' => Step r r' c
    | .eof _ => pend r = ([], .eof)
    | .exc e _ => (pend r).2 = .exc e
    | .fuelOut => False := by
  rw [getNextChar_eq]
  by_cases hge : r.charIdx ≥ r.charsAvail
  · rw [if_pos hge]
    by_cases hnm : r.noMore = true
    · rw [if_pos hnm]; exact h.nomore hnm
    · rw [if_neg hnm]
      have hrf := refresh_spec r h.inv h.pe
      cases hr : refreshCharBuffer r with
      | fuelOut => rw [hr] at hrf; exact hrf
      | exc e =>
        rw [hr] at hrf
        refine hrf ?_ h.rb h.clean
        have hz : r.charsAvail - r.charIdx = 0 := by omega
        rw [hz]; exact h.cb
      | ok more r' =>
        rw [hr] at hrf
        simp only [] at hrf
        obtain ⟨i1, i2, i3, i4, i5, i6, i7⟩ := hrf
        have hs3 : SInv r' := ⟨i1, i3 h.clean, by rw [i2.pe]; exact h.pe,
          i7 h.cb h.rb h.clean h.nomore, by rw [i2.cfg]; exact h.cb, by rw [i2.cfg]; exact h.rb⟩
        cases more
        · simp only []
          rw [← i4]; exact hs3.nomore (i5 rfl)
        · simp only []
          have hne := i6 rfl hge (by have := h.cb; omega)
          obtain ⟨d, w', hdw⟩ := List.exists_cons_of_ne_nil hne
          have := takeChar_spec r' hs3 d w' hdw
          cases ht : takeChar r' with
          | char c r'' => rw [ht] at this; exact step_transfer r r' r'' c i4 i2 this
          | eof _ => rw [ht] at this; exact this.elim
          | exc e _ => rw [ht] at this; simp only [] at this ⊢; rw [← i4]; exact this
          | fuelOut => rw [ht] at this; exact this
  · rw [if_neg hge]
    have hwne : r.charWin ≠ [] := by
      intro hw0
      have := h.inv.char_len
      rw [hw0] at this
      simp at this
      omega
    obtain ⟨d, w', hdw⟩ := List.exists_cons_of_ne_nil hwne
    have := takeChar_spec r h d w' hdw
    cases ht : takeChar r with
    | char c r'' => rw [ht] at this; exact this
    | eof _ => rw [ht] at this; exact this.elim
    | exc e _ => rw [ht] at this; exact this
    | fuelOut => rw [ht] at this; exact this

theorem deliver_nil (nel ext : Bool) : deliver nel ext [] = [] := by
  unfold deliver; cases ext <;> rfl

/-- Repeated getNextChar: everything that is pending, or a prefix of it and the pending error. -/
theorem deliveredLoop_spec : ∀ (fuel : Nat) (r : Reader), SInv r → (pend r).1.length < fuel →
    (deliveredLoop fuel r).2 = (pend r).2 ∧
    (deliveredLoop fuel r).1 <+: deliver r.nel r.external (pend r).1 ∧
    ((pend r).2 = .eof → (deliveredLoop fuel r).1 = deliver r.nel r.external (pend r).1) := by
  intro fuel
  induction fuel with
  | zero => intro r _ h; omega
  | succ fuel ih =>
    intro r hs hlen
    have hg := getNextChar_spec r hs
    unfold deliveredLoop
    cases hgc : getNextChar r with
    | char c r' =>
      rw [hgc] at hg
      simp only [] at hg ⊢
      obtain ⟨j1, j2, j3⟩ := ih r' hg.sinv (by have := hg.shorter; omega)
      rw [hg.nel, hg.external] at j2 j3
      refine ⟨by rw [j1, hg.ending], ?_, ?_⟩
      · rw [hg.chars]; exact List.cons_prefix_cons.mpr ⟨rfl, j2⟩
      · intro he; rw [hg.chars, j3 (by rw [hg.ending]; exact he)]
    | eof r' =>
      rw [hgc] at hg
      simp only [] at hg ⊢
      rw [hg]
      exact ⟨rfl, by rw [deliver_nil]; exact List.prefix_refl _, fun _ => by rw [deliver_nil]⟩
    | exc e r' =>
      rw [hgc] at hg
      simp only [] at hg ⊢
      exact ⟨hg.symm, List.nil_prefix, fun he => by rw [hg] at he; cases he⟩
    | fuelOut => rw [hgc] at hg; exact hg.elim

/-! ### how much is pending: a bound for the default fuel -/

theorem all8_len : ∀ (fuel : Nat) (src : List Nat), (all8 fuel src).1.length ≤ src.length := by
  intro fuel
  induction fuel with
  | zero => intro src; simp [all8]
  | succ f ih =>
    intro src
    rcases src with _ | ⟨b0, rest⟩
    · simp [all8]
    · rw [all8_cons]
      by_cases hb : b0 ≤ 127
      · rw [if_pos hb]; simp only [List.length_cons]; have := ih rest; omega
      · rw [if_neg hb]
        cases hd : decodeStep (b0 :: rest) with
        | more => simp
        | exc e => simp
        | val v n =>
          obtain ⟨h2, hl⟩ := decodeStep_val b0 rest v n hd
          have := ih ((b0 :: rest).drop n)
          simp only [List.length_drop, List.length_cons] at this
          simp only []
          split
          · simp only [List.length_cons]; omega
          · split
            · simp
            · simp only [List.length_cons]; omega

theorem allAscii_len : ∀ (src : List Nat), (allAscii src).1.length ≤ src.length := by
  intro src
  induction src with
  | nil => simp [allAscii]
  | cons b rest ih =>
    unfold allAscii
    split
    · simp only [List.length_cons]; omega
    · simp

theorem decodeAll_len (enc : Enc) (src : List Nat) : (decodeAll enc src).1.length ≤ src.length := by
  cases enc
  · exact all8_len _ _
  · simp [decodeAll]
  · exact allAscii_len _
  · simp only [decodeAll, units16_length]; omega
  · simp only [decodeAll, units16_length]; omega

theorem flatten_len (s : List (List Nat)) : s.flatten.length = streamBytes s := by
  induction s with
  | nil => rfl
  | cons c cs ih => simp only [List.flatten_cons, List.length_append, streamBytes_cons, ih]

theorem pend_len (r : Reader) (h : Inv r) : (pend r).1.length < r.charWin.length + r.rawWin.length + r.fuel := by
  unfold pend
  have h1 := decodeAll_len (encOf r) (bytes r)
  have h2 := h.fuel_ok
  simp only [List.length_append]
  have : (bytes r).length = r.rawWin.length + streamBytes r.stream := by
    unfold bytes; simp only [List.length_append, flatten_len]
  unfold mu at h2
  omega

/-- What `delivered` returns, for every reader satisfying the invariant. -/
theorem delivered_of_sinv (r : Reader) (h : SInv r) :
    (delivered r).2 = (pend r).2 ∧
    (delivered r).1 <+: deliver r.nel r.external (pend r).1 ∧
    ((pend r).2 = .eof → (delivered r).1 = deliver r.nel r.external (pend r).1) :=
  deliveredLoop_spec _ r h (pend_len r h.inv)

/-! ### the forced-encoding constructor -/

theorem mkBase_inv (cfg : Cfg) (nel ext pe : Bool) (s : List (List Nat)) : Inv (mkBase cfg nel ext pe s) :=
  ⟨rfl, Nat.zero_le _, rfl, Nat.zero_le _, rfl, Nat.le_refl _⟩

theorem bomLen_le (enc : Enc) (raw : List Nat) : bomLen enc raw ≤ raw.length := by
  unfold bomLen
  cases enc <;> simp only []
  · split
    · rename_i h; simp only [Bool.and_eq_true, decide_eq_true_eq] at h; omega
    · omega
  · omega
  · omega
  · split
    · omega
    · split <;> omega
  · split
    · omega
    · split <;> omega

/-- the first `readBytes` of a constructor -/
def firstRead (cfg : Cfg) (s : List (List Nat)) : List Nat := (readBytes s cfg.rawBufSize).1

theorem skipRaw_inv (r : Reader) (n : Nat) (h : Inv r) (hn : n ≤ r.rawWin.length) : Inv (skipRaw r n) := by
  have := h.raw_len
  exact ⟨by simp only [skipRaw, List.length_drop]; omega, h.raw_le, h.char_len, h.char_le, h.size_len, h.fuel_ok⟩

theorem mkForced_facts (cfg : Cfg) (enc : Enc) (nel ext : Bool) (s : List (List Nat))
    (hcb : 2 ≤ cfg.charBufSize) (hrb : 6 ≤ cfg.rawBufSize) (hc : Clean s) :
    SInv (mkForced cfg enc nel ext false s) ∧
    (mkForced cfg enc nel ext false s).nel = nel ∧ (mkForced cfg enc nel ext false s).external = ext ∧
    pend (mkForced cfg enc nel ext false s) =
      decodeAll enc (s.flatten.drop (bomLen enc (firstRead cfg s))) := by
  have hb := mkBase_inv cfg nel ext false s
  have h0 := refreshRaw_inv _ hb
  have hw : (refreshRawBuffer (mkBase cfg nel ext false s)).rawWin = firstRead cfg s := by
    rw [refreshRaw_eq]; simp [setRaw, mkBase, firstRead]
  have hst : (refreshRawBuffer (mkBase cfg nel ext false s)).stream = (readBytes s cfg.rawBufSize).2 := by
    rw [refreshRaw_eq]; simp [setRaw, mkBase]
  have hle := bomLen_le enc (firstRead cfg s)
  have h1 := skipRaw_inv _ (bomLen enc (refreshRawBuffer (mkBase cfg nel ext false s)).rawWin) h0 (by rw [hw]; exact hle)
  have hclean : Clean (refreshRawBuffer (mkBase cfg nel ext false s)).stream := by rw [hst]; exact rb_clean _ _ hc
  have hmk : mkForced cfg enc nel ext false s =
      { (skipRaw (refreshRawBuffer (mkBase cfg nel ext false s)) (bomLen enc (refreshRawBuffer (mkBase cfg nel ext false s)).rawWin))
        with enc := enc, xcoder := some enc, forced := true } := rfl
  refine ⟨⟨?_, ?_, ?_, ?_, hcb, hrb⟩, ?_, ?_, ?_⟩
  · rw [hmk]; exact ⟨h1.raw_len, h1.raw_le, h1.char_len, h1.char_le, h1.size_len, h1.fuel_ok⟩
  · rw [hmk]; exact hclean
  · rw [hmk]; rfl
  · rw [hmk]; intro hn; cases hn
  · rw [hmk]; rfl
  · rw [hmk]; rfl
  · rw [hmk]
    unfold pend
    show ([] ++ (decodeAll enc _).1, (decodeAll enc _).2) = _
    have hbytes : bytes { (skipRaw (refreshRawBuffer (mkBase cfg nel ext false s)) (bomLen enc (refreshRawBuffer (mkBase cfg nel ext false s)).rawWin))
        with enc := enc, xcoder := some enc, forced := true } = s.flatten.drop (bomLen enc (firstRead cfg s)) := by
      show (refreshRawBuffer (mkBase cfg nel ext false s)).rawWin.drop _ ++ (refreshRawBuffer (mkBase cfg nel ext false s)).stream.flatten = _
      rw [hw, hst]
      have := rb_flat s cfg.rawBufSize
      rw [← this]
      show _ = List.drop (bomLen enc (firstRead cfg s)) (firstRead cfg s ++ (readBytes s cfg.rawBufSize).snd.flatten)
      rw [List.drop_append_of_le_length hle]
    rw [hbytes]
    rfl

end XV.Lemmas.ReaderDeliver
