/- Round-trip lemmas for the XML declaration. -/
import XV.Lemmas.XmlDoc
namespace XV.Lemmas.Xml
open XV.Spec.Xml XV.Spec.XmlChar

theorem parsePseudoHead_render (p : PseudoAtt) (X : Str) (h : lexEq p.eq = true) :
    parsePseudoHead p.pre (renderEq p.eq ++ p.q.char :: X) = some (p, X) := by
  have p1 := parseEq_render p.eq (p.q.char :: X) h (quote_notS p.q)
  simp only [parsePseudoHead, p1, parseQuote_render]

theorem parsePseudoHead_sound (pre s : Str) (p : PseudoAtt) (X : Str) (h : parsePseudoHead pre s = some (p, X)) :
    p.pre = pre ∧ s = renderEq p.eq ++ p.q.char :: X ∧ lexEq p.eq = true := by
  simp only [parsePseudoHead] at h
  cases h1 : parseEq s with
  | none => simp [h1] at h
  | some er =>
    obtain ⟨e, r⟩ := er
    simp only [h1] at h
    cases h2 : parseQuote r with
    | none => simp [h2] at h
    | some qr =>
      obtain ⟨q, r'⟩ := qr
      simp only [h2, Option.some.injEq, Prod.mk.injEq] at h
      obtain ⟨rfl, rfl⟩ := h
      have s1 := parseEq_sound _ _ _ h1
      have s2 := parseQuote_sound _ _ _ h2
      exact ⟨rfl, by rw [s1.1, s2], s1.2.1⟩

theorem expectChar_cons (c : Char) (t : Str) : expectChar c (c :: t) = some t := by simp [expectChar]

theorem expectChar_sound (c : Char) (s t : Str) (h : expectChar c s = some t) : s = c :: t := by
  cases s with
  | nil => simp [expectChar] at h
  | cons d s' =>
    simp only [expectChar] at h
    by_cases hd : d = c
    · rw [if_pos hd] at h; simp only [Option.some.injEq] at h; rw [hd, h]
    · rw [if_neg hd] at h; cases h

def sdValue (b : Bool) : Str := if b then ['y', 'e', 's'] else ['n', 'o']

def renderSd : Option (PseudoAtt × Bool) → Str
  | none => []
  | some (p, b) => renderPseudo p ['s', 't', 'a', 'n', 'd', 'a', 'l', 'o', 'n', 'e'] (sdValue b)

def lexSd : Option (PseudoAtt × Bool) → Bool
  | none => true
  | some (p, _) => lexPseudo p

def declEnd (sd : Option (PseudoAtt × Bool)) (ws rest : Str) : Str := renderSd sd ++ ws ++ ['?', '>'] ++ rest

theorem pseudo_pre_head (p : PseudoAtt) (h : lexPseudo p = true) :
    ∃ x xs, p.pre = x :: xs ∧ isSC x = true ∧ (∀ c ∈ p.pre, isSC c = true) ∧ lexEq p.eq = true := by
  simp only [lexPseudo, Bool.and_eq_true, Bool.not_eq_true', List.isEmpty_eq_false_iff, allS, List.all_eq_true] at h
  cases hp : p.pre with
  | nil => exact absurd hp h.1.2
  | cons x xs =>
    refine ⟨x, xs, rfl, ?_, ?_, h.2⟩
    · exact h.1.1 x (by rw [hp]; exact List.mem_cons_self ..)
    · rw [← hp]; exact h.1.1

theorem declTail_render (ver : PseudoAtt) (minor : Str) (enc : Option (PseudoAtt × Str))
    (sd : Option (PseudoAtt × Bool)) (ws rest : Str) (hsd : lexSd sd = true) (hws : allS ws = true) :
    parseDeclTail ver minor enc (spanP isSC (declEnd sd ws rest)).1 (spanP isSC (declEnd sd ws rest)).2 =
      .ok (⟨ver, minor, enc, sd, ws⟩, rest) ∧
    stripPrefix ['e', 'n', 'c', 'o', 'd', 'i', 'n', 'g'] (spanP isSC (declEnd sd ws rest)).2 = none := by
  simp only [allS, List.all_eq_true] at hws
  have hq : spanP isSC (ws ++ '?' :: '>' :: rest) = (ws, '?' :: '>' :: rest) :=
    spanP_append isSC _ _ hws (by show isSC '?' = false; decide)
  cases sd with
  | none =>
    simp only [declEnd, renderSd, List.nil_append, List.append_assoc, List.cons_append, hq]
    simp [parseDeclTail, stripPrefix]
  | some pb =>
    obtain ⟨p, b⟩ := pb
    obtain ⟨x, xs, hp, hx, hall, heq⟩ := pseudo_pre_head p hsd
    have e : declEnd (some (p, b)) ws rest =
        p.pre ++ (['s', 't', 'a', 'n', 'd', 'a', 'l', 'o', 'n', 'e'] ++ (renderEq p.eq ++ p.q.char :: (sdValue b ++ p.q.char :: (ws ++ ['?', '>'] ++ rest)))) := by
      simp [declEnd, renderSd, renderPseudo, renderQuoted, List.append_assoc]
    have hs : spanP isSC (declEnd (some (p, b)) ws rest) =
        (p.pre, ['s', 't', 'a', 'n', 'd', 'a', 'l', 'o', 'n', 'e'] ++ (renderEq p.eq ++ p.q.char :: (sdValue b ++ p.q.char :: (ws ++ ['?', '>'] ++ rest)))) := by
      rw [e]; exact spanP_append isSC _ _ hall (by show isSC 's' = false; decide)
    have hh := parsePseudoHead_render p (sdValue b ++ p.q.char :: (ws ++ ['?', '>'] ++ rest)) heq
    rw [hs]
    refine ⟨?_, by simp [stripPrefix]⟩
    have hne : p.pre ≠ [] := by rw [hp]; simp
    simp only [parseDeclTail, stripPrefix_append, if_neg hne, hh]
    cases b with
    | true =>
      simp [sdValue, stripPrefix, expectChar, hq]
    | false =>
      simp [sdValue, stripPrefix, expectChar, hq]

end XV.Lemmas.Xml

namespace XV.Lemmas.Xml
open XV.Spec.Xml XV.Spec.XmlChar

def encPart : Option (PseudoAtt × Str) → Str
  | none => []
  | some (p, e) => renderPseudo p ['e', 'n', 'c', 'o', 'd', 'i', 'n', 'g'] e

def versionPart (d : XmlDecl) : Str :=
  renderPseudo d.version ['v', 'e', 'r', 's', 'i', 'o', 'n'] ('1' :: '.' :: d.versionMinor)

theorem renderXmlDecl_eq (d : XmlDecl) (rest : Str) :
    renderXmlDecl d ++ rest =
      ['<', '?', 'x', 'm', 'l'] ++ (versionPart d ++ (encPart d.encoding ++ declEnd d.standalone d.ws rest)) := by
  obtain ⟨v, m, enc, sd, ws⟩ := d
  cases enc with
  | none => cases sd with
    | none => simp [renderXmlDecl, versionPart, encPart, declEnd, renderSd, List.append_assoc]
    | some pb => obtain ⟨p, b⟩ := pb; cases b <;> simp [renderXmlDecl, versionPart, encPart, declEnd, renderSd, sdValue, List.append_assoc]
  | some pe => obtain ⟨pe, e⟩ := pe; cases sd with
    | none => simp [renderXmlDecl, versionPart, encPart, declEnd, renderSd, List.append_assoc]
    | some pb => obtain ⟨p, b⟩ := pb; cases b <;> simp [renderXmlDecl, versionPart, encPart, declEnd, renderSd, sdValue, List.append_assoc]

theorem quote_notDigit (q : Quote) : isDigitC q.char = false := by cases q <;> decide
theorem quote_notEncName (q : Quote) : isEncNameC q.char = false := by cases q <;> decide

theorem lexXmlDecl_parts (d : XmlDecl) (h : lexXmlDecl d = true) :
    lexPseudo d.version = true ∧ d.versionMinor ≠ [] ∧ (∀ c ∈ d.versionMinor, isDigitC c = true) ∧
    (match d.encoding with | none => True | some (p, e) => lexPseudo p = true ∧ lexEncName e = true) ∧
    lexSd d.standalone = true ∧ allS d.ws = true := by
  simp only [lexXmlDecl, Bool.and_eq_true, Bool.not_eq_true', List.isEmpty_eq_false_iff, List.all_eq_true] at h
  obtain ⟨⟨⟨⟨⟨h1, h2⟩, h3⟩, h4⟩, h5⟩, h6⟩ := h
  refine ⟨h1, h2, h3, ?_, ?_, h6⟩
  · cases he : d.encoding with
    | none => trivial
    | some pe => obtain ⟨p, e⟩ := pe; rw [he] at h4; simpa using h4
  · cases hs : d.standalone with
    | none => rfl
    | some pb => obtain ⟨p, b⟩ := pb; rw [hs] at h5; simpa [lexSd] using h5

theorem parseXmlDecl_render (d : XmlDecl) (rest : Str) (h : lexXmlDecl d = true) :
    parseXmlDecl (versionPart d ++ (encPart d.encoding ++ declEnd d.standalone d.ws rest)) = .ok (d, rest) := by
  obtain ⟨hv, hm, hmd, henc, hsd, hws⟩ := lexXmlDecl_parts d h
  obtain ⟨v, m, enc, sd, ws⟩ := d
  simp only at hv hm hmd henc hsd hws
  obtain ⟨x, xs, hp, hx, hall, heq⟩ := pseudo_pre_head v hv
  -- the text after the version value
  generalize hT : encPart enc ++ declEnd sd ws rest = T
  have e1 : versionPart ⟨v, m, enc, sd, ws⟩ ++ T =
      v.pre ++ (['v', 'e', 'r', 's', 'i', 'o', 'n'] ++ (renderEq v.eq ++ v.q.char :: ('1' :: '.' :: (m ++ v.q.char :: T)))) := by
    simp [versionPart, renderPseudo, renderQuoted, List.append_assoc]
  have s1 : spanP isSC (versionPart ⟨v, m, enc, sd, ws⟩ ++ T) =
      (v.pre, ['v', 'e', 'r', 's', 'i', 'o', 'n'] ++ (renderEq v.eq ++ v.q.char :: ('1' :: '.' :: (m ++ v.q.char :: T)))) := by
    rw [e1]; exact spanP_append isSC _ _ hall (by show isSC 'v' = false; decide)
  have s2 := parsePseudoHead_render v ('1' :: '.' :: (m ++ v.q.char :: T)) heq
  have s3 : spanP isDigitC (m ++ v.q.char :: T) = (m, v.q.char :: T) :=
    spanP_append isDigitC _ _ hmd (quote_notDigit v.q)
  simp only [parseXmlDecl, s1, stripPrefix_append, s2]
  simp only [stripPrefix, if_true, s3, if_neg hm, expectChar_cons]
  -- now at T
  subst hT
  cases enc with
  | none =>
    obtain ⟨t1, t2⟩ := declTail_render v m none sd ws rest hsd hws
    simp only [encPart, List.nil_append, t2, t1]
  | some pe =>
    obtain ⟨pe, e⟩ := pe
    simp only at henc
    obtain ⟨y, ys, hpe, hy, halle, heqe⟩ := pseudo_pre_head pe henc.1
    cases e with
    | nil => simp [lexEncName] at henc
    | cons c t =>
      have hc : isAlphaC c = true ∧ ∀ z ∈ t, isEncNameC z = true := by
        have := henc.2; simp only [lexEncName, Bool.and_eq_true, List.all_eq_true] at this; exact this
      have e2 : encPart (some (pe, c :: t)) ++ declEnd sd ws rest =
          pe.pre ++ (['e', 'n', 'c', 'o', 'd', 'i', 'n', 'g'] ++ (renderEq pe.eq ++ pe.q.char :: (c :: (t ++ pe.q.char :: declEnd sd ws rest)))) := by
        simp [encPart, renderPseudo, renderQuoted, List.append_assoc]
      have u1 : spanP isSC (encPart (some (pe, c :: t)) ++ declEnd sd ws rest) =
          (pe.pre, ['e', 'n', 'c', 'o', 'd', 'i', 'n', 'g'] ++ (renderEq pe.eq ++ pe.q.char :: (c :: (t ++ pe.q.char :: declEnd sd ws rest)))) := by
        rw [e2]; exact spanP_append isSC _ _ halle (by show isSC 'e' = false; decide)
      have u2 := parsePseudoHead_render pe (c :: (t ++ pe.q.char :: declEnd sd ws rest)) heqe
      have u3 : spanP isEncNameC (t ++ pe.q.char :: declEnd sd ws rest) = (t, pe.q.char :: declEnd sd ws rest) :=
        spanP_append isEncNameC _ _ hc.2 (quote_notEncName pe.q)
      have hne : pe.pre ≠ [] := by rw [hpe]; simp
      obtain ⟨t1, _⟩ := declTail_render v m (some (pe, c :: t)) sd ws rest hsd hws
      simp only [u1, stripPrefix_append, if_neg hne, u2, hc.1, Bool.not_true, Bool.false_eq_true, if_false, u3,
        expectChar_cons, t1]

end XV.Lemmas.Xml

namespace XV.Lemmas.Xml
open XV.Spec.Xml XV.Spec.XmlChar

theorem allS_iff (s : Str) : allS s = true ↔ ∀ c ∈ s, isSC c = true := by simp [allS, List.all_eq_true]

theorem lexPseudo_of (pre : Str) (p : PseudoAtt) (h1 : p.pre = pre) (h2 : allS pre = true) (h3 : pre ≠ []) (h4 : lexEq p.eq = true) :
    lexPseudo p = true := by
  subst h1
  simp only [lexPseudo, Bool.and_eq_true, Bool.not_eq_true', List.isEmpty_eq_false_iff]
  exact ⟨⟨h2, h3⟩, h4⟩

theorem parseDeclTail_sound (ver : PseudoAtt) (minor : Str) (enc : Option (PseudoAtt × Str)) (w s : Str) (d : XmlDecl) (r : Str)
    (h : parseDeclTail ver minor enc w s = .ok (d, r)) (hw : allS w = true) :
    d.version = ver ∧ d.versionMinor = minor ∧ d.encoding = enc ∧
    w ++ s = declEnd d.standalone d.ws r ∧ lexSd d.standalone = true ∧ allS d.ws = true := by
  simp only [parseDeclTail] at h
  cases h1 : stripPrefix ['s', 't', 'a', 'n', 'd', 'a', 'l', 'o', 'n', 'e'] s with
  | none =>
    simp only [h1] at h
    cases h2 : stripPrefix ['?', '>'] s with
    | none => simp [h2] at h
    | some r' =>
      simp only [h2, Except.ok.injEq, Prod.mk.injEq] at h
      obtain ⟨rfl, rfl⟩ := h
      have := stripPrefix_sound _ _ _ h2
      refine ⟨rfl, rfl, rfl, ?_, rfl, hw⟩
      simp [declEnd, renderSd, this]
  | some r1 =>
    simp only [h1] at h
    by_cases hwe : w = []
    · rw [if_pos hwe] at h; cases h
    · rw [if_neg hwe] at h
      cases h2 : parsePseudoHead w r1 with
      | none => simp [h2] at h
      | some pr =>
        obtain ⟨p, r2⟩ := pr
        simp only [h2] at h
        have s1 := stripPrefix_sound _ _ _ h1
        have s2 := parsePseudoHead_sound _ _ _ _ h2
        have key : ∀ (b : Bool) (r3 : Str) (d : XmlDecl) (r : Str), r2 = sdValue b ++ r3 →
            (match expectChar p.q.char r3 with
             | none => (Except.error (Err.fatal "XMLDecl: standalone value must be 'yes' or 'no'") : Res XmlDecl)
             | some r4 =>
               match stripPrefix ['?', '>'] (spanP isSC r4).2 with
               | none => Except.error (Err.fatal "XMLDecl: '?>' expected")
               | some r5 => Except.ok (⟨ver, minor, enc, some (p, b), (spanP isSC r4).1⟩, r5)) = .ok (d, r) →
            d.version = ver ∧ d.versionMinor = minor ∧ d.encoding = enc ∧
              w ++ s = declEnd d.standalone d.ws r ∧ lexSd d.standalone = true ∧ allS d.ws = true := by
          intro b r3 d r hr2 hm
          cases e1 : expectChar p.q.char r3 with
          | none => simp [e1] at hm
          | some r4 =>
            simp only [e1] at hm
            cases e2 : stripPrefix ['?', '>'] (spanP isSC r4).2 with
            | none => simp [e2] at hm
            | some r5 =>
              simp only [e2, Except.ok.injEq, Prod.mk.injEq] at hm
              obtain ⟨hd', hr'⟩ := hm
              subst hd'
              subst hr'
              have t1 := expectChar_sound _ _ _ e1
              have t2 := stripPrefix_sound _ _ _ e2
              have t3 := spanP_sound isSC r4
              refine ⟨rfl, rfl, rfl, ?_, ?_, ?_⟩
              · rw [s1, s2.2.1, hr2, t1]
                have : r4 = (spanP isSC r4).1 ++ (['?', '>'] ++ r5) := by
                  have := t3.1; rw [t2] at this; exact this
                generalize (spanP isSC r4).1 = ws' at this ⊢
                rw [this, ← s2.1]
                simp [declEnd, renderSd, renderPseudo, renderQuoted, List.append_assoc]
              · exact lexPseudo_of w p s2.1 hw hwe s2.2.2
              · rw [allS_iff]; exact t3.2.1
        cases h3 : stripPrefix ['y', 'e', 's'] r2 with
        | some r3 =>
          simp only [h3] at h
          exact key true r3 d r (by simpa [sdValue] using stripPrefix_sound _ _ _ h3) h
        | none =>
          simp only [h3] at h
          cases h4 : stripPrefix ['n', 'o'] r2 with
          | none => simp [h4] at h
          | some r3 =>
            simp only [h4] at h
            exact key false r3 d r (by simpa [sdValue] using stripPrefix_sound _ _ _ h4) h

theorem parseXmlDecl_sound (s : Str) (d : XmlDecl) (r : Str) (h : parseXmlDecl s = .ok (d, r))
    (hs : ∃ c t, s = c :: t ∧ isSC c = true) :
    s = versionPart d ++ (encPart d.encoding ++ declEnd d.standalone d.ws r) ∧ lexXmlDecl d = true := by
  simp only [parseXmlDecl] at h
  have sp0 := spanP_sound isSC s
  have hpre : (spanP isSC s).1 ≠ [] := by
    obtain ⟨c, t, rfl, hc⟩ := hs
    simp [spanP, hc]
  have hpreS : allS (spanP isSC s).1 = true := by rw [allS_iff]; exact sp0.2.1
  cases h1 : stripPrefix ['v', 'e', 'r', 's', 'i', 'o', 'n'] (spanP isSC s).2 with
  | none => simp [h1] at h
  | some r0 =>
    simp only [h1] at h
    cases h2 : parsePseudoHead (spanP isSC s).1 r0 with
    | none => simp [h2] at h
    | some pr =>
      obtain ⟨pv, r1⟩ := pr
      simp only [h2] at h
      cases h3 : stripPrefix ['1', '.'] r1 with
      | none => simp [h3] at h
      | some r2 =>
        simp only [h3] at h
        by_cases hm : (spanP isDigitC r2).1 = []
        · rw [if_pos hm] at h; cases h
        · rw [if_neg hm] at h
          cases h4 : expectChar pv.q.char (spanP isDigitC r2).2 with
          | none => simp [h4] at h
          | some r3 =>
            simp only [h4] at h
            have a1 := stripPrefix_sound _ _ _ h1
            have a2 := parsePseudoHead_sound _ _ _ _ h2
            have a3 := stripPrefix_sound _ _ _ h3
            have a4 := spanP_sound isDigitC r2
            have a5 := expectChar_sound _ _ _ h4
            have a6 := spanP_sound isSC r3
            have hv : lexPseudo pv = true := lexPseudo_of _ pv a2.1 hpreS hpre a2.2.2
            -- text up to r3
            have hs3 : s = pv.pre ++ (['v', 'e', 'r', 's', 'i', 'o', 'n'] ++ (renderEq pv.eq ++ pv.q.char ::
                ('1' :: '.' :: ((spanP isDigitC r2).1 ++ pv.q.char :: r3)))) := by
              have e0 := sp0.1
              rw [a1, a2.2.1, a3] at e0
              have e4 := a4.1
              rw [a5] at e4
              rw [a2.1]
              generalize (spanP isDigitC r2).1 = mm at e4 ⊢
              generalize (spanP isSC s).1 = pp at e0 ⊢
              rw [e0, e4]; simp
            have hwS : allS (spanP isSC r3).1 = true := by rw [allS_iff]; exact a6.2.1
            have fin : ∀ (enc : Option (PseudoAtt × Str)) (w x : Str) (d' : XmlDecl) (r' : Str),
                parseDeclTail pv (spanP isDigitC r2).1 enc w x = .ok (d', r') → allS w = true →
                (match enc with | none => True | some (p, e) => lexPseudo p = true ∧ lexEncName e = true) →
                lexXmlDecl d' = true ∧ versionPart d' = pv.pre ++ (['v', 'e', 'r', 's', 'i', 'o', 'n'] ++ (renderEq pv.eq ++ pv.q.char ::
                  ('1' :: '.' :: ((spanP isDigitC r2).1 ++ [pv.q.char])))) ∧ d'.encoding = enc ∧
                  w ++ x = declEnd d'.standalone d'.ws r' := by
              intro enc w x d' r' hd hw henc
              obtain ⟨b1, b2, b3, b4, b5, b6⟩ := parseDeclTail_sound _ _ _ _ _ _ _ hd hw
              refine ⟨?_, ?_, b3, b4⟩
              · simp only [lexXmlDecl, Bool.and_eq_true, Bool.not_eq_true', List.isEmpty_eq_false_iff, List.all_eq_true, b1, b2, b3]
                refine ⟨⟨⟨⟨⟨hv, hm⟩, a4.2.1⟩, ?_⟩, ?_⟩, b6⟩
                · cases enc with
                  | none => rfl
                  | some pe => obtain ⟨p, e⟩ := pe; simp only at henc; simp [henc.1, henc.2]
                · cases hsd : d'.standalone with
                  | none => rfl
                  | some pb => obtain ⟨p, b⟩ := pb; rw [hsd] at b5; simpa [lexSd] using b5
              · simp [versionPart, renderPseudo, renderQuoted, b1, b2, List.append_assoc]
            cases h5 : stripPrefix ['e', 'n', 'c', 'o', 'd', 'i', 'n', 'g'] (spanP isSC r3).2 with
            | none =>
              simp only [h5] at h
              obtain ⟨f1, f2, f3, f4⟩ := fin none _ _ d r h hwS trivial
              refine ⟨?_, f1⟩
              rw [f3, encPart, List.nil_append, ← f4, ← a6.1, f2, hs3]
              simp [List.append_assoc]
            | some r4 =>
              simp only [h5] at h
              by_cases hwe : (spanP isSC r3).1 = []
              · rw [if_pos hwe] at h; cases h
              · rw [if_neg hwe] at h
                cases h6 : parsePseudoHead (spanP isSC r3).1 r4 with
                | none => simp [h6] at h
                | some pr' =>
                  obtain ⟨pe, r5⟩ := pr'
                  simp only [h6] at h
                  cases r5 with
                  | nil => simp at h
                  | cons c t =>
                    simp only at h
                    by_cases hc : isAlphaC c = true
                    · simp only [hc, Bool.not_true, Bool.false_eq_true, if_false] at h
                      cases h7 : expectChar pe.q.char (spanP isEncNameC t).2 with
                      | none => simp [h7] at h
                      | some r6 =>
                        simp only [h7] at h
                        have c1 := stripPrefix_sound _ _ _ h5
                        have c2 := parsePseudoHead_sound _ _ _ _ h6
                        have c3 := spanP_sound isEncNameC t
                        have c4 := expectChar_sound _ _ _ h7
                        have c5 := spanP_sound isSC r6
                        have hpe : lexPseudo pe = true := lexPseudo_of _ pe c2.1 hwS hwe c2.2.2
                        have hen : lexEncName (c :: (spanP isEncNameC t).1) = true := by
                          simp only [lexEncName, hc, Bool.true_and, List.all_eq_true]; exact c3.2.1
                        have hw6 : allS (spanP isSC r6).1 = true := by rw [allS_iff]; exact c5.2.1
                        obtain ⟨f1, f2, f3, f4⟩ := fin (some (pe, c :: (spanP isEncNameC t).1)) _ _ d r h hw6 ⟨hpe, hen⟩
                        refine ⟨?_, f1⟩
                        rw [f3, ← f4, ← c5.1, f2, hs3]
                        have e3 : r3 = pe.pre ++ (['e', 'n', 'c', 'o', 'd', 'i', 'n', 'g'] ++ (renderEq pe.eq ++ pe.q.char ::
                            (c :: ((spanP isEncNameC t).1 ++ pe.q.char :: r6)))) := by
                          have e0 := a6.1
                          rw [c1, c2.2.1] at e0
                          have e4 := c3.1
                          rw [c4] at e4
                          rw [c2.1]
                          generalize (spanP isEncNameC t).1 = nn at e4 ⊢
                          generalize (spanP isSC r3).1 = pp at e0 ⊢
                          rw [e0, e4]
                        rw [e3]
                        simp [encPart, renderPseudo, renderQuoted, List.append_assoc]
                    · simp only [hc, Bool.not_false, if_true] at h; cases h

end XV.Lemmas.Xml

namespace XV.Lemmas.Xml
open XV.Spec.Xml XV.Spec.XmlChar

theorem startsWithDecl_sound (s r : Str) (h : startsWithDecl s = some r) :
    s = ['<', '?', 'x', 'm', 'l'] ++ r ∧ ∃ c t, r = c :: t ∧ isSC c = true := by
  simp only [startsWithDecl] at h
  cases h1 : stripPrefix ['<', '?', 'x', 'm', 'l'] s with
  | none => simp [h1] at h
  | some r' =>
    simp only [h1] at h
    cases r' with
    | nil => simp at h
    | cons c t =>
      simp only at h
      by_cases hc : isSC c = true
      · rw [if_pos hc] at h
        simp only [Option.some.injEq] at h
        subst h
        exact ⟨stripPrefix_sound _ _ _ h1, c, t, rfl, hc⟩
      · rw [if_neg hc] at h; cases h

theorem startsWithDecl_render (r : Str) (h : ∃ c t, r = c :: t ∧ isSC c = true) :
    startsWithDecl (['<', '?', 'x', 'm', 'l'] ++ r) = some r := by
  obtain ⟨c, t, rfl, hc⟩ := h
  simp only [startsWithDecl, stripPrefix_append, hc, if_true]

theorem versionPart_head (x : XmlDecl) (h : lexXmlDecl x = true) (rest : Str) :
    ∃ c t, versionPart x ++ rest = c :: t ∧ isSC c = true := by
  obtain ⟨hv, _⟩ := lexXmlDecl_parts x h
  obtain ⟨c, cs, hp, hc, _, _⟩ := pseudo_pre_head x.version hv
  refine ⟨c, cs ++ (['v', 'e', 'r', 's', 'i', 'o', 'n'] ++ renderEq x.version.eq ++
    renderQuoted x.version.q ('1' :: '.' :: x.versionMinor)) ++ rest, ?_, hc⟩
  simp [versionPart, renderPseudo, hp, List.append_assoc]

/-- accept side of the syntactic recogniser: every lexically valid DOCTYPE-free tree is read back from its rendering -/
theorem parseSyn_render (d : Doc) (hl : lexDoc d = true) (hdt : d.doctype = none) : parseSyn (render d) = .ok d := by
  cases hdecl : d.decl with
  | none => exact parseSyn_render_nodecl d hl hdecl hdt
  | some x =>
    rw [lexDoc_nodt d hdt, hdecl] at hl
    simp only [Bool.and_eq_true] at hl
    obtain ⟨⟨⟨⟨h0, h1⟩, h2⟩, h3⟩, h4⟩ := hl
    have htoks : ∀ t ∈ d.toks, lexTok t = true := (lexDoc_toks d hdt).mpr ⟨h1, h3, h4⟩
    have ht := tokenize_render d.toks ((renderToks d.toks).length + 1) htoks
      (by have := renderToks_length d.toks; omega)
    have hb := buildDoc_render d hdt h2
    rw [hdecl] at hb
    have e := renderXmlDecl_eq x (renderToks d.toks)
    have hsw := startsWithDecl_render _ (versionPart_head x h0 (encPart x.encoding ++ declEnd x.standalone x.ws (renderToks d.toks)))
    have hp := parseXmlDecl_render x (renderToks d.toks) h0
    simp only [parseSyn, render, hdecl, e, hsw, hp, ht, hb]

/-- reject side of the syntactic recogniser: an accepted text is the rendering of the (lexically valid) tree returned -/
theorem parseSyn_sound (s : Str) (d : Doc) (h : parseSyn s = .ok d) (hdt : d.doctype = none) :
    lexDoc d = true ∧ render d = s := by
  cases hs : startsWithDecl s with
  | none =>
    have := parseSyn_sound_nodecl s d h hs hdt
    exact ⟨this.1, this.2.1⟩
  | some r =>
    simp only [parseSyn, hs] at h
    obtain ⟨e0, hhead⟩ := startsWithDecl_sound s r hs
    cases h0 : parseXmlDecl r with
    | error e => simp [h0] at h
    | ok xr =>
      obtain ⟨x, r'⟩ := xr
      simp only [h0] at h
      cases h1 : tokenize (r'.length + 1) r' with
      | error e => simp [h1] at h
      | ok ts =>
        simp only [h1] at h
        obtain ⟨b1, b2, b3⟩ := buildDoc_sound (some x) ts d h
        have hnd : ∀ t ∈ ts, noDoctypeTok t = true := by rw [← b2]; exact doc_toks_noDoctype d hdt
        obtain ⟨t1, t2⟩ := tokenize_sound _ _ _ h1 hnd
        rw [← b2] at t1 t2
        obtain ⟨p1, p2⟩ := parseXmlDecl_sound r x r' h0 hhead
        have hr : render d = s := by
          simp only [render, b1]
          rw [renderXmlDecl_eq, e0, p1, t1]
        refine ⟨?_, hr⟩
        rw [lexDoc_nodt d hdt, b1]
        obtain ⟨l1, l2, l3⟩ := (lexDoc_toks d hdt).mp t2
        simp only [Bool.and_eq_true]
        exact ⟨⟨⟨⟨p2, l1⟩, b3⟩, l2⟩, l3⟩

end XV.Lemmas.Xml
