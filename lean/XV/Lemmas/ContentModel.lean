/-
C07 — lemmas behind `deriv_iff`: the language of the derivative machinery (`Re.Lang`), nullable and
derivative lemmas (all words, by induction), and the translation lemmas `CM.toRe` / `Spec.toRe`.
Core Lean only.
-/
import XV.Spec.ContentModel
namespace XV.Lemmas.ContentModel
open XV.Spec.ContentModel

/-- declarative language of the auxiliary regular expressions -/
inductive ReLang : Re → List Name → Prop where
  | eps : ReLang .eps []
  | sym (n : Name) : ReLang (.sym n) [n]
  | anysym (n : Name) : ReLang .anysym [n]
  | altL {a : Re} (b : Re) {u : List Name} : ReLang a u → ReLang (.alt a b) u
  | altR (a : Re) {b : Re} {u : List Name} : ReLang b u → ReLang (.alt a b) u
  | cat {a b : Re} {u v : List Name} : ReLang a u → ReLang b v → ReLang (.cat a b) (u ++ v)
  | starNil (a : Re) : ReLang (.star a) []
  | starCons {a : Re} {u v : List Name} : ReLang a u → ReLang (.star a) v → ReLang (.star a) (u ++ v)

/-! ### inversion lemmas -/

theorem zero_inv {w : List Name} : ¬ ReLang .zero w := by
  intro h; cases h

theorem eps_inv {w : List Name} : ReLang .eps w ↔ w = [] := by
  constructor
  · intro h; cases h; rfl
  · intro h; subst h; exact .eps

theorem sym_inv {n : Name} {w : List Name} : ReLang (.sym n) w ↔ w = [n] := by
  constructor
  · intro h; cases h; rfl
  · intro h; subst h; exact .sym n

theorem anysym_inv {w : List Name} : ReLang .anysym w ↔ ∃ n, w = [n] := by
  constructor
  · intro h; cases h with | anysym n => exact ⟨n, rfl⟩
  · rintro ⟨n, rfl⟩; exact .anysym n

theorem alt_inv {a b : Re} {w : List Name} : ReLang (.alt a b) w ↔ ReLang a w ∨ ReLang b w := by
  constructor
  · intro h
    cases h with
    | altL _ h => exact .inl h
    | altR _ h => exact .inr h
  · rintro (h | h)
    · exact .altL _ h
    · exact .altR _ h

theorem cat_inv {a b : Re} {w : List Name} :
    ReLang (.cat a b) w ↔ ∃ u v, w = u ++ v ∧ ReLang a u ∧ ReLang b v := by
  constructor
  · intro h
    cases h with
    | cat h1 h2 => exact ⟨_, _, rfl, h1, h2⟩
  · rintro ⟨u, v, rfl, h1, h2⟩
    exact .cat h1 h2

/-- a non-empty word of `a*` starts with a non-empty word of `a` -/
theorem star_cons_inv {a : Re} {x : Name} {w : List Name} (h : ReLang (.star a) (x :: w)) :
    ∃ u v, w = u ++ v ∧ ReLang a (x :: u) ∧ ReLang (.star a) v := by
  generalize hr : Re.star a = r at h
  generalize hw : x :: w = xw at h
  induction h generalizing w with
  | eps => cases hr
  | sym => cases hr
  | anysym => cases hr
  | altL => cases hr
  | altR => cases hr
  | cat => cases hr
  | starNil => cases hw
  | @starCons a' u v h1 h2 _ ih2 =>
    cases hr
    cases u with
    | nil =>
      simp at hw
      exact ih2 rfl hw
    | cons y u' =>
      simp at hw
      obtain ⟨rfl, rfl⟩ := hw
      exact ⟨u', v, rfl, h1, h2⟩

/-! ### nullable -/

theorem nullable_iff (r : Re) : r.nullable = true ↔ ReLang r [] := by
  induction r with
  | zero => simp [Re.nullable, zero_inv]
  | eps => simp [Re.nullable, eps_inv]
  | sym n => simp [Re.nullable, sym_inv]
  | anysym => simp [Re.nullable, anysym_inv]
  | alt a b iha ihb => simp [Re.nullable, alt_inv, iha, ihb]
  | cat a b iha ihb =>
    simp only [Re.nullable, Bool.and_eq_true, iha, ihb, cat_inv]
    constructor
    · rintro ⟨h1, h2⟩; exact ⟨[], [], rfl, h1, h2⟩
    · rintro ⟨u, v, h, h1, h2⟩
      have : u = [] ∧ v = [] := List.append_eq_nil_iff.1 h.symm
      obtain ⟨rfl, rfl⟩ := this
      exact ⟨h1, h2⟩
  | star a _ => exact ⟨fun _ => .starNil a, fun _ => rfl⟩

/-! ### one derivative step -/

theorem deriv_iff_cons (r : Re) (x : Name) (w : List Name) :
    ReLang (r.deriv x) w ↔ ReLang r (x :: w) := by
  induction r generalizing w with
  | zero => simp [Re.deriv, zero_inv]
  | eps => simp [Re.deriv, zero_inv, eps_inv]
  | sym n =>
    simp only [Re.deriv]
    by_cases h : n = x
    · subst h; simp [eps_inv, sym_inv]
    · simp [h, zero_inv, sym_inv]
      intro h'; exact absurd h'.symm h
  | anysym => simp [Re.deriv, eps_inv, anysym_inv]
  | alt a b iha ihb => simp [Re.deriv, alt_inv, iha, ihb]
  | cat a b iha ihb =>
    have key : ReLang (.alt (.cat (a.deriv x) b) (if a.nullable then b.deriv x else .zero)) w
        ↔ ReLang (.cat a b) (x :: w) := by
      rw [alt_inv, cat_inv, cat_inv]
      constructor
      · rintro (⟨u, v, rfl, h1, h2⟩ | h)
        · exact ⟨x :: u, v, rfl, (iha u).1 h1, h2⟩
        · by_cases hn : a.nullable = true
          · rw [if_pos hn] at h
            exact ⟨[], x :: w, rfl, (nullable_iff a).1 hn, (ihb w).1 h⟩
          · rw [if_neg hn] at h; exact absurd h zero_inv
      · rintro ⟨u, v, h, h1, h2⟩
        cases u with
        | nil =>
          simp at h; subst h
          right
          rw [if_pos ((nullable_iff a).2 h1)]
          exact (ihb w).2 h2
        | cons y u' =>
          simp at h
          obtain ⟨rfl, rfl⟩ := h
          left
          exact ⟨u', v, rfl, (iha u').2 h1, h2⟩
    simp only [Re.deriv]
    by_cases hn : a.nullable = true
    · rw [if_pos hn]; rw [if_pos hn] at key; exact key
    · rw [if_neg hn]; rw [if_neg hn] at key
      rw [← key, alt_inv]
      constructor
      · exact .inl
      · rintro (h | h)
        · exact h
        · exact absurd h zero_inv
  | star a iha =>
    simp only [Re.deriv, cat_inv]
    constructor
    · rintro ⟨u, v, rfl, h1, h2⟩
      exact ReLang.starCons (u := x :: u) ((iha u).1 h1) h2
    · intro h
      obtain ⟨u, v, rfl, h1, h2⟩ := star_cons_inv h
      exact ⟨u, v, rfl, (iha u).2 h1, h2⟩

theorem derivs_iff (r : Re) (u w : List Name) :
    ReLang (r.derivs u) w ↔ ReLang r (u ++ w) := by
  induction u generalizing r with
  | nil => simp [Re.derivs]
  | cons x u ih => simp [Re.derivs, ih, deriv_iff_cons]

/-- the derivative matcher decides the language of `Re`, for all words -/
theorem matches_iff (r : Re) (w : List Name) : r.matches w = true ↔ ReLang r w := by
  unfold Re.matches
  rw [nullable_iff, derivs_iff]; simp

/-! ### translation of content particles and content specs into `Re` -/

theorem star_toRe_of {a : CM} (ih : ∀ w, ReLang a.toRe w ↔ CM.Lang a w) (w : List Name) :
    ReLang (.star a.toRe) w ↔ CM.Lang (.star a) w := by
  constructor
  · intro h
    generalize hr : Re.star a.toRe = r at h
    induction h with
    | eps => cases hr
    | sym => cases hr
    | anysym => cases hr
    | altL => cases hr
    | altR => cases hr
    | cat => cases hr
    | starNil => exact .starNil a
    | starCons h1 _ _ ih2 =>
      cases hr
      exact .starCons ((ih _).1 h1) (ih2 rfl)
  · intro h
    generalize hc : CM.star a = c at h
    induction h with
    | leaf => cases hc
    | seq => cases hc
    | choiceL => cases hc
    | choiceR => cases hc
    | optNone => cases hc
    | optSome => cases hc
    | starNil => exact .starNil _
    | starCons h1 _ _ ih2 =>
      cases hc
      exact .starCons ((ih _).2 h1) (ih2 rfl)
    | plusOne => cases hc
    | plusCons => cases hc

/-- `a+` = `a a*` -/
theorem plus_iff_cat_star (a : CM) (w : List Name) :
    CM.Lang (.plus a) w ↔ ∃ u v, w = u ++ v ∧ CM.Lang a u ∧ CM.Lang (.star a) v := by
  constructor
  · intro h
    generalize hc : CM.plus a = c at h
    induction h with
    | leaf => cases hc
    | seq => cases hc
    | choiceL => cases hc
    | choiceR => cases hc
    | optNone => cases hc
    | optSome => cases hc
    | starNil => cases hc
    | starCons => cases hc
    | plusOne h1 =>
      cases hc
      exact ⟨_, [], by simp, h1, .starNil _⟩
    | plusCons h1 _ _ ih2 =>
      cases hc
      obtain ⟨u', v', rfl, h3, h4⟩ := ih2 rfl
      exact ⟨_, u' ++ v', rfl, h1, .starCons h3 h4⟩
  · rintro ⟨u, v, rfl, h1, h2⟩
    generalize hc : CM.star a = c at h2
    induction h2 generalizing u with
    | leaf => cases hc
    | seq => cases hc
    | choiceL => cases hc
    | choiceR => cases hc
    | optNone => cases hc
    | optSome => cases hc
    | starNil => simp; exact .plusOne h1
    | starCons h3 _ _ ih4 =>
      cases hc
      exact .plusCons h1 (ih4 _ h3 rfl)
    | plusOne => cases hc
    | plusCons => cases hc

theorem cm_toRe_iff (c : CM) (w : List Name) : ReLang c.toRe w ↔ CM.Lang c w := by
  induction c generalizing w with
  | leaf n =>
    simp only [CM.toRe, sym_inv]
    constructor
    · rintro rfl; exact .leaf n
    · intro h; cases h; rfl
  | seq a b iha ihb =>
    simp only [CM.toRe, cat_inv]
    constructor
    · rintro ⟨u, v, rfl, h1, h2⟩; exact .seq ((iha u).1 h1) ((ihb v).1 h2)
    · intro h
      cases h with
      | seq h1 h2 => exact ⟨_, _, rfl, (iha _).2 h1, (ihb _).2 h2⟩
  | choice a b iha ihb =>
    simp only [CM.toRe, alt_inv]
    constructor
    · rintro (h | h)
      · exact .choiceL _ ((iha w).1 h)
      · exact .choiceR _ ((ihb w).1 h)
    · intro h
      cases h with
      | choiceL _ h => exact .inl ((iha w).2 h)
      | choiceR _ h => exact .inr ((ihb w).2 h)
  | opt a iha =>
    simp only [CM.toRe, alt_inv, eps_inv]
    constructor
    · rintro (rfl | h)
      · exact .optNone a
      · exact .optSome ((iha w).1 h)
    · intro h
      cases h with
      | optNone => exact .inl rfl
      | optSome h => exact .inr ((iha w).2 h)
  | star a iha => exact star_toRe_of iha w
  | plus a iha =>
    simp only [CM.toRe, cat_inv, plus_iff_cat_star]
    constructor
    · rintro ⟨u, v, rfl, h1, h2⟩
      exact ⟨u, v, rfl, (iha u).1 h1, (star_toRe_of iha v).1 h2⟩
    · rintro ⟨u, v, rfl, h1, h2⟩
      exact ⟨u, v, rfl, (iha u).2 h1, (star_toRe_of iha v).2 h2⟩

theorem altOfNames_iff (ns : List Name) (w : List Name) :
    ReLang (altOfNames ns) w ↔ ∃ n, n ∈ ns ∧ w = [n] := by
  induction ns with
  | nil => simp [altOfNames, zero_inv]
  | cons n ns ih =>
    simp only [altOfNames, alt_inv, sym_inv, ih, List.mem_cons]
    constructor
    · rintro (rfl | ⟨m, hm, rfl⟩)
      · exact ⟨n, .inl rfl, rfl⟩
      · exact ⟨m, .inr hm, rfl⟩
    · rintro ⟨m, (rfl | hm), rfl⟩
      · exact .inl rfl
      · exact .inr ⟨m, hm, rfl⟩

/-- `(s1|…|sk)*` over single-symbol alternatives = all words over those symbols -/
theorem star_syms_iff (r : Re) (P : Name → Prop) (hr : ∀ w, ReLang r w ↔ ∃ n, P n ∧ w = [n])
    (w : List Name) : ReLang (.star r) w ↔ ∀ x, x ∈ w → P x := by
  constructor
  · intro h
    generalize hs : Re.star r = s at h
    induction h with
    | eps => cases hs
    | sym => cases hs
    | anysym => cases hs
    | altL => cases hs
    | altR => cases hs
    | cat => cases hs
    | starNil => simp
    | starCons h1 _ _ ih2 =>
      cases hs
      obtain ⟨n, hn, rfl⟩ := (hr _).1 h1
      intro x hx
      simp at hx
      rcases hx with rfl | hx
      · exact hn
      · exact ih2 rfl x hx
  · intro h
    induction w with
    | nil => exact .starNil r
    | cons x w ih =>
      have h1 : ReLang r [x] := (hr _).2 ⟨x, h x (by simp), rfl⟩
      have h2 : ReLang (.star r) w := ih (fun y hy => h y (by simp [hy]))
      exact ReLang.starCons h1 h2

theorem spec_toRe_iff (s : Spec) (w : List Name) : ReLang s.toRe w ↔ Lang s w := by
  cases s with
  | empty =>
    simp only [Spec.toRe, eps_inv]
    constructor
    · rintro rfl; exact .empty
    · intro h; cases h; rfl
  | any =>
    simp only [Spec.toRe]
    rw [star_syms_iff .anysym (fun _ => True) (by intro w; simp [anysym_inv])]
    constructor
    · intro _; exact .any w
    · intro _ _ _; trivial
  | mixed ns =>
    simp only [Spec.toRe]
    rw [star_syms_iff (altOfNames ns) (fun n => n ∈ ns) (altOfNames_iff ns)]
    constructor
    · intro h; exact .mixed h
    · intro h; cases h with | mixed h => exact h
  | children c =>
    simp only [Spec.toRe, cm_toRe_iff]
    constructor
    · intro h; exact .children h
    · intro h; cases h with | children h => exact h

end XV.Lemmas.ContentModel
