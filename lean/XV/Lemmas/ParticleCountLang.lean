/-
C08 — counting states, specification side (2): `compact_lang`.

  compact_lang : Compact x → (names (sk x)).Nodup →
                 (PLang SymM x.toParticle w ↔ CM.Lang (sk x) w ∧ chk (rng x) none 0 w = true)

Core Lean only.
-/
import XV.Lemmas.ParticleCountSpec
namespace XV.Lemmas.ParticleCount
open XV.Spec.Particle XV.Model.Particle XV.Model.ParticleDfa XV.Lemmas.Particle XV.Lemmas.ParticleExpand
open XV.Spec.ContentModel (CM)
open XV.Lemmas.Glushkov (names size)

/-! ### a range around a leaf -/

theorem flatten_singletons (a : Nat) (ws : List (List Nat)) (h : ∀ u, u ∈ ws → u = [a]) :
    ws.flatten = List.replicate ws.length a := by
  induction ws with
  | nil => rfl
  | cons u ws ih =>
    have hu : u = [a] := h u (by simp)
    subst hu
    simp only [List.flatten_cons, List.length_cons, List.replicate_succ, List.singleton_append]
    rw [ih (fun e he => h e (by simp [he]))]

theorem rep_leaf_iff (a mn : Nat) (mx : Option Nat) (w : List Nat) :
    PLang SymM (.rep mn mx (.leaf a)) w ↔
      ∃ k, w = List.replicate k a ∧ mn ≤ k ∧ (∀ m, mx = some m → k ≤ m) := by
  rw [rep_inv]
  constructor
  · rintro ⟨ws, rfl, hall, h1, h2⟩
    refine ⟨ws.length, flatten_singletons a ws ?_, h1, h2⟩
    intro u hu
    obtain ⟨x, rfl, hx⟩ := leaf_inv.1 (hall u hu)
    simp only [SymM] at hx
    subst hx
    rfl
  · rintro ⟨k, rfl, h1, h2⟩
    refine ⟨List.replicate k [a], ?_, ?_, by simpa using h1, by simpa using h2⟩
    · rw [flatten_singletons a (List.replicate k [a]) (fun u hu => (List.mem_replicate.1 hu).2)]
      simp
    · intro u hu
      rw [(List.mem_replicate.1 hu).2]
      exact .leaf rfl

/-- the check of a single block -/
theorem chk_block (r : Rng) (a mn : Nat) (mx : Option Nat) (hr : r a = some (mn, mx)) (hocc : occOk mn mx = true) (k : Nat) :
    chk r none 0 (List.replicate k a) = true ↔ k = 0 ∨ (mn ≤ k ∧ ∀ m, mx = some m → k ≤ m) := by
  cases k with
  | zero => simp [chk, endOk]
  | succ k =>
    simp only [List.replicate_succ, chk, endOk, Bool.true_and]
    rw [if_neg (by simp), chk_replicate, hr]
    simp only [Bool.and_eq_true, Bool.or_eq_true, beq_iff_eq, decide_eq_true_eq, Nat.succ_ne_zero, false_or]
    cases mx with
    | none => simp [maxOk]; omega
    | some m =>
      simp only [occOk, Bool.and_eq_true, decide_eq_true_eq] at hocc
      simp only [maxOk, decide_eq_true_eq, Option.some.injEq, forall_eq']
      constructor
      · rintro ⟨h1, h2⟩
        refine ⟨by omega, ?_⟩
        rcases h1 with h1 | h1
        · omega
        · omega
      · rintro ⟨h1, h2⟩
        exact ⟨.inr (by omega), by omega⟩

theorem chk_all_none (r : Rng) (h : ∀ y, r y = none) (w : List Nat) (prev : Option Nat) (loop : Nat) :
    chk r prev loop w = true := by
  rw [chk_congr r (fun _ => none) w prev loop (fun y _ => h y) (fun a _ => h a)]
  exact chk_none w prev loop

/-! ### binary nodes -/

theorem rng_bin_left (t : GroupType) (x1 x2 : XNode Nat) (h1 : Compact x1 = true) (a : Nat) (ha : a ∈ names (sk x1)) :
    rng (.bin t x1 x2) a = rng x1 a := by
  unfold rng
  simp only [leafInfos]
  exact rngOf_append_left _ _ a (by rw [leafInfos_names x1 h1]; exact ha)

theorem rng_bin_right (t : GroupType) (x1 x2 : XNode Nat) (h1 : Compact x1 = true) (a : Nat) (ha : a ∉ names (sk x1)) :
    rng (.bin t x1 x2) a = rng x2 a := by
  unfold rng
  simp only [leafInfos]
  exact rngOf_append_right _ _ a (by rw [leafInfos_names x1 h1]; exact ha)

/-- two words over disjoint alphabets are checked separately -/
theorem chk_split (r : Rng) (N1 N2 : List Nat) (hd : ∀ y, y ∈ N1 → y ∈ N2 → False) (u v : List Nat)
    (hu : ∀ y, y ∈ u → y ∈ N1) (hv : ∀ y, y ∈ v → y ∈ N2) :
    chk r none 0 (u ++ v) = (chk r none 0 u && chk r none 0 v) := by
  cases v with
  | nil => simp [chk, endOk]
  | cons y v' =>
    apply chk_append
    intro hl
    rcases lastOf_mem u none y hl with h | h
    · cases h
    · exact hd y (hu y h) (hv y (by simp))

theorem rngOf_single_none (a y : Nat) : rngOf [(a, none)] y = none := by
  unfold rngOf
  simp only [List.find?_cons, List.find?_nil]
  cases (a == y) <;> rfl

theorem compact_lang (x : XNode Nat) (hc : Compact x = true) (hn : (names (sk x)).Nodup) (w : List Nat) :
    PLang SymM x.toParticle w ↔ CM.Lang (sk x) w ∧ chk (rng x) none 0 w = true := by
  induction x generalizing w with
  | leaf a =>
    have hr : ∀ y, rng (.leaf a) y = none := by
      intro y; exact rngOf_single_none a y
    simp only [chk_all_none _ hr, and_true]
    exact (toCM_lang (.leaf a) (.leaf a) rfl w).symm
  | unary t x _ =>
    cases x with
    | leaf a =>
      have hr : ∀ y, rng (.unary t (.leaf a)) y = none := by
        intro y; exact rngOf_single_none a y
      simp only [chk_all_none _ hr, and_true]
      cases t
      · exact (toCM_lang (.unary .ZeroOrOne (.leaf a)) (.opt (.leaf a)) rfl w).symm
      · exact (toCM_lang (.unary .ZeroOrMore (.leaf a)) (.star (.leaf a)) rfl w).symm
      · exact (toCM_lang (.unary .OneOrMore (.leaf a)) (.plus (.leaf a)) rfl w).symm
    | _ => simp [Compact] at hc
  | loopRep o mn mx x _ =>
    cases x with
    | leaf a =>
      have hr : rng (.loopRep o mn mx (.leaf a)) a = some (mn, mx) := by
        simp [rng, rngOf, leafInfos]
      cases o with
      | ZeroOrOne => simp [Compact] at hc
      | ZeroOrMore =>
        simp only [Compact, Bool.and_eq_true, beq_iff_eq] at hc
        obtain ⟨h0, hocc⟩ := hc
        subst h0
        have hL : CM.Lang (sk (.loopRep .ZeroOrMore 0 mx (.leaf a))) w ↔ ∃ k, w = List.replicate k a := by
          rw [show sk (.loopRep .ZeroOrMore 0 mx (.leaf a)) = .star (.leaf a) from rfl,
            toCM_lang (.unary .ZeroOrMore (.leaf a)) (.star (.leaf a)) rfl w]
          show PLang SymM (.rep 0 none (.leaf a)) w ↔ _
          rw [rep_leaf_iff]
          simp
        rw [hL]
        show PLang SymM (.rep 0 mx (.leaf a)) w ↔ _
        rw [rep_leaf_iff]
        constructor
        · rintro ⟨k, rfl, h1, h2⟩
          exact ⟨⟨k, rfl⟩, (chk_block _ a 0 mx hr hocc k).2 (.inr ⟨h1, h2⟩)⟩
        · rintro ⟨⟨k, rfl⟩, h⟩
          rcases (chk_block _ a 0 mx hr hocc k).1 h with h | h
          · subst h
            refine ⟨0, rfl, Nat.le_refl _, ?_⟩
            intro m _; exact Nat.zero_le _
          · exact ⟨k, rfl, h.1, h.2⟩
      | OneOrMore =>
        simp only [Compact, Bool.and_eq_true, decide_eq_true_eq] at hc
        obtain ⟨h1, hocc⟩ := hc
        have hL : CM.Lang (sk (.loopRep .OneOrMore mn mx (.leaf a))) w ↔ ∃ k, w = List.replicate k a ∧ 1 ≤ k := by
          rw [show sk (.loopRep .OneOrMore mn mx (.leaf a)) = .plus (.leaf a) from rfl,
            toCM_lang (.unary .OneOrMore (.leaf a)) (.plus (.leaf a)) rfl w]
          show PLang SymM (.rep 1 none (.leaf a)) w ↔ _
          rw [rep_leaf_iff]
          simp
        rw [hL]
        show PLang SymM (.rep mn mx (.leaf a)) w ↔ _
        rw [rep_leaf_iff]
        constructor
        · rintro ⟨k, rfl, h2, h3⟩
          exact ⟨⟨k, rfl, by omega⟩, (chk_block _ a mn mx hr hocc k).2 (.inr ⟨h2, h3⟩)⟩
        · rintro ⟨⟨k, rfl, hk⟩, h⟩
          rcases (chk_block _ a mn mx hr hocc k).1 h with h | h
          · omega
          · exact ⟨k, rfl, h.1, h.2⟩
    | _ => cases o <;> simp [Compact] at hc
  | bin t x1 x2 ih1 ih2 =>
    cases t with
    | All => simp [Compact] at hc
    | Sequence =>
      simp only [Compact, Bool.and_eq_true] at hc
      have hn' : (names (sk x1) ++ names (sk x2)).Nodup := hn
      rw [List.nodup_append] at hn'
      obtain ⟨hn1, hn2, hdis⟩ := hn'
      have hd : ∀ y, y ∈ names (sk x1) → y ∈ names (sk x2) → False := fun y h1 h2 => hdis y h1 y h2 rfl
      have key : ∀ u v, CM.Lang (sk x1) u → CM.Lang (sk x2) v →
          chk (rng (.bin .Sequence x1 x2)) none 0 (u ++ v) = (chk (rng x1) none 0 u && chk (rng x2) none 0 v) := by
        intro u v hu hv
        rw [chk_split _ _ _ hd u v (lang_names hu) (lang_names hv)]
        rw [chk_congr _ (rng x1) u none 0 (fun y hy => rng_bin_left _ x1 x2 hc.1 y (lang_names hu y hy)) (by intro a h; cases h),
          chk_congr _ (rng x2) v none 0
            (fun y hy => rng_bin_right _ x1 x2 hc.1 y (fun h => hd y h (lang_names hv y hy))) (by intro a h; cases h)]
      rw [toParticle_seq, seq_inv]
      constructor
      · rintro ⟨u, v, rfl, hu, hv⟩
        obtain ⟨hu1, hu2⟩ := (ih1 hc.1 hn1 u).1 hu
        obtain ⟨hv1, hv2⟩ := (ih2 hc.2 hn2 v).1 hv
        refine ⟨CM.Lang.seq hu1 hv1, ?_⟩
        rw [key u v hu1 hv1, hu2, hv2]; rfl
      · rintro ⟨hl, hk⟩
        have hl' : CM.Lang (.seq (sk x1) (sk x2)) w := hl
        cases hl' with
        | @seq _ _ u v hu hv =>
          rw [key u v hu hv, Bool.and_eq_true] at hk
          exact ⟨u, v, rfl, (ih1 hc.1 hn1 u).2 ⟨hu, hk.1⟩, (ih2 hc.2 hn2 v).2 ⟨hv, hk.2⟩⟩
    | Choice =>
      simp only [Compact, Bool.and_eq_true] at hc
      have hn' : (names (sk x1) ++ names (sk x2)).Nodup := hn
      rw [List.nodup_append] at hn'
      obtain ⟨hn1, hn2, hdis⟩ := hn'
      have hd : ∀ y, y ∈ names (sk x1) → y ∈ names (sk x2) → False := fun y h1 h2 => hdis y h1 y h2 rfl
      have keyL : ∀ u, CM.Lang (sk x1) u → chk (rng (.bin .Choice x1 x2)) none 0 u = chk (rng x1) none 0 u := by
        intro u hu
        exact chk_congr _ (rng x1) u none 0 (fun y hy => rng_bin_left _ x1 x2 hc.1 y (lang_names hu y hy)) (by intro a h; cases h)
      have keyR : ∀ u, CM.Lang (sk x2) u → chk (rng (.bin .Choice x1 x2)) none 0 u = chk (rng x2) none 0 u := by
        intro u hu
        exact chk_congr _ (rng x2) u none 0
          (fun y hy => rng_bin_right _ x1 x2 hc.1 y (fun h => hd y h (lang_names hu y hy))) (by intro a h; cases h)
      rw [toParticle_choice, choice_inv]
      constructor
      · rintro (h | h)
        · obtain ⟨h1, h2⟩ := (ih1 hc.1 hn1 w).1 h
          exact ⟨CM.Lang.choiceL _ h1, by rw [keyL w h1]; exact h2⟩
        · obtain ⟨h1, h2⟩ := (ih2 hc.2 hn2 w).1 h
          exact ⟨CM.Lang.choiceR _ h1, by rw [keyR w h1]; exact h2⟩
      · rintro ⟨hl, hk⟩
        have hl' : CM.Lang (.choice (sk x1) (sk x2)) w := hl
        cases hl' with
        | choiceL _ h => exact .inl ((ih1 hc.1 hn1 w).2 ⟨h, by rw [← keyL w h]; exact hk⟩)
        | choiceR _ h => exact .inr ((ih2 hc.2 hn2 w).2 ⟨h, by rw [← keyR w h]; exact hk⟩)

end XV.Lemmas.ParticleCount
