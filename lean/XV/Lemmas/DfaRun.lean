/-
C07 — semantics of `stepSet` (one subset-construction step over bit masks) and of a run of the subset
automaton (`runMask`); with the leaf/follow lists of a particle (`DfaData`) the run from the initial state set
reaches EOC exactly on the words of `CM.Lang` (`runMask_accepts`, via `lang_iff_accepts`).  Core Lean only.
-/
import XV.Lemmas.DfaTree
namespace XV.Lemmas.DfaRun
open XV.Spec.ContentModel XV.Model.ContentModel XV.Lemmas.Glushkov XV.Lemmas.DfaTree

/-! ### `stepSet` -/

theorem testBit_foldl_step (ll : List (Option Name)) (fl : List StateSet) (S : StateSet) (e : Option Name) (q : Nat) :
    ∀ (ps : List Nat) (acc : StateSet),
      (ps.foldl (fun acc p => if ll[p]? == some e && S.testBit p then acc ||| fl.getD p 0 else acc) acc).testBit q =
        (acc.testBit q || ps.any (fun p => ll[p]? == some e && S.testBit p && (fl.getD p 0).testBit q)) := by
  intro ps
  induction ps with
  | nil => intro acc; simp
  | cons p ps ih =>
    intro acc
    simp only [List.foldl_cons, List.any_cons]
    rw [ih]
    by_cases h : (ll[p]? == some e && S.testBit p) = true
    · rw [if_pos h]; simp [h, Nat.testBit_or, Bool.or_assoc]
    · rw [if_neg h]
      have : (ll[p]? == some e && S.testBit p) = false := by simpa using h
      simp [this]

theorem testBit_stepSet (ll : List (Option Name)) (fl : List StateSet) (S : StateSet) (e : Option Name) (q : Nat) :
    (stepSet ll fl S e).testBit q = true ↔
      ∃ p, ll[p]? = some e ∧ S.testBit p = true ∧ (fl.getD p 0).testBit q = true := by
  unfold stepSet
  rw [testBit_foldl_step]
  simp only [Nat.zero_testBit, Bool.false_or, List.any_eq_true, List.mem_range, Bool.and_eq_true, beq_iff_eq]
  constructor
  · rintro ⟨p, _, ⟨h1, h2⟩, h3⟩; exact ⟨p, h1, h2, h3⟩
  · rintro ⟨p, h1, h2, h3⟩
    refine ⟨p, ?_, ⟨h1, h2⟩, h3⟩
    by_cases hp : p < ll.length
    · exact hp
    · rw [List.getElem?_eq_none (by omega)] at h1; cases h1

theorem stepSet_zero (ll : List (Option Name)) (fl : List StateSet) (e : Option Name) : stepSet ll fl 0 e = 0 := by
  apply Nat.eq_of_testBit_eq
  intro q
  rw [Nat.zero_testBit]
  cases h : (stepSet ll fl 0 e).testBit q
  · rfl
  · obtain ⟨p, _, h2, _⟩ := (testBit_stepSet ll fl 0 e q).1 h
    simp at h2

/-- run of the subset automaton on a child sequence -/
def runMask (ll : List (Option Name)) (fl : List StateSet) : StateSet → List Name → StateSet
  | S, [] => S
  | S, x :: w => runMask ll fl (stepSet ll fl S (some x)) w

theorem runMask_zero (ll : List (Option Name)) (fl : List StateSet) (w : List Name) : runMask ll fl 0 w = 0 := by
  induction w with
  | nil => rfl
  | cons x w ih => simp [runMask, stepSet_zero, ih]

/-- `reach p w q`: reading `w` from position `p` (consuming the name at each visited position) can end in `q` -/
def Reach (ll : List (Option Name)) (fl : List StateSet) : Nat → List Name → Nat → Prop
  | p, [], q => p = q
  | p, x :: w, q => ll[p]? = some (some x) ∧ ∃ p', (fl.getD p 0).testBit p' = true ∧ Reach ll fl p' w q

theorem testBit_runMask (ll : List (Option Name)) (fl : List StateSet) (w : List Name) :
    ∀ (S : StateSet) (q : Nat),
      (runMask ll fl S w).testBit q = true ↔ ∃ p, S.testBit p = true ∧ Reach ll fl p w q := by
  induction w with
  | nil =>
    intro S q
    simp only [runMask, Reach]
    constructor
    · intro h; exact ⟨q, h, rfl⟩
    · rintro ⟨p, h, rfl⟩; exact h
  | cons x w ih =>
    intro S q
    simp only [runMask, Reach]
    rw [ih]
    constructor
    · rintro ⟨p', h1, h2⟩
      obtain ⟨p, hp1, hp2, hp3⟩ := (testBit_stepSet ll fl S (some x) p').1 h1
      exact ⟨p, hp2, hp1, p', hp3, h2⟩
    · rintro ⟨p, hp2, hp1, p', hp3, h2⟩
      exact ⟨p', (testBit_stepSet ll fl S (some x) p').2 ⟨p, hp1, hp2, hp3⟩, h2⟩

/-! ### the subset automaton over the leaf/follow lists of a particle accepts exactly `Lang` -/

/-- the data `buildDFA` derives from the tree of `c`: leaf names with the EOC leaf at position `size c`,
    follow sets including the edges into EOC, the initial state set -/
structure DfaData (c : CM) (ll : List (Option Name)) (fl : List StateSet) (head : StateSet) : Prop where
  ll_eq : ll = (names c).map some ++ [none]
  fl_eq : ∀ p q, (fl.getD p 0).testBit q = (fol c 0 p q || (last c 0 p && decide (q = size c)))
  head_eq : ∀ p, head.testBit p = (first c 0 p || (nullable c && decide (p = size c)))

theorem ll_name {c : CM} {ll : List (Option Name)} (h : ll = (names c).map some ++ [none]) (p : Nat) (x : Name) :
    ll[p]? = some (some x) ↔ p < size c ∧ nameAt c 0 p = x := by
  subst h
  by_cases hp : p < size c
  · rw [List.getElem?_append_left (by simp [names_length]; exact hp)]
    simp only [List.getElem?_map, nameAt, List.getD_eq_getElem?_getD, Nat.sub_zero]
    have : (names c)[p]? = some ((names c)[p]'(by rw [names_length]; exact hp)) :=
      List.getElem?_eq_getElem (by rw [names_length]; exact hp)
    rw [this]; simp [hp]
  · have hlen : ((names c).map some).length = size c := by simp [names_length]
    rw [List.getElem?_append_right (by omega), hlen]
    constructor
    · intro h
      cases hq : p - size c with
      | zero => rw [hq] at h; simp at h
      | succ k => rw [hq] at h; simp at h
    · intro h; exact absurd h.1 hp

theorem reach_iff_walk {c : CM} {ll : List (Option Name)} {fl : List StateSet} {head : StateSet}
    (D : DfaData c ll fl head) :
    ∀ (w : List Name) (x : Name) (p : Nat),
      Reach ll fl p (x :: w) (size c) ↔
        ∃ r, walk (fol c 0) (last c 0) p r = true ∧ (p :: r).map (nameAt c 0) = x :: w := by
  intro w
  induction w with
  | nil =>
    intro x p
    simp only [Reach, ll_name D.ll_eq]
    constructor
    · rintro ⟨⟨hp, hn⟩, p', hf, rfl⟩
      rw [D.fl_eq] at hf
      simp only [decide_true, Bool.and_true, Bool.or_eq_true] at hf
      rcases hf with hf | hf
      · have := (fol_range hf).2; omega
      · exact ⟨[], hf, by simp [hn]⟩
    · rintro ⟨r, hw, hm⟩
      cases r with
      | nil =>
        simp at hm
        have hl : last c 0 p = true := hw
        have := last_range hl
        refine ⟨⟨by omega, hm⟩, size c, ?_, rfl⟩
        rw [D.fl_eq]; simp [hl]
      | cons q r => simp at hm
  | cons y w ih =>
    intro x p
    simp only [Reach] at ih ⊢
    rw [ll_name D.ll_eq]
    constructor
    · rintro ⟨⟨hp, hn⟩, p', hf, hr⟩
      have hp' : p' < size c := ((ll_name D.ll_eq p' y).1 hr.1).1
      obtain ⟨r, hw, hm⟩ := (ih y p').1 hr
      rw [D.fl_eq] at hf
      have hf' : fol c 0 p p' = true := by
        simp only [Bool.or_eq_true, Bool.and_eq_true, decide_eq_true_eq] at hf
        rcases hf with hf | ⟨_, hf⟩
        · exact hf
        · omega
      refine ⟨p' :: r, by simp [walk, hf', hw], ?_⟩
      simp only [List.map_cons] at hm ⊢
      rw [hn, hm]
    · rintro ⟨r, hw, hm⟩
      cases r with
      | nil => simp at hm
      | cons p' r =>
        simp only [walk, Bool.and_eq_true] at hw
        simp only [List.map_cons, List.cons.injEq] at hm
        have hpr := (fol_range hw.1).1
        refine ⟨⟨by omega, hm.1⟩, p', ?_, (ih y p').2 ⟨r, hw.2, by simp [hm.2]⟩⟩
        rw [D.fl_eq]; simp [hw.1]

/-- the subset automaton run from the initial state set ends in a set containing EOC iff the child
    sequence is in the language (non-empty sequences; the empty one is `emptyOk`) -/
theorem runMask_accepts {c : CM} {ll : List (Option Name)} {fl : List StateSet} {head : StateSet}
    (D : DfaData c ll fl head) (x : Name) (w : List Name) :
    (runMask ll fl head (x :: w)).testBit (size c) = true ↔ CM.Lang c (x :: w) := by
  rw [testBit_runMask, lang_iff_accepts c 0]
  constructor
  · rintro ⟨p, hp, hr⟩
    rw [D.head_eq] at hp
    have hpn : p < size c := ((ll_name D.ll_eq p x).1 hr.1).1
    have hf : first c 0 p = true := by
      simp only [Bool.or_eq_true, Bool.and_eq_true, decide_eq_true_eq] at hp
      rcases hp with hp | ⟨_, hp⟩
      · exact hp
      · omega
    obtain ⟨r, hw, hm⟩ := (reach_iff_walk D w x p).1 hr
    exact ⟨p :: r, by simp [accepts, hf, hw], hm⟩
  · rintro ⟨π, ha, hm⟩
    cases π with
    | nil => simp at hm
    | cons p r =>
      simp only [accepts, Bool.and_eq_true] at ha
      refine ⟨p, ?_, (reach_iff_walk D w x p).2 ⟨r, ha.2, hm⟩⟩
      rw [D.head_eq]; simp [ha.1]

theorem nullable_iff_lang_nil (c : CM) : nullable c = true ↔ CM.Lang c [] := by
  rw [lang_iff_accepts c 0]
  constructor
  · intro h; exact ⟨[], h, rfl⟩
  · rintro ⟨π, ha, hm⟩
    cases π with
    | nil => exact ha
    | cons p r => simp at hm

end XV.Lemmas.DfaRun
