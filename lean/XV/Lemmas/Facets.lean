/-
Helper lemmas for C09, facet part: the order laws `compareValues` must satisfy, the upper-bound / lower-bound / digits /
enumeration / length parts of a facet check, one restriction step, chains, the decimal and integer instances.
-/
import XV.Model.Facets
import XV.Lemmas.Decimal
set_option linter.unusedVariables false
set_option linter.unusedSimpArgs false
namespace XV.Lemmas.Facets
open XV.Spec.Facets XV.Model.Facets

variable {V : Type} (cmp : V → V → Int) (dg : V → Nat × Nat) (len : V → Nat)

/-- what the facet theorems need of `compareValues`: a total order compatible with its own equality -/
structure OrderLaws (cmp : V → V → Int) : Prop where
  total : ∀ a b, cmp a b = -1 ∨ cmp a b = 0 ∨ cmp a b = 1
  le_trans : ∀ a b c, cmp a b ≠ 1 → cmp b c ≠ 1 → cmp a c ≠ 1
  lt_of_le_of_lt : ∀ a b c, cmp a b ≠ 1 → cmp b c = -1 → cmp a c = -1
  lt_of_lt_of_le : ∀ a b c, cmp a b = -1 → cmp b c ≠ 1 → cmp a c = -1
  ge_trans : ∀ a b c, cmp a b ≠ -1 → cmp b c ≠ -1 → cmp a c ≠ -1
  gt_of_ge_of_gt : ∀ a b c, cmp a b ≠ -1 → cmp b c = 1 → cmp a c = 1
  gt_of_gt_of_ge : ∀ a b c, cmp a b = 1 → cmp b c ≠ -1 → cmp a c = 1
  congr : ∀ a b c, cmp a b = 0 → cmp a c = cmp b c

def maxPart (f : Step V) (v : V) : Bool :=
  (match f.maxExcl with | some m => cmp v m == -1 | none => true) &&
  (match f.maxIncl with | some m => cmp v m != 1 | none => true)

def minPart (f : Step V) (v : V) : Bool :=
  (match f.minIncl with | some m => cmp v m != -1 | none => true) &&
  (match f.minExcl with | some m => cmp v m == 1 | none => true)

theorem boundsCheck_parts (f : Step V) (v : V) : boundsCheck cmp f v = (maxPart cmp f v && minPart cmp f v) := by
  unfold boundsCheck maxPart minPart
  simp only [Bool.and_assoc]
  rfl

/-- at most one upper and one lower bound in force -/
def WF (f : Step V) : Prop := ¬ (f.maxIncl.isSome ∧ f.maxExcl.isSome) ∧ ¬ (f.minIncl.isSome ∧ f.minExcl.isSome)

theorem inspect_parts (b t : Step V) (h2 : inspectFacetBase cmp dg b t = true) :
    inspMaxIncl cmp b t = true ∧ inspMaxExcl cmp dg b t = true ∧ inspMinExcl cmp dg b t = true ∧
    inspMinIncl cmp b t = true ∧ inspDigits b t = true ∧ inspEnum cmp dg b t = true := by
  unfold inspectFacetBase at h2
  simp only [Bool.and_eq_true] at h2
  exact ⟨h2.1.1.1.1.1.1, h2.1.1.1.1.1.2, h2.1.1.1.1.2, h2.1.1.1.2, h2.1.1.2, h2.1.2⟩

theorem max_part (L : OrderLaws cmp) (b t : Step V) (v : V) (hwf : WF b)
    (h1 : inspectFacet cmp t = true) (h2 : inspectFacetBase cmp dg b t = true) :
    maxPart cmp (inheritFacet b t) v = (maxPart cmp b v && maxPart cmp t v) := by
  obtain ⟨p1, p2, p3, p4, _, _⟩ := inspect_parts cmp dg b t h2
  have a1 := p1
  have a2 := p2
  have hx : (t.maxExcl.isSome && t.maxIncl.isSome) = false := by
    unfold inspectFacet at h1; simp only [Bool.and_eq_true, Bool.not_eq_true'] at h1; exact h1.1.1.1.1.1.1
  unfold WF at hwf
  unfold inspMaxIncl at a1
  unfold inspMaxExcl at a2
  unfold maxPart inheritFacet
  cases htI : t.maxIncl with
  | none =>
    cases htE : t.maxExcl with
    | none => cases hbI : b.maxIncl <;> cases hbE : b.maxExcl <;> simp [htI, htE, hbI, hbE]
    | some Mx =>
      cases hbI : b.maxIncl with
      | none =>
        cases hbE : b.maxExcl with
        | none => simp [htI, htE, hbI, hbE]
        | some Bx =>
          simp only [htI, htE, hbI, hbE, Option.isSome_some, Option.isSome_none, Bool.and_eq_true, Bool.not_eq_true',
      Bool.and_true, Bool.true_and, Bool.and_false, Bool.false_and, Bool.not_true, Bool.not_false, if_true, if_false,
      Bool.false_eq_true, Bool.and_self, not_and, not_true, not_false_iff, true_and, and_true, INDETERMINATE,
      Bool.or_eq_false_iff, beq_iff_eq, bne_iff_ne, beq_eq_false_iff_ne, ne_eq, Bool.or_eq_true] at a1 a2 hx hwf ⊢
          have := L.lt_of_lt_of_le v Mx Bx
          (rw [Bool.eq_iff_iff]; simp only [Bool.and_eq_true, beq_iff_eq, bne_iff_ne, ne_eq]; omega)
      | some B =>
        cases hbE : b.maxExcl with
        | none =>
          simp only [htI, htE, hbI, hbE, Option.isSome_some, Option.isSome_none, Bool.and_eq_true, Bool.not_eq_true',
      Bool.and_true, Bool.true_and, Bool.and_false, Bool.false_and, Bool.not_true, Bool.not_false, if_true, if_false,
      Bool.false_eq_true, Bool.and_self, not_and, not_true, not_false_iff, true_and, and_true, INDETERMINATE,
      Bool.or_eq_false_iff, beq_iff_eq, bne_iff_ne, beq_eq_false_iff_ne, ne_eq, Bool.or_eq_true] at a1 a2 hx hwf ⊢
          have := L.lt_of_lt_of_le v Mx B
          (rw [Bool.eq_iff_iff]; simp only [Bool.and_eq_true, beq_iff_eq, bne_iff_ne, ne_eq]; omega)
        | some Bx => simp [hbI, hbE] at hwf
  | some M =>
    cases htE : t.maxExcl with
    | some Mx => simp [htI, htE] at hx
    | none =>
      cases hbI : b.maxIncl with
      | none =>
        cases hbE : b.maxExcl with
        | none => simp [htI, htE, hbI, hbE]
        | some Bx =>
          simp only [htI, htE, hbI, hbE, Option.isSome_some, Option.isSome_none, Bool.and_eq_true, Bool.not_eq_true',
      Bool.and_true, Bool.true_and, Bool.and_false, Bool.false_and, Bool.not_true, Bool.not_false, if_true, if_false,
      Bool.false_eq_true, Bool.and_self, not_and, not_true, not_false_iff, true_and, and_true, INDETERMINATE,
      Bool.or_eq_false_iff, beq_iff_eq, bne_iff_ne, beq_eq_false_iff_ne, ne_eq, Bool.or_eq_true] at a1 a2 hx hwf ⊢
          have := L.lt_of_le_of_lt v M Bx
          (rw [Bool.eq_iff_iff]; simp only [Bool.and_eq_true, beq_iff_eq, bne_iff_ne, ne_eq]; omega)
      | some B =>
        cases hbE : b.maxExcl with
        | none =>
          simp only [htI, htE, hbI, hbE, Option.isSome_some, Option.isSome_none, Bool.and_eq_true, Bool.not_eq_true',
      Bool.and_true, Bool.true_and, Bool.and_false, Bool.false_and, Bool.not_true, Bool.not_false, if_true, if_false,
      Bool.false_eq_true, Bool.and_self, not_and, not_true, not_false_iff, true_and, and_true, INDETERMINATE,
      Bool.or_eq_false_iff, beq_iff_eq, bne_iff_ne, beq_eq_false_iff_ne, ne_eq, Bool.or_eq_true] at a1 a2 hx hwf ⊢
          have := L.le_trans v M B
          (rw [Bool.eq_iff_iff]; simp only [Bool.and_eq_true, beq_iff_eq, bne_iff_ne, ne_eq]; omega)
        | some Bx => simp [hbI, hbE] at hwf

theorem min_part (L : OrderLaws cmp) (b t : Step V) (v : V) (hwf : WF b)
    (h1 : inspectFacet cmp t = true) (h2 : inspectFacetBase cmp dg b t = true) :
    minPart cmp (inheritFacet b t) v = (minPart cmp b v && minPart cmp t v) := by
  obtain ⟨p1, p2, p3, p4, _, _⟩ := inspect_parts cmp dg b t h2
  have a1 := p4
  have a2 := p3
  have hx : (t.minExcl.isSome && t.minIncl.isSome) = false := by
    unfold inspectFacet at h1; simp only [Bool.and_eq_true, Bool.not_eq_true'] at h1; exact h1.1.1.1.1.1.2
  unfold WF at hwf
  unfold inspMinIncl at a1
  unfold inspMinExcl at a2
  unfold minPart inheritFacet
  cases htI : t.minIncl with
  | none =>
    cases htE : t.minExcl with
    | none => cases hbI : b.minIncl <;> cases hbE : b.minExcl <;> simp [htI, htE, hbI, hbE]
    | some Mx =>
      cases hbI : b.minIncl with
      | none =>
        cases hbE : b.minExcl with
        | none => simp [htI, htE, hbI, hbE]
        | some Bx =>
          simp only [htI, htE, hbI, hbE, Option.isSome_some, Option.isSome_none, Bool.and_eq_true, Bool.not_eq_true',
      Bool.and_true, Bool.true_and, Bool.and_false, Bool.false_and, Bool.not_true, Bool.not_false, if_true, if_false,
      Bool.false_eq_true, Bool.and_self, not_and, not_true, not_false_iff, true_and, and_true, INDETERMINATE,
      Bool.or_eq_false_iff, beq_iff_eq, bne_iff_ne, beq_eq_false_iff_ne, ne_eq, Bool.or_eq_true] at a1 a2 hx hwf ⊢
          have := L.gt_of_gt_of_ge v Mx Bx
          (rw [Bool.eq_iff_iff]; simp only [Bool.and_eq_true, beq_iff_eq, bne_iff_ne, ne_eq]; omega)
      | some B =>
        cases hbE : b.minExcl with
        | none =>
          simp only [htI, htE, hbI, hbE, Option.isSome_some, Option.isSome_none, Bool.and_eq_true, Bool.not_eq_true',
      Bool.and_true, Bool.true_and, Bool.and_false, Bool.false_and, Bool.not_true, Bool.not_false, if_true, if_false,
      Bool.false_eq_true, Bool.and_self, not_and, not_true, not_false_iff, true_and, and_true, INDETERMINATE,
      Bool.or_eq_false_iff, beq_iff_eq, bne_iff_ne, beq_eq_false_iff_ne, ne_eq, Bool.or_eq_true] at a1 a2 hx hwf ⊢
          have := L.gt_of_gt_of_ge v Mx B
          (rw [Bool.eq_iff_iff]; simp only [Bool.and_eq_true, beq_iff_eq, bne_iff_ne, ne_eq]; omega)
        | some Bx => simp [hbI, hbE] at hwf
  | some M =>
    cases htE : t.minExcl with
    | some Mx => simp [htI, htE] at hx
    | none =>
      cases hbI : b.minIncl with
      | none =>
        cases hbE : b.minExcl with
        | none => simp [htI, htE, hbI, hbE]
        | some Bx =>
          simp only [htI, htE, hbI, hbE, Option.isSome_some, Option.isSome_none, Bool.and_eq_true, Bool.not_eq_true',
      Bool.and_true, Bool.true_and, Bool.and_false, Bool.false_and, Bool.not_true, Bool.not_false, if_true, if_false,
      Bool.false_eq_true, Bool.and_self, not_and, not_true, not_false_iff, true_and, and_true, INDETERMINATE,
      Bool.or_eq_false_iff, beq_iff_eq, bne_iff_ne, beq_eq_false_iff_ne, ne_eq, Bool.or_eq_true] at a1 a2 hx hwf ⊢
          have := L.gt_of_ge_of_gt v M Bx
          (rw [Bool.eq_iff_iff]; simp only [Bool.and_eq_true, beq_iff_eq, bne_iff_ne, ne_eq]; omega)
      | some B =>
        cases hbE : b.minExcl with
        | none =>
          simp only [htI, htE, hbI, hbE, Option.isSome_some, Option.isSome_none, Bool.and_eq_true, Bool.not_eq_true',
      Bool.and_true, Bool.true_and, Bool.and_false, Bool.false_and, Bool.not_true, Bool.not_false, if_true, if_false,
      Bool.false_eq_true, Bool.and_self, not_and, not_true, not_false_iff, true_and, and_true, INDETERMINATE,
      Bool.or_eq_false_iff, beq_iff_eq, bne_iff_ne, beq_eq_false_iff_ne, ne_eq, Bool.or_eq_true] at a1 a2 hx hwf ⊢
          have := L.ge_trans v M B
          (rw [Bool.eq_iff_iff]; simp only [Bool.and_eq_true, beq_iff_eq, bne_iff_ne, ne_eq]; omega)
        | some Bx => simp [hbI, hbE] at hwf

def enumPart (f : Step V) (v : V) : Bool :=
  match f.enumeration with | some es => es.any (fun e => cmp v e == 0) | none => true

def digitsPart (f : Step V) (v : V) : Bool :=
  (match f.fractionDigits with | some n => !((dg v).2 > n) | none => true) &&
  (match f.totalDigits with | some n => !((dg v).1 > n) | none => true)

theorem checkNumeric_parts (f : Step V) (v : V) :
    checkNumeric cmp dg f v = (enumPart cmp f v && (maxPart cmp f v && minPart cmp f v) && digitsPart dg f v) := by
  unfold checkNumeric enumPart digitsPart
  rw [boundsCheck_parts]
  simp only [Bool.and_assoc]
  rfl

theorem digits_part (b t : Step V) (v : V) (h : inspDigits b t = true) :
    digitsPart dg (inheritFacet b t) v = (digitsPart dg b v && digitsPart dg t v) := by
  unfold inspDigits at h
  unfold digitsPart inheritFacet
  cases h1 : t.totalDigits <;> cases h2 : t.fractionDigits <;> cases h3 : b.totalDigits <;> cases h4 : b.fractionDigits <;>
    simp only [h1, h2, h3, h4, Option.isSome_some, Option.isSome_none, Bool.and_eq_true, Bool.not_eq_true',
      Bool.and_true, Bool.true_and, Bool.not_true, Bool.not_false, if_true, if_false, Bool.false_eq_true,
      Bool.and_self, decide_eq_false_iff_not, decide_eq_true_eq] at h ⊢ <;>
    (rw [Bool.eq_iff_iff]; simp only [Bool.and_eq_true, Bool.not_eq_true', decide_eq_false_iff_not, true_and, and_true]; omega)

/-- equal values (compare 0, same digit counts) get the same verdict -/
theorem check_congr (L : OrderLaws cmp) (f : Step V) (v e : V) (h : cmp v e = 0) (hd : dg v = dg e) :
    checkNumeric cmp dg f v = checkNumeric cmp dg f e := by
  unfold checkNumeric boundsCheck
  have hc : ∀ m, cmp v m = cmp e m := fun m => L.congr v e m h
  simp only [hc, hd]

theorem wf_inherit (b t : Step V) (hwf : WF b) (h1 : inspectFacet cmp t = true) : WF (inheritFacet b t) := by
  unfold WF at *
  unfold inspectFacet at h1
  simp only [Bool.and_eq_true, Bool.not_eq_true'] at h1
  have x1 := h1.1.1.1.1.1.1
  have x2 := h1.1.1.1.1.1.2
  unfold inheritFacet
  cases a1 : t.maxIncl <;> cases a2 : t.maxExcl <;> cases a3 : b.maxIncl <;> cases a4 : b.maxExcl <;>
  cases c1 : t.minIncl <;> cases c2 : t.minExcl <;> cases c3 : b.minIncl <;> cases c4 : b.minExcl <;>
    simp [a1, a2, a3, a4, c1, c2, c3, c4] at hwf x1 x2 ⊢

/-- one restriction step: what `inheritFacet` leaves in force accepts exactly what the base and the step accept -/
theorem step_conj (L : OrderLaws cmp) (hdg : ∀ a e, cmp a e = 0 → dg a = dg e) (b t : Step V) (v : V) (hwf : WF b)
    (h1 : inspectFacet cmp t = true) (h2 : inspectFacetBase cmp dg b t = true) :
    checkNumeric cmp dg (inheritFacet b t) v = (checkNumeric cmp dg b v && checkNumeric cmp dg t v) := by
  obtain ⟨_, _, _, _, p5, p6⟩ := inspect_parts cmp dg b t h2
  have hmax := max_part cmp dg L b t v hwf h1 h2
  have hmin := min_part cmp dg L b t v hwf h1 h2
  have hdig := digits_part dg b t v p5
  rw [checkNumeric_parts, checkNumeric_parts cmp dg b, checkNumeric_parts cmp dg t, hmax, hmin, hdig]
  cases he : t.enumeration with
  | none =>
    have e1 : enumPart cmp (inheritFacet b t) v = enumPart cmp b v := by
      unfold enumPart inheritFacet; cases hb : b.enumeration <;> simp [he, hb]
    have e2 : enumPart cmp t v = true := by unfold enumPart; rw [he]
    rw [e1, e2]
    cases enumPart cmp b v <;> cases maxPart cmp b v <;> cases maxPart cmp t v <;> cases minPart cmp b v <;>
      cases minPart cmp t v <;> cases digitsPart dg b v <;> cases digitsPart dg t v <;> rfl
  | some E =>
    have e1 : enumPart cmp (inheritFacet b t) v = enumPart cmp t v := by
      unfold enumPart inheritFacet; cases hb : b.enumeration <;> simp [he, hb]
    rw [e1]
    -- if v is in the step's enumeration, the base accepts it (its enumeration included): inspEnum + congruence
    have key : enumPart cmp t v = true → checkNumeric cmp dg b v = true := by
      intro hv
      unfold enumPart at hv; rw [he] at hv
      simp only [List.any_eq_true, beq_iff_eq] at hv
      obtain ⟨e, hmem, hce⟩ := hv
      unfold inspEnum at p6; rw [he] at p6
      simp only [List.all_eq_true] at p6
      have := p6 e hmem
      unfold fromBase at this
      rw [check_congr cmp dg L b v e hce (hdg v e hce)]; exact this
    rw [checkNumeric_parts cmp dg b] at key
    cases ht : enumPart cmp t v with
    | false => simp
    | true =>
      have := key ht
      simp only [Bool.and_eq_true] at this
      obtain ⟨⟨k1, k2, k3⟩, k4⟩ := this
      rw [k1, k2, k3, k4]
      simp

/-- any number of steps -/
theorem chain_conj (L : OrderLaws cmp) (hdg : ∀ a e, cmp a e = 0 → dg a = dg e) (steps : List (Step V)) :
    ∀ base : Step V, WF base → validFrom cmp dg base steps = true → ∀ v,
      checkNumeric cmp dg (effective base steps) v =
        (checkNumeric cmp dg base v && steps.all (fun s => checkNumeric cmp dg s v)) := by
  induction steps with
  | nil => intro base _ _ v; simp [effective]
  | cons t r ih =>
    intro base hwf hv v
    unfold validFrom at hv
    simp only [Bool.and_eq_true] at hv
    obtain ⟨⟨h1, h2⟩, h3⟩ := hv
    have := ih (inheritFacet base t) (wf_inherit cmp base t hwf h1) h3 v
    unfold effective at this ⊢
    rw [List.foldl_cons, this, step_conj cmp dg L hdg base t v hwf h1 h2]
    simp only [List.all_cons, Bool.and_assoc]

/-- boundsCheck + digits + enumeration say what §4.3 says (inclusive: ≤ / ≥, exclusive: < / >) -/
theorem checkNumeric_spec (L : OrderLaws cmp) (f : Step V) (v : V)
    (hl : f.length = none ∧ f.minLength = none ∧ f.maxLength = none) :
    checkNumeric cmp dg f v = true ↔ stepOk cmp dg len f v := by
  unfold checkNumeric boundsCheck stepOk
  obtain ⟨l1, l2, l3⟩ := hl
  rw [l1, l2, l3]
  simp only [Bool.and_eq_true]
  constructor
  · rintro ⟨⟨⟨he, ⟨⟨⟨b1, b2⟩, b3⟩, b4⟩⟩, hf⟩, ht⟩
    refine ⟨?_, ?_, ?_, ?_, ?_, ?_, (by intro n h; cases h), (by intro n h; cases h), (by intro n h; cases h), ?_⟩
    · intro m hm; rw [hm] at b2; have := L.total v m; simp at b2; omega
    · intro m hm; rw [hm] at b1; simpa using b1
    · intro m hm; rw [hm] at b3; have := L.total v m; simp at b3; omega
    · intro m hm; rw [hm] at b4; simpa using b4
    · intro n hn; rw [hn] at ht; simp at ht; omega
    · intro n hn; rw [hn] at hf; simp at hf; omega
    · intro es hes; rw [hes] at he; simpa using he
  · rintro ⟨s1, s2, s3, s4, s5, s6, _, _, _, s10⟩
    refine ⟨⟨⟨?_, ⟨⟨⟨?_, ?_⟩, ?_⟩, ?_⟩⟩, ?_⟩, ?_⟩
    · cases he : f.enumeration with
      | none => rfl
      | some es => simpa using s10 es he
    · cases h : f.maxExcl with
      | none => rfl
      | some m => simpa using s2 m h
    · cases h : f.maxIncl with
      | none => rfl
      | some m => have := s1 m h; simp; omega
    · cases h : f.minIncl with
      | none => rfl
      | some m => have := s3 m h; simp; omega
    · cases h : f.minExcl with
      | none => rfl
      | some m => simpa using s4 m h
    · cases h : f.fractionDigits with
      | none => rfl
      | some n => have := s6 n h; simp; omega
    · cases h : f.totalDigits with
      | none => rfl
      | some n => have := s5 n h; simp; omega

/-! ### string length facets -/

def lenPart (f : Step V) (v : V) : Bool :=
  (match f.maxLength with | some n => !(len v > n) | none => true) &&
  (match f.minLength with | some n => !(len v < n) | none => true) &&
  (match f.length with | some n => len v == n | none => true)

theorem checkString_parts (f : Step V) (v : V) : checkString cmp len f v = (lenPart len f v && enumPart cmp f v) := rfl

theorem len_part (b t : Step V) (v : V) (h1 : inspectFacetS t = true) (h2 : inspectFacetBaseS cmp len b t = true) :
    lenPart len (inheritFacetS b t) v = (lenPart len b v && lenPart len t v) := by
  unfold inspectFacetS at h1
  unfold inspectFacetBaseS at h2
  unfold lenPart inheritFacetS
  cases a1 : t.length <;> cases a2 : t.minLength <;> cases a3 : t.maxLength <;>
  cases c1 : b.length <;> cases c2 : b.minLength <;> cases c3 : b.maxLength <;>
    simp only [a1, a2, a3, c1, c2, c3, Option.isSome_some, Option.isSome_none, Bool.and_eq_true, Bool.not_eq_true',
      Bool.and_true, Bool.true_and, Bool.not_true, Bool.not_false, if_true, if_false, Bool.false_eq_true, Bool.or_false,
      Bool.or_true, Bool.and_self, decide_eq_false_iff_not, decide_eq_true_eq, bne_iff_ne, ne_eq, Bool.and_false,
      Bool.false_and, Bool.or_self, beq_iff_eq] at h1 h2 ⊢ <;>
    first
      | (rw [Bool.eq_iff_iff]; simp only [Bool.and_eq_true, Bool.not_eq_true', decide_eq_false_iff_not, true_and, and_true,
          bne_iff_ne, ne_eq, Decidable.not_not, bne_eq_false_iff_eq, beq_iff_eq]; omega)
      | (simp at h1)

/-- string types: one step -/
theorem step_conj_S (hcmp : ∀ a e c, cmp a e = 0 → cmp a c = cmp e c) (hlen : ∀ a e, cmp a e = 0 → len a = len e)
    (b t : Step V) (v : V) (h1 : inspectFacetS t = true) (h2 : inspectFacetBaseS cmp len b t = true) :
    checkString cmp len (inheritFacetS b t) v = (checkString cmp len b v && checkString cmp len t v) := by
  have hl := len_part cmp len b t v h1 h2
  rw [checkString_parts, checkString_parts cmp len b, checkString_parts cmp len t, hl]
  have p6 : (match t.enumeration with | some es => es.all (fun e => checkString cmp len b e) | none => true) = true := by
    unfold inspectFacetBaseS at h2; simp only [Bool.and_eq_true] at h2; exact h2.2
  cases he : t.enumeration with
  | none =>
    have e1 : enumPart cmp (inheritFacetS b t) v = enumPart cmp b v := by
      unfold enumPart inheritFacetS; cases hb : b.enumeration <;> simp [he, hb]
    have e2 : enumPart cmp t v = true := by unfold enumPart; rw [he]
    rw [e1, e2]
    cases enumPart cmp b v <;> cases lenPart len b v <;> cases lenPart len t v <;> rfl
  | some E =>
    have e1 : enumPart cmp (inheritFacetS b t) v = enumPart cmp t v := by
      unfold enumPart inheritFacetS; cases hb : b.enumeration <;> simp [he, hb]
    rw [e1]
    have key : enumPart cmp t v = true → checkString cmp len b v = true := by
      intro hv
      unfold enumPart at hv; rw [he] at hv
      simp only [List.any_eq_true, beq_iff_eq] at hv
      obtain ⟨e, hmem, hce⟩ := hv
      rw [he] at p6
      simp only [List.all_eq_true] at p6
      have := p6 e hmem
      have hc : checkString cmp len b v = checkString cmp len b e := by
        unfold checkString
        have : ∀ m, cmp v m = cmp e m := fun m => hcmp v e m hce
        simp only [this, hlen v e hce]
      rw [hc]; exact this
    rw [checkString_parts cmp len b] at key
    cases ht : enumPart cmp t v with
    | false => simp
    | true =>
      have := key ht
      simp only [Bool.and_eq_true] at this
      rw [this.1, this.2]; simp

theorem chain_conj_S (hcmp : ∀ a e c, cmp a e = 0 → cmp a c = cmp e c) (hlen : ∀ a e, cmp a e = 0 → len a = len e)
    (steps : List (Step V)) :
    ∀ base : Step V, validFromS cmp len base steps = true → ∀ v,
      checkString cmp len (effectiveS base steps) v =
        (checkString cmp len base v && steps.all (fun s => checkString cmp len s v)) := by
  induction steps with
  | nil => intro base _ v; simp [effectiveS]
  | cons t r ih =>
    intro base hv v
    unfold validFromS at hv
    simp only [Bool.and_eq_true] at hv
    obtain ⟨⟨h1, h2⟩, h3⟩ := hv
    have := ih (inheritFacetS base t) h3 v
    unfold effectiveS at this ⊢
    rw [List.foldl_cons, this, step_conj_S cmp len hcmp hlen base t v h1 h2]
    simp only [List.all_cons, Bool.and_assoc]

/-! ### list, union -/

theorem unionCheck_go (members : List (List Nat → Bool)) (s : List Nat) (i : Nat) :
    unionCheck.go s members i = (members.findIdx? (fun m => m s)).map (· + i) := by
  induction members generalizing i with
  | nil => rfl
  | cons m r ih =>
    unfold unionCheck.go
    rw [List.findIdx?_cons]
    by_cases h : m s = true
    · simp [h]
    · simp only [h, Bool.false_eq_true, if_false]
      rw [ih (i + 1)]
      cases List.findIdx? (fun m => m s) r with
      | none => rfl
      | some k => simp [Nat.add_assoc, Nat.add_comm 1 i]

/-! ### instances of the order laws -/

def intCmp (a b : Int) : Int := if a < b then -1 else if b < a then 1 else 0

theorem intLaws : OrderLaws intCmp := by
  constructor <;> intros <;> simp only [intCmp] at * <;> (repeat' split at *) <;> omega

open XV.Spec.Decimal XV.Lemmas.Decimal in
/-- the order of decimal values -/
def decCmp (a b : Int × Nat) : Int := ordInt (cmpSpec a b)

open XV.Spec.Decimal XV.Lemmas.Decimal in
theorem decCmp_cases (a b : Int × Nat) :
    (decCmp a b = -1 ↔ a.1 * 10 ^ b.2 < b.1 * 10 ^ a.2) ∧ (decCmp a b = 0 ↔ a.1 * 10 ^ b.2 = b.1 * 10 ^ a.2) ∧
    (decCmp a b = 1 ↔ b.1 * 10 ^ a.2 < a.1 * 10 ^ b.2) := by
  have hlt := cmpSpec_lt_iff a b
  have heq := cmpSpec_eq_iff a b
  have hgt : cmpSpec a b = .gt ↔ b.1 * 10 ^ a.2 < a.1 * 10 ^ b.2 := by
    rw [← cmpSpec_lt_iff b a, cmpSpec_swap a b]; cases cmpSpec a b <;> simp [Ordering.swap]
  unfold decCmp
  cases hc : cmpSpec a b
  · rw [hc] at hlt heq hgt
    have x1 := hlt.mp rfl
    refine ⟨⟨fun _ => x1, fun _ => rfl⟩, ⟨fun h => absurd h (by decide), fun h => by omega⟩,
      ⟨fun h => absurd h (by decide), fun h => by omega⟩⟩
  · rw [hc] at hlt heq hgt
    have x1 := heq.mp rfl
    refine ⟨⟨fun h => absurd h (by decide), fun h => by omega⟩, ⟨fun _ => x1, fun _ => rfl⟩,
      ⟨fun h => absurd h (by decide), fun h => by omega⟩⟩
  · rw [hc] at hlt heq hgt
    have x1 := hgt.mp rfl
    refine ⟨⟨fun h => absurd h (by decide), fun h => by omega⟩, ⟨fun h => absurd h (by decide), fun h => by omega⟩,
      ⟨fun _ => x1, fun _ => rfl⟩⟩

open XV.Spec.Decimal XV.Lemmas.Decimal in
theorem decLaws : OrderLaws decCmp := by
  have T : ∀ a b : Int × Nat, decCmp a b = -1 ∨ decCmp a b = 0 ∨ decCmp a b = 1 := by
    intro a b; unfold decCmp; cases cmpSpec a b <;> simp [ordInt]
  have ne1 : ∀ a b : Int × Nat, decCmp a b ≠ 1 ↔ a.1 * 10 ^ b.2 ≤ b.1 * 10 ^ a.2 := by
    intro a b; rw [Ne, (decCmp_cases a b).2.2]; omega
  have neM : ∀ a b : Int × Nat, decCmp a b ≠ -1 ↔ b.1 * 10 ^ a.2 ≤ a.1 * 10 ^ b.2 := by
    intro a b; rw [Ne, (decCmp_cases a b).1]; omega
  refine ⟨T, ?_, ?_, ?_, ?_, ?_, ?_, ?_⟩
  · intro a b c h1 h2
    rw [ne1] at *
    rcases Int.lt_or_eq_of_le h2 with h | h
    · exact Int.le_of_lt (cross_lt_trans a b c h1 h)
    · rcases Int.lt_or_eq_of_le h1 with h' | h'
      · exact Int.le_of_lt (cross_lt_trans' a b c h' h2)
      · exact Int.le_of_eq (cross_eq_trans a b c h' h)
  · intro a b c h1 h2
    rw [ne1] at h1; rw [(decCmp_cases b c).1] at h2; rw [(decCmp_cases a c).1]
    exact cross_lt_trans a b c h1 h2
  · intro a b c h1 h2
    rw [ne1] at h2; rw [(decCmp_cases a b).1] at h1; rw [(decCmp_cases a c).1]
    exact cross_lt_trans' a b c h1 h2
  · intro a b c h1 h2
    rw [neM] at *
    rcases Int.lt_or_eq_of_le h2 with h | h
    · exact Int.le_of_lt (cross_lt_trans' c b a h h1)
    · rcases Int.lt_or_eq_of_le h1 with h' | h'
      · exact Int.le_of_lt (cross_lt_trans c b a h2 h')
      · exact Int.le_of_eq (cross_eq_trans c b a h h')
  · intro a b c h1 h2
    rw [neM] at h1; rw [(decCmp_cases b c).2.2] at h2; rw [(decCmp_cases a c).2.2]
    exact cross_lt_trans' c b a h2 h1
  · intro a b c h1 h2
    rw [neM] at h2; rw [(decCmp_cases a b).2.2] at h1; rw [(decCmp_cases a c).2.2]
    exact cross_lt_trans c b a h2 h1
  · intro a b c h
    rw [(decCmp_cases a b).2.1] at h
    have hba : b.1 * 10 ^ a.2 = a.1 * 10 ^ b.2 := h.symm
    rcases T a c with x | x | x
    · rw [x]; symm; rw [(decCmp_cases b c).1]; rw [(decCmp_cases a c).1] at x
      exact cross_lt_trans b a c (Int.le_of_eq hba) x
    · rw [x]; symm; rw [(decCmp_cases b c).2.1]; rw [(decCmp_cases a c).2.1] at x
      exact cross_eq_trans b a c hba x
    · rw [x]; symm; rw [(decCmp_cases b c).2.2]; rw [(decCmp_cases a c).2.2] at x
      exact cross_lt_trans' c a b x (Int.le_of_eq h)

end XV.Lemmas.Facets
