/- Round-trip lemmas for the scanning combinators of the XML reference recogniser (XV.Spec.Xml.Lex). -/
import XV.Spec.Xml
namespace XV.Lemmas.Xml
open XV.Spec.Xml XV.Spec.XmlChar

/-- the text does not start with a character satisfying `p` -/
def HeadNot (p : Char → Bool) : Str → Prop
  | [] => True
  | c :: _ => p c = false

theorem HeadNot.cons {p : Char → Bool} {c : Char} {t : Str} (h : p c = false) : HeadNot p (c :: t) := h

/-! ### spanP -/

theorem spanP_append (p : Char → Bool) : ∀ (a rest : Str), (∀ c ∈ a, p c = true) → HeadNot p rest →
    spanP p (a ++ rest) = (a, rest)
  | [], rest, _, h => by
    cases rest with
    | nil => rfl
    | cons c t => simp only [List.nil_append, spanP]; rw [if_neg]; simpa [HeadNot] using h
  | c :: a, rest, ha, h => by
    have hc : p c = true := ha c (List.mem_cons_self ..)
    have ih := spanP_append p a rest (fun d hd => ha d (List.mem_cons_of_mem _ hd)) h
    simp only [List.cons_append, spanP, hc, if_true, ih]

theorem spanP_sound (p : Char → Bool) : ∀ (s : Str),
    s = (spanP p s).1 ++ (spanP p s).2 ∧ (∀ c ∈ (spanP p s).1, p c = true) ∧ HeadNot p (spanP p s).2
  | [] => by simp [spanP, HeadNot]
  | c :: t => by
    have ih := spanP_sound p t
    by_cases hc : p c = true
    · simp only [spanP, hc, if_true]
      refine ⟨by rw [List.cons_append, ← ih.1], ?_, ih.2.2⟩
      intro d hd
      rcases List.mem_cons.mp hd with rfl | hd
      · exact hc
      · exact ih.2.1 d hd
    · simp only [spanP, hc]
      refine ⟨rfl, by simp, ?_⟩
      simpa [HeadNot] using hc

theorem spanP_eq {p : Char → Bool} {s a r : Str} (h : spanP p s = (a, r)) :
    s = a ++ r ∧ (∀ c ∈ a, p c = true) ∧ HeadNot p r := by
  have := spanP_sound p s
  rw [h] at this
  exact this

theorem spanP_fst_all (p : Char → Bool) (s : Str) : ((spanP p s).1.all p) = true := by
  rw [List.all_eq_true]; exact (spanP_sound p s).2.1

/-! ### stripPrefix -/

theorem stripPrefix_append : ∀ (p r : Str), stripPrefix p (p ++ r) = some r
  | [], r => by cases r <;> rfl
  | c :: p, r => by simp [stripPrefix, stripPrefix_append p r]

theorem stripPrefix_sound : ∀ (p s r : Str), stripPrefix p s = some r → s = p ++ r
  | [], s, r, h => by cases s <;> simp [stripPrefix] at h <;> simp [h]
  | c :: p, [], r, h => by simp [stripPrefix] at h
  | c :: p, d :: s, r, h => by
    simp only [stripPrefix] at h
    by_cases hcd : c = d
    · rw [if_pos hcd] at h
      rw [hcd, stripPrefix_sound p s r h]; rfl
    · rw [if_neg hcd] at h; cases h

theorem stripPrefix_head_ne {c d : Char} (p s : Str) (h : c ≠ d) : stripPrefix (c :: p) (d :: s) = none := by
  simp [stripPrefix, h]

theorem stripPrefix_nil_input {c : Char} (p : Str) : stripPrefix (c :: p) [] = none := rfl

/-- extending the text cannot destroy a match, nor create one if the text was already long enough -/
theorem stripPrefix_ext : ∀ (p x r y : Str), stripPrefix p x = some y → stripPrefix p (x ++ r) = some (y ++ r)
  | [], x, r, y, h => by cases x <;> simp [stripPrefix] at h <;> simp [stripPrefix, h] <;> cases r <;> simp [stripPrefix]
  | c :: p, [], r, y, h => by simp [stripPrefix] at h
  | c :: p, d :: x, r, y, h => by
    simp only [stripPrefix] at h
    by_cases hcd : c = d
    · rw [if_pos hcd] at h
      simp only [List.cons_append, stripPrefix, if_pos hcd]
      exact stripPrefix_ext p x r y h
    · rw [if_neg hcd] at h; cases h

theorem stripPrefix_none_ext : ∀ (p x r : Str), stripPrefix p x = none → p.length ≤ x.length →
    stripPrefix p (x ++ r) = none
  | [], x, r, h, _ => by cases x <;> simp [stripPrefix] at h
  | c :: p, [], r, _, hl => by simp at hl
  | c :: p, d :: x, r, h, hl => by
    simp only [stripPrefix] at h
    simp only [List.cons_append, stripPrefix]
    by_cases hcd : c = d
    · rw [if_pos hcd] at h ⊢
      exact stripPrefix_none_ext p x r h (by simpa using hl)
    · rw [if_neg hcd]

/-! ### scanUntil / noEarly -/

theorem scanUntil_render (nd : Str) (hnd : nd ≠ []) : ∀ (a r : Str), noEarly nd a = true →
    scanUntil nd (a ++ nd ++ r) = some (a, r)
  | [], r, _ => by
    cases nd with
    | nil => exact absurd rfl hnd
    | cons n0 nd' =>
      simp only [List.nil_append, List.cons_append, scanUntil]
      have := stripPrefix_append (n0 :: nd') r
      simp only [List.cons_append] at this
      rw [this]
  | c :: t, r, h => by
    simp only [noEarly, Bool.and_eq_true, Option.isNone_iff_eq_none] at h
    have h1 : stripPrefix nd (c :: t ++ nd ++ r) = none :=
      stripPrefix_none_ext nd (c :: t ++ nd) r h.1 (by simp; omega)
    have ih := scanUntil_render nd hnd t r h.2
    simp only [List.cons_append] at h1 ⊢
    simp only [scanUntil, h1]
    simp only [List.append_assoc] at ih
    simp only [List.append_assoc, ih]

theorem scanUntil_sound (nd : Str) : ∀ (s a r : Str), scanUntil nd s = some (a, r) →
    s = a ++ nd ++ r ∧ noEarly nd a = true
  | [], a, r, h => by simp [scanUntil] at h
  | c :: t, a, r, h => by
    simp only [scanUntil] at h
    cases hs : stripPrefix nd (c :: t) with
    | some r' =>
      rw [hs] at h
      simp only [Option.some.injEq, Prod.mk.injEq] at h
      obtain ⟨rfl, rfl⟩ := h
      have := stripPrefix_sound nd (c :: t) r' hs
      exact ⟨by simpa using this, rfl⟩
    | none =>
      rw [hs] at h
      cases hr : scanUntil nd t with
      | none => rw [hr] at h; cases h
      | some ar =>
        obtain ⟨a', r'⟩ := ar
        rw [hr] at h
        simp only [Option.some.injEq, Prod.mk.injEq] at h
        obtain ⟨rfl, rfl⟩ := h
        have ih := scanUntil_sound nd t a' r' hr
        refine ⟨by rw [ih.1]; simp, ?_⟩
        simp only [noEarly, Bool.and_eq_true, Option.isNone_iff_eq_none]
        refine ⟨?_, ih.2⟩
        -- a match on the shorter text would extend to the full text
        cases hm : stripPrefix nd (c :: a' ++ nd) with
        | none => rfl
        | some y =>
          have := stripPrefix_ext nd (c :: a' ++ nd) r' y hm
          have e : c :: a' ++ nd ++ r' = c :: t := by rw [ih.1]; simp
          rw [e, hs] at this
          cases this

end XV.Lemmas.Xml

namespace XV.Lemmas.Xml
open XV.Spec.Xml XV.Spec.XmlChar

/-! ### character-class facts -/

macro "class_arith" : tactic => `(tactic|
  (simp only [isSC, isNameStartC, isNameCharC, isDigitC, isHexC, isAlphaC, isEncNameC, isS, isNameStart, isNameChar, inRanges,
     List.any_cons, List.any_nil, inR, sChars, nameStart, nameCharExtra, Bool.or_eq_true, Bool.and_eq_true, Nat.ble_eq,
     Bool.or_false, Bool.false_eq_true, or_false, beq_iff_eq] at * <;> omega))

theorem nameStart_nameChar (c : Char) (h : isNameStartC c = true) : isNameCharC c = true := by
  simp only [isNameStartC, isNameCharC, isNameChar, isNameStart, Bool.or_eq_true] at *
  exact Or.inl h

theorem nameChar_notS (c : Char) (h : isNameCharC c = true) : isSC c = false := by
  cases hs : isSC c with
  | false => rfl
  | true => exfalso; generalize c.toNat = n at *; class_arith

theorem S_notNameChar (c : Char) (h : isSC c = true) : isNameCharC c = false := by
  cases hs : isNameCharC c with
  | false => rfl
  | true => rw [nameChar_notS c hs] at h; cases h

theorem S_notNameStart (c : Char) (h : isSC c = true) : isNameStartC c = false := by
  cases hs : isNameStartC c with
  | false => rfl
  | true => rw [nameChar_notS c (nameStart_nameChar c hs)] at h; cases h

/-- delimiters that are neither white space nor name characters -/
def isDelim (c : Char) : Bool :=
  c == '<' || c == '>' || c == '/' || c == '=' || c == '"' || c == '\'' || c == '&' || c == ';' || c == '?' ||
  c == '!' || c == '#' || c == '[' || c == ']' || c == '%' || c == '(' || c == ')' || c == '|' || c == ',' || c == '*' || c == '+'

theorem delim_notNameChar (c : Char) (h : isDelim c = true) : isNameCharC c = false := by
  simp only [isDelim, Bool.or_eq_true, beq_iff_eq] at h
  rcases h with ((((((((((((((((((( h | h ) | h ) | h ) | h ) | h ) | h ) | h ) | h ) | h ) | h ) | h ) | h ) | h ) | h ) | h ) | h ) | h ) | h ) | h ) <;> subst h <;> decide

theorem delim_notS (c : Char) (h : isDelim c = true) : isSC c = false := by
  simp only [isDelim, Bool.or_eq_true, beq_iff_eq] at h
  rcases h with ((((((((((((((((((( h | h ) | h ) | h ) | h ) | h ) | h ) | h ) | h ) | h ) | h ) | h ) | h ) | h ) | h ) | h ) | h ) | h ) | h ) | h ) <;> subst h <;> decide

theorem delim_notNameStart (c : Char) (h : isDelim c = true) : isNameStartC c = false := by
  cases hs : isNameStartC c with
  | false => rfl
  | true => have := nameStart_nameChar c hs; rw [delim_notNameChar c h] at this; cases this

theorem nameChar_notDelim (c : Char) (h : isNameCharC c = true) : isDelim c = false := by
  cases hd : isDelim c with
  | false => rfl
  | true => rw [delim_notNameChar c hd] at h; cases h

theorem S_notDelim (c : Char) (h : isSC c = true) : isDelim c = false := by
  cases hd : isDelim c with
  | false => rfl
  | true => rw [delim_notS c hd] at h; cases h

theorem ne_of_notDelim {c d : Char} (hc : isDelim c = false) (hd : isDelim d = true) : c ≠ d := by
  intro h; subst h; rw [hc] at hd; cases hd

theorem digit_hex (c : Char) (h : isDigitC c = true) : isHexC c = true := by
  simp only [isHexC, isDigitC, Bool.or_eq_true] at *; exact Or.inl (Or.inl h)

theorem hex_ne_semi (c : Char) (h : isHexC c = true) : c ≠ ';' := by
  intro e; subst e; revert h; decide

theorem digit_ne_x (c : Char) (h : isDigitC c = true) : c ≠ 'x' := by
  intro e; subst e; revert h; decide

/-! ### names -/

theorem parseName_render (n rest : Str) (hn : isName n = true) (hr : HeadNot isNameCharC rest) :
    parseName (n ++ rest) = some (n, rest) := by
  cases n with
  | nil => simp [isName] at hn
  | cons c t =>
    simp only [isName, Bool.and_eq_true, List.all_eq_true] at hn
    simp only [List.cons_append, parseName, hn.1, if_true]
    rw [spanP_append isNameCharC t rest hn.2 hr]

theorem parseName_sound (s n r : Str) (h : parseName s = some (n, r)) :
    s = n ++ r ∧ isName n = true ∧ HeadNot isNameCharC r := by
  cases s with
  | nil => simp [parseName] at h
  | cons c t =>
    simp only [parseName] at h
    by_cases hc : isNameStartC c = true
    · rw [if_pos hc] at h
      simp only [Option.some.injEq, Prod.mk.injEq] at h
      obtain ⟨rfl, rfl⟩ := h
      have := spanP_sound isNameCharC t
      refine ⟨by rw [List.cons_append, ← this.1], ?_, this.2.2⟩
      simp only [isName, hc, Bool.true_and, List.all_eq_true]
      exact this.2.1
    · rw [if_neg hc] at h; cases h

theorem isName_ne_nil {n : Str} (h : isName n = true) : n ≠ [] := by
  intro e; subst e; simp [isName] at h

theorem isName_head {c : Char} {t : Str} (h : isName (c :: t) = true) : isNameStartC c = true := by
  simp only [isName, Bool.and_eq_true] at h; exact h.1

/-! ### Eq and quotes -/

theorem parseEq_render (e : EqS) (rest : Str) (h : lexEq e = true) (hr : HeadNot isSC rest) :
    parseEq (renderEq e ++ rest) = some (e, rest) := by
  simp only [lexEq, allS, Bool.and_eq_true, List.all_eq_true] at h
  have h1 : spanP isSC (e.pre ++ ('=' :: (e.post ++ rest))) = (e.pre, '=' :: (e.post ++ rest)) :=
    spanP_append isSC _ _ h.1 (by show isSC '=' = false; decide)
  have h2 : spanP isSC (e.post ++ rest) = (e.post, rest) := spanP_append isSC _ _ h.2 hr
  simp only [parseEq, renderEq, List.append_assoc, List.cons_append, h1, h2, if_true]

theorem parseEq_sound (s : Str) (e : EqS) (r : Str) (h : parseEq s = some (e, r)) :
    s = renderEq e ++ r ∧ lexEq e = true ∧ HeadNot isSC r := by
  simp only [parseEq] at h
  have s1 := spanP_sound isSC s
  cases h2 : (spanP isSC s).2 with
  | nil => rw [h2] at h; cases h
  | cons c t =>
    simp only [h2] at h
    by_cases hc : c = '='
    · rw [if_pos hc] at h
      simp only [Option.some.injEq, Prod.mk.injEq] at h
      obtain ⟨rfl, rfl⟩ := h
      have s2 := spanP_sound isSC t
      refine ⟨?_, ?_, s2.2.2⟩
      · simp only [renderEq, List.append_assoc, List.cons_append]
        rw [← s2.1]
        have e1 := s1.1
        rw [h2, hc] at e1
        exact e1
      · simp only [lexEq, allS, Bool.and_eq_true, List.all_eq_true]
        exact ⟨s1.2.1, s2.2.1⟩
    · rw [if_neg hc] at h; cases h

theorem parseQuote_render (q : Quote) (t : Str) : parseQuote (q.char :: t) = some (q, t) := by
  cases q <;> simp [parseQuote, Quote.char]

theorem parseQuote_sound (s : Str) (q : Quote) (t : Str) (h : parseQuote s = some (q, t)) : s = q.char :: t := by
  cases s with
  | nil => simp [parseQuote] at h
  | cons c s' =>
    simp only [parseQuote] at h
    by_cases h1 : c = '"'
    · rw [if_pos h1] at h; simp only [Option.some.injEq, Prod.mk.injEq] at h
      obtain ⟨rfl, rfl⟩ := h; rw [h1]; rfl
    · rw [if_neg h1] at h
      by_cases h2 : c = '\''
      · rw [if_pos h2] at h; simp only [Option.some.injEq, Prod.mk.injEq] at h
        obtain ⟨rfl, rfl⟩ := h; rw [h2]; rfl
      · rw [if_neg h2] at h; cases h

end XV.Lemmas.Xml

namespace XV.Lemmas.Xml
open XV.Spec.Xml XV.Spec.XmlChar

/-! ### references -/

/-- what follows the '&' of a reference -/
def refBody : AttPiece → Str
  | .ch _ => []
  | .cref r => '#' :: ((if r.hex then ['x'] else []) ++ r.digits ++ [';'])
  | .eref n => n ++ [';']

def lexRef : AttPiece → Bool
  | .ch _ => false
  | .cref r => lexCharRef r
  | .eref n => isName n

theorem renderPiece_ref (p : AttPiece) (h : lexRef p = true) : renderPiece p = '&' :: refBody p := by
  cases p with
  | ch c => simp [lexRef] at h
  | cref r => simp [renderPiece, renderCharRef, refBody]
  | eref n => simp [renderPiece, renderEntRef, refBody]

theorem parseRef_render (p : AttPiece) (rest : Str) (h : lexRef p = true) :
    parseRef (refBody p ++ rest) = .ok (p, rest) := by
  cases p with
  | ch c => simp [lexRef] at h
  | cref r =>
    obtain ⟨hex, digits⟩ := r
    simp only [lexRef, lexCharRef, Bool.and_eq_true, Bool.not_eq_true', List.all_eq_true] at h
    cases digits with
    | nil => simp at h
    | cons d ds =>
      cases hex with
      | true =>
        simp only [if_true] at h
        have hs : spanP isHexC (d :: ds ++ ';' :: rest) = (d :: ds, ';' :: rest) :=
          spanP_append isHexC _ _ h.2 (by show isHexC ';' = false; decide)
        simp only [refBody, if_true, List.cons_append, List.nil_append, List.append_assoc, parseRef]
        simp only [List.cons_append] at hs
        rw [hs]
        simp
      | false =>
        simp only [Bool.false_eq_true, if_false] at h
        have hd : isDigitC d = true := h.2 d (List.mem_cons_self ..)
        have hs : spanP isDigitC (d :: ds ++ ';' :: rest) = (d :: ds, ';' :: rest) :=
          spanP_append isDigitC _ _ h.2 (by show isDigitC ';' = false; decide)
        simp only [refBody, Bool.false_eq_true, if_false, List.cons_append, List.nil_append, List.append_assoc, parseRef,
          if_neg (digit_ne_x d hd)]
        simp only [List.cons_append] at hs
        rw [hs]
        simp
  | eref n =>
    simp only [lexRef] at h
    cases n with
    | nil => simp [isName] at h
    | cons c t =>
      have hc : c ≠ '#' := by
        intro e; subst e
        have := isName_head h
        revert this; decide
      have hp := parseName_render (c :: t) (';' :: rest) h (by show isNameCharC ';' = false; decide)
      simp only [List.cons_append] at hp
      simp only [refBody, List.cons_append, List.append_assoc, List.nil_append, parseRef, if_neg hc, hp, if_true]

theorem parseRef_sound (s : Str) (p : AttPiece) (r : Str) (h : parseRef s = .ok (p, r)) :
    s = refBody p ++ r ∧ lexRef p = true := by
  cases s with
  | nil => simp [parseRef] at h
  | cons c t =>
    simp only [parseRef] at h
    by_cases hc : c = '#'
    · rw [if_pos hc] at h
      subst hc
      cases t with
      | nil => simp at h
      | cons d t' =>
        simp only at h
        by_cases hd : d = 'x'
        · rw [if_pos hd] at h
          subst hd
          have sp := spanP_sound isHexC t'
          cases h1 : (spanP isHexC t').1 with
          | nil => simp [h1] at h
          | cons x xs =>
            cases h2 : (spanP isHexC t').2 with
            | nil => simp [h1, h2] at h
            | cons e r' =>
              simp only [h1, h2] at h
              by_cases he : e = ';'
              · rw [if_pos he] at h
                simp only [Except.ok.injEq, Prod.mk.injEq] at h
                obtain ⟨rfl, rfl⟩ := h
                rw [h1, h2, he] at sp
                refine ⟨?_, ?_⟩
                · simp only [refBody, if_true, List.cons_append, List.nil_append, List.append_assoc]
                  rw [sp.1]; simp
                · simp only [lexRef, lexCharRef, if_true, Bool.and_eq_true, Bool.not_eq_true', List.all_eq_true]
                  exact ⟨by simp, sp.2.1⟩
              · rw [if_neg he] at h; cases h
        · rw [if_neg hd] at h
          have sp := spanP_sound isDigitC (d :: t')
          cases h1 : (spanP isDigitC (d :: t')).1 with
          | nil => simp [h1] at h
          | cons x xs =>
            cases h2 : (spanP isDigitC (d :: t')).2 with
            | nil => simp [h1, h2] at h
            | cons e r' =>
              simp only [h1, h2] at h
              by_cases he : e = ';'
              · rw [if_pos he] at h
                simp only [Except.ok.injEq, Prod.mk.injEq] at h
                obtain ⟨rfl, rfl⟩ := h
                rw [h1, h2, he] at sp
                refine ⟨?_, ?_⟩
                · simp only [refBody, Bool.false_eq_true, if_false, List.cons_append, List.nil_append, List.append_assoc]
                  rw [sp.1]; simp
                · simp only [lexRef, lexCharRef, Bool.false_eq_true, if_false, Bool.and_eq_true, Bool.not_eq_true', List.all_eq_true]
                  exact ⟨by simp, sp.2.1⟩
              · rw [if_neg he] at h; cases h
    · rw [if_neg hc] at h
      cases hn : parseName (c :: t) with
      | none => simp [hn] at h
      | some nr =>
        obtain ⟨n, r1⟩ := nr
        simp only [hn] at h
        cases r1 with
        | nil => simp at h
        | cons e r' =>
          simp only at h
          by_cases he : e = ';'
          · rw [if_pos he] at h
            simp only [Except.ok.injEq, Prod.mk.injEq] at h
            obtain ⟨rfl, rfl⟩ := h
            have := parseName_sound _ _ _ hn
            refine ⟨?_, this.2.1⟩
            rw [this.1, he]; simp [refBody]
          · rw [if_neg he] at h; cases h

/-! ### quoted literal pieces -/

theorem lexPiece_ref {q : Quote} {p : AttPiece} (h : lexPiece q p = true) (hch : ∀ c, p ≠ .ch c) : lexRef p = true := by
  cases p with
  | ch c => exact absurd rfl (hch c)
  | cref r => exact h
  | eref n => exact h

theorem parsePieces_render (q : Quote) : ∀ (ps : List AttPiece) (fuel : Nat) (rest : Str),
    (∀ p ∈ ps, lexPiece q p = true) → ps.length < fuel →
    parsePieces q fuel (renderPieces ps ++ q.char :: rest) = .ok (ps, rest)
  | [], fuel, rest, _, hf => by
    cases fuel with
    | zero => simp at hf
    | succ f => simp [renderPieces, parsePieces]
  | p :: ps, fuel, rest, hl, hf => by
    cases fuel with
    | zero => simp at hf
    | succ f =>
      have ih := parsePieces_render q ps f rest (fun x hx => hl x (List.mem_cons_of_mem _ hx)) (by simpa using hf)
      have hp := hl p (List.mem_cons_self ..)
      cases p with
      | ch c =>
        simp only [lexPiece, Bool.and_eq_true, bne_iff_ne, ne_eq] at hp
        simp only [renderPieces, renderPiece, List.cons_append, List.nil_append, parsePieces, if_neg hp.1, if_neg hp.2, ih]
      | cref r =>
        have hr : lexRef (.cref r) = true := hp
        have hq : ('&' : Char) ≠ q.char := by cases q <;> decide
        have := parseRef_render (.cref r) (renderPieces ps ++ q.char :: rest) hr
        simp only [renderPieces, renderPiece_ref _ hr, List.cons_append, List.append_assoc, parsePieces, if_neg hq, if_true]
        rw [this]; simp only [ih]
      | eref n =>
        have hr : lexRef (.eref n) = true := hp
        have hq : ('&' : Char) ≠ q.char := by cases q <;> decide
        have := parseRef_render (.eref n) (renderPieces ps ++ q.char :: rest) hr
        simp only [renderPieces, renderPiece_ref _ hr, List.cons_append, List.append_assoc, parsePieces, if_neg hq, if_true]
        rw [this]; simp only [ih]

theorem parsePieces_sound (q : Quote) : ∀ (fuel : Nat) (s : Str) (ps : List AttPiece) (r : Str),
    parsePieces q fuel s = .ok (ps, r) →
    s = renderPieces ps ++ q.char :: r ∧ (∀ p ∈ ps, lexPiece q p = true)
  | 0, s, ps, r, h => by simp [parsePieces] at h
  | f + 1, [], ps, r, h => by simp [parsePieces] at h
  | f + 1, c :: t, ps, r, h => by
    simp only [parsePieces] at h
    by_cases hq : c = q.char
    · rw [if_pos hq] at h
      simp only [Except.ok.injEq, Prod.mk.injEq] at h
      obtain ⟨rfl, rfl⟩ := h
      simp [renderPieces, hq]
    · rw [if_neg hq] at h
      by_cases ha : c = '&'
      · rw [if_pos ha] at h
        cases hr : parseRef t with
        | error e => simp [hr] at h
        | ok pr =>
          obtain ⟨p, r1⟩ := pr
          simp only [hr] at h
          cases hp : parsePieces q f r1 with
          | error e => simp [hp] at h
          | ok psr =>
            obtain ⟨ps', r2⟩ := psr
            simp only [hp, Except.ok.injEq, Prod.mk.injEq] at h
            obtain ⟨rfl, rfl⟩ := h
            have ih := parsePieces_sound q f r1 ps' r2 hp
            have rs := parseRef_sound t p r1 hr
            refine ⟨?_, ?_⟩
            · simp only [renderPieces, renderPiece_ref p rs.2, List.cons_append, List.append_assoc]
              rw [ha, rs.1, ih.1]
            · intro x hx
              rcases List.mem_cons.mp hx with rfl | hx
              · cases x with
                | ch c' => simp [lexRef] at rs
                | cref r' => exact rs.2
                | eref n => exact rs.2
              · exact ih.2 x hx
      · rw [if_neg ha] at h
        cases hp : parsePieces q f t with
        | error e => simp [hp] at h
        | ok psr =>
          obtain ⟨ps', r2⟩ := psr
          simp only [hp, Except.ok.injEq, Prod.mk.injEq] at h
          obtain ⟨rfl, rfl⟩ := h
          have ih := parsePieces_sound q f t ps' r2 hp
          refine ⟨?_, ?_⟩
          · simp only [renderPieces, renderPiece, List.cons_append, List.nil_append]
            rw [ih.1]
          · intro x hx
            rcases List.mem_cons.mp hx with rfl | hx
            · simp [lexPiece, hq, ha]
            · exact ih.2 x hx

end XV.Lemmas.Xml
