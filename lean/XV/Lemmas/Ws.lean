/-
Helper lemmas for C09, whiteSpace part: tokens of a string vs the chop loop of collapseWS, the collapsed-string
predicate, leading / trailing space splitting.
-/
import XV.Spec.Ws
import XV.Model.Ws
set_option linter.unusedVariables false
namespace XV.Lemmas.Ws
open XV.Spec.Ws XV.Model.Ws XV.Gen.Codec

theorem chSpace_eq : chSpace = sp := rfl

theorem beq_sp (c : Nat) : (c == chSpace) = decide (c = sp) := by
  rw [chSpace_eq]; by_cases h : c = sp <;> simp [h]

theorem replace_eq (s : List Nat) : replaceWS s = replaceSpec s := by
  unfold replaceWS replaceSpec
  congr 1; funext c
  unfold replaceCh chCR chLFc chHTab
  rw [chSpace_eq]
  by_cases h1 : c = 0xD <;> by_cases h2 : c = 0xA <;> by_cases h3 : c = 0x9 <;> simp [h1, h2, h3]

theorem replaced_id (s : List Nat) (h : isWSReplaced s = true) : replaceWS s = s := by
  unfold isWSReplaced at h
  unfold replaceWS
  induction s with
  | nil => rfl
  | cons c r ih =>
    simp only [List.all_cons, Bool.and_eq_true] at h
    simp only [List.map_cons]
    rw [ih h.2]
    have : (c == chCR || c == chLFc || c == chHTab) = false := by simpa using h.1
    rw [this]; rfl

/-! ### tokens -/

def spaces (k : Nat) : List Nat := List.replicate k sp

theorem tokensAux_spaces (k : Nat) (cur : List Nat) :
    tokensAux (spaces k) cur = if cur.isEmpty then [] else [cur.reverse] := by
  induction k generalizing cur with
  | zero => rfl
  | succ k ih =>
    simp only [spaces, List.replicate_succ] at ih ⊢
    unfold tokensAux
    simp only [if_true]
    cases hc : cur.isEmpty with
    | true => simp only [if_true]; rw [ih []]; rfl
    | false => simp only [Bool.false_eq_true, if_false]; rw [ih []]; rfl

theorem tokensAux_trailing (l : List Nat) (k : Nat) (cur : List Nat) :
    tokensAux (l ++ spaces k) cur = tokensAux l cur := by
  induction l generalizing cur with
  | nil => rw [List.nil_append, tokensAux_spaces]; rfl
  | cons c r ih =>
    rw [List.cons_append]
    unfold tokensAux
    by_cases hc : c = sp
    · simp only [hc, if_true]; rw [ih []]
    · simp only [hc, if_false]; rw [ih (c :: cur)]

theorem tokensAux_leading (k : Nat) (l : List Nat) : tokensAux (spaces k ++ l) [] = tokensAux l [] := by
  induction k with
  | zero => rfl
  | succ k ih =>
    simp only [spaces, List.replicate_succ, List.cons_append] at ih ⊢
    have : tokensAux (sp :: (List.replicate k sp ++ l)) [] = tokensAux (List.replicate k sp ++ l) [] := by
      simp [tokensAux]
    rw [this]; exact ih

/-- the chop loop against tokens: mid-token state and after-space state -/
theorem chop_tokens (l : List Nat) (hl : l.getLast? ≠ some sp) :
    (∀ cur, cur ≠ [] → joinSp (tokensAux l cur) = cur.reverse ++ chop l false) ∧
    (l ≠ [] → tokensAux l [] ≠ [] ∧ joinSp (tokensAux l []) = chop l true) := by
  induction l with
  | nil =>
    refine ⟨fun cur hc => ?_, fun h => absurd rfl h⟩
    have : cur.isEmpty = false := by cases cur <;> simp_all
    simp [tokensAux, this, joinSp, chop]
  | cons c r ih =>
    have hr : r.getLast? ≠ some sp := by
      cases r with
      | nil => simp
      | cons d r' => simpa [List.getLast?_cons_cons] using hl
    obtain ⟨ih1, ih2⟩ := ih hr
    by_cases hc : c = sp
    · subst hc
      have hrne : r ≠ [] := by intro e; subst e; simp at hl
      obtain ⟨ne, j⟩ := ih2 hrne
      constructor
      · intro cur hcur
        have : cur.isEmpty = false := by cases cur <;> simp_all
        simp only [tokensAux, if_true, this, Bool.false_eq_true, if_false, chop]
        have e : (sp == chSpace) = true := rfl
        rw [e]
        simp only [if_true, Bool.not_false]
        cases ht : tokensAux r [] with
        | nil => exact absurd ht ne
        | cons u rest =>
          simp only [joinSp]
          rw [← ht, j]; rfl
      · intro _
        simp only [tokensAux, if_true, List.isEmpty_nil, chop]
        have e : (sp == chSpace) = true := rfl
        rw [e]
        simp only [if_true, Bool.not_true, Bool.false_eq_true, if_false]
        exact ⟨ne, j⟩
    · have e : (c == chSpace) = false := by rw [beq_sp]; simpa using hc
      constructor
      · intro cur hcur
        simp only [tokensAux, hc, if_false, chop, e, Bool.false_eq_true]
        rw [ih1 (c :: cur) (by simp)]
        simp
      · intro _
        simp only [tokensAux, hc, if_false, chop, e, Bool.false_eq_true]
        have := ih1 [c] (by simp)
        constructor
        · intro h0
          rw [h0] at this
          simp [joinSp] at this
        · rw [this]; rfl

theorem noDouble_chop (l : List Nat) (w : Bool) (h : noDoubleSpace l w = true) : chop l w = l := by
  induction l generalizing w with
  | nil => rfl
  | cons c r ih =>
    unfold noDoubleSpace at h
    unfold chop
    by_cases hc : (c == chSpace) = true
    · rw [if_pos hc] at h ⊢
      cases w with
      | true => simp at h
      | false =>
        simp only [Bool.false_eq_true, if_false] at h
        simp only [Bool.not_false, if_true]
        rw [ih true h]
        rw [beq_iff_eq] at hc; rw [hc]
    · rw [if_neg hc] at h ⊢
      rw [ih false h]

/-! ### leading / trailing spaces -/

theorem dropSp_split (l : List Nat) :
    ∃ k, l = spaces k ++ l.dropWhile isSpaceCh ∧ (l.dropWhile isSpaceCh).head? ≠ some sp := by
  induction l with
  | nil => exact ⟨0, rfl, by simp⟩
  | cons c r ih =>
    by_cases hc : c = sp
    · subst hc
      obtain ⟨k, h1, h2⟩ := ih
      refine ⟨k + 1, ?_, ?_⟩
      · rw [List.dropWhile_cons_of_pos (by rfl)]
        conv => lhs; rw [h1]
        simp [spaces, List.replicate_succ]
      · rw [List.dropWhile_cons_of_pos (by rfl)]; exact h2
    · have : ¬ (isSpaceCh c = true) := by unfold isSpaceCh; rw [beq_sp]; simpa using hc
      refine ⟨0, ?_, ?_⟩
      · rw [List.dropWhile_cons_of_neg this]; rfl
      · rw [List.dropWhile_cons_of_neg this]; simp [hc]

theorem spaces_reverse (k : Nat) : (spaces k).reverse = spaces k := by simp [spaces]

/-- trailing spaces: `start = body ++ spaces j`, body not ending in a space -/
theorem trailSp_split (l : List Nat) :
    ∃ j, l = (l.reverse.dropWhile isSpaceCh).reverse ++ spaces j ∧
      (l.reverse.dropWhile isSpaceCh).reverse.getLast? ≠ some sp := by
  obtain ⟨j, h1, h2⟩ := dropSp_split l.reverse
  refine ⟨j, ?_, ?_⟩
  · have := congrArg List.reverse h1
    rw [List.reverse_reverse, List.reverse_append, spaces_reverse] at this
    exact this
  · rw [List.getLast?_reverse]; exact h2

theorem collapsed_noDouble (b : List Nat) (h : isWSCollapsed b = true) (hne : b ≠ []) :
    isWSReplaced b = true ∧ b.head? ≠ some sp ∧ b.getLast? ≠ some sp ∧ noDoubleSpace b false = true := by
  unfold isWSCollapsed at h
  rw [if_neg (by simpa using hne)] at h
  split at h
  · cases h
  · rename_i h1
    split at h
    · cases h
    · rename_i h2
      simp only [Bool.or_eq_true, not_or, chSpace_eq] at h2
      refine ⟨by simpa using h1, ?_, ?_, h⟩
      · intro e; apply h2.1; rw [e]; rfl
      · intro e; apply h2.2; rw [e]; rfl

/-- the replaced string, whichever branch `collapseWS` takes -/
theorem replaced_branch (s : List Nat) : (if !isWSReplaced s then replaceWS s else s) = replaceSpec s := by
  cases h : isWSReplaced s with
  | false => simp [replace_eq]
  | true => simp only [Bool.not_true, Bool.false_eq_true, if_false]; rw [← replace_eq, replaced_id s h]

theorem body_tokens (body : List Nat) (hne : body ≠ []) (hh : body.head? ≠ some sp) (hl : body.getLast? ≠ some sp) :
    joinSp (tokensAux body []) = chop body false := by
  cases body with
  | nil => exact absurd rfl hne
  | cons c r =>
    have hc : c ≠ sp := fun e => hh (by rw [e]; rfl)
    have hr : r.getLast? ≠ some sp := by
      cases r with
      | nil => simp
      | cons d r' => simpa [List.getLast?_cons_cons] using hl
    have e : (c == chSpace) = false := by rw [beq_sp]; simpa using hc
    have := (chop_tokens r hr).1 [c] (by simp)
    simp only [tokensAux, hc, if_false, chop, e, Bool.false_eq_true]
    rw [this]; rfl

/-- `collapseWS` computes the §4.3.6 collapse -/
theorem collapse_eq (s : List Nat) : collapseWS s = collapseSpec s := by
  unfold collapseWS collapseSpec tokens
  by_cases hs : s = []
  · subst hs; rfl
  · rw [if_neg (by simpa using hs)]
    simp only
    rw [replaced_branch]
    obtain ⟨k, hk, hhead⟩ := dropSp_split (replaceSpec s)
    obtain ⟨start, hst⟩ : ∃ st, st = (replaceSpec s).dropWhile isSpaceCh := ⟨_, rfl⟩
    rw [← hst] at hk hhead ⊢
    by_cases he : start = []
    · rw [he] at hk ⊢
      simp only [List.isEmpty_nil, if_true]
      rw [hk, List.append_nil, tokensAux_spaces]; rfl
    · rw [if_neg (by simpa using he)]
      obtain ⟨j, hj, hlast⟩ := trailSp_split start
      obtain ⟨body, hb⟩ : ∃ b, b = (start.reverse.dropWhile isSpaceCh).reverse := ⟨_, rfl⟩
      rw [← hb] at hj hlast ⊢
      have hbne : body ≠ [] := by
        intro e
        rw [e, List.nil_append] at hj
        cases j with
        | zero => exact he (by rw [hj]; rfl)
        | succ j => apply hhead; rw [hj]; rfl
      have hbh : body.head? ≠ some sp := by
        cases hb' : body with
        | nil => exact absurd hb' hbne
        | cons c r => rw [hj, hb'] at hhead; simpa using hhead
      have htok : tokensAux (replaceSpec s) [] = tokensAux body [] := by
        rw [hk, tokensAux_leading, hj, tokensAux_trailing]
      rw [htok, body_tokens body hbne hbh hlast]
      cases hc : isWSCollapsed body with
      | false => rfl
      | true =>
        simp only [Bool.not_true, Bool.false_eq_true, if_false]
        exact (noDouble_chop body false (collapsed_noDouble body hc hbne).2.2.2).symm

def okCh (c : Nat) : Bool := !(c == chCR || c == chLFc || c == chHTab)

theorem isWSReplaced_iff (l : List Nat) : isWSReplaced l = l.all okCh := rfl

theorem chop_noDouble (l : List Nat) (w : Bool) : noDoubleSpace (chop l w) w = true := by
  induction l generalizing w with
  | nil => rfl
  | cons c r ih =>
    unfold chop
    by_cases hc : (c == chSpace) = true
    · rw [if_pos hc]
      cases w with
      | false =>
        simp only [Bool.not_false, if_true]
        unfold noDoubleSpace
        simp only [beq_self_eq_true, if_true, Bool.false_eq_true, if_false]
        exact ih true
      | true =>
        simp only [Bool.not_true, Bool.false_eq_true, if_false]
        exact ih true
    · rw [if_neg hc]
      unfold noDoubleSpace
      rw [if_neg hc]
      exact ih false

theorem chop_mem (l : List Nat) (w : Bool) : ∀ c ∈ chop l w, c ∈ l := by
  induction l generalizing w with
  | nil => intro c hc; cases hc
  | cons a r ih =>
    intro c hc
    unfold chop at hc
    by_cases ha : (a == chSpace) = true
    · rw [if_pos ha] at hc
      cases w with
      | false =>
        simp only [Bool.not_false, if_true, List.mem_cons] at hc
        rcases hc with e | e
        · rw [e]; rw [beq_iff_eq] at ha; simp [ha]
        · exact List.mem_cons_of_mem _ (ih true c e)
      | true =>
        simp only [Bool.not_true, Bool.false_eq_true, if_false] at hc
        exact List.mem_cons_of_mem _ (ih true c hc)
    · rw [if_neg ha] at hc
      rcases List.mem_cons.mp hc with e | e
      · rw [e]; simp
      · exact List.mem_cons_of_mem _ (ih false c e)

theorem chop_last (l : List Nat) (w : Bool) (hne : l ≠ []) (hl : l.getLast? ≠ some sp) :
    (chop l w).getLast? = l.getLast? := by
  induction l generalizing w with
  | nil => exact absurd rfl hne
  | cons a r ih =>
    cases r with
    | nil =>
      have ha : a ≠ sp := by simpa using hl
      have : (a == chSpace) = false := by rw [beq_sp]; simpa using ha
      simp [chop, this]
    | cons d r' =>
      have hl' : (d :: r').getLast? ≠ some sp := by simpa [List.getLast?_cons_cons] using hl
      have ih' := fun w => ih w (by simp) hl'
      have hne' : ∀ w, chop (d :: r') w ≠ [] := by
        intro w e
        have := ih' w
        rw [e] at this
        have h2 := List.getLast?_eq_some_getLast (l := d :: r') (by simp)
        rw [h2] at this; cases this
      rw [List.getLast?_cons_cons]
      unfold chop
      by_cases ha : (a == chSpace) = true
      · rw [if_pos ha]
        cases w with
        | false =>
          simp only [Bool.not_false, if_true]
          cases hx : chop (d :: r') true with
          | nil => exact absurd hx (hne' true)
          | cons x xs => rw [List.getLast?_cons_cons, ← hx]; exact ih' true
        | true =>
          simp only [Bool.not_true, Bool.false_eq_true, if_false]
          exact ih' true
      · rw [if_neg ha]
        cases hx : chop (d :: r') false with
        | nil => exact absurd hx (hne' false)
        | cons x xs => rw [List.getLast?_cons_cons, ← hx]; exact ih' false

theorem replaceSpec_ok (s : List Nat) : (replaceSpec s).all okCh = true := by
  unfold replaceSpec
  rw [List.all_map]
  apply List.all_eq_true.mpr
  intro c _
  unfold Function.comp replaceCh okCh chCR chLFc chHTab sp
  by_cases h1 : c = 0x9 <;> by_cases h2 : c = 0xA <;> by_cases h3 : c = 0xD <;> simp [h1, h2, h3]

theorem all_of_subset {p : Nat → Bool} (l m : List Nat) (h : ∀ c ∈ l, c ∈ m) (hm : m.all p = true) : l.all p = true := by
  rw [List.all_eq_true] at hm ⊢
  exact fun c hc => hm c (h c hc)

/-- the output of `collapseWS` is empty or collapsed -/
theorem collapse_collapsed (s : List Nat) : collapseWS s = [] ∨ isWSCollapsed (collapseWS s) = true := by
  unfold collapseWS
  by_cases hs : s = []
  · left; subst hs; rfl
  · rw [if_neg (by simpa using hs)]
    simp only
    rw [replaced_branch]
    obtain ⟨k, hk, hhead⟩ := dropSp_split (replaceSpec s)
    obtain ⟨start, hst⟩ : ∃ st, st = (replaceSpec s).dropWhile isSpaceCh := ⟨_, rfl⟩
    rw [← hst] at hk hhead ⊢
    by_cases he : start = []
    · left; rw [he]; rfl
    · right
      rw [if_neg (by simpa using he)]
      obtain ⟨j, hj, hlast⟩ := trailSp_split start
      obtain ⟨body, hb⟩ : ∃ b, b = (start.reverse.dropWhile isSpaceCh).reverse := ⟨_, rfl⟩
      rw [← hb] at hj hlast ⊢
      cases hc : isWSCollapsed body with
      | true => simp only [Bool.not_true, Bool.false_eq_true, if_false]; exact hc
      | false =>
        simp only [Bool.not_false, if_true]
        have hbne : body ≠ [] := by
          intro e
          rw [e, List.nil_append] at hj
          cases j with
          | zero => exact he (by rw [hj]; rfl)
          | succ j => apply hhead; rw [hj]; rfl
        have hbsub : ∀ c ∈ body, c ∈ replaceSpec s := by
          intro c hc'
          rw [hk, hj]; simp [hc']
        have hrep : body.all okCh = true := all_of_subset body _ hbsub (replaceSpec_ok s)
        cases hb' : body with
        | nil => exact absurd hb' hbne
        | cons c r =>
          have hcsp : c ≠ sp := by rw [hj, hb'] at hhead; simpa using hhead
          have e : (c == chSpace) = false := by rw [beq_sp]; simpa using hcsp
          have hch : chop (c :: r) false = c :: chop r false := by simp [chop, e]
          unfold isWSCollapsed
          rw [← hb']
          have hne2 : chop body false ≠ [] := by rw [hb', hch]; simp
          rw [if_neg (by simpa using hne2)]
          have h1 : isWSReplaced (chop body false) = true := by
            rw [isWSReplaced_iff]
            exact all_of_subset _ body (chop_mem body false) hrep
          rw [h1]
          simp only [Bool.not_true, Bool.false_eq_true, if_false]
          have h2 : (chop body false).head? ≠ some chSpace := by
            rw [hb', hch]; simpa [chSpace_eq] using hcsp
          have h3 : (chop body false).getLast? ≠ some chSpace := by
            rw [chop_last body false hbne hlast, chSpace_eq]; exact hlast
          have h23 : ((chop body false).head? == some chSpace || (chop body false).getLast? == some chSpace) = false := by
            simp [h2, h3]
          rw [h23]
          simp only [Bool.false_eq_true, if_false]
          exact chop_noDouble body false

/-- a collapsed string is left alone -/
theorem collapse_fix (o : List Nat) (h : isWSCollapsed o = true) : collapseWS o = o := by
  by_cases hne : o = []
  · subst hne; rfl
  · obtain ⟨h1, h2, h3, h4⟩ := collapsed_noDouble o h hne
    unfold collapseWS
    rw [if_neg (by simpa using hne)]
    simp only [h1, Bool.not_true, Bool.false_eq_true, if_false]
    have hd : o.dropWhile isSpaceCh = o := by
      cases ho : o with
      | nil => rfl
      | cons c r =>
        have : c ≠ sp := by rw [ho] at h2; simpa using h2
        rw [List.dropWhile_cons_of_neg (by unfold isSpaceCh; rw [beq_sp]; simpa using this)]
    rw [hd, if_neg (by simpa using hne)]
    have hr : (o.reverse.dropWhile isSpaceCh).reverse = o := by
      cases hrv : o.reverse with
      | nil => simp at hrv; exact absurd hrv hne
      | cons z r =>
        have hz : o.getLast? = some z := by rw [← List.head?_reverse, hrv]; rfl
        have : z ≠ sp := by intro e; apply h3; rw [hz, e]
        rw [List.dropWhile_cons_of_neg (by unfold isSpaceCh; rw [beq_sp]; simpa using this), ← hrv, List.reverse_reverse]
    rw [hr, h]
    rfl

end XV.Lemmas.Ws
