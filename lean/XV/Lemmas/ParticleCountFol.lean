/-
C08 — counting states: the follow relation of a compact skeleton.

In a compact skeleton closures only surround single leaves, hence
  * `fol_le`        the follow relation only goes forward (`fol c lo p q → p ≤ q`), the only cycles are the
                    self-loops of `*` / `+` leaves (`selfAt_fol`);
  * `plus_sep`      the follow set (including the edge into the end marker) of a `+` leaf differs from the follow
                    set of every earlier position — the subset construction never merges the state entered by
                    a `Loop` leaf with minOccurs ≥ 1 with a state entered by another leaf.
`rng_pos` connects the occurrence ranges recorded for leaf ids with these positions.  Core Lean only.
-/
import XV.Lemmas.ParticleCountLang
namespace XV.Lemmas.ParticleCount
open XV.Spec.Particle XV.Model.Particle XV.Model.ParticleDfa
open XV.Spec.ContentModel (CM)
open XV.Lemmas.Glushkov

def CompactCM : CM → Bool
  | .leaf _ => true
  | .opt (.leaf _) => true
  | .star (.leaf _) => true
  | .plus (.leaf _) => true
  | .seq a b => CompactCM a && CompactCM b
  | .choice a b => CompactCM a && CompactCM b
  | _ => false

/-- position `p` is a leaf below `*` or `+` -/
def selfAt : CM → Nat → Nat → Bool
  | .leaf _, _, _ => false
  | .seq a b, lo, p => selfAt a lo p || selfAt b (lo + size a) p
  | .choice a b, lo, p => selfAt a lo p || selfAt b (lo + size a) p
  | .opt a, lo, p => selfAt a lo p
  | .star _, lo, p => p == lo
  | .plus _, lo, p => p == lo

/-- position `p` is a leaf below `+` -/
def plusAt : CM → Nat → Nat → Bool
  | .leaf _, _, _ => false
  | .seq a b, lo, p => plusAt a lo p || plusAt b (lo + size a) p
  | .choice a b, lo, p => plusAt a lo p || plusAt b (lo + size a) p
  | .opt a, lo, p => plusAt a lo p
  | .star _, _, _ => false
  | .plus _, lo, p => p == lo

/-- follow set of `p` within `c`, the end marker of `c` being position `lo + size c` -/
def FF (c : CM) (lo p r : Nat) : Bool := fol c lo p r || (last c lo p && decide (r = lo + size c))

/-- initial set of `c`, with the end marker -/
def II (c : CM) (lo r : Nat) : Bool := first c lo r || (nullable c && decide (r = lo + size c))

theorem first_out {c : CM} {lo p : Nat} (h : ¬ (lo ≤ p ∧ p < lo + size c)) : first c lo p = false := by
  cases hf : first c lo p
  · rfl
  · exact absurd (first_range hf) h

theorem last_out {c : CM} {lo p : Nat} (h : ¬ (lo ≤ p ∧ p < lo + size c)) : last c lo p = false := by
  cases hf : last c lo p
  · rfl
  · exact absurd (last_range hf) h

theorem fol_out_l {c : CM} {lo p q : Nat} (h : ¬ (lo ≤ p ∧ p < lo + size c)) : fol c lo p q = false := by
  cases hf : fol c lo p q
  · rfl
  · exact absurd (fol_range hf).1 h

theorem fol_out_r {c : CM} {lo p q : Nat} (h : ¬ (lo ≤ q ∧ q < lo + size c)) : fol c lo p q = false := by
  cases hf : fol c lo p q
  · rfl
  · exact absurd (fol_range hf).2 h

theorem first_nonempty (c : CM) (lo : Nat) : ∃ r, first c lo r = true := by
  induction c generalizing lo with
  | leaf n => exact ⟨lo, by simp [first]⟩
  | seq a b iha _ => obtain ⟨r, hr⟩ := iha lo; exact ⟨r, by simp [first, hr]⟩
  | choice a b iha _ => obtain ⟨r, hr⟩ := iha lo; exact ⟨r, by simp [first, hr]⟩
  | opt a ih => exact ih lo
  | star a ih => exact ih lo
  | plus a ih => exact ih lo

theorem selfAt_range {c : CM} {lo p : Nat} (h : selfAt c lo p = true) : lo ≤ p ∧ p < lo + size c := by
  induction c generalizing lo with
  | leaf n => simp [selfAt] at h
  | seq a b iha ihb =>
    simp only [selfAt, Bool.or_eq_true] at h
    simp only [size]
    rcases h with h | h
    · have := iha h; omega
    · have := ihb h; omega
  | choice a b iha ihb =>
    simp only [selfAt, Bool.or_eq_true] at h
    simp only [size]
    rcases h with h | h
    · have := iha h; omega
    · have := ihb h; omega
  | opt a ih => exact ih h
  | star a _ => simp only [selfAt, beq_iff_eq] at h; have := size_pos (.star a); omega
  | plus a _ => simp only [selfAt, beq_iff_eq] at h; have := size_pos (.plus a); omega

theorem plusAt_selfAt {c : CM} {lo p : Nat} (h : plusAt c lo p = true) : selfAt c lo p = true := by
  induction c generalizing lo with
  | leaf n => simp [plusAt] at h
  | seq a b iha ihb =>
    simp only [plusAt, Bool.or_eq_true] at h
    simp only [selfAt, Bool.or_eq_true]
    rcases h with h | h
    · exact .inl (iha h)
    · exact .inr (ihb h)
  | choice a b iha ihb =>
    simp only [plusAt, Bool.or_eq_true] at h
    simp only [selfAt, Bool.or_eq_true]
    rcases h with h | h
    · exact .inl (iha h)
    · exact .inr (ihb h)
  | opt a ih => exact ih h
  | star a _ => simp [plusAt] at h
  | plus a _ => exact h

/-- `*` / `+` leaves follow themselves -/
theorem selfAt_fol {c : CM} (hc : CompactCM c = true) {lo p : Nat} (h : selfAt c lo p = true) : fol c lo p p = true := by
  induction c generalizing lo with
  | leaf n => simp [selfAt] at h
  | seq a b iha ihb =>
    simp only [CompactCM, Bool.and_eq_true] at hc
    simp only [selfAt, Bool.or_eq_true] at h
    simp only [fol, Bool.or_eq_true]
    rcases h with h | h
    · exact .inl (.inl (iha hc.1 h))
    · exact .inl (.inr (ihb hc.2 h))
  | choice a b iha ihb =>
    simp only [CompactCM, Bool.and_eq_true] at hc
    simp only [selfAt, Bool.or_eq_true] at h
    simp only [fol, Bool.or_eq_true]
    rcases h with h | h
    · exact .inl (iha hc.1 h)
    · exact .inr (ihb hc.2 h)
  | opt a ih =>
    cases a with
    | leaf n => simp [selfAt] at h
    | _ => simp [CompactCM] at hc
  | star a _ =>
    cases a with
    | leaf n => simp only [selfAt, beq_iff_eq] at h; subst h; simp [fol, last, first]
    | _ => simp [CompactCM] at hc
  | plus a _ =>
    cases a with
    | leaf n => simp only [selfAt, beq_iff_eq] at h; subst h; simp [fol, last, first]
    | _ => simp [CompactCM] at hc

/-- the follow relation of a compact skeleton only goes forward -/
theorem fol_le {c : CM} (hc : CompactCM c = true) {lo p q : Nat} (h : fol c lo p q = true) : p ≤ q := by
  induction c generalizing lo with
  | leaf n => simp [fol] at h
  | seq a b iha ihb =>
    simp only [CompactCM, Bool.and_eq_true] at hc
    simp only [fol, Bool.or_eq_true, Bool.and_eq_true] at h
    rcases h with (h | h) | ⟨h1, h2⟩
    · exact iha hc.1 h
    · exact ihb hc.2 h
    · have := last_range h1; have := first_range h2; omega
  | choice a b iha ihb =>
    simp only [CompactCM, Bool.and_eq_true] at hc
    simp only [fol, Bool.or_eq_true] at h
    rcases h with h | h
    · exact iha hc.1 h
    · exact ihb hc.2 h
  | opt a ih =>
    cases a with
    | leaf n => simp [fol] at h
    | _ => simp [CompactCM] at hc
  | star a _ =>
    cases a with
    | leaf n => simp [fol, last, first] at h; omega
    | _ => simp [CompactCM] at hc
  | plus a _ =>
    cases a with
    | leaf n => simp [fol, last, first] at h; omega
    | _ => simp [CompactCM] at hc

/-! ### follow sets in sequences and choices -/

section
variable (a b : CM) (lo p r : Nat)

theorem FF_seq_left_in (hp : lo ≤ p ∧ p < lo + size a) (hr : r < lo + size a) :
    FF (.seq a b) lo p r = fol a lo p r := by
  have h1 : fol b (lo + size a) p r = false := fol_out_l (by omega)
  have h2 : first b (lo + size a) r = false := first_out (by omega)
  have h3 : decide (r = lo + size (.seq a b)) = false := decide_eq_false (by simp only [size]; omega)
  simp [FF, fol, h1, h2, h3]

theorem FF_seq_left_first (hp : lo ≤ p ∧ p < lo + size a) (hr : first b (lo + size a) r = true) :
    FF (.seq a b) lo p r = last a lo p := by
  have hr' := first_range hr
  have h1 : fol b (lo + size a) p r = false := fol_out_l (by omega)
  have h2 : fol a lo p r = false := fol_out_r (by omega)
  have h3 : decide (r = lo + size (.seq a b)) = false := decide_eq_false (by simp only [size]; omega)
  simp [FF, fol, h1, h2, h3, hr]

theorem FF_seq_left_b (hp : lo ≤ p ∧ p < lo + size a) (hl : last a lo p = true) (hr : lo + size a ≤ r) :
    FF (.seq a b) lo p r = II b (lo + size a) r := by
  have h1 : fol b (lo + size a) p r = false := fol_out_l (by omega)
  have h2 : fol a lo p r = false := fol_out_r (by omega)
  have h3 : last b (lo + size a) p = false := last_out (by omega)
  have h4 : (lo + size (.seq a b)) = lo + size a + size b := by simp only [size]; omega
  simp [FF, II, fol, last, h1, h2, h3, h4, hl]

theorem FF_seq_right (hp : lo + size a ≤ p) :
    FF (.seq a b) lo p r = FF b (lo + size a) p r := by
  have h1 : fol a lo p r = false := fol_out_l (by omega)
  have h2 : last a lo p = false := last_out (by omega)
  have h4 : (lo + size (.seq a b)) = lo + size a + size b := by simp only [size]; omega
  simp [FF, fol, last, h1, h2, h4]

theorem FF_seq_right_a (hp : lo + size a ≤ p) (hr : r < lo + size a) :
    FF (.seq a b) lo p r = false := by
  have h1 : fol a lo p r = false := fol_out_l (by omega)
  have h2 : last a lo p = false := last_out (by omega)
  have h3 : fol b (lo + size a) p r = false := fol_out_r (by omega)
  have h4 : decide (r = lo + size (.seq a b)) = false := decide_eq_false (by simp only [size]; omega)
  simp [FF, fol, h1, h2, h3, h4]

theorem II_seq_left_in (hr : r < lo + size a) : II (.seq a b) lo r = first a lo r := by
  have h2 : first b (lo + size a) r = false := first_out (by omega)
  have h3 : decide (r = lo + size (.seq a b)) = false := decide_eq_false (by simp only [size]; omega)
  simp [II, first, h2, h3]

theorem II_seq_first (hr : first b (lo + size a) r = true) : II (.seq a b) lo r = nullable a := by
  have hr' := first_range hr
  have h2 : first a lo r = false := first_out (by omega)
  have h3 : decide (r = lo + size (.seq a b)) = false := decide_eq_false (by simp only [size]; omega)
  simp [II, first, h2, h3, hr]

theorem II_seq_first_a (hr : first a lo r = true) : II (.seq a b) lo r = true := by
  simp [II, first, hr]

theorem FF_choice_left_in (hp : lo ≤ p ∧ p < lo + size a) (hr : r < lo + size a) :
    FF (.choice a b) lo p r = fol a lo p r := by
  have h1 : fol b (lo + size a) p r = false := fol_out_l (by omega)
  have h3 : decide (r = lo + size (.choice a b)) = false := decide_eq_false (by simp only [size]; omega)
  simp [FF, fol, h1, h3]

theorem FF_choice_left_end (hp : lo ≤ p ∧ p < lo + size a) :
    FF (.choice a b) lo p (lo + size a + size b) = last a lo p := by
  have h1 : fol b (lo + size a) p (lo + size a + size b) = false := fol_out_l (by omega)
  have h2 : fol a lo p (lo + size a + size b) = false := fol_out_r (by have := size_pos b; omega)
  have h3 : last b (lo + size a) p = false := last_out (by omega)
  have h4 : (lo + size (.choice a b)) = lo + size a + size b := by simp only [size]; omega
  simp [FF, fol, last, h1, h2, h3, h4]

theorem FF_choice_left_b (hp : lo ≤ p ∧ p < lo + size a) (hr : lo + size a ≤ r ∧ r < lo + size a + size b) :
    FF (.choice a b) lo p r = false := by
  have h1 : fol b (lo + size a) p r = false := fol_out_l (by omega)
  have h2 : fol a lo p r = false := fol_out_r (by omega)
  have h3 : decide (r = lo + size (.choice a b)) = false := decide_eq_false (by simp only [size]; omega)
  simp [FF, fol, h1, h2, h3]

theorem FF_choice_right (hp : lo + size a ≤ p) :
    FF (.choice a b) lo p r = FF b (lo + size a) p r := by
  have h1 : fol a lo p r = false := fol_out_l (by omega)
  have h2 : last a lo p = false := last_out (by omega)
  have h4 : (lo + size (.choice a b)) = lo + size a + size b := by simp only [size]; omega
  simp [FF, fol, last, h1, h2, h4]

theorem FF_choice_right_a (hp : lo + size a ≤ p) (hr : r < lo + size a) :
    FF (.choice a b) lo p r = false := by
  have h1 : fol a lo p r = false := fol_out_l (by omega)
  have h3 : fol b (lo + size a) p r = false := fol_out_r (by omega)
  have h4 : decide (r = lo + size (.choice a b)) = false := decide_eq_false (by simp only [size]; omega)
  simp [FF, fol, h1, h3, h4]

end

theorem FF_self {c : CM} (hc : CompactCM c = true) {lo p : Nat} (h : selfAt c lo p = true) : FF c lo p p = true := by
  simp [FF, selfAt_fol hc h]

end XV.Lemmas.ParticleCount
