/-
Helper lemmas for C09, date/time part: leap years and month lengths, day numbers, `validateDateTime` as a proposition,
`compareOrder` on values in normal range, the carry chain and the day loop of `normalize`.
-/
import XV.Model.DateTime
set_option linter.unusedVariables false
namespace XV.Lemmas.DateTime
open XV.Spec.DateTime XV.Model.DateTime

/-! ### leap years, month lengths -/

theorem tmod_zero_iff (y n : Int) : (Int.tmod y n = 0) ↔ (y % n = 0) :=
  ⟨fun h => Int.emod_eq_zero_of_dvd (Int.dvd_of_tmod_eq_zero h), fun h => Int.tmod_eq_zero_of_dvd (Int.dvd_of_emod_eq_zero h)⟩

theorem tmod_beq (y n : Int) : (Int.tmod y n == 0) = (y % n == 0) := by
  rw [Bool.eq_iff_iff, beq_iff_eq, beq_iff_eq]; exact tmod_zero_iff y n

theorem isLeapYear_eq (y : Int) : isLeapYear y = isLeap y := by
  unfold isLeapYear isLeap
  have e : (Int.tmod y 100 != 0) = (y % 100 != 0) := by
    unfold bne; rw [tmod_beq]
  rw [tmod_beq, tmod_beq, e]

theorem isLeap_iff (y : Int) : isLeap y = true ↔ (y % 4 = 0 ∧ (y % 100 ≠ 0 ∨ y % 400 = 0)) := by
  unfold isLeap; simp

/-- month length as a function of the leap flag -/
def dim (leap : Bool) (m : Nat) : Int :=
  if m == 4 || m == 6 || m == 9 || m == 11 then 30
  else if m == 2 then (if leap then 29 else 28)
  else 31

def maxDayL (leap : Bool) (month : Int) : Int :=
  if month == 4 || month == 6 || month == 9 || month == 11 then 30
  else if month == 2 then (if leap then 29 else 28)
  else 31

theorem maxDay_unfold (y month : Int) : maxDayInMonthFor y month = maxDayL (isLeap y) month := by
  unfold maxDayInMonthFor maxDayL; rw [isLeapYear_eq]

theorem maxDayL_dim : ∀ leap : Bool, ∀ m : Nat, m < 14 → maxDayL leap (m : Int) = dim leap m := by decide +kernel
theorem daysInMonth_dim : ∀ leap : Bool, ∀ m, m < 14 → ∀ y, isLeap y = leap → (daysInMonth y m : Int) = dim leap m := by
  intro leap m hm y hy
  unfold daysInMonth dim; rw [hy]
  by_cases h1 : (m == 4 || m == 6 || m == 9 || m == 11) = true
  · simp [h1]
  · simp only [h1, Bool.false_eq_true, if_false]
    by_cases h2 : (m == 2) = true
    · simp only [h2, if_true]; cases leap <;> rfl
    · simp [h2]

theorem dbm_succ : ∀ leap : Bool, ∀ m, m < 12 → 1 ≤ m → daysBeforeMonth leap (m + 1) = daysBeforeMonth leap m + dim leap m := by
  decide +kernel
theorem dbm_bounds : ∀ leap : Bool, ∀ m, m < 13 → 1 ≤ m →
    0 ≤ daysBeforeMonth leap m ∧ daysBeforeMonth leap m + dim leap m ≤ 365 + (if leap then 1 else 0) ∧ 28 ≤ dim leap m := by
  decide +kernel
theorem dbm_mono : ∀ leap : Bool, ∀ m, m < 13 → ∀ m', m' < 13 → 1 ≤ m → m < m' →
    daysBeforeMonth leap m + dim leap m ≤ daysBeforeMonth leap m' := by
  decide +kernel
theorem dbm_one : ∀ leap : Bool, daysBeforeMonth leap 1 = 0 ∧ daysBeforeMonth leap 12 + 31 = 365 + (if leap then 1 else 0) ∧ dim leap 12 = 31 := by
  decide +kernel

def yearBase (y : Int) : Int := 365 * (y - 1) + (y - 1) / 4 - (y - 1) / 100 + (y - 1) / 400

theorem dayNumber_eq (y : Int) (m : Nat) (d : Int) : dayNumber y m d = yearBase y + daysBeforeMonth (isLeap y) m + d := rfl

theorem yearBase_succ (y : Int) :
    yearBase (y + 1) = yearBase y + 365 + (if isLeap y then 1 else 0) := by
  have := isLeap_iff y
  unfold yearBase
  cases h : isLeap y
  · simp only [Bool.false_eq_true, if_false]
    have : ¬ (y % 4 = 0 ∧ (y % 100 ≠ 0 ∨ y % 400 = 0)) := by rw [← this, h]; simp
    omega
  · simp only [if_true]
    have : (y % 4 = 0 ∧ (y % 100 ≠ 0 ∨ y % 400 = 0)) := by rw [← this, h]
    omega

theorem yearBase_mono (y y' : Int) (h : y < y') :
    yearBase y + 365 + (if isLeap y then 1 else 0) ≤ yearBase y' := by
  have := isLeap_iff y
  unfold yearBase
  cases hl : isLeap y
  · simp only [Bool.false_eq_true, if_false]
    omega
  · simp only [if_true]
    have : (y % 4 = 0 ∧ (y % 100 ≠ 0 ∨ y % 400 = 0)) := by rw [← this, hl]
    omega

/-- the checks of `validateDateTime`, as a proposition -/
def ValidFields (d : DT) : Prop :=
  d.year ≠ 0 ∧ 1 ≤ d.month ∧ d.month ≤ 12 ∧ d.day ≤ maxDayInMonthFor d.year d.month ∧ d.day ≠ 0 ∧
  0 ≤ d.hour ∧ d.hour ≤ 24 ∧ (d.hour = 24 → d.minute = 0 ∧ d.second = 0 ∧ d.ms.all (· == 0) = true) ∧
  0 ≤ d.minute ∧ d.minute ≤ 59 ∧ 0 ≤ d.second ∧ d.second ≤ 60 ∧
  d.tzh.natAbs ≤ 14 ∧ (d.tzh.natAbs = 14 → d.tzm = 0) ∧ d.tzm.natAbs ≤ 59

theorem validate_iff (d : DT) : validateDateTime d = true ↔ ValidFields d := by
  unfold validateDateTime ValidFields
  obtain ⟨mx, hmx⟩ : ∃ mx, mx = maxDayInMonthFor d.year d.month := ⟨_, rfl⟩
  obtain ⟨z, hz⟩ : ∃ z, z = d.ms.all (· == 0) := ⟨_, rfl⟩
  rw [← hmx, ← hz]
  split
  · rename_i h; simp at h; simp [h]
  · rename_i h1; simp at h1
    split
    · rename_i h; simp at h
      constructor
      · intro c; cases c
      · intro c; omega
    · rename_i h2; simp at h2
      split
      · rename_i h; simp at h
        constructor
        · intro c; cases c
        · intro c; omega
      · rename_i h3; simp at h3
        split
        · rename_i h; simp at h
          constructor
          · intro c; cases c
          · intro c
            rcases h with (a | a) | ⟨a, b⟩
            · omega
            · omega
            · have := c.2.2.2.2.2.2.2.1 a
              rw [this.2.2] at b
              simp at b
              rcases b with b | b
              · exact absurd this.1 b
              · exact absurd this.2.1 b
        · rename_i h4; simp at h4
          split
          · rename_i h; simp at h
            constructor
            · intro c; cases c
            · intro c; omega
          · rename_i h5; simp at h5
            split
            · rename_i h; simp at h
              constructor
              · intro c; cases c
              · intro c; omega
            · rename_i h6; simp at h6
              split
              · rename_i h; simp at h
                constructor
                · intro c; cases c
                · intro c
                  rcases h with a | ⟨a, b⟩
                  · omega
                  · exact absurd (c.2.2.2.2.2.2.2.2.2.2.2.2.2.1 a) b
              · rename_i h7; simp at h7
                split
                · rename_i h; simp at h
                  constructor
                  · intro c; cases c
                  · intro c; omega
                · rename_i h8; simp at h8
                  simp only [true_iff]
                  refine ⟨h1, by omega, by omega, by omega, by omega, by omega, by omega, ?_, by omega, by omega, by omega, by omega,
                    by omega, ?_, by omega⟩
                  · intro a
                    have := h4.2 a
                    cases z <;> simp_all
                  · intro a; exact h7.2 a

theorem ofRaw_fields (k : Kind) (r : Raw) :
    (ofRaw k r).year = r.year ∧ (ofRaw k r).month = r.month ∧ (ofRaw k r).day = r.day ∧ (ofRaw k r).hour = r.hour ∧
    (ofRaw k r).minute = r.minute ∧ (ofRaw k r).second = r.second ∧ (ofRaw k r).ms = r.frac := by
  unfold ofRaw; cases r.tz <;> simp

theorem ofRaw_tz (k : Kind) (r : Raw) :
    ((ofRaw k r).tzh.natAbs ≤ 14 ∧ ((ofRaw k r).tzh.natAbs = 14 → (ofRaw k r).tzm = 0) ∧ (ofRaw k r).tzm.natAbs ≤ 59) ↔
      tzValid r.tz = true := by
  unfold ofRaw tzValid
  cases r.tz with
  | none => simp
  | utc => simp
  | pos h m => simp; omega
  | neg h m => simp; omega

theorem maxDay_nat (y : Int) (m : Nat) (hm : m < 14) : maxDayInMonthFor y (m : Int) = (daysInMonth y m : Int) := by
  rw [maxDay_unfold, maxDayL_dim _ m hm, daysInMonth_dim _ m hm y rfl]

/-- `validateDateTime` on the parsed fields is the Spec's field validity -/
theorem validate_valid (k : Kind) (r : Raw) : validateDateTime (ofRaw k r) = valid r := by
  rw [Bool.eq_iff_iff, validate_iff]
  unfold ValidFields
  obtain ⟨e1, e2, e3, e4, e5, e6, e7⟩ := ofRaw_fields k r
  rw [e1, e2, e3, e4, e5, e6, e7, ofRaw_tz]
  unfold valid
  simp only [Bool.and_eq_true, decide_eq_true_eq, bne_iff_ne, ne_eq, Bool.or_eq_true, beq_iff_eq]
  by_cases hm : r.month < 14
  · rw [maxDay_nat r.year r.month hm]
    constructor
    · rintro ⟨a1, a2, a3, a4, a5, a6, a7, a8, a9, a10, a11, a12, a13⟩
      refine ⟨⟨⟨⟨⟨⟨⟨⟨a1, by omega⟩, by omega⟩, by omega⟩, by omega⟩, ?_⟩, by omega⟩, by omega⟩, a13⟩
      by_cases h24 : (r.hour : Int) = 24
      · right
        obtain ⟨b1, b2, b3⟩ := a8 h24
        exact ⟨⟨⟨by omega, by omega⟩, by omega⟩, b3⟩
      · left; omega
    · rintro ⟨⟨⟨⟨⟨⟨⟨⟨a1, a2⟩, a3⟩, a4⟩, a5⟩, a6⟩, a7⟩, a8⟩, a9⟩
      refine ⟨a1, by omega, by omega, by omega, by omega, by omega, ?_, ?_, by omega, by omega, by omega, by omega, a9⟩
      · rcases a6 with h | ⟨⟨⟨h, _⟩, _⟩, _⟩ <;> omega
      · intro h24
        rcases a6 with h | ⟨⟨⟨h, h2⟩, h3⟩, h4⟩
        · omega
        · exact ⟨by omega, by omega, h4⟩
  · constructor
    · rintro ⟨_, _, a3, _⟩; omega
    · rintro ⟨⟨⟨⟨⟨⟨⟨⟨_, _⟩, a3⟩, _⟩, _⟩, _⟩, _⟩, _⟩, _⟩; omega

/-- fields in the ranges every normalized value has (hour 24 and second 60 excluded) -/
structure InRange (d : DT) : Prop where
  month : 1 ≤ d.month ∧ d.month ≤ 12
  day : 1 ≤ d.day ∧ d.day ≤ maxDayInMonthFor d.year d.month
  hour : 0 ≤ d.hour ∧ d.hour ≤ 23
  minute : 0 ≤ d.minute ∧ d.minute ≤ 59
  second : 0 ≤ d.second ∧ d.second ≤ 59
  utc : d.utc = UTC_UNKNOWN ∨ d.utc = UTC_STD

def dn (d : DT) : Int := dayNumber d.year d.month.toNat d.day

/-- seconds on the time line of the fields as they stand (no time zone applied) -/
def instantDT (d : DT) : Int := ((dn d * 24 + d.hour) * 60 + d.minute) * 60 + d.second

theorem dn_facts (d : DT) (h : InRange d) :
    ∃ m : Nat, d.month = m ∧ 1 ≤ m ∧ m ≤ 12 ∧ dn d = yearBase d.year + daysBeforeMonth (isLeap d.year) m + d.day ∧
      d.day ≤ dim (isLeap d.year) m := by
  refine ⟨d.month.toNat, by have := h.month; omega, by have := h.month; omega, by have := h.month; omega, rfl, ?_⟩
  have hm : d.month = (d.month.toNat : Int) := by have := h.month; omega
  have := h.day.2
  rw [hm, maxDay_unfold, maxDayL_dim _ _ (by have := h.month; omega)] at this
  exact this

theorem dn_lt_of_year (l r : DT) (hl : InRange l) (hr : InRange r) (h : l.year < r.year) : dn l < dn r := by
  obtain ⟨m, _, m1, m2, e, dl⟩ := dn_facts l hl
  obtain ⟨m', _, m1', m2', e', _⟩ := dn_facts r hr
  have b := dbm_bounds (isLeap l.year) m (by omega) m1
  have b' := dbm_bounds (isLeap r.year) m' (by omega) m1'
  have ym := yearBase_mono l.year r.year h
  have := hr.day.1
  rw [e, e']
  cases hleap : isLeap l.year <;> rw [hleap] at b ym dl <;> simp only [Bool.false_eq_true, if_false, if_true] at b ym <;> omega

theorem dn_lt_of_month (l r : DT) (hl : InRange l) (hr : InRange r) (hy : l.year = r.year) (h : l.month < r.month) :
    dn l < dn r := by
  obtain ⟨m, em, m1, m2, e, dl⟩ := dn_facts l hl
  obtain ⟨m', em', m1', m2', e', _⟩ := dn_facts r hr
  have := dbm_mono (isLeap l.year) m (by omega) m' (by omega) m1 (by omega)
  have := hr.day.1
  rw [e, e', ← hy]; omega

theorem dn_same_month (l r : DT) (hl : InRange l) (hr : InRange r) (hy : l.year = r.year) (h : l.month = r.month) :
    dn l - dn r = l.day - r.day := by
  unfold dn dayNumber; rw [hy, h]; omega

theorem normalize_id (d : DT) (h : d.utc = UTC_UNKNOWN ∨ d.utc = UTC_STD) : normalize d = d := by
  unfold normalize
  rcases h with h | h <;> simp [h]

theorem go_inrange (l r : DT) (hl : InRange l) (hr : InRange r) (hu : l.utc = r.utc) :
    compareOrder.go [l.year, l.month, l.day, l.hour, l.minute, l.second, 0, (l.utc : Int)]
        [r.year, r.month, r.day, r.hour, r.minute, r.second, 0, (r.utc : Int)] =
      if instantDT l < instantDT r then -1 else if instantDT r < instantDT l then 1 else 0 := by
  simp only [compareOrder.go]
  have A1 := dn_lt_of_year l r hl hr
  have A2 := dn_lt_of_year r l hr hl
  have B1 := dn_lt_of_month l r hl hr
  have B2 := dn_lt_of_month r l hr hl
  have C := dn_same_month l r hl hr
  have h1 := hl.hour; have h2 := hr.hour; have m1 := hl.minute; have m2 := hr.minute
  have s1 := hl.second; have s2 := hr.second
  unfold instantDT
  by_cases y1 : l.year < r.year
  · have := A1 y1
    rw [if_pos y1, if_pos (by omega)]
  · rw [if_neg y1]
    by_cases y2 : l.year > r.year
    · have := A2 y2
      rw [if_pos y2, if_neg (by omega), if_pos (by omega)]
    · rw [if_neg y2]
      have ye : l.year = r.year := by omega
      by_cases mo1 : l.month < r.month
      · have := B1 ye mo1
        rw [if_pos mo1, if_pos (by omega)]
      · rw [if_neg mo1]
        by_cases mo2 : l.month > r.month
        · have := B2 ye.symm mo2
          rw [if_pos mo2, if_neg (by omega), if_pos (by omega)]
        · rw [if_neg mo2]
          have me : l.month = r.month := by omega
          have := C ye me
          by_cases d1 : l.day < r.day
          · rw [if_pos d1, if_pos (by omega)]
          · rw [if_neg d1]
            by_cases d2 : l.day > r.day
            · rw [if_pos d2, if_neg (by omega), if_pos (by omega)]
            · rw [if_neg d2]
              by_cases c1 : l.hour < r.hour
              · rw [if_pos c1, if_pos (by omega)]
              · rw [if_neg c1]
                by_cases c2 : l.hour > r.hour
                · rw [if_pos c2, if_neg (by omega), if_pos (by omega)]
                · rw [if_neg c2]
                  by_cases e1 : l.minute < r.minute
                  · rw [if_pos e1, if_pos (by omega)]
                  · rw [if_neg e1]
                    by_cases e2 : l.minute > r.minute
                    · rw [if_pos e2, if_neg (by omega), if_pos (by omega)]
                    · rw [if_neg e2]
                      by_cases f1 : l.second < r.second
                      · rw [if_pos f1, if_pos (by omega)]
                      · rw [if_neg f1]
                        by_cases f2 : l.second > r.second
                        · rw [if_pos f2, if_neg (by omega), if_pos (by omega)]
                        · rw [if_neg f2]
                          have ue : ¬ ((l.utc : Int) < (r.utc : Int)) := by omega
                          have ue2 : ¬ ((l.utc : Int) > (r.utc : Int)) := by omega
                          simp only [Int.lt_irrefl, if_false, ue, ue2, gt_iff_lt]
                          rw [if_neg (by omega), if_neg (by omega)]

/-- on values in normal range with the same zonedness, `compareOrder` is the order of the time line -/
theorem compareOrder_inrange (l r : DT) (hl : InRange l) (hr : InRange r) (hu : l.utc = r.utc) :
    compareOrder l r =
      if instantDT l < instantDT r then -1
      else if instantDT r < instantDT l then 1
      else if l.hasTime then cmpMs l.ms r.ms else 0 := by
  unfold compareOrder
  rw [normalize_id l hl.utc, normalize_id r hr.utc]
  dsimp only
  rw [go_inrange l r hl hr hu]
  by_cases a : instantDT l < instantDT r
  · simp [a]
  · by_cases b : instantDT r < instantDT l
    · simp [a, b]
    · simp [a, b]

theorem carry60_tab : ∀ n : Nat, n < 200 → carryFix ((n : Int) - 70) 60 = (((n : Int) - 70) % 60, ((n : Int) - 70) / 60) := by
  decide +kernel
theorem carry24_tab : ∀ n : Nat, n < 100 → carryFix ((n : Int) - 30) 24 = (((n : Int) - 30) % 24, ((n : Int) - 30) / 24) := by
  decide +kernel
theorem monthNorm_tab : ∀ t : Nat, t < 14 →
    monthNorm (t : Int) = (if t = 0 then ((12 : Int), (-1 : Int)) else if t = 13 then (1, 1) else ((t : Int), 0)) := by
  decide +kernel

theorem carry60 (t : Int) (h1 : -70 ≤ t) (h2 : t < 130) : carryFix t 60 = (t % 60, t / 60) := by
  have := carry60_tab (t + 70).toNat (by omega)
  have e : (((t + 70).toNat : Nat) : Int) - 70 = t := by omega
  rw [e] at this; exact this

theorem carry24 (t : Int) (h1 : -30 ≤ t) (h2 : t < 70) : carryFix t 24 = (t % 24, t / 24) := by
  have := carry24_tab (t + 30).toNat (by omega)
  have e : (((t + 30).toNat : Nat) : Int) - 30 = t := by omega
  rw [e] at this; exact this

/-- what `normalize` works on: a validated value with an explicit time zone, hour 24 already rolled over -/
structure Zoned (d : DT) : Prop where
  utc : d.utc = UTC_POS ∨ d.utc = UTC_NEG
  month : 1 ≤ d.month ∧ d.month ≤ 12
  day : 1 ≤ d.day ∧ d.day ≤ maxDayInMonthFor d.year d.month
  hour : 0 ≤ d.hour ∧ d.hour ≤ 23
  minute : 0 ≤ d.minute ∧ d.minute ≤ 59
  tzh : 0 ≤ d.tzh ∧ d.tzh ≤ 14
  tzm : 0 ≤ d.tzm ∧ d.tzm ≤ 59

/-- minutes east of UTC to subtract: UTC = local − offset -/
def shiftMin (d : DT) : Int := (if d.utc == UTC_POS then -1 else 1) * (d.tzh * 60 + d.tzm)

/-- a date in range stays put in the day loop -/
theorem dayLoop_stay (fuel : Nat) (d : DT) (h1 : 1 ≤ d.day) (h2 : d.day ≤ maxDayInMonthFor d.year d.month) :
    dayLoop (fuel + 1) d = d := by
  unfold dayLoop
  simp only
  rw [if_neg (by omega), if_neg (by omega)]

theorem dim_of (y : Int) (m : Nat) (hm : m < 14) : maxDayInMonthFor y (m : Int) = dim (isLeap y) m := by
  rw [maxDay_unfold, maxDayL_dim _ m hm]

/-- day 0 of a month is the last day of the month before -/
theorem dayLoop_under (fuel : Nat) (d : DT) (m : Nat) (hm : d.month = m) (m1 : 1 ≤ m) (m2 : m ≤ 12) (h0 : d.day = 0) :
    ∃ y' : Int, ∃ m' : Nat, 1 ≤ m' ∧ m' ≤ 12 ∧
      dayLoop (fuel + 2) d = { d with year := y', month := m', day := dim (isLeap y') m' } ∧
      dayNumber y' m' (dim (isLeap y') m') = dayNumber d.year m 0 := by
  have tab := monthNorm_tab (m - 1) (by omega)
  have e : ((m - 1 : Nat) : Int) = d.month + (-1) := by omega
  rw [e] at tab
  unfold dayLoop
  simp only
  rw [if_pos (by omega), tab]
  by_cases hm1 : m = 1
  · -- January: to December of the previous year
    subst hm1
    simp only [show (1 - 1 : Nat) = 0 from rfl, if_true]
    have mx0 : ∀ y : Int, maxDayInMonthFor y 0 = 31 := fun y => by simp [maxDayInMonthFor]
    refine ⟨d.year + -1, 12, by omega, by omega, ?_, ?_⟩
    · have hd : d.day + maxDayInMonthFor d.year (d.month - 1) = 31 := by
        rw [h0, hm, show (((1 : Nat) : Int) - 1) = 0 from rfl, mx0]; rfl
      rw [hd]
      have h31 : dim (isLeap (d.year + -1)) 12 = 31 := (dbm_one _).2.2
      rw [dayLoop_stay fuel _ (by simp) (by simp only; rw [show ((12 : Int)) = ((12 : Nat) : Int) from rfl, dim_of _ 12 (by omega), h31]; omega)]
      rw [h31]; rfl
    · have h31 : dim (isLeap (d.year + -1)) 12 = 31 := (dbm_one _).2.2
      rw [h31, dayNumber_eq, dayNumber_eq]
      have ys := yearBase_succ (d.year + -1)
      have e2 : d.year + -1 + 1 = d.year := by omega
      rw [e2] at ys
      have d1 := (dbm_one (isLeap (d.year + -1))).2.1
      have d0 := (dbm_one (isLeap d.year)).1
      rw [d0, ys]; omega
  · have hne : ¬ (m - 1 = 0) := by omega
    have hne2 : ¬ (m - 1 = 13) := by omega
    simp only [hne, hne2, if_false]
    refine ⟨d.year + 0, m - 1, by omega, by omega, ?_, ?_⟩
    · have e3 : d.month - 1 = ((m - 1 : Nat) : Int) := by omega
      have hd : d.day + maxDayInMonthFor d.year (d.month - 1) = dim (isLeap d.year) (m - 1) := by
        rw [h0, e3, dim_of _ _ (by omega)]; omega
      rw [hd]
      have e4 : d.year + 0 = d.year := by omega
      rw [e4, ← e]
      rw [dayLoop_stay fuel _ (by
            simp only
            have := (dbm_bounds (isLeap d.year) (m - 1) (by omega) (by omega)).2.2; omega)
          (by simp only; rw [dim_of _ _ (by omega)]; omega)]
    · have e4 : d.year + 0 = d.year := by omega
      rw [e4, dayNumber_eq, dayNumber_eq]
      have := dbm_succ (isLeap d.year) (m - 1) (by omega) (by omega)
      have e5 : m - 1 + 1 = m := by omega
      rw [e5] at this
      rw [this]; omega

/-- the day after the last day of a month is the first of the next -/
theorem dayLoop_over (fuel : Nat) (d : DT) (m : Nat) (hm : d.month = m) (m1 : 1 ≤ m) (m2 : m ≤ 12)
    (h0 : d.day = maxDayInMonthFor d.year d.month + 1) :
    ∃ y' : Int, ∃ m' : Nat, 1 ≤ m' ∧ m' ≤ 12 ∧
      dayLoop (fuel + 2) d = { d with year := y', month := m', day := 1 } ∧
      dayNumber y' m' 1 = dayNumber d.year m (dim (isLeap d.year) m + 1) := by
  have tab := monthNorm_tab (m + 1) (by omega)
  have e : ((m + 1 : Nat) : Int) = d.month + 1 := by omega
  rw [e] at tab
  have hdim : maxDayInMonthFor d.year d.month = dim (isLeap d.year) m := by rw [hm, dim_of _ _ (by omega)]
  have hb := (dbm_bounds (isLeap d.year) m (by omega) m1).2.2
  unfold dayLoop
  simp only
  rw [if_neg (by omega), if_pos (by omega), tab]
  have hd : d.day - maxDayInMonthFor d.year d.month = 1 := by omega
  rw [hd]
  by_cases hm12 : m = 12
  · subst hm12
    simp only [show ¬ (12 + 1 = 0) by omega, show (12 + 1 = 13) from rfl, if_true, if_false]
    refine ⟨d.year + 1, 1, by omega, by omega, ?_, ?_⟩
    · rw [dayLoop_stay fuel _ (by simp) (by
        simp only
        have e1 : maxDayInMonthFor (d.year + 1) 1 = dim (isLeap (d.year + 1)) 1 := dim_of (d.year + 1) 1 (by omega)
        rw [e1]
        have := (dbm_bounds (isLeap (d.year + 1)) 1 (by omega) (by omega)).2.2; omega)]
      rfl
    · rw [dayNumber_eq, dayNumber_eq, yearBase_succ]
      have d0 := (dbm_one (isLeap (d.year + 1))).1
      have d1 := (dbm_one (isLeap d.year)).2.1
      have d2 := (dbm_one (isLeap d.year)).2.2
      rw [d0, d2]; omega
  · have hne : ¬ (m + 1 = 0) := by omega
    have hne2 : ¬ (m + 1 = 13) := by omega
    simp only [hne, hne2, if_false]
    refine ⟨d.year + 0, m + 1, by omega, by omega, ?_, ?_⟩
    · have e4 : d.year + 0 = d.year := by omega
      rw [e4, ← e]
      rw [dayLoop_stay fuel _ (by simp) (by
        simp only; rw [dim_of _ _ (by omega)]
        have := (dbm_bounds (isLeap d.year) (m + 1) (by omega) (by omega)).2.2; omega)]
    · have e4 : d.year + 0 = d.year := by omega
      rw [e4, dayNumber_eq, dayNumber_eq, dbm_succ (isLeap d.year) m (by omega) m1]; omega

/-- `normalize` with the sign made explicit -/
theorem normalize_unfold (d : DT) (sg : Int) (h : (d.utc = UTC_POS ∧ sg = -1) ∨ (d.utc = UTC_NEG ∧ sg = 1)) :
    normalize d =
      { dayLoop 4 { d with year := d.year + (monthNorm d.month).2, month := (monthNorm d.month).1,
                           minute := (carryFix (d.minute + sg * d.tzm) 60).1,
                           hour := (carryFix (d.hour + sg * d.tzh + (carryFix (d.minute + sg * d.tzm) 60).2) 24).1,
                           day := d.day + (carryFix (d.hour + sg * d.tzh + (carryFix (d.minute + sg * d.tzm) 60).2) 24).2 }
        with utc := UTC_STD } := by
  unfold normalize
  rcases h with ⟨hu, hs⟩ | ⟨hu, hs⟩ <;> subst hs <;> simp [hu, UTC_POS, UTC_NEG, UTC_UNKNOWN, UTC_STD]

theorem normalize_spec (d : DT) (h : Zoned d) :
    (normalize d).utc = UTC_STD ∧ (normalize d).second = d.second ∧ (normalize d).ms = d.ms ∧
    (normalize d).hasTime = d.hasTime ∧
    1 ≤ (normalize d).month ∧ (normalize d).month ≤ 12 ∧
    1 ≤ (normalize d).day ∧ (normalize d).day ≤ maxDayInMonthFor (normalize d).year (normalize d).month ∧
    0 ≤ (normalize d).hour ∧ (normalize d).hour ≤ 23 ∧ 0 ≤ (normalize d).minute ∧ (normalize d).minute ≤ 59 ∧
    instantDT (normalize d) = instantDT d + shiftMin d * 60 := by
  obtain ⟨sg, hsg⟩ : ∃ sg : Int, (d.utc = UTC_POS ∧ sg = -1) ∨ (d.utc = UTC_NEG ∧ sg = 1) := by
    rcases h.utc with hu | hu
    · exact ⟨-1, Or.inl ⟨hu, rfl⟩⟩
    · exact ⟨1, Or.inr ⟨hu, rfl⟩⟩
  have hshift : shiftMin d = sg * (d.tzh * 60 + d.tzm) := by
    unfold shiftMin
    rcases hsg with ⟨hu, hs⟩ | ⟨hu, hs⟩ <;> rw [hu, hs] <;> rfl
  have sgr : sg = -1 ∨ sg = 1 := by rcases hsg with ⟨_, hs⟩ | ⟨_, hs⟩ <;> simp [hs]
  rw [normalize_unfold d sg hsg]
  obtain ⟨m, hm⟩ : ∃ m : Nat, d.month = m := ⟨d.month.toNat, by have := h.month; omega⟩
  have m1 : 1 ≤ m := by have := h.month; omega
  have m2 : m ≤ 12 := by have := h.month; omega
  have hmn : monthNorm d.month = ((m : Int), 0) := by
    rw [hm, monthNorm_tab m (by omega)]
    rw [if_neg (by omega), if_neg (by omega)]
  have hmin := h.minute; have hhr := h.hour; have htzh := h.tzh; have htzm := h.tzm; have hday := h.day
  obtain ⟨t1, ht1⟩ : ∃ t1, t1 = d.minute + sg * d.tzm := ⟨_, rfl⟩
  have t1r : -70 ≤ t1 ∧ t1 < 130 := by rcases sgr with e | e <;> subst e <;> omega
  have c1 := carry60 t1 t1r.1 t1r.2
  obtain ⟨t2, ht2⟩ : ∃ t2, t2 = d.hour + sg * d.tzh + t1 / 60 := ⟨_, rfl⟩
  have t2r : -30 ≤ t2 ∧ t2 < 70 := by rcases sgr with e | e <;> subst e <;> omega
  have c2 := carry24 t2 t2r.1 t2r.2
  rw [hmn, ← ht1, c1]
  simp only
  rw [← ht2, c2]
  simp only
  have cr : t2 / 24 = -1 ∨ t2 / 24 = 0 ∨ t2 / 24 = 1 := by rcases sgr with e | e <;> subst e <;> omega
  have hdimm : maxDayInMonthFor (d.year + 0) (m : Int) = dim (isLeap d.year) m := by
    rw [show d.year + 0 = d.year by omega, dim_of _ _ (by omega)]
  have hdayr : d.day ≤ dim (isLeap d.year) m := by
    have := h.day.2; rw [hm, dim_of _ _ (by omega)] at this; exact this
  have hb := (dbm_bounds (isLeap d.year) m (by omega) m1).2.2
  have hdn : dn d = dayNumber d.year m d.day := by unfold dn; rw [hm]; simp
  obtain ⟨D1, hD1⟩ : ∃ D1 : DT, D1 = { d with year := d.year + 0, month := (m : Int), minute := (t1 % 60), hour := (t2 % 24), day := (d.day + t2 / 24) } :=
    ⟨_, rfl⟩
  rw [← hD1]
  have D1y : D1.year = d.year := by rw [hD1]; simp
  have D1m : D1.month = m := by rw [hD1]
  have D1d : D1.day = d.day + t2 / 24 := by rw [hD1]
  -- three cases of the day loop
  have key : ∃ y' : Int, ∃ m' : Nat, ∃ day' : Int, 1 ≤ m' ∧ m' ≤ 12 ∧ 1 ≤ day' ∧ day' ≤ dim (isLeap y') m' ∧
      dayLoop 4 D1 = { D1 with year := y', month := m', day := day' } ∧
      dayNumber y' m' day' = dayNumber d.year m (d.day + t2 / 24) := by
    by_cases hlow : D1.day < 1
    · have h0 : D1.day = 0 := by omega
      obtain ⟨y', m', a1, a2, a3, a4⟩ := dayLoop_under 2 D1 m D1m m1 m2 h0
      refine ⟨y', m', dim (isLeap y') m', a1, a2, ?_, Int.le_refl _, a3, ?_⟩
      · have := (dbm_bounds (isLeap y') m' (by omega) a1).2.2; omega
      · rw [a4, D1y]; congr 1; omega
    · by_cases hhigh : D1.day > maxDayInMonthFor D1.year D1.month
      · have hmx : maxDayInMonthFor D1.year D1.month = dim (isLeap d.year) m := by
          rw [D1y, D1m, dim_of _ _ (by omega)]
        have h0 : D1.day = maxDayInMonthFor D1.year D1.month + 1 := by omega
        obtain ⟨y', m', a1, a2, a3, a4⟩ := dayLoop_over 2 D1 m D1m m1 m2 h0
        refine ⟨y', m', 1, a1, a2, Int.le_refl _, ?_, a3, ?_⟩
        · have := (dbm_bounds (isLeap y') m' (by omega) a1).2.2; omega
        · rw [a4, D1y]; congr 1; omega
      · have hmx : maxDayInMonthFor D1.year D1.month = dim (isLeap d.year) m := by
          rw [D1y, D1m, dim_of _ _ (by omega)]
        refine ⟨d.year, m, d.day + t2 / 24, m1, m2, by omega, by omega, ?_, rfl⟩
        rw [dayLoop_stay 3 D1 (by omega) (by omega), hD1]
        simp
  obtain ⟨y', m', day', a1, a2, a3, a4, a5, a6⟩ := key
  rw [a5, hD1]
  simp only
  refine ⟨trivial, trivial, trivial, trivial, by omega, by omega, a3, ?_, by omega, by omega, by omega, by omega, ?_⟩
  · rw [dim_of _ _ (by omega)]; exact a4
  · unfold instantDT
    have e1 : ∀ X : DT, X.year = y' → X.month = (m' : Int) → X.day = day' → dn X = dayNumber y' m' day' := by
      intro X hy hmo hd
      unfold dn; rw [hy, hmo, hd]; simp
    rw [e1 _ rfl rfl rfl, a6, hdn, hshift]
    simp only
    rw [dayNumber_eq, dayNumber_eq]
    rcases sgr with e | e <;> subst e <;> omega

end XV.Lemmas.DateTime
