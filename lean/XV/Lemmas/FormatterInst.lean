/- C12: sufficiency of the generated escape rows for the XML reader, and the Good-coder facts of the intrinsic
transcoders (table transcoders through C05's xlatOneTo_is_lookup). -/
import XV.Lemmas.Formatter
import XV.Props.C05
namespace XV.Lemmas.Formatter
open XV.Model.Formatter XV.Model.ByteCodec XV.Gen.ByteTables XV.Gen.Escapes XV.Spec.Unescape Rd
open XV.Spec.Escaping
set_option maxRecDepth 8000

theorem suff_char10 (f : Bool) : Suff false ⟨false, f⟩ .CharEscapes := by
  refine ⟨by decide, ?_⟩
  intro c hlt hh hl hok he
  simp only [refOK, isChar10, Bool.false_eq_true, if_false, Bool.or_eq_true, Bool.and_eq_true, beq_iff_eq, decide_eq_true_eq] at hok
  simp [inEscapeList, escRow, escCharEscapes, scanRow] at he
  refine ⟨by omega, by omega, by omega, (by simp), (by intro _; omega), (by simp), ?_, hh, hl⟩
  simp [literalOK, isChar10]; omega

theorem suff_attr10 (f : Bool) : Suff true ⟨false, f⟩ .AttrEscapes := by
  refine ⟨by decide, ?_⟩
  intro c hlt hh hl hok he
  simp only [refOK, isChar10, Bool.false_eq_true, if_false, Bool.or_eq_true, Bool.and_eq_true, beq_iff_eq, decide_eq_true_eq] at hok
  simp [inEscapeList, escRow, escAttrEscapes, scanRow] at he
  refine ⟨by omega, by omega, by omega, (by intro _; omega), (by simp), (by simp), ?_, hh, hl⟩
  simp [literalOK, isChar10]; omega

theorem suff_char11_fixed : Suff false ⟨true, true⟩ .CharEscapes := by
  refine ⟨by decide, ?_⟩
  intro c hlt hh hl hok he
  simp only [refOK, isChar11, if_true, Bool.or_eq_true, Bool.and_eq_true, decide_eq_true_eq] at hok
  simp [inEscapeList, escRow, escCharEscapes, scanRow, inRanges, control11, whitespace11] at he
  refine ⟨by omega, by omega, by omega, (by simp), (by intro _; omega), (by intro _; omega), ?_, hh, hl⟩
  simp [literalOK, isChar11, isRestricted11]; omega

theorem suff_attr11_fixed : Suff true ⟨true, true⟩ .AttrEscapes := by
  refine ⟨by decide, ?_⟩
  intro c hlt hh hl hok he
  simp only [refOK, isChar11, if_true, Bool.or_eq_true, Bool.and_eq_true, decide_eq_true_eq] at hok
  simp [inEscapeList, escRow, escAttrEscapes, scanRow, inRanges, control11, whitespace11] at he
  refine ⟨by omega, by omega, by omega, (by intro _; omega), (by simp), (by intro _; omega), ?_, hh, hl⟩
  simp [literalOK, isChar11, isRestricted11]; omega

theorem good_utf8 : Good utf8Coder := ⟨by intro c _ _; simp [utf8Coder]; omega, by intro c _ _; rfl,
  .inl (by intro c _ _; simp [utf8Coder]; omega), by intro _ c h; simp [utf8Coder]; omega⟩
theorem good_utf16 : Good utf16Coder := ⟨by intro c _ _; rfl, by intro c _ _; rfl, .inl (by intro c _ _; rfl), by intro _ c h; rfl⟩
theorem good_latin1 : Good latin1Coder := ⟨by intro c _ _; simp [latin1Coder]; omega, by intro c _ _; rfl,
  .inr (by intro c _ _; simp [latin1Coder]; omega), by intro h; simp [latin1Coder] at h⟩
theorem good_ascii : Good asciiCoder := ⟨by intro c _ _; simp [asciiCoder]; omega, by intro c _ _; rfl,
  .inr (by intro c _ _; simp [asciiCoder]; omega), by intro h; simp [asciiCoder] at h⟩

theorem lookup_zero (tbl : List (Nat × Nat)) (c : Nat) (h : ∀ p ∈ tbl, p.1 ≠ c) : lookup tbl c = 0 := by
  unfold lookup
  have : tbl.find? (fun p => decide (p.1 = c)) = none := by
    rw [List.find?_eq_none]; intro p hp; simpa using h p hp
  simp [this]

def tableAsciiOK (t : Table) : Bool :=
  (List.range 127).all (fun c => c < 32 || (lookup t.toTable c != 0 && t.fromTable.getD (lookup t.toTable c) 0xFFFF == c))
def tableNoSurr (t : Table) : Bool := t.toTable.all (fun p => p.1 < 0xD800 || 0xDFFF < p.1)

theorem all_tables_ok : ∀ t ∈ all, tableAsciiOK t = true ∧ tableNoSurr t = true := by decide +kernel

theorem good_table (t : Table) (ht : t ∈ all) : Good (tableCoder t) := by
  have ⟨ha, hs⟩ := all_tables_ok t ht
  have hl := XV.Props.C05.xlatOneTo_is_lookup t ht
  have hasc : ∀ c, 32 ≤ c → c < 127 → lookup t.toTable c ≠ 0 ∧ t.fromTable.getD (lookup t.toTable c) 0xFFFF = c := by
    intro c h1 h2
    simp only [tableAsciiOK, List.all_eq_true, List.mem_range] at ha
    have := ha c (by omega)
    simp at this
    rcases this with h | h
    · omega
    · exact h
  refine ⟨?_, ?_, .inr ?_, by intro h; simp [tableCoder] at h⟩
  · intro c h1 h2
    have hmod : c % 65536 = c := by omega
    simp only [tableCoder, canTranscodeTo, hmod, hl]
    simpa using (hasc c h1 h2).1
  · intro c h1 h2
    have hmod : c % 65536 = c := by omega
    simp only [tableCoder, hmod, hl]
    exact (hasc c h1 h2).2
  · intro c h1 h2
    have hmod : c % 65536 = c := by omega
    simp only [tableCoder, canTranscodeTo, hmod, hl]
    rw [lookup_zero]
    · simp
    · intro p hp
      simp only [tableNoSurr, List.all_eq_true, Bool.or_eq_true, decide_eq_true_eq] at hs
      have := hs p hp; omega

/-- the only units a table transcoder accepts but does not give back: the "best fit" entries of the to-tables
(fullwidth forms U+FF01..U+FF5E written as ASCII, U+0110, U+203E, and U+0085 in IBM1047) -/
def bestFit (u : Nat) : Bool := (0xFF01 ≤ u && u ≤ 0xFF5E) || u == 0x110 || u == 0x203E || u == 0x85

def tableFaithfulExcept (t : Table) : Bool :=
  t.toTable.all (fun p => p.2 == 0 || t.fromTable.getD p.2 0xFFFF == p.1 || bestFit p.1)

theorem all_tables_faithful_except : ∀ t ∈ all, tableFaithfulExcept t = true := by decide +kernel

theorem lookup_mem (tbl : List (Nat × Nat)) (c : Nat) (h : lookup tbl c ≠ 0) : (c, lookup tbl c) ∈ tbl := by
  unfold lookup at h ⊢
  cases hf : tbl.find? (fun p => decide (p.1 = c)) with
  | none => simp [hf] at h
  | some p =>
    have h1 := List.find?_some hf
    have h2 := List.mem_of_find?_eq_some hf
    simp at h1
    simp only
    rw [← h1]; exact h2

theorem table_back (t : Table) (ht : t ∈ all) (u : Nat) (hu : u < 65536) (hr : (tableCoder t).rep u = true)
    (hb : bestFit u = false) : (tableCoder t).back u = u := by
  have hl := XV.Props.C05.xlatOneTo_is_lookup t ht
  have hmod : u % 65536 = u := by omega
  simp only [tableCoder, canTranscodeTo, hmod, hl] at hr ⊢
  have hne : lookup t.toTable u ≠ 0 := by simpa using hr
  have hm := lookup_mem t.toTable u hne
  have := all_tables_faithful_except t ht
  simp only [tableFaithfulExcept, List.all_eq_true] at this
  have := this _ hm
  simp [hb, hne] at this
  exact this

theorem refText_mem (c u : Nat) (h : u ∈ refText c) : 35 ≤ u ∧ u ≤ 120 := by
  unfold refText at h
  split at h
  · exact stdRef_mem _ (by simp) u h
  split at h
  · exact stdRef_mem _ (by simp) u h
  split at h
  · exact stdRef_mem _ (by simp) u h
  split at h
  · exact stdRef_mem _ (by simp) u h
  split at h
  · exact stdRef_mem _ (by simp) u h
  · exact charRefText_mem c u h

theorem escUnits_rep (cd : Coder) (hg : Good cd) (cfg : Cfg) (esc : EscapeFlags) :
    ∀ (k : Nat) (s : List Nat), s.length ≤ k → ∀ u ∈ escUnits cd cfg esc s, cd.rep u = true := by
  have asc : ∀ u, 35 ≤ u ∧ u ≤ 120 → cd.rep u = true := fun u h => hg.ascii u (by omega) (by omega)
  intro k
  induction k with
  | zero => intro s hl u hu; have : s = [] := by cases s <;> simp_all
            subst this; simp [escUnits] at hu
  | succ k ih =>
    intro s hl u hu
    match s, hl, hu with
    | [], _, hu => simp [escUnits] at hu
    | [c], _, hu =>
      simp only [escUnits] at hu
      split at hu
      · rename_i hc
        split at hu
        · exact asc u (refText_mem c u hu)
        · simp at hu; subst hu; exact hc
      · split at hu <;> exact asc u (charRefText_mem _ u hu)
    | c :: n :: t, hl, hu =>
      simp only [escUnits] at hu
      split at hu
      · rename_i hc
        rw [List.mem_append] at hu
        rcases hu with hu | hu
        · split at hu
          · exact asc u (refText_mem c u hu)
          · simp at hu; subst hu; exact hc
        · exact ih (n :: t) (by simp at hl ⊢; omega) u hu
      · split at hu
        · rw [List.mem_append] at hu
          rcases hu with hu | hu
          · exact asc u (charRefText_mem _ u hu)
          · exact ih t (by simp at hl ⊢; omega) u hu
        · rw [List.mem_append] at hu
          rcases hu with hu | hu
          · exact asc u (charRefText_mem _ u hu)
          · exact ih (n :: t) (by simp at hl ⊢; omega) u hu

end XV.Lemmas.Formatter
