/-
C08 — counting states: a `+` leaf of a compact skeleton never shares its follow set with an earlier position
(`plus_sep`), and the occurrence ranges recorded per leaf id sit on `*` / `+` leaf positions (`rng_pos`).
Core Lean only.
-/
import XV.Lemmas.ParticleCountFol
namespace XV.Lemmas.ParticleCount
open XV.Spec.Particle XV.Model.Particle XV.Model.ParticleDfa
open XV.Spec.ContentModel (CM)
open XV.Lemmas.Glushkov

theorem FF_seq_left_nolast (a b : CM) (lo p r : Nat) (hp : lo ≤ p ∧ p < lo + size a) (hl : last a lo p = false)
    (hr : lo + size a ≤ r) : FF (.seq a b) lo p r = false := by
  have h1 : fol b (lo + size a) p r = false := fol_out_l (by omega)
  have h2 : fol a lo p r = false := fol_out_r (by omega)
  have h3 : last b (lo + size a) p = false := last_out (by omega)
  simp [FF, fol, last, h1, h2, h3, hl]

/-- the follow set of a `+` leaf is not the initial set of the subtree -/
theorem plus_init {c : CM} (hc : CompactCM c = true) {lo p : Nat} (h : plusAt c lo p = true) :
    ∃ r, lo ≤ r ∧ r ≤ lo + size c ∧ FF c lo p r ≠ II c lo r := by
  induction c generalizing lo with
  | leaf n => simp [plusAt] at h
  | seq a b iha ihb =>
    simp only [CompactCM, Bool.and_eq_true] at hc
    simp only [plusAt, Bool.or_eq_true] at h
    rcases h with h | h
    · have hp := selfAt_range (plusAt_selfAt h)
      obtain ⟨r, hr0, hr, hne⟩ := iha hc.1 h
      by_cases hlt : r < lo + size a
      · refine ⟨r, hr0, by simp only [size]; omega, ?_⟩
        rw [FF_seq_left_in a b lo p r hp hlt, II_seq_left_in a b lo r hlt]
        have hd : decide (r = lo + size a) = false := decide_eq_false (by omega)
        simpa [FF, II, hd] using hne
      · have hre : r = lo + size a := by omega
        subst hre
        have h1 : fol a lo p (lo + size a) = false := fol_out_r (by omega)
        have h2 : first a lo (lo + size a) = false := first_out (by omega)
        have hne' : last a lo p ≠ nullable a := by simpa [FF, II, h1, h2] using hne
        obtain ⟨r', hr'⟩ := first_nonempty b (lo + size a)
        have hrr := first_range hr'
        refine ⟨r', by omega, by simp only [size]; omega, ?_⟩
        rw [FF_seq_left_first a b lo p r' hp hr', II_seq_first a b lo r' hr']
        exact hne'
    · have hp := selfAt_range (plusAt_selfAt h)
      obtain ⟨r', hr'⟩ := first_nonempty a lo
      have hrr := first_range hr'
      refine ⟨r', by omega, by simp only [size]; omega, ?_⟩
      rw [FF_seq_right_a a b lo p r' (by omega) (by omega), II_seq_first_a a b lo r' hr']
      simp
  | choice a b iha ihb =>
    simp only [CompactCM, Bool.and_eq_true] at hc
    simp only [plusAt, Bool.or_eq_true] at h
    rcases h with h | h
    · have hp := selfAt_range (plusAt_selfAt h)
      obtain ⟨r', hr'⟩ := first_nonempty b (lo + size a)
      have hrr := first_range hr'
      refine ⟨r', by omega, by simp only [size]; omega, ?_⟩
      rw [FF_choice_left_b a b lo p r' hp (by omega)]
      simp [II, first, hr']
    · have hp := selfAt_range (plusAt_selfAt h)
      obtain ⟨r', hr'⟩ := first_nonempty a lo
      have hrr := first_range hr'
      refine ⟨r', by omega, by simp only [size]; omega, ?_⟩
      rw [FF_choice_right_a a b lo p r' (by omega) (by omega)]
      simp [II, first, hr']
  | opt a _ =>
    cases a with
    | leaf n => simp [plusAt] at h
    | _ => simp [CompactCM] at hc
  | star a _ => simp [plusAt] at h
  | plus a _ =>
    cases a with
    | leaf n =>
      simp only [plusAt, beq_iff_eq] at h
      subst h
      exact ⟨p + 1, by omega, by simp [size], by simp [FF, II, fol, last, first, nullable, size]⟩
    | _ => simp [CompactCM] at hc

/-- the follow set of a `+` leaf differs from the follow set of every earlier position -/
theorem plus_sep {c : CM} (hc : CompactCM c = true) {lo p q : Nat} (h : plusAt c lo p = true) (hq : lo ≤ q) (hqp : q < p) :
    ∃ r, r ≤ lo + size c ∧ FF c lo q r ≠ FF c lo p r := by
  induction c generalizing lo with
  | leaf n => simp [plusAt] at h
  | seq a b iha ihb =>
    have hcs := hc
    simp only [CompactCM, Bool.and_eq_true] at hc
    have hself : selfAt (.seq a b) lo p = true := plusAt_selfAt h
    simp only [plusAt, Bool.or_eq_true] at h
    rcases h with h | h
    · have hp := selfAt_range (plusAt_selfAt h)
      obtain ⟨r, hr, hne⟩ := iha hc.1 h hq
      by_cases hlt : r < lo + size a
      · refine ⟨r, by simp only [size]; omega, ?_⟩
        rw [FF_seq_left_in a b lo q r (by omega) hlt, FF_seq_left_in a b lo p r hp hlt]
        have hd : decide (r = lo + size a) = false := decide_eq_false (by omega)
        simpa [FF, hd] using hne
      · have hre : r = lo + size a := by omega
        subst hre
        have h1 : fol a lo p (lo + size a) = false := fol_out_r (by omega)
        have h2 : fol a lo q (lo + size a) = false := fol_out_r (by omega)
        have hne' : last a lo q ≠ last a lo p := by simpa [FF, h1, h2] using hne
        obtain ⟨r', hr'⟩ := first_nonempty b (lo + size a)
        have hrr := first_range hr'
        refine ⟨r', by simp only [size]; omega, ?_⟩
        rw [FF_seq_left_first a b lo q r' (by omega) hr', FF_seq_left_first a b lo p r' hp hr']
        exact hne'
    · have hp := selfAt_range (plusAt_selfAt h)
      by_cases hq' : lo + size a ≤ q
      · obtain ⟨r, hr, hne⟩ := ihb hc.2 h hq'
        refine ⟨r, by simp only [size]; omega, ?_⟩
        rw [FF_seq_right a b lo q r hq', FF_seq_right a b lo p r (by omega)]
        exact hne
      · cases hl : last a lo q with
        | true =>
          obtain ⟨r, hr0, hr, hne⟩ := plus_init hc.2 h
          refine ⟨r, by simp only [size]; omega, ?_⟩
          rw [FF_seq_left_b a b lo q r (by omega) hl hr0, FF_seq_right a b lo p r (by omega)]
          exact fun e => hne e.symm
        | false =>
          refine ⟨p, by simp only [size]; omega, ?_⟩
          rw [FF_seq_left_nolast a b lo q p (by omega) hl (by omega), FF_self hcs hself]
          simp
  | choice a b iha ihb =>
    have hcs := hc
    simp only [CompactCM, Bool.and_eq_true] at hc
    have hself : selfAt (.choice a b) lo p = true := plusAt_selfAt h
    simp only [plusAt, Bool.or_eq_true] at h
    rcases h with h | h
    · have hp := selfAt_range (plusAt_selfAt h)
      obtain ⟨r, hr, hne⟩ := iha hc.1 h hq
      by_cases hlt : r < lo + size a
      · refine ⟨r, by simp only [size]; omega, ?_⟩
        rw [FF_choice_left_in a b lo q r (by omega) hlt, FF_choice_left_in a b lo p r hp hlt]
        have hd : decide (r = lo + size a) = false := decide_eq_false (by omega)
        simpa [FF, hd] using hne
      · have hre : r = lo + size a := by omega
        subst hre
        have h1 : fol a lo p (lo + size a) = false := fol_out_r (by omega)
        have h2 : fol a lo q (lo + size a) = false := fol_out_r (by omega)
        have hne' : last a lo q ≠ last a lo p := by simpa [FF, h1, h2] using hne
        refine ⟨lo + size a + size b, by simp only [size]; omega, ?_⟩
        rw [FF_choice_left_end a b lo q (by omega), FF_choice_left_end a b lo p hp]
        exact hne'
    · have hp := selfAt_range (plusAt_selfAt h)
      by_cases hq' : lo + size a ≤ q
      · obtain ⟨r, hr, hne⟩ := ihb hc.2 h hq'
        refine ⟨r, by simp only [size]; omega, ?_⟩
        rw [FF_choice_right a b lo q r hq', FF_choice_right a b lo p r (by omega)]
        exact hne
      · refine ⟨p, by simp only [size]; omega, ?_⟩
        rw [FF_choice_left_b a b lo q p (by omega) (by omega), FF_self hcs hself]
        simp
  | opt a _ =>
    cases a with
    | leaf n => simp [plusAt] at h
    | _ => simp [CompactCM] at hc
  | star a _ => simp [plusAt] at h
  | plus a _ =>
    simp only [plusAt, beq_iff_eq] at h
    omega

/-! ### from trees to skeletons -/

theorem compact_sk (x : XNode Nat) (h : Compact x = true) : CompactCM (sk x) = true := by
  induction x with
  | leaf a => rfl
  | unary t x _ =>
    cases x with
    | leaf a => cases t <;> rfl
    | _ => simp [Compact] at h
  | bin t x y ihx ihy =>
    cases t with
    | All => simp [Compact] at h
    | Sequence =>
      simp only [Compact, Bool.and_eq_true] at h
      simp [sk, CompactCM, ihx h.1, ihy h.2]
    | Choice =>
      simp only [Compact, Bool.and_eq_true] at h
      simp [sk, CompactCM, ihx h.1, ihy h.2]
  | loopRep o mn mx x _ =>
    cases x with
    | leaf a => cases o <;> first | rfl | simp [Compact] at h
    | _ => cases o <;> simp [Compact] at h

theorem nameAt_mem (c : CM) (lo p : Nat) (h : lo ≤ p ∧ p < lo + size c) : nameAt c lo p ∈ names c := by
  unfold nameAt
  have hl : p - lo < (names c).length := by rw [names_length]; omega
  simp only [List.getD_eq_getElem?_getD, List.getElem?_eq_getElem hl, Option.getD_some]
  exact List.getElem_mem hl

/-- a recorded occurrence range sits on a `*` / `+` leaf; minOccurs ≥ 1 on a `+` leaf; the range is Particle Correct -/
theorem rng_pos (x : XNode Nat) (hc : Compact x = true) (hn : (names (sk x)).Nodup) (lo p : Nat)
    (hp : lo ≤ p ∧ p < lo + size (sk x)) (mn : Nat) (mx : Option Nat)
    (h : rng x (nameAt (sk x) lo p) = some (mn, mx)) :
    selfAt (sk x) lo p = true ∧ (1 ≤ mn → plusAt (sk x) lo p = true) ∧ occOk mn mx = true := by
  induction x generalizing lo with
  | leaf a => rw [show rng (.leaf a) = rngOf [(a, none)] from rfl, rngOf_single_none] at h; cases h
  | unary t x _ =>
    cases x with
    | leaf a => rw [show rng (.unary t (.leaf a)) = rngOf [(a, none)] from rfl, rngOf_single_none] at h; cases h
    | _ => simp [Compact] at hc
  | loopRep o mn' mx' x _ =>
    cases x with
    | leaf a =>
      have hsz : size (sk (.loopRep o mn' mx' (.leaf a))) = 1 := by cases o <;> rfl
      rw [hsz] at hp
      have hpl : p = lo := by omega
      subst hpl
      have hname : nameAt (sk (.loopRep o mn' mx' (.leaf a))) p p = a := by cases o <;> simp [nameAt, sk, names]
      rw [hname] at h
      have hr : rng (.loopRep o mn' mx' (.leaf a)) a = some (mn', mx') := by simp [rng, rngOf, leafInfos]
      rw [hr] at h
      simp only [Option.some.injEq, Prod.mk.injEq] at h
      obtain ⟨rfl, rfl⟩ := h
      cases o with
      | ZeroOrOne => simp [Compact] at hc
      | ZeroOrMore =>
        simp only [Compact, Bool.and_eq_true, beq_iff_eq] at hc
        refine ⟨by simp [sk, selfAt], ?_, hc.2⟩
        intro h1; omega
      | OneOrMore =>
        simp only [Compact, Bool.and_eq_true, decide_eq_true_eq] at hc
        exact ⟨by simp [sk, selfAt], fun _ => by simp [sk, plusAt], hc.2⟩
    | _ => cases o <;> simp [Compact] at hc
  | bin t x1 x2 ih1 ih2 =>
    have main : ∀ (c : CM), (names c = names (sk x1) ++ names (sk x2)) → size c = size (sk x1) + size (sk x2) →
        (∀ q, selfAt c lo q = (selfAt (sk x1) lo q || selfAt (sk x2) (lo + size (sk x1)) q)) →
        (∀ q, plusAt c lo q = (plusAt (sk x1) lo q || plusAt (sk x2) (lo + size (sk x1)) q)) →
        Compact x1 = true → Compact x2 = true → (names c).Nodup → (lo ≤ p ∧ p < lo + size c) →
        rng (.bin t x1 x2) (nameAt c lo p) = some (mn, mx) →
        selfAt c lo p = true ∧ (1 ≤ mn → plusAt c lo p = true) ∧ occOk mn mx = true := by
      intro c hnames hsize hself hplus hc1 hc2 hn hp h
      rw [hnames, List.nodup_append] at hn
      obtain ⟨hn1, hn2, hdis⟩ := hn
      by_cases hlt : p < lo + size (sk x1)
      · have hna : nameAt c lo p = nameAt (sk x1) lo p := by
          unfold nameAt; rw [hnames]; exact nameAt_left (sk x1) (sk x2) lo p ⟨hp.1, hlt⟩
        rw [hna, rng_bin_left t x1 x2 hc1 _ (nameAt_mem (sk x1) lo p ⟨hp.1, hlt⟩)] at h
        obtain ⟨r1, r2, r3⟩ := ih1 hc1 hn1 lo ⟨hp.1, hlt⟩ h
        refine ⟨by rw [hself, r1]; rfl, fun h1 => by rw [hplus, r2 h1]; rfl, r3⟩
      · have hp2 : lo + size (sk x1) ≤ p ∧ p < lo + size (sk x1) + size (sk x2) := by omega
        have hna : nameAt c lo p = nameAt (sk x2) (lo + size (sk x1)) p := by
          unfold nameAt; rw [hnames]; exact nameAt_right (sk x1) (sk x2) lo p (by omega)
        have hmem := nameAt_mem (sk x2) (lo + size (sk x1)) p hp2
        have hnot : nameAt (sk x2) (lo + size (sk x1)) p ∉ names (sk x1) := fun hm => hdis _ hm _ hmem rfl
        rw [hna, rng_bin_right t x1 x2 hc1 _ hnot] at h
        obtain ⟨r1, r2, r3⟩ := ih2 hc2 hn2 (lo + size (sk x1)) hp2 h
        refine ⟨by rw [hself, r1]; simp, fun h1 => by rw [hplus, r2 h1]; simp, r3⟩
    cases t with
    | All => simp [Compact] at hc
    | Sequence =>
      simp only [Compact, Bool.and_eq_true] at hc
      exact main (sk (.bin .Sequence x1 x2)) rfl rfl (fun _ => rfl) (fun _ => rfl) hc.1 hc.2 hn hp h
    | Choice =>
      simp only [Compact, Bool.and_eq_true] at hc
      exact main (sk (.bin .Choice x1 x2)) rfl rfl (fun _ => rfl) (fun _ => rfl) hc.1 hc.2 hn hp h

end XV.Lemmas.ParticleCount
