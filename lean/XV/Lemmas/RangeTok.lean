import XV.Model.RangeTok
namespace XV.Lemmas.RangeTok
open XV.Model.RangeTok

/-- set semantics of a range list -/
def mem (c : Int) (rs : R) : Prop := ∃ p ∈ rs, p.1 ≤ c ∧ c ≤ p.2

theorem mem_nil (c : Int) : ¬ mem c [] := by simp [mem]

theorem mem_cons (c : Int) (a b : Int) (t : R) : mem c ((a, b) :: t) ↔ (a ≤ c ∧ c ≤ b) ∨ mem c t := by
  simp [mem]

theorem mem_append (c : Int) (x y : R) : mem c (x ++ y) ↔ mem c x ∨ mem c y := by
  simp [mem, or_and_right, exists_or]

/-- starts are non-decreasing -/
def SortedStarts : R → Prop
  | [] => True
  | [_] => True
  | p :: q :: t => p.1 ≤ q.1 ∧ SortedStarts (q :: t)

/-- every later start is ≥ a -/
def StartsGe (a : Int) (rs : R) : Prop := ∀ p ∈ rs, a ≤ p.1

theorem sortedStarts_cons {p : Int × Int} {t : R} (h : SortedStarts (p :: t)) : SortedStarts t ∧ StartsGe p.1 t := by
  induction t generalizing p with
  | nil => simp [SortedStarts, StartsGe]
  | cons q t ih =>
    obtain ⟨h1, h2⟩ := h
    obtain ⟨h3, h4⟩ := ih h2
    refine ⟨h2, ?_⟩
    intro r hr
    rcases List.mem_cons.1 hr with rfl | hr
    · exact h1
    · exact Int.le_trans h1 (h4 r hr)

theorem sortedStarts_of {p : Int × Int} {t : R} (h1 : SortedStarts t) (h2 : StartsGe p.1 t) : SortedStarts (p :: t) := by
  cases t with
  | nil => simp [SortedStarts]
  | cons q t => exact ⟨h2 q (by simp), h1⟩

/-! ### scanInsert / addRange -/

theorem scanInsert_mem (v1 v2 : Int) (hv : v1 ≤ v2) (c : Int) : ∀ rs : R,
    mem c (scanInsert v1 v2 rs) ↔ mem c rs ∨ (v1 ≤ c ∧ c ≤ v2) := by
  intro rs
  induction rs with
  | nil => simp [scanInsert, mem_cons, mem_nil]
  | cons p t ih =>
    obtain ⟨a, b⟩ := p
    unfold scanInsert
    split
    · rw [mem_cons]; constructor
      · intro h; exact Or.inl h
      · rintro (h | h)
        · exact h
        · left; omega
    · split
      · simp only [mem_cons]; constructor
        · rintro (h | h)
          · by_cases hc : c ≤ b
            · left; left; omega
            · right; omega
          · left; right; exact h
        · rintro ((h | h) | h)
          · left; omega
          · right; exact h
          · left; omega
      · split
        · simp only [mem_cons]; constructor
          · rintro (h | h | h)
            · right; exact h
            · left; left; exact h
            · left; right; exact h
          · rintro ((h | h) | h)
            · right; left; exact h
            · right; right; exact h
            · left; exact h
        · simp only [mem_cons, ih]; constructor
          · rintro (h | h | h)
            · left; left; exact h
            · left; right; exact h
            · right; exact h
          · rintro ((h | h) | h)
            · left; exact h
            · right; left; exact h
            · right; right; exact h

def Valid (rs : R) : Prop := ∀ p ∈ rs, p.1 ≤ p.2

theorem valid_cons {p : Int × Int} {t : R} : Valid (p :: t) ↔ p.1 ≤ p.2 ∧ Valid t := by
  simp [Valid]

theorem setLastEnd_mem (v2 c : Int) : ∀ rs : R, rs ≠ [] → Valid rs → lastEnd rs + 1 ≤ v2 →
    (mem c (setLastEnd v2 rs) ↔ mem c rs ∨ (lastEnd rs + 1 ≤ c ∧ c ≤ v2)) := by
  intro rs
  induction rs with
  | nil => intro h; exact absurd rfl h
  | cons p t ih =>
    intro _ hv hle
    obtain ⟨a, b⟩ := p
    cases t with
    | nil =>
      have hab : a ≤ b := by simpa using (valid_cons.1 hv).1
      simp only [setLastEnd, lastEnd, mem_cons, mem_nil, or_false] at hle ⊢
      constructor
      · intro h; by_cases hc : c ≤ b
        · left; omega
        · right; omega
      · rintro (h | h) <;> omega
    | cons q t' =>
      have hv' := (valid_cons.1 hv).2
      have : lastEnd ((a, b) :: q :: t') = lastEnd (q :: t') := by
        obtain ⟨q1, q2⟩ := q; cases t' <;> rfl
      rw [this] at hle ⊢
      have : setLastEnd v2 ((a, b) :: q :: t') = (a, b) :: setLastEnd v2 (q :: t') := by
        obtain ⟨q1, q2⟩ := q; cases t' <;> rfl
      rw [this, mem_cons, mem_cons, ih (by simp) hv' hle]
      constructor
      · rintro (h | h | h)
        · left; left; exact h
        · left; right; exact h
        · right; exact h
      · rintro ((h | h) | h)
        · left; exact h
        · right; left; exact h
        · right; right; exact h


theorem startsGe_cons {lo : Int} {p : Int × Int} {t : R} : StartsGe lo (p :: t) ↔ lo ≤ p.1 ∧ StartsGe lo t := by
  simp [StartsGe]

theorem scanInsert_startsGe (v1 v2 lo : Int) : ∀ rs : R, StartsGe lo rs → lo ≤ v1 →
    StartsGe lo (scanInsert v1 v2 rs) := by
  intro rs
  induction rs with
  | nil => intro _ h; simp [scanInsert, StartsGe]; exact h
  | cons p t ih =>
    intro h hlo
    obtain ⟨a, b⟩ := p
    obtain ⟨h1, h2⟩ := startsGe_cons.1 h
    unfold scanInsert
    split
    · exact h
    · split
      · exact startsGe_cons.2 ⟨h1, h2⟩
      · split
        · exact startsGe_cons.2 ⟨hlo, h⟩
        · exact startsGe_cons.2 ⟨h1, ih h2 hlo⟩

theorem scanInsert_sorted (v1 v2 : Int) : ∀ rs : R, SortedStarts rs → SortedStarts (scanInsert v1 v2 rs) := by
  intro rs
  induction rs with
  | nil => intro _; simp [scanInsert, SortedStarts]
  | cons p t ih =>
    intro h
    obtain ⟨a, b⟩ := p
    obtain ⟨hs, hg⟩ := sortedStarts_cons h
    unfold scanInsert
    split
    · exact h
    · split
      · exact sortedStarts_of hs hg
      · split
        · rename_i h1 h2 h3
          refine sortedStarts_of h ?_
          apply startsGe_cons.2
          constructor
          · show v1 ≤ a; omega
          · intro r hr; have := hg r hr; simp at this ⊢; omega
        · rename_i h1 h2 h3
          refine sortedStarts_of (ih hs) ?_
          apply scanInsert_startsGe _ _ _ _ hg
          show a ≤ v1; omega

theorem scanInsert_valid (v1 v2 : Int) (hv : v1 ≤ v2) : ∀ rs : R, Valid rs → Valid (scanInsert v1 v2 rs) := by
  intro rs
  induction rs with
  | nil => intro _; simp [scanInsert, Valid]; exact hv
  | cons p t ih =>
    intro h
    obtain ⟨a, b⟩ := p
    obtain ⟨h1, h2⟩ := valid_cons.1 h
    unfold scanInsert
    split
    · exact h
    · split
      · rename_i h3 h4
        exact valid_cons.2 ⟨by simp at h1 ⊢; omega, h2⟩
      · split
        · exact valid_cons.2 ⟨hv, h⟩
        · exact valid_cons.2 ⟨h1, ih h2⟩

/-! ### sorting -/

theorem insertSorted_mem (c : Int) (p : Int × Int) : ∀ t : R, mem c (insertSorted p t) ↔ mem c (p :: t) := by
  intro t
  induction t with
  | nil => simp [insertSorted]
  | cons q t ih =>
    unfold insertSorted
    split
    · exact Iff.rfl
    · obtain ⟨a, b⟩ := p; obtain ⟨a', b'⟩ := q
      simp only [mem_cons] at ih ⊢
      rw [ih]
      constructor
      · rintro (h | h | h)
        · right; left; exact h
        · left; exact h
        · right; right; exact h
      · rintro (h | h | h)
        · right; left; exact h
        · left; exact h
        · right; right; exact h

theorem sortRanges_mem (c : Int) : ∀ rs : R, mem c (sortRanges rs) ↔ mem c rs := by
  intro rs
  induction rs with
  | nil => simp [sortRanges]
  | cons p t ih =>
    obtain ⟨a, b⟩ := p
    simp only [sortRanges, insertSorted_mem, mem_cons, ih]

theorem insertSorted_startsGe (lo : Int) (p : Int × Int) : ∀ t : R, StartsGe lo t → lo ≤ p.1 →
    StartsGe lo (insertSorted p t) := by
  intro t
  induction t with
  | nil => intro _ h; simp [insertSorted, StartsGe]; exact h
  | cons q t ih =>
    intro h hp
    obtain ⟨h1, h2⟩ := startsGe_cons.1 h
    unfold insertSorted
    split
    · exact startsGe_cons.2 ⟨hp, h⟩
    · exact startsGe_cons.2 ⟨h1, ih h2 hp⟩

theorem insertSorted_sorted (p : Int × Int) : ∀ t : R, SortedStarts t → SortedStarts (insertSorted p t) := by
  intro t
  induction t with
  | nil => intro _; simp [insertSorted, SortedStarts]
  | cons q t ih =>
    intro h
    obtain ⟨hs, hg⟩ := sortedStarts_cons h
    unfold insertSorted
    split
    · rename_i hle
      refine sortedStarts_of h (startsGe_cons.2 ⟨?_, ?_⟩)
      · simp [lexLe] at hle; omega
      · intro r hr; have := hg r hr; simp [lexLe] at hle; omega
    · rename_i hle
      refine sortedStarts_of (ih hs) (insertSorted_startsGe _ _ _ hg ?_)
      simp [lexLe] at hle; omega

theorem sortRanges_sorted : ∀ rs : R, SortedStarts (sortRanges rs) := by
  intro rs
  induction rs with
  | nil => simp [sortRanges, SortedStarts]
  | cons p t ih => exact insertSorted_sorted p _ ih

theorem insertSorted_valid (p : Int × Int) (hp : p.1 ≤ p.2) : ∀ t : R, Valid t → Valid (insertSorted p t) := by
  intro t
  induction t with
  | nil => intro _; simp [insertSorted, Valid]; exact hp
  | cons q t ih =>
    intro h
    obtain ⟨h1, h2⟩ := valid_cons.1 h
    unfold insertSorted
    split
    · exact valid_cons.2 ⟨hp, h⟩
    · exact valid_cons.2 ⟨h1, ih h2⟩

theorem sortRanges_valid : ∀ rs : R, Valid rs → Valid (sortRanges rs) := by
  intro rs
  induction rs with
  | nil => intro h; exact h
  | cons p t ih =>
    intro h
    obtain ⟨h1, h2⟩ := valid_cons.1 h
    exact insertSorted_valid p h1 _ (ih h2)


/-! ### addRange -/

theorem setLastEnd_starts (v lo : Int) : ∀ rs : R, StartsGe lo rs → StartsGe lo (setLastEnd v rs) := by
  intro rs
  induction rs with
  | nil => intro h; exact h
  | cons p t ih =>
    intro h
    obtain ⟨a, b⟩ := p
    cases t with
    | nil => simpa [setLastEnd, StartsGe] using h
    | cons q t' =>
      have : setLastEnd v ((a, b) :: q :: t') = (a, b) :: setLastEnd v (q :: t') := by
        obtain ⟨q1, q2⟩ := q; cases t' <;> rfl
      rw [this]
      obtain ⟨h1, h2⟩ := startsGe_cons.1 h
      exact startsGe_cons.2 ⟨h1, ih h2⟩

theorem setLastEnd_sorted (v : Int) : ∀ rs : R, SortedStarts rs → SortedStarts (setLastEnd v rs) := by
  intro rs
  induction rs with
  | nil => intro h; exact h
  | cons p t ih =>
    intro h
    obtain ⟨a, b⟩ := p
    cases t with
    | nil => simp [setLastEnd, SortedStarts]
    | cons q t' =>
      have : setLastEnd v ((a, b) :: q :: t') = (a, b) :: setLastEnd v (q :: t') := by
        obtain ⟨q1, q2⟩ := q; cases t' <;> rfl
      rw [this]
      obtain ⟨hs, hg⟩ := sortedStarts_cons h
      exact sortedStarts_of (ih hs) (setLastEnd_starts v _ _ hg)

theorem setLastEnd_valid (v : Int) : ∀ rs : R, Valid rs → lastEnd rs ≤ v → Valid (setLastEnd v rs) := by
  intro rs
  induction rs with
  | nil => intro h _; exact h
  | cons p t ih =>
    intro h hle
    obtain ⟨a, b⟩ := p
    cases t with
    | nil =>
      have hab : a ≤ b := by simpa using (valid_cons.1 h).1
      simp only [lastEnd] at hle
      simp [setLastEnd, Valid]; omega
    | cons q t' =>
      have e1 : setLastEnd v ((a, b) :: q :: t') = (a, b) :: setLastEnd v (q :: t') := by
        obtain ⟨q1, q2⟩ := q; cases t' <;> rfl
      have e2 : lastEnd ((a, b) :: q :: t') = lastEnd (q :: t') := by
        obtain ⟨q1, q2⟩ := q; cases t' <;> rfl
      rw [e1]; rw [e2] at hle
      obtain ⟨h1, h2⟩ := valid_cons.1 h
      exact valid_cons.2 ⟨h1, ih h2 hle⟩

/-- in a start-sorted valid list every start is ≤ the last end -/
theorem starts_le_lastEnd : ∀ rs : R, SortedStarts rs → Valid rs → ∀ p ∈ rs, p.1 ≤ lastEnd rs := by
  intro rs
  induction rs with
  | nil => intro _ _ p hp; cases hp
  | cons q t ih =>
    intro hs hv p hp
    obtain ⟨a, b⟩ := q
    cases t with
    | nil =>
      have : p = (a, b) := by simpa using hp
      subst this
      have := (valid_cons.1 hv).1
      simpa [lastEnd] using this
    | cons q' t' =>
      have e2 : lastEnd ((a, b) :: q' :: t') = lastEnd (q' :: t') := by
        obtain ⟨q1, q2⟩ := q'; cases t' <;> rfl
      rw [e2]
      obtain ⟨hs', hg⟩ := sortedStarts_cons hs
      have hv' := (valid_cons.1 hv).2
      rcases List.mem_cons.1 hp with rfl | hp'
      · have h1 := hg q' (by simp)
        have h2 := ih hs' hv' q' (by simp)
        exact Int.le_trans h1 h2
      · exact ih hs' hv' p hp'

theorem append_sorted (v1 v2 : Int) : ∀ rs : R, SortedStarts rs → (∀ p ∈ rs, p.1 ≤ v1) →
    SortedStarts (rs ++ [(v1, v2)]) := by
  intro rs
  induction rs with
  | nil => intro _ _; simp [SortedStarts]
  | cons q t ih =>
    intro hs hle
    obtain ⟨hs', hg⟩ := sortedStarts_cons hs
    have := ih hs' (fun p hp => hle p (by simp [hp]))
    refine sortedStarts_of this ?_
    intro r hr
    rcases List.mem_append.1 hr with h | h
    · exact hg r h
    · have : r = (v1, v2) := by simpa using h
      subst this; exact hle q (by simp)

def Inv (t : Tok) : Prop := Valid t.ranges ∧ (t.sorted = true → SortedStarts t.ranges)

theorem addRange_mem (t : Tok) (hv : Valid t.ranges) (s e c : Int) :
    mem c (addRange t s e).ranges ↔ mem c t.ranges ∨ ((min s e) ≤ c ∧ c ≤ (max s e)) := by
  obtain ⟨v1, hv1⟩ : ∃ v1, v1 = (if s ≤ e then s else e) := ⟨_, rfl⟩
  obtain ⟨v2, hv2⟩ : ∃ v2, v2 = (if s ≤ e then e else s) := ⟨_, rfl⟩
  have hle : v1 ≤ v2 := by rw [hv1, hv2]; split <;> omega
  have hmin : min s e = v1 := by rw [hv1]; omega
  have hmax : max s e = v2 := by rw [hv2]; omega
  rw [hmin, hmax]
  unfold addRange
  simp only [← hv1, ← hv2]
  split
  · rename_i h; simp [h, mem_cons, mem_nil]
  · rename_i rs hne
    split
    · rename_i h1
      rw [setLastEnd_mem v2 c t.ranges (by intro h; exact hne h) hv (by omega)]
      rw [h1]
    · split
      · exact scanInsert_mem v1 v2 hle c _
      · split <;> (try split) <;> simp [sortRanges_mem, mem_append, mem_cons, mem_nil]


theorem valid_append {x y : R} : Valid (x ++ y) ↔ Valid x ∧ Valid y := by
  simp [Valid, or_imp, forall_and]

theorem addRange_inv (t : Tok) (hi : Inv t) (s e : Int) : Inv (addRange t s e) := by
  obtain ⟨hv, hs⟩ := hi
  obtain ⟨v1, hv1⟩ : ∃ v1, v1 = (if s ≤ e then s else e) := ⟨_, rfl⟩
  obtain ⟨v2, hv2⟩ : ∃ v2, v2 = (if s ≤ e then e else s) := ⟨_, rfl⟩
  have hle : v1 ≤ v2 := by rw [hv1, hv2]; split <;> omega
  unfold addRange
  simp only [← hv1, ← hv2]
  split
  · simp [Inv, Valid, SortedStarts]; exact hle
  · rename_i rs hne
    split
    · rename_i h1
      exact ⟨setLastEnd_valid v2 _ hv (by omega), fun h => setLastEnd_sorted v2 _ (hs h)⟩
    · split
      · rename_i h2 h3
        exact ⟨scanInsert_valid v1 v2 hle _ hv, fun _ => scanInsert_sorted v1 v2 _ (hs h3.1)⟩
      · rename_i h2 h3
        have hva : Valid (t.ranges ++ [(v1, v2)]) := valid_append.2 ⟨hv, by simp [Valid]; exact hle⟩
        by_cases hge : lastEnd t.ranges ≥ v1
        · simp only [hge, if_true]
          exact ⟨sortRanges_valid _ hva, fun _ => sortRanges_sorted _⟩
        · simp only [hge, if_false]
          by_cases hsd : t.sorted = true
          · simp only [hsd]
            refine ⟨hva, fun _ => append_sorted v1 v2 _ (hs hsd) ?_⟩
            intro p hp
            have := starts_le_lastEnd _ (hs hsd) hv p hp
            omega
          · have : t.sorted = false := by simpa using hsd
            simp only [this]
            exact ⟨sortRanges_valid _ hva, fun _ => sortRanges_sorted _⟩

/-! ### compactRanges -/

theorem absorb_mem (c : Int) : ∀ (t : R) (a b : Int), StartsGe a t → SortedStarts t → Valid t →
    (mem c (absorb a b t) ↔ (a ≤ c ∧ c ≤ b) ∨ mem c t) := by
  intro t
  induction t with
  | nil => intro a b _ _ _; simp [absorb, mem_cons, mem_nil]
  | cons p t ih =>
    intro a b hg hs hv
    obtain ⟨s, e⟩ := p
    obtain ⟨has, hgt⟩ := startsGe_cons.1 hg
    obtain ⟨hs', hgs⟩ := sortedStarts_cons hs
    obtain ⟨hse, hv'⟩ := valid_cons.1 hv
    simp only at has hse hgs
    unfold absorb
    split
    · rw [mem_cons, ih s e hgs hs' hv', mem_cons]
    · split
      · rename_i h1 h2
        rw [ih a e hgt hs' hv', mem_cons]
        constructor
        · rintro (h | h)
          · by_cases hc : c ≤ b
            · left; omega
            · right; left; omega
          · right; right; exact h
        · rintro (h | h | h)
          · left; omega
          · left; omega
          · right; exact h
      · rename_i h1 h2
        rw [ih a b hgt hs' hv', mem_cons]
        constructor
        · rintro (h | h)
          · left; exact h
          · right; right; exact h
        · rintro (h | h | h)
          · left; exact h
          · left; omega
          · right; exact h

theorem compact_mem (c : Int) (rs : R) (hs : SortedStarts rs) (hv : Valid rs) :
    mem c (compact rs) ↔ mem c rs := by
  cases rs with
  | nil => simp [compact]
  | cons p t =>
    obtain ⟨a, b⟩ := p
    obtain ⟨hs', hg⟩ := sortedStarts_cons hs
    simp only [compact]
    rw [absorb_mem c t a b hg hs' (valid_cons.1 hv).2, mem_cons]

/-- strictly separated: a gap of at least one code point between consecutive ranges -/
def Sep : R → Prop
  | [] => True
  | [_] => True
  | p :: q :: t => p.2 + 1 < q.1 ∧ Sep (q :: t)

theorem absorb_head : ∀ (t : R) (a b : Int), ∃ b' rest, absorb a b t = (a, b') :: rest := by
  intro t
  induction t with
  | nil => intro a b; exact ⟨b, [], rfl⟩
  | cons p t ih =>
    intro a b
    obtain ⟨s, e⟩ := p
    unfold absorb
    split
    · exact ⟨b, _, rfl⟩
    · split
      · exact ih a e
      · exact ih a b

theorem absorb_sep : ∀ (t : R) (a b : Int), Sep (absorb a b t) := by
  intro t
  induction t with
  | nil => intro a b; simp [absorb, Sep]
  | cons p t ih =>
    intro a b
    obtain ⟨s, e⟩ := p
    unfold absorb
    split
    · rename_i h
      obtain ⟨b', rest, hr⟩ := absorb_head t s e
      have := ih s e
      rw [hr] at this ⊢
      exact ⟨h, this⟩
    · split
      · exact ih a e
      · exact ih a b

theorem absorb_valid : ∀ (t : R) (a b : Int), a ≤ b → Valid t → Valid (absorb a b t) := by
  intro t
  induction t with
  | nil => intro a b h _; simp [absorb, Valid]; exact h
  | cons p t ih =>
    intro a b hab hv
    obtain ⟨s, e⟩ := p
    obtain ⟨hse, hv'⟩ := valid_cons.1 hv
    simp only at hse
    unfold absorb
    split
    · exact valid_cons.2 ⟨hab, ih s e hse hv'⟩
    · split
      · rename_i h1 h2; exact ih a e (by omega) hv'
      · exact ih a b hab hv'

theorem compact_sep (rs : R) : Sep (compact rs) := by
  cases rs with
  | nil => simp [compact, Sep]
  | cons p t => obtain ⟨a, b⟩ := p; exact absorb_sep t a b

theorem compact_valid (rs : R) (hv : Valid rs) : Valid (compact rs) := by
  cases rs with
  | nil => simpa [compact] using hv
  | cons p t =>
    obtain ⟨a, b⟩ := p
    obtain ⟨h1, h2⟩ := valid_cons.1 hv
    exact absorb_valid t a b h1 h2

/-- ordered: valid, pairwise disjoint, increasing -/
def Ordered : R → Prop
  | [] => True
  | [p] => p.1 ≤ p.2
  | p :: q :: t => p.1 ≤ p.2 ∧ p.2 < q.1 ∧ Ordered (q :: t)

theorem ordered_of_sep : ∀ rs : R, Sep rs → Valid rs → Ordered rs := by
  intro rs
  induction rs with
  | nil => intro _ _; trivial
  | cons p t ih =>
    intro hs hv
    obtain ⟨h1, h2⟩ := valid_cons.1 hv
    cases t with
    | nil => exact h1
    | cons q t' =>
      obtain ⟨h3, h4⟩ := hs
      exact ⟨h1, by omega, ih h4 h2⟩

theorem ordered_cons {p : Int × Int} {t : R} (h : Ordered (p :: t)) :
    p.1 ≤ p.2 ∧ Ordered t ∧ ∀ q ∈ t, p.2 < q.1 ∧ q.1 ≤ q.2 := by
  induction t generalizing p with
  | nil => exact ⟨h, trivial, by simp⟩
  | cons q t ih =>
    obtain ⟨h1, h2, h3⟩ := h
    obtain ⟨h4, h5, h6⟩ := ih h3
    refine ⟨h1, h3, ?_⟩
    intro r hr
    rcases List.mem_cons.1 hr with rfl | hr
    · exact ⟨h2, h4⟩
    · have := h6 r hr; exact ⟨by omega, this.2⟩

theorem ordered_of_cons {p : Int × Int} {t : R} (h1 : p.1 ≤ p.2) (h2 : Ordered t) (h3 : ∀ q ∈ t, p.2 < q.1) :
    Ordered (p :: t) := by
  cases t with
  | nil => exact h1
  | cons q t => exact ⟨h1, h3 q (by simp), h2⟩

/-- nothing in an ordered list whose ranges all start above `c` contains `c` -/
theorem not_mem_of_lt {c : Int} {t : R} (h : ∀ q ∈ t, c < q.1) : ¬ mem c t := by
  rintro ⟨p, hp, h1, _⟩
  have := h p hp; omega


theorem mem_gt_of_ordered {c : Int} {p : Int × Int} {t : R} (h : Ordered (p :: t)) (hm : mem c t) : p.2 < c := by
  obtain ⟨_, _, h3⟩ := ordered_cons h
  obtain ⟨q, hq, h1, _⟩ := hm
  have := h3 q hq; omega

theorem subLoop_mem (c : Int) : ∀ (fuel : Nat) (src tok : R), src.length + tok.length ≤ fuel →
    Ordered src → Ordered tok → (mem c (subLoop fuel src tok) ↔ mem c src ∧ ¬ mem c tok) := by
  intro fuel
  induction fuel with
  | zero =>
    intro src tok hl _ _
    have : src = [] := by cases src <;> simp at hl ⊢
    subst this
    simp [subLoop, mem_nil]
  | succ fuel ih =>
    intro src tok hl hos hot
    cases src with
    | nil => simp [subLoop, mem_nil]
    | cons ps st =>
      cases tok with
      | nil => simp [subLoop, mem_nil]
      | cons pt ut =>
        obtain ⟨sb, se⟩ := ps
        obtain ⟨ub, ue⟩ := pt
        obtain ⟨hs1, hs2, hs3⟩ := ordered_cons hos
        obtain ⟨ht1, ht2, ht3⟩ := ordered_cons hot
        have hst : mem c st → se < c := mem_gt_of_ordered hos
        have hut : mem c ut → ue < c := mem_gt_of_ordered hot
        simp only at hs1 ht1
        simp only [List.length_cons] at hl
        unfold subLoop
        split
        · rename_i h1
          rw [mem_cons, ih st _ (by simp; omega) hs2 hot]
          simp only [mem_cons]
          constructor
          · rintro (h | ⟨h, h'⟩)
            · exact ⟨Or.inl h, by rintro (h2 | h2); omega; have := hut h2; omega⟩
            · exact ⟨Or.inr h, h'⟩
          · rintro ⟨h | h, h'⟩
            · exact Or.inl h
            · exact Or.inr ⟨h, h'⟩
        · split
          · rename_i h1 h2
            split
            · rename_i h3
              rw [ih st _ (by simp; omega) hs2 hot]
              simp only [mem_cons]
              constructor
              · rintro ⟨h, h'⟩; exact ⟨Or.inr h, h'⟩
              · rintro ⟨h | h, h'⟩
                · exact absurd (Or.inl (by omega)) h'
                · exact ⟨h, h'⟩
            · split
              · rename_i h3 h4
                have ho : Ordered ((ue + 1, se) :: st) :=
                  ordered_of_cons (by simp; omega) hs2 (fun q hq => (hs3 q hq).1)
                rw [ih _ ut (by simp; omega) ho ht2]
                simp only [mem_cons]
                constructor
                · rintro ⟨h | h, h'⟩
                  · exact ⟨Or.inl (by omega), by rintro (h2 | h2); omega; exact h' h2⟩
                  · exact ⟨Or.inr h, by rintro (h2 | h2); have := hst h; omega; exact h' h2⟩
                · rintro ⟨h | h, h'⟩
                  · refine ⟨Or.inl ?_, fun h2 => h' (Or.inr h2)⟩
                    have : ¬ (ub ≤ c ∧ c ≤ ue) := fun h2 => h' (Or.inl h2)
                    omega
                  · exact ⟨Or.inr h, fun h2 => h' (Or.inr h2)⟩
              · split
                · rename_i h3 h4 h5
                  rw [mem_cons, ih st _ (by simp; omega) hs2 hot]
                  simp only [mem_cons]
                  constructor
                  · rintro (h | ⟨h, h'⟩)
                    · exact ⟨Or.inl (by omega), by rintro (h2 | h2); omega; have := hut h2; omega⟩
                    · exact ⟨Or.inr h, h'⟩
                  · rintro ⟨h | h, h'⟩
                    · left
                      have : ¬ (ub ≤ c ∧ c ≤ ue) := fun h2 => h' (Or.inl h2)
                      omega
                    · exact Or.inr ⟨h, h'⟩
                · rename_i h3 h4 h5
                  have ho : Ordered ((ue + 1, se) :: st) :=
                    ordered_of_cons (by simp; omega) hs2 (fun q hq => (hs3 q hq).1)
                  rw [mem_cons, ih _ ut (by simp; omega) ho ht2]
                  simp only [mem_cons]
                  constructor
                  · rintro (h | ⟨h | h, h'⟩)
                    · exact ⟨Or.inl (by omega), by rintro (h2 | h2); omega; have := hut h2; omega⟩
                    · exact ⟨Or.inl (by omega), by rintro (h2 | h2); omega; exact h' h2⟩
                    · exact ⟨Or.inr h, by rintro (h2 | h2); have := hst h; omega; exact h' h2⟩
                  · rintro ⟨h | h, h'⟩
                    · have : ¬ (ub ≤ c ∧ c ≤ ue) := fun h2 => h' (Or.inl h2)
                      by_cases hc : c < ub
                      · left; omega
                      · right; exact ⟨Or.inl (by omega), fun h2 => h' (Or.inr h2)⟩
                    · right; exact ⟨Or.inr h, fun h2 => h' (Or.inr h2)⟩
          · rename_i h1 h2
            rw [ih _ ut (by simp; omega) hos ht2]
            simp only [mem_cons]
            constructor
            · rintro ⟨h, h'⟩
              refine ⟨h, ?_⟩
              rintro (h2 | h2)
              · rcases h with h | h
                · omega
                · have := hst h; omega
              · exact h' h2
            · rintro ⟨h, h'⟩; exact ⟨h, fun h2 => h' (Or.inr h2)⟩

theorem intLoop_nil_right (fuel : Nat) (src : R) : intLoop fuel src [] = [] := by
  cases fuel with
  | zero => simp [intLoop]
  | succ f => cases src <;> simp [intLoop]

theorem intLoop_mem (c : Int) : ∀ (fuel : Nat) (src tok : R), src.length + tok.length ≤ fuel →
    Ordered src → Ordered tok → (mem c (intLoop fuel src tok) ↔ mem c src ∧ mem c tok) := by
  intro fuel
  induction fuel with
  | zero =>
    intro src tok hl _ _
    have : src = [] := by cases src <;> simp at hl ⊢
    subst this
    simp [intLoop, mem_nil]
  | succ fuel ih =>
    intro src tok hl hos hot
    cases src with
    | nil => simp [intLoop, mem_nil]
    | cons ps st =>
      cases tok with
      | nil => simp [intLoop, mem_nil]
      | cons pt tt =>
        obtain ⟨sb, se⟩ := ps
        obtain ⟨tb, te⟩ := pt
        obtain ⟨hs1, hs2, hs3⟩ := ordered_cons hos
        obtain ⟨ht1, ht2, ht3⟩ := ordered_cons hot
        have hst : mem c st → se < c := mem_gt_of_ordered hos
        have htt : mem c tt → te < c := mem_gt_of_ordered hot
        simp only at hs1 ht1
        simp only [List.length_cons] at hl
        have ho : te < se → Ordered ((te + 1, se) :: st) := fun h =>
          ordered_of_cons (by simp; omega) hs2 (fun q hq => (hs3 q hq).1)
        unfold intLoop
        split
        · rename_i h1
          rw [ih st _ (by simp; omega) hs2 hot]
          simp only [mem_cons]
          constructor
          · rintro ⟨h, h'⟩; exact ⟨Or.inr h, h'⟩
          · rintro ⟨h | h, h'⟩
            · rcases h' with h' | h'
              · omega
              · have := htt h'; omega
            · exact ⟨h, h'⟩
        · split
          · rename_i h1 h2
            split
            · rename_i h3
              rw [mem_cons, ih st _ (by simp; omega) hs2 hot]
              simp only [mem_cons]
              constructor
              · rintro (h | ⟨h, h'⟩)
                · exact ⟨Or.inl h, Or.inl (by omega)⟩
                · exact ⟨Or.inr h, h'⟩
              · rintro ⟨h | h, h'⟩
                · exact Or.inl h
                · exact Or.inr ⟨h, h'⟩
            · split
              · rename_i h3 h4
                by_cases hne : tt = []
                · subst hne
                  simp only [ne_eq, not_true_eq_false, if_false, intLoop_nil_right, mem_cons, mem_nil, or_false]
                  constructor
                  · rintro h; exact ⟨Or.inl (by omega), by omega⟩
                  · rintro ⟨h | h, h'⟩
                    · omega
                    · have := hst h; omega
                · simp only [ne_eq, hne, not_false_eq_true, if_true]
                  rw [mem_cons, ih _ tt (by simp; omega) (ho (by omega)) ht2]
                  simp only [mem_cons]
                  constructor
                  · rintro (h | ⟨h | h, h'⟩)
                    · exact ⟨Or.inl (by omega), Or.inl (by omega)⟩
                    · exact ⟨Or.inl (by omega), Or.inr h'⟩
                    · exact ⟨Or.inr h, Or.inr h'⟩
                  · rintro ⟨h | h, h' | h'⟩
                    · left; omega
                    · right; have := htt h'; exact ⟨Or.inl (by omega), h'⟩
                    · have := hst h; omega
                    · right; exact ⟨Or.inr h, h'⟩
              · split
                · rename_i h3 h4 h5
                  rw [mem_cons, ih st _ (by simp; omega) hs2 hot]
                  simp only [mem_cons]
                  constructor
                  · rintro (h | ⟨h, h'⟩)
                    · exact ⟨Or.inl (by omega), Or.inl (by omega)⟩
                    · exact ⟨Or.inr h, h'⟩
                  · rintro ⟨h | h, h' | h'⟩
                    · left; omega
                    · have := htt h'; omega
                    · right; exact ⟨h, Or.inl h'⟩
                    · right; exact ⟨h, Or.inr h'⟩
                · rename_i h3 h4 h5
                  by_cases hne : tt = []
                  · subst hne
                    simp only [ne_eq, not_true_eq_false, if_false, intLoop_nil_right, mem_cons, mem_nil, or_false]
                    constructor
                    · rintro h; exact ⟨Or.inl (by omega), by omega⟩
                    · rintro ⟨h | h, h'⟩
                      · omega
                      · have := hst h; omega
                  · simp only [ne_eq, hne, not_false_eq_true, if_true]
                    rw [mem_cons, ih _ tt (by simp; omega) (ho (by omega)) ht2]
                    simp only [mem_cons]
                    constructor
                    · rintro (h | ⟨h | h, h'⟩)
                      · exact ⟨Or.inl (by omega), Or.inl (by omega)⟩
                      · exact ⟨Or.inl (by omega), Or.inr h'⟩
                      · exact ⟨Or.inr h, Or.inr h'⟩
                    · rintro ⟨h | h, h' | h'⟩
                      · left; omega
                      · right; have := htt h'; exact ⟨Or.inl (by omega), h'⟩
                      · have := hst h; omega
                      · right; exact ⟨Or.inr h, h'⟩
          · rename_i h1 h2
            by_cases hne : tt = []
            · subst hne
              simp only [ne_eq, not_true_eq_false, if_false, intLoop_nil_right, mem_cons, mem_nil, or_false]
              constructor
              · intro h; exact absurd h (by simp)
              · rintro ⟨h | h, h'⟩
                · omega
                · have := hst h; omega
            · simp only [ne_eq, hne, not_false_eq_true, if_true]
              rw [ih _ tt (by simp; omega) hos ht2]
              simp only [mem_cons]
              constructor
              · rintro ⟨h, h'⟩; exact ⟨h, Or.inr h'⟩
              · rintro ⟨h, h' | h'⟩
                · rcases h with h | h
                  · omega
                  · have := hst h; omega
                · exact ⟨h, h'⟩



def StartsGt (lo : Int) (rs : R) : Prop := ∀ q ∈ rs, lo < q.1

theorem startsGt_cons {lo : Int} {p : Int × Int} {t : R} : StartsGt lo (p :: t) ↔ lo < p.1 ∧ StartsGt lo t := by
  simp [StartsGt]

theorem ordered_startsGt {p : Int × Int} {t : R} (h : Ordered (p :: t)) : StartsGt p.2 t :=
  fun q hq => ((ordered_cons h).2.2 q hq).1

theorem startsGt_mono {a b : Int} {t : R} (h : StartsGt b t) (hab : a ≤ b) : StartsGt a t :=
  fun q hq => by have := h q hq; omega

theorem subLoop_ordered : ∀ (fuel : Nat) (src tok : R), src.length + tok.length ≤ fuel →
    Ordered src → Ordered tok →
    Ordered (subLoop fuel src tok) ∧ ∀ lo, StartsGt lo src → StartsGt lo (subLoop fuel src tok) := by
  intro fuel
  induction fuel with
  | zero => intro src tok _ h _; simp only [subLoop]; exact ⟨h, fun _ h => h⟩
  | succ fuel ih =>
    intro src tok hl hos hot
    cases src with
    | nil => simp [subLoop, Ordered, StartsGt]
    | cons ps st =>
      cases tok with
      | nil => simp only [subLoop]; exact ⟨hos, fun _ h => h⟩
      | cons pt ut =>
        obtain ⟨sb, se⟩ := ps
        obtain ⟨ub, ue⟩ := pt
        obtain ⟨hs1, hs2, hs3⟩ := ordered_cons hos
        obtain ⟨ht1, ht2, ht3⟩ := ordered_cons hot
        have hgs : StartsGt se st := ordered_startsGt hos
        simp only at hs1 ht1
        simp only [List.length_cons] at hl
        have ho : ue < se → Ordered ((ue + 1, se) :: st) := fun h =>
          ordered_of_cons (by simp; omega) hs2 (fun q hq => (hs3 q hq).1)
        unfold subLoop
        split
        · obtain ⟨i1, i2⟩ := ih st ((ub, ue) :: ut) (by simp; omega) hs2 hot
          refine ⟨ordered_of_cons hs1 i1 (i2 se hgs), ?_⟩
          intro lo hlo
          obtain ⟨h1, h2⟩ := startsGt_cons.1 hlo
          exact startsGt_cons.2 ⟨h1, i2 lo h2⟩
        · split
          · rename_i h1 h2
            split
            · obtain ⟨i1, i2⟩ := ih st ((ub, ue) :: ut) (by simp; omega) hs2 hot
              exact ⟨i1, fun lo hlo => i2 lo (startsGt_cons.1 hlo).2⟩
            · split
              · rename_i h3 h4
                obtain ⟨i1, i2⟩ := ih ((ue + 1, se) :: st) ut (by simp; omega) (ho (by omega)) ht2
                refine ⟨i1, fun lo hlo => i2 lo ?_⟩
                obtain ⟨h5, h6⟩ := startsGt_cons.1 hlo
                exact startsGt_cons.2 ⟨by simp at h5 ⊢; omega, h6⟩
              · split
                · rename_i h3 h4 h5
                  obtain ⟨i1, i2⟩ := ih st ((ub, ue) :: ut) (by simp; omega) hs2 hot
                  refine ⟨ordered_of_cons (by simp; omega) i1 (i2 _ (startsGt_mono hgs (by omega))), ?_⟩
                  intro lo hlo
                  obtain ⟨h6, h7⟩ := startsGt_cons.1 hlo
                  exact startsGt_cons.2 ⟨h6, i2 lo h7⟩
                · rename_i h3 h4 h5
                  obtain ⟨i1, i2⟩ := ih ((ue + 1, se) :: st) ut (by simp; omega) (ho (by omega)) ht2
                  have hg2 : StartsGt (ub - 1) ((ue + 1, se) :: st) :=
                    startsGt_cons.2 ⟨by simp; omega, startsGt_mono hgs (by omega)⟩
                  refine ⟨ordered_of_cons (by simp; omega) i1 (i2 _ hg2), ?_⟩
                  intro lo hlo
                  obtain ⟨h6, h7⟩ := startsGt_cons.1 hlo
                  refine startsGt_cons.2 ⟨h6, i2 lo (startsGt_cons.2 ⟨?_, h7⟩)⟩
                  simp at h6 ⊢; omega
          · obtain ⟨i1, i2⟩ := ih ((sb, se) :: st) ut (by simp; omega) hos ht2
            exact ⟨i1, i2⟩

theorem intLoop_ordered : ∀ (fuel : Nat) (src tok : R), src.length + tok.length ≤ fuel →
    Ordered src → Ordered tok →
    Ordered (intLoop fuel src tok) ∧ ∀ lo, StartsGt lo src → StartsGt lo (intLoop fuel src tok) := by
  intro fuel
  induction fuel with
  | zero => intro src tok _ _ _; simp [intLoop, Ordered, StartsGt]
  | succ fuel ih =>
    intro src tok hl hos hot
    cases src with
    | nil => simp [intLoop, Ordered, StartsGt]
    | cons ps st =>
      cases tok with
      | nil => simp [intLoop, Ordered, StartsGt]
      | cons pt tt =>
        obtain ⟨sb, se⟩ := ps
        obtain ⟨tb, te⟩ := pt
        obtain ⟨hs1, hs2, hs3⟩ := ordered_cons hos
        obtain ⟨ht1, ht2, ht3⟩ := ordered_cons hot
        have hgs : StartsGt se st := ordered_startsGt hos
        simp only at hs1 ht1
        simp only [List.length_cons] at hl
        have ho : te < se → Ordered ((te + 1, se) :: st) := fun h =>
          ordered_of_cons (by simp; omega) hs2 (fun q hq => (hs3 q hq).1)
        -- the tail after emitting a piece that ends at `te` (tok head consumed)
        have tail : te < se → ∀ x : Int, x ≤ te → sb ≤ x →
            Ordered ((x, te) :: (if tt ≠ [] then intLoop fuel ((te + 1, se) :: st) tt else intLoop fuel st tt)) ∧
            ∀ lo, StartsGt lo ((sb, se) :: st) →
              StartsGt lo ((x, te) :: (if tt ≠ [] then intLoop fuel ((te + 1, se) :: st) tt else intLoop fuel st tt)) := by
          intro hlt x hx hsx
          by_cases hne : tt = []
          · subst hne
            simp only [ne_eq, not_true_eq_false, if_false, intLoop_nil_right]
            refine ⟨hx, fun lo hlo => startsGt_cons.2 ⟨?_, by simp [StartsGt]⟩⟩
            have := (startsGt_cons.1 hlo).1; simp at this ⊢; omega
          · simp only [ne_eq, hne, not_false_eq_true, if_true]
            obtain ⟨i1, i2⟩ := ih ((te + 1, se) :: st) tt (by simp; omega) (ho hlt) ht2
            have hg2 : StartsGt te ((te + 1, se) :: st) :=
              startsGt_cons.2 ⟨by simp; omega, startsGt_mono hgs (by omega)⟩
            refine ⟨ordered_of_cons hx i1 (i2 te hg2), fun lo hlo => ?_⟩
            obtain ⟨h6, h7⟩ := startsGt_cons.1 hlo
            simp at h6
            exact startsGt_cons.2 ⟨by simp; omega, i2 lo (startsGt_cons.2 ⟨by simp; omega, h7⟩)⟩
        unfold intLoop
        split
        · obtain ⟨i1, i2⟩ := ih st ((tb, te) :: tt) (by simp; omega) hs2 hot
          exact ⟨i1, fun lo h1 => i2 lo (startsGt_cons.1 h1).2⟩
        · split
          · rename_i h1 h2
            split
            · rename_i h3
              obtain ⟨i1, i2⟩ := ih st ((tb, te) :: tt) (by simp; omega) hs2 hot
              refine ⟨ordered_of_cons hs1 i1 (i2 se hgs), fun lo hlo => ?_⟩
              obtain ⟨h6, h7⟩ := startsGt_cons.1 hlo
              exact startsGt_cons.2 ⟨h6, i2 lo h7⟩
            · split
              · rename_i h3 h4
                exact tail (by omega) sb (by omega) (by omega)
              · split
                · rename_i h3 h4 h5
                  obtain ⟨i1, i2⟩ := ih st ((tb, te) :: tt) (by simp; omega) hs2 hot
                  refine ⟨ordered_of_cons (by simp; omega) i1 (i2 se hgs), fun lo hlo => ?_⟩
                  obtain ⟨h6, h7⟩ := startsGt_cons.1 hlo
                  simp at h6
                  exact startsGt_cons.2 ⟨by simp; omega, i2 lo h7⟩
                · rename_i h3 h4 h5
                  exact tail (by omega) tb ht1 (by omega)
          · rename_i h1 h2
            by_cases hne : tt = []
            · subst hne
              simp only [ne_eq, not_true_eq_false, if_false, intLoop_nil_right]
              simp [Ordered, StartsGt]
            · simp only [ne_eq, hne, not_false_eq_true, if_true]
              exact ih ((sb, se) :: st) tt (by simp; omega) hos ht2


theorem mergeL_mem (c : Int) : ∀ xs ys : R, mem c (mergeL xs ys) ↔ mem c xs ∨ mem c ys := by
  intro xs ys
  fun_induction mergeL xs ys with
  | case1 ys => simp [mem_nil]
  | case2 xs h => simp [mem_nil]
  | case3 x xs y ys h ih =>
    obtain ⟨a, b⟩ := x; obtain ⟨a', b'⟩ := y
    simp only [mem_cons] at ih ⊢
    rw [ih]
    constructor
    · rintro (h | (h | h) | h)
      · right; left; exact h
      · left; left; exact h
      · left; right; exact h
      · right; right; exact h
    · rintro ((h | h) | h | h)
      · right; left; left; exact h
      · right; left; right; exact h
      · left; exact h
      · right; right; exact h
  | case4 x xs y ys h ih =>
    obtain ⟨a, b⟩ := x; obtain ⟨a', b'⟩ := y
    simp only [mem_cons] at ih ⊢
    rw [ih]
    constructor
    · rintro (h | h | h | h)
      · left; left; exact h
      · left; right; exact h
      · right; left; exact h
      · right; right; exact h
    · rintro ((h | h) | h | h)
      · left; exact h
      · right; left; exact h
      · right; right; left; exact h
      · right; right; right; exact h

theorem mergeL_valid : ∀ xs ys : R, Valid xs → Valid ys → Valid (mergeL xs ys) := by
  intro xs ys
  fun_induction mergeL xs ys with
  | case1 ys => intro _ h; exact h
  | case2 xs h => intro h _; exact h
  | case3 x xs y ys h ih =>
    intro hx hy
    obtain ⟨h1, h2⟩ := valid_cons.1 hy
    exact valid_cons.2 ⟨h1, ih hx h2⟩
  | case4 x xs y ys h ih =>
    intro hx hy
    obtain ⟨h1, h2⟩ := valid_cons.1 hx
    exact valid_cons.2 ⟨h1, ih h2 hy⟩

theorem mergeL_startsGe (lo : Int) : ∀ xs ys : R, StartsGe lo xs → StartsGe lo ys → StartsGe lo (mergeL xs ys) := by
  intro xs ys
  fun_induction mergeL xs ys with
  | case1 ys => intro _ h; exact h
  | case2 xs h => intro h _; exact h
  | case3 x xs y ys h ih =>
    intro hx hy
    obtain ⟨h1, h2⟩ := startsGe_cons.1 hy
    exact startsGe_cons.2 ⟨h1, ih hx h2⟩
  | case4 x xs y ys h ih =>
    intro hx hy
    obtain ⟨h1, h2⟩ := startsGe_cons.1 hx
    exact startsGe_cons.2 ⟨h1, ih h2 hy⟩

theorem mergeL_sorted : ∀ xs ys : R, SortedStarts xs → SortedStarts ys → SortedStarts (mergeL xs ys) := by
  intro xs ys
  fun_induction mergeL xs ys with
  | case1 ys => intro _ h; exact h
  | case2 xs h => intro h _; exact h
  | case3 x xs y ys h ih =>
    intro hx hy
    obtain ⟨hs, hg⟩ := sortedStarts_cons hy
    obtain ⟨hsx, hgx⟩ := sortedStarts_cons hx
    refine sortedStarts_of (ih hx hs) (mergeL_startsGe _ _ _ ?_ hg)
    have : y.1 ≤ x.1 := by simp at h; omega
    exact startsGe_cons.2 ⟨this, fun r hr => Int.le_trans this (hgx r hr)⟩
  | case4 x xs y ys h ih =>
    intro hx hy
    obtain ⟨hs, hg⟩ := sortedStarts_cons hx
    obtain ⟨hsy, hgy⟩ := sortedStarts_cons hy
    refine sortedStarts_of (ih hs hy) (mergeL_startsGe _ _ _ hg ?_)
    have : x.1 ≤ y.1 := by simp at h; omega
    exact startsGe_cons.2 ⟨this, fun r hr => Int.le_trans this (hgy r hr)⟩


/-! ### match -/

theorem scan_iff (ch : Int) : ∀ rs : R, scan ch rs = true ↔ mem ch rs := by
  intro rs
  induction rs with
  | nil => simp [scan, mem_nil]
  | cons p t ih => obtain ⟨b, e⟩ := p; simp [scan, mem_cons, ih]

theorem mapCovers_iff (k : Int) (hk : k < MAPSIZE) : ∀ rs : R, SortedStarts rs →
    (mapCovers k rs = true ↔ mem k rs) := by
  intro rs
  induction rs with
  | nil => intro _; simp [mapCovers, mem_nil]
  | cons p t ih =>
    intro hs
    obtain ⟨b, e⟩ := p
    obtain ⟨hs', hg⟩ := sortedStarts_cons hs
    simp only at hg
    have hlater : mem k t → b ≤ k := by
      rintro ⟨q, hq, h1, _⟩; have := hg q hq; omega
    unfold mapCovers
    rw [mem_cons]
    by_cases hb : b < MAPSIZE
    · simp only [hb, if_true]
      by_cases he : e ≥ MAPSIZE
      · simp only [he, if_true, Bool.or_false]
        simp only [Bool.and_eq_true, decide_eq_true_eq]
        constructor
        · rintro ⟨⟨h1, h2⟩, _⟩; exact Or.inl ⟨h1, h2⟩
        · rintro (h | h)
          · exact ⟨h, hk⟩
          · have := hlater h; exact ⟨⟨this, by omega⟩, hk⟩
      · simp only [he, if_false, Bool.or_eq_true, Bool.and_eq_true, decide_eq_true_eq, ih hs']
        constructor
        · rintro (⟨h, _⟩ | h)
          · exact Or.inl h
          · exact Or.inr h
        · rintro (h | h)
          · exact Or.inl ⟨h, hk⟩
          · exact Or.inr h
    · simp only [hb, if_false]
      constructor
      · intro h; cases h
      · rintro (h | h)
        · omega
        · have := hlater h; omega

theorem nonMap_mem (ch : Int) (hc : MAPSIZE ≤ ch) : ∀ rs : R, mem ch (nonMap rs) ↔ mem ch rs := by
  intro rs
  induction rs with
  | nil => simp [nonMap]
  | cons p t ih =>
    obtain ⟨b, e⟩ := p
    unfold nonMap
    by_cases hb : b < MAPSIZE
    · simp only [hb, if_true]
      by_cases he : e ≥ MAPSIZE
      · simp only [he, if_true]
      · simp only [he, if_false, ih, mem_cons]
        constructor
        · intro h; exact Or.inr h
        · rintro (h | h)
          · omega
          · exact h
    · simp only [hb, if_false]

theorem matchCh_iff (rs : R) (hs : SortedStarts rs) (ch : Int) :
    matchCh false rs ch = true ↔ mem ch rs := by
  unfold matchCh
  simp only [Bool.false_eq_true, if_false]
  by_cases h : ch < MAPSIZE
  · simp only [h, if_true]; exact mapCovers_iff ch h rs hs
  · simp only [h, if_false]; rw [scan_iff, nonMap_mem ch (by omega)]

theorem matchCh_neg_iff (rs : R) (hs : SortedStarts rs) (ch : Int) :
    matchCh true rs ch = true ↔ ¬ mem ch rs := by
  have := matchCh_iff rs hs ch
  unfold matchCh at this ⊢
  simp only [Bool.false_eq_true, if_false, if_true] at this ⊢
  rw [← this]; simp

/-! ### complementRanges -/

def inGap (c : Int) : R → Prop
  | (_, b) :: (a', b') :: t => (b < c ∧ c < a') ∨ inGap c ((a', b') :: t)
  | _ => False

theorem addGaps_spec (c : Int) : ∀ (rs : R) (acc : Tok), Inv acc → Sep rs →
    Inv (addGaps acc rs) ∧ (mem c (addGaps acc rs).ranges ↔ mem c acc.ranges ∨ inGap c rs) := by
  intro rs
  induction rs with
  | nil => intro acc hi _; simp [addGaps, inGap]; exact hi
  | cons p t ih =>
    intro acc hi hsep
    obtain ⟨a, b⟩ := p
    cases t with
    | nil => simp [addGaps, inGap]; exact hi
    | cons q t' =>
      obtain ⟨a', b'⟩ := q
      obtain ⟨h1, h2⟩ := hsep
      simp only at h1
      simp only [addGaps, inGap]
      obtain ⟨i1, i2⟩ := ih (addRange acc (b + 1) (a' - 1)) (addRange_inv acc hi _ _) h2
      refine ⟨i1, ?_⟩
      rw [i2, addRange_mem acc hi.1]
      have e1 : min (b + 1) (a' - 1) = b + 1 := by omega
      have e2 : max (b + 1) (a' - 1) = a' - 1 := by omega
      rw [e1, e2]
      constructor
      · rintro ((h | h) | h)
        · left; exact h
        · right; left; omega
        · right; right; exact h
      · rintro (h | h | h)
        · left; left; exact h
        · left; right; omega
        · right; exact h

theorem ordered_sorted : ∀ rs : R, Ordered rs → SortedStarts rs := by
  intro rs
  induction rs with
  | nil => intro _; trivial
  | cons p t ih =>
    intro h
    cases t with
    | nil => trivial
    | cons q t' =>
      obtain ⟨h1, h2, h3⟩ := h
      exact ⟨by omega, ih h3⟩

theorem ordered_valid : ∀ rs : R, Ordered rs → Valid rs := by
  intro rs
  induction rs with
  | nil => intro _ p hp; cases hp
  | cons p t ih =>
    intro h
    obtain ⟨h1, h2, _⟩ := ordered_cons h
    exact valid_cons.2 ⟨h1, ih h2⟩

theorem inGap_gt (c : Int) : ∀ (t : R) (a b : Int), Ordered ((a, b) :: t) → inGap c ((a, b) :: t) → b < c := by
  intro t
  induction t with
  | nil => intro a b _ h; cases h
  | cons q t ih =>
    intro a b h hg
    obtain ⟨a', b'⟩ := q
    obtain ⟨h1, h2, h3⟩ := h
    simp only at h1 h2
    rcases hg with hg | hg
    · exact hg.1
    · have := ih a' b' h3 hg
      have := (ordered_cons h3).1
      simp only at this
      omega

theorem not_mem_ordered (c : Int) : ∀ (t : R) (a b : Int), Ordered ((a, b) :: t) →
    (¬ mem c ((a, b) :: t) ↔ c < a ∨ inGap c ((a, b) :: t) ∨ lastEnd ((a, b) :: t) < c) := by
  intro t
  induction t with
  | nil =>
    intro a b h
    simp only [mem_cons, mem_nil, or_false, inGap, lastEnd, false_or]
    have : a ≤ b := h
    omega
  | cons q t ih =>
    intro a b h
    obtain ⟨a', b'⟩ := q
    obtain ⟨h1, h2, h3⟩ := h
    simp only at h1 h2
    have e2 : lastEnd ((a, b) :: (a', b') :: t) = lastEnd ((a', b') :: t) := by cases t <;> rfl
    rw [e2, mem_cons]
    have := ih a' b' h3
    simp only [inGap]
    have hle : a' ≤ lastEnd ((a', b') :: t) :=
      starts_le_lastEnd _ (ordered_sorted _ h3) (ordered_valid _ h3) (a', b') (by simp)
    constructor
    · intro hn
      have hn1 : ¬ (a ≤ c ∧ c ≤ b) := fun h => hn (Or.inl h)
      have hn2 : ¬ mem c ((a', b') :: t) := fun h => hn (Or.inr h)
      rcases this.1 hn2 with h | h | h
      · by_cases hc : c < a
        · left; exact hc
        · right; left; left; omega
      · right; left; right; exact h
      · right; right; exact h
    · rintro (h | (h | h) | h)
      · rintro (h' | h')
        · omega
        · exact (this.2 (Or.inl (by omega))) h'
      · rintro (h' | h')
        · omega
        · exact (this.2 (Or.inl h.2)) h'
      · rintro (h' | h')
        · have := inGap_gt c t a' b' h3 h; have := (ordered_cons h3).1; simp only at this; omega
        · exact (this.2 (Or.inr (Or.inl h))) h'
      · rintro (h' | h')
        · omega
        · exact (this.2 (Or.inr (Or.inr h))) h'


/-- token invariant: data valid, `fSorted` truthful, `fCompacted` truthful (as far as later operations rely on it) -/
def Strong (t : Tok) : Prop :=
  Inv t ∧ (t.compacted = true → (t.sorted = true ∨ t.ranges = []) ∧ Ordered t.ranges)

theorem insertSorted_ne_nil (q : Int × Int) (l : R) : insertSorted q l ≠ [] := by
  cases l with
  | nil => simp [insertSorted]
  | cons p t => simp only [insertSorted]; split <;> simp

theorem doSort_spec (t : Tok) (hi : Inv t) :
    Inv (doSort t) ∧ SortedStarts (doSort t).ranges ∧ (doSort t).compacted = t.compacted ∧
    (∀ c, mem c (doSort t).ranges ↔ mem c t.ranges) ∧ ((doSort t).ranges = [] ↔ t.ranges = []) ∧
    ((doSort t).sorted = true ∨ (doSort t).ranges = []) := by
  unfold doSort
  split
  · rename_i h
    refine ⟨hi, ?_, rfl, fun _ => Iff.rfl, Iff.rfl, h⟩
    rcases h with h | h
    · exact hi.2 h
    · rw [h]; trivial
  · refine ⟨⟨sortRanges_valid _ hi.1, fun _ => sortRanges_sorted _⟩, sortRanges_sorted _, rfl,
      fun c => sortRanges_mem c _, ?_, Or.inl rfl⟩
    cases h : t.ranges with
    | nil => simp [sortRanges]
    | cons p r =>
      simp only [sortRanges]
      constructor
      · intro h2; exact absurd h2 (insertSorted_ne_nil _ _)
      · intro h2; cases h2

theorem doSort_strong (t : Tok) (hs : Strong t) : (doSort t).compacted = true → Ordered (doSort t).ranges := by
  intro h
  have hc : t.compacted = true := by rw [← (doSort_spec t hs.1).2.2.1]; exact h
  obtain ⟨h1, h2⟩ := hs.2 hc
  have : doSort t = t := by unfold doSort; simp [h1]
  rw [this]; exact h2

theorem ordered_short : ∀ rs : R, rs.length ≤ 1 → Valid rs → Ordered rs := by
  intro rs h hv
  match rs, h with
  | [], _ => trivial
  | [p], _ => exact (valid_cons.1 hv).1
  | _ :: _ :: _, h => simp at h

theorem doCompact_spec (t : Tok) (hv : Valid t.ranges) (hs : SortedStarts t.ranges)
    (hc : t.compacted = true → Ordered t.ranges) :
    Ordered (doCompact t).ranges ∧ (doCompact t).sorted = t.sorted ∧
    (∀ c, mem c (doCompact t).ranges ↔ mem c t.ranges) ∧
    ((doCompact t).compacted = false → (doCompact t).ranges = t.ranges) ∧
    ((doCompact t).ranges = [] ↔ t.ranges = []) := by
  unfold doCompact
  split
  · rename_i h
    refine ⟨?_, rfl, fun _ => Iff.rfl, fun _ => rfl, Iff.rfl⟩
    rcases h with h | h
    · exact hc h
    · exact ordered_short _ h hv
  · refine ⟨ordered_of_sep _ (compact_sep _) (compact_valid _ hv), rfl, fun c => compact_mem c _ hs hv,
      ?_, ?_⟩
    · intro h; simp at h
    · cases hr : t.ranges with
      | nil => simp [compact]
      | cons p r =>
        obtain ⟨a, b⟩ := p
        simp only [compact]
        obtain ⟨b', rest, he⟩ := absorb_head r a b
        rw [he]; simp

theorem doCompact_sep (t : Tok) (hv : Valid t.ranges) (hsep : t.compacted = true → Sep t.ranges) :
    Sep (doCompact t).ranges := by
  unfold doCompact
  split
  · rename_i h
    rcases h with h | h
    · exact hsep h
    · match hr : t.ranges, h with
      | [], _ => trivial
      | [_], _ => trivial
      | _ :: _ :: _, h => simp at h
  · exact compact_sep _

/-- sort + compact, as every set operation does first -/
theorem normalise_spec (t : Tok) (hs : Strong t) :
    Ordered (doCompact (doSort t)).ranges ∧
    ((doCompact (doSort t)).sorted = true ∨ (doCompact (doSort t)).ranges = []) ∧
    (∀ c, mem c (doCompact (doSort t)).ranges ↔ mem c t.ranges) ∧
    ((doCompact (doSort t)).ranges = [] ↔ t.ranges = []) := by
  obtain ⟨s1, s2, s3, s4, s5, s6⟩ := doSort_spec t hs.1
  obtain ⟨c1, c2, c3, _, c5⟩ := doCompact_spec (doSort t) s1.1 s2 (doSort_strong t hs)
  refine ⟨c1, ?_, fun c => by rw [c3 c, s4 c], by rw [c5, s5]⟩
  rcases s6 with h | h
  · left; rw [c2]; exact h
  · right; exact c5.2 h

theorem strong_of_ordered (t : Tok) (ho : Ordered t.ranges) (hs : t.sorted = true ∨ t.ranges = []) : Strong t :=
  ⟨⟨ordered_valid _ ho, fun _ => ordered_sorted _ ho⟩, fun _ => ⟨hs, ho⟩⟩

theorem mergeRanges_spec (t o : Tok) (ht : Inv t) (ho : Inv o) :
    Inv (mergeRanges t o).1 ∧ ∀ c, mem c (mergeRanges t o).1.ranges ↔ mem c t.ranges ∨ mem c o.ranges := by
  obtain ⟨t1, t2, _, t4, t5, _⟩ := doSort_spec t ht
  obtain ⟨o1, o2, _, o4, _, _⟩ := doSort_spec o ho
  unfold mergeRanges
  by_cases h1 : o.ranges = []
  · simp only [h1, if_true]; exact ⟨ht, fun c => by simp [mem_nil]⟩
  · simp only [h1, if_false]
    by_cases h2 : (doSort t).ranges = []
    · simp only [h2, if_true]
      refine ⟨⟨o1.1, fun _ => o2⟩, fun c => ?_⟩
      have : t.ranges = [] := t5.1 h2
      simp [this, mem_nil, o4 c]
    · simp only [h2, if_false]
      refine ⟨⟨mergeL_valid _ _ t1.1 o1.1, fun _ => mergeL_sorted _ _ t2 o2⟩, fun c => ?_⟩
      simp only [mergeL_mem, t4 c, o4 c]

theorem subtractRanges_spec (t o : Tok) (ht : Strong t) (ho : Strong o) :
    Strong (subtractRanges t o).1 ∧
    ∀ c, mem c (subtractRanges t o).1.ranges ↔ mem c t.ranges ∧ ¬ mem c o.ranges := by
  unfold subtractRanges
  by_cases h : t.ranges = [] ∨ o.ranges = []
  · simp only [h, if_true]
    refine ⟨ht, fun c => ?_⟩
    rcases h with h | h <;> simp [h, mem_nil]
  · simp only [h, if_false]
    obtain ⟨t1, t2, t3, t4⟩ := normalise_spec t ht
    obtain ⟨o1, _, o3, _⟩ := normalise_spec o ho
    obtain ⟨r1, _⟩ := subLoop_ordered _ _ _ (Nat.le_refl _) t1 o1
    have hsorted : (doCompact (doSort t)).sorted = true := by
      rcases t2 with h2 | h2
      · exact h2
      · exact absurd (t4.1 h2) (fun h3 => h (Or.inl h3))
    refine ⟨strong_of_ordered _ r1 (Or.inl hsorted), fun c => ?_⟩
    show mem c (subtractL _ _) ↔ _
    unfold subtractL
    rw [subLoop_mem c _ _ _ (Nat.le_refl _) t1 o1, t3 c, o3 c]

theorem intersectRanges_spec (t o : Tok) (ht : Strong t) (ho : Strong o) :
    Strong (intersectRanges t o).1 ∧
    ∀ c, (t.ranges ≠ [] → o.ranges ≠ [] →
      (mem c (intersectRanges t o).1.ranges ↔ mem c t.ranges ∧ mem c o.ranges)) := by
  unfold intersectRanges
  by_cases h : t.ranges = [] ∨ o.ranges = []
  · simp only [h, if_true]
    refine ⟨ht, fun c h1 h2 => ?_⟩
    rcases h with h | h
    · exact absurd h h1
    · exact absurd h h2
  · simp only [h, if_false]
    obtain ⟨t1, t2, t3, t4⟩ := normalise_spec t ht
    obtain ⟨o1, _, o3, _⟩ := normalise_spec o ho
    obtain ⟨r1, _⟩ := intLoop_ordered _ _ _ (Nat.le_refl _) t1 o1
    have hsorted : (doCompact (doSort t)).sorted = true := by
      rcases t2 with h2 | h2
      · exact h2
      · exact absurd (t4.1 h2) (fun h3 => h (Or.inl h3))
    refine ⟨strong_of_ordered _ r1 (Or.inl hsorted), fun c _ _ => ?_⟩
    show mem c (intersectL _ _) ↔ _
    unfold intersectL
    rw [intLoop_mem c _ _ _ (Nat.le_refl _) t1 o1, t3 c, o3 c]


theorem lastEnd_append (rs : R) (v1 v2 : Int) : lastEnd (rs ++ [(v1, v2)]) = v2 := by
  induction rs with
  | nil => rfl
  | cons p t ih =>
    obtain ⟨a, b⟩ := p
    cases t with
    | nil => rfl
    | cons q t' =>
      have : lastEnd ((a, b) :: q :: (t' ++ [(v1, v2)])) = lastEnd (q :: (t' ++ [(v1, v2)])) := by
        obtain ⟨q1, q2⟩ := q; cases t' <;> rfl
      show lastEnd ((a, b) :: q :: (t' ++ [(v1, v2)])) = v2
      rw [this]; exact ih

theorem ordered_append (v1 v2 : Int) (hv : v1 ≤ v2) : ∀ rs : R, Ordered rs → (rs = [] ∨ lastEnd rs < v1) →
    Ordered (rs ++ [(v1, v2)]) := by
  intro rs
  induction rs with
  | nil => intro _ _; exact hv
  | cons p t ih =>
    intro ho hl
    obtain ⟨a, b⟩ := p
    obtain ⟨h1, h2, h3⟩ := ordered_cons ho
    cases t with
    | nil =>
      have : b < v1 := by rcases hl with hl | hl; cases hl; simpa [lastEnd] using hl
      exact ⟨h1, this, hv⟩
    | cons q t' =>
      have e2 : lastEnd ((a, b) :: q :: t') = lastEnd (q :: t') := by
        obtain ⟨q1, q2⟩ := q; cases t' <;> rfl
      have hl' : lastEnd (q :: t') < v1 := by rcases hl with hl | hl; cases hl; rw [e2] at hl; exact hl
      have := ih h2 (Or.inr hl')
      refine ordered_of_cons h1 this ?_
      intro r hr
      rcases List.mem_append.1 hr with hr | hr
      · exact (h3 r hr).1
      · have : r = (v1, v2) := by simpa using hr
        subst this
        have hq := (h3 q (by simp)).1
        have hle := starts_le_lastEnd _ (ordered_sorted _ h2) (ordered_valid _ h2) q (by simp)
        simp only at hq ⊢; omega

/-- adding a range strictly beyond the end (not even adjacent) appends it -/
theorem addRange_append (t : Tok) (ho : Ordered t.ranges) (hs : t.sorted = true ∨ t.ranges = [])
    (v1 v2 : Int) (hv : v1 ≤ v2) (hl : t.ranges = [] ∨ lastEnd t.ranges + 1 < v1) :
    (addRange t v1 v2).ranges = t.ranges ++ [(v1, v2)] ∧ (addRange t v1 v2).sorted = true := by
  unfold addRange
  simp only [hv, if_true]
  split
  · rename_i h; simp [h]
  · rename_i rs hne
    have hl' : lastEnd t.ranges + 1 < v1 := by rcases hl with hl | hl; exact absurd hl hne; exact hl
    have hsd : t.sorted = true := by rcases hs with hs | hs; exact hs; exact absurd hs hne
    have n1 : ¬ (lastEnd t.ranges + 1 = v1) := by omega
    have n2 : ¬ (t.sorted = true ∧ lastEnd t.ranges ≥ v1) := by omega
    have n3 : ¬ (lastEnd t.ranges ≥ v1) := by omega
    simp only [n1, n2, n3, if_false, hsd]
    simp

/-- state carried through the complement construction -/
def Acc (acc : Tok) (bound : Int) : Prop :=
  Ordered acc.ranges ∧ (acc.sorted = true ∨ acc.ranges = []) ∧ (acc.ranges = [] ∨ lastEnd acc.ranges < bound)

theorem acc_inv {acc : Tok} {b : Int} (h : Acc acc b) : Inv acc :=
  ⟨ordered_valid _ h.1, fun _ => ordered_sorted _ h.1⟩

theorem acc_add {acc : Tok} {bound : Int} (h : Acc acc bound) (v1 v2 nb : Int) (hv : v1 ≤ v2)
    (h1 : bound + 1 ≤ v1) (h2 : v2 < nb) : Acc (addRange acc v1 v2) nb := by
  obtain ⟨a1, a2, a3⟩ := h
  have hl : acc.ranges = [] ∨ lastEnd acc.ranges + 1 < v1 := by
    rcases a3 with h | h
    · exact Or.inl h
    · right; omega
  obtain ⟨e1, e2⟩ := addRange_append acc a1 a2 v1 v2 hv hl
  refine ⟨?_, Or.inl e2, Or.inr ?_⟩
  · rw [e1]; exact ordered_append v1 v2 hv _ a1 (by rcases hl with h | h; exact Or.inl h; right; omega)
  · rw [e1, lastEnd_append]; exact h2

theorem addGaps_acc : ∀ (t : R) (a b : Int) (acc : Tok), Ordered ((a, b) :: t) → Sep ((a, b) :: t) → Acc acc b →
    Acc (addGaps acc ((a, b) :: t)) (lastEnd ((a, b) :: t)) := by
  intro t
  induction t with
  | nil => intro a b acc _ _ h; simpa [addGaps, lastEnd] using h
  | cons q t ih =>
    intro a b acc ho hs h
    obtain ⟨a', b'⟩ := q
    obtain ⟨h1, h2, h3⟩ := ho
    obtain ⟨s1, s2⟩ := hs
    simp only at h1 h2 s1
    have e2 : lastEnd ((a, b) :: (a', b') :: t) = lastEnd ((a', b') :: t) := by cases t <;> rfl
    rw [e2]
    simp only [addGaps]
    have hb' : a' ≤ b' := (ordered_cons h3).1
    exact ih a' b' _ h3 s2 (acc_add h (b + 1) (a' - 1) b' (by omega) (by omega) (by omega))

def InRange (rs : R) : Prop := ∀ p ∈ rs, 0 ≤ p.1 ∧ p.2 ≤ UTF16_MAX

theorem mem_inRange {c : Int} {rs : R} (h : InRange rs) (hm : mem c rs) : 0 ≤ c ∧ c ≤ UTF16_MAX := by
  obtain ⟨p, hp, h1, h2⟩ := hm
  have := h p hp; omega

theorem lastEnd_mem : ∀ (rs : R), rs ≠ [] → ∃ a, (a, lastEnd rs) ∈ rs := by
  intro rs
  induction rs with
  | nil => intro h; exact absurd rfl h
  | cons p t ih =>
    intro _
    obtain ⟨a, b⟩ := p
    cases t with
    | nil => exact ⟨a, by simp [lastEnd]⟩
    | cons q t' =>
      have e2 : lastEnd ((a, b) :: q :: t') = lastEnd (q :: t') := by
        obtain ⟨q1, q2⟩ := q; cases t' <;> rfl
      obtain ⟨a', h⟩ := ih (by simp)
      exact ⟨a', by rw [e2]; exact List.mem_cons_of_mem _ h⟩


theorem complementRanges_spec (o : Tok) (ho : Strong o) (hsep : o.compacted = true → Sep o.ranges)
    (hne : o.ranges ≠ []) (hr : InRange o.ranges) :
    Strong (complementRanges o).1 ∧
    ∀ c, mem c (complementRanges o).1.ranges ↔ (0 ≤ c ∧ c ≤ UTF16_MAX) ∧ ¬ mem c o.ranges := by
  obtain ⟨n1, n2, n3, n4⟩ := normalise_spec o ho
  obtain ⟨s1, s2, s3, s4, s5, s6⟩ := doSort_spec o ho.1
  have hsep1 : Sep (doCompact (doSort o)).ranges := by
    apply doCompact_sep _ s1.1
    intro h
    rw [s3] at h
    have hd : doSort o = o := by unfold doSort; simp [(ho.2 h).1]
    rw [hd]; exact hsep h
  have hin : InRange (doCompact (doSort o)).ranges → True := fun _ => trivial
  unfold complementRanges
  simp only
  cases hrs : (doCompact (doSort o)).ranges with
  | nil => exact absurd (n4.1 hrs) hne
  | cons p t =>
    obtain ⟨a, b⟩ := p
    rw [hrs] at n1 hsep1
    unfold complementL
    simp only
    have hab : a ≤ b := (ordered_cons n1).1
    -- first piece
    have acc1 : Acc (if a > 0 then addRange {} 0 (a - 1) else ({} : Tok)) b := by
      split
      · have e : Acc ({} : Tok) (-1) := ⟨trivial, Or.inr rfl, Or.inl rfl⟩
        exact acc_add e 0 (a - 1) b (by omega) (by omega) (by omega)
      · exact ⟨trivial, Or.inr rfl, Or.inl rfl⟩
    have mem1 : ∀ c, mem c (if a > 0 then addRange {} 0 (a - 1) else ({} : Tok)).ranges ↔ (0 ≤ c ∧ c < a) := by
      intro c
      split
      · rw [addRange_mem _ (by intro p hp; cases hp)]
        have e1 : min (0 : Int) (a - 1) = 0 := by omega
        have e2 : max (0 : Int) (a - 1) = a - 1 := by omega
        rw [e1, e2]
        constructor
        · rintro (h | h)
          · exact absurd h (mem_nil c)
          · omega
        · intro h; right; omega
      · constructor
        · intro h; exact absurd h (mem_nil c)
        · intro h; omega
    obtain ⟨g1, g2⟩ := addGaps_spec
      (acc := (if a > 0 then addRange {} 0 (a - 1) else ({} : Tok))) (rs := (a, b) :: t)
      (c := 0) (acc_inv acc1) hsep1
    have acc2 := addGaps_acc t a b _ n1 hsep1 acc1
    have memG : ∀ c, mem c (addGaps (if a > 0 then addRange {} 0 (a - 1) else ({} : Tok)) ((a, b) :: t)).ranges ↔
        (0 ≤ c ∧ c < a) ∨ inGap c ((a, b) :: t) := by
      intro c
      rw [(addGaps_spec c ((a, b) :: t) _ (acc_inv acc1) hsep1).2, mem1 c]
    -- facts about the original set
    have hmemo : ∀ c, mem c o.ranges ↔ mem c ((a, b) :: t) := fun c => by rw [← n3 c, hrs]
    have hlastmem := lastEnd_mem ((a, b) :: t) (by simp)
    have hinr : ∀ c, mem c ((a, b) :: t) → 0 ≤ c ∧ c ≤ UTF16_MAX := fun c h =>
      mem_inRange hr ((hmemo c).2 h)
    obtain ⟨la, hla⟩ := hlastmem
    have hla2 : la ≤ lastEnd ((a, b) :: t) := ordered_valid _ n1 _ hla
    have hlast_le : lastEnd ((a, b) :: t) ≤ UTF16_MAX :=
      (hinr (lastEnd ((a, b) :: t)) ⟨_, hla, hla2, Int.le_refl _⟩).2
    have ha_le : a ≤ lastEnd ((a, b) :: t) :=
      starts_le_lastEnd _ (ordered_sorted _ n1) (ordered_valid _ n1) (a, b) (by simp)
    have ha0 : 0 ≤ a := (hinr a ⟨(a, b), by simp, Int.le_refl _, hab⟩).1
    have hgap_in : ∀ c, inGap c ((a, b) :: t) → a < c ∧ c < lastEnd ((a, b) :: t) := by
      intro c hg
      have h1 := inGap_gt c t a b n1 hg
      have h2 := (not_mem_ordered c t a b n1).2 (Or.inr (Or.inl hg))
      refine ⟨by omega, ?_⟩
      -- c is not beyond the last end: a gap lies before a later range
      clear g1 g2 acc2 memG
      have : ∀ (t : R) (a b : Int), Ordered ((a, b) :: t) → inGap c ((a, b) :: t) → c < lastEnd ((a, b) :: t) := by
        intro t
        induction t with
        | nil => intro a b _ h; cases h
        | cons q t ih =>
          intro a b ho hg
          obtain ⟨a', b'⟩ := q
          obtain ⟨o1, o2, o3⟩ := ho
          have e2 : lastEnd ((a, b) :: (a', b') :: t) = lastEnd ((a', b') :: t) := by cases t <;> rfl
          rw [e2]
          rcases hg with hg | hg
          · have := starts_le_lastEnd _ (ordered_sorted _ o3) (ordered_valid _ o3) (a', b') (by simp)
            simp only at this; omega
          · exact ih a' b' o3 hg
      exact this t a b n1 hg
    -- assemble
    by_cases hlast : lastEnd ((a, b) :: t) ≠ UTF16_MAX
    · rw [if_pos hlast]
      have acc3 := acc_add acc2 (lastEnd ((a, b) :: t) + 1) UTF16_MAX (UTF16_MAX + 1) (by omega) (by omega) (by omega)
      refine ⟨strong_of_ordered _ acc3.1 acc3.2.1, fun c => ?_⟩
      show mem c (addRange _ _ _).ranges ↔ _
      rw [addRange_mem _ (acc_inv acc2).1, memG c]
      have e1 : min (lastEnd ((a, b) :: t) + 1) UTF16_MAX = lastEnd ((a, b) :: t) + 1 := by omega
      have e2 : max (lastEnd ((a, b) :: t) + 1) UTF16_MAX = UTF16_MAX := by omega
      rw [e1, e2, hmemo c, not_mem_ordered c t a b n1]
      constructor
      · rintro ((h | h) | h)
        · exact ⟨by omega, Or.inl h.2⟩
        · have := hgap_in c h; exact ⟨by omega, Or.inr (Or.inl h)⟩
        · exact ⟨by omega, Or.inr (Or.inr (by omega))⟩
      · rintro ⟨h0, h | h | h⟩
        · left; left; omega
        · left; right; exact h
        · right; omega
    · have hl : lastEnd ((a, b) :: t) = UTF16_MAX := by
        by_cases h : lastEnd ((a, b) :: t) = UTF16_MAX
        · exact h
        · exact absurd h hlast
      rw [if_neg (by intro h; exact h hl)]
      refine ⟨strong_of_ordered _ acc2.1 acc2.2.1, fun c => ?_⟩
      show mem c (addGaps _ _).ranges ↔ _
      rw [memG c, hmemo c, not_mem_ordered c t a b n1, hl]
      constructor
      · rintro (h | h)
        · exact ⟨by omega, Or.inl h.2⟩
        · have := hgap_in c h; exact ⟨by omega, Or.inr (Or.inl h)⟩
      · rintro ⟨h0, h | h | h⟩
        · left; omega
        · right; exact h
        · omega


end XV.Lemmas.RangeTok
