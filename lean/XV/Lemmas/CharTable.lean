/-
Finite-table checking by big-number arithmetic.  The 65536-entry byte table is one number `T` (entry `c` in
bits 8c..8c+7).  For a class given as a set expression over ranges, the expected bit plane (bit 8c+j set iff
c is in the class) is built with a handful of shifts/ors, so that the kernel compares whole planes at once
(`Nat` operations on literals are GMP-accelerated).  `checkTable_spec` lifts the Boolean check to the `∀`.
-/
import XV.Model.XmlChar
import XV.Spec.XmlChar
namespace XV.Lemmas.CharTable
open XV.Model.XmlChar XV.Spec.XmlChar

/-- 0x…010101 with 2^k one-bytes -/
def ones8 : Nat → Nat
  | 0 => 1
  | k + 1 => ones8 k ||| (ones8 k <<< (8 * 2 ^ k))

theorem testBit_ones8 (k i : Nat) : (ones8 k).testBit i = (decide (i < 8 * 2 ^ k) && decide (i % 8 = 0)) := by
  induction k generalizing i with
  | zero =>
    have : (1 : Nat) = 2 ^ 0 := rfl
    simp only [ones8]
    rw [this, Nat.testBit_two_pow]
    rw [Bool.eq_iff_iff]; simp; omega
  | succ k ih =>
    simp only [ones8, Nat.testBit_or, Nat.testBit_shiftLeft, ih]
    have hp : 2 ^ (k + 1) = 2 * 2 ^ k := by rw [Nat.pow_succ]; omega
    rw [hp, Bool.eq_iff_iff]
    simp only [Bool.or_eq_true, Bool.and_eq_true, decide_eq_true_eq, ge_iff_le]
    generalize 2 ^ k = p
    omega

/-- bit plane (flag bit `j`) of a union of ranges, over the 65536 table entries and beyond -/
def planeR (j : Nat) : Ranges → Nat
  | [] => 0
  | r :: R =>
    (if Nat.ble r.1 r.2 then ((ones8 16 % 2 ^ (8 * (r.2 - r.1 + 1))) <<< (8 * r.1 + j)) else 0) ||| planeR j R

theorem testBit_planeR (j c : Nat) (hc : c < 65536) (R : Ranges) :
    (planeR j R).testBit (8 * c + j) = inRanges R c := by
  induction R with
  | nil => simp [planeR, inRanges]
  | cons r R ih =>
    have e : inRanges (r :: R) c = (inR c r.1 r.2 || inRanges R c) := by simp [inRanges]
    rw [e, planeR, Nat.testBit_or, ih]
    congr 1
    by_cases hle : r.1 ≤ r.2
    · have hb : Nat.ble r.1 r.2 = true := Nat.ble_eq_true_of_le hle
      rw [if_pos hb, Nat.testBit_shiftLeft, Nat.testBit_mod_two_pow, testBit_ones8]
      rw [Bool.eq_iff_iff]
      simp only [inR, Bool.and_eq_true, decide_eq_true_eq, ge_iff_le, Nat.ble_eq]
      have : (2:Nat) ^ 16 = 65536 := by decide
      rw [this]
      omega
    · have hb : Nat.ble r.1 r.2 = false := by
        cases h : Nat.ble r.1 r.2 with
        | false => rfl
        | true => exact absurd (Nat.le_of_ble_eq_true h) hle
      rw [hb]
      simp only [Bool.false_eq_true, if_false, Nat.zero_testBit]
      symm
      rw [Bool.eq_false_iff]
      intro h
      simp only [inR, Bool.and_eq_true, Nat.ble_eq] at h
      omega

def plane (j : Nat) : CSet → Nat
  | .rs R => planeR j R
  | .union a b => plane j a ||| plane j b
  | .diff a b => plane j a ^^^ (plane j a &&& plane j b)

theorem testBit_plane (j c : Nat) (hc : c < 65536) (e : CSet) :
    (plane j e).testBit (8 * c + j) = e.mem c := by
  induction e with
  | rs R => exact testBit_planeR j c hc R
  | union a b iha ihb => simp [plane, CSet.mem, iha, ihb]
  | diff a b iha ihb =>
    simp only [plane, CSet.mem, Nat.testBit_xor, Nat.testBit_and, iha, ihb]
    cases a.mem c <;> cases b.mem c <;> rfl

/-- the table as one number: page `q` in bits 2048q .. 2048q+2047 -/
def packPages : List Nat → Nat
  | [] => 0
  | pg :: rest => pg ||| (packPages rest <<< 2048)

theorem testBit_ge_of_lt_two_pow {x n i : Nat} (h : x < 2 ^ n) (hi : n ≤ i) : x.testBit i = false :=
  Nat.testBit_lt_two_pow (Nat.lt_of_lt_of_le h (Nat.pow_le_pow_right (by decide) hi))

theorem testBit_packPages (pages : List Nat) (h : ∀ pg ∈ pages, pg < 2 ^ 2048) (q r : Nat) (hr : r < 2048) :
    (packPages pages).testBit (2048 * q + r) = (pages.getD q 0).testBit r := by
  induction pages generalizing q with
  | nil => simp [packPages]
  | cons pg rest ih =>
    have hrest : ∀ p ∈ rest, p < 2 ^ 2048 := fun p hp => h p (List.mem_cons_of_mem _ hp)
    cases q with
    | zero =>
      simp only [packPages, Nat.testBit_or, Nat.testBit_shiftLeft, Nat.mul_zero, Nat.zero_add, List.getD_cons_zero]
      have : decide (r ≥ 2048) = false := by simp; omega
      rw [this]; simp
    | succ q =>
      simp only [packPages, Nat.testBit_or, Nat.testBit_shiftLeft, List.getD_cons_succ]
      rw [testBit_ge_of_lt_two_pow (h pg (List.mem_cons_self ..)) (by omega)]
      have : decide (2048 * (q + 1) + r ≥ 2048) = true := by simp; omega
      rw [this]
      have e : 2048 * (q + 1) + r - 2048 = 2048 * q + r := by omega
      rw [e, ih hrest]; simp

/-- one class: the flag mask is a single bit `j < 8` and the masked table equals the expected plane -/
def checkClass (T : Nat) (m : Nat) (e : CSet) : Bool :=
  Nat.beq (2 ^ Nat.log2 m) m && Nat.blt (Nat.log2 m) 8 &&
  Nat.beq (T &&& (ones8 16 <<< Nat.log2 m)) (plane (Nat.log2 m) e % 2 ^ (8 * 65536))

def checkTable (pages : List Nat) (cls : List (Nat × CSet)) : Bool :=
  Nat.beq pages.length 256 && pages.all (fun pg => Nat.blt pg (2 ^ 2048)) &&
  cls.all (fun me => checkClass (packPages pages) me.1 me.2)

theorem flag_two_pow (b j : Nat) : flag b (2 ^ j) = b.testBit j := by
  unfold flag
  cases hb : b.testBit j with
  | true =>
    have h1 : (b &&& 2 ^ j).testBit j = true := by simp [Nat.testBit_and, hb, Nat.testBit_two_pow_self]
    have : b &&& 2 ^ j ≠ 0 := by
      intro h0; rw [h0, Nat.zero_testBit] at h1; exact Bool.noConfusion h1
    simpa using this
  | false =>
    have : b &&& 2 ^ j = 0 := by
      apply Nat.eq_of_testBit_eq
      intro i
      rw [Nat.testBit_and, Nat.testBit_two_pow, Nat.zero_testBit]
      by_cases hij : j = i
      · subst hij; simp [hb]
      · simp [hij]
    simp [this]

theorem checkTable_spec (pages : List Nat) (cls : List (Nat × CSet)) (h : checkTable pages cls = true) :
    ∀ c, c < 65536 → ∀ me ∈ cls, flag (byteAt (pages.getD (c / 256) 0) (c % 256)) me.1 = me.2.mem c := by
  intro c hc me hme
  simp only [checkTable, Bool.and_eq_true, List.all_eq_true] at h
  obtain ⟨⟨_, hpg⟩, hcls⟩ := h
  have hpg' : ∀ pg ∈ pages, pg < 2 ^ 2048 := fun pg hp => by
    exact Nat.le_of_ble_eq_true (hpg pg hp)
  have hk := hcls me hme
  simp only [checkClass, Bool.and_eq_true] at hk
  obtain ⟨⟨hm, hj⟩, heq⟩ := hk
  have hm' : 2 ^ Nat.log2 me.1 = me.1 := Nat.eq_of_beq_eq_true hm
  have hj' : Nat.log2 me.1 < 8 := by
    have := Nat.le_of_ble_eq_true (by simpa [Nat.blt] using hj); omega
  have heq' := Nat.eq_of_beq_eq_true heq
  generalize Nat.log2 me.1 = j at hm' hj' heq'
  rw [← hm']
  rw [flag_two_pow]
  have h256 : (256 : Nat) = 2 ^ 8 := by decide
  unfold byteAt
  rw [h256, Nat.testBit_mod_two_pow, Nat.testBit_shiftRight]
  have hjd : decide (j < 8) = true := by simp [hj']
  rw [hjd, Bool.true_and]
  have hr : 8 * (c % 256) + j < 2048 := by omega
  rw [← testBit_packPages pages hpg' (c / 256) _ hr]
  have e1 : 2048 * (c / 256) + (8 * (c % 256) + j) = 8 * c + j := by omega
  rw [e1]
  have key := congrArg (fun x => Nat.testBit x (8 * c + j)) heq'
  simp only [Nat.testBit_and, Nat.testBit_shiftLeft, Nat.testBit_mod_two_pow, testBit_ones8,
             testBit_plane j c hc] at key
  have d1 : decide (8 * c + j ≥ j) = true := decide_eq_true (by omega)
  have d2 : decide (8 * c + j - j < 8 * 2 ^ 16) = true := by
    have : (2:Nat) ^ 16 = 65536 := by decide
    rw [this]; exact decide_eq_true (by omega)
  have d3 : decide ((8 * c + j - j) % 8 = 0) = true := decide_eq_true (by omega)
  have d4 : decide (8 * c + j < 8 * 65536) = true := decide_eq_true (by omega)
  rw [d1, d2, d3, d4] at key
  simpa using key

end XV.Lemmas.CharTable
