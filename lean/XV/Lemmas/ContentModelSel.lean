/-
C07 — lemmas about the code-shaped Simple/Mixed content models and the selection logic
(inversion of `CM.Lang` on the one/two-leaf shapes, the loops of validateContent, buildChildList).
Core Lean only.
-/
import XV.Lemmas.ContentModel
import XV.Model.ContentModel
namespace XV.Lemmas.ContentModelSel
open XV.Spec.ContentModel XV.Model.ContentModel XV.Lemmas.ContentModel

theorem lang_leaf {n : Name} {w : List Name} : CM.Lang (.leaf n) w ↔ w = [n] := by
  constructor
  · intro h; cases h; rfl
  · rintro rfl; exact .leaf n

theorem lang_star_leaf {n : Name} {w : List Name} : CM.Lang (.star (.leaf n)) w ↔ ∀ x, x ∈ w → x = n := by
  rw [← cm_toRe_iff]
  simp only [CM.toRe]
  rw [star_syms_iff (.sym n) (fun x => x = n) (by intro w; simp [sym_inv])]

theorem lang_plus_leaf {n : Name} {w : List Name} :
    CM.Lang (.plus (.leaf n)) w ↔ w ≠ [] ∧ ∀ x, x ∈ w → x = n := by
  rw [plus_iff_cat_star]
  constructor
  · rintro ⟨u, v, rfl, h1, h2⟩
    rw [lang_leaf] at h1; subst h1
    rw [lang_star_leaf] at h2
    refine ⟨by simp, ?_⟩
    intro x hx
    simp at hx
    rcases hx with rfl | hx
    · rfl
    · exact h2 x hx
  · rintro ⟨hne, h⟩
    cases w with
    | nil => exact absurd rfl hne
    | cons x w =>
      have hx : x = n := h x (by simp)
      subst hx
      exact ⟨[x], w, rfl, .leaf x, lang_star_leaf.2 (fun y hy => h y (by simp [hy]))⟩

theorem lang_opt_leaf {n : Name} {w : List Name} : CM.Lang (.opt (.leaf n)) w ↔ w = [] ∨ w = [n] := by
  constructor
  · intro h
    cases h with
    | optNone => exact .inl rfl
    | optSome h => exact .inr (lang_leaf.1 h)
  · rintro (rfl | rfl)
    · exact .optNone _
    · exact .optSome (.leaf n)

theorem lang_choice_leaf {a b : Name} {w : List Name} :
    CM.Lang (.choice (.leaf a) (.leaf b)) w ↔ w = [a] ∨ w = [b] := by
  constructor
  · intro h
    cases h with
    | choiceL _ h => exact .inl (lang_leaf.1 h)
    | choiceR _ h => exact .inr (lang_leaf.1 h)
  · rintro (rfl | rfl)
    · exact .choiceL _ (.leaf a)
    · exact .choiceR _ (.leaf b)

theorem lang_seq_leaf {a b : Name} {w : List Name} :
    CM.Lang (.seq (.leaf a) (.leaf b)) w ↔ w = [a, b] := by
  constructor
  · intro h
    cases h with
    | seq h1 h2 => rw [lang_leaf.1 h1, lang_leaf.1 h2]; rfl
  · rintro rfl
    exact CM.Lang.seq (u := [a]) (v := [b]) (.leaf a) (.leaf b)

theorem nameEq_elem (c n : Name) : nameEq c (.elem n) = true ↔ n = c := by
  simp [nameEq, QN.rawName]

theorem nameEq_pcdata (c : Name) : nameEq c .pcdata = false := by
  simp [nameEq, QN.rawName]

theorem firstMismatch_none (n : Name) (w : List Name) (i : Nat) :
    firstMismatch (.elem n) w i = none ↔ ∀ x, x ∈ w → x = n := by
  induction w generalizing i with
  | nil => simp [firstMismatch]
  | cons c cs ih =>
    simp only [firstMismatch]
    by_cases h : n = c
    · have := (nameEq_elem c n).2 h
      subst h; simp [this, ih]
    · have : nameEq c (.elem n) = false := by
        cases hq : nameEq c (.elem n)
        · rfl
        · exact absurd ((nameEq_elem c n).1 hq) h
      simp [this]; exact fun h' => absurd h'.symm h

theorem nameEq_false (c n : Name) : nameEq c (.elem n) = false ↔ n ≠ c := by
  constructor
  · intro h h'; rw [(nameEq_elem c n).2 h'] at h; cases h
  · intro h
    cases hq : nameEq c (.elem n)
    · rfl
    · exact absurd ((nameEq_elem c n).1 hq) h

theorem simple_iff' {m : Simple} {c : CM} (h : SimpleFor m c) (w : List Name) :
    simpleValidate m w = .ok ↔ CM.Lang c w := by
  cases h with
  | leaf n =>
    rw [lang_leaf]
    simp only [simpleValidate]
    cases w with
    | nil => simp
    | cons c0 rest =>
      by_cases h : n = c0
      · have := (nameEq_elem c0 n).2 h
        subst h
        cases rest <;> simp [this]
      · have := (nameEq_false c0 n).2 h
        simp [this]; intro h'; exact absurd h'.symm h
  | opt n =>
    rw [lang_opt_leaf]
    simp only [simpleValidate]
    match w with
    | [] => simp
    | [c0] =>
      by_cases h : n = c0
      · have := (nameEq_elem c0 n).2 h
        subst h; simp [this]
      · have := (nameEq_false c0 n).2 h
        simp [this]; intro h'; exact absurd h'.symm h
    | _ :: _ :: _ => simp
  | star n =>
    rw [lang_star_leaf, ← firstMismatch_none n w 0]
    simp only [simpleValidate]
    cases firstMismatch (QN.elem n) w 0 <;> simp
  | plus n =>
    rw [lang_plus_leaf, ← firstMismatch_none n w 0]
    simp only [simpleValidate]
    cases w with
    | nil => simp
    | cons c0 rest =>
      cases firstMismatch (QN.elem n) (c0 :: rest) 0 <;> simp
  | choice a b =>
    rw [lang_choice_leaf]
    simp only [simpleValidate]
    cases w with
    | nil => simp
    | cons c0 rest =>
      by_cases ha : a = c0
      · have := (nameEq_elem c0 a).2 ha
        subst ha
        cases rest <;> simp [this]
      · have h1 := (nameEq_false c0 a).2 ha
        by_cases hb : b = c0
        · have := (nameEq_elem c0 b).2 hb
          subst hb
          cases rest <;> simp [this, h1]
        · have h2 := (nameEq_false c0 b).2 hb
          simp [h1, h2]
          exact ⟨fun h' => absurd h'.symm ha, fun h' => absurd h'.symm hb⟩
  | seq a b =>
    rw [lang_seq_leaf]
    simp only [simpleValidate]
    cases w with
    | nil => simp
    | cons c0 rest =>
      by_cases ha : a = c0
      · have h1 := (nameEq_elem c0 a).2 ha
        subst ha
        cases rest with
        | nil => simp [h1]
        | cons c1 rest2 =>
          by_cases hb : b = c1
          · have h2 := (nameEq_elem c1 b).2 hb
            subst hb
            cases rest2 <;> simp [h1, h2]
          · have h2 := (nameEq_false c1 b).2 hb
            simp [h1, h2]; intro h'; exact absurd h'.symm hb
      · have h1 := (nameEq_false c0 a).2 ha
        simp [h1]; intro h'; exact absurd h'.symm ha

/-! mixed -/
theorem mixedLoop_ok (m : Mixed) (w : List Name) (i : Nat) :
    mixedLoop m w i = .ok ↔ ∀ x, x ∈ w → QN.elem x ∈ m.children := by
  induction w generalizing i with
  | nil => simp [mixedLoop]
  | cons c cs ih =>
    simp only [mixedLoop]
    have hany : (m.children.any (fun q => nameEq c q)) = true ↔ QN.elem c ∈ m.children := by
      rw [List.any_eq_true]
      constructor
      · rintro ⟨q, hq, hn⟩
        cases q with
        | pcdata => rw [nameEq_pcdata] at hn; cases hn
        | elem n => rw [(nameEq_elem c n).1 hn] at hq; exact hq
      · intro h; exact ⟨_, h, (nameEq_elem c c).2 rfl⟩
    by_cases h : QN.elem c ∈ m.children
    · rw [if_pos (hany.2 h), ih]
      constructor
      · intro h' x hx
        simp at hx
        rcases hx with rfl | hx
        · exact h
        · exact h' x hx
      · intro h' x hx; exact h' x (by simp [hx])
    · have : ¬ (m.children.any (fun q => nameEq c q)) = true := fun h' => h (hany.1 h')
      rw [if_neg this]
      constructor
      · intro h'; cases h'
      · intro h'; exact absurd (h' c (by simp)) h

theorem buildChildList_rightChoice (n : Name) (ms : List Name) :
    buildChildList (rightChoice n ms) = (n :: ms).map QN.elem := by
  induction ms generalizing n with
  | nil => simp [rightChoice, buildChildList]
  | cons m ms ih => simp [rightChoice, buildChildList, ih]

theorem buildChildList_scanMixed (ns : List Name) (star : Bool) :
    buildChildList (scanMixed ns star) = QN.pcdata :: ns.map QN.elem := by
  cases ns with
  | nil => cases star <;> simp [scanMixed, buildChildList]
  | cons n ms => simp [scanMixed, buildChildList, buildChildList_rightChoice]

theorem mixed_iff' {m : Mixed} {ns : List Name} (h : MixedFor m ns) (w : List Name) :
    mixedValidate m w = .ok ↔ Lang (.mixed ns) w := by
  unfold mixedValidate
  rw [mixedLoop_ok, h]
  constructor
  · intro h'
    refine .mixed (fun x hx => ?_)
    have := h' x hx
    simp at this
    exact this
  · intro h' x hx
    cases h' with
    | mixed h' => simp; exact h' x hx

theorem select_total' (s : Spec) (star : Bool) : Routed s star := by
  cases s with
  | empty => rfl
  | any => rfl
  | mixed ns =>
    exact ⟨⟨buildChildList (scanMixed ns star)⟩, rfl, buildChildList_scanMixed ns star⟩
  | children c =>
    simp only [Routed, declOf, makeContentModel]
    cases c with
    | leaf n => exact .inl ⟨_, rfl, .leaf n⟩
    | seq a b =>
      cases a <;> cases b <;> first
        | exact .inl ⟨_, rfl, .seq _ _⟩
        | exact .inr rfl
    | choice a b =>
      cases a <;> cases b <;> first
        | exact .inl ⟨_, rfl, .choice _ _⟩
        | exact .inr rfl
    | opt a =>
      cases a <;> first
        | exact .inl ⟨_, rfl, .opt _⟩
        | exact .inr rfl
    | star a =>
      cases a <;> first
        | exact .inl ⟨_, rfl, .star _⟩
        | exact .inr rfl
    | plus a =>
      cases a <;> first
        | exact .inl ⟨_, rfl, .plus _⟩
        | exact .inr rfl

end XV.Lemmas.ContentModelSel
