/-
C07 — the worklist loop of `DFAContentModel::buildDFA` (`buildRow`, `dfaLoop`, `findState` = the hash table that
never holds the initial state) builds a transition table whose every entry is the exact subset-construction
step (`TableOK`), terminates within the fuel bound (pigeonhole on the pairwise distinct state sets,
`Bounded`), and `validateContent`'s table walk follows `runMask` (`dfaWalk_spec`).  Core Lean only.
-/
import XV.Lemmas.DfaRun
namespace XV.Lemmas.DfaTable
open XV.Spec.ContentModel XV.Model.ContentModel XV.Lemmas.Glushkov XV.Lemmas.DfaTree XV.Lemmas.DfaRun

/-! ### pigeonhole -/

theorem nodup_bounded_length : ∀ (n : Nat) (l : List Nat), l.Nodup → (∀ x, x ∈ l → x < n) → l.length ≤ n := by
  intro n
  induction n with
  | zero =>
    intro l _ hb
    cases l with
    | nil => simp
    | cons x xs => exact absurd (hb x (by simp)) (by omega)
  | succ n ih =>
    intro l hn hb
    by_cases hm : n ∈ l
    · have h1 : (l.erase n).Nodup := hn.erase n
      have h2 : ∀ x, x ∈ l.erase n → x < n := by
        intro x hx
        have := (hn.mem_erase_iff).1 hx
        have := hb x this.2
        omega
      have := ih _ h1 h2
      rw [List.length_erase_of_mem hm] at this
      omega
    · have h2 : ∀ x, x ∈ l → x < n := by
        intro x hx
        have := hb x hx
        have : x ≠ n := fun e => hm (e ▸ hx)
        omega
      have := ih l hn h2
      omega

/-! ### table entries -/

section
variable (ll : List (Option Name)) (fl : List StateSet)

def EntryOK (states : List StateSet) (S : StateSet) (e : Option Name) (t : Option Nat) : Prop :=
  match t with
  | none => stepSet ll fl S e = 0
  | some j => states[j]? = some (stepSet ll fl S e) ∧ stepSet ll fl S e ≠ 0

def RowOK (states : List StateSet) (S : StateSet) : List (Option Name) → List (Option Nat) → Prop
  | [], [] => True
  | e :: es, t :: ts => EntryOK ll fl states S e t ∧ RowOK states S es ts
  | _, _ => False

theorem EntryOK.mono {states ext : List StateSet} {S : StateSet} {e : Option Name} {t : Option Nat}
    (h : EntryOK ll fl states S e t) : EntryOK ll fl (states ++ ext) S e t := by
  cases t with
  | none => exact h
  | some j =>
    obtain ⟨h1, h2⟩ := h
    refine ⟨?_, h2⟩
    have hj : j < states.length := by
      by_cases hj : j < states.length
      · exact hj
      · rw [List.getElem?_eq_none (by omega)] at h1; cases h1
    rw [List.getElem?_append_left hj]; exact h1

theorem RowOK.mono {states ext : List StateSet} {S : StateSet} :
    ∀ {es : List (Option Name)} {row : List (Option Nat)},
      RowOK ll fl states S es row → RowOK ll fl (states ++ ext) S es row := by
  intro es
  induction es with
  | nil => intro row h; cases row with | nil => trivial | cons => exact h.elim
  | cons e es ih =>
    intro row h
    cases row with
    | nil => exact h.elim
    | cons t ts => exact ⟨EntryOK.mono ll fl h.1, ih h.2⟩

theorem RowOK.append {states : List StateSet} {S : StateSet} :
    ∀ {es1 : List (Option Name)} {r1 : List (Option Nat)} {es2 : List (Option Name)} {r2 : List (Option Nat)},
      RowOK ll fl states S es1 r1 → RowOK ll fl states S es2 r2 → RowOK ll fl states S (es1 ++ es2) (r1 ++ r2) := by
  intro es1
  induction es1 with
  | nil => intro r1 es2 r2 h1 h2; cases r1 with | nil => exact h2 | cons => exact h1.elim
  | cons e es ih =>
    intro r1 es2 r2 h1 h2
    cases r1 with
    | nil => exact h1.elim
    | cons t ts => exact ⟨h1.1, ih h1.2 h2⟩

/-! ### findState -/

theorem findState_some {states : List StateSet} {s : StateSet} {j : Nat} (h : findState states s = some j) :
    states[j]? = some s := by
  cases states with
  | nil => simp [findState] at h
  | cons s0 rest =>
    simp only [findState, Option.map_eq_some_iff] at h
    obtain ⟨i, hi, rfl⟩ := h
    obtain ⟨hlt, hp, _⟩ := List.findIdx?_eq_some_iff_getElem.1 hi
    simp only [List.getElem?_cons_succ]
    rw [List.getElem?_eq_getElem hlt]
    simp at hp
    rw [hp]

theorem findState_none {states : List StateSet} {s : StateSet} (h : findState states s = none) :
    s ∉ states.tail := by
  cases states with
  | nil => simp
  | cons s0 rest =>
    simp only [findState, Option.map_eq_none_iff] at h
    have := List.findIdx?_eq_none_iff.1 h
    intro hm
    have := this s hm
    simp at this

/-- the invariant that bounds the number of states -/
def Bounded (L : Nat) (states : List StateSet) : Prop :=
  states ≠ [] ∧ states.tail.Nodup ∧ ∀ s, s ∈ states.tail → s < 2 ^ L

theorem Bounded.length_le {L : Nat} {states : List StateSet} (h : Bounded L states) : states.length ≤ 2 ^ L + 1 := by
  have := nodup_bounded_length (2 ^ L) states.tail h.2.1 h.2.2
  simp at this
  omega

/-! ### buildRow -/

theorem buildRow_spec (L : Nat) (hb : ∀ S e, stepSet ll fl S e < 2 ^ L) (S : StateSet) :
    ∀ (es : List (Option Name)) (states : List StateSet) (row : List (Option Nat)), Bounded L states →
      ∃ ext r, buildRow ll fl S es states row = (states ++ ext, row ++ r) ∧
        RowOK ll fl (states ++ ext) S es r ∧ Bounded L (states ++ ext) := by
  intro es
  induction es with
  | nil =>
    intro states row hB
    exact ⟨[], [], by simp [buildRow], trivial, by simpa using hB⟩
  | cons e es ih =>
    intro states row hB
    simp only [buildRow]
    by_cases h0 : stepSet ll fl S e = 0
    · rw [if_pos h0]
      obtain ⟨ext, r, h1, h2, h3⟩ := ih states (row ++ [none]) hB
      refine ⟨ext, none :: r, by simp [h1], ⟨h0, h2⟩, h3⟩
    · rw [if_neg h0]
      cases hf : findState states (stepSet ll fl S e) with
      | some j =>
        simp only
        obtain ⟨ext, r, h1, h2, h3⟩ := ih states (row ++ [some j]) hB
        refine ⟨ext, some j :: r, by simp [h1], ⟨?_, h2⟩, h3⟩
        exact EntryOK.mono ll fl (show EntryOK ll fl states S e (some j) from ⟨findState_some hf, h0⟩)
      | none =>
        simp only
        have hB' : Bounded L (states ++ [stepSet ll fl S e]) := by
          obtain ⟨hne, hnd, hlt⟩ := hB
          cases states with
          | nil => exact absurd rfl hne
          | cons s0 rest =>
            have hnm := findState_none hf
            simp only [List.tail_cons] at hnm hnd hlt
            refine ⟨by simp, ?_, ?_⟩
            · simp only [List.cons_append, List.tail_cons]
              rw [List.nodup_append]
              refine ⟨hnd, by simp, ?_⟩
              intro a ha b hb' hab
              simp at hb'
              subst hb'; subst hab
              exact hnm ha
            · intro s hs
              simp only [List.cons_append, List.tail_cons, List.mem_append, List.mem_singleton] at hs
              rcases hs with hs | rfl
              · exact hlt s hs
              · exact hb S e
        obtain ⟨ext, r, h1, h2, h3⟩ := ih (states ++ [stepSet ll fl S e]) (row ++ [some states.length]) hB'
        refine ⟨stepSet ll fl S e :: ext, some states.length :: r, by simp [h1], ⟨?_, ?_⟩, ?_⟩
        · have : EntryOK ll fl (states ++ [stepSet ll fl S e]) S e (some states.length) := ⟨by simp, h0⟩
          have := EntryOK.mono ll fl (ext := ext) this
          simpa using this
        · simpa using h2
        · simpa using h3

/-! ### dfaLoop -/

/-- rows built so far are correct with respect to the current state list -/
def TableOK (em : List (Option Name)) (states : List StateSet) (rows : List (List (Option Nat))) : Prop :=
  rows.length ≤ states.length ∧
  ∀ i row, rows[i]? = some row → RowOK ll fl states (states.getD i 0) em row

theorem getD_append_left {states ext : List StateSet} {i : Nat} (h : i < states.length) :
    (states ++ ext).getD i 0 = states.getD i 0 := by
  simp only [List.getD_eq_getElem?_getD]
  rw [List.getElem?_append_left h]

theorem dfaLoop_spec (L : Nat) (hb : ∀ S e, stepSet ll fl S e < 2 ^ L) (em : List (Option Name)) :
    ∀ (fuel : Nat) (states : List StateSet) (rows : List (List (Option Nat))),
      Bounded L states → TableOK ll fl em states rows → 2 ^ L + 2 ≤ fuel + rows.length →
      ∃ ext rows', dfaLoop ll fl em fuel states rows = some (states ++ ext, rows') ∧
        TableOK ll fl em (states ++ ext) rows' ∧ rows'.length = (states ++ ext).length := by
  intro fuel
  induction fuel with
  | zero =>
    intro states rows hB hT hf
    have := hB.length_le
    have := hT.1
    omega
  | succ fuel ih =>
    intro states rows hB hT hf
    simp only [dfaLoop]
    cases hs : states[rows.length]? with
    | none =>
      simp only
      have hlen : states.length ≤ rows.length := by
        by_cases h : rows.length < states.length
        · rw [List.getElem?_eq_getElem h] at hs; cases hs
        · omega
      exact ⟨[], rows, by simp, by simpa using hT, by simp; have := hT.1; omega⟩
    | some setT =>
      simp only
      have hlt : rows.length < states.length := by
        by_cases h : rows.length < states.length
        · exact h
        · rw [List.getElem?_eq_none (by omega)] at hs; cases hs
      obtain ⟨ext, r, h1, h2, h3⟩ := buildRow_spec ll fl L hb setT em states [] hB
      rw [h1]
      simp only [List.nil_append]
      have hT' : TableOK ll fl em (states ++ ext) (rows ++ [r]) := by
        refine ⟨by simp; omega, ?_⟩
        intro i row hi
        by_cases hil : i < rows.length
        · rw [List.getElem?_append_left hil] at hi
          rw [getD_append_left (by omega)]
          exact RowOK.mono ll fl (hT.2 i row hi)
        · by_cases hie : i = rows.length
          · subst hie
            simp at hi
            subst hi
            rw [getD_append_left hlt]
            have : states.getD rows.length 0 = setT := by
              simp only [List.getD_eq_getElem?_getD, hs]; rfl
            rw [this]; exact h2
          · rw [List.getElem?_eq_none (by simp; omega)] at hi; cases hi
      obtain ⟨ext2, rows', e1, e2, e3⟩ := ih (states ++ ext) (rows ++ [r]) h3 hT' (by simp; omega)
      refine ⟨ext ++ ext2, rows', ?_, ?_, ?_⟩
      · rw [e1]; simp
      · simpa using e2
      · simpa using e3

/-! ### validateContent's table walk -/

theorem lookupTrans_spec {states : List StateSet} {S : StateSet} (x : Name) :
    ∀ (es : List (Option Name)) (row : List (Option Nat)), RowOK ll fl states S es row →
      (∀ j, lookupTrans es row x = some j → states[j]? = some (stepSet ll fl S (some x))) ∧
      (lookupTrans es row x = none → some x ∈ es → stepSet ll fl S (some x) = 0) := by
  intro es
  induction es with
  | nil =>
    intro row h
    cases row with
    | nil => simp [lookupTrans]
    | cons => exact h.elim
  | cons e es ih =>
    intro row h
    cases row with
    | nil => exact h.elim
    | cons t ts =>
      obtain ⟨he, hr⟩ := h
      obtain ⟨ih1, ih2⟩ := ih ts hr
      simp only [lookupTrans]
      by_cases hx : e = some x
      · subst hx
        simp only [beq_self_eq_true, if_true]
        cases t with
        | some next =>
          simp only
          refine ⟨?_, by intro h'; cases h'⟩
          intro j hj
          cases hj
          exact he.1
        | none =>
          simp only
          exact ⟨ih1, fun _ _ => he⟩
      · have : (e == some x) = false := by simpa using hx
        simp only [this, Bool.false_eq_true, if_false]
        refine ⟨ih1, ?_⟩
        intro hn hm
        simp only [List.mem_cons] at hm
        rcases hm with hm | hm
        · exact absurd hm.symm hx
        · exact ih2 hn hm

theorem dfaWalk_spec (em : List (Option Name)) (states : List StateSet) (rows : List (List (Option Nat)))
    (eoc : Nat) (emptyOk : Bool)
    (hT : TableOK ll fl em states rows) (hlen : rows.length = states.length)
    (hcov : ∀ e, e ∉ em → ∀ S, stepSet ll fl S e = 0) :
    ∀ (w : List Name) (cur idx : Nat), cur < states.length →
      (dfaWalk ⟨emptyOk, em, rows, states.map (fun s => s.testBit eoc)⟩ w cur idx = .ok ↔
        (runMask ll fl (states.getD cur 0) w).testBit eoc = true) := by
  intro w
  induction w with
  | nil =>
    intro cur idx hc
    simp only [dfaWalk, runMask]
    have : (List.map (fun s => s.testBit eoc) states).getD cur false = (states.getD cur 0).testBit eoc := by
      simp only [List.getD_eq_getElem?_getD, List.getElem?_map]
      rw [List.getElem?_eq_getElem hc]; rfl
    rw [this]
    cases (states.getD cur 0).testBit eoc <;> simp
  | cons x w ih =>
    intro cur idx hc
    simp only [dfaWalk, runMask]
    have hrow : ∃ row, rows[cur]? = some row := ⟨rows[cur]'(by omega), List.getElem?_eq_getElem (by omega)⟩
    obtain ⟨row, hrow⟩ := hrow
    have hgd : rows.getD cur [] = row := by simp only [List.getD_eq_getElem?_getD, hrow]; rfl
    rw [hgd]
    obtain ⟨l1, l2⟩ := lookupTrans_spec ll fl x em row (hT.2 cur row hrow)
    cases hl : lookupTrans em row x with
    | none =>
      simp only
      have hz : stepSet ll fl (states.getD cur 0) (some x) = 0 := by
        by_cases hm : some x ∈ em
        · exact l2 hl hm
        · exact hcov _ hm _
      rw [hz, runMask_zero]
      simp
    | some next =>
      simp only
      have hn := l1 next hl
      have hnl : next < states.length := by
        by_cases h : next < states.length
        · exact h
        · rw [List.getElem?_eq_none (by omega)] at hn; cases hn
      rw [ih next (idx + 1) hnl]
      have : states.getD next 0 = stepSet ll fl (states.getD cur 0) (some x) := by
        simp only [List.getD_eq_getElem?_getD, hn]; rfl
      rw [this]

end
end XV.Lemmas.DfaTable
