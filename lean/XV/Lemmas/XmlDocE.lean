/- Document-level round trip including a DOCTYPE whose internal subset declares internal general entities only. -/
import XV.Lemmas.XmlDtd
namespace XV.Lemmas.Xml
open XV.Spec.Xml XV.Spec.XmlChar

/-- lexical validity of a token, DOCTYPE tokens of the entity-only fragment included -/
def lexTokE : Tok → Bool
  | .doctype d => lexDoctypeE d
  | t => lexTok t

/-- the token is in the proved fragment -/
def okTokE : Tok → Bool
  | .doctype d => entOnly d
  | _ => true

theorem lexTokE_of_lexTok {t : Tok} (h : lexTok t = true) : lexTokE t = true := by
  cases t <;> simp_all [lexTokE, lexTok]

theorem nextTok_renderE (tk : Tok) (rest : Str) (h : lexTokE tk = true) : nextTok (renderTok tk ++ rest) = .ok (tk, rest) := by
  cases tk with
  | doctype d =>
    simp only [lexTokE] at h
    have p := parseDoctype_render d rest h
    have e : renderTok (.doctype d) ++ rest = '<' :: '!' :: (['D', 'O', 'C', 'T', 'Y', 'P', 'E'] ++ (doctypeBody d ++ rest)) := by
      simp [renderTok, renderDoctype_eq, List.append_assoc]
    have q1 : stripPrefix ['-', '-'] (['D', 'O', 'C', 'T', 'Y', 'P', 'E'] ++ (doctypeBody d ++ rest)) = none := by simp [stripPrefix]
    have q2 : stripPrefix ['[', 'C', 'D', 'A', 'T', 'A', '['] (['D', 'O', 'C', 'T', 'Y', 'P', 'E'] ++ (doctypeBody d ++ rest)) = none := by
      simp [stripPrefix]
    rw [e]
    simp only [nextTok, if_true, parseBang, q1, q2, stripPrefix_append, p]
  | leaf l => exact nextTok_render _ rest h
  | stag t => exact nextTok_render _ rest h
  | etag n w => exact nextTok_render _ rest h
  | empty t => exact nextTok_render _ rest h

/-- a DOCTYPE token comes from `parseDoctype` on the text after `<!DOCTYPE` -/
theorem nextTok_doctype (s : Str) (d : Doctype) (r : Str) (h : nextTok s = .ok (.doctype d, r)) :
    ∃ body, s = ['<', '!', 'D', 'O', 'C', 'T', 'Y', 'P', 'E'] ++ body ∧ parseDoctype body = .ok (d, r) := by
  cases s with
  | nil => simp [nextTok] at h
  | cons c t =>
    simp only [nextTok] at h
    by_cases c1 : c = '<'
    · rw [if_pos c1] at h
      subst c1
      cases t with
      | nil => simp at h
      | cons x t' =>
        simp only at h
        by_cases d1 : x = '!'
        · rw [if_pos d1] at h
          subst d1
          simp only [parseBang] at h
          cases b1 : stripPrefix ['-', '-'] t' with
          | some r1 =>
            simp only [b1] at h
            cases b2 : parseComment r1 with
            | error e => simp [b2] at h
            | ok br => obtain ⟨b, r2⟩ := br; simp [b2] at h
          | none =>
            simp only [b1] at h
            cases b2 : stripPrefix ['[', 'C', 'D', 'A', 'T', 'A', '['] t' with
            | some r1 =>
              simp only [b2] at h
              cases b3 : scanUntil [']', ']', '>'] r1 with
              | none => simp [b3] at h
              | some br => obtain ⟨b, r2⟩ := br; simp [b3] at h
            | none =>
              simp only [b2] at h
              cases b3 : stripPrefix ['D', 'O', 'C', 'T', 'Y', 'P', 'E'] t' with
              | none => simp [b3] at h
              | some r1 =>
                simp only [b3] at h
                cases b4 : parseDoctype r1 with
                | error e => simp [b4] at h
                | ok dr =>
                  obtain ⟨dd, r2⟩ := dr
                  simp only [b4, Except.ok.injEq, Prod.mk.injEq, Tok.doctype.injEq] at h
                  obtain ⟨rfl, rfl⟩ := h
                  refine ⟨r1, ?_, b4⟩
                  rw [stripPrefix_sound _ _ _ b3]; rfl
        · rw [if_neg d1] at h
          by_cases d2 : x = '?'
          · rw [if_pos d2] at h
            cases b1 : parsePI t' with
            | error e => simp [b1] at h
            | ok pr => obtain ⟨⟨n, sp, dt⟩, r1⟩ := pr; simp [b1] at h
          · rw [if_neg d2] at h
            by_cases d3 : x = '/'
            · rw [if_pos d3] at h
              obtain ⟨n, ws, hk, _⟩ := parseETag_sound _ _ _ h
              cases hk
            · rw [if_neg d3] at h
              obtain ⟨tg, e, hk, _⟩ := parseTag_sound _ _ _ h
              cases e <;> simp at hk
    · rw [if_neg c1] at h
      by_cases c2 : c = '&'
      · rw [if_pos c2] at h
        cases b1 : parseRef t with
        | error e => simp [b1] at h
        | ok pr =>
          obtain ⟨p, r1⟩ := pr
          cases p <;> simp [b1] at h
      · rw [if_neg c2] at h
        simp at h

theorem nextTok_soundE (s : Str) (tk : Tok) (r : Str) (h : nextTok s = .ok (tk, r)) (hk : okTokE tk = true) :
    s = renderTok tk ++ r ∧ lexTokE tk = true := by
  cases tk with
  | doctype d =>
    obtain ⟨body, hs, hp⟩ := nextTok_doctype s d r h
    have := parseDoctype_sound body d r hp hk
    refine ⟨?_, this.2⟩
    rw [hs, this.1]; simp [renderTok, renderDoctype_eq, List.append_assoc]
  | leaf l => have := nextTok_sound s _ r h (by intro d hd; cases hd); exact ⟨this.1, lexTokE_of_lexTok this.2⟩
  | stag t => have := nextTok_sound s _ r h (by intro d hd; cases hd); exact ⟨this.1, lexTokE_of_lexTok this.2⟩
  | etag n w => have := nextTok_sound s _ r h (by intro d hd; cases hd); exact ⟨this.1, lexTokE_of_lexTok this.2⟩
  | empty t => have := nextTok_sound s _ r h (by intro d hd; cases hd); exact ⟨this.1, lexTokE_of_lexTok this.2⟩

theorem tokenize_renderE : ∀ (ts : List Tok) (fuel : Nat), (∀ t ∈ ts, lexTokE t = true) → ts.length < fuel →
    tokenize fuel (renderToks ts) = .ok ts
  | [], fuel, _, hf => by
    cases fuel with
    | zero => simp at hf
    | succ f => simp [renderToks, tokenize]
  | tk :: ts, fuel, hl, hf => by
    cases fuel with
    | zero => simp at hf
    | succ f =>
      have ih := tokenize_renderE ts f (fun x hx => hl x (List.mem_cons_of_mem _ hx)) (by simpa using hf)
      have p := nextTok_renderE tk (renderToks ts) (hl tk (List.mem_cons_self ..))
      obtain ⟨c, tl, hc⟩ := renderTok_ne_nil tk
      simp only [renderToks]
      rw [hc] at p ⊢
      simp only [List.cons_append] at p ⊢
      simp only [tokenize, p, ih]

theorem tokenize_soundE : ∀ (fuel : Nat) (s : Str) (ts : List Tok), tokenize fuel s = .ok ts →
    (∀ t ∈ ts, okTokE t = true) → s = renderToks ts ∧ (∀ t ∈ ts, lexTokE t = true)
  | 0, s, ts, h, _ => by simp [tokenize] at h
  | f + 1, [], ts, h, _ => by
    simp only [tokenize, Except.ok.injEq] at h
    subst h; simp [renderToks]
  | f + 1, c :: t, ts, h, hnd => by
    simp only [tokenize] at h
    cases h1 : nextTok (c :: t) with
    | error e => simp [h1] at h
    | ok tr =>
      obtain ⟨tk, r⟩ := tr
      simp only [h1] at h
      cases h2 : tokenize f r with
      | error e => simp [h2] at h
      | ok ts' =>
        simp only [h2, Except.ok.injEq] at h
        subst h
        have s1 := nextTok_soundE _ _ _ h1 (hnd tk (List.mem_cons_self ..))
        have ih := tokenize_soundE f r ts' h2 (fun x hx => hnd x (List.mem_cons_of_mem _ hx))
        refine ⟨by rw [s1.1, ih.1]; rfl, ?_⟩
        intro x hx
        rcases List.mem_cons.mp hx with rfl | hx
        · exact s1.2
        · exact ih.2 x hx

/-! ### the document level -/

/-- the document is in the proved fragment: no DOCTYPE, or one whose internal subset declares internal general
    entities only (plus comments, PIs, white space) -/
def entOnlyDoc (d : Doc) : Bool :=
  match d.doctype with
  | none => true
  | some (dt, _) => entOnly dt

/-- the Spec's `lexDoctype` (defined by re-reading the rendering) coincides with the structural predicate on the fragment -/
theorem lexDoctype_iff (dt : Doctype) (he : entOnly dt = true) : lexDoctype dt = true ↔ lexDoctypeE dt = true := by
  have hs : stripPrefix ['<', '!', 'D', 'O', 'C', 'T', 'Y', 'P', 'E'] (renderDoctype dt) = some (doctypeBody dt) := by
    rw [renderDoctype_eq]; exact stripPrefix_append _ _
  constructor
  · intro h
    simp only [lexDoctype, hs] at h
    cases hp : parseDoctype (doctypeBody dt) with
    | error e => simp [hp] at h
    | ok res =>
      obtain ⟨d', r⟩ := res
      cases r with
      | cons _ _ => simp [hp] at h
      | nil =>
        simp only [hp, beq_iff_eq] at h
        subst h
        exact (parseDoctype_sound _ _ _ hp he).2
  · intro h
    have := parseDoctype_render dt [] h
    rw [List.append_nil] at this
    simp [lexDoctype, hs, this]

theorem doc_toks_dt (d : Doc) (dt : Doctype) (m : List Leaf) (h : d.doctype = some (dt, m)) :
    d.toks = d.pre.map .leaf ++ (.doctype dt :: (m.map .leaf ++ (d.root.toks ++ d.post.map .leaf))) := by
  simp [Doc.toks, h, List.append_assoc]

theorem lexDoc_toksE (d : Doc) :
    (∀ t ∈ d.toks, lexTokE t = true) ↔
      ((d.pre.all lexLeaf) = true ∧
       (match d.doctype with | none => True | some (dt, m) => lexDoctypeE dt = true ∧ (m.all lexLeaf) = true) ∧
       lexNode d.root = true ∧ (d.post.all lexLeaf) = true) := by
  have hroot : (∀ t ∈ d.root.toks, lexTokE t = true) ↔ lexNode d.root = true := by
    rw [lexNode_toks]
    constructor
    · intro h t ht
      have := h t ht
      have nd := node_toks_noDoctype d.root t ht
      cases t <;> simp_all [lexTokE, noDoctypeTok]
    · intro h t ht; exact lexTokE_of_lexTok (h t ht)
  have hleaf : ∀ ls : List Leaf, (∀ t ∈ ls.map Tok.leaf, lexTokE t = true) ↔ (ls.all lexLeaf) = true := by
    intro ls
    simp only [List.mem_map, List.all_eq_true]
    constructor
    · intro h l hl; exact h (.leaf l) ⟨l, hl, rfl⟩
    · rintro h t ⟨l, hl, rfl⟩; exact h l hl
  cases hd : d.doctype with
  | none =>
    rw [doc_toks_nodt d hd]
    simp only [List.mem_append, or_imp, forall_and, hleaf, hroot]
    simp [and_assoc]
  | some p =>
    obtain ⟨dt, m⟩ := p
    rw [doc_toks_dt d dt m hd]
    simp only [List.mem_append, List.mem_cons, or_imp, forall_and, forall_eq, hleaf, hroot]
    simp [lexTokE, and_assoc]

theorem doc_toks_okE (d : Doc) (he : entOnlyDoc d = true) : ∀ t ∈ d.toks, okTokE t = true := by
  cases hd : d.doctype with
  | none =>
    intro t ht
    have := doc_toks_noDoctype d hd t ht
    cases t <;> simp_all [okTokE, noDoctypeTok]
  | some p =>
    obtain ⟨dt, m⟩ := p
    rw [doc_toks_dt d dt m hd]
    intro t ht
    simp only [List.mem_append, List.mem_cons, List.mem_map] at ht
    rcases ht with ⟨l, _, rfl⟩ | rfl | ⟨l, _, rfl⟩ | ht | ⟨l, _, rfl⟩
    · rfl
    · simpa [okTokE, entOnlyDoc, hd] using he
    · rfl
    · have := node_toks_noDoctype d.root t ht
      cases t <;> simp_all [okTokE, noDoctypeTok]
    · rfl

theorem buildDoc_renderE (d : Doc) (hroot : d.root.isElement = true) : buildDoc d.decl d.toks = .ok d := by
  cases hd : d.doctype with
  | none => exact buildDoc_render d hd hroot
  | some p =>
    obtain ⟨dt, m⟩ := p
    obtain ⟨decl, pre, doctype, root, post⟩ := d
    simp only at hd hroot
    subst hd
    have e := doc_toks_dt ⟨decl, pre, some (dt, m), root, post⟩ dt m rfl
    simp only at e
    have h1 := takeLeaves_append pre (.doctype dt :: (m.map .leaf ++ (root.toks ++ post.map .leaf))) trivial
    have h2 := takeLeaves_append m (root.toks ++ post.map .leaf) (root_toks_notLeafHead root _ hroot)
    have hr := buildRoot_render decl pre (some (dt, m)) root post hroot
    rw [e]
    simp only [buildDoc, h1, h2, hr]

/-- lexical validity of a document of the fragment, unfolded with the structural DOCTYPE predicate -/
theorem lexDoc_E (d : Doc) (he : entOnlyDoc d = true) :
    lexDoc d = true ↔
      ((match d.decl with | some x => lexXmlDecl x = true | none => startsWithDecl (renderToks d.toks) = none) ∧
       (d.pre.all lexLeaf) = true ∧
       (match d.doctype with | none => True | some (dt, m) => lexDoctypeE dt = true ∧ (m.all lexLeaf) = true) ∧
       d.root.isElement = true ∧ lexNode d.root = true ∧ (d.post.all lexLeaf) = true) := by
  obtain ⟨decl, pre, doctype, root, post⟩ := d
  cases doctype with
  | none =>
    cases decl with
    | none => simp [lexDoc, Doc.toks, Option.isNone_iff_eq_none, and_assoc]
    | some x => simp [lexDoc, and_assoc]
  | some p =>
    obtain ⟨dt, m⟩ := p
    have hdt : entOnly dt = true := by simpa [entOnlyDoc] using he
    have := lexDoctype_iff dt hdt
    cases decl with
    | none => simp [lexDoc, Doc.toks, Option.isNone_iff_eq_none, and_assoc, this]
    | some x => simp [lexDoc, and_assoc, this]

/-- accept side of the syntactic recogniser on the whole proved fragment -/
theorem parseSyn_renderE (d : Doc) (hl : lexDoc d = true) (he : entOnlyDoc d = true) : parseSyn (render d) = .ok d := by
  obtain ⟨h0, h1, hdt, h2, h3, h4⟩ := (lexDoc_E d he).mp hl
  have htoks : ∀ t ∈ d.toks, lexTokE t = true := (lexDoc_toksE d).mpr ⟨h1, hdt, h3, h4⟩
  have ht := tokenize_renderE d.toks ((renderToks d.toks).length + 1) htoks
    (by have := renderToks_length d.toks; omega)
  have hb := buildDoc_renderE d h2
  cases hdecl : d.decl with
  | none =>
    rw [hdecl] at h0 hb
    simp only [parseSyn, render, hdecl, List.nil_append, h0, ht, hb]
  | some x =>
    rw [hdecl] at h0 hb
    have e := renderXmlDecl_eq x (renderToks d.toks)
    have hsw := startsWithDecl_render _ (versionPart_head x h0 (encPart x.encoding ++ declEnd x.standalone x.ws (renderToks d.toks)))
    have hp := parseXmlDecl_render x (renderToks d.toks) h0
    simp only [parseSyn, render, hdecl, e, hsw, hp, ht, hb]

/-- reject side of the syntactic recogniser on the whole proved fragment -/
theorem parseSyn_soundE (s : Str) (d : Doc) (h : parseSyn s = .ok d) (he : entOnlyDoc d = true) :
    lexDoc d = true ∧ render d = s := by
  have hok := doc_toks_okE d he
  cases hs : startsWithDecl s with
  | none =>
    simp only [parseSyn, hs] at h
    cases h1 : tokenize (s.length + 1) s with
    | error e => simp [h1] at h
    | ok ts =>
      simp only [h1] at h
      obtain ⟨b1, b2, b3⟩ := buildDoc_sound none ts d h
      rw [← b2] at h1
      obtain ⟨t1, t2⟩ := tokenize_soundE _ _ _ h1 hok
      have hr : render d = s := by simp [render, b1, t1]
      refine ⟨(lexDoc_E d he).mpr ?_, hr⟩
      obtain ⟨l1, l2, l3, l4⟩ := (lexDoc_toksE d).mp t2
      refine ⟨?_, l1, l2, b3, l3, l4⟩
      rw [b1]; simp only; rw [← t1]; exact hs
  | some r =>
    simp only [parseSyn, hs] at h
    obtain ⟨e0, hhead⟩ := startsWithDecl_sound s r hs
    cases h0 : parseXmlDecl r with
    | error e => simp [h0] at h
    | ok xr =>
      obtain ⟨x, r'⟩ := xr
      simp only [h0] at h
      cases h1 : tokenize (r'.length + 1) r' with
      | error e => simp [h1] at h
      | ok ts =>
        simp only [h1] at h
        obtain ⟨b1, b2, b3⟩ := buildDoc_sound (some x) ts d h
        rw [← b2] at h1
        obtain ⟨t1, t2⟩ := tokenize_soundE _ _ _ h1 hok
        obtain ⟨p1, p2⟩ := parseXmlDecl_sound r x r' h0 hhead
        have hr : render d = s := by
          simp only [render, b1]
          rw [renderXmlDecl_eq, e0, p1, t1]
        refine ⟨(lexDoc_E d he).mpr ?_, hr⟩
        obtain ⟨l1, l2, l3, l4⟩ := (lexDoc_toksE d).mp t2
        refine ⟨?_, l1, l2, b3, l3, l4⟩
        rw [b1]; exact p2

end XV.Lemmas.Xml
