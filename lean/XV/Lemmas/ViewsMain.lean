/-
C14 — the proofs behind XV.Props.C14 (definitions of the invariants, helper lemmas and the property theorems themselves; the
Props file restates the property theorems).
Model: XV.Model.Views (code-shaped DOMNodeIteratorImpl, DOMTreeWalkerImpl, DOMDeepNodeListImpl, DOMRangeImpl fix-ups and
comparison, declarative range content operations, `vstep`: C13 operations as sequences of notifications to the views).
Spec:  XV.Spec.Views (document order, iterator positions and the robustness rule of DOM Traversal 1.1.1.2, the logical view
of a TreeWalker, boundary-point rules of DOM Range 2.12, validity and order of boundary points, selected text).
All statements quantify over ALL well-formed stores (XV.Spec.Dom.WF, preserved by every C13 operation: XV.Props.C13.wf_step),
all view states and operands; the interleaving theorems over operation lists of ANY length.
-/
import XV.Lemmas.Views
import XV.Lemmas.ViewsOrder
import XV.Lemmas.ViewsContent
import XV.Props.C13
namespace XV.Lemmas.ViewsMain
open XV.Model.Dom XV.Spec.Dom XV.Model.Views XV.Spec.Views XV.Lemmas.Dom XV.Lemmas.Views XV.Lemmas.ViewsOrder XV.Lemmas.ViewsContent

/-- the position of DOM Traversal 1.1.1 that an iterator state stands for -/
def posOf (it : Iter) : Pos := ⟨it.cur, it.fwd⟩

/-- invariant of an iterator: its reference node lies in the subtree of its root -/
def IterOK (s : Store) (it : Iter) : Prop := ∀ c, it.cur = some c → c ∈ docOrder s it.root

-- ------------------------------------------------------------------ iterator_spec

/-- nextNode() of the code = `specNext` on the document order of the root: the result is the first accepted node ahead of
the position, which becomes the reference node with the iterator after it. -/
theorem iterator_next_spec (s : Store) (h : WF s) (it : Iter) (hok : IterOK s it) (hd : it.detached = false) :
    ∃ it' r, it.nextNode s = (it', .node r) ∧
      (posOf it', r) = specNext (iterAccepts s it.w it.filt) (docOrder s it.root) (posOf it) ∧
      it'.root = it.root ∧ it'.w = it.w ∧ it'.filt = it.filt ∧ it'.detached = false := by
  have hlen := docOrder_length_le' h it.root
  have hnd := docOrder_nodup h it.root
  unfold Iter.nextNode
  rw [hd]
  simp only [Bool.false_eq_true, if_false]
  cases hc : it.cur with
  | none =>
    -- before the first node: the candidates are the whole list
    obtain ⟨rest, hL⟩ : ∃ rest, docOrder s it.root = it.root :: rest := ⟨_, docOrder_unfold h it.root⟩
    unfold nextLoop
    simp only [Option.isSome_none, Bool.and_false, Bool.false_eq_true, if_false, nextRaw]
    by_cases ha : iterAccepts s it.w it.filt it.root = true
    · rw [if_pos ha]
      refine ⟨_, _, rfl, ?_, rfl, rfl, rfl, hd⟩
      simp [posOf, specNext, Pos.ahead, hc, hL, List.find?_cons, ha]
    · rw [if_neg ha]
      have hL' : docOrder s it.root = [] ++ it.root :: rest := hL
      rw [nextLoop_spec h it rest [] it.root hL' (s.size + 1) (by rw [hL] at hlen; simp at hlen; omega)]
      unfold nextResult
      cases hf : rest.find? (iterAccepts s it.w it.filt) with
      | none =>
        refine ⟨_, _, rfl, ?_, rfl, rfl, rfl, hd⟩
        simp [posOf, specNext, Pos.ahead, hc, hL, List.find?_cons, ha, hf]
      | some z =>
        refine ⟨_, _, rfl, ?_, rfl, rfl, rfl, hd⟩
        simp [posOf, specNext, Pos.ahead, hc, hL, List.find?_cons, ha, hf]
  | some c =>
    have hcm := hok c hc
    obtain ⟨pre, rest, hL⟩ := List.append_of_mem hcm
    rw [hL] at hnd
    have hcp : c ∉ pre := fun hm => (List.nodup_append.mp hnd).2.2 c hm c (List.mem_cons_self ..) rfl
    have hrl : rest.length < s.size + 1 := by rw [hL] at hlen; simp at hlen; omega
    cases hf : it.fwd with
    | true =>
      rw [nextLoop_spec h it rest pre c hL (s.size + 2) (by omega)]
      unfold nextResult
      have hahead : (posOf it).ahead (docOrder s it.root) = rest := by
        simp only [posOf, Pos.ahead, hc, hf, if_true]
        rw [hL, dropWhile_ne_split pre rest c hcp]; rfl
      cases hfind : rest.find? (iterAccepts s it.w it.filt) with
      | none =>
        refine ⟨_, _, rfl, ?_, rfl, rfl, rfl, hd⟩
        simp only [specNext, hahead, hfind]
        simp [posOf, hc]
      | some z =>
        refine ⟨_, _, rfl, ?_, rfl, rfl, rfl, hd⟩
        simp only [specNext, hahead, hfind]
        simp [posOf]
    | false =>
      have hahead : (posOf it).ahead (docOrder s it.root) = c :: rest := by
        simp only [posOf, Pos.ahead, hc, hf]
        rw [hL, dropWhile_ne_split pre rest c hcp]; rfl
      unfold nextLoop
      simp only [Bool.not_false, Option.isSome_some, Bool.and_self, if_true, hc]
      by_cases ha : iterAccepts s it.w it.filt c = true
      · rw [if_pos ha]
        refine ⟨_, _, rfl, ?_, rfl, rfl, rfl, hd⟩
        simp only [specNext, hahead, List.find?_cons, ha]
        simp [posOf]
      · rw [if_neg ha]
        rw [nextLoop_spec h it rest pre c hL (s.size + 1) hrl]
        unfold nextResult
        cases hfind : rest.find? (iterAccepts s it.w it.filt) with
        | none =>
          refine ⟨_, _, rfl, ?_, rfl, rfl, rfl, hd⟩
          simp only [specNext, hahead, List.find?_cons, ha, hfind]
          simp [posOf, hc]
        | some z =>
          refine ⟨_, _, rfl, ?_, rfl, rfl, rfl, hd⟩
          simp only [specNext, hahead, List.find?_cons, ha, hfind]
          simp [posOf]

/-- previousNode() of the code = `specPrev`. -/
theorem iterator_prev_spec (s : Store) (h : WF s) (it : Iter) (hok : IterOK s it) (hd : it.detached = false) :
    ∃ it' r, it.previousNode s = (it', .node r) ∧
      (posOf it', r) = specPrev (iterAccepts s it.w it.filt) (docOrder s it.root) (posOf it) ∧
      it'.root = it.root ∧ it'.w = it.w ∧ it'.filt = it.filt ∧ it'.detached = false := by
  have hlen := docOrder_length_le' h it.root
  have hnd := docOrder_nodup h it.root
  unfold Iter.previousNode
  rw [hd]
  simp only [Bool.false_eq_true, if_false]
  cases hc : it.cur with
  | none =>
    refine ⟨it, none, rfl, ?_, rfl, rfl, rfl, hd⟩
    simp [posOf, specPrev, hc]
  | some c =>
    simp only
    have hcm := hok c hc
    obtain ⟨pre, rest, hL⟩ := List.append_of_mem hcm
    rw [hL] at hnd
    have hcp : c ∉ pre := fun hm => (List.nodup_append.mp hnd).2.2 c hm c (List.mem_cons_self ..) rfl
    have hL' : docOrder s it.root = pre.reverse.reverse ++ c :: rest := by rw [List.reverse_reverse]; exact hL
    have hpl : pre.reverse.length < s.size + 1 := by rw [hL] at hlen; simp at hlen ⊢; omega
    cases hf : it.fwd with
    | true =>
      have hbehind : (posOf it).behind (docOrder s it.root) = c :: pre.reverse := by
        simp only [posOf, Pos.behind, hc, hf, if_true]
        rw [hL, takeWhile_ne_split pre rest c hcp]; simp
      unfold prevLoop
      simp only [if_true, hc]
      by_cases ha : iterAccepts s it.w it.filt c = true
      · rw [if_pos ha]
        refine ⟨_, _, rfl, ?_, rfl, rfl, rfl, hd⟩
        simp only [specPrev, posOf, hc, hbehind]
        have : (posOf it).behind (docOrder s it.root) = c :: pre.reverse := hbehind
        simp only [posOf, hc] at this
        rw [this]
        simp [List.find?_cons, ha]
      · rw [if_neg ha]
        rw [prevLoop_spec h it pre.reverse rest c hL' (s.size + 1) hpl]
        unfold prevResult
        have : (posOf it).behind (docOrder s it.root) = c :: pre.reverse := hbehind
        simp only [posOf, hc] at this
        cases hfind : pre.reverse.find? (iterAccepts s it.w it.filt) with
        | none =>
          refine ⟨_, _, rfl, ?_, rfl, rfl, rfl, hd⟩
          simp only [specPrev, posOf, hc]
          rw [this]
          simp [List.find?_cons, ha, hfind]
        | some z =>
          refine ⟨_, _, rfl, ?_, rfl, rfl, rfl, hd⟩
          simp only [specPrev, posOf, hc]
          rw [this]
          simp [List.find?_cons, ha, hfind]
    | false =>
      have hbehind : (posOf it).behind (docOrder s it.root) = pre.reverse := by
        simp only [posOf, Pos.behind, hc, hf]
        rw [hL, takeWhile_ne_split pre rest c hcp]; rfl
      have : (posOf it).behind (docOrder s it.root) = pre.reverse := hbehind
      simp only [posOf, hc] at this
      rw [prevLoop_spec h it pre.reverse rest c hL' (s.size + 2) (by omega)]
      unfold prevResult
      cases hfind : pre.reverse.find? (iterAccepts s it.w it.filt) with
      | none =>
        refine ⟨_, _, rfl, ?_, rfl, rfl, rfl, hd⟩
        simp only [specPrev, posOf, hc]
        rw [this]
        simp [hfind, hf]
      | some z =>
        refine ⟨_, _, rfl, ?_, rfl, rfl, rfl, hd⟩
        simp only [specPrev, posOf, hc]
        rw [this]
        simp [hfind]

/-- removeNode changes the reference node and the direction only -/
theorem removeNode_fields (s : Store) (it : Iter) (node : NodeId) :
    (it.removeNode s node).root = it.root ∧ (it.removeNode s node).w = it.w ∧
    (it.removeNode s node).filt = it.filt ∧ (it.removeNode s node).detached = it.detached := by
  unfold Iter.removeNode
  repeat' split
  all_goals exact ⟨rfl, rfl, rfl, rfl⟩

/-- removeNode(node) of the (repaired) code = the robustness rule of DOM Traversal 1.1.1.2 for the removal of the subtree of
`node`, a proper descendant of the iterator's root: the block `docOrder node` leaves the list `docOrder root`. -/
theorem iterator_remove_spec (s : Store) (h : WF s) (it : Iter) (hok : IterOK s it) (hd : it.detached = false)
    (node : NodeId) (hn : node ∈ (docOrder s it.root).tail) :
    posOf (it.removeNode s node) = specRemove (docOrder s it.root) (docOrder s node) (posOf it) := by
  have hn' := (mem_tail_docOrder h it.root node).mp hn
  have hnL : node ∈ docOrder s it.root := anc_mem_docOrder h hn'.2
  have hblk : docOrder s node = node :: (kids s node).flatMap (docOrder s) := docOrder_unfold h node
  unfold Iter.removeNode
  rw [hd]
  simp only [Bool.false_eq_true, if_false]
  unfold matchNodeOrParent
  cases hc : it.cur with
  | none =>
    simp [posOf, specRemove, hc]
  | some c =>
    simp only
    have hcm := hok c hc
    have hca := mem_docOrder_anc h it.root c hcm
    have hms := matchChain_spec h (node := node) hca
    by_cases hanc : AncOrSelf s node c
    · rw [hms.1 ⟨hn'.1, hn'.2, hanc⟩]
      simp only
      have hcb : (docOrder s node).contains c = true := by
        rw [contains_iff]; exact anc_mem_docOrder h hanc
      cases hf : it.fwd with
      | true =>
        simp only [if_true]
        simp only [posOf, specRemove, hc, hf]
        rw [hblk] at hcb ⊢
        simp only [hcb, if_true]
        rw [prevRaw_spec h hnL]
      | false =>
        simp only [Bool.false_eq_true, if_false]
        rw [nextRaw_false_spec h hnL]
        cases hab : (afterBlock (docOrder s it.root) (docOrder s node)).head? with
        | none =>
          simp only [posOf, specRemove, hc, hf]
          rw [hblk] at hcb hab ⊢
          simp only [hcb, if_true, Bool.false_eq_true, if_false, hab]
          rw [prevRaw_spec h hnL]
        | some y =>
          simp only [posOf, specRemove, hc, hf]
          rw [hblk] at hcb hab ⊢
          simp only [hcb, if_true, Bool.false_eq_true, if_false, hab]
    · rw [hms.2 (fun hh => hanc hh.2.2)]
      simp only
      have hcb : (docOrder s node).contains c = false := by
        cases hb : (docOrder s node).contains c with
        | false => rfl
        | true => exact absurd (mem_docOrder_anc h node c ((contains_iff _ _).mp hb)) hanc
      simp only [posOf, specRemove, hc]
      rw [hblk]
      simp only
      rw [← hblk, if_neg (by rw [hcb]; exact Bool.false_ne_true)]

/-- … and a removal anywhere else (the root itself, one of its ancestors, another tree) leaves the iterator alone. -/
theorem iterator_remove_outside (s : Store) (h : WF s) (it : Iter) (hok : IterOK s it) (node : NodeId)
    (hn : node ∉ (docOrder s it.root).tail) : it.removeNode s node = it := by
  unfold Iter.removeNode
  cases it.detached with
  | true => rfl
  | false =>
    simp only [Bool.false_eq_true, if_false]
    unfold matchNodeOrParent
    cases hc : it.cur with
    | none => rfl
    | some c =>
      simp only
      have hca := mem_docOrder_anc h it.root c (hok c hc)
      rw [(matchChain_spec h (node := node) hca).2
        (fun hh => hn ((mem_tail_docOrder h it.root node).mpr ⟨hh.1, hh.2.1⟩))]

/-- An iterator never returns a node that is not in its root's subtree, nor one its filter does not accept, and its
reference node stays in the root's subtree. -/
theorem iterator_in_subtree (s : Store) (h : WF s) (it : Iter) (hok : IterOK s it) (hd : it.detached = false) :
    (∀ it' x, it.nextNode s = (it', .node (some x)) →
        x ∈ docOrder s it.root ∧ iterAccepts s it.w it.filt x = true) ∧
    (∀ it' x, it.previousNode s = (it', .node (some x)) →
        x ∈ docOrder s it.root ∧ iterAccepts s it.w it.filt x = true) ∧
    IterOK s (it.nextNode s).1 ∧ IterOK s (it.previousNode s).1 := by
  obtain ⟨itn, rn, hnx, hsn, hrn, _⟩ := iterator_next_spec s h it hok hd
  obtain ⟨itp, rp, hpv, hsp, hrp, _⟩ := iterator_prev_spec s h it hok hd
  have ahead_sub : ∀ x, x ∈ (posOf it).ahead (docOrder s it.root) → x ∈ docOrder s it.root := by
    intro x hx
    unfold Pos.ahead at hx
    cases hr : (posOf it).ref with
    | none => rw [hr] at hx; exact hx
    | some c =>
      rw [hr] at hx
      simp only at hx
      split at hx
      · exact (List.dropWhile_sublist _).subset ((List.drop_sublist _ _).subset hx)
      · exact (List.dropWhile_sublist _).subset hx
  have behind_sub : ∀ x, x ∈ (posOf it).behind (docOrder s it.root) → x ∈ docOrder s it.root := by
    intro x hx
    unfold Pos.behind at hx
    cases hr : (posOf it).ref with
    | none => rw [hr] at hx; cases hx
    | some c =>
      rw [hr] at hx
      simp only at hx
      have hcm : c ∈ docOrder s it.root := hok c (by simpa [posOf] using hr)
      split at hx
      · rw [List.mem_reverse, List.mem_append] at hx
        rcases hx with hx | hx
        · exact (List.takeWhile_sublist _).subset hx
        · rw [List.mem_singleton] at hx; exact hx ▸ hcm
      · rw [List.mem_reverse] at hx
        exact (List.takeWhile_sublist _).subset hx
  have nres : ∀ x, rn = some x → x ∈ docOrder s it.root ∧ iterAccepts s it.w it.filt x = true := by
    intro x hx
    subst hx
    unfold specNext at hsn
    cases hf : ((posOf it).ahead (docOrder s it.root)).find? (iterAccepts s it.w it.filt) with
    | none => rw [hf] at hsn; simp at hsn
    | some z =>
      rw [hf] at hsn
      simp only [Prod.mk.injEq] at hsn
      have : x = z := by have := hsn.2; simpa using this
      subst this
      exact ⟨ahead_sub _ (List.mem_of_find?_eq_some hf), List.find?_some hf⟩
  have pres : ∀ x, rp = some x → x ∈ docOrder s it.root ∧ iterAccepts s it.w it.filt x = true := by
    intro x hx
    subst hx
    unfold specPrev at hsp
    cases hr : (posOf it).ref with
    | none => rw [hr] at hsp; simp at hsp
    | some c =>
      rw [hr] at hsp
      simp only at hsp
      cases hf : ((posOf it).behind (docOrder s it.root)).find? (iterAccepts s it.w it.filt) with
      | none => rw [hf] at hsp; simp at hsp
      | some z =>
        rw [hf] at hsp
        simp only [Prod.mk.injEq] at hsp
        have : x = z := by have := hsp.2; simpa using this
        subst this
        exact ⟨behind_sub _ (List.mem_of_find?_eq_some hf), List.find?_some hf⟩
  refine ⟨?_, ?_, ?_, ?_⟩
  · intro it' x he
    rw [hnx] at he
    simp only [Prod.mk.injEq, IterRes.node.injEq] at he
    exact nres x he.2
  · intro it' x he
    rw [hpv] at he
    simp only [Prod.mk.injEq, IterRes.node.injEq] at he
    exact pres x he.2
  · rw [hnx]
    intro c hc
    simp only at hc
    rw [hrn]
    -- the new reference node is the returned node, or the old one
    unfold specNext at hsn
    cases hf : ((posOf it).ahead (docOrder s it.root)).find? (iterAccepts s it.w it.filt) with
    | none =>
      rw [hf] at hsn
      simp only [Prod.mk.injEq] at hsn
      have : itn.cur = it.cur := by have := congrArg Pos.ref hsn.1; simpa [posOf] using this
      exact hok c (this ▸ hc)
    | some z =>
      rw [hf] at hsn
      simp only [Prod.mk.injEq] at hsn
      have : itn.cur = some z := by have := congrArg Pos.ref hsn.1; simpa [posOf] using this
      rw [this] at hc
      cases hc
      exact ahead_sub _ (List.mem_of_find?_eq_some hf)
  · rw [hpv]
    intro c hc
    simp only at hc
    rw [hrp]
    unfold specPrev at hsp
    cases hr : (posOf it).ref with
    | none =>
      rw [hr] at hsp
      simp only [Prod.mk.injEq] at hsp
      have : itp.cur = it.cur := by have := congrArg Pos.ref hsp.1; simpa [posOf] using this
      exact hok c (this ▸ hc)
    | some c0 =>
      rw [hr] at hsp
      simp only at hsp
      cases hf : ((posOf it).behind (docOrder s it.root)).find? (iterAccepts s it.w it.filt) with
      | none =>
        rw [hf] at hsp
        simp only [Prod.mk.injEq] at hsp
        have e : itp.cur = some c0 := by have := congrArg Pos.ref hsp.1; simpa [posOf] using this
        rw [e] at hc
        cases hc
        exact hok c hr
      | some z =>
        rw [hf] at hsp
        simp only [Prod.mk.injEq] at hsp
        have : itp.cur = some z := by have := congrArg Pos.ref hsp.1; simpa [posOf] using this
        rw [this] at hc
        cases hc
        exact behind_sub _ (List.mem_of_find?_eq_some hf)

/-- After the fix-up for the removal of the subtree of `node` the reference node is still in the root's subtree and no
longer inside the subtree that goes away: the iterator never returns (or stands on) a removed node. -/
theorem iterator_remove_leaves_subtree (s : Store) (h : WF s) (it : Iter) (hok : IterOK s it) (hd : it.detached = false)
    (node : NodeId) (hn : node ∈ (docOrder s it.root).tail) :
    ∀ c, (it.removeNode s node).cur = some c → c ∈ docOrder s it.root ∧ c ∉ docOrder s node := by
  have hn' := (mem_tail_docOrder h it.root node).mp hn
  have hnL : node ∈ docOrder s it.root := anc_mem_docOrder h hn'.2
  have htg := remove_targets h hnL
  have hblk : docOrder s node = node :: (kids s node).flatMap (docOrder s) := docOrder_unfold h node
  have hspec := iterator_remove_spec s h it hok hd node hn
  intro c hc
  have href : (posOf (it.removeNode s node)).ref = some c := hc
  rw [hspec] at href
  unfold specRemove at href
  cases hcur : (posOf it).ref with
  | none => simp [hcur] at href
  | some c0 =>
    rw [hcur, hblk] at href
    simp only at href
    rw [← hblk] at href
    have hc0 : c0 ∈ docOrder s it.root := hok c0 hcur
    by_cases hcb : (docOrder s node).contains c0 = true
    · rw [if_pos hcb] at href
      by_cases hf : (posOf it).after = true
      · rw [if_pos hf] at href
        exact htg.1 c href
      · rw [if_neg hf] at href
        cases hab : (afterBlock (docOrder s it.root) (docOrder s node)).head? with
        | none => rw [hab] at href; exact htg.1 c href
        | some y =>
          rw [hab] at href
          simp only [Option.some.injEq] at href
          subst href
          exact htg.2 y hab
    · rw [if_neg hcb, hcur] at href
      cases href
      exact ⟨hc0, fun hm => hcb ((contains_iff _ _).mpr hm)⟩

-- ------------------------------------------------------------------ iterator_total

/-- removeNode is defined in every state (it is a total function of the repaired code), and it differs from the current
C++ exactly in the state in which the C++ dereferences a null pointer: an iterator that has not been stepped yet
(DESIGN §5 F5).  In that state nothing is to be done: the position "before the first node" survives every removal. -/
theorem iterator_total (s : Store) (it : Iter) (node : NodeId) :
    (it.cur.isSome = true → it.detached = false → it.removeNodeAsIs s node = some (it.removeNode s node)) ∧
    (it.cur = none → it.removeNodeAsIs s node = none) ∧
    (it.cur = none → it.removeNode s node = it) := by
  refine ⟨?_, ?_, ?_⟩
  · intro hc hd
    cases hcur : it.cur with
    | none => rw [hcur] at hc; cases hc
    | some c =>
      unfold Iter.removeNodeAsIs Iter.removeNode matchNodeOrParentAsIs matchNodeOrParent
      rw [hcur, hd]
      simp only [Bool.false_eq_true, if_false]
      cases matchChain it.root node (c :: ancestors s c) with
      | none => rfl
      | some d =>
        simp only
        cases it.fwd with
        | true => rfl
        | false =>
          simp only [Bool.false_eq_true, if_false]
          cases nextRaw s it.root (some d) false <;> rfl
  · intro hcur
    unfold Iter.removeNodeAsIs matchNodeOrParentAsIs
    rw [hcur]
    simp
  · intro hcur
    unfold Iter.removeNode matchNodeOrParent
    rw [hcur]
    cases it.detached <;> rfl

-- ------------------------------------------------------------------ deeplist_cache_transparent

/-- the matching elements below the root, with the candidate test of the code (`current != fRootNode && …`) -/
def matchList (s : Store) (dl : DeepList) : List NodeId := (docOrder s dl.root).tail.filter (deepP s dl)

/-- … which is getElementsByTagName of the Spec: the root is not among its own descendants -/
theorem matchList_eq (s : Store) (h : WF s) (dl : DeepList) : matchList s dl = matching s dl.tag dl.root := by
  unfold matchList matching
  apply List.filter_congr
  intro x hx
  have := ((mem_tail_docOrder h dl.root x).mp hx).1
  simp [deepP, this]

/-- the matches that follow the cached node in document order -/
def matchesAfter (s : Store) (dl : DeepList) : Option NodeId → List NodeId
  | some c => (afterIn (docOrder s dl.root) c).filter (deepP s dl)
  | none => []

/-- the cache (fCurrentNode, fCurrentIndexPlus1) agrees with the tree: the cached node is the match number `idx` (or the
root / nothing before the first match) -/
def Consistent (s : Store) (dl : DeepList) : Prop :=
  ∃ done, matchList s dl = done ++ matchesAfter s dl dl.cur ∧ dl.idx = done.length ∧
    (∀ c, dl.cur = some c → c ∈ docOrder s dl.root) ∧ (done ≠ [] → done.getLast? = dl.cur)

/-- invariant of a tag-name list against the change counter `chg` of its document: the stamp is a past value of the counter,
and if it is the current value the cache agrees with the tree -/
def CacheOK (s : Store) (chg : Nat) (dl : DeepList) : Prop :=
  dl.changes ≤ chg ∧ (dl.changes = chg → Consistent s dl)

theorem take_getLast {α : Type} (R : List α) (k : Nat) (m : α) (hm : R[k]? = some m) :
    (R.take (k + 1)).getLast? = some m := by
  rw [List.getLast?_eq_getElem?]
  have hk : k < R.length := by
    rcases Nat.lt_or_ge k R.length with hh | hh
    · exact hh
    · rw [List.getElem?_eq_none hh] at hm; cases hm
  have hl : (R.take (k + 1)).length = k + 1 := by simp; omega
  rw [hl, List.getElem?_take]
  simp [hm]

theorem item_run (s : Store) (h : WF s) (dl : DeepList) (index : Nat) (c : NodeId) (done : List NodeId)
    (hc : c ∈ docOrder s dl.root) (hM : matchList s dl = done ++ matchesAfter s dl (some c))
    (hlast : done ≠ [] → done.getLast? = some c) (hi : done.length < index + 1) :
    ∃ cur' i' nx', countSpec index c done.length none (matchesAfter s dl (some c)) = (cur', i', nx') ∧
      (match nx' with
        | some _ => cur'
        | none => none) = (matchList s dl)[index]? ∧
      ((match nx' with
        | some _ => cur'
        | none => none) = none → i' = (matchList s dl).length) ∧
      ∃ done', matchList s dl = done' ++ matchesAfter s dl cur' ∧ i' = done'.length ∧
        (∀ c', cur' = some c' → c' ∈ docOrder s dl.root) ∧ (done' ≠ [] → done'.getLast? = cur') := by
  have hnd := docOrder_nodup h dl.root
  generalize hR : matchesAfter s dl (some c) = R at hM
  have hR' : (afterIn (docOrder s dl.root) c).filter (deepP s dl) = R := hR
  cases hk : R[index - done.length]? with
  | some m =>
    obtain ⟨hmL, hdrop⟩ := filter_after_drop hnd (index - done.length) c R m hc hR' hk
    refine ⟨some m, index + 1, some m, countSpec_found index R c done.length none m hi hk, ?_, ?_, ?_⟩
    · simp only
      rw [hM, List.getElem?_append_right (by omega), hk]
    · intro hh; simp at hh
    · have hklt : index - done.length < R.length := by
        rcases Nat.lt_or_ge (index - done.length) R.length with hh | hh
        · exact hh
        · rw [List.getElem?_eq_none hh] at hk; cases hk
      refine ⟨done ++ R.take (index - done.length + 1), ?_, ?_, ?_, ?_⟩
      · show matchList s dl = _ ++ (afterIn (docOrder s dl.root) m).filter (deepP s dl)
        rw [hdrop, hM, List.append_assoc, List.take_append_drop]
      · simp; omega
      · intro c' hc'; cases hc'; exact hmL
      · intro _
        rw [List.getLast?_append, take_getLast R _ m hk]; rfl
  | none =>
    have hlen : R.length ≤ index - done.length := by
      rcases Nat.lt_or_ge (index - done.length) R.length with hh | hh
      · rw [List.getElem?_eq_getElem hh] at hk; cases hk
      · exact hh
    refine ⟨(R.getLast?).or (some c), done.length + R.length, none,
      countSpec_exhausted index R c done.length none hi hlen, ?_, ?_, ?_⟩
    · simp only
      rw [hM, List.getElem?_eq_none (by simp; omega)]
    · intro _; rw [hM]; simp
    · refine ⟨done ++ R, ?_, by simp, ?_, ?_⟩
      · cases hgl : R.getLast? with
        | none =>
          have : R = [] := List.getLast?_eq_none_iff.mp hgl
          subst this
          simp only [Option.none_or]
          show matchList s dl = _ ++ (afterIn (docOrder s dl.root) c).filter (deepP s dl)
          rw [hR', hM]; simp
        | some l =>
          simp only [Option.some_or]
          have hl : R[R.length - 1]? = some l := by rw [← List.getLast?_eq_getElem?]; exact hgl
          obtain ⟨_, hdrop⟩ := filter_after_drop hnd (R.length - 1) c R l hc hR' hl
          show matchList s dl = _ ++ (afterIn (docOrder s dl.root) l).filter (deepP s dl)
          have hpos : 0 < R.length := by
            cases R with
            | nil => simp at hgl
            | cons a t => simp
          rw [hdrop, hM, show R.length - 1 + 1 = R.length by omega, List.drop_length]; simp
      · intro c' hc'
        cases hgl : R.getLast? with
        | none => rw [hgl] at hc'; simp at hc'; exact hc' ▸ hc
        | some l =>
          rw [hgl] at hc'; simp at hc'; subst hc'
          have hl : R[R.length - 1]? = some l := by rw [← List.getLast?_eq_getElem?]; exact hgl
          exact (filter_after_drop hnd (R.length - 1) c R l hc hR' hl).1
      · intro hne
        rw [List.getLast?_append]
        cases hgl : R.getLast? with
        | none =>
          have : R = [] := List.getLast?_eq_none_iff.mp hgl
          subst this
          simp only [List.append_nil] at hne
          simp [hlast hne]
        | some l => simp

theorem deepP_congr (s : Store) (dl dl' : DeepList) (hr : dl'.root = dl.root) (ht : dl'.tag = dl.tag) :
    deepP s dl' = deepP s dl := by
  funext n; simp [deepP, hr, ht]

theorem consistent_congr (s : Store) (dl dl' : DeepList) (hr : dl'.root = dl.root) (ht : dl'.tag = dl.tag)
    (hc : dl'.cur = dl.cur) (hi : dl'.idx = dl.idx) : Consistent s dl → Consistent s dl' := by
  intro ⟨done, h1, h2, h3, h4⟩
  refine ⟨done, ?_, by rw [hi]; exact h2, by rw [hc, hr]; exact h3, by rw [hc]; exact h4⟩
  unfold matchList matchesAfter at h1 ⊢
  rw [deepP_congr s dl dl' hr ht, hr, hc]
  exact h1

theorem matchesAfter_length (s : Store) (h : WF s) (dl : DeepList) (c : NodeId) (hc : c ∈ docOrder s dl.root) :
    (matchesAfter s dl (some c)).length < s.size + 1 := by
  have hlen := docOrder_length_le' h dl.root
  have hnd := docOrder_nodup h dl.root
  obtain ⟨pre, rest, hL⟩ := List.append_of_mem hc
  have hcp : c ∉ pre := by
    rw [hL] at hnd
    exact fun hm => (List.nodup_append.mp hnd).2.2 c hm c (List.mem_cons_self ..) rfl
  show ((afterIn (docOrder s dl.root) c).filter (deepP s dl)).length < s.size + 1
  rw [hL, afterIn_split pre rest c hcp]
  have := List.length_filter_le (deepP s dl) rest
  rw [hL] at hlen
  simp at hlen
  omega

/-- One query item(index) — whatever the cache holds, stale or not — returns the element number `index` of the matching
elements of the CURRENT tree in document order, and leaves a cache that agrees with the tree. -/
theorem deeplist_item_spec (s : Store) (h : WF s) (chg : Nat) (dl : DeepList) (hok : CacheOK s chg dl) (index : Nat) :
    (dl.item s chg index).2 = (matching s dl.tag dl.root)[index]? ∧
    CacheOK s chg (dl.item s chg index).1 ∧
    (dl.item s chg index).1.root = dl.root ∧ (dl.item s chg index).1.tag = dl.tag ∧
    ((dl.item s chg index).2 = none → (dl.item s chg index).1.idx = (matching s dl.tag dl.root).length) := by
  rw [← matchList_eq s h dl]
  -- the run from a start state (c, done) that agrees with the tree
  have run : ∀ (c : NodeId) (done : List NodeId), c ∈ docOrder s dl.root →
      matchList s dl = done ++ matchesAfter s dl (some c) → (done ≠ [] → done.getLast? = some c) →
      done.length < index + 1 →
      ∀ res : Option NodeId × Nat × Option NodeId,
        res = countLoop s dl index (s.size + 1) (some c) done.length none →
        (match res.2.2 with
          | some _ => res.1
          | none => none) = (matchList s dl)[index]? ∧
        CacheOK s chg { dl with changes := chg, cur := res.1, idx := res.2.1 } ∧
        ((match res.2.2 with
          | some _ => res.1
          | none => none) = none → res.2.1 = (matchList s dl).length) := by
    intro c done hc hM hlast hi res hres
    rw [countLoop_spec h dl index _ c done.length none (s.size + 1) hc rfl (matchesAfter_length s h dl c hc)] at hres
    obtain ⟨cur', i', nx', hcs, hresult, hexh, done', hM', hi', hmem', hlast'⟩ := item_run s h dl index c done hc hM hlast hi
    have hcs' : countSpec index c done.length none ((afterIn (docOrder s dl.root) c).filter (deepP s dl)) = (cur', i', nx') := hcs
    rw [hcs'] at hres
    subst hres
    refine ⟨hresult, ⟨Nat.le_refl _, fun _ => ?_⟩, hexh⟩
    refine ⟨done', ?_, hi', hmem', hlast'⟩
    exact hM'
  have fromRoot : ∀ res : Option NodeId × Nat × Option NodeId,
      res = countLoop s dl index (s.size + 1) (some dl.root) 0 none →
      (match res.2.2 with
        | some _ => res.1
        | none => none) = (matchList s dl)[index]? ∧
      CacheOK s chg { dl with changes := chg, cur := res.1, idx := res.2.1 } ∧
      ((match res.2.2 with
        | some _ => res.1
        | none => none) = none → res.2.1 = (matchList s dl).length) := by
    intro res hres
    have hroot : dl.root ∈ docOrder s dl.root := mem_docOrder_self h _
    have hM : matchList s dl = [] ++ matchesAfter s dl (some dl.root) := by
      show (docOrder s dl.root).tail.filter (deepP s dl) = [] ++ (afterIn (docOrder s dl.root) dl.root).filter (deepP s dl)
      have hL := docOrder_unfold h dl.root
      have : afterIn (docOrder s dl.root) dl.root = (docOrder s dl.root).tail := by
        rw [hL]
        have := afterIn_split [] ((kids s dl.root).flatMap (docOrder s)) dl.root (by simp)
        simpa using this
      rw [this]; rfl
    exact run dl.root [] hroot hM (fun hne => absurd rfl hne) (by simp) res hres
  unfold DeepList.item
  by_cases hch : chg = dl.changes
  · have hcons := hok.2 hch.symm
    have hne : (chg != dl.changes) = false := by simp [hch]
    by_cases hgt : dl.idx > index + 1
    · -- interested in something before the cached node: from scratch
      have hfresh : ((chg != dl.changes) || decide (dl.idx > index + 1)) = true := by simp [hgt]
      simp only [hfresh, Bool.not_true, Bool.false_and, Bool.false_eq_true, if_false, if_true]
      have := fromRoot _ rfl
      exact ⟨this.1, this.2.1, by trivial, by trivial, this.2.2⟩
    · have hfresh : ((chg != dl.changes) || decide (dl.idx > index + 1)) = false := by simp [hne, hgt]
      simp only [hfresh, Bool.not_false, Bool.true_and, Bool.false_eq_true, if_false]
      obtain ⟨done, hM, hidx, hmem, hlast⟩ := hcons
      by_cases heq : index + 1 = dl.idx
      · -- what luck: the cached node
        have hbeq : (index + 1 == dl.idx) = true := by simp [heq]
        rw [if_pos hbeq]
        have hdne : done ≠ [] := by
          intro e; rw [e] at hidx; simp at hidx; omega
        have hval : dl.cur = (matchList s dl)[index]? := by
          rw [← hlast hdne, hM, List.getElem?_append_left (by omega), List.getLast?_eq_getElem?]
          congr 1; omega
        refine ⟨hval, hok, rfl, rfl, ?_⟩
        intro hn
        simp only at hn
        rw [hn] at hval
        have : (matchList s dl)[index]? ≠ none := by
          rw [hM, List.getElem?_append_left (by omega)]
          intro e
          have := List.getElem?_eq_none_iff.mp e
          omega
        exact absurd hval.symm this
      · have hbeq : (index + 1 == dl.idx) = false := by simp [heq]
        rw [if_neg (by rw [hbeq]; exact Bool.false_ne_true)]
        have hlt : done.length < index + 1 := by omega
        cases hcur : dl.cur with
        | none =>
          -- an empty cache of an empty list
          have hcl : ∀ f i nx, countLoop s dl index f none i nx = (none, i, nx) := by
            intro f i nx; cases f <;> rfl
          simp only [hcl]
          have hM0 : matchList s dl = done := by
            rw [hcur] at hM
            simpa [matchesAfter] using hM
          refine ⟨?_, ⟨Nat.le_refl _, fun _ => ?_⟩, by trivial, by trivial, ?_⟩
          rotate_left 2
          · intro _; show dl.idx = (matchList s dl).length; rw [hM0, hidx]
          · rw [hM0, List.getElem?_eq_none (by omega)]
          · refine ⟨done, ?_, hidx, ?_, ?_⟩
            · rw [hcur] at hM; exact hM
            · intro c hc; cases hc
            · intro hd; rw [hlast hd, hcur]
        | some c =>
          have := run c done (hmem c hcur) (by rw [hcur] at hM; exact hM)
            (fun hd => by rw [hlast hd, hcur]) hlt (countLoop s dl index (s.size + 1) (some c) dl.idx none) (by rw [hidx])
          exact ⟨this.1, this.2.1, by trivial, by trivial, this.2.2⟩
  · -- the tree changed: from scratch
    have hne : (chg != dl.changes) = true := by simp [hch]
    simp only [hne, Bool.true_or, Bool.not_true, Bool.false_and, Bool.false_eq_true, if_false, if_true]
    have := fromRoot _ rfl
    exact ⟨this.1, this.2.1, by trivial, by trivial, this.2.2⟩

/-- getLength() — again whatever the cache holds — is the number of matching elements of the current tree (for documents of
fewer than INT_MAX nodes: the C++ preloads with item(INT_MAX)). -/
theorem deeplist_length_spec (s : Store) (h : WF s) (chg : Nat) (dl : DeepList) (hok : CacheOK s chg dl)
    (hsz : s.size < intMax) :
    (dl.length s chg).2 = (matching s dl.tag dl.root).length ∧ CacheOK s chg (dl.length s chg).1 ∧
    (dl.length s chg).1.root = dl.root ∧ (dl.length s chg).1.tag = dl.tag := by
  unfold DeepList.length
  obtain ⟨_, hok1, hr1, ht1, _⟩ := deeplist_item_spec s h chg dl hok 0
  obtain ⟨hres2, hok2, hr2, ht2, hex2⟩ := deeplist_item_spec s h chg (dl.item s chg 0).1 hok1 intMax
  rw [hr1, ht1] at hres2 hex2
  have hlen : (matching s dl.tag dl.root).length ≤ s.size := by
    unfold matching
    have h1 := List.length_filter_le (tagMatches s dl.tag) (docOrder s dl.root).tail
    have h2 := docOrder_length_le' h dl.root
    simp at h1
    omega
  have hnone : ((dl.item s chg 0).1.item s chg intMax).2 = none := by
    rw [hres2]; exact List.getElem?_eq_none (by omega)
  exact ⟨hex2 hnone, hok2, by rw [hr2, hr1], by rw [ht2, ht1]⟩

-- ---- the change counters

theorem changesOf_bump_same (v : VState) (chg : List (NodeId × Nat)) (d : NodeId) :
    changesOf { v with chg := bump chg d } d = changesOf { v with chg := chg } d + 1 := by
  unfold changesOf bump
  simp only
  induction chg with
  | nil => simp
  | cons p t ih =>
    by_cases hp : p.1 = d
    · simp [hp]
    · have hb : (p.1 == d) = false := by simp [hp]
      simp only [List.any_cons, hb, Bool.false_or, List.find?_cons, List.map_cons] at ih ⊢
      by_cases hany : (t.any fun p => p.1 == d) = true
      · simp only [hany, if_true] at ih ⊢
        simp only [hb, Bool.false_eq_true, if_false, List.find?_cons]
        exact ih
      · simp only [hany, Bool.false_eq_true, if_false] at ih ⊢
        have hd : ((d, 1) : NodeId × Nat).1 == d := by simp
        simp only [List.find?_cons, hd, hb] at ih ⊢
        exact ih

/-- a tree in which nothing changed between two stores keeps every consistent cache consistent -/
theorem consistent_of_shape (s s' : Store) (h : WF s) (dl : DeepList)
    (hdo : ∀ r, docOrder s' r = docOrder s r)
    (htm : ∀ x, x < s.size → tagMatches s' dl.tag x = tagMatches s dl.tag x) :
    Consistent s dl → Consistent s' dl := by
  intro ⟨done, h1, h2, h3, h4⟩
  have hnd := docOrder_nodup h dl.root
  have hP : ∀ x, x ∈ (docOrder s dl.root).tail → deepP s' dl x = deepP s dl x := by
    intro x hx
    unfold deepP
    rw [htm x (tail_docOrder_lt_size h hx)]
  refine ⟨done, ?_, h2, ?_, h4⟩
  · have e1 : matchList s' dl = matchList s dl := by
      unfold matchList
      rw [hdo]
      exact List.filter_congr hP
    have e2 : matchesAfter s' dl dl.cur = matchesAfter s dl dl.cur := by
      cases hc : dl.cur with
      | none => rfl
      | some c =>
        show (afterIn (docOrder s' dl.root) c).filter (deepP s' dl) = (afterIn (docOrder s dl.root) c).filter (deepP s dl)
        rw [hdo]
        apply List.filter_congr
        intro x hx
        exact hP x (afterIn_subset_tail _ c (h3 c hc) hnd x hx)
    rw [e1, e2]; exact h1
  · intro c hc; rw [hdo]; exact h3 c hc

-- ---- mutations interleaved with queries

theorem notify_frame (cfg : Cfg) (v : VState) (s : Store) (ev : Ev) :
    (notify cfg v s ev).lists = v.lists ∧ (notify cfg v s ev).chg = v.chg ∧ (notify cfg v s ev).store = v.store := by
  unfold notify
  cases ev <;> simp only <;> (try split) <;> (first | exact ⟨rfl, rfl, rfl⟩ | simp)

theorem notifyAll_frame (cfg : Cfg) (log : Log) : ∀ v : VState,
    (notifyAll cfg v log).lists = v.lists ∧ (notifyAll cfg v log).chg = v.chg ∧ (notifyAll cfg v log).store = v.store := by
  induction log with
  | nil => intro v; exact ⟨rfl, rfl, rfl⟩
  | cons e t ih =>
    intro v
    unfold notifyAll
    simp only [List.foldl_cons]
    have h1 := notify_frame cfg v e.1 e.2
    have h2 := ih (notify cfg v e.1 e.2)
    unfold notifyAll at h2
    exact ⟨h2.1.trans h1.1, h2.2.1.trans h1.2.1, h2.2.2.trans h1.2.2⟩

theorem splitNotify_frame (cfg : Cfg) (v : VState) (s s' : Store) (t k off : Nat) :
    (splitNotify cfg v s s' t k off).lists = v.lists ∧ (splitNotify cfg v s s' t k off).chg = v.chg := by
  unfold splitNotify
  cases parentOf s t with
  | none =>
    simp only
    split
    · exact ⟨(notify_frame cfg v s' _).1, (notify_frame cfg v s' _).2.1⟩
    · exact ⟨(notify_frame cfg v s' _).1, (notify_frame cfg v s' _).2.1⟩
  | some p =>
    simp only [Option.isNone_some, Bool.false_eq_true, false_and, if_false]
    have h1 := notify_frame cfg v s' (.inserted k)
    cases cfg.splitKeepsAfter with
    | true =>
      simp only [if_true]
      have h2 := notify_frame cfg (splitAfterAll (notify cfg v s' (.inserted k)) s' k) s' (.split t k off)
      exact ⟨h2.1.trans h1.1, h2.2.1.trans h1.2.1⟩
    | false =>
      simp only [Bool.false_eq_true, if_false]
      have h2 := notify_frame cfg (notify cfg v s' (.inserted k)) s' (.split t k off)
      exact ⟨h2.1.trans h1.1, h2.2.1.trans h1.2.1⟩

/-- what one C13 operation does to the parts of the state the tag-name lists depend on -/
theorem vstep_frame (v : VState) (op : Op) :
    (vstep {} v op).1.lists = v.lists ∧
    ((step v.store op).2.isOk = false → (vstep {} v op).1 = v) ∧
    ((step v.store op).2.isOk = true →
      (vstep {} v op).1.store = (step v.store op).1 ∧
      (vstep {} v op).1.chg = if opBumps {} op = true then bumpFor v.store v.chg op else v.chg) := by
  unfold vstep
  simp only
  generalize (step v.store op).1 = s'
  generalize (step v.store op).2 = res
  cases hok : res.isOk with
  | false => simp
  | true =>
    simp only [Bool.not_true, Bool.false_eq_true, if_false]
    have key : ∀ v1 : VState, v1.lists = v.lists → v1.chg = v.chg →
        ({ v1 with store := s', chg := if opBumps {} op = true then bumpFor v.store v1.chg op else v1.chg } : VState).lists = v.lists ∧
        ((if opBumps {} op = true then bumpFor v.store v1.chg op else v1.chg) =
            if opBumps {} op = true then bumpFor v.store v.chg op else v.chg) := by
      intro v1 h1 h2
      refine ⟨h1, ?_⟩
      rw [h2]
    split
    · rename_i t off k
      have hf := splitNotify_frame {} v v.store s' t k off
      have := key _ hf.1 hf.2
      exact ⟨this.1, by simp, fun _ => ⟨by trivial, this.2⟩⟩
    · have hf := notifyAll_frame {} (opLog v.store op) v
      have := key _ hf.1 hf.2.1
      exact ⟨this.1, by simp, fun _ => ⟨by trivial, this.2⟩⟩

/-- `s'` has the tree shapes and element names of `s` -/
def SameShape (s s' : Store) : Prop :=
  (∀ r, docOrder s' r = docOrder s r) ∧ (∀ tag x, x < s.size → tagMatches s' tag x = tagMatches s tag x) ∧
  (∀ x, kids s' x = kids s x)

theorem sameShape_refl (s : Store) : SameShape s s := ⟨fun _ => rfl, fun _ _ _ => rfl, fun _ => rfl⟩

theorem shape_createNode (s : Store) (h : WF s) (d : NodeId) (chk : Option (List Nat)) (mk : NodeRec)
    (hmk : mk.children = []) : SameShape s (createNode s d chk mk).1 := by
  have ha : SameShape s (s.alloc mk).1 :=
    ⟨docOrder_alloc s h mk hmk, fun tag x hx => tagMatches_alloc s mk tag x hx, kids_alloc s mk hmk⟩
  unfold createNode
  repeat' split
  all_goals first | exact sameShape_refl s | exact ha

theorem shape_charDataOp (s : Store) (t : NodeId) (op : CDOp) : SameShape s (charDataOp s t op).1 := by
  have hd : ∀ d, SameShape s (setDataOf s t d) := fun d =>
    ⟨docOrder_setDataOf s t d, fun tag x _ => tagMatches_setDataOf s t d tag x, kids_setDataOf s t d⟩
  unfold charDataOp
  repeat' split
  all_goals first | exact sameShape_refl s | exact hd _

/-- the operations that do not advance the change counter (node creation, character data) leave every tree shape and
every element name as they are -/
theorem nonbump_shape (s : Store) (h : WF s) (op : Op) (hb : opBumps {} op = false) : SameShape s (step s op).1 := by
  cases op <;> simp only [opBumps] at hb <;> (try cases hb) <;> simp only [step]
  all_goals first
    | exact shape_createNode s h _ _ _ rfl
    | exact shape_charDataOp s _ _

theorem changesOf_congr (v v' : VState) (d : NodeId) (h : v'.chg = v.chg) : changesOf v' d = changesOf v d := by
  unfold changesOf; rw [h]

theorem changesOf_bumped (v v' : VState) (d : NodeId) (h : v'.chg = bump v.chg d) :
    changesOf v' d = changesOf v d + 1 := by
  have := changesOf_bump_same v v.chg d
  have e1 : changesOf v' d = changesOf { v with chg := bump v.chg d } d := changesOf_congr _ _ d h
  have e2 : changesOf { v with chg := v.chg } d = changesOf v d := changesOf_congr _ _ d rfl
  rw [e1, this, e2]

theorem item_doc (s : Store) (c : Nat) (dl : DeepList) (i : Nat) : (dl.item s c i).1.doc = dl.doc := by
  unfold DeepList.item
  simp only
  split
  · rfl
  · generalize countLoop s dl i (s.size + 1) _ _ none = res
    obtain ⟨cur, j, nx⟩ := res
    rfl

theorem length_doc (s : Store) (c : Nat) (dl : DeepList) : (dl.length s c).1.doc = dl.doc := by
  unfold DeepList.length
  simp only
  rw [item_doc, item_doc]

/-- the operations of the protocol that concern tag-name lists: any C13 mutation, creation of a list, item(i), getLength() -/
inductive LOp
  | dom (op : Op)
  | mk (root : NodeId) (tag : List Nat)
  | item (k i : Nat)
  | len (k : Nat)

def LOp.toVOp : LOp → VOp
  | .dom op => .dom op
  | .mk r t => .mkList r t
  | .item k i => .listItem k i
  | .len k => .listLen k

/-- one step of the (repaired) model -/
def lstep (v : VState) (o : LOp) : VState × VRes := vop {} v o.toVOp

/-- Invariant of a document `d` with its live tag-name lists: the store is well-formed, every list belongs to `d` and its
cache is either stamped with a past value of `d`'s change counter or agrees with the tree, and as long as the counter is
still 0 nothing has ever been linked (lists are created with the stamp 0). -/
structure ListInv (d : NodeId) (v : VState) : Prop where
  wf : WF v.store
  lists : ∀ dl, dl ∈ v.lists → dl.doc = d ∧ CacheOK v.store (changesOf v d) dl
  virgin : changesOf v d = 0 → ∀ x, kids v.store x = []

/-- side conditions of one operation: a mutation that advances a change counter advances the one of document `d` (mutations
of OTHER documents are not covered by the theorem), a list is created on a node of `d`, getLength is asked of a store of
fewer than INT_MAX nodes -/
def OpOK (d : NodeId) (v : VState) : LOp → Prop
  | .dom op => opBumps {} op = true → bumpDoc v.store op = some d
  | .mk root _ => docOf v.store root = d
  | .item _ _ => True
  | .len _ => v.store.size < intMax

theorem mem_set_cases {α : Type} (l : List α) (k : Nat) (a x : α) (h : x ∈ l.set k a) : x = a ∨ x ∈ l := by
  rcases List.mem_or_eq_of_mem_set h with h1 | h1
  · exact Or.inr h1
  · exact Or.inl h1

/-- One step: the invariant is kept, and a query answers from the CURRENT tree: item(i) is the i-th matching element in
document order computed afresh, getLength() their number. -/
theorem deeplist_step (d : NodeId) (v : VState) (hinv : ListInv d v) (o : LOp) (hok : OpOK d v o) :
    ListInv d (lstep v o).1 ∧
    (∀ k i dl, o = .item k i → v.lists[k]? = some dl → dl.alive v.store = true →
      (lstep v o).2 = .node ((matching v.store dl.tag dl.root)[i]?)) ∧
    (∀ k dl, o = .len k → v.lists[k]? = some dl → dl.alive v.store = true →
      (lstep v o).2 = .num (matching v.store dl.tag dl.root).length) := by
  cases o with
  | dom op =>
    refine ⟨?_, ?_, ?_⟩
    rotate_left
    · intro _ _ _ hh; cases hh
    · intro _ _ hh; cases hh
    show ListInv d (vop {} v (.dom op)).1
    simp only [vop]
    obtain ⟨hl, hfail, hsucc⟩ := vstep_frame v op
    cases hres : (step v.store op).2.isOk with
    | false => rw [hfail hres]; exact hinv
    | true =>
      obtain ⟨hst, hchg⟩ := hsucc hres
      have hwf : WF (vstep {} v op).1.store := by rw [hst]; exact XV.Props.C13.wf_step v.store hinv.wf op
      cases hb : opBumps {} op with
      | true =>
        have hbd := hok hb
        have hc : (vstep {} v op).1.chg = bump v.chg d := by
          rw [hchg, if_pos hb]; unfold bumpFor; rw [hbd]
        have hcnt := changesOf_bumped v (vstep {} v op).1 d hc
        refine ⟨hwf, ?_, fun h0 => by omega⟩
        intro dl hdl
        rw [hl] at hdl
        obtain ⟨hd, hle, _⟩ := hinv.lists dl hdl
        exact ⟨hd, by omega, fun he => by omega⟩
      | false =>
        have hc : (vstep {} v op).1.chg = v.chg := by rw [hchg]; simp [hb]
        have hcnt := changesOf_congr v (vstep {} v op).1 d hc
        have hshape := nonbump_shape v.store hinv.wf op hb
        refine ⟨hwf, ?_, ?_⟩
        · intro dl hdl
          rw [hl] at hdl
          obtain ⟨hd, hle, hcons⟩ := hinv.lists dl hdl
          refine ⟨hd, by rw [hcnt]; exact hle, fun he => ?_⟩
          rw [hst]
          exact consistent_of_shape v.store _ hinv.wf dl hshape.1 (hshape.2.1 dl.tag) (hcons (by rw [← hcnt]; exact he))
        · intro h0 x
          rw [hst, hshape.2.2 x]
          exact hinv.virgin (by rw [← hcnt]; exact h0) x
  | mk root tag =>
    refine ⟨?_, ?_, ?_⟩
    rotate_left
    · intro _ _ _ hh; cases hh
    · intro _ _ hh; cases hh
    show ListInv d (vop {} v (.mkList root tag)).1
    simp only [vop]
    cases hr : v.store.get root with
    | none => exact hinv
    | some r =>
      simp only
      split
      · exact hinv
      · refine ⟨hinv.wf, ?_, hinv.virgin⟩
        intro dl hdl
        simp only [List.mem_append, List.mem_singleton] at hdl
        rcases hdl with hdl | hdl
        · exact hinv.lists dl hdl
        · subst hdl
          refine ⟨hok, Nat.zero_le _, fun he => ?_⟩
          -- a list stamped 0 on a document whose counter is 0: nothing has ever been linked
          have hk := hinv.virgin he.symm
          refine ⟨[], ?_, ?_, ?_, ?_⟩
          · show (docOrder v.store root).tail.filter _ = [] ++ []
            rw [docOrder_unfold hinv.wf root, hk root]
            rfl
          · rfl
          · intro c hc; cases hc
          · intro hne; exact absurd rfl hne
  | item k i =>
    refine ⟨?_, ?_, ?_⟩
    rotate_left 2
    · intro _ _ hh; cases hh
    · show ListInv d (vop {} v (.listItem k i)).1
      simp only [vop]
      cases hk : v.lists[k]? with
      | none => exact hinv
      | some dl =>
        simp only
        split
        · exact hinv
        · have hmem : dl ∈ v.lists := List.mem_of_getElem? hk
          obtain ⟨hd, hcache⟩ := hinv.lists dl hmem
          obtain ⟨_, hok', _, _, _⟩ := deeplist_item_spec v.store hinv.wf (changesOf v d) dl hcache i
          refine ⟨hinv.wf, ?_, hinv.virgin⟩
          intro dl2 hdl2
          show dl2.doc = d ∧ CacheOK v.store (changesOf v d) dl2
          rcases mem_set_cases _ _ _ _ hdl2 with e | hm
          · subst e
            rw [hd]
            exact ⟨by rw [item_doc]; exact hd, hok'⟩
          · exact hinv.lists dl2 hm
    · intro k' i' dl hh hk halive
      cases hh
      show (vop {} v (.listItem k i)).2 = _
      simp only [vop]
      rw [hk]
      simp only [halive, Bool.not_true, Bool.false_eq_true, if_false]
      have hmem : dl ∈ v.lists := List.mem_of_getElem? hk
      obtain ⟨hd, hcache⟩ := hinv.lists dl hmem
      rw [hd]
      rw [(deeplist_item_spec v.store hinv.wf (changesOf v d) dl hcache i).1]
  | len k =>
    refine ⟨?_, ?_, ?_⟩
    rotate_left
    · intro _ _ _ hh; cases hh
    rotate_left
    · show ListInv d (vop {} v (.listLen k)).1
      simp only [vop]
      cases hk : v.lists[k]? with
      | none => exact hinv
      | some dl =>
        simp only
        split
        · exact hinv
        · have hmem : dl ∈ v.lists := List.mem_of_getElem? hk
          obtain ⟨hd, hcache⟩ := hinv.lists dl hmem
          obtain ⟨_, hok', _, _⟩ := deeplist_length_spec v.store hinv.wf (changesOf v d) dl hcache hok
          refine ⟨hinv.wf, ?_, hinv.virgin⟩
          intro dl2 hdl2
          show dl2.doc = d ∧ CacheOK v.store (changesOf v d) dl2
          rcases mem_set_cases _ _ _ _ hdl2 with e | hm
          · subst e
            rw [hd]
            exact ⟨by rw [length_doc]; exact hd, hok'⟩
          · exact hinv.lists dl2 hm
    · intro k' dl hh hk halive
      cases hh
      show (vop {} v (.listLen k)).2 = _
      simp only [vop]
      rw [hk]
      simp only [halive, Bool.not_true, Bool.false_eq_true, if_false]
      have hmem : dl ∈ v.lists := List.mem_of_getElem? hk
      obtain ⟨hd, hcache⟩ := hinv.lists dl hmem
      rw [hd]
      rw [(deeplist_length_spec v.store hinv.wf (changesOf v d) dl hcache hok).1]

/-- the states reachable from freshly created documents by ANY interleaving of C13 mutations, creations of tag-name lists
and queries (subject to `OpOK`: counted mutations are mutations of document `d`) -/
inductive Reach (d : NodeId) : VState → Prop
  | init (n : Nat) : Reach d { store := init n }
  | step {v : VState} (o : LOp) : Reach d v → OpOK d v o → Reach d (lstep v o).1

theorem listInv_init (d n : Nat) : ListInv d { store := init n } := by
  refine ⟨XV.Props.C13.wf_init n, ?_, ?_⟩
  · intro dl hdl; cases hdl
  · intro _ x
    show parentKids (init n) x = []
    unfold parentKids
    rw [get_init]
    by_cases hx : x < n
    · rw [if_pos hx]
    · rw [if_neg hx]

/-- **deeplist_cache_transparent.**  After ANY interleaving of mutations and queries, item(i) and getLength() of a live
tag-name list answer as if computed afresh on the current tree: the i-th element / the number of the matching elements
of `docOrder` of the root — the cache (fCurrentNode, fCurrentIndexPlus1, fChanges) is unobservable.
False of the current C++ for renameNode, which does not advance the change counter (witness below); the model advances it. -/
theorem deeplist_cache_transparent (d : NodeId) (v : VState) (hr : Reach d v) :
    ListInv d v ∧
    (∀ k i dl, v.lists[k]? = some dl → dl.alive v.store = true →
      (lstep v (.item k i)).2 = .node ((matching v.store dl.tag dl.root)[i]?)) ∧
    (∀ k dl, v.lists[k]? = some dl → dl.alive v.store = true → v.store.size < intMax →
      (lstep v (.len k)).2 = .num (matching v.store dl.tag dl.root).length) := by
  have hinv : ListInv d v := by
    induction hr with
    | init n => exact listInv_init d n
    | step o _ hok ih => exact (deeplist_step d _ ih o hok).1
  refine ⟨hinv, ?_, ?_⟩
  · intro k i dl hk ha
    exact (deeplist_step d v hinv (.item k i) trivial).2.1 k i dl rfl hk ha
  · intro k dl hk ha hsz
    exact (deeplist_step d v hinv (.len k) hsz).2.2 k dl rfl hk ha

-- ------------------------------------------------------------------ range_fixup_spec

/-- a rule for single boundary points, applied to both boundary points of a range -/
def mapBP (f : BP → BP) (r : Range) : Range :=
  { r with sc := (f (r.sc, r.so)).1, so := (f (r.sc, r.so)).2, ec := (f (r.ec, r.eo)).1, eo := (f (r.ec, r.eo)).2 }

theorem range_ext (r r' : Range) (h1 : r.doc = r'.doc) (h2 : r.sc = r'.sc) (h3 : r.so = r'.so) (h4 : r.ec = r'.ec)
    (h5 : r.eo = r'.eo) (h6 : r.detached = r'.detached) : r = r' := by
  cases r; cases r'; simp_all

/-- updateRangeForInsertedNode = DOM Range 2.12.1 for the node `node`, just linked in as child number `idx` of `p` -/
theorem fixup_insertedNode (s : Store) (r : Range) (node p : NodeId) (hp : parentOf s node = some p) :
    r.insertedNode s node = mapBP (bpInsertedNode p (indexIn s p node)) r := by
  obtain ⟨doc, sc, so, ec, eo, det⟩ := r
  simp only [Range.insertedNode, mapBP, bpInsertedNode, hp, Option.some.injEq]
  by_cases a1 : p = sc <;> by_cases a2 : p = ec
  · subst a1; subst a2
    by_cases b1 : indexIn s p node < so <;> by_cases b2 : indexIn s p node < eo <;> simp [*]
  · subst a1
    have a2' : ¬ ec = p := fun e => a2 e.symm
    by_cases b1 : indexIn s p node < so <;> simp [*]
  · subst a2
    have a1' : ¬ sc = p := fun e => a1 e.symm
    by_cases b2 : indexIn s p node < eo <;> simp [*]
  · have a1' : ¬ sc = p := fun e => a1 e.symm
    have a2' : ¬ ec = p := fun e => a2 e.symm
    simp [*]

/-- updateRangeForDeletedNode = DOM Range 2.12.2 for the child `node` (number `idx`) of `p`, about to be unlinked:
points inside the subtree go to (p, idx), later points in `p` move down by one. -/
theorem fixup_deletedNode (s : Store) (h : WF s) (r : Range) (node p : NodeId) (hp : parentOf s node = some p) :
    r.deletedNode s node = mapBP (bpDeletedNode p (indexIn s p node) (isAncOf s node)) r := by
  have hnp := not_isAncOf_parent h hp
  obtain ⟨doc, sc, so, ec, eo, det⟩ := r
  simp only [Range.deletedNode, mapBP, bpDeletedNode, hp, Option.some.injEq, ne_eq]
  by_cases a1 : p = sc <;> by_cases a2 : p = ec
  · subst a1; subst a2
    by_cases b1 : so > indexIn s p node <;> by_cases b2 : eo > indexIn s p node <;> simp [*]
  · subst a1
    have a2' : ¬ ec = p := fun e => a2 e.symm
    by_cases b1 : so > indexIn s p node <;> by_cases c2 : isAncOf s node ec = true <;> simp [*]
  · subst a2
    have a1' : ¬ sc = p := fun e => a1 e.symm
    by_cases b2 : eo > indexIn s p node <;> by_cases c1 : isAncOf s node sc = true <;> simp [*]
  · have a1' : ¬ sc = p := fun e => a1 e.symm
    have a2' : ¬ ec = p := fun e => a2 e.symm
    by_cases c1 : isAncOf s node sc = true <;> by_cases c2 : isAncOf s node ec = true <;> simp [*]

/-- updateRangeForInsertedText (repaired, F6) = DOM Range 2.12.1 for `cnt` characters inserted at `off` into the character
data `node` -/
theorem fixup_insertedText (s : Store) (r : Range) (node : NodeId) (off cnt : Nat) (ht : textLike s node = true) :
    r.insertedText s node off cnt = mapBP (bpInsertedText node off cnt) r := by
  obtain ⟨doc, sc, so, ec, eo, det⟩ := r
  have e1 : (node = sc ∧ textLike s sc = true ∧ so > off) ↔ (sc = node ∧ off < so) :=
    ⟨fun ⟨a, _, c⟩ => ⟨a.symm, c⟩, fun ⟨a, c⟩ => ⟨a.symm, a ▸ ht, c⟩⟩
  have e2 : (node = ec ∧ textLike s ec = true ∧ eo > off) ↔ (ec = node ∧ off < eo) :=
    ⟨fun ⟨a, _, c⟩ => ⟨a.symm, c⟩, fun ⟨a, c⟩ => ⟨a.symm, a ▸ ht, c⟩⟩
  simp only [Range.insertedText, mapBP, bpInsertedText, e1]
  split <;> simp only [e2] <;> split <;> rfl

/-- updateRangeForDeletedText = DOM Range 2.12.2 for the characters [off, off+cnt) deleted from `node` -/
theorem fixup_deletedText (s : Store) (r : Range) (node : NodeId) (off cnt : Nat) (ht : textLike s node = true) :
    r.deletedText s node off cnt = mapBP (bpDeletedText node off cnt) r := by
  obtain ⟨doc, sc, so, ec, eo, det⟩ := r
  have e1 : (node = sc ∧ textLike s sc = true) ↔ (sc = node) :=
    ⟨fun ⟨a, _⟩ => a.symm, fun a => ⟨a.symm, a ▸ ht⟩⟩
  have e2 : (node = ec ∧ textLike s ec = true) ↔ (ec = node) :=
    ⟨fun ⟨a, _⟩ => a.symm, fun a => ⟨a.symm, a ▸ ht⟩⟩
  simp only [Range.deletedText, mapBP, bpDeletedText, e1]
  by_cases a1 : sc = node <;> by_cases a2 : ec = node
  all_goals
    by_cases b1 : so > off + cnt <;> by_cases b2 : eo > off + cnt <;>
    by_cases c1 : so > off <;> by_cases c2 : eo > off <;> simp [*]

/-- receiveReplacedText: points inside the replaced character data go to its start -/
theorem fixup_replacedText (s : Store) (r : Range) (node : NodeId) (ht : textLike s node = true) :
    r.replacedText s node = mapBP (bpReplacedText node) r := by
  obtain ⟨doc, sc, so, ec, eo, det⟩ := r
  have e1 : (node = sc ∧ textLike s sc = true) ↔ (sc = node) :=
    ⟨fun ⟨a, _⟩ => a.symm, fun a => ⟨a.symm, a ▸ ht⟩⟩
  have e2 : (node = ec ∧ textLike s ec = true) ↔ (ec = node) :=
    ⟨fun ⟨a, _⟩ => a.symm, fun a => ⟨a.symm, a ▸ ht⟩⟩
  simp only [Range.replacedText, mapBP, bpReplacedText, e1]
  by_cases a1 : sc = node <;> by_cases a2 : ec = node <;> simp [*]

/-- updateSplitInfo: the characters from `off` on, and the points in them, move to the new node -/
theorem fixup_splitInfo (s : Store) (r : Range) (old nw : NodeId) (off : Nat) (ht : textLike s old = true) :
    r.splitInfo s old nw off = mapBP (bpSplit old nw off) r := by
  obtain ⟨doc, sc, so, ec, eo, det⟩ := r
  have e1 : (old = sc ∧ textLike s sc = true ∧ so > off) ↔ (sc = old ∧ off < so) :=
    ⟨fun ⟨a, _, c⟩ => ⟨a.symm, c⟩, fun ⟨a, c⟩ => ⟨a.symm, a ▸ ht, c⟩⟩
  have e2 : (old = ec ∧ textLike s ec = true ∧ eo > off) ↔ (ec = old ∧ off < eo) :=
    ⟨fun ⟨a, _, c⟩ => ⟨a.symm, c⟩, fun ⟨a, c⟩ => ⟨a.symm, a ▸ ht, c⟩⟩
  simp only [Range.splitInfo, mapBP, bpSplit, e1]
  split <;> simp only [e2] <;> split <;> rfl

/-- **range_fixup_spec.**  Each of the six fix-up functions the DOM calls on its ranges moves both boundary points by the
rule of DOM Range 2.12 for that mutation (`updateRangeForInsertedText` as repaired: DESIGN §5 F6). -/
theorem range_fixup_spec (s : Store) (h : WF s) (r : Range) :
    (∀ node p, parentOf s node = some p →
      r.insertedNode s node = mapBP (bpInsertedNode p (indexIn s p node)) r ∧
      r.deletedNode s node = mapBP (bpDeletedNode p (indexIn s p node) (isAncOf s node)) r) ∧
    (∀ node off cnt, textLike s node = true →
      r.insertedText s node off cnt = mapBP (bpInsertedText node off cnt) r ∧
      r.deletedText s node off cnt = mapBP (bpDeletedText node off cnt) r ∧
      r.replacedText s node = mapBP (bpReplacedText node) r) ∧
    (∀ old nw off, textLike s old = true → r.splitInfo s old nw off = mapBP (bpSplit old nw off) r) :=
  ⟨fun node p hp => ⟨fixup_insertedNode s r node p hp, fixup_deletedNode s h r node p hp⟩,
   fun node off cnt ht => ⟨fixup_insertedText s r node off cnt ht, fixup_deletedText s r node off cnt ht,
     fixup_replacedText s r node ht⟩,
   fun old nw off ht => fixup_splitInfo s r old nw off ht⟩

/-- The current C++ `updateRangeForInsertedText` is NOT the rule of DOM Range 2.12.1 (F6): range [3,4] in a text,
insertData(1, "XY") gives start 1 instead of 5. -/
theorem insertedText_asIs_wrong :
    ∃ (s : Store) (r : Range) (t off cnt : Nat), textLike s t = true ∧
      r.insertedTextAsIs s t off cnt ≠ mapBP (bpInsertedText t off cnt) r ∧
      (r.insertedTextAsIs s t off cnt).so = 1 ∧ (mapBP (bpInsertedText t off cnt) r).so = 5 := by
  refine ⟨(step (init 1) (.createText 0 [0x41, 0x42, 0x43, 0x44, 0x45])).1,
    { doc := 0, sc := 1, so := 3, ec := 1, eo := 4 }, 1, 1, 2, by decide, by decide, by decide, by decide⟩

-- ------------------------------------------------------------------ range_valid_preserved (bounds)

/-- a boundary point is usable: its container is a live node and the offset does not exceed the container's length -/
def bpOK (s : Store) (b : BP) : Prop := (s.get b.1).isSome = true ∧ b.2 ≤ lenOf s b.1

/-- the part of `ValidRange` that concerns each boundary point alone -/
def BoundsOK (s : Store) (r : Range) : Prop := bpOK s (r.sc, r.so) ∧ bpOK s (r.ec, r.eo)

theorem boundsOK_mapBP (s s' : Store) (f : BP → BP) (r : Range) (hf : ∀ b, bpOK s b → bpOK s' (f b)) :
    BoundsOK s r → BoundsOK s' (mapBP f r) := fun ⟨h1, h2⟩ => ⟨hf _ h1, hf _ h2⟩

/-- insertData(off, d) on the character data `t` followed by updateRangeForInsertedText -/
theorem bounds_insertData (s : Store) (r : Range) (t off : Nat) (d : List Nat) (ht : textLike s t = true)
    (hoff : off ≤ (dataOf s t).length) (hb : BoundsOK s r) :
    let s' := setDataOf s t (insertAtOff (dataOf s t) off d)
    BoundsOK s' (r.insertedText s' t off d.length) := by
  intro s'
  have htl : (s.get t).isSome = true := by
    unfold textLike at ht
    cases hg : s.get t with
    | none => rw [hg] at ht; cases ht
    | some _ => rfl
  rw [fixup_insertedText s' r t off d.length (by rw [textLike_setDataOf]; exact ht)]
  apply boundsOK_mapBP s s' _ r _ hb
  intro b ⟨hl, hlen⟩
  have hlen' : ∀ x, lenOf s' x = if x = t then (dataOf s t).length + d.length else lenOf s x := by
    intro x
    show lenOf (setDataOf s t _) x = _
    rw [lenOf_setDataOf]
    by_cases e : x = t
    · subst e; simp [htl, ht, length_insertAtOff _ _ _ hoff]
    · simp [e]
  have hlt : lenOf s t = (dataOf s t).length := by unfold lenOf; rw [ht]; rfl
  unfold bpInsertedText bpOK
  split
  · rename_i hc
    refine ⟨by show ((setDataOf s t _).get b.1).isSome = true; rw [live_setDataOf]; exact hl, ?_⟩
    simp only
    rw [hlen', if_pos hc.1]
    rw [hc.1, hlt] at hlen
    omega
  · refine ⟨by show ((setDataOf s t _).get b.1).isSome = true; rw [live_setDataOf]; exact hl, ?_⟩
    rw [hlen']
    by_cases e : b.1 = t
    · rw [if_pos e]; rw [e, hlt] at hlen; omega
    · rw [if_neg e]; exact hlen

/-- deleteData(off, cnt) followed by updateRangeForDeletedText with the clamped count -/
theorem bounds_deleteData (s : Store) (r : Range) (t off cnt : Nat) (ht : textLike s t = true)
    (hoff : off ≤ (dataOf s t).length) (hb : BoundsOK s r) :
    let s' := setDataOf s t (deleteRange (dataOf s t) off cnt)
    BoundsOK s' (r.deletedText s' t off (clampCount (dataOf s t).length off cnt)) := by
  intro s'
  have htl : (s.get t).isSome = true := by
    unfold textLike at ht
    cases hg : s.get t with
    | none => rw [hg] at ht; cases ht
    | some _ => rfl
  rw [fixup_deletedText s' r t off _ (by rw [textLike_setDataOf]; exact ht)]
  apply boundsOK_mapBP s s' _ r _ hb
  intro b ⟨hl, hlen⟩
  have hcl : clampCount (dataOf s t).length off cnt = min cnt ((dataOf s t).length - off) := by
    unfold clampCount
    simp only
    split <;> split <;> omega
  have hdl : (deleteRange (dataOf s t) off cnt).length = (dataOf s t).length - min cnt ((dataOf s t).length - off) := by
    unfold deleteRange
    simp
    omega
  have hlen' : ∀ x, lenOf s' x = if x = t then (dataOf s t).length - min cnt ((dataOf s t).length - off) else lenOf s x := by
    intro x
    show lenOf (setDataOf s t _) x = _
    rw [lenOf_setDataOf]
    by_cases e : x = t
    · subst e; simp [htl, ht, hdl]
    · simp [e]
  have hlt : lenOf s t = (dataOf s t).length := by unfold lenOf; rw [ht]; rfl
  have hlive : ∀ x, (s.get x).isSome = true → (s'.get x).isSome = true := by
    intro x hx
    show ((setDataOf s t _).get x).isSome = true
    rw [live_setDataOf]; exact hx
  rw [hcl]
  unfold bpDeletedText bpOK
  by_cases e : b.1 = t
  · rw [if_pos e]
    rw [e, hlt] at hlen
    split
    · exact ⟨hlive _ hl, by simp only; rw [hlen', if_pos e]; omega⟩
    · split
      · exact ⟨hlive _ hl, by simp only; rw [hlen', if_pos e]; omega⟩
      · exact ⟨hlive _ hl, by rw [hlen', if_pos e]; omega⟩
  · rw [if_neg e]
    exact ⟨hlive _ hl, by rw [hlen', if_neg e]; exact hlen⟩

/-- setData(d) followed by receiveReplacedText -/
theorem bounds_setData (s : Store) (r : Range) (t : Nat) (d : List Nat) (ht : textLike s t = true) (hb : BoundsOK s r) :
    let s' := setDataOf s t d
    BoundsOK s' (r.replacedText s' t) := by
  intro s'
  rw [fixup_replacedText s' r t (by rw [textLike_setDataOf]; exact ht)]
  apply boundsOK_mapBP s s' _ r _ hb
  intro b ⟨hl, hlen⟩
  have hlive : ∀ x, (s.get x).isSome = true → (s'.get x).isSome = true := by
    intro x hx
    show ((setDataOf s t _).get x).isSome = true
    rw [live_setDataOf]; exact hx
  unfold bpReplacedText bpOK
  split
  · rename_i e
    exact ⟨hlive _ (e ▸ hl), Nat.zero_le _⟩
  · rename_i e
    refine ⟨hlive _ hl, ?_⟩
    show b.2 ≤ lenOf (setDataOf s t d) b.1
    rw [lenOf_setDataOf, if_neg (fun hh => e hh.1)]
    exact hlen

/-- removeChild(c): updateRangeForDeletedNode on the store before the unlink, then the unlink -/
theorem bounds_removeChild (s : Store) (h : WF s) (r : Range) (c p : NodeId) (hp : parentOf s c = some p)
    (htp : textLike s p = false) (hb : BoundsOK s r) :
    BoundsOK (detach s c) (r.deletedNode s c) := by
  rw [fixup_deletedNode s h r c p hp]
  apply boundsOK_mapBP s _ _ r _ hb
  intro b ⟨hl, hlen⟩
  have hidx := indexIn_lt h hp htp
  have hpl : (s.get p).isSome = true := by
    obtain ⟨rx, hrx, hpp⟩ := parentOf_some hp
    obtain ⟨rq, hrq, _⟩ := h.parentChild c rx p hrx hpp
    rw [hrq]; rfl
  unfold bpDeletedNode bpOK
  split
  · exact ⟨by rw [live_detach]; exact hpl, by simp only; rw [lenOf_detach h hp htp, if_pos rfl]; omega⟩
  · split
    · rename_i hc
      refine ⟨by rw [live_detach]; exact hl, ?_⟩
      simp only
      rw [lenOf_detach h hp htp, if_pos hc.1]
      rw [hc.1] at hlen
      omega
    · rename_i hc
      refine ⟨by rw [live_detach]; exact hl, ?_⟩
      rw [lenOf_detach h hp htp]
      by_cases e : b.1 = p
      · rw [if_pos e]
        rw [e] at hlen
        have : ¬ indexIn s p c < b.2 := fun hh => hc ⟨e, hh⟩
        omega
      · rw [if_neg e]; exact hlen

/-- insertBefore(n, ref) of a parentless node: the link surgery, then updateRangeForInsertedNode on the store after it -/
theorem bounds_insertBefore (s : Store) (h : WF s) (r : Range) (n p : NodeId) (ref : Option NodeId)
    (hn : parentOf s n = none) (hpl : (s.get p).isSome = true) (htp : textLike s p = false)
    (hp' : parentOf (moveNodes s [n] p ref) n = some p) (hb : BoundsOK s r) :
    BoundsOK (moveNodes s [n] p ref) (r.insertedNode (moveNodes s [n] p ref) n) := by
  rw [fixup_insertedNode _ r n p hp']
  apply boundsOK_mapBP s _ _ r _ hb
  intro b ⟨hl, hlen⟩
  unfold bpInsertedNode bpOK
  split
  · rename_i hc
    refine ⟨by rw [live_moveNodes]; exact hl, ?_⟩
    simp only
    rw [lenOf_moveOne h ref hn hpl htp, if_pos hc.1]
    rw [hc.1] at hlen
    omega
  · refine ⟨by rw [live_moveNodes]; exact hl, ?_⟩
    rw [lenOf_moveOne h ref hn hpl htp]
    by_cases e : b.1 = p
    · rw [if_pos e]; rw [e] at hlen; omega
    · rw [if_neg e]; exact hlen

-- ------------------------------------------------------------------ compareBoundaryPoints_order

theorem keyCmp_refl (k : Nat) : keyCmp k k = 0 := by unfold keyCmp; simp

theorem keyCmp_swap (k l : Nat) : keyCmp l k = - keyCmp k l := by
  unfold keyCmp
  by_cases h1 : k < l
  · rw [if_pos h1, if_neg (by omega), if_neg (by omega)]; rfl
  · by_cases h2 : k = l
    · subst h2; simp
    · rw [if_neg h1, if_neg h2, if_pos (by omega)]

theorem keyCmp_le (k l : Nat) : keyCmp k l ≤ 0 ↔ k ≤ l := by
  unfold keyCmp
  by_cases h1 : k < l
  · rw [if_pos h1]; constructor <;> intro _ <;> omega
  · by_cases h2 : k = l
    · subst h2; simp
    · rw [if_neg h1, if_neg h2]; constructor <;> intro _ <;> omega

/-- **compareBoundaryPoints_order.**  On the boundary points of one tree (offsets within the containers) the comparison of
DOMRangeImpl::compareBoundaryPoints is the comparison of the positions `bpKey` in the linearised tree; hence it is a total
preorder — reflexive, antisymmetric in the sense cmp(b,a) = −cmp(a,b), transitive — and it extends the document order: the
points before the nodes of `docOrder` are strictly increasing.  (`TextLeaves`: character data has no children, which holds
in every store the operations can reach.) -/
theorem compareBoundaryPoints_order (s : Store) (h : WF s) (htl : TextLeaves s) :
    (∀ a oa b ob, rootOf s a = rootOf s b → oa ≤ lenOf s a → ob ≤ lenOf s b →
      cmpPoints s a oa b ob = keyCmp (bpKey s (a, oa)) (bpKey s (b, ob))) ∧
    (∀ a oa, oa ≤ lenOf s a → cmpPoints s a oa a oa = 0) ∧
    (∀ a oa b ob, rootOf s a = rootOf s b → oa ≤ lenOf s a → ob ≤ lenOf s b →
      cmpPoints s b ob a oa = - cmpPoints s a oa b ob) ∧
    (∀ a oa b ob c oc, rootOf s a = rootOf s b → rootOf s b = rootOf s c → oa ≤ lenOf s a → ob ≤ lenOf s b →
      oc ≤ lenOf s c → cmpPoints s a oa b ob ≤ 0 → cmpPoints s b ob c oc ≤ 0 → cmpPoints s a oa c oc ≤ 0) ∧
    (∀ r, (docOrder s r).Pairwise (fun x y => bpKey s (x, 0) < bpKey s (y, 0))) := by
  refine ⟨fun a oa b ob hr ha hb => cmpPoints_key h htl a oa b ob hr ha hb, ?_, ?_, ?_, ?_⟩
  · intro a oa ha
    rw [cmpPoints_key h htl a oa a oa rfl ha ha, keyCmp_refl]
  · intro a oa b ob hr ha hb
    rw [cmpPoints_key h htl a oa b ob hr ha hb, cmpPoints_key h htl b ob a oa hr.symm hb ha, keyCmp_swap]
  · intro a oa b ob c oc h1 h2 ha hb hc
    rw [cmpPoints_key h htl a oa b ob h1 ha hb, cmpPoints_key h htl b ob c oc h2 hb hc,
      cmpPoints_key h htl a oa c oc (h1.trans h2) ha hc, keyCmp_le, keyCmp_le, keyCmp_le]
    omega
  · intro r
    have := docOrder_sorted_by_enter h htl r
    refine List.Pairwise.imp ?_ this
    intro x y hxy
    have e : ∀ z, innerPos s z 0 = 1 := by
      intro z
      cases ht : textLike s z with
      | true => rw [innerPos_text ht]
      | false => rw [innerPos_elem ht]; simp [prefixW]
    rw [bpKey_eq, bpKey_eq, e, e]
    omega

/-- compareBoundaryPoints(how, src) compares the boundary points `how` names -/
theorem compare_how (s : Store) (r src : Range) :
    r.compare s .startToStart src = cmpPoints s r.sc r.so src.sc src.so ∧
    r.compare s .startToEnd src = cmpPoints s r.ec r.eo src.sc src.so ∧
    r.compare s .endToStart src = cmpPoints s r.sc r.so src.ec src.eo ∧
    r.compare s .endToEnd src = cmpPoints s r.ec r.eo src.ec src.eo := ⟨rfl, rfl, rfl, rfl⟩

-- ------------------------------------------------------------------ clone_pure

/-- **clone_pure.**  cloneContents() leaves every existing node exactly as it was — parent, children, attributes, data:
it only adds nodes (the fragment and the copies) — and the fragment it returns is one of the new nodes. -/
theorem clone_pure (s : Store) (h : WF s) (r : Range) :
    (∀ i, i < s.size → (cloneContents s r).1.get i = s.get i) ∧ s.size ≤ (cloneContents s r).1.size ∧
    s.size ≤ (cloneContents s r).2 := by
  have hinv : CloneInv s (rangeContent .clone s r) := by
    unfold rangeContent
    have h0 : CloneInv s { store := s } := ⟨ext_refl s, fun t ht => by cases ht⟩
    split
    · split
      · exact h0
      · exact selText_clone_inv _ _ _ _ h0
    · exact selContent_clone_inv h _ _ _ _ _ h0
  unfold cloneContents wrapFragment
  simp only
  generalize rangeContent .clone s r = sel at hinv
  have hsz : s.size ≤ sel.store.size := hinv.1.1
  have hext1 : Ext s (sel.store.alloc { kind := .fragment, owner := r.doc }).1 := by
    refine ⟨by rw [size_alloc]; omega, ?_⟩
    intro i hi
    have hne : ¬ i = sel.store.size := by omega
    rw [get_alloc, if_neg hne]
    exact hinv.1.2 i hi
  have hF : s.size ≤ (sel.store.alloc { kind := .fragment, owner := r.doc }).2 := hsz
  have := ext_appendAll_new h hext1 _ hF sel.tops hinv.2
  exact ⟨this.2, this.1, hF⟩

-- ------------------------------------------------------------------ extract_eq_clone_then_delete, toString_spec (partial)

/- FULL STATEMENTS (not proved; the parts below are):
   extract_eq_clone_then_delete : for every valid range r of a well-formed store s,
     (1) the range after extractContents = the range after deleteContents,
     (2) every node of s that deleteContents leaves attached has the same record after extractContents, the nodes it detaches
         are the ones that hang under the returned fragment,
     (3) the fragment of extractContents is structurally equal (isEqualNode) to the fragment of cloneContents on s.
   toString_spec : for every valid range r, r.toStringCode s = rangeText s r (the code's pointer walk = the declarative
     selection of character data), and rangeText s r = the text content of the fragment of cloneContents.
   Both need that the traversal takes the same decisions on the store it has already modified and that C13's cloneInto is a
   faithful copy; they are checked by correspondence (tools/props/c14.py: range-*-fragment-wrong, range-*-tree-wrong,
   range-toString-wrong against a second, Python reference). -/

/-- (1): extractContents and deleteContents leave the range at the same (collapsed) position. -/
theorem extract_eq_clone_then_delete_partial (s : Store) (r : Range) :
    (extractContents s r).2.2.1 = (deleteContents s r).2.1 ∧
    ((extractContents s r).2.2.1).collapsed = true := by
  refine ⟨rfl, ?_⟩
  simp [extractContents, Range.collapsed]

/-- toString() of the code on the two simplest shapes of a range: a collapsed range has no text, a range inside one Text /
CDATASection node has the characters between the offsets — as `rangeText` says. -/
theorem toString_spec_partial (s : Store) (r : Range) :
    (r.sc = r.ec → r.so = r.eo → r.toStringCode s = []) ∧
    (r.sc = r.ec → r.so ≠ r.eo → isCharText s r.sc = true →
      r.toStringCode s = ((dataOf s r.sc).take r.eo).drop r.so ∧ rangeText s r = ((dataOf s r.sc).take r.eo).drop r.so) := by
  constructor
  · intro h1 h2
    unfold Range.toStringCode Range.toStringWith
    rw [if_pos ⟨h1, h2⟩]
  · intro h1 h2 h3
    have htl : textLike s r.sc = true := by
      unfold isCharText isKind at h3
      unfold textLike
      cases hg : s.get r.sc with
      | none => rw [hg] at h3; simp at h3
      | some rr =>
        rw [hg] at h3
        simp only [Bool.or_eq_true, beq_iff_eq] at h3
        rcases h3 with e | e <;> simp [isTextLike, e]
    constructor
    · unfold Range.toStringCode Range.toStringWith
      rw [if_neg (fun hh => h2 hh.2), if_pos ⟨h3, h1⟩]
    · unfold rangeText
      rw [if_pos ⟨h1, htl⟩, if_pos h3]

end XV.Lemmas.ViewsMain
