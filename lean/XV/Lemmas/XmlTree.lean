/- Round-trip lemmas for stage 2 of the reference recogniser: tokens ↔ tree. -/
import XV.Lemmas.XmlTok
namespace XV.Lemmas.Xml
open XV.Spec.Xml XV.Spec.XmlChar

/-- the rest of the tokens is empty or starts with an end tag (where `parseNodes` stops) -/
def EndOk : List Tok → Prop
  | [] => True
  | .etag _ _ :: _ => True
  | _ => False

theorem toksL_cons (n : Node) (ns : List Node) : Node.toksL (n :: ns) = n.toks ++ Node.toksL ns := by
  simp [Node.toksL]

theorem parseNodes_render_aux : ∀ (k : Nat) (ns : List Node) (fuel : Nat) (rest : List Tok),
    (Node.toksL ns).length ≤ k → EndOk rest → (Node.toksL ns).length < fuel →
    parseNodes fuel (Node.toksL ns ++ rest) = .ok (ns, rest) := by
  intro k
  induction k with
  | zero =>
    intro ns fuel rest hk he hf
    cases ns with
    | nil =>
      cases fuel with
      | zero => simp at hf
      | succ f =>
        cases rest with
        | nil => simp [Node.toksL, parseNodes]
        | cons t ts =>
          cases t <;> simp [EndOk] at he
          simp [Node.toksL, parseNodes]
    | cons n ns =>
      exfalso
      cases n <;> simp [Node.toksL, Node.toks] at hk
  | succ k ih =>
    intro ns fuel rest hk he hf
    cases fuel with
    | zero => simp at hf
    | succ f =>
      cases ns with
      | nil =>
        cases rest with
        | nil => simp [Node.toksL, parseNodes]
        | cons t ts =>
          cases t <;> simp [EndOk] at he
          simp [Node.toksL, parseNodes]
      | cons n ns =>
        rw [toksL_cons] at hk hf ⊢
        cases n with
        | leaf l =>
          simp only [Node.toks, List.length_append, List.length_cons, List.length_nil] at hk hf
          have := ih ns f rest (by omega) he (by omega)
          simp only [Node.toks, List.cons_append, List.nil_append, parseNodes, this]
        | empty t =>
          simp only [Node.toks, List.length_append, List.length_cons, List.length_nil] at hk hf
          have := ih ns f rest (by omega) he (by omega)
          simp only [Node.toks, List.cons_append, List.nil_append, parseNodes, this]
        | elem t kids en ew =>
          simp only [Node.toks, List.length_append, List.length_cons, List.length_nil] at hk hf
          have h1 := ih kids f (.etag en ew :: (Node.toksL ns ++ rest)) (by omega) trivial (by omega)
          have h2 := ih ns f rest (by omega) he (by omega)
          have e : Node.toks (.elem t kids en ew) ++ Node.toksL ns ++ rest =
              .stag t :: (Node.toksL kids ++ .etag en ew :: (Node.toksL ns ++ rest)) := by
            simp [Node.toks, List.append_assoc]
          rw [e]
          simp only [parseNodes, h1, h2]

theorem parseNodes_render (ns : List Node) (fuel : Nat) (rest : List Tok) (he : EndOk rest)
    (hf : (Node.toksL ns).length < fuel) : parseNodes fuel (Node.toksL ns ++ rest) = .ok (ns, rest) :=
  parseNodes_render_aux _ ns fuel rest (Nat.le_refl _) he hf

theorem parseNodes_sound : ∀ (fuel : Nat) (ts : List Tok) (ns : List Node) (r : List Tok),
    parseNodes fuel ts = .ok (ns, r) → ts = Node.toksL ns ++ r ∧ EndOk r
  | 0, ts, ns, r, h => by simp [parseNodes] at h
  | f + 1, [], ns, r, h => by
    simp only [parseNodes, Except.ok.injEq, Prod.mk.injEq] at h
    obtain ⟨rfl, rfl⟩ := h
    simp [Node.toksL, EndOk]
  | f + 1, tk :: ts, ns, r, h => by
    simp only [parseNodes] at h
    cases tk with
    | etag n w =>
      simp only [Except.ok.injEq, Prod.mk.injEq] at h
      obtain ⟨rfl, rfl⟩ := h
      simp [Node.toksL, EndOk]
    | doctype d => simp at h
    | leaf l =>
      simp only at h
      cases h1 : parseNodes f ts with
      | error e => simp [h1] at h
      | ok res =>
        obtain ⟨ns', r'⟩ := res
        simp only [h1, Except.ok.injEq, Prod.mk.injEq] at h
        obtain ⟨rfl, rfl⟩ := h
        have ih := parseNodes_sound f ts ns' r' h1
        exact ⟨by rw [ih.1]; simp [Node.toksL, Node.toks], ih.2⟩
    | empty t =>
      simp only at h
      cases h1 : parseNodes f ts with
      | error e => simp [h1] at h
      | ok res =>
        obtain ⟨ns', r'⟩ := res
        simp only [h1, Except.ok.injEq, Prod.mk.injEq] at h
        obtain ⟨rfl, rfl⟩ := h
        have ih := parseNodes_sound f ts ns' r' h1
        exact ⟨by rw [ih.1]; simp [Node.toksL, Node.toks], ih.2⟩
    | stag t =>
      simp only at h
      cases h1 : parseNodes f ts with
      | error e => simp [h1] at h
      | ok res =>
        obtain ⟨kids, r1⟩ := res
        simp only [h1] at h
        cases r1 with
        | nil => simp at h
        | cons e r2 =>
          simp only at h
          cases e with
          | leaf _ => simp at h
          | stag _ => simp at h
          | empty _ => simp at h
          | doctype _ => simp at h
          | etag en ew =>
            simp only at h
            cases h2 : parseNodes f r2 with
            | error e => simp [h2] at h
            | ok res2 =>
              obtain ⟨ns', r'⟩ := res2
              simp only [h2, Except.ok.injEq, Prod.mk.injEq] at h
              obtain ⟨rfl, rfl⟩ := h
              have i1 := parseNodes_sound f ts kids _ h1
              have i2 := parseNodes_sound f r2 ns' r' h2
              exact ⟨by rw [i1.1, i2.1]; simp [Node.toksL, Node.toks, List.append_assoc], i2.2⟩

/-! ### the document level -/

def NotLeafHead : List Tok → Prop
  | .leaf _ :: _ => False
  | _ => True

theorem takeLeaves_append (ls : List Leaf) (rest : List Tok) (h : NotLeafHead rest) :
    takeLeaves (ls.map .leaf ++ rest) = (ls, rest) := by
  induction ls with
  | nil =>
    cases rest with
    | nil => simp [takeLeaves]
    | cons t ts => cases t <;> simp [NotLeafHead] at h <;> simp [takeLeaves]
  | cons l ls ih => simp [takeLeaves, ih]

theorem takeLeaves_sound (ts : List Tok) :
    ts = (takeLeaves ts).1.map .leaf ++ (takeLeaves ts).2 ∧ NotLeafHead (takeLeaves ts).2 := by
  induction ts with
  | nil => simp [takeLeaves, NotLeafHead]
  | cons t ts ih =>
    cases t with
    | leaf l => simp only [takeLeaves, List.map_cons, List.cons_append]; exact ⟨by rw [← ih.1], ih.2⟩
    | stag _ => simp [takeLeaves, NotLeafHead]
    | etag _ _ => simp [takeLeaves, NotLeafHead]
    | empty _ => simp [takeLeaves, NotLeafHead]
    | doctype _ => simp [takeLeaves, NotLeafHead]

theorem buildRoot_render (decl : Option XmlDecl) (pre : List Leaf) (dt : Option (Doctype × List Leaf)) (root : Node)
    (post : List Leaf) (hroot : root.isElement = true) :
    buildRoot decl pre dt (root.toks ++ post.map .leaf) = .ok ⟨decl, pre, dt, root, post⟩ := by
  have hp : takeLeaves (post.map Tok.leaf) = (post, []) := by
    have := takeLeaves_append post [] trivial
    simpa using this
  cases root with
  | leaf l => simp [Node.isElement] at hroot
  | empty t => simp only [Node.toks, List.cons_append, List.nil_append, buildRoot, hp, if_true]
  | elem t kids en ew =>
    have e : Node.toks (.elem t kids en ew) ++ post.map Tok.leaf =
        Tok.stag t :: (Node.toksL kids ++ Tok.etag en ew :: post.map Tok.leaf) := by
      simp [Node.toks, List.append_assoc]
    have h2 := parseNodes_render kids ((Node.toksL kids ++ Tok.etag en ew :: post.map Tok.leaf).length + 1)
      (Tok.etag en ew :: post.map Tok.leaf) trivial (by simp; omega)
    rw [e]
    simp only [buildRoot, h2, hp, if_true]

theorem buildRoot_sound (decl : Option XmlDecl) (pre : List Leaf) (dt : Option (Doctype × List Leaf)) (ts : List Tok)
    (d : Doc) (h : buildRoot decl pre dt ts = .ok d) :
    d.decl = decl ∧ d.pre = pre ∧ d.doctype = dt ∧ d.root.toks ++ d.post.map .leaf = ts ∧ d.root.isElement = true := by
  cases ts with
  | nil => simp [buildRoot] at h
  | cons x r =>
    cases x with
    | leaf _ => simp [buildRoot] at h
    | etag _ _ => simp [buildRoot] at h
    | doctype _ => simp [buildRoot] at h
    | empty t =>
      simp only [buildRoot] at h
      by_cases hr : (takeLeaves r).2 = []
      · rw [if_pos hr] at h
        simp only [Except.ok.injEq] at h
        subst h
        have s2 := takeLeaves_sound r
        rw [hr, List.append_nil] at s2
        refine ⟨rfl, rfl, rfl, ?_, rfl⟩
        simp only [Node.toks, List.cons_append, List.nil_append]
        rw [← s2.1]
      · rw [if_neg hr] at h; cases h
    | stag t =>
      simp only [buildRoot] at h
      cases hn : parseNodes (r.length + 1) r with
      | error e => simp [hn] at h
      | ok res =>
        obtain ⟨kids, r1⟩ := res
        simp only [hn] at h
        cases r1 with
        | nil => simp at h
        | cons e r' =>
          simp only at h
          cases e with
          | leaf _ => simp at h
          | stag _ => simp at h
          | empty _ => simp at h
          | doctype _ => simp at h
          | etag en ew =>
            simp only at h
            by_cases hr : (takeLeaves r').2 = []
            · rw [if_pos hr] at h
              simp only [Except.ok.injEq] at h
              subst h
              have s2 := takeLeaves_sound r'
              rw [hr, List.append_nil] at s2
              have s3 := parseNodes_sound _ _ _ _ hn
              refine ⟨rfl, rfl, rfl, ?_, rfl⟩
              simp only [Node.toks, List.cons_append, List.append_assoc, List.nil_append]
              rw [s3.1, ← s2.1]
            · rw [if_neg hr] at h; cases h

theorem root_toks_notLeafHead (root : Node) (rest : List Tok) (h : root.isElement = true) :
    NotLeafHead (root.toks ++ rest) := by
  cases root with
  | leaf l => simp [Node.isElement] at h
  | empty t => simp [Node.toks, NotLeafHead]
  | elem t kids en ew => simp [Node.toks, NotLeafHead]

theorem buildDoc_render (d : Doc) (hdt : d.doctype = none) (hroot : d.root.isElement = true) :
    buildDoc d.decl d.toks = .ok d := by
  obtain ⟨decl, pre, doctype, root, post⟩ := d
  simp only at hdt hroot
  subst hdt
  have e : Doc.toks ⟨decl, pre, none, root, post⟩ = pre.map .leaf ++ (root.toks ++ post.map .leaf) := by
    simp [Doc.toks, List.append_assoc]
  have h1 := takeLeaves_append pre (root.toks ++ post.map .leaf) (root_toks_notLeafHead root _ hroot)
  have hr := buildRoot_render decl pre none root post hroot
  rw [e]
  simp only [buildDoc, h1]
  cases root with
  | leaf l => simp [Node.isElement] at hroot
  | empty t => simpa [Node.toks] using hr
  | elem t kids en ew => simpa [Node.toks] using hr

theorem buildDoc_sound (decl : Option XmlDecl) (ts : List Tok) (d : Doc) (h : buildDoc decl ts = .ok d) :
    d.decl = decl ∧ d.toks = ts ∧ d.root.isElement = true := by
  have s1 := takeLeaves_sound ts
  simp only [buildDoc] at h
  cases hT : (takeLeaves ts).2 with
  | nil =>
    simp only [hT] at h
    simp [buildRoot] at h
  | cons x xs =>
    cases x with
    | doctype dd =>
      simp only [hT] at h
      have s2 := takeLeaves_sound xs
      obtain ⟨h1, h2, h3, h4, h5⟩ := buildRoot_sound _ _ _ _ _ h
      refine ⟨h1, ?_, h5⟩
      simp only [Doc.toks, h2, h3]
      rw [List.append_assoc, h4]
      conv => rhs; rw [s1.1, hT, s2.1]
      simp [List.append_assoc]
    | leaf l => simp only [hT] at h; simp [buildRoot] at h
    | etag _ _ => simp only [hT] at h; simp [buildRoot] at h
    | empty t =>
      simp only [hT] at h
      obtain ⟨h1, h2, h3, h4, h5⟩ := buildRoot_sound _ _ _ _ _ h
      refine ⟨h1, ?_, h5⟩
      simp only [Doc.toks, h2, h3]
      rw [List.append_nil, List.append_assoc, h4]
      conv => rhs; rw [s1.1, hT]
    | stag t =>
      simp only [hT] at h
      obtain ⟨h1, h2, h3, h4, h5⟩ := buildRoot_sound _ _ _ _ _ h
      refine ⟨h1, ?_, h5⟩
      simp only [Doc.toks, h2, h3]
      rw [List.append_nil, List.append_assoc, h4]
      conv => rhs; rw [s1.1, hT]

end XV.Lemmas.Xml
