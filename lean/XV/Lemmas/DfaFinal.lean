/-
C07 — assembly: `buildDFA (nodeOfCM c)` yields `DfaData`, the element map covers every leaf name, hence
`dfa_iff'`: the code-shaped DFAContentModel accepts exactly `CM.Lang c`.  Core Lean only.
-/
import XV.Lemmas.DfaTable
namespace XV.Lemmas.DfaFinal
open XV.Spec.ContentModel XV.Model.ContentModel XV.Lemmas.Glushkov XV.Lemmas.DfaTree XV.Lemmas.DfaRun XV.Lemmas.DfaTable

theorem countLeafNodes_nodeOfCM (c : CM) : countLeafNodes (nodeOfCM c) = size c := by
  induction c <;> simp [nodeOfCM, countLeafNodes, size, *]

theorem mem_elemMapOf_acc : ∀ (l acc : List (Option Name)) (x : Option Name), x ∈ acc → x ∈ elemMapOf l acc := by
  intro l
  induction l with
  | nil => intro acc x h; exact h
  | cons n ns ih =>
    intro acc x h
    simp only [elemMapOf]
    split
    · exact ih acc x h
    · exact ih _ x (by simp [h])

theorem mem_elemMapOf : ∀ (l acc : List (Option Name)) (x : Option Name), x ∈ l → x ∈ elemMapOf l acc := by
  intro l
  induction l with
  | nil => intro acc x h; cases h
  | cons n ns ih =>
    intro acc x h
    simp only [elemMapOf]
    simp only [List.mem_cons] at h
    split
    · rename_i hc
      rcases h with rfl | h
      · exact mem_elemMapOf_acc ns acc x (by simpa using hc)
      · exact ih acc x h
    · rcases h with rfl | h
      · exact mem_elemMapOf_acc ns _ x (by simp)
      · exact ih _ x h

theorem getD_replicate_zero (n p : Nat) : (List.replicate n (0 : Nat)).getD p 0 = 0 := by
  simp only [List.getD_eq_getElem?_getD, List.getElem?_replicate]
  split <;> rfl

/-- the lists computed by `buildDFA` for the tree of `c` -/
theorem dfaData_of_build (c : CM) :
    let st0 : BState := { curIndex := 0, leafList := [], followList := List.replicate (size c + 1) 0 }
    let r := buildSyntaxTree (nodeOfCM c) st0
    DfaData c (r.2.leafList ++ [none]) (addFollow r.2.followList r.1.lastPos (bit (size c)))
      (if r.1.nullable then r.1.firstPos ||| bit (size c) else r.1.firstPos) := by
  intro st0 r
  have T := buildSyntaxTree_spec c st0
  constructor
  · rw [T.leaves]; rfl
  · intro p q
    rw [testBit_addFollow, T.follow, T.len, T.last, testBit_bit]
    simp only [st0, getD_replicate_zero, Nat.zero_testBit, Bool.false_or, List.length_replicate]
    by_cases hp : p < size c + 1
    · simp [hp, eq_comm]
    · have h1 : fol c 0 p q = false := by
        cases h : fol c 0 p q
        · rfl
        · have := (fol_range h).1; omega
      have h2 : last c 0 p = false := by
        cases h : last c 0 p
        · rfl
        · have := last_range h; omega
      simp [hp, h1, h2]
  · intro p
    rw [← T.nullable]
    cases hn : r.1.nullable
    · simp [r, T.first, st0]
    · simp [r, Nat.testBit_or, T.first, testBit_bit, eq_comm, st0]

theorem stepSet_lt {c : CM} {ll : List (Option Name)} {fl : List StateSet} {head : StateSet}
    (D : DfaData c ll fl head) (S : StateSet) (e : Option Name) : stepSet ll fl S e < 2 ^ (size c + 1) := by
  apply Nat.lt_pow_two_of_testBit
  intro i hi
  cases h : (stepSet ll fl S e).testBit i
  · rfl
  · obtain ⟨p, _, _, h3⟩ := (testBit_stepSet ll fl S e i).1 h
    rw [D.fl_eq] at h3
    simp only [Bool.or_eq_true, Bool.and_eq_true, decide_eq_true_eq] at h3
    rcases h3 with h3 | ⟨_, h3⟩
    · have := (fol_range h3).2; omega
    · omega

theorem stepSet_cov (ll : List (Option Name)) (fl : List StateSet) (e : Option Name)
    (he : e ∉ elemMapOf ll []) (S : StateSet) : stepSet ll fl S e = 0 := by
  apply Nat.eq_of_testBit_eq
  intro q
  rw [Nat.zero_testBit]
  cases h : (stepSet ll fl S e).testBit q
  · rfl
  · obtain ⟨p, h1, _, _⟩ := (testBit_stepSet ll fl S e q).1 h
    exact absurd (mem_elemMapOf ll [] e (List.mem_of_getElem? h1)) he

/-- the code-shaped DFAContentModel (construction + table walk) accepts exactly the language of the
    particle, for every particle and every child sequence; in particular the construction terminates
    within its fuel bound -/
theorem dfa_iff' (c : CM) (w : List Name) :
    (Model.dfa (nodeOfCM c)).validate w = .ok ↔ CM.Lang c w := by
  have D := dfaData_of_build c
  simp only at D
  simp only [Model.validate, buildDFA, countLeafNodes_nodeOfCM, Nat.add_sub_cancel]
  generalize hr : buildSyntaxTree (nodeOfCM c)
      { curIndex := 0, leafList := [], followList := List.replicate (size c + 1) 0 } = r at D
  obtain ⟨org, st1⟩ := r
  simp only at D ⊢
  have T := buildSyntaxTree_spec c { curIndex := 0, leafList := [], followList := List.replicate (size c + 1) 0 }
  rw [hr] at T
  simp only at T
  generalize hll : st1.leafList ++ [none] = ll at D
  generalize hfl : addFollow st1.followList org.lastPos (bit (size c)) = fl at D
  generalize hhead : (if org.nullable = true then org.firstPos ||| bit (size c) else org.firstPos) = head at D
  have hb := stepSet_lt D
  have hB : Bounded (size c + 1) [head] := ⟨by simp, by simp, by simp⟩
  have hT0 : TableOK ll fl (elemMapOf ll []) [head] [] := ⟨by simp, by intro i row h; simp at h⟩
  obtain ⟨ext, rows, e1, e2, e3⟩ :=
    dfaLoop_spec ll fl (size c + 1) hb (elemMapOf ll []) (2 ^ (size c + 1) + 2) [head] [] hB hT0 (by simp)
  rw [e1]
  simp only
  cases w with
  | nil =>
    simp only [dfaValidate]
    rw [← nullable_iff_lang_nil, ← T.nullable]
    cases org.nullable <;> simp
  | cons x w =>
    simp only [dfaValidate]
    rw [dfaWalk_spec ll fl (elemMapOf ll []) ([head] ++ ext) rows (size c) org.nullable e2 e3
      (fun e he S => stepSet_cov ll fl e he S) (x :: w) 0 0 (by simp)]
    have : ([head] ++ ext).getD 0 0 = head := rfl
    rw [this]
    exact runMask_accepts D x w

end XV.Lemmas.DfaFinal
