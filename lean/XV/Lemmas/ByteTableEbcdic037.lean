/- kernel-checked facts about the generated Ebcdic037 tables (one module per table so that lake checks them in parallel) -/
import XV.Model.ByteCodec
namespace XV.Lemmas.ByteTableEbcdic037
open XV.Model.ByteCodec XV.Gen.ByteTables

def WellFormed (t : Table) : Prop :=
    t.declaredToSize = t.toTable.length ∧ t.fromTable.length = 256 ∧ 0 < t.toTable.length ∧
    strictSorted (t.toTable.map (·.1)) = true ∧ t.toTable.getD 0 (1, 1) = (0, 0) ∧
    (∀ b, b < 256 → t.fromTable.getD b 0xFFFF ≠ 0xFFFF)

theorem wellformed : tblEbcdic037.declaredToSize = tblEbcdic037.toTable.length ∧ tblEbcdic037.fromTable.length = 256 ∧ 0 < tblEbcdic037.toTable.length ∧
    strictSorted (tblEbcdic037.toTable.map (·.1)) = true ∧ tblEbcdic037.toTable.getD 0 (1, 1) = (0, 0) ∧
    (∀ b, b < 256 → tblEbcdic037.fromTable.getD b 0xFFFF ≠ 0xFFFF) := by decide +kernel

theorem roundtrip : ∀ b, b < 256 →
    tblEbcdic037.fromTable.getD (lookup tblEbcdic037.toTable (tblEbcdic037.fromTable.getD b 0xFFFF)) 0xFFFF = tblEbcdic037.fromTable.getD b 0xFFFF := by
  decide +kernel

theorem to_consistent : ∀ p ∈ tblEbcdic037.toTable,
    p.2 < 256 ∧ p.1 < 65536 ∧ (p.1 ∈ tblEbcdic037.fromTable → tblEbcdic037.fromTable.getD p.2 0xFFFF = p.1) := by decide +kernel

end XV.Lemmas.ByteTableEbcdic037
